// Correspondence driver: runs the implementation built from /repo's current
// working tree on the cases the harness generated and prints one canonical
// result line per command.  Every case runs in its own forked child with a
// watchdog, so a crash, sanitizer abort or hang is an *observation*.
//
// usage: driver <casefile> [timeout_seconds]
// casefile:   CASE <name> / command lines / END
// output:     CASE <name> / result lines / STATUS <...> / ERR <line>* / END
#include <algorithm>
#include <cassert>
#include <chrono>
#include <cmath>
#include <condition_variable>
#include <csignal>
#include <cstdio>
#include <cstdlib>
#include <cstring>
#include <deque>
#include <fstream>
#include <functional>
#include <iostream>
#include <map>
#include <memory>
#include <mutex>
#include <set>
#include <sstream>
#include <string>
#include <string_view>
#include <thread>
#include <vector>
#include <atomic>
#include <fcntl.h>
#include <poll.h>
#include <sys/wait.h>
#include <unistd.h>

#define private public
#define protected public
#include "StringDictionary.h"
#include "StringDictionaryHASHRPDACBlocks.h"
#include "iterators/IteratorDictStringPlain.h"
#include "utils/LogSequence.h"
#include "utils/VByte.h"
#include "utils/DAC_VLS.h"
#include "utils/DAC_BVLS.h"
#include "parallel/Worker.hpp"
#undef private
#undef protected

// the library prints notices to std::cout; results go to a separate stream
static FILE *g_out = stdout;
#define printf(...) fprintf(g_out, __VA_ARGS__)

#include "driver_util.h"

// command tables: generated include list (cxx/cmds.list), see tools/vlib.py gen_cmds_header
#include "cmds_gen.h"

static bool run_command(State &st, const std::vector<std::string> &tk) {
  if (tk.empty())
    return true;
  if (run_command_gen(st, tk))
    return true;
  printf("UNKNOWN %s\n", tk[0].c_str());
  return false;
}

static void run_case_child(const std::vector<std::string> &lines) {
  State st;
  for (auto &l : lines) {
    auto tk = split(l);
    run_command(st, tk);
    fflush(g_out);
  }
  fflush(g_out);
}

int main(int argc, char **argv) {
  if (argc < 2) {
    fprintf(stderr, "usage: driver <casefile> [timeout]\n");
    return 2;
  }
  int timeout_s = argc > 2 ? atoi(argv[2]) : 20;
  std::ifstream in(argv[1]);
  std::string line;
  std::string name;
  std::vector<std::string> lines;
  bool incase = false;
  while (std::getline(in, line)) {
    if (!incase) {
      if (line.rfind("CASE ", 0) == 0) {
        name = line.substr(5);
        lines.clear();
        incase = true;
      }
      continue;
    }
    if (line != "END") {
      lines.push_back(line);
      continue;
    }
    incase = false;
    // run the case in a child
    int po[2], pe[2];
    if (pipe(po) || pipe(pe)) {
      perror("pipe");
      return 2;
    }
    fflush(stdout);
    pid_t pid = fork();
    if (pid == 0) {
      dup2(po[1], 3);
      g_out = fdopen(3, "w");
      dup2(pe[1], 1); // library chatter on stdout joins stderr
      dup2(pe[1], 2);
      close(po[0]);
      close(pe[0]);
      close(po[1]);
      close(pe[1]);
      alarm(timeout_s + 5);
      run_case_child(lines);
      _exit(0);
    }
    close(po[1]);
    close(pe[1]);
    std::string out, err;
    auto t0 = std::chrono::steady_clock::now();
    bool timed_out = false;
    struct pollfd fds[2] = {{po[0], POLLIN, 0}, {pe[0], POLLIN, 0}};
    int open_fds = 2;
    char buf[65536];
    while (open_fds > 0) {
      double el = std::chrono::duration<double>(std::chrono::steady_clock::now() - t0).count();
      if (el > timeout_s) {
        timed_out = true;
        kill(pid, SIGKILL);
        break;
      }
      int r = poll(fds, 2, 200);
      if (r <= 0)
        continue;
      for (int k = 0; k < 2; k++) {
        if (fds[k].fd < 0)
          continue;
        if (fds[k].revents & (POLLIN | POLLHUP)) {
          ssize_t n = read(fds[k].fd, buf, sizeof buf);
          if (n > 0)
            (k == 0 ? out : err).append(buf, n);
          else {
            close(fds[k].fd);
            fds[k].fd = -1;
            open_fds--;
          }
        }
      }
    }
    for (int k = 0; k < 2; k++)
      if (fds[k].fd >= 0)
        close(fds[k].fd);
    int status = 0;
    waitpid(pid, &status, 0);
    printf("CASE %s\n", name.c_str());
    fputs(out.c_str(), stdout);
    if (!out.empty() && out.back() != '\n')
      printf("\n");
    if (timed_out)
      printf("STATUS timeout\n");
    else if (WIFSIGNALED(status))
      printf("STATUS signal %d\n", WTERMSIG(status));
    else if (WEXITSTATUS(status) != 0)
      printf("STATUS exit %d\n", WEXITSTATUS(status));
    else
      printf("STATUS ok\n");
    // keep only the informative stderr lines (sanitizer summaries, not the
    // library's progress chatter)
    {
      std::istringstream es(err);
      std::string el;
      int kept = 0;
      while (std::getline(es, el)) {
        if (el.find("ERROR: ") != std::string::npos || el.find("SUMMARY: ") != std::string::npos ||
            el.find("runtime error") != std::string::npos || el.find("WARNING: ThreadSanitizer") != std::string::npos ||
            el.find("    #0 ") != std::string::npos || el.find("    #1 ") != std::string::npos ||
            el.find("    #2 ") != std::string::npos || el.find("terminate called") != std::string::npos) {
          bool summary = el.find("SUMMARY: ") != std::string::npos;
          if (summary || kept++ < 12)
            printf("ERR %s\n", el.c_str());
        }
      }
    }
    printf("END\n");
    fflush(stdout);
  }
  return 0;
}
