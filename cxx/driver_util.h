// helpers shared by the command tables
#pragma once
static std::vector<std::string> split(const std::string &s) {
  std::vector<std::string> r;
  std::istringstream is(s);
  std::string t;
  while (is >> t)
    r.push_back(t);
  return r;
}
static std::string hex(const unsigned char *p, size_t n) {
  static const char *d = "0123456789abcdef";
  std::string s;
  s.reserve(2 * n);
  for (size_t i = 0; i < n; i++) {
    s.push_back(d[p[i] >> 4]);
    s.push_back(d[p[i] & 15]);
  }
  if (s.empty())
    s = "-";
  return s;
}
static std::string hex(const std::string &b) { return hex((const unsigned char *)b.data(), b.size()); }
static std::string unhex(const std::string &h) {
  std::string r;
  if (h == "-")
    return r;
  auto v = [](char c) { return c <= '9' ? c - '0' : (c | 32) - 'a' + 10; };
  for (size_t i = 0; i + 1 < h.size(); i += 2)
    r.push_back((char)(v(h[i]) * 16 + v(h[i + 1])));
  return r;
}
static unsigned long long u64(const std::string &s) { return strtoull(s.c_str(), nullptr, 0); }
static long long i64(const std::string &s) { return strtoll(s.c_str(), nullptr, 0); }

class StringDictionary;
class LogSequence;
class DAC_VLS;
class DAC_BVLS;
namespace cds_static { class BitSequence; class Sequence; }

struct State {
  bool noisolate = false;
  unsigned query_timeout = 30; // watchdog of an isolated query (a hang is still detected; 10 s was exceeded on a heavily loaded machine)
  // C17
  LogSequence *ls = nullptr;
  DAC_VLS *dac = nullptr;
  DAC_BVLS *bdac = nullptr;
  // dictionaries
  std::vector<std::string> strings;     // the input set S of the case
  std::map<std::string, StringDictionary *> dicts; // named objects (fresh, reloaded, ...)
  std::map<std::string, std::string> images;       // named saved images
  // bit sequences
  cds_static::BitSequence *bs = nullptr;
  cds_static::Sequence *seq = nullptr;
  std::vector<unsigned> bitwords;
  size_t bitlen = 0;
};
