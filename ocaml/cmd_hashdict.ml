(* hd_* commands: the extracted dictionary-level models of HASHRPDAC / HASHRPF (HashDictDefs.v) on the
   table / grammar / sequences the real dictionary produced (dumped by hd_build, passed back in hd_model).
   ok= is the verdict of the verified checkers hashrpdac_chk / hashrpf_chk. *)
open Model
open Obase

type hdst = { mutable kind : string; mutable dac : hrpdac option; mutable rpf : hrpf option list }
let hdst = { kind = ""; dac = None; rpf = [] }

let hd_rules s : (n * n) list =
  if s = "-" || s = "" then [] else
    List.map (fun p -> match String.split_on_char ':' p with
        | [a; b] -> (n_of_string a, n_of_string b)
        | _ -> failwith "bad rule") (String.split_on_char ',' s)
let hd_bools s : bool list = if s = "-" then [] else List.init (String.length s) (fun i -> s.[i] = '1')
let hd_bools_out (l : bool list) = if l = [] then "-" else String.concat "" (List.map (fun b -> if b then "1" else "0") l)
let hd_nlist sep s : n list = if s = "-" || s = "" then [] else List.map n_of_string (String.split_on_char sep s)
let hd_nlist_out (l : n list) = if l = [] then "-" else String.concat "," (List.map dec_of_n l)
let hd_str_out (s : n list) = let l = List.length s in Printf.sprintf "%s/%d/%d" (hex_of_bytes s) l l

let join_answers (ans : string list) : string =
  match ans with
  | [] -> " NODICT"
  | a :: r -> if List.for_all (fun x -> x = a) r then " " ^ a else " DIFFER " ^ String.concat " | " ans

let cmd_hashdict (tk : string list) : bool =
  match tk with
  | "hd_build" :: _ -> pr "SKIP hd_build\n"; true
  | "hd_hv" :: _ -> pr "SKIP hd_hv\n"; true
  | ["hd_model"; kind; _ov; shex; shv; sel; sml; st; smc; srules; sbits; spay; shash] ->
    let strs = if shex = "-" then [] else List.map bytes_of_hex (String.split_on_char ',' shex) in
    let hvs = if shv = "-" then [] else
        List.map (fun p -> match String.split_on_char ':' p with
            | [a; b] -> (n_of_string a, n_of_string b) | _ -> failwith "bad hv") (String.split_on_char ',' shv) in
    let ks = List.map2 (fun k (a, b) -> { hk_key = k; hk_h1 = a; hk_h2 = b }) strs hvs in
    let bits = hd_bools sbits in
    hdst.kind <- kind; hdst.dac <- None; hdst.rpf <- [];
    let nstr = dec_of_n (n_of_int (List.length strs)) in
    if kind = "HASHRPDAC" then begin
      let seqs = if spay = "-" then [] else
          List.map (fun s -> if s = "" then [] else List.map n_of_string (String.split_on_char '.' s))
            (String.split_on_char ',' spay) in
      let rp = { d_t = n_of_string st; d_rules = hd_rules srules; d_seqs = seqs;
                 d_elements = n_of_string sel; d_maxlength = n_of_string sml } in
      let d = { hd_bits = bits; hd_rp = rp } in
      hdst.dac <- Some d;
      pr "hd_model %s same=1 ok=%d tsize=%d n=%s comp=- offb=-\n" kind (if hashrpdac_chk d ks then 1 else 0)
        (List.length bits) nstr
    end else begin
      let f = { ft_bits = bits; ft_hash = hd_nlist ',' shash } in
      let d = { hf_repr = RDh f; hf_t = n_of_string st; hf_maxchar = n_of_string smc; hf_rules = hd_rules srules;
                hf_cls = hd_nlist '.' spay; hf_elements = n_of_string sel; hf_maxlength = n_of_string sml } in
      let l i = hashrpf_load d (n_of_int i) in
      hdst.rpf <- [Some d; l 1; l 2; l 3];
      let comp = match l 2 with Some { hf_repr = RB (_, c); _ } -> hd_nlist_out c | _ -> "NOLOAD" in
      let offb = match l 3 with Some { hf_repr = RBB (_, o); _ } -> hd_bools_out o | _ -> "NOLOAD" in
      pr "hd_model %s same=1 ok=%d tsize=%d n=%s comp=%s offb=%s\n" kind (if hashrpf_chk d ks then 1 else 0)
        (List.length bits) nstr comp offb
    end; true
  | "hd_q" :: op :: rest ->
    let arg = match rest with a :: _ -> a | [] -> "" in
    (match op with
     | "locate" ->
       let h1, h2 = match rest with [_; a; b] -> (n_of_string a, n_of_string b) | _ -> (N0, N0) in
       let q = bytes_of_hex arg in
       let hq = { hk_key = q; hk_h1 = h1; hk_h2 = h2 } in
       pr "hd_q locate %s %s:%s =" arg (dec_of_n h1) (dec_of_n h2);
       let ans =
         (match hdst.dac with
          | Some d -> [match hashrpdac_locate d hq with Some id -> dec_of_n id | None -> "MODEL-OOB"]
          | None -> []) @
         List.map (fun od -> match od with
             | None -> "NOTLOADED"
             | Some d ->
               let (r, buf) = hashrpf_locate d hq in
               (match r with Some id -> dec_of_n id | None -> "MODEL-OOB") ^
               (if buf = q @ [N0] then "" else " PATTERN-MODIFIED")) hdst.rpf in
       pr "%s\n" (join_answers ans)
     | "extract" ->
       let id = n_of_string arg in
       pr "hd_q extract %s =" arg;
       let out r = match r with
         | Some (Some x) -> hd_str_out x | Some None -> "NULL/0" | None -> "MODEL-OOB" in
       let ans =
         (match hdst.dac with Some d -> [out (hashrpdac_extract d id)] | None -> []) @
         List.map (fun od -> match od with None -> "NOTLOADED" | Some d -> out (hashrpf_extract d id)) hdst.rpf in
       pr "%s\n" (join_answers ans)
     | "table" ->
       pr "hd_q table =";
       let out r = match r with
         | Some l -> String.concat " " ("strs" :: List.map (fun x -> match x with Some s -> hd_str_out s | None -> "NULL/0") l)
         | None -> "MODEL-OOB" in
       let ans =
         (match hdst.dac with Some d -> [out (hashrpdac_table d)] | None -> []) @
         List.map (fun od -> match od with None -> "NOTLOADED" | Some d -> out (hashrpf_table d)) hdst.rpf in
       pr "%s\n" (join_answers ans)
     | _ -> pr "hd_q %s = BADOP\n" op); true
  | _ -> false

let () = register cmd_hashdict (fun () -> hdst.kind <- ""; hdst.dac <- None; hdst.rpf <- [])
