(* HHTFC commands: the extracted model HHTFCDefs.v answering hhtfc_q on the LOADED object the real
   constructor + save + load produced (all private members dumped by the implementation's hhtfc_build,
   passed back in hhtfc_model).  ok= / ok2= are the verdicts of the verified checkers hhtfc_check / hhtfc_check2 on that object,
   ok3= says that the constructor's layout specification hhtfc_layout reproduces textStrings / blStrings.
   When ok=1 every answer is cross-checked against the abstract specification Spec.v; a difference prints
   MODEL-MISMATCH (the theorems of HHTFCProofs.v say this cannot happen).  A memory error of the model
   ([None]) prints nothing after the '=': that is what the implementation's line looks like when the query
   crashed. *)
open Model
open Obase

type hhst = { mutable hhdict : hhtfc option; mutable hhstrs : n list list; mutable hhok : bool }
let hhst = { hhdict = None; hhstrs = []; hhok = false }

let hh_z_of_int (i : int) : z = if i = 0 then Z0 else if i > 0 then Zpos (pos_of_int i) else Zneg (pos_of_int (- i))
let hh_csv f s = if s = "-" || s = "" then [] else List.map f (String.split_on_char ',' s)
let hh_pair sep f g s = match String.split_on_char sep s with
  | [a; b] -> (f a, g b)
  | _ -> failwith ("bad pair " ^ s)
let hh_trees s : ((z * z) * z) list list =
  if s = "-" || s = "" then [] else
    List.map (fun t ->
        List.map (fun nd -> match String.split_on_char '/' nd with
            | [a; b; c] -> ((hh_z_of_int (int_of_string a), hh_z_of_int (int_of_string b)), hh_z_of_int (int_of_string c))
            | _ -> failwith "bad tree node") (String.split_on_char ';' t))
      (String.split_on_char '|' s)
let hh_str_out (s : n list) (l : n) = Printf.sprintf " %s/%s/%d" (hex_of_bytes s) (dec_of_n l) (List.length s)

let cmd_hhtfc (tk : string list) : bool =
  match tk with
  | "hhtfc_build" :: _ -> pr "SKIP hhtfc_build\n"; true
  | "hhtfc_info" :: _ -> pr "SKIP hhtfc_info\n"; true
  | ["hhtfc_model"; sb; shex; sel; sml; smcl; sbk; sbs; stext; sbl; scw; sk; sstream; stab; send; strees;
     scwu; sku; sstreamu; stabu; sendu; streesu] ->
    let strs = if shex = "-" then [] else List.map bytes_of_hex (String.split_on_char ',' shex) in
    let cws = hh_csv (hh_pair '/' n_of_string n_of_string) in
    let tab = hh_csv (hh_pair ':' n_of_string n_of_string) in
    let dt = { h_elements = n_of_string sel; h_maxlength = n_of_string sml; h_maxcomplength = n_of_string smcl;
               h_buckets = n_of_string sbk; h_bsize = n_of_string sbs; h_text = bytes_of_hex stext;
               h_bl = hh_csv n_of_string sbl; h_cw = cws scw;
               h_k = n_of_string sk; h_stream = bytes_of_hex sstream;
               h_tab = tab stab; h_endings = hh_csv n_of_string send;
               h_trees = hh_trees strees } in
    let d = { hh_ht = dt; hh_cwU = cws scwu; hh_kU = n_of_string sku; hh_streamU = bytes_of_hex sstreamu;
              hh_tabU = tab stabu; hh_endingsU = hh_csv n_of_string sendu; hh_treesU = hh_trees streesu } in
    let ok = hhtfc_check strs d in
    hhst.hhdict <- Some d; hhst.hhstrs <- strs; hhst.hhok <- ok;
    let n = spec_elements strs in
    let b0 = n_of_string sb in
    let b = if N.ltb b0 (n_of_int 2) then n_of_int 2 else N.modulo b0 (n_of_string "4294967296") in
    let nb = N.div (N.sub (N.add n b) (n_of_int 1)) b in
    pr "hhtfc_model same=1 ok=%d ok2=%d ok3=%d elements=%s maxlength=%s buckets=%s bucketsize=%s\n"
      (if ok then 1 else 0) (if hhtfc_check2 strs d then 1 else 0) (if hhtfc_layout_chk strs d then 1 else 0) (dec_of_n n)
      (dec_of_n (N.add (spec_maxlen strs) (n_of_int 1))) (dec_of_n nb) (dec_of_n b);
    true
  | "hhtfc_model" :: _ -> pr "hhtfc_model MODEL-FAIL arity\n"; true
  | "hhtfc_q" :: op :: rest ->
    let arg = match rest with a :: _ -> a | [] -> "" in
    (match hhst.hhdict with
     | None -> pr "hhtfc_q %s %s = NODICT\n" op arg
     | Some d ->
       let s = hhst.hhstrs in
       let mark b = if hhst.hhok && not b then " MODEL-MISMATCH" else "" in
       (match op with
        | "locate" ->
          pr "hhtfc_q %s %s =" op arg;
          let q = bytes_of_hex arg in
          (match hhtfc_locate d q with
           | Some id -> pr " %s%s\n" (dec_of_n id) (mark (id = spec_locate s q))
           | None -> pr "%s\n" (mark false))
        | "extract" ->
          pr "hhtfc_q %s %s =" op arg;
          let id = n_of_string arg in
          (match hhtfc_extract_raw d id with
           | Some (Some (x, l)) ->
             pr "%s%s\n" (hh_str_out x l) (mark (spec_extract_x s id = Some x && hhtfc_extract d id = Some (Some x)))
           | Some None -> pr " NULL/0%s\n" (mark (spec_extract_x s id = None))
           | None -> pr "%s\n" (mark false))
        | "locatePrefix" ->
          pr "hhtfc_q %s %s =" op arg;
          let p = bytes_of_hex arg in
          (match hhtfc_locate_prefix d p with
           | Some (l, r) ->
             pr " ids"; List.iter (fun i -> pr " %s" (dec_of_n i)) (contig_ids l r);
             pr "%s\n" (mark ((l, r) = range_of (spec_prefix_ids s p)))
           | None -> pr "%s\n" (mark false))
        | _ -> pr "SKIP hhtfc_q %s\n" op)); true
  | _ -> false

let () = register cmd_hhtfc (fun () -> hhst.hhdict <- None; hhst.hhstrs <- []; hhst.hhok <- false)
