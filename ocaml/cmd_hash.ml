(* hash commands: the extracted double-hashing model (HashDefs.v).
   The model is parametric in the hash values: hash_model / hash_q receive key:h1:h2. *)
open Model
open Obase

type hst = { mutable variant : string; mutable tbl : (hbytes option) list option; mutable nkeys : int;
             mutable hyp : bool }
let hs = { variant = ""; tbl = None; nkeys = 0; hyp = false }

(* fuel of the while(true) of nearest_prime: prime gaps below 2^64 are < 1600 *)
let np_fuel = nat_of_int 4000

let parse_hk (variant : string) (tok : string) : hkey =
  match String.split_on_char ':' tok with
  | [k; h1; h2] ->
    let b = bytes_of_hex k in
    (* variant dh hashes and stores the key with its terminator *)
    let b = if variant = "dh" then b @ [N0] else b in
    { hk_key = b; hk_h1 = n_of_string h1; hk_h2 = n_of_string h2 }
  | _ -> failwith ("bad key token " ^ tok)

let strip0 (variant : string) (k : n list) : n list =
  if variant = "dh" then (match List.rev k with N0 :: r -> List.rev r | _ -> k) else k

let opt_n = function Some v -> dec_of_n v | None -> "OOB"

let cmd_hash (tk : string list) : bool =
  match tk with
  | ["hash_np"; n] ->
    (match nearest_prime np_fuel (n_of_string n) with
     | Some r -> pr "hash_np %s = %s\n" n (dec_of_n r)
     | None -> pr "hash_np %s = FUEL\n" n); true
  | "hash_model" :: variant :: _overhead :: hsz :: keys ->
    let ks = List.map (parse_hk variant) keys in
    hs.variant <- variant; hs.nkeys <- List.length ks; hs.tbl <- None;
    (match nearest_prime np_fuel (n_of_string hsz) with
     | None -> pr "hash_model %s FUEL\n" variant
     | Some m ->
       hs.hyp <- dh_build_ok m ks;
       (match dh_build m ks with
        | None -> pr "hash_model %s tsize=%s n=%d : INSERT-FAILED\n" variant (dec_of_n m) (List.length ks)
        | Some (t, cs) ->
          hs.tbl <- Some t;
          pr "hash_model %s tsize=%s n=%d :" variant (dec_of_n m) (List.length ks);
          List.iter2 (fun hk c ->
              (* the iterative and the multiplicative probe form must agree (search_mul_eq) *)
              let a = dh_locate t hk and b = dh_locate_mul t hk in
              let ids = if a = b then opt_n a else opt_n a ^ "/" ^ opt_n b in
              let ids = if hs.hyp then ids else ids ^ "!hyp" in
              pr " %s:%s:%s:%s" (dec_of_n hk.hk_h1) (dec_of_n hk.hk_h2) (dec_of_n c) ids) ks cs;
          pr "\n")); true
  | "hash_q" :: qs ->
    (match hs.tbl with
     | None -> pr "hash_q NOSTATE\n"
     | Some t ->
       pr "hash_q :";
       List.iter (fun tok ->
           let hq = parse_hk hs.variant tok in
           let a = dh_locate t hq and b = dh_locate_mul t hq in
           pr " %s:%s:%s" (dec_of_n hq.hk_h1) (dec_of_n hq.hk_h2)
             (if a = b then opt_n a else opt_n a ^ "/" ^ opt_n b)) qs;
       pr "\n"); true
  | "hash_x" :: ids ->
    (match hs.tbl with
     | None -> pr "hash_x NOSTATE\n"
     | Some t ->
       pr "hash_x :";
       (* offsets of the strings of Tdict* in the text, as the constructors lay them out *)
       let td = dh_tdict t in
       let offs = List.rev (snd (List.fold_left (fun (o, acc) k -> (o + List.length k, o :: acc)) (0, []) td)) in
       (* construction-time offset array: cell -> offset *)
       let ot = let rest = ref offs in
         List.map (fun c -> match c with
             | None -> None
             | Some _ -> (match !rest with o :: r -> rest := r; Some (n_of_int o) | [] -> failwith "offs")) t in
       let f = dh_finish ot in
       let nn = n_of_int (List.length td) in
       let comp = dh_compact_B f nn and offb = dh_offbits_BB f nn in
       List.iter (fun ids ->
           let id = n_of_string ids in
           match dh_extract t id with
           | None -> pr " %s:-:NULL" ids
           | Some k ->
             if hs.variant <> "dh" then pr " %s:-:%s" ids (hex_of_bytes k)
             else begin
               match comp, offb with
               | Some comp, Some offb ->
                 let a = getValue_dh f id and b = getValue_B comp id and d = getValue_BB offb id in
                 let cellp = dh_select1 f.ft_bits id in
                 (match cellp with
                  | None -> pr " %s:NOSELECT:?" ids
                  | Some cp ->
                    let pa = getValuePos_dh f cp and pb = getValuePos_B f.ft_bits comp cp
                    and pd = getValuePos_BB f.ft_bits offb cp in
                    if a <> None && a = b && b = d && pa = a && pb = a && pd = a then
                      pr " %s:%s:%s" ids (opt_n a) (hex_of_bytes (strip0 hs.variant k))
                    else pr " %s:%s/%s/%s/%s/%s/%s:?" ids (opt_n a) (opt_n b) (opt_n d) (opt_n pa) (opt_n pb) (opt_n pd))
               | _, _ -> pr " %s:NOREPR:?" ids
             end) ids;
       pr "\n"); true
  | _ -> false

let () = register cmd_hash (fun () -> hs.variant <- ""; hs.tbl <- None; hs.nkeys <- 0; hs.hyp <- false)
