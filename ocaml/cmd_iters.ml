(* ID iterators and block routing: the extracted models of IterDefs.v (unverified glue: parsing/printing) *)
open Model
open Obase

let ids_text (l : n list) (more : bool) : string =
  String.concat "" (List.map (fun x -> " " ^ dec_of_n x) l) ^ (if more then " MORE" else "")

let print_ids r =
  match r with
  | Some ((out, more), _) -> pr " ids%s\n" (ids_text out more)
  | None -> pr " OOB\n"

let csv f l = if l = [] then "-" else String.concat "," (List.map f l)

let layout_text (b : bbuild) : string =
  Printf.sprintf "qty=%s parts=%d samples=%s starts=%s" (dec_of_n b.bb_qty) (List.length b.bb_blocks)
    (csv hex_of_bytes b.bb_samples) (csv dec_of_n b.bb_starts)

(* largest j with starts[j] < id *)
let block_of_id (starts : n list) (id : n) : int =
  let j = ref 0 in
  List.iteri (fun i s -> if N.ltb s id then j := i) starts; !j

let sorted_sets_ok (s : n list list) = true

let cmd_iters (tk : string list) : bool =
  match tk with
  | ["it_contig"; l; r; cap] ->
    let l' = n_of_string l and r' = n_of_string r in
    pr "it_contig %s %s %s =" (dec_of_n l') (dec_of_n r') cap;
    print_ids (run_iter contig_iter (nat_of_int (int_of_string cap)) (contig_init l' r')); true
  | "it_dup" :: k :: ids ->
    let ids = List.map n_of_string ids in
    let kk = int_of_string k in
    pr "it_dup %d =" kk;
    print_ids (run_iter dup_iter (nat_of_int (kk + 3)) (arr_init (dup_array ids) (n_of_int kk))); true
  | ("it_dup_raw" | "it_nocontig_raw" as c) :: nn :: k :: vs ->
    let vs = List.map n_of_string vs in
    let kk = int_of_string k in
    pr "%s %s %d =" c nn kk;
    print_ids (run_iter (if c = "it_dup_raw" then dup_iter else nocontig_iter) (nat_of_int (kk + 3)) (arr_init vs (n_of_int kk))); true
  | "it_nocontig" :: k :: ids ->
    let ids = List.map n_of_string ids in
    let kk = int_of_string k in
    pr "it_nocontig %d =" kk;
    print_ids (run_iter nocontig_iter (nat_of_int (kk + 3)) (arr_init ids (n_of_int kk))); true
  | "bsbi_samples" :: q :: ss ->
    (match model_bsbi_samples (List.map bytes_of_hex ss) (bytes_of_hex q) with
     | Some j -> pr "bsbi_samples %s = %s calls=1 ret=0\n" q (dec_of_n j)
     | None -> pr "bsbi_samples %s = OOB\n" q); true
  | "bsbi_index" :: t :: is ->
    let t' = n_of_string t and v = List.map n_of_string is in
    (match model_bsbi_index v t' with
     | Some j ->
       let s = List.nth v (int_of_n j) in
       pr "bsbi_index %s = %s calls=1 eindex=%s\n" (dec_of_n t') (dec_of_n j) (dec_of_n (sub_sz (wrap64 (N.add t' (n_of_int 1))) s))
     | None -> pr "bsbi_index %s = OOB\n" (dec_of_n t')); true
  | "blocks_route" :: cut :: q :: ss ->
    let cut' = n_of_string cut and s = List.map bytes_of_hex ss and q' = bytes_of_hex q in
    let b = blocks_build cut' s in
    pr "blocks_route %s %s = %s" (dec_of_n cut') q (layout_text b);
    (* empty input: IterProofs.blocks_locate_empty_oob proves the model answers None (parts[2^64-1]); the
       extracted code would build the unary number 2^64-1 to find that out, so the glue answers directly *)
    (match (if s = [] then None else model_blocks_locate cut' s q') with
     | None -> pr " OOB\n"
     | Some id when id = N0 -> pr " found=0 block=- rt=-\n"
     | Some id ->
       let rt = match model_blocks_extract cut' s id with
         | Some (Some x) -> hex_of_bytes x | Some None -> "NULL" | None -> "OOB" in
       pr " found=1 block=%d rt=%s\n" (block_of_id b.bb_starts id) rt); true
  | "blocks_extract" :: cut :: id :: ss ->
    let cut' = n_of_string cut and s = List.map bytes_of_hex ss and id' = n_of_string id in
    let b = blocks_build cut' s in
    (match model_blocks_extract cut' s id' with
     | None -> pr "blocks_extract %s %s = OOB\n" (dec_of_n cut') (dec_of_n id')
     | Some None -> pr "blocks_extract %s %s = NULL/0\n" (dec_of_n cut') (dec_of_n id')
     | Some (Some x) ->
       (* the model's parts number their strings in sorted order, the real parts by hash position:
          compared up to the permutation inside the block (DESIGN 2.1 item 4) *)
       let j = block_of_id b.bb_starts id' in
       let blk = List.nth b.bb_blocks j in
       let back = match model_blocks_locate cut' s x with Some r -> r = id' | None -> false in
       pr "blocks_extract %s %s = blk=%d member=%d relocate=%d nul=1\n" (dec_of_n cut') (dec_of_n id') j
         (if List.mem x blk then 1 else 0) (if back then 1 else 0)); true
  | "blocks_table" :: cut :: ss ->
    let cut' = n_of_string cut and s = List.map bytes_of_hex ss in
    let b = blocks_build cut' s in
    (match model_blocks_table cut' s (nat_of_int (List.length s + 3)) with
     | None -> pr "blocks_table %s = OOB\n" (dec_of_n cut')
     | Some ((out, more), _) ->
       let eq = List.length out = List.length s &&
                List.for_all2 (fun o i -> model_blocks_extract cut' s (n_of_int i) = Some o) out (List.init (List.length out) (fun i -> i + 1)) in
       pr "blocks_table %s = %s eq_extract=%d strs%s%s\n" (dec_of_n cut') (layout_text b) (if eq then 1 else 0)
         (String.concat "" (List.map (fun o -> match o with Some x -> " " ^ hex_of_bytes x | None -> " 014e554c4c") out))
         (if more then " MORE" else "")); true
  | _ -> false

let () = register cmd_iters (fun () -> ())
