(* DAC_VLS commands answered from the extracted model DACDefs (unverified glue: parsing/printing only) *)
open Model
open Obase
type stdac = { mutable dac : dac option }
let std = { dac = None }
let z_of_int (i : int) : z =
  if i = 0 then Z0 else if i > 0 then Zpos (pos_of_int i) else Zneg (pos_of_int (- i))
let csv (l : n list) = String.concat "," (List.map dec_of_n l)
let with_dac name f =
  match std.dac with Some d -> f d | None -> pr "%s NOSTATE\n" name
let guard = [n_of_int 0x5a; n_of_int 0x5a; n_of_int 0x5a]
type stbdac = { mutable bdac : bdac option }
let stb = { bdac = None }
let with_bdac name f =
  match stb.bdac with Some d -> f d | None -> pr "%s NOSTATE\n" name
let cmd_dac (tk : string list) : bool =
  match tk with
  | "dac_new" :: logr :: maxseq :: llen :: vs ->
    let l = List.map (fun s -> z_of_int (int_of_string s)) vs in
    std.dac <- dac_build l (n_of_string llen) (n_of_string logr) (n_of_string maxseq);
    (match std.dac with
     | Some d -> pr "dac_new listLength=%s nLevels=%s\n" (dec_of_n d.d_listLength) (dec_of_n d.d_nLevels)
     | None -> pr "dac_new MODEL-NONE\n"); true
  | "dac_inclass" :: logr :: maxseq :: llen :: vs ->
    (* is this input inside the input class of the theorems?  (extracted checkers dac_wf / dac_obj_wf;
       the flat list must be the dictionaries' layout of some seqs with l_Length = ic - 1) *)
    let ints = List.map int_of_string vs in
    let rec split cur acc = function
      | [] -> (List.rev acc, cur = [])
      | x :: r -> if x < 0 then split [] (List.rev cur :: acc) r else split (n_of_int x :: cur) acc r in
    let (seqs, closed) = split [] [] ints in
    let flat = List.map z_of_int ints in
    let ok = closed && dac_flatten seqs = flat && dac_llen seqs = n_of_string llen
             && dac_wf seqs (n_of_string logr) (n_of_string maxseq)
             && (match dac_build flat (n_of_string llen) (n_of_string logr) (n_of_string maxseq) with
                 | Some d -> dac_obj_wf d | None -> false) in
    pr "dac_inclass %d\n" (if ok then 1 else 0); true
  | ["dac_dump"] ->
    with_dac "dac_dump" (fun d ->
        pr "dac_dump tamCode=%s base_bits=%s listLength=%s nLevels=%s levelsIndex=%s rankLevels=%s syms=%s bits=%s\n"
          (dec_of_n d.d_tamCode) (dec_of_n d.d_base_bits) (dec_of_n d.d_listLength) (dec_of_n d.d_nLevels)
          (csv d.d_levelsIndex) (csv d.d_rankLevels) (csv d.d_syms)
          (String.concat "" (List.map (fun b -> if b then "1" else "0") d.d_bits))); true
  | ["dac_access"; p] ->
    with_dac "dac_access" (fun d ->
        match dac_access d (n_of_string p) with
        | Some s -> pr "dac_access %s = %d :%s\n" p (List.length s)
                      (String.concat "" (List.map (fun v -> " " ^ dec_of_n v) s))
        | None -> pr "dac_access %s = MODEL-OOB\n" p); true
  | ["dac_chain"; p] ->
    with_dac "dac_chain" (fun d ->
        match dac_chain_bounded d (nat_of_int (int_of_n d.d_nLevels + 2)) N0 (n_of_string p) with
        | Some s -> pr "dac_chain %s =%s\n" p (String.concat "" (List.map (fun v -> " " ^ dec_of_n v) s))
        | None -> pr "dac_chain %s = MODEL-OOB\n" p); true
  | ["dac_save"] ->
    with_dac "dac_save" (fun d -> pr "dac_save = %s\n" (hex_of_bytes (dac_save d))); true
  | ["dac_reload"] ->
    with_dac "dac_reload" (fun d ->
        let img = dac_save d in
        match dac_load (img @ guard) with
        | Some (d', rest) ->
          std.dac <- Some d';
          pr "dac_reload consumed=%d of=%d\n" (List.length img + 3 - List.length rest) (List.length img)
        | None -> pr "dac_reload MODEL-ERR\n"); true
  | ["bdac_new"; nl; li; rl; lv; bits] ->
    let levels = bytes_of_hex lv in
    let bl = List.init (String.length bits) (fun i -> bits.[i] = '1') in
    stb.bdac <- bdac_make (n_of_int (List.length levels)) (n_of_string nl)
        (List.map n_of_int (int_list_of_csv li)) (List.map n_of_int (int_list_of_csv rl)) levels bl;
    (match stb.bdac with
     | Some d -> pr "bdac_new nLevels=%s\n" (dec_of_n d.b_nLevels)
     | None -> pr "bdac_new MODEL-NONE\n"); true
  | "bdac_inclass" :: nl :: li :: rl :: lv :: bits :: seqs ->
    let seqs = List.map bytes_of_hex seqs in
    let nL = nat_of_int (int_of_string nl) in
    let (((lidx, ones), levels), bl) = bdac_layout seqs nL in
    let given_bits = List.init (String.length bits) (fun i -> bits.[i] = '1') in
    let take k l = List.filteri (fun i _ -> i < k) l in
    let k = int_of_string nl in
    let ok = bdac_wf seqs nL
             && take k (List.map n_of_int (int_list_of_csv li)) = lidx
             && take k (List.map n_of_int (int_list_of_csv rl)) = ones
             && bytes_of_hex lv = levels && given_bits = bl
             && (match bdac_of_seqs seqs nL with Some d -> bdac_obj_wf d | None -> false) in
    pr "bdac_inclass %d\n" (if ok then 1 else 0); true
  | ["bdac_dump"] ->
    with_bdac "bdac_dump" (fun d ->
        pr "bdac_dump tamCode=%s nLevels=%s levelsIndex=%s rankLevels=%s levels=%s bits=%s\n"
          (dec_of_n d.b_tamCode) (dec_of_n d.b_nLevels) (csv d.b_levelsIndex) (csv d.b_rankLevels)
          (hex_of_bytes d.b_levels) (String.concat "" (List.map (fun b -> if b then "1" else "0") d.b_bits))); true
  | ["bdac_access"; p] ->
    with_bdac "bdac_access" (fun d ->
        match bdac_access d (n_of_string p) with
        | Some s -> pr "bdac_access %s = %d :%s\n" p (List.length s)
                      (String.concat "" (List.map (fun v -> " " ^ dec_of_n v) s))
        | None -> pr "bdac_access %s = MODEL-OOB\n" p); true
  | ["bdac_chain"; p] ->
    with_bdac "bdac_chain" (fun d ->
        match bdac_chain_bounded d (nat_of_int (int_of_n d.b_nLevels + 2)) N0 (n_of_string p) with
        | Some s -> pr "bdac_chain %s =%s\n" p (String.concat "" (List.map (fun v -> " " ^ dec_of_n v) s))
        | None -> pr "bdac_chain %s = MODEL-OOB\n" p); true
  | ["bdac_save"] ->
    with_bdac "bdac_save" (fun d -> pr "bdac_save = %s\n" (hex_of_bytes (bdac_save d))); true
  | ["bdac_reload"] ->
    with_bdac "bdac_reload" (fun d ->
        let img = bdac_save d in
        match bdac_load (img @ guard) with
        | Some (d', rest) ->
          stb.bdac <- Some d';
          pr "bdac_reload consumed=%d of=%d\n" (List.length img + 3 - List.length rest) (List.length img)
        | None -> pr "bdac_reload MODEL-ERR\n"); true
  | _ -> false

let () = register cmd_dac (fun () -> std.dac <- None; stb.bdac <- None)
