(* HTFC commands: the extracted model HTFCDefs.v answering htfc_q on the LOADED object the real
   constructor + save + load produced (all private members dumped by the implementation's htfc_build,
   passed back in htfc_model).  ok= is the verdict of the verified checker htfc_check on that object.
   When ok=1 every answer is cross-checked against the abstract specification Spec.v; a difference prints
   MODEL-MISMATCH (the theorems of HTFCProofs.v say this cannot happen).  A memory error of the model
   ([None]) prints nothing after the '=': that is what the implementation's line looks like when the query
   crashed. *)
open Model
open Obase

type hst = { mutable hdict : htfc option; mutable hstrs : n list list; mutable hok : bool }
let hst = { hdict = None; hstrs = []; hok = false }

let z_of_int (i : int) : z = if i = 0 then Z0 else if i > 0 then Zpos (pos_of_int i) else Zneg (pos_of_int (- i))
let h_csv f s = if s = "-" || s = "" then [] else List.map f (String.split_on_char ',' s)
let h_pair sep f g s = match String.split_on_char sep s with
  | [a; b] -> (f a, g b)
  | _ -> failwith ("bad pair " ^ s)
let h_trees s : ((z * z) * z) list list =
  if s = "-" || s = "" then [] else
    List.map (fun t ->
        List.map (fun nd -> match String.split_on_char '/' nd with
            | [a; b; c] -> ((z_of_int (int_of_string a), z_of_int (int_of_string b)), z_of_int (int_of_string c))
            | _ -> failwith "bad tree node") (String.split_on_char ';' t))
      (String.split_on_char '|' s)
let h_str_out (s : n list) (l : n) = Printf.sprintf " %s/%s/%d" (hex_of_bytes s) (dec_of_n l) (List.length s)

let cmd_htfc (tk : string list) : bool =
  match tk with
  | "htfc_build" :: _ -> pr "SKIP htfc_build\n"; true
  | "htfc_info" :: _ -> pr "SKIP htfc_info\n"; true
  | ["htfc_model"; sb; shex; sel; sml; smcl; sbk; sbs; stext; sbl; scw; sk; sstream; stab; send; strees] ->
    let strs = if shex = "-" then [] else List.map bytes_of_hex (String.split_on_char ',' shex) in
    let d = { h_elements = n_of_string sel; h_maxlength = n_of_string sml; h_maxcomplength = n_of_string smcl;
              h_buckets = n_of_string sbk; h_bsize = n_of_string sbs; h_text = bytes_of_hex stext;
              h_bl = h_csv n_of_string sbl; h_cw = h_csv (h_pair '/' n_of_string n_of_string) scw;
              h_k = n_of_string sk; h_stream = bytes_of_hex sstream;
              h_tab = h_csv (h_pair ':' n_of_string n_of_string) stab; h_endings = h_csv n_of_string send;
              h_trees = h_trees strees } in
    let ok = htfc_check strs d in
    hst.hdict <- Some d; hst.hstrs <- strs; hst.hok <- ok;
    let n = spec_elements strs in
    let b0 = n_of_string sb in
    let b = if N.ltb b0 (n_of_int 2) then n_of_int 2 else N.modulo b0 (n_of_string "4294967296") in
    let nb = N.div (N.sub (N.add n b) (n_of_int 1)) b in
    pr "htfc_model same=1 ok=%d ok2=%d ok3=%d elements=%s maxlength=%s buckets=%s bucketsize=%s\n"
      (if ok then 1 else 0) (if htfc_check2 strs d then 1 else 0) (if htfc_layout_chk strs d then 1 else 0) (dec_of_n n) (dec_of_n (N.add (spec_maxlen strs) (n_of_int 1))) (dec_of_n nb) (dec_of_n b);
    true
  | "htfc_model" :: _ -> pr "htfc_model MODEL-FAIL arity\n"; true
  | "htfc_q" :: op :: rest ->
    let arg = match rest with a :: _ -> a | [] -> "" in
    (match hst.hdict with
     | None -> pr "htfc_q %s %s = NODICT\n" op arg
     | Some d ->
       let s = hst.hstrs in
       let mark b = if hst.hok && not b then " MODEL-MISMATCH" else "" in
       (match op with
        | "locate" ->
          pr "htfc_q %s %s =" op arg;
          let q = bytes_of_hex arg in
          (match htfc_locate d q with
           | Some id -> pr " %s%s\n" (dec_of_n id) (mark (id = spec_locate s q))
           | None -> pr "%s\n" (mark false))
        | "extract" ->
          pr "htfc_q %s %s =" op arg;
          let id = n_of_string arg in
          (match htfc_extract_raw d id with
           | Some (Some (x, l)) ->
             pr "%s%s\n" (h_str_out x l) (mark (spec_extract_x s id = Some x && htfc_extract d id = Some (Some x)))
           | Some None -> pr " NULL/0%s\n" (mark (spec_extract_x s id = None))
           | None -> pr "%s\n" (mark false))
        | "locatePrefix" ->
          pr "htfc_q %s %s =" op arg;
          let p = bytes_of_hex arg in
          (match htfc_locate_prefix d p with
           | Some (l, r) ->
             pr " ids"; List.iter (fun i -> pr " %s" (dec_of_n i)) (contig_ids l r);
             pr "%s\n" (mark ((l, r) = range_of (spec_prefix_ids s p)))
           | None -> pr "%s\n" (mark false))
        | _ -> pr "SKIP htfc_q %s\n" op)); true
  | _ -> false

let () = register cmd_htfc (fun () -> hst.hdict <- None; hst.hstrs <- []; hst.hok <- false)
