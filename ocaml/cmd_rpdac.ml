(* RPDAC commands: the extracted model RPDACDefs.v answering rpdac_q on the grammar the real
   dictionary produced (dumped by the implementation's rpdac_build, passed back in rpdac_model).
   Every answer is cross-checked against the abstract specification Spec.v; a difference prints
   MODEL-MISMATCH (the theorems of RPDACProofs.v say this cannot happen when ok=1). *)
open Model
open Obase

type rst = { mutable dict : rpdac option; mutable strs : n list list }
let rst = { dict = None; strs = [] }

let rp_rules_of_string s : (n * n) list =
  if s = "-" || s = "" then [] else
    List.map (fun p -> match String.split_on_char ':' p with
        | [a; b] -> (n_of_string a, n_of_string b)
        | _ -> failwith "bad rule") (String.split_on_char ',' s)
let rp_str_out (s : n list) = let l = List.length s in Printf.sprintf " %s/%d/%d" (hex_of_bytes s) l l

let cmd_rpdac (tk : string list) : bool =
  match tk with
  | "rpdac_build" :: _ -> pr "SKIP rpdac_build\n"; true
  | ["rpdac_model"; shex; sel; sml; st; srules; sseqs] ->
    let strs = if shex = "-" then [] else List.map bytes_of_hex (String.split_on_char ',' shex) in
    let seqs = if sseqs = "-" then [] else
        List.map (fun s -> if s = "" then [] else List.map n_of_string (String.split_on_char '.' s))
          (String.split_on_char ',' sseqs) in
    let d = { d_t = n_of_string st; d_rules = rp_rules_of_string srules; d_seqs = seqs;
              d_elements = n_of_string sel; d_maxlength = n_of_string sml } in
    rst.dict <- Some d; rst.strs <- strs;
    pr "rpdac_model same=1 ok=%d elements=%s maxlength=%s\n" (if rpdac_checkb d strs && rpdac_inputb strs then 1 else 0)
      (dec_of_n (spec_elements strs)) (dec_of_n (N.add (spec_maxlen strs) (n_of_int 1)));
    true
  | "rpdac_q" :: op :: rest ->
    let arg = match rest with a :: _ -> a | [] -> "" in
    pr "rpdac_q %s %s =" op arg;
    (match rst.dict with
     | None -> pr " NODICT\n"
     | Some d ->
       let s = rst.strs in
       (match op with
        | "locate" ->
          let q = bytes_of_hex arg in
          (match rpdac_locate d q with
           | Some id -> pr " %s%s\n" (dec_of_n id) (if id = spec_locate s q then "" else " MODEL-MISMATCH")
           | None -> pr " MODEL-OOB\n")
        | "extract" ->
          let id = n_of_string arg in
          (match rpdac_extract d id with
           | Some (Some x) -> pr "%s%s\n" (rp_str_out x) (if spec_extract_x s id = Some x then "" else " MODEL-MISMATCH")
           | Some None -> pr " NULL/0%s\n" (if spec_extract_x s id = None then "" else " MODEL-MISMATCH")
           | None -> pr " MODEL-OOB\n")
        | "locatePrefix" ->
          let p = bytes_of_hex arg in
          (match rpdac_locate_prefix_api d p with
           | Some (l, r) ->
             pr " ids"; List.iter (fun i -> pr " %s" (dec_of_n i)) (contig_ids l r);
             pr "%s\n" (if p = [] || (l, r) = range_of (spec_prefix_ids s p) then "" else " MODEL-MISMATCH")
           | None -> pr " MODEL-OOB\n")
        | "extractPrefix" ->
          let p = bytes_of_hex arg in
          (match rpdac_extract_prefix_api d p with
           | Some l ->
             pr " strs"; List.iter (fun x -> pr "%s" (rp_str_out x)) l;
             pr "%s\n" (if p = [] || l = spec_prefix_strs s p then "" else " MODEL-MISMATCH")
           | None -> pr " MODEL-OOB\n")
        | "extractTable" ->
          (match rpdac_extract_table d with
           | Some l ->
             pr " strs"; List.iter (fun x -> pr "%s" (rp_str_out x)) l;
             pr "%s\n" (if l = spec_table s then "" else " MODEL-MISMATCH")
           | None -> pr " MODEL-OOB\n")
        | _ -> pr " BADOP\n")); true
  | _ -> false

let () = register cmd_rpdac (fun () -> rst.dict <- None; rst.strs <- [])
