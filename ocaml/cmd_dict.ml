(* dictionary commands: answers of the abstract specification (Spec.v) *)
open Model
open Obase
type dictinfo = { kind : string; params : string list }
type stdict = {
  mutable strings : n list list;
  mutable dicts : (string * dictinfo) list;     (* name -> kind *)
  mutable images : (string * dictinfo) list;    (* image -> kind of the saved object *)
}
let st = { strings = []; dicts = []; images = [] }
(* ---- dictionaries: answers of the abstract specification (Spec.v) ---------- *)
let order_kinds = ["PFC"; "RPFC"; "HTFC"; "HHTFC"; "RPHTFC"; "RPDAC"; "FMINDEX"]
let prefix_kinds = ["PFC"; "RPFC"; "HTFC"; "HHTFC"; "RPHTFC"; "RPDAC"; "FMINDEX"; "XBW"]
let table_kinds = ["PFC"; "RPFC"; "HTFC"; "HHTFC"; "RPHTFC"; "RPDAC"; "FMINDEX"; "HASHHF"; "HASHRPF"; "HASHUFFDAC"; "HASHRPDAC"; "BLOCKS"]
let substr_supported (d : dictinfo) =
  match d.kind with
  | "XBW" -> true
  | "FMINDEX" -> (match d.params with _ :: _ :: bwt :: _ -> int_of_string bwt > 0 | _ -> true)
  | _ -> false
let rank_kinds = ["PFC"; "RPFC"; "HTFC"; "HHTFC"; "RPHTFC"; "RPDAC"; "FMINDEX"; "XBW"]

let str_out (s : n list) = let l = List.length s in Printf.sprintf " %s/%d/%d" (hex_of_bytes s) l l

let cmd_dict (tk : string list) : bool =
  match tk with
  | "S" :: hs -> st.strings <- List.map bytes_of_hex hs; pr "S %d\n" (List.length hs); true
  | "build" :: name :: kind :: params ->
    st.dicts <- (name, { kind; params }) :: List.remove_assoc name st.dicts;
    pr "build %s ok\n" name; true
  | ["save"; d; img] ->
    (match List.assoc_opt d st.dicts with
     | Some i -> st.images <- (img, i) :: List.remove_assoc img st.images
     | None -> ());
    pr "SKIP save\n"; true
  | ["qtimeout"; _] -> pr "SKIP qtimeout\n"; true
  | ["locall"; d] ->
    (match List.assoc_opt d st.dicts with
     | None -> pr "locall %s NODICT\n" d
     | Some _ -> pr "locall %s = n=%d notfound=0 wrongextract=0 first=-\n" d (List.length st.strings)); true
  | "qt" :: _ -> pr "SKIP qt\n"; true   (* pattern followed by further bytes: only buffer intactness is observed, by the harness *)
  | ["settag"; img; img2; t] ->
    (* the retagged image belongs to no kind the loaders accept *)
    st.images <- (img2, { kind = "RETAGGED"; params = [] }) :: List.remove_assoc img2 st.images;
    pr "settag %s %s %s\n" img img2 t; true
  | "load" :: name :: img :: how :: _ ->
    (match List.assoc_opt img st.images with
     | Some i ->
       let routed = i.kind <> "RETAGGED" && (how = "generic" || how = i.kind) in
       if routed then begin
         st.dicts <- (name, i) :: List.remove_assoc name st.dicts;
         pr "SKIP load-ok %s\n" name
       end else pr "load %s %s NULL\n" name how
     | None -> pr "SKIP load\n"); true
  | ["free"; d] -> st.dicts <- List.remove_assoc d st.dicts; pr "free %s\n" d; true
  | "ilv" :: d :: rest ->
    (match List.assoc_opt d st.dicts with
     | None -> pr "SKIP ilv\n"
     | Some info ->
       let s = st.strings in
       pr "ilv %s =" d;
       let rec go = function
         | op :: arg :: tl ->
           let p = bytes_of_hex arg in
           let ids l = pr " [ids"; List.iter (fun i -> pr " %s" (dec_of_n i)) l; pr "]" in
           let strs l = if l = [] && op <> "extractTable" then pr " [NULL]" else begin pr " [strs"; List.iter (fun x -> pr "%s" (str_out x)) l; pr "]" end in
           (match op with
            | "locatePrefix" -> if List.mem info.kind prefix_kinds then ids (spec_prefix_ids s p) else pr " [NULL]"
            | "locateSubstr" -> if substr_supported info then ids (spec_substr_ids s p) else pr " [NULL]"
            | "extractPrefix" -> if List.mem info.kind prefix_kinds then strs (spec_prefix_strs s p) else pr " [NULL]"
            | "extractSubstr" -> if substr_supported info then strs (spec_substr_strs s p) else pr " [NULL]"
            | "extractTable" -> if List.mem info.kind table_kinds then strs (spec_table s) else pr " [NULL]"
            | _ -> pr " [BADOP]");
           go tl
         | _ -> () in
       go rest; pr "\n"); true
  | ("q" | "uq") :: d :: op :: rest ->
    let qc = List.hd tk in
    (match List.assoc_opt d st.dicts with
     | None -> pr "%s %s %s NODICT\n" qc d op
     | Some info ->
       let arg = match rest with a :: _ -> a | [] -> "" in
       let s = st.strings in
       pr "%s %s %s %s =" qc d op arg;
       (match op with
        | "numElements" -> pr " %s\n" (dec_of_n (spec_elements s))
        | "maxLength" ->
          let m = int_of_n (spec_maxlen s) in
          pr " %d\n" (if info.kind = "BLOCKS" then m else m + 1)
        | "locate" -> pr " %s\n" (dec_of_n (spec_locate s (bytes_of_hex arg)))
        | "extract" ->
          (match spec_extract_x s (n_of_string arg) with
           | Some x -> pr "%s\n" (str_out x) | None -> pr " NULL/0\n")
        | "locateRank" ->
          if List.mem info.kind rank_kinds then pr " %s\n" arg else pr " 0\n"
        | "extractRank" ->
          if List.mem info.kind rank_kinds then
            (match spec_extract_x s (n_of_string arg) with
             | Some x -> pr "%s\n" (str_out x) | None -> pr " NULL/0\n")
          else pr " NULL/12345\n"
        | "locatePrefix" ->
          if List.mem info.kind prefix_kinds then begin
            pr " ids"; List.iter (fun i -> pr " %s" (dec_of_n i)) (spec_prefix_ids s (bytes_of_hex arg)); pr "\n"
          end else pr " NULL\n"
        | "locateSubstr" ->
          if substr_supported info then begin
            pr " ids"; List.iter (fun i -> pr " %s" (dec_of_n i)) (spec_substr_ids s (bytes_of_hex arg)); pr "\n"
          end else pr " NULL\n"
        | "extractPrefix" ->
          if List.mem info.kind prefix_kinds then begin
            pr " strs"; List.iter (fun x -> pr "%s" (str_out x)) (spec_prefix_strs s (bytes_of_hex arg)); pr "\n"
          end else pr " NULL\n"
        | "extractSubstr" ->
          if substr_supported info then begin
            pr " strs"; List.iter (fun x -> pr "%s" (str_out x)) (spec_substr_strs s (bytes_of_hex arg)); pr "\n"
          end else pr " NULL\n"
        | "extractTable" ->
          if List.mem info.kind table_kinds then begin
            pr " strs"; List.iter (fun x -> pr "%s" (str_out x)) (spec_table s); pr "\n"
          end else pr " NULL\n"
        | _ -> pr " BADOP\n")); true
  | _ -> false


let () = register cmd_dict (fun () -> st.strings <- []; st.dicts <- []; st.images <- [])
