(* PFC commands answered by the CONCRETE model (PFCDefs.v): layout dump, image bytes and
   the `mq` (model query) variants of the API queries. *)
open Model
open Obase

let built : (string * pfc) list ref = ref []

let pfc_of (name : string) : pfc option =
  match List.assoc_opt name !built with
  | Some d -> Some d
  | None ->
    (match List.assoc_opt name Cmd_dict.st.Cmd_dict.dicts with
     | Some { Cmd_dict.kind = "PFC"; Cmd_dict.params = ps } ->
       let b = match ps with b :: _ -> n_of_string b | [] -> n_of_int 4 in
       let d = pfc_build b Cmd_dict.st.Cmd_dict.strings in
       built := (name, d) :: !built; Some d
     | _ -> None)

let str_out (s : n list) = let l = List.length s in Printf.sprintf " %s/%d/%d" (hex_of_bytes s) l l
let csv (l : n list) = String.concat "," (List.map dec_of_n l)

let cmd_pfc (tk : string list) : bool =
  match tk with
  | ["pfc_dump"; name] ->
    (match pfc_of name with
     | None -> pr "pfc_dump NOTPFC\n"
     | Some d ->
       pr "pfc_dump elements=%s maxlength=%s buckets=%s bucketsize=%s bytes=%d text=%s bl=%s blbits=%s\n"
         (dec_of_n d.p_elements) (dec_of_n d.p_maxlength) (dec_of_n d.p_buckets) (dec_of_n d.p_bsize)
         (List.length d.p_text) (hex_of_bytes d.p_text) (csv d.p_bl)
         (dec_of_n (bitsN (n_of_int (List.length d.p_text))))); true
  | ["pfc_image"; name] ->
    (match pfc_of name with
     | None -> pr "pfc_image NOTPFC\n"
     | Some d -> (match pfc_save d with
         | Some bs -> pr "pfc_image %s = %s\n" name (hex_of_bytes bs)
         | None -> pr "pfc_image %s = MODEL-ERR\n" name)); true
  | "mq" :: name :: op :: rest ->
    (match pfc_of name with
     | None -> pr "SKIP mq\n"
     | Some d ->
       let arg = match rest with a :: _ -> a | [] -> "" in
       pr "mq %s %s %s =" name op arg;
       (match op with
        | "locate" -> (match pfc_locate d (bytes_of_hex arg) with
            | Some i -> pr " %s\n" (dec_of_n i) | None -> pr " OOB\n")
        | "extract" | "extractRank" -> (match pfc_extract d (n_of_string arg) with
            | Some (Some s) -> pr "%s\n" (str_out s)
            | Some None -> pr " NULL/0\n"
            | None -> pr " OOB\n")
        | "locatePrefix" -> (match pfc_locate_prefix d (bytes_of_hex arg) with
            | Some (l, r) -> pr " ids"; List.iter (fun i -> pr " %s" (dec_of_n i)) (contig_ids l r); pr "\n"
            | None -> pr " OOB\n")
        | "extractPrefix" -> (match pfc_extract_prefix d (bytes_of_hex arg) with
            | Some (Some l) -> pr " strs"; List.iter (fun x -> pr "%s" (str_out x)) l; pr "\n"
            | Some None -> pr " NULL\n"
            | None -> pr " OOB\n")
        | "extractTable" -> (match pfc_extract_table d with
            | Some l -> pr " strs"; List.iter (fun x -> pr "%s" (str_out x)) l; pr "\n"
            | None -> pr " OOB\n")
        | "numElements" -> pr " %s\n" (dec_of_n d.p_elements)
        | "maxLength" -> pr " %s\n" (dec_of_n d.p_maxlength)
        | _ -> pr " BADOP\n")); true
  | _ -> false

let () = register cmd_pfc (fun () -> built := [])
