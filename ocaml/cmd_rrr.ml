(* C19 / rrr: the word-exact BitSequenceRRR model (RRRDefs.v) behind the rrr_* commands.
   Every line is printed from the MODEL (dump included); for in-domain queries the plain
   specification (BitRGDefs section A) is evaluated as well and MODEL-MISMATCH is printed if the
   two differ (the theorems of RRRProofs.v say they cannot). *)
open Model
open Obase

type str = {
  mutable bits : bool list;
  mutable d : rrr option;
  mutable variant : string;
}
let st = { bits = []; d = None; variant = "cur" }

let bits_of_string s = if s = "-" then [] else List.init (String.length s) (fun i -> s.[i] = '1')
let csv l = if l = [] then "-" else String.concat "," (List.map dec_of_n l)
let e = rrr_E

let spec_answer op a : n option =
  let n = n_of_int (List.length st.bits) in
  let inr = N.ltb a n in
  match op with
  | "access" -> if inr then Some (if bv_access st.bits a then n_of_int 1 else N0) else None
  | "rank1" -> if inr then Some (bv_rank1 st.bits a) else None
  | "rank0" -> if inr then Some (bv_rank0 st.bits a) else None
  | "select1" -> bv_select1 st.bits a
  | "select0" -> bv_select0 st.bits a
  | _ -> failwith ("bad op " ^ op)

let model_answer d op a : n option =
  match op with
  | "access" -> (match rrr_access e d a with Some b -> Some (if b then n_of_int 1 else N0) | None -> None)
  | "rank1" -> rrr_rank1 e d a
  | "rank0" -> rrr_rank0 e d a
  | "select1" -> rrr_select1 e d a
  | "select0" -> rrr_select0 e d a
  | _ -> failwith ("bad op " ^ op)

let build variant bits sr =
  match variant with
  | "old" -> rrr_of_bits_old e bits sr
  | "latepad" -> rrr_of_bits_latepad e bits sr
  | _ -> rrr_of_bits e bits sr

let cmd_rrr (tk : string list) : bool =
  match tk with
  | "rrr_variant" :: v :: _ -> st.variant <- v; pr "rrr_variant %s\n" v; true
  | "rrr_build" :: sr :: rest ->
    let bits = bits_of_string (match rest with b :: _ -> b | [] -> "-") in
    st.bits <- bits;
    st.d <- build st.variant bits (n_of_string sr);
    (match st.d with
     | Some d ->
       let extra = if d.r_ones = bv_ones bits then "" else " MODEL-MISMATCH(ones spec=" ^ dec_of_n (bv_ones bits) ^ ")" in
       pr "rrr_build %s n=%s ones=%s%s\n" sr (dec_of_n d.r_length) (dec_of_n d.r_ones) extra
     | None -> pr "rrr_build %s = OOB\n" sr); true
  | ["rrr_dump"] ->
    (match st.d with
     | Some d ->
       pr "rrr_dump length=%s ones=%s C_len=%s O_len=%s C_field_bits=%s O_bits_len=%s C_sampling_len=%s O_pos_len=%s C_sampling_field_bits=%s O_pos_field_bits=%s sample_rate=%s C=%s O=%s CS=%s OP=%s\n"
         (dec_of_n d.r_length) (dec_of_n d.r_ones) (dec_of_n d.r_C_len) (dec_of_n d.r_O_len) (dec_of_n d.r_C_field_bits)
         (dec_of_n d.r_O_bits_len) (dec_of_n d.r_C_sampling_len) (dec_of_n d.r_O_pos_len)
         (dec_of_n d.r_C_sampling_field_bits) (dec_of_n d.r_O_pos_field_bits) (dec_of_n d.r_sample_rate)
         (csv d.r_C) (csv d.r_O) (csv d.r_C_sampling) (csv d.r_O_pos)
     | None -> pr "rrr_dump NONE\n"); true
  | ["rrr_image"] ->
    (match st.d with
     | Some d -> (match rrr_save d with Some img -> pr "rrr_image = %s\n" (hex_of_bytes img) | None -> pr "rrr_image = OOB\n")
     | None -> pr "rrr_image NONE\n"); true
  | ["rrr_reload"] ->
    (match st.d with
     | Some d ->
       (match rrr_save d with
        | Some img ->
          let guard = [n_of_int 0x5a; n_of_int 0x5a; n_of_int 0x5a] in
          (match rrr_load e (img @ guard) with
           | Some (d', rest) ->
             st.d <- Some d';
             pr "rrr_reload consumed=%d of=%d n=%s ones=%s\n" (List.length img + 3 - List.length rest) (List.length img)
               (dec_of_n d'.r_length) (dec_of_n d'.r_ones)
           | None -> pr "rrr_reload MODEL-ERR(load)\n")
        | None -> pr "rrr_reload MODEL-ERR(save)\n")
     | None -> pr "rrr_reload NONE\n"); true
  | [("rrr_q" | "rrr_xq") as c; op; arg] ->
    let a = n_of_string arg in
    (match st.d with
     | Some d ->
       (match model_answer d op a with
        | Some v ->
          let extra = match spec_answer op a with
            | Some w when w <> v -> " MODEL-MISMATCH(spec=" ^ dec_of_n w ^ ")"
            | _ -> "" in
          pr "%s %s %s = %s%s\n" c op arg (dec_of_n v) extra
        | None -> pr "%s %s %s = OOB\n" c op arg)
     | None -> pr "%s %s %s NONE\n" c op arg); true
  | ["rrr_table"] ->
    let row t = csv (List.map (fun k -> match t e (n_of_int 15) (n_of_int k) with Some v -> v | None -> n_of_int 999999) (List.init 16 (fun k -> k))) in
    let b = Buffer.create 400000 in
    Buffer.add_string b ("rrr_table binomial15=" ^ row e_get_binomial ^ " log2binomial15=" ^ row e_get_log2binomial ^
                         " offset_class=" ^ csv e.e_offset_class ^ " short_bitmaps=");
    for v = 0 to 32767 do
      if v > 0 then Buffer.add_char b ',';
      Buffer.add_string b (match tarr_get rrr_bch_depth e.e_short_bitmaps (n_of_int v) with Some o -> dec_of_n o | None -> "U")
    done;
    Buffer.add_string b " rev_offset=";
    for v = 0 to 32767 do
      if v > 0 then Buffer.add_char b ',';
      Buffer.add_string b (match e_compute_offset e (n_of_int v) with Some o -> dec_of_n o | None -> "U")
    done;
    pr "%s\n" (Buffer.contents b); true
  | _ -> false

let () = register cmd_rrr (fun () -> st.bits <- []; st.d <- None; st.variant <- "cur")
