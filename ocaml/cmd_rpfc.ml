(* RPFC commands: the extracted model RPFCDefs.v answering rpfc_q on the object the real
   constructor produced (all fields dumped by the implementation's rpfc_build, passed back in
   rpfc_model).  ok= is the verdict of the verified checker rpfc_layout_chk (+ rpfc_inputb) on that
   object.  Every answer is cross-checked against the abstract specification Spec.v; a difference
   prints MODEL-MISMATCH (the theorems of RPFCProofs.v say this cannot happen when ok=1). *)
open Model
open Obase

type rfst = { mutable rdict : rpfc option; mutable rstrs : n list list }
let rfst = { rdict = None; rstrs = [] }

let rf_rules_of_string s : (n * n) list =
  if s = "-" || s = "" then [] else
    List.map (fun p -> match String.split_on_char ':' p with
        | [a; b] -> (n_of_string a, n_of_string b)
        | _ -> failwith "bad rule") (String.split_on_char ',' s)
let rf_str_out (s : n list) = let l = List.length s in Printf.sprintf " %s/%d/%d" (hex_of_bytes s) l l

let cmd_rpfc (tk : string list) : bool =
  match tk with
  | "rpfc_build" :: _ -> pr "SKIP rpfc_build\n"; true
  | ["rpfc_model"; _sb; shex; sel; sml; sbk; sbs; sbits; stext; sbl; st; smc; srules] ->
    let strs = if shex = "-" then [] else List.map bytes_of_hex (String.split_on_char ',' shex) in
    let bl = if sbl = "-" || sbl = "" then [] else List.map n_of_string (String.split_on_char ',' sbl) in
    let d = { r_elements = n_of_string sel; r_maxlength = n_of_string sml; r_buckets = n_of_string sbk;
              r_bsize = n_of_string sbs; r_bitsrp = n_of_string sbits; r_text = bytes_of_hex stext;
              r_bl = bl; r_t = n_of_string st; r_maxchar = n_of_string smc;
              r_rules = rf_rules_of_string srules } in
    rfst.rdict <- Some d; rfst.rstrs <- strs;
    let b = d.r_bsize in
    let n = spec_elements strs in
    let nb = if b = N0 then N0 else N.div (N.sub (N.add n b) (n_of_int 1)) b in
    pr "rpfc_model same=1 ok=%d elements=%s maxlength=%s buckets=%s bucketsize=%s\n"
      (if rpfc_layout_chk d strs && rpfc_inputb strs then 1 else 0)
      (dec_of_n n) (dec_of_n (N.add (spec_maxlen strs) (n_of_int 1))) (dec_of_n nb)
      (dec_of_n (let sb = n_of_string _sb in if N.ltb sb (n_of_int 2) then n_of_int 2 else N.modulo sb (n_of_string "4294967296")));
    true
  | "rpfc_q" :: op :: rest ->
    let arg = match rest with a :: _ -> a | [] -> "" in
    pr "rpfc_q %s %s =" op arg;
    (match rfst.rdict with
     | None -> pr " NODICT\n"
     | Some d ->
       let s = rfst.rstrs in
       (match op with
        | "locate" ->
          let q = bytes_of_hex arg in
          (match rpfc_locate d q with
           | Some id -> pr " %s%s\n" (dec_of_n id) (if id = spec_locate s q then "" else " MODEL-MISMATCH")
           | None -> pr " MODEL-OOB\n")
        | "extract" ->
          let id = n_of_string arg in
          (match rpfc_extract d id with
           | Some (Some x) -> pr "%s%s\n" (rf_str_out x) (if spec_extract_x s id = Some x then "" else " MODEL-MISMATCH")
           | Some None -> pr " NULL/0%s\n" (if spec_extract_x s id = None then "" else " MODEL-MISMATCH")
           | None -> pr " MODEL-OOB\n")
        | "locatePrefix" ->
          let p = bytes_of_hex arg in
          (match rpfc_locate_prefix d p with
           | Some (l, r) ->
             pr " ids"; List.iter (fun i -> pr " %s" (dec_of_n i)) (contig_ids l r);
             pr "%s\n" (if (l, r) = range_of (spec_prefix_ids s p) then "" else " MODEL-MISMATCH")
           | None -> pr " MODEL-OOB\n")
        | "extractPrefix" ->
          let p = bytes_of_hex arg in
          (match rpfc_extract_prefix d p with
           | Some (Some l) ->
             pr " strs"; List.iter (fun x -> pr "%s" (rf_str_out x)) l;
             pr "%s\n" (if l <> [] && l = spec_prefix_strs s p then "" else " MODEL-MISMATCH")
           | Some None -> pr " NULL%s\n" (if spec_prefix_strs s p = [] then "" else " MODEL-MISMATCH")
           | None -> pr " MODEL-OOB\n")
        | "extractTable" ->
          (match rpfc_extract_table d with
           | Some l ->
             pr " strs"; List.iter (fun x -> pr "%s" (rf_str_out x)) l;
             pr "%s\n" (if l = spec_table s then "" else " MODEL-MISMATCH")
           | None -> pr " MODEL-OOB\n")
        | _ -> pr " BADOP\n")); true
  | _ -> false

let () = register cmd_rpfc (fun () -> rfst.rdict <- None; rfst.rstrs <- [])
