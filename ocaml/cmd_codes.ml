(* C18 commands: code-table checkers, StatCoder packing model, bit decoder, Hu-Tucker recombination *)
open Model
open Obase

type st18 = { mutable ht : (n * n) list option; mutable hu : (n * n) list option }
let st = { ht = None; hu = None }

let parse_cw (s : string) : n * n =
  match String.split_on_char '/' s with
  | [a; b] -> (n_of_string a, n_of_string b)
  | _ -> failwith ("bad codeword " ^ s)

let table id = if id = "ht" then st.ht else if id = "huff" then st.hu else None
let b2i b = if b then 1 else 0
let syms_of_hex h = bytes_of_hex h
let rec nat_len = function [] -> 0 | _ :: r -> 1 + nat_len r

let print_table name (t : (n * n) list) =
  pr "%s =" name;
  List.iter (fun (c, b) -> pr " %s/%s" (dec_of_n c) (dec_of_n b)) t;
  pr "\n"

let cmd_codes (tk : string list) : bool =
  match tk with
  | "codes_check" :: id :: cws ->
    let t = List.map parse_cw cws in
    if id = "ht" then st.ht <- Some t else st.hu <- Some t;
    pr "codes_check %s n=%d prefix_free=%d complete=%d lengths=%d alphabetic=%s\n" id (List.length t)
      (b2i (check_prefix_free t)) (b2i (check_complete t)) (b2i (check_lengths t))
      (if id = "ht" then string_of_int (b2i (check_alphabetic t)) else "-");
    true
  | "encode" :: id :: strs ->
    (match table id with
     | None -> pr "encode NOSTATE\n"
     | Some t ->
       let state = ref (Some ((([] : n list), N0), N0)) in
       let ends = ref [] in
       List.iter (fun h ->
           match !state with
           | None -> ()
           | Some s0 ->
             let s1 = pack_symbols t (syms_of_hex h) s0 in
             state := s1;
             (match s1 with
              | Some ((out, _), off) -> ends := (8 * List.length out + int_of_n off) :: !ends
              | None -> ())) strs;
       (match !state with
        | None -> pr "encode %s = MODEL-OOB\n" id
        | Some (((_, _), off) as s1) ->
          pr "encode %s = %s offset=%s ends=%s\n" id (hex_of_bytes (final_bytes s1)) (dec_of_n off)
            (if !ends = [] then "-" else String.concat "," (List.rev_map string_of_int !ends))));
    true
  | ["encode_string"; id; h] ->
    (match table id with
     | None -> pr "encode_string NOSTATE\n"
     | Some t ->
       (match pack_string t (syms_of_hex h) with
        | Some (bytes, off) ->
          pr "encode_string %s = %s len=%d offset=%s\n" id (hex_of_bytes bytes) (List.length bytes) (dec_of_n off)
        | None -> pr "encode_string %s = MODEL-OOB\n" id));
    true
  | ["decode"; id; packed; start; nul] ->
    (match table id with
     | None -> pr "decode NOSTATE\n"
     | Some t ->
       (match decode_packed t (bytes_of_hex packed) (n_of_string start) (nat_of_int (int_of_string nul)) with
        | Some (syms, rest) -> pr "decode %s = %s rest=%d\n" id (hex_of_bytes syms) (List.length rest)
        | None -> pr "decode %s = NONE\n" id));
    true
  | "ht_recombine" :: lv ->
    let levels = List.map (fun s -> Z.of_N (n_of_string s)) lv in
    (* the array-level model (seq[], levels[], stack[] as in the C++) gives the root; the pair-stack model
       (proved equal, CodesProofs.recombine_arr_root_eq) decides success = collapsed to one level-0 node *)
    (match recombine levels, recombine_arr_root levels with
     | Some t, Some t' when t = t' -> print_table "ht_recombine" (table_of_tree t' (nat_of_int (List.length lv)))
     | Some _, _ -> pr "ht_recombine = MODEL-MISMATCH\n"
     | None, _ -> pr "ht_recombine = FAIL\n");
    true
  | ["chunk_roundtrip"; id; h] ->
    (* the property itself: the chunked table gives the string back *)
    pr "chunk_roundtrip %s = %s\n" id h; true
  | _ -> false

let () = register cmd_codes (fun () -> st.ht <- None; st.hu <- None)
