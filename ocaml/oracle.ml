(* Line-oriented driver around the extracted Gallina models (unverified glue:
   parsing and printing only).  Reads the same case files as cxx/driver and
   prints the model's answer for every command in the same canonical form. *)
open Model

let rec pos_of_int (i : int) : positive =
  if i = 1 then XH else if i land 1 = 0 then XO (pos_of_int (i lsr 1)) else XI (pos_of_int (i lsr 1))
let n_of_int (i : int) : n = if i = 0 then N0 else Npos (pos_of_int i)
let rec int_of_pos = function XH -> 1 | XO p -> 2 * int_of_pos p | XI p -> 2 * int_of_pos p + 1
let int_of_n = function N0 -> 0 | Npos p -> int_of_pos p
let rec nat_of_int i = if i = 0 then O else S (nat_of_int (i - 1))
let rec int_of_nat = function O -> 0 | S k -> 1 + int_of_nat k

let n16 = n_of_int 16
let n10 = n_of_int 10
(* arbitrary-size parse: decimal or 0x-hex *)
let n_of_string (s : string) : n =
  let hexv c = match c with
    | '0'..'9' -> Char.code c - 48 | 'a'..'f' -> Char.code c - 87 | 'A'..'F' -> Char.code c - 55
    | _ -> failwith ("bad digit in " ^ s) in
  if String.length s > 2 && s.[0] = '0' && (s.[1] = 'x' || s.[1] = 'X') then begin
    let acc = ref N0 in
    String.iteri (fun i c -> if i >= 2 then acc := N.add (N.mul !acc n16) (n_of_int (hexv c))) s; !acc
  end else begin
    let acc = ref N0 in
    String.iter (fun c -> acc := N.add (N.mul !acc n10) (n_of_int (hexv c))) s; !acc
  end
let hex_of_n (x : n) : string =
  if x = N0 then "0" else begin
    let b = Buffer.create 16 in
    let rec go x = if x = N0 then () else begin
        go (N.div x n16); Buffer.add_char b "0123456789abcdef".[int_of_n (N.modulo x n16)] end in
    go x; Buffer.contents b end
let dec_of_n (x : n) : string =
  if x = N0 then "0" else begin
    let b = Buffer.create 16 in
    let rec go x = if x = N0 then () else begin
        go (N.div x n10); Buffer.add_char b "0123456789".[int_of_n (N.modulo x n10)] end in
    go x; Buffer.contents b end

let bytes_of_hex (h : string) : n list =
  if h = "-" then [] else
  List.init (String.length h / 2) (fun i -> n_of_int (int_of_string ("0x" ^ String.sub h (2 * i) 2)))
let hex_of_bytes (l : n list) : string =
  if l = [] then "-" else String.concat "" (List.map (fun b -> Printf.sprintf "%02x" (int_of_n b)) l)
let int_list_of_csv s = if s = "" || s = "-" then [] else List.map int_of_string (String.split_on_char ',' s)

let split_ws (s : string) : string list =
  List.filter (fun t -> t <> "") (String.split_on_char ' ' (String.trim s))

type dictinfo = { kind : string; params : string list }
type state = {
  mutable ls : logseq option;
  mutable strings : n list list;
  mutable dicts : (string * dictinfo) list;     (* name -> kind *)
  mutable images : (string * dictinfo) list;    (* image -> kind of the saved object *)
}

let pr = Printf.printf

let cmd_c17 (st : state) (tk : string list) : bool =
  match tk with
  | [("vb_enc" | "vb2_enc") as c; v] ->
    let bs = vb_encode (n_of_string v) in
    pr "%s %s = %s %d\n" c v (hex_of_bytes bs) (List.length bs); true
  | [("vb_dec" | "vb2_dec") as c; h] ->
    (match vb_decode (bytes_of_hex h) with
     | Some (v, n) -> pr "%s %s = %s %s\n" c h (dec_of_n v) (dec_of_n n)
     | None -> pr "%s %s = OOB\n" c h); true
  | ["ls_new"; w; n] -> st.ls <- Some (ls_new (n_of_string w) (n_of_string n)); pr "ls_new %s %s\n" w n; true
  | "ls_vec" :: w :: vs ->
    st.ls <- ls_of_list (List.map n_of_string vs) (n_of_string w);
    (match st.ls with Some _ -> pr "ls_vec %s %d\n" w (List.length vs) | None -> pr "ls_vec %s MODEL-ERR\n" w); true
  | ["ls_set"; p; v] ->
    (match st.ls with
     | Some s -> (match ls_set s (n_of_string p) (n_of_string v) with
         | Some s' -> st.ls <- Some s'; pr "ls_set %s %s ok\n" p v
         | None -> pr "ls_set %s %s throw\n" p v)
     | None -> pr "ls_set NOSTATE\n"); true
  | ["ls_get"; p] ->
    (match st.ls with
     | Some s -> (match ls_get s (n_of_string p) with
         | Some v -> pr "ls_get %s = 0x%s\n" p (hex_of_n v)
         | None -> pr "ls_get %s = throw\n" p)
     | None -> pr "ls_get NOSTATE\n"); true
  | ["ls_dump"] ->
    (match st.ls with
     | Some s ->
       pr "ls_dump bits=%s n=%s words=%d :" (dec_of_n s.ls_bits) (dec_of_n s.ls_n) (List.length s.ls_data);
       List.iter (fun w -> pr " 0x%s" (hex_of_n w)) s.ls_data; pr "\n"
     | None -> pr "ls_dump NOSTATE\n"); true
  | ["ls_save"] ->
    (match st.ls with Some s -> pr "ls_save = %s\n" (hex_of_bytes (ls_save s)) | None -> pr "ls_save NOSTATE\n"); true
  | ["ls_reload"] ->
    (match st.ls with
     | Some s ->
       let img = ls_save s in
       let guard = [n_of_int 0x5a; n_of_int 0x5a; n_of_int 0x5a] in
       (match ls_load (img @ guard) with
        | Some (s', rest) ->
          st.ls <- Some s';
          pr "ls_reload consumed=%d of=%d\n" (List.length img + 3 - List.length rest) (List.length img)
        | None -> pr "ls_reload MODEL-ERR\n")
     | None -> pr "ls_reload NOSTATE\n"); true
  | _ -> false


(* ---- dictionaries: answers of the abstract specification (Spec.v) ---------- *)
let order_kinds = ["PFC"; "RPFC"; "HTFC"; "HHTFC"; "RPHTFC"; "RPDAC"; "FMINDEX"]
let prefix_kinds = ["PFC"; "RPFC"; "HTFC"; "HHTFC"; "RPHTFC"; "RPDAC"; "FMINDEX"; "XBW"]
let table_kinds = ["PFC"; "RPFC"; "HTFC"; "HHTFC"; "RPHTFC"; "RPDAC"; "FMINDEX"; "HASHHF"; "HASHRPF"; "HASHUFFDAC"; "HASHRPDAC"; "BLOCKS"]
let substr_supported (d : dictinfo) =
  match d.kind with
  | "XBW" -> true
  | "FMINDEX" -> (match d.params with _ :: _ :: bwt :: _ -> int_of_string bwt > 0 | _ -> true)
  | _ -> false
let rank_kinds = ["PFC"; "RPFC"; "HTFC"; "HHTFC"; "RPHTFC"; "RPDAC"; "FMINDEX"; "XBW"]

let str_out (s : n list) = let l = List.length s in Printf.sprintf " %s/%d/%d" (hex_of_bytes s) l l

let cmd_dict (st : state) (tk : string list) : bool =
  match tk with
  | "S" :: hs -> st.strings <- List.map bytes_of_hex hs; pr "S %d\n" (List.length hs); true
  | "build" :: name :: kind :: params ->
    st.dicts <- (name, { kind; params }) :: List.remove_assoc name st.dicts;
    pr "build %s ok\n" name; true
  | ["save"; d; img] ->
    (match List.assoc_opt d st.dicts with
     | Some i -> st.images <- (img, i) :: List.remove_assoc img st.images
     | None -> ());
    pr "SKIP save\n"; true
  | "load" :: name :: img :: how :: _ ->
    (match List.assoc_opt img st.images with
     | Some i ->
       let routed = (how = "generic" && i.kind <> "BLOCKS") || how = i.kind in
       if routed then begin
         st.dicts <- (name, i) :: List.remove_assoc name st.dicts;
         pr "SKIP load-ok %s\n" name
       end else pr "load %s %s NULL\n" name how
     | None -> pr "SKIP load\n"); true
  | ["free"; d] -> st.dicts <- List.remove_assoc d st.dicts; pr "free %s\n" d; true
  | "q" :: d :: op :: rest ->
    (match List.assoc_opt d st.dicts with
     | None -> pr "q %s %s NODICT\n" d op
     | Some info ->
       let arg = match rest with a :: _ -> a | [] -> "" in
       let s = st.strings in
       pr "q %s %s %s =" d op arg;
       (match op with
        | "numElements" -> pr " %s\n" (dec_of_n (spec_elements s))
        | "maxLength" ->
          let m = int_of_n (spec_maxlen s) in
          pr " %d\n" (if info.kind = "BLOCKS" then m else m + 1)
        | "locate" -> pr " %s\n" (dec_of_n (spec_locate s (bytes_of_hex arg)))
        | "extract" ->
          (match spec_extract s (n_of_string arg) with
           | Some x -> pr "%s\n" (str_out x) | None -> pr " NULL/0\n")
        | "locateRank" ->
          if List.mem info.kind rank_kinds then pr " %s\n" arg else pr " 0\n"
        | "extractRank" ->
          if List.mem info.kind rank_kinds then
            (match spec_extract s (n_of_string arg) with
             | Some x -> pr "%s\n" (str_out x) | None -> pr " NULL/0\n")
          else pr " NULL/12345\n"
        | "locatePrefix" ->
          if List.mem info.kind prefix_kinds then begin
            pr " ids"; List.iter (fun i -> pr " %s" (dec_of_n i)) (spec_prefix_ids s (bytes_of_hex arg)); pr "\n"
          end else pr " NULL\n"
        | "locateSubstr" ->
          if substr_supported info then begin
            pr " ids"; List.iter (fun i -> pr " %s" (dec_of_n i)) (spec_substr_ids s (bytes_of_hex arg)); pr "\n"
          end else pr " NULL\n"
        | "extractPrefix" ->
          if List.mem info.kind prefix_kinds then begin
            pr " strs"; List.iter (fun x -> pr "%s" (str_out x)) (spec_prefix_strs s (bytes_of_hex arg)); pr "\n"
          end else pr " NULL\n"
        | "extractSubstr" ->
          if substr_supported info then begin
            pr " strs"; List.iter (fun x -> pr "%s" (str_out x)) (spec_substr_strs s (bytes_of_hex arg)); pr "\n"
          end else pr " NULL\n"
        | "extractTable" ->
          if List.mem info.kind table_kinds then begin
            pr " strs"; List.iter (fun x -> pr "%s" (str_out x)) (spec_table s); pr "\n"
          end else pr " NULL\n"
        | _ -> pr " BADOP\n")); true
  | _ -> false

let handlers : (state -> string list -> bool) list ref = ref [cmd_c17; cmd_dict]

let () =
  let file = Sys.argv.(1) in
  let ic = open_in file in
  let st = ref { ls = None; strings = []; dicts = []; images = [] } in
  (try
     while true do
       let line = input_line ic in
       if String.length line >= 5 && String.sub line 0 5 = "CASE " then begin
         st := { ls = None; strings = []; dicts = []; images = [] };
         pr "%s\n" line
       end else if line = "END" then pr "STATUS ok\nEND\n"
       else begin
         let tk = split_ws line in
         if tk <> [] then begin
           let handled = List.exists (fun h -> try h !st tk with Failure m -> pr "MODEL-FAIL %s\n" m; true) !handlers in
           if not handled then pr "SKIP %s\n" (List.hd tk)
         end
       end
     done
   with End_of_file -> ());
  close_in ic
