(* C19 commands: plain bit-vector / sequence specification (A) and the concrete
   BitSequenceRG model (B).  Every bs_q / seq_q answer comes from the plain
   specification; for kind RG the concrete model is evaluated as well and a
   MODEL-MISMATCH marker is printed if the two differ (the theorems of
   BitRGProofs.v say they cannot). *)
open Model
open Obase

type stb = {
  mutable kind : string;
  mutable bits : bool list;
  mutable rgd : rg option;          (* model B object, fresh or reloaded *)
  mutable syms : n list;
  mutable skind : string;
  mutable sparam : n;
}
let st = { kind = ""; bits = []; rgd = None; syms = []; skind = ""; sparam = N0 }

(* model C over model B: dump of a modelled tree in the format of the driver's seq_dump *)
let rec dump_tree (t : rg wt) : string =
  match t with
  | WNull -> "-"
  | WBad -> "BAD"
  | WLeaf (s, c) -> "L(" ^ dec_of_n s ^ "," ^ dec_of_n c ^ ")"
  | WNode (bm, l, r) ->
    let n = int_of_n bm.rg_n in
    let b = Bytes.make n '0' in
    for i = 0 to n - 1 do if rgt_access bm (n_of_int i) then Bytes.set b i '1' done;
    "N(" ^ Bytes.to_string b ^ "," ^ dump_tree l ^ "," ^ dump_tree r ^ ")"
let parse_codes (s : string) : (n * bool list) list =
  List.map (fun item ->
      match String.split_on_char ':' item with
      | [k; v] -> (n_of_string k, if v = "e" then [] else List.init (String.length v) (fun i -> v.[i] = '1'))
      | _ -> failwith ("bad code item " ^ item)) (String.split_on_char ',' s)
let rec uniq = function [] -> [] | x :: t -> x :: uniq (List.filter (fun y -> y <> x) t)

let bits_of_string s = if s = "-" then [] else List.init (String.length s) (fun i -> s.[i] = '1')
let csv l = String.concat "," (List.map dec_of_n l)
let rec take k l = if k = 0 then [] else match l with [] -> [] | x :: t -> x :: take (k - 1) t

let spec_answer op a : n option =
  let n = n_of_int (List.length st.bits) in
  let inr = N.ltb a n in
  match op with
  | "access" -> if inr then Some (if bv_access st.bits a then n_of_int 1 else N0) else None
  | "rank1" -> if inr then Some (bv_rank1 st.bits a) else None
  | "rank0" -> if inr then Some (bv_rank0 st.bits a) else None
  | "select1" -> bv_select1 st.bits a
  | "select0" -> bv_select0 st.bits a
  | _ -> failwith ("bad op " ^ op)

let model_answer d op a : n option =
  match op with
  | "access" -> (match rg_access d a with Some b -> Some (if b then n_of_int 1 else N0) | None -> None)
  | "rank1" -> rg_rank1 d a
  | "rank0" -> rg_rank0 d a
  | "select1" -> rg_select1 d a
  | "select0" -> rg_select0 d a
  | _ -> failwith ("bad op " ^ op)

let parked_seq : (string * n list * n) ref = ref ("", [], n_of_int 0)

let cmd_bits (tk : string list) : bool =
  match tk with
  | "bs_build" :: kind :: param :: rest ->
    let bits = bits_of_string (match rest with b :: _ -> b | [] -> "-") in
    st.kind <- kind; st.bits <- bits; st.rgd <- None;
    let ones = bv_ones bits in
    let extra =
      if kind = "RG" then begin
        match rg_of_bits bits (n_of_string param) with
        | Some d -> st.rgd <- Some d; if d.rg_ones = ones then "" else " MODEL-MISMATCH(ones B=" ^ dec_of_n d.rg_ones ^ ")"
        | None -> " MODEL-MISMATCH(build failed)"
      end else "" in
    pr "bs_build %s %s n=%d ones=%s%s\n" kind param (List.length bits) (dec_of_n ones) extra; true
  | ["bs_q"; op; arg] ->
    let a = n_of_string arg in
    (match spec_answer op a with
     | Some v ->
       let extra = match st.rgd with
         | Some d when st.kind = "RG" ->
           (match model_answer d op a with
            | Some w when w = v -> ""
            | Some w -> " MODEL-MISMATCH(B=" ^ dec_of_n w ^ ")"
            | None -> " MODEL-MISMATCH(B=OOB)")
         | _ -> "" in
       pr "bs_q %s %s = %s%s\n" op arg (dec_of_n v) extra
     | None -> pr "SKIP bs_q %s %s outside the domain of the specification\n" op arg); true
  | ["bs_xq"; op; arg] ->
    (match st.rgd with
     | Some d when st.kind = "RG" ->
       (match model_answer d op (n_of_string arg) with
        | Some v -> pr "bs_xq %s %s = %s\n" op arg (dec_of_n v)
        | None -> pr "bs_xq %s %s = OOB\n" op arg)
     | _ -> pr "SKIP bs_xq\n"); true
  | ["bs_dump_rs"] ->
    (match st.rgd with
     | Some d when st.kind = "RG" ->
       let nrs = int_of_n (N.div d.rg_n d.rg_s) + 1 in
       pr "bs_dump_rs n=%s factor=%s s=%s integers=%s ones=%s data=%s rs=%s\n" (dec_of_n d.rg_n) (dec_of_n d.rg_factor)
         (dec_of_n d.rg_s) (dec_of_n d.rg_integers) (dec_of_n d.rg_ones) (csv d.rg_data) (csv (take nrs d.rg_rs))
     | _ -> pr "bs_dump_rs NOTRG\n"); true
  | ["bs_image"] ->
    (match st.rgd with
     | Some d when st.kind = "RG" ->
       (match rg_save d with Some img -> pr "bs_image = %s\n" (hex_of_bytes img) | None -> pr "bs_image = OOB\n")
     | _ -> pr "SKIP bs_image\n"); true
  | ["bs_reload"] ->
    (match st.rgd with
     | Some d when st.kind = "RG" ->
       (match rg_save d with
        | Some img ->
          let guard = [n_of_int 0x5a; n_of_int 0x5a; n_of_int 0x5a] in
          (match rg_load (img @ guard) with
           | Some (d', rest) ->
             st.rgd <- Some d';
             pr "bs_reload consumed=%d of=%d n=%s ones=%s\n" (List.length img + 3 - List.length rest) (List.length img)
               (dec_of_n d'.rg_n) (dec_of_n d'.rg_ones)
           | None -> pr "bs_reload MODEL-ERR(load)\n")
        | None -> pr "bs_reload MODEL-ERR(save)\n")
     | _ -> pr "SKIP bs_reload\n"); true
  | "seq_build" :: kind :: bk :: param :: syms ->
    st.skind <- kind; st.syms <- List.map n_of_string syms; st.sparam <- n_of_string param;
    pr "seq_build %s %s %s n=%d\n" kind bk param (List.length syms); true
  | ["seq_swap"] ->
    let (k, sy, pa) = !parked_seq in
    parked_seq := (st.skind, st.syms, st.sparam);
    st.skind <- k; st.syms <- sy; st.sparam <- pa;
    pr "seq_swap current=%d\n" (List.length st.syms); true
  | ["seq_q"; "access"; i] ->
    (match seq_access st.syms (n_of_string i) with
     | Some v -> pr "seq_q access %s = %s\n" i (dec_of_n v)
     | None -> pr "SKIP seq_q access outside the domain\n"); true
  | ["seq_q"; "rank"; c; i] ->
    if N.ltb (n_of_string i) (n_of_int (List.length st.syms)) then
      pr "seq_q rank %s %s = %s\n" c i (dec_of_n (seq_rank (n_of_string c) st.syms (n_of_string i)))
    else pr "SKIP seq_q rank outside the domain\n"; true
  | ["seq_q"; "select"; c; j] ->
    (match seq_select (n_of_string c) st.syms (n_of_string j) with
     | Some v -> pr "seq_q select %s %s = %s\n" c j (dec_of_n v)
     | None -> pr "SKIP seq_q select outside the domain\n"); true
  | ["seq_model"; codes] ->
    (* second phase: the implementation's own code table; model C (wt_new over the RG model) is built with it,
       its shape is printed and every access/rank/select answer of the model is compared with the plain spec *)
    let table = parse_codes codes in
    let depth = List.fold_left (fun a (_, c) -> max a (List.length c)) 0 table in
    let is_set = code_bit table in
    let sep = separable_b is_set (nat_of_int depth) (uniq st.syms) in
    let t = wt_new (rgt_build st.sparam) is_set (nat_of_int depth) st.syms in
    let n = List.length st.syms in
    let bad = ref 0 in
    for i = 0 to n - 1 do
      if wt_access rgt_access rgt_rank1 t (n_of_int i) <> seq_access st.syms (n_of_int i) then incr bad
    done;
    List.iter (fun c ->
        for i = 0 to n - 1 do
          if wt_rank rgt_rank1 is_set t c (n_of_int i) <> seq_rank c st.syms (n_of_int i) then incr bad
        done;
        for j = 1 to int_of_n (seq_count c st.syms) do
          match seq_select c st.syms (n_of_int j) with
          | Some p -> if wt_select rgt_select1 rgt_select0 is_set t c (n_of_int j) <> p then incr bad
          | None -> incr bad
        done) (uniq st.syms);
    pr "seq_model separable=%b %s tree=%s\n" sep (if !bad = 0 then "answers=spec" else Printf.sprintf "MODEL-MISMATCH(%d)" !bad) (dump_tree t); true
  | "seq_xq" :: _ -> pr "SKIP seq_xq\n"; true
  | ["seq_dump"] -> pr "SKIP seq_dump\n"; true
  | ["seq_reload"] -> pr "SKIP seq_reload\n"; true
  | _ -> false

let () = register cmd_bits (fun () -> st.kind <- ""; st.bits <- []; st.rgd <- None; st.syms <- []; st.skind <- ""; st.sparam <- N0; parked_seq := ("", [], N0))
