(* C09/C10/C11 commands: the worker-pool LTS (PoolDefs.v) run under a
   seed-derived schedule, the bounded explorer, the lost-wake-up witness and
   the cutting loop of the parallel constructor *)
open Model
open Obase

let lcg s = (s * 1103515245 + 12345) land 0x3fffffff
let b2i b = if b then 1 else 0
let csv l = if l = [] then "-" else String.concat "," l

let wpc_name = function
  | WLoopStop -> "LoopStop" | WLoopEmpty -> "LoopEmpty" | WLock -> "Lock" | WPredStop -> "PredStop"
  | WPredEmpty -> "PredEmpty" | WBlock -> "Block" | WSleep -> "Sleep" | WWoken -> "Woken"
  | WPostStop -> "PostStop" | WPostEmpty -> "PostEmpty" | WContEmpty -> "ContEmpty" | WPop -> "Pop"
  | WUnlock _ -> "Unlock" | WNotify _ -> "Notify" | WRun _ -> "Run" | WBreakUnlock -> "BreakUnlock"
  | WContUnlock -> "ContUnlock" | WFinalNotify -> "FinalNotify" | WExited -> "Exited"

let describe (s : state) : string =
  Printf.sprintf "workers=%s queue=%d prog_left=%d executed=%d"
    (csv (List.map wpc_name s.wpcs)) (List.length s.queue) (List.length s.prog) (List.length s.executed)

let cmd_pool (tk : string list) : bool =
  match tk with
  | ["pool_run"; variant; w; nt; seed] ->
    (* the model under a pseudo-random schedule derived from the seed; by
       pool_exactly_once_safety / pool_deadlock_free_fixed the answer is always
       counts_all_one=1 executed=ntasks for the fixed variant *)
    let fixed = (variant = "fixed") in
    let wn = int_of_string w and n = int_of_string nt in
    let ts = List.init n (fun i -> n_of_int i) in
    let s = ref (init (nat_of_int wn) (script_of ts)) in
    let r = ref (int_of_string seed + 1) in
    let steps = ref 0 in
    let is_stuck = ref false in
    while not (final !s) && not !is_stuck && !steps < 5000000 do
      r := lcg !r;
      let tid = (!r lsr 7) mod (wn + 1) in
      (match step fixed !s (nat_of_int tid) with
       | Some s' -> s := s'
       | None -> if !steps land 63 = 0 && stuck fixed !s then is_stuck := true);
      incr steps
    done;
    if final !s then begin
      let counts = Array.make (max n 1) 0 in
      List.iter (fun (t, _) -> let i = int_of_n t in counts.(i) <- counts.(i) + 1) (!s).executed;
      let all1 = ref true in
      for i = 0 to n - 1 do if counts.(i) <> 1 then all1 := false done;
      pr "pool_run %s %s %s %s = counts_all_one=%d executed=%d\n" variant w nt seed (b2i !all1) (List.length (!s).executed)
    end else if !is_stuck then pr "pool_run %s %s %s %s = MODEL-STUCK %s\n" variant w nt seed (describe !s)
    else pr "pool_run %s %s %s %s = MODEL-NOFINISH\n" variant w nt seed;
    true
  | ["pool_explore"; variant; spur; w; nt; fuel] ->
    (* bounded exhaustive SEARCH of the model (not a proof) *)
    let r = explore (variant = "fixed") (spur = "1") (nat_of_int (int_of_string w)) (nat_of_int (int_of_string nt))
        (nat_of_int (int_of_string fuel)) in
    pr "pool_explore %s %s %s %s = states=%d exhausted=%d stuck=%s\n" variant spur w nt (int_of_nat r.r_states)
      (b2i r.r_exhausted) (match r.r_stuck with None -> "none" | Some s -> "[" ^ describe s ^ "]");
    true
  | ["pool_witness"; variant] ->
    (* the schedule of pool_lost_wakeup_reachable replayed on either variant *)
    let fixed = (variant = "fixed") in
    let go n t = List.init n (fun _ -> Go (nat_of_int t)) in
    let s = run fixed (go 4 1 @ go 7 0 @ go 1 1) (init (nat_of_int 1) (script_of [])) in
    pr "pool_witness %s = stuck=%d final=%d %s\n" variant (b2i (stuck fixed s)) (b2i (final s)) (describe s);
    true
  | "partition" :: cut :: lens ->
    let c = n_of_string cut in
    let l = List.map n_of_string lens in
    let id = (fun x -> x) in
    let st = starting_indexes id c l in
    let bl = partition id c l in
    let sm = cut_samples id c l in
    pr "partition %s %d = parts=%d starts=%s sizes=%s samplelens=%s\n" cut (List.length l) (List.length bl)
      (csv (List.map dec_of_n st)) (csv (List.map (fun b -> string_of_int (List.length b)) bl))
      (csv (List.map dec_of_n sm));
    true
  | "blocks_image" :: _ -> pr "SKIP blocks_image\n"; true
  | _ -> false

let () = register cmd_pool (fun () -> ())
