(* main loop of the oracle: reads the same case files as cxx/driver *)
open Obase
let () =
  let file = Sys.argv.(1) in
  let ic = open_in file in
  (try
     while true do
       let line = input_line ic in
       if String.length line >= 5 && String.sub line 0 5 = "CASE " then begin
         List.iter (fun r -> r ()) !resets;
         pr "%s\n" line
       end else if line = "END" then pr "STATUS ok\nEND\n"
       else begin
         let tk = split_ws line in
         if tk <> [] then begin
           let handled = List.exists (fun h -> try h tk with Failure m -> pr "MODEL-FAIL %s\n" m; true
                                                        | Not_found -> pr "MODEL-FAIL not_found\n"; true) !handlers in
           if not handled then pr "SKIP %s\n" (List.hd tk)
         end
       end
     done
   with End_of_file -> ());
  close_in ic
