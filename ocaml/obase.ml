(* Line-oriented driver around the extracted Gallina models (unverified glue:
   parsing and printing only).  Reads the same case files as cxx/driver and
   prints the model's answer for every command in the same canonical form. *)
open Model

let rec pos_of_int (i : int) : positive =
  if i = 1 then XH else if i land 1 = 0 then XO (pos_of_int (i lsr 1)) else XI (pos_of_int (i lsr 1))
let n_of_int (i : int) : n = if i = 0 then N0 else Npos (pos_of_int i)
let rec int_of_pos = function XH -> 1 | XO p -> 2 * int_of_pos p | XI p -> 2 * int_of_pos p + 1
let int_of_n = function N0 -> 0 | Npos p -> int_of_pos p
let rec nat_of_int i = if i = 0 then O else S (nat_of_int (i - 1))
let rec int_of_nat = function O -> 0 | S k -> 1 + int_of_nat k

let n16 = n_of_int 16
let n10 = n_of_int 10
(* arbitrary-size parse: decimal or 0x-hex *)
let n_of_string (s : string) : n =
  let hexv c = match c with
    | '0'..'9' -> Char.code c - 48 | 'a'..'f' -> Char.code c - 87 | 'A'..'F' -> Char.code c - 55
    | _ -> failwith ("bad digit in " ^ s) in
  if String.length s > 2 && s.[0] = '0' && (s.[1] = 'x' || s.[1] = 'X') then begin
    let acc = ref N0 in
    String.iteri (fun i c -> if i >= 2 then acc := N.add (N.mul !acc n16) (n_of_int (hexv c))) s; !acc
  end else begin
    let acc = ref N0 in
    String.iter (fun c -> acc := N.add (N.mul !acc n10) (n_of_int (hexv c))) s; !acc
  end
let hex_of_n (x : n) : string =
  if x = N0 then "0" else begin
    let b = Buffer.create 16 in
    let rec go x = if x = N0 then () else begin
        go (N.div x n16); Buffer.add_char b "0123456789abcdef".[int_of_n (N.modulo x n16)] end in
    go x; Buffer.contents b end
let dec_of_n (x : n) : string =
  if x = N0 then "0" else begin
    let b = Buffer.create 16 in
    let rec go x = if x = N0 then () else begin
        go (N.div x n10); Buffer.add_char b "0123456789".[int_of_n (N.modulo x n10)] end in
    go x; Buffer.contents b end

let bytes_of_hex (h : string) : n list =
  if h = "-" then [] else
  List.init (String.length h / 2) (fun i -> n_of_int (int_of_string ("0x" ^ String.sub h (2 * i) 2)))
let hex_of_bytes (l : n list) : string =
  if l = [] then "-" else String.concat "" (List.map (fun b -> Printf.sprintf "%02x" (int_of_n b)) l)
let int_list_of_csv s = if s = "" || s = "-" then [] else List.map int_of_string (String.split_on_char ',' s)

let split_ws (s : string) : string list =
  List.filter (fun t -> t <> "") (String.split_on_char ' ' (String.trim s))

let pr = Printf.printf

(* registry: every cmd_*.ml registers a handler (returns true when it recognised
   the command) and a reset function called at each CASE line *)
let handlers : (string list -> bool) list ref = ref []
let resets : (unit -> unit) list ref = ref []
let register (h : string list -> bool) (r : unit -> unit) =
  handlers := !handlers @ [h]; resets := !resets @ [r]
