(* C20 commands: the Re-Pair model (RePairDefs.v) answering rp_check / rpd_check.
   Protocol (see gen_repair.py): the harness first runs the implementation's `rp_build` / `rpd_build`
   (the model has no opinion: SKIP), then forms `rp_check <input> <t> <rules> <raw>` from the implementation's
   output.  For that command both sides print the same canonical line; the implementation prints "ok=1"
   (its implicit claim) where the model prints the verdict of the verified checker. *)
open Model
open Obase

let z_of_int (i : int) : z = if i = 0 then Z0 else if i > 0 then Zpos (pos_of_int i) else Zneg (pos_of_int (-i))
let csv_n s = List.map n_of_int (int_list_of_csv s)
let csv_z s = List.map z_of_int (int_list_of_csv s)
let join_n l = if l = [] then "-" else String.concat "," (List.map dec_of_n l)
let rules_of_string s : (n * n) list =
  if s = "-" || s = "" then [] else
    List.map (fun p -> match String.split_on_char ':' p with
        | [a; b] -> (n_of_string a, n_of_string b)
        | _ -> failwith "bad rule") (String.split_on_char ',' s)
let b01 b = if b then 1 else 0
let zzz = [n_of_int 0x5a; n_of_int 0x5a; n_of_int 0x5a]

let cmd_repair (tk : string list) : bool =
  match tk with
  | "rp_build" :: _ -> pr "SKIP rp_build\n"; true
  | "rpd_build" :: _ -> pr "SKIP rpd_build\n"; true
  | ["rp_check"; sin; _; _; _] when String.length sin > 1500000 ->
    (* beyond the size the extracted checker handles in reasonable time: the harness evaluates losslessness directly *)
    pr "SKIP rp_check (input beyond the oracle's size limit)\n"; true
  | ["rp_check"; sin; st; srules; sraw] ->
    let input = csv_n sin and t = n_of_string st and rules = rules_of_string srules and raw = csv_z sraw in
    (match compact raw, rp_build_obj N0 t rules with
     | Some cseq, Some obj ->
       let fuel = nat_of_int (List.length rules) in
       let ok = check_grammar input t rules cseq && gaps_wf raw in
       let dec = decode_seq obj.ro_G t fuel cseq in
       let abs = expand_seq rules t cseq in
       if dec <> abs && ok then pr "MODEL-FAIL packed decoder and abstract expansion differ\n" else begin
         let img = rp_save obj in
         let reload = (rp_loadNoSeq (img @ zzz) = Some (obj, zzz)) in
         let text = List.filter (fun s -> s <> N0) cseq in
         let enc = n_of_int 12 in
         let (img2, reload2) =
           match ls_of_list text (rp_bits t rules) with
           | Some cls -> let i2 = rp_save_seq obj enc cls in
             (hex_of_bytes i2, rp_load_seq (i2 @ zzz) = Some (((obj, enc), cls), zzz))
           | None -> ("MODEL-ERR", false) in
         pr "rp_check same=1 ok=%d terminals=%s rules=%d bits=%s cseq=%s expand=%s gwords=%s save=%s reload=%d saveseq=%s reloadseq=%d\n"
           (b01 ok) (dec_of_n (terminals_of input)) (List.length rules) (dec_of_n (rp_getBits obj))
           (join_n cseq) (match dec with Some l -> join_n l | None -> "NONE")
           (if obj.ro_G.ls_data = [] then "-" else String.concat "," (List.map hex_of_n obj.ro_G.ls_data))
           (hex_of_bytes img) (b01 reload) img2 (b01 reload2)
       end
     | None, _ -> pr "rp_check MODEL: compaction walk does not terminate\n"
     | _, None -> pr "rp_check MODEL: rule table does not fit its width\n"); true
  | ["rpd_check"; shex; st; srules; sseqs] ->
    let strs = if shex = "-" then [] else List.map bytes_of_hex (String.split_on_char ',' shex) in
    let t = n_of_string st and rules = rules_of_string srules in
    let seqs = if sseqs = "-" then [] else
        List.map (fun s -> if s = "" then [] else List.map n_of_string (String.split_on_char '.' s))
          (String.split_on_char ',' sseqs) in
    let input = List.concat_map (fun s -> s @ [N0]) strs in
    let cseq = List.concat_map (fun s -> s @ [N0]) seqs in
    (match rp_build_obj N0 t rules with
     | Some obj ->
       let fuel = nat_of_int (List.length rules) in
       let ok = check_grammar input t rules cseq in
       let ex = List.map (fun s -> match decode_seq obj.ro_G t fuel s with
           | Some l -> hex_of_bytes l | None -> "NONE") seqs in
       pr "rpd_check same=1 ok=%d terminals=%s rules=%d bits=%s extract=%s\n"
         (b01 ok) (dec_of_n (terminals_of input)) (List.length rules) (dec_of_n (rp_getBits obj))
         (if ex = [] then "-" else String.concat "," ex)
     | None -> pr "rpd_check MODEL: rule table does not fit its width\n"); true
  | _ -> false

let () = register cmd_repair (fun () -> ())
