(* XBW dictionary: the extracted algorithm-level model (XBWDefs.v) run on the arrays DUMPED from the real (loaded)
   object, the verified checker xbw_check on those arrays, and the abstract specification (Spec.v) beside it, composed
   with the ID order the model itself exhibits (xbw_order S = members in the order of their terminator leaves).
   Unverified glue: parsing and printing. *)
open Model
open Obase

type xst = { mutable strings : n list list; mutable d : xbw option; mutable order : n list list }
let xs = { strings = []; d = None; order = [] }

let n_list_of_csv s = if s = "-" || s = "" then [] else List.map n_of_string (String.split_on_char ',' s)
let bits_of_string s = if s = "-" then [] else List.init (String.length s) (fun i -> s.[i] = '1')
let hexs (l : n list) = String.concat "" (List.map (fun b -> Printf.sprintf "%02x" (int_of_n b)) l)
let str_out (s : n list) = let l = List.length s in Printf.sprintf " %s/%d/%d" (hexs s) l l
(* (C string, reported length) *)
let cstr_out ((s, l) : n list * n) = Printf.sprintf " %s/%s/%d" (hexs s) (dec_of_n l) (List.length s)
let rec cut0 = function [] -> [] | x :: t -> if x = N0 then [] else x :: cut0 t
let ids_out (ids, more) =
  " ids" ^ String.concat "" (List.map (fun i -> " " ^ dec_of_n i) ids) ^ (if more then " MORE" else "")
let strs_out (l, more) = " strs" ^ String.concat "" (List.map cstr_out l) ^ (if more then " MORE" else "")
let sort_n l = List.sort (fun a b -> compare (int_of_n a) (int_of_n b)) l

(* entries 1..maxLabel+1 of a 257-entry optional table, as the driver dumps them *)
let tab_slice (t : n option list) (hi : int) : string =
  let a = Array.of_list t in
  let v = List.init (max 0 (min hi 256)) (fun i -> match a.(i + 1) with Some x -> dec_of_n x | None -> "?") in
  if v = [] then "-" else String.concat "," v

let cmd_xbw (tk : string list) : bool =
  match tk with
  | "xbw_build" :: _ -> pr "SKIP xbw_build\n"; true
  | ["xbw_check"; s; nodes; maxlabel; elements; maxlength; alpha; last; a; mapping; unmap; sela] ->
    let strings = if s = "-" then [] else List.map bytes_of_hex (String.split_on_char ',' s) in
    xs.strings <- strings;
    (match xbw_load (n_of_string nodes) (n_list_of_csv mapping) (n_list_of_csv alpha) (bits_of_string last)
             (bits_of_string a) (n_of_string elements) (n_of_string maxlength) with
     | None -> xs.d <- None; pr "xbw_check same=1 ok=0 derived=0 LOAD-OOB\n"
     | Some d ->
       xs.d <- Some d;
       xs.order <- xbw_order strings;
       let hi = int_of_n d.x_maxLabel + 1 in
       let derived = dec_of_n d.x_maxLabel = maxlabel && tab_slice d.x_unmap hi = unmap && tab_slice d.x_selA hi = sela in
       let ok = valid_set_b strings && xbw_check strings d in
       pr "xbw_check same=1 ok=%d derived=%d nodes=%d elements=%s maxlength=%s\n" (if ok then 1 else 0)
         (if derived then 1 else 0) (List.length (labels_of (trie_blocks strings)))
         (dec_of_n (spec_elements strings)) (dec_of_n (N.add (spec_maxlen strings) (n_of_int 1))));
    true
  | "xbw_check" :: _ -> xs.d <- None; pr "xbw_check same=1 ok=0 derived=0 BADDUMP\n"; true
  | "xbw_q" :: op :: rest ->
    (match xs.d with
     | None -> pr "q xbw %s NODICT\n" op
     | Some d ->
       let arg = match rest with a :: _ -> a | [] -> "" in
       let s' = xs.order in
       let cap = nat_of_int (int_of_n d.x_elements + 3) in
       let q = bytes_of_hex arg in
       let model, ok =
         match op with
         | "numElements" -> " " ^ dec_of_n d.x_elements, d.x_elements = spec_elements xs.strings
         | "maxLength" -> " " ^ dec_of_n d.x_maxlength, d.x_maxlength = N.add (spec_maxlen xs.strings) (n_of_int 1)
         | "locate" ->
           (match xbw_locate_api d q with
            | Some x -> " " ^ dec_of_n x, x = spec_locate s' q
            | None -> " MODEL-OOB", false)
         | "extract" ->
           (match xbw_extract d (n_of_string arg) with
            | Some (Some x) -> cstr_out (cut0 x, n_of_int (List.length x)), Some x = spec_extract_x s' (n_of_string arg)
            | Some None -> " NULL/0", spec_extract_x s' (n_of_string arg) = None
            | None -> " MODEL-OOB", false)
         | "locatePrefix" ->
           (match xbw_locatePrefix d q cap with
            | Some (ids, more) -> ids_out (ids, more), (not more) && sort_n ids = spec_prefix_ids s' q
            | None -> " MODEL-OOB", false)
         | "extractPrefix" ->
           (match xbw_extractPrefix_api d q cap with
            | Some None -> " NULL", spec_prefix_strs s' q = []
            | Some (Some (l, more)) ->
              strs_out (l, more),
              (not more) && l <> []
                         && List.sort compare (List.map (fun (x, _) -> List.map int_of_n x) l)
                            = List.sort compare (List.map (List.map int_of_n) (spec_prefix_strs s' q))
                         && List.for_all (fun (x, len) -> int_of_n len = List.length x) l
            | None -> " MODEL-OOB", false)
         | _ -> " BADOP", true in
       (* the theorems speak about non-empty queries without NUL / terminator label only *)
       let in_scope = match op with
         | "locate" -> arg = "-" || arg = "" || xq_valid_b q
         | "locatePrefix" | "extractPrefix" -> arg <> "-" && arg <> "" && xq_valid_b q
         | _ -> true in
       pr "q xbw %s %s =%s%s\n" op arg model (if in_scope && not ok then " MODEL-MISMATCH" else ""));
    true
  | _ -> false

let () = register cmd_xbw (fun () -> xs.strings <- []; xs.d <- None; xs.order <- [])
