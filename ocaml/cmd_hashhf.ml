(* hhf_* commands: the extracted model HashHFDefs.v answering locate / extract on the LOADED StringDictionaryHASHHF
   object the real constructor + save + load produced (all private members dumped by the implementation's hhf_build,
   passed back in hhf_model), in the three hash representations of Hash::load (options 1, 2, 3; 2 and 3 are computed by
   the model's own hashhf_load and printed as comp= / offb= next to the real HashBdh / HashBBdh arrays).
   ok= is the verdict of the verified checker hashhf_check on that object.  When ok=1 every answer is cross-checked
   against the abstract specification over the ID-ordered view T of the strings (the strings in the order of their
   extracted IDs); a difference prints MODEL-MISMATCH (the theorems of HashHFProofs.v say this cannot happen).
   A memory error of the model ([None]) prints nothing after the '=': that is what the implementation's line looks
   like when the query crashed. *)
open Model
open Obase

type hhst = { mutable hhd : hashhf option list; mutable hhstrs : n list list; mutable hhok : bool; mutable hht : n list list }
let hhst = { hhd = []; hhstrs = []; hhok = false; hht = [] }

let hh_z_of_int (i : int) : z = if i = 0 then Z0 else if i > 0 then Zpos (pos_of_int i) else Zneg (pos_of_int (- i))
let hh_csv f s = if s = "-" || s = "" then [] else List.map f (String.split_on_char ',' s)
let hh_pair sep f g s = match String.split_on_char sep s with
  | [a; b] -> (f a, g b)
  | _ -> failwith ("bad pair " ^ s)
let hh_trees_of s : ((z * z) * z) list list =
  if s = "-" || s = "" then [] else
    List.map (fun t ->
        List.map (fun nd -> match String.split_on_char '/' nd with
            | [a; b; c] -> ((hh_z_of_int (int_of_string a), hh_z_of_int (int_of_string b)), hh_z_of_int (int_of_string c))
            | _ -> failwith "bad tree node") (String.split_on_char ';' t))
      (String.split_on_char '|' s)
let hh_bools s : bool list = if s = "-" then [] else List.init (String.length s) (fun i -> s.[i] = '1')
let hh_bools_out (l : bool list) = if l = [] then "-" else String.concat "" (List.map (fun b -> if b then "1" else "0") l)
let hh_nlist_out (l : n list) = if l = [] then "-" else String.concat "," (List.map dec_of_n l)

let hh_join (ans : string option list) : string =
  if List.exists (fun a -> a = None) ans then "" else
    match List.map (function Some a -> a | None -> "") ans with
    | [] -> " NODICT"
    | a :: r as l -> if List.for_all (fun x -> x = a) r then " " ^ a else " DIFFER " ^ String.concat " | " l

let cmd_hashhf (tk : string list) : bool =
  match tk with
  | "hhf_build" :: _ -> pr "SKIP hhf_build\n"; true
  | "hhf_hv" :: _ -> pr "SKIP hhf_hv\n"; true
  | ["hhf_model"; _ov; shex; shv; sel; sml; smcl; stext; scw; sk; sstream; stab; send; strees; sbits; shash] ->
    let strs = if shex = "-" then [] else List.map bytes_of_hex (String.split_on_char ',' shex) in
    let hvs = hh_csv (hh_pair ':' n_of_string n_of_string) shv in
    let ks = List.map2 (fun k (a, b) -> { hk_key = k; hk_h1 = a; hk_h2 = b }) strs hvs in
    let bits = hh_bools sbits in
    let f = { ft_bits = bits; ft_hash = hh_csv n_of_string shash } in
    let d = { hh_elements = n_of_string sel; hh_maxlength = n_of_string sml; hh_maxcomplength = n_of_string smcl;
              hh_text = bytes_of_hex stext; hh_cw = hh_csv (hh_pair '/' n_of_string n_of_string) scw;
              hh_k = n_of_string sk; hh_stream = bytes_of_hex sstream;
              hh_tab = hh_csv (hh_pair ':' n_of_string n_of_string) stab; hh_endings = hh_csv n_of_string send;
              hh_trees = hh_trees_of strees; hh_repr = RDh f } in
    let ok = hashhf_check ks d in
    let l i = hashhf_load d (n_of_int i) in
    hhst.hhd <- [l 1; l 2; l 3]; hhst.hhstrs <- strs; hhst.hhok <- ok;
    (* the ID-ordered view: the strings in the order of their extracted IDs (only used for the cross-check) *)
    hhst.hht <- (if ok then List.init (List.length strs) (fun i ->
        match hashhf_extract d (n_of_int (i + 1)) with Some (Some s) -> s | _ -> []) else []);
    let comp = match l 2 with Some { hh_repr = RB (_, c); _ } -> hh_nlist_out c | _ -> "NOLOAD" in
    let offb = match l 3 with Some { hh_repr = RBB (_, o); _ } -> hh_bools_out o | _ -> "NOLOAD" in
    pr "hhf_model same=1 ok=%d tsize=%d elements=%d maxlength=%s comp=%s offb=%s\n" (if ok then 1 else 0)
      (List.length bits) (List.length strs) (dec_of_n (N.add (spec_maxlen strs) (n_of_int 1))) comp offb;
    true
  | "hhf_model" :: _ -> pr "hhf_model MODEL-FAIL arity\n"; true
  | "hhf_q" :: op :: rest ->
    let arg = match rest with a :: _ -> a | [] -> "" in
    let mark b = if hhst.hhok && not b then " MODEL-MISMATCH" else "" in
    (match op with
     | "locate" ->
       let h1, h2 = match rest with [_; a; b] -> (n_of_string a, n_of_string b) | _ -> (N0, N0) in
       let q = bytes_of_hex arg in
       let hq = { hk_key = q; hk_h1 = h1; hk_h2 = h2 } in
       pr "hhf_q locate %s %s:%s =" arg (dec_of_n h1) (dec_of_n h2);
       if hhst.hhd = [] then pr " NODICT\n" else begin
         let want = spec_locate hhst.hht q in
         let ans = List.map (fun od -> match od with
             | None -> Some "NOTLOADED"
             | Some d -> (match hashhf_locate d hq with
                 | Some id -> Some (dec_of_n id ^ mark (id = want))
                 | None -> None)) hhst.hhd in
         pr "%s\n" (hh_join ans) end
     | "extract" ->
       let id = n_of_string arg in
       pr "hhf_q extract %s =" arg;
       if hhst.hhd = [] then pr " NODICT\n" else begin
         let want = spec_extract_x hhst.hht id in
         let ans = List.map (fun od -> match od with
             | None -> Some "NOTLOADED"
             | Some d -> (match hashhf_extract_raw d id with
                 | Some (Some (x, l)) ->
                   Some (Printf.sprintf "%s/%s/%d%s" (hex_of_bytes x) (dec_of_n l) (List.length x)
                           (mark (want = Some x && hashhf_extract d id = Some (Some x))))
                 | Some None -> Some ("NULL/0" ^ mark (want = None))
                 | None -> None)) hhst.hhd in
         pr "%s\n" (hh_join ans) end
     | "table" ->
       pr "hhf_q table =";
       if hhst.hhd = [] then pr " NODICT\n" else begin
         let ans = List.map (fun od -> match od with
             | None -> Some "NOTLOADED"
             | Some d -> (match hashhf_table d with
                 | Some l -> Some (String.concat " " ("strs" :: List.map (fun x -> match x with
                     | Some s -> let n = List.length s in Printf.sprintf "%s/%d/%d" (hex_of_bytes s) n n
                     | None -> "NULL/0") l))
                 | None -> None)) hhst.hhd in
         pr "%s\n" (hh_join ans) end
     | _ -> pr "SKIP hhf_q %s\n" op); true
  | _ -> false

let () = register cmd_hashhf (fun () -> hhst.hhd <- []; hhst.hhstrs <- []; hhst.hhok <- false; hhst.hht <- [])
