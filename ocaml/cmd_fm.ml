(* FM-index dictionary: the extracted algorithm-level model (FMDefs.v) run on the arrays DUMPED from the real
   object, the verified checker fm_check on those arrays, and the abstract specification (Spec.v) beside it.
   Unverified glue: parsing, printing and the naive suffix sort whose result is only a CANDIDATE handed to the
   verified checker. *)
open Model
open Obase

type fmst = { mutable strings : n list list; mutable d : fmidx option; mutable cap : int }
let fst_ = { strings = []; d = None; cap = 0 }

let n_list_of_csv s = if s = "-" || s = "" then [] else List.map n_of_string (String.split_on_char ',' s)
let bits_of_string s = if s = "-" then [] else List.init (String.length s) (fun i -> s.[i] = '1')

(* candidate suffix array of T (positions 0..n, the empty suffix first): plain sort of the suffixes *)
let naive_sa (t : n list) : n list =
  let a = Array.of_list (List.map int_of_n t) in
  let n = Array.length a in
  let cmp i j =
    let rec go i j =
      if i >= n && j >= n then 0 else if i >= n then -1 else if j >= n then 1
      else if a.(i) <> a.(j) then compare a.(i) a.(j) else go (i + 1) (j + 1) in
    go i j in
  List.map n_of_int (List.sort cmp (List.init (n + 1) (fun i -> i)))

let str_out (s : n list) = let l = List.length s in Printf.sprintf " %s/%d/%d" (hex_of_bytes s) l l
let ids_out (ids, more) =
  " ids" ^ String.concat "" (List.map (fun i -> " " ^ dec_of_n i) ids) ^ (if more then " MORE" else "")
let strs_out (l, more) =
  " strs" ^ String.concat "" (List.map str_out l) ^ (if more then " MORE" else "")

let cmd_fm (tk : string list) : bool =
  match tk with
  | "fm_build" :: _ -> pr "SKIP fm_build\n"; true
  | ["fm_check"; _sparse; _bparam; step; s; bwt; occ; alpha; sampled; suff; seps; elements; maxlength] ->
    let strings = if s = "-" then [] else List.map bytes_of_hex (String.split_on_char ',' s) in
    fst_.strings <- strings;
    let al = List.map int_of_n (n_list_of_csv alpha) in
    let d = { fm_bwt = n_list_of_csv bwt; fm_occ = n_list_of_csv occ;
              fm_alpha = List.init 256 (fun c -> List.mem c al);
              fm_samplesuff = n_of_string step; fm_sampled = bits_of_string sampled;
              fm_suff = n_list_of_csv suff; fm_elements = n_of_string elements;
              fm_maxlength = n_of_string maxlength } in
    fst_.d <- Some d;
    fst_.cap <- List.length strings + 3;
    let t = dict_text strings in
    let sa = naive_sa t in
    let ok = fm_check strings sa d && valid_set_b strings
             && (seps = "-" || check_seps t (bits_of_string seps)) in
    pr "fm_check same=1 ok=%d n=%d elements=%s maxlength=%s\n" (if ok then 1 else 0) (List.length t)
      (dec_of_n (spec_elements strings)) (dec_of_n (N.add (spec_maxlen strings) (n_of_int 1)));
    true
  | "fm_q" :: op :: rest ->
    (match fst_.d with
     | None -> pr "q fm %s NODICT\n" op
     | Some d ->
       let arg = match rest with a :: _ -> a | [] -> "" in
       let s = fst_.strings in
       let cap = nat_of_int fst_.cap in
       let substr = d.fm_samplesuff <> N0 in
       (* model answer, spec answer *)
       let model, spec =
         match op with
         | "numElements" -> dec_of_n d.fm_elements |> (fun x -> " " ^ x), " " ^ dec_of_n (spec_elements s)
         | "maxLength" -> " " ^ dec_of_n d.fm_maxlength, " " ^ dec_of_n (N.add (spec_maxlen s) (n_of_int 1))
         | "locate" ->
           (match fm_locate d (bytes_of_hex arg) with Some x -> " " ^ dec_of_n x | None -> " MODEL-OOB"),
           " " ^ dec_of_n (spec_locate s (bytes_of_hex arg))
         | "extract" | "extractRank" ->
           (match fm_extract d (n_of_string arg) with
            | Some (Some x) -> str_out x | Some None -> " NULL/0" | None -> " MODEL-OOB"),
           (match spec_extract_x s (n_of_string arg) with Some x -> str_out x | None -> " NULL/0")
         | "locateRank" -> " " ^ arg, " " ^ arg
         | "locatePrefix" ->
           (match fm_locatePrefix_ids d (bytes_of_hex arg) cap with Some r -> ids_out r | None -> " MODEL-OOB"),
           ids_out (spec_prefix_ids s (bytes_of_hex arg), false)
         | "locateSubstr" ->
           (match fm_locateSubstr d (bytes_of_hex arg) cap with
            | Some (Some r) -> ids_out r | Some None -> " NULL" | None -> " MODEL-OOB"),
           (if substr then ids_out (spec_substr_ids s (bytes_of_hex arg), false) else " NULL")
         | "extractPrefix" ->
           (match fm_extractPrefix d (bytes_of_hex arg) cap with
            | Some (Some r) -> strs_out r | Some None -> " NULL" | None -> " MODEL-OOB"),
           (match spec_prefix_strs s (bytes_of_hex arg) with [] -> " NULL" | l -> strs_out (l, false))
         | "extractSubstr" ->
           (match fm_extractSubstr d (bytes_of_hex arg) cap with
            | Some (Some r) -> strs_out r | Some None -> " NULL" | None -> " MODEL-OOB"),
           (if substr then (match spec_substr_strs s (bytes_of_hex arg) with [] -> " NULL" | l -> strs_out (l, false))
            else " NULL")
         | "extractTable" ->
           (match fm_extractTable d cap with Some r -> strs_out r | None -> " MODEL-OOB"),
           strs_out (spec_table s, false)
         | _ -> " BADOP", " BADOP" in
       (* the theorems speak about valid queries only: outside them the model alone answers *)
       let in_scope = match op with
         | "locate" -> valid_query_b (bytes_of_hex arg)
         | "locatePrefix" | "locateSubstr" | "extractPrefix" | "extractSubstr" ->
           arg <> "-" && arg <> "" && valid_query_b (bytes_of_hex arg)
         | _ -> true in
       pr "q fm %s %s =%s%s\n" op arg model
         (if in_scope && model <> spec then " MODEL-MISMATCH spec=" ^ spec else ""));
    true
  | _ -> false

let () = register cmd_fm (fun () -> fst_.strings <- []; fst_.d <- None; fst_.cap <- 0)
