(* C17 commands: VByte and LogSequence models *)
open Model
open Obase
type st17 = { mutable ls : logseq option }
let st = { ls = None }
let cmd_c17 (tk : string list) : bool =
  match tk with
  | [("vb_enc" | "vb2_enc") as c; v] ->
    let bs = vb_encode (n_of_string v) in
    pr "%s %s = %s %d\n" c v (hex_of_bytes bs) (List.length bs); true
  | [("vb_dec" | "vb2_dec") as c; h] ->
    (match vb_decode (bytes_of_hex h) with
     | Some (v, n) -> pr "%s %s = %s %s\n" c h (dec_of_n v) (dec_of_n n)
     | None -> pr "%s %s = OOB\n" c h); true
  | ["ls_new"; w; n] -> st.ls <- Some (ls_new (n_of_string w) (n_of_string n)); pr "ls_new %s %s\n" w n; true
  | "ls_vec" :: w :: vs ->
    st.ls <- ls_of_list (List.map n_of_string vs) (n_of_string w);
    (match st.ls with Some _ -> pr "ls_vec %s %d\n" w (List.length vs) | None -> pr "ls_vec %s MODEL-ERR\n" w); true
  | ["ls_set"; p; v] ->
    (match st.ls with
     | Some s -> (match ls_set s (n_of_string p) (n_of_string v) with
         | Some s' -> st.ls <- Some s'; pr "ls_set %s %s ok\n" p v
         | None -> pr "ls_set %s %s throw\n" p v)
     | None -> pr "ls_set NOSTATE\n"); true
  | ["ls_get"; p] ->
    (match st.ls with
     | Some s -> (match ls_get s (n_of_string p) with
         | Some v -> pr "ls_get %s = 0x%s\n" p (hex_of_n v)
         | None -> pr "ls_get %s = throw\n" p)
     | None -> pr "ls_get NOSTATE\n"); true
  | ["ls_dump"] ->
    (match st.ls with
     | Some s ->
       pr "ls_dump bits=%s n=%s words=%d :" (dec_of_n s.ls_bits) (dec_of_n s.ls_n) (List.length s.ls_data);
       List.iter (fun w -> pr " 0x%s" (hex_of_n w)) s.ls_data; pr "\n"
     | None -> pr "ls_dump NOSTATE\n"); true
  | ["ls_save"] ->
    (match st.ls with Some s -> pr "ls_save = %s\n" (hex_of_bytes (ls_save s)) | None -> pr "ls_save NOSTATE\n"); true
  | ["ls_reload"] ->
    (match st.ls with
     | Some s ->
       let img = ls_save s in
       let guard = [n_of_int 0x5a; n_of_int 0x5a; n_of_int 0x5a] in
       (match ls_load (img @ guard) with
        | Some (s', rest) ->
          st.ls <- Some s';
          pr "ls_reload consumed=%d of=%d\n" (List.length img + 3 - List.length rest) (List.length img)
        | None -> pr "ls_reload MODEL-ERR\n")
     | None -> pr "ls_reload NOSTATE\n"); true
  | _ -> false



let () = register cmd_c17 (fun () -> st.ls <- None)
