(* cds32 commands answered from the extracted model Cds32Defs (unverified glue: parsing/printing only) *)
open Model
open Obase
type st32 = { mutable arr : n list; mutable len : n; mutable cnt : n; mutable dw : (dac * dacc) option }
let s32 = { arr = []; len = N0; cnt = N0; dw = None }
let z_of_int32 (i : int) : z =
  if i = 0 then Z0 else if i > 0 then Zpos (pos_of_int i) else Zneg (pos_of_int (- i))
let hexcsv (l : n list) = String.concat "," (List.map (fun w -> "0x" ^ hex_of_n w) l)
let deccsv (l : n list) = String.concat "," (List.map dec_of_n l)
let take k l = List.filteri (fun i _ -> i < k) l
let with_dw name f = match s32.dw with Some (d, c) -> f d c | None -> pr "%s NOSTATE\n" name
let cmd_cds32 (tk : string list) : bool =
  match tk with
  | ["f32_new"; len; n] ->
    let l = n_of_string len and k = n_of_string n in
    let words = uint_len32 l k in
    s32.len <- l; s32.cnt <- k;
    s32.arr <- List.init (int_of_n words) (fun _ -> N0);
    pr "f32_new %s %s words=%s\n" (dec_of_n l) (dec_of_n k) (dec_of_n words); true
  | ["f32_raw"; k; w] ->
    let ki = int_of_n (n_of_string k) in
    let inr = ki < List.length s32.arr in
    if inr then s32.arr <- List.mapi (fun i x -> if i = ki then n_of_string w else x) s32.arr;
    pr "f32_raw %d %s\n" ki (if inr then "ok" else "range"); true
  | ["f32_set"; i; v] ->
    (match set_field32 s32.arr s32.len (n_of_string i) (n_of_string v) with
     | Some a -> s32.arr <- a; pr "f32_set %s %s ok\n" i v
     | None -> pr "f32_set %s %s MODEL-OOB\n" i v); true
  | ["f32_get"; i] ->
    (match get_field32 s32.arr s32.len (n_of_string i) with
     | Some v -> pr "f32_get %s = %s\n" i (dec_of_n v)
     | None -> pr "f32_get %s = MODEL-OOB\n" i); true
  | ["f32_dump"] ->
    pr "f32_dump len=%s n=%s words=%d :" (dec_of_n s32.len) (dec_of_n s32.cnt) (List.length s32.arr);
    List.iter (fun w -> pr " 0x%s" (hex_of_n w)) s32.arr; pr "\n"; true
  | ["vf_set"; a; b; v] ->
    (match set_var_field32 s32.arr (n_of_string a) (n_of_string b) (n_of_string v) with
     | Some x -> s32.arr <- x; pr "vf_set %s %s %s ok\n" a b v
     | None -> pr "vf_set %s %s %s MODEL-OOB\n" a b v); true
  | ["vf_get"; a; b] ->
    (match get_var_field32 s32.arr (n_of_string a) (n_of_string b) with
     | Some v -> pr "vf_get %s %s = %s\n" a b (dec_of_n v)
     | None -> pr "vf_get %s %s = MODEL-OOB\n" a b); true
  | ["bitset"; p] ->
    (match bitset32 s32.arr (n_of_string p) with
     | Some a -> s32.arr <- a; pr "bitset %s ok\n" p
     | None -> pr "bitset %s MODEL-OOB\n" p); true
  | ["bitclean"; p] ->
    (match bitclean32 s32.arr (n_of_string p) with
     | Some a -> s32.arr <- a; pr "bitclean %s ok\n" p
     | None -> pr "bitclean %s MODEL-OOB\n" p); true
  | ["bitget"; p] ->
    (match bitget32 s32.arr (n_of_string p) with
     | Some b -> pr "bitget %s = %s\n" p (dec_of_n b)
     | None -> pr "bitget %s = MODEL-OOB\n" p); true
  | ["bits32"; x] -> pr "bits32 %s = %s\n" x (dec_of_n (bits32 (n_of_string x))); true
  | ["uint_len"; e; k] -> pr "uint_len %s %s = %s\n" e k (dec_of_n (uint_len32 (n_of_string e) (n_of_string k))); true
  | ["popc"; x] -> pr "popc %s = %s\n" x (dec_of_n (popcount (n_of_string x))); true
  | "dacw_new" :: logr :: maxseq :: llen :: vs ->
    let l = List.map (fun s -> z_of_int32 (int_of_string s)) vs in
    (match dac_build l (n_of_string llen) (n_of_string logr) (n_of_string maxseq) with
     | Some d ->
       (match dac_concretize d with
        | Some c -> s32.dw <- Some (d, c);
          pr "dacw_new listLength=%s nLevels=%s\n" (dec_of_n c.c_listLength) (dec_of_n c.c_nLevels)
        | None -> s32.dw <- None; pr "dacw_new MODEL-NONE-CONCRETE\n")
     | None -> s32.dw <- None; pr "dacw_new MODEL-NONE\n"); true
  | "dacw_inclass" :: logr :: maxseq :: llen :: vs ->
    let ints = List.map int_of_string vs in
    let rec split cur acc = function
      | [] -> (List.rev acc, cur = [])
      | x :: r -> if x < 0 then split [] (List.rev cur :: acc) r else split (n_of_int x :: cur) acc r in
    let (seqs, closed) = split [] [] ints in
    let flat = List.map z_of_int32 ints in
    let ok = closed && dac_flatten seqs = flat && dac_llen seqs = n_of_string llen
             && dac_wf_c seqs (n_of_string logr) (n_of_string maxseq) in
    pr "dacw_inclass %d\n" (if ok then 1 else 0); true
  | ["dacw_words"] ->
    with_dw "dacw_words" (fun _ c ->
        let r = c.c_bS in
        pr "dacw_words tamCode=%s base_bits=%s levels=%s n=%s factor=%s s=%s integers=%s ones=%s data=%s rs=%s\n"
          (dec_of_n c.c_tamCode) (dec_of_n c.c_base_bits) (hexcsv c.c_levels)
          (dec_of_n r.rg_n) (dec_of_n r.rg_factor) (dec_of_n r.rg_s) (dec_of_n r.rg_integers) (dec_of_n r.rg_ones)
          (hexcsv (take (int_of_n r.rg_integers) r.rg_data))
          (deccsv (take (int_of_n (N.div r.rg_n r.rg_s) + 1) r.rg_rs))); true
  | ["dacw_access"; p] ->
    with_dw "dacw_access" (fun _ c ->
        match dac_access_c c (n_of_string p) with
        | Some s -> pr "dacw_access %s = %d :%s\n" p (List.length s)
                      (String.concat "" (List.map (fun v -> " " ^ dec_of_n v) s))
        | None -> pr "dacw_access %s = MODEL-OOB\n" p); true
  | ["dacw_chain"; p] ->
    with_dw "dacw_chain" (fun _ c ->
        match dac_chain_bounded_c c (nat_of_int (int_of_n c.c_nLevels + 2)) N0 (n_of_string p) with
        | Some s -> pr "dacw_chain %s =%s\n" p (String.concat "" (List.map (fun v -> " " ^ dec_of_n v) s))
        | None -> pr "dacw_chain %s = MODEL-OOB\n" p); true
  | _ -> false

let () = register cmd_cds32 (fun () -> s32.arr <- []; s32.len <- N0; s32.cnt <- N0; s32.dw <- None)
