(* HTFC string iterator (IteratorDictStringHTFC through extractTable / extractPrefix): the extracted model
   HTFCIterDefs.v answering on the dumped LOADED object that cmd_htfc.ml stored at `htfc_model`.
     htfc_qi check               okit= verdict of the verified checker htfc_iter_check, oksm= of htfc_iter_small (cheap checks on
                                 htfc_check's own trace; htfc_check && htfc_iter_small implies htfc_iter_check); the implementation prints 1 1
     htfc_qi extractTable        the line `htfc_q extractTable  = strs hex/len/real ... [MORE]`
     htfc_qi extractPrefix <hex> the line `htfc_q extractPrefix <hex> = strs ... | NULL`
   (the implementation side, cmd_htfcit.inc, forwards htfc_qi to the htfc_q code of cmd_htfc.inc, so the printed
   lines start with htfc_q).  A memory error of the model ([None]) prints nothing after the '='.  When the object is
   certified (ok=1 and okit=1) every answer is cross-checked against Spec.v: a difference prints MODEL-MISMATCH
   (HTFCIterProofs.v says this cannot happen). *)
open Model
open Obase

let okit = ref false

let cmd_htfcit (tk : string list) : bool =
  match tk with
  | "htfc_qi" :: "check" :: _ ->
    (match Cmd_htfc.hst.Cmd_htfc.hdict with
     | None -> pr "htfc_qi check NODICT\n"
     | Some d ->
       okit := htfc_iter_check Cmd_htfc.hst.Cmd_htfc.hstrs d;
       pr "htfc_qi check okit=%d oksm=%d\n" (if !okit then 1 else 0) (if htfc_iter_small Cmd_htfc.hst.Cmd_htfc.hstrs d then 1 else 0)); true
  | "htfc_qi" :: "recheck" :: _ ->
    (match Cmd_htfc.hst.Cmd_htfc.hdict with
     | None -> pr "htfc_qi recheck NODICT\n"
     | Some d ->
       let s = Cmd_htfc.hst.Cmd_htfc.hstrs in
       okit := htfc_iter_check s d;
       pr "htfc_qi recheck ok=%d ok2=%d okit=%d oksm=%d\n" (if htfc_check s d then 1 else 0) (if htfc_check2 s d then 1 else 0) (if !okit then 1 else 0)
         (if htfc_iter_small s d then 1 else 0)); true
  | ["htfc_qi"; "gap"; sk; sn] ->
    (* the crafted object of HTFCIterProofs.htfc_iter_check_needed: n zero bytes in front of bucket k, blStrings[k ..] shifted *)
    (match Cmd_htfc.hst.Cmd_htfc.hdict with
     | None -> pr "htfc_qi gap NODICT\n"
     | Some d ->
       let k = int_of_string sk and n = int_of_string sn in
       let at = int_of_n (List.nth d.h_bl k) in
       let text = List.filteri (fun i _ -> i < at) d.h_text @ List.init n (fun _ -> N0) @ List.filteri (fun i _ -> i >= at) d.h_text in
       let bl = List.mapi (fun i x -> if i >= k then N.add x (n_of_int n) else x) d.h_bl in
       let d' = { d with h_text = text; h_bl = bl } in
       Cmd_htfc.hst.Cmd_htfc.hdict <- Some d';
       Cmd_htfc.hst.Cmd_htfc.hok <- htfc_check Cmd_htfc.hst.Cmd_htfc.hstrs d';
       pr "htfc_qi gap %d %d text=%s bl=%s\n" k n (hex_of_bytes text) (String.concat "," (List.map dec_of_n bl))); true
  | "htfc_qi" :: op :: rest ->
    let arg = match rest with a :: _ -> a | [] -> "" in
    (match Cmd_htfc.hst.Cmd_htfc.hdict with
     | None -> pr "htfc_q %s %s = NODICT\n" op arg
     | Some d ->
       let s = Cmd_htfc.hst.Cmd_htfc.hstrs in
       let certified = Cmd_htfc.hst.Cmd_htfc.hok && !okit in
       let mark b = if certified && not b then " MODEL-MISMATCH" else "" in
       let cap = nat_of_int (int_of_n d.h_elements + 3) in
       let show want r =
         (match r with
          | Some (Some (l, more)) ->
            pr " strs"; List.iter (fun (x, len) -> pr "%s" (Cmd_htfc.h_str_out x len)) l;
            if more then pr " MORE";
            pr "%s\n" (mark (want <> [] && not more && l = List.map (fun x -> (x, n_of_int (List.length x))) want))
          | Some None -> pr " NULL%s\n" (mark (want = []))
          | None -> pr "%s\n" (mark false)) in
       (match op with
        | "extractTable" ->
          pr "htfc_q %s %s =" op arg;
          show s (htfc_extract_table d cap)
        | "extractPrefix" ->
          pr "htfc_q %s %s =" op arg;
          let p = bytes_of_hex arg in
          show (spec_prefix_strs s p) (htfc_extract_prefix d p cap)
        | _ -> pr "SKIP htfc_qi %s\n" op)); true
  | _ -> false

let () = register cmd_htfcit (fun () -> okit := false)
