(* Extraction of the executable models to OCaml (ExtrOcamlBasic only: bool,
   option, unit, list, prod, sumbool, sumor mapped to their OCaml counterparts;
   N, Z, positive and nat stay extracted datatypes). *)
Require Extraction.
Require Import ExtrOcamlBasic.
From LibCSD Require Import Base Bytes VByteDefs LogSeqDefs Spec.
Extraction Language OCaml.
Set Extraction Optimize.
Extraction "model.ml"
  Base.nthN Base.lenN
  Bytes.le_bytes Bytes.le_value
  VByteDefs.vb_encode VByteDefs.vb_decode
  LogSeqDefs.get_field LogSeqDefs.set_field LogSeqDefs.set_field_pinned LogSeqDefs.maxVal
  LogSeqDefs.ls_new LogSeqDefs.ls_get LogSeqDefs.ls_set LogSeqDefs.ls_of_list LogSeqDefs.ls_save LogSeqDefs.ls_load
  Spec.lex_compare Spec.spec_locate Spec.spec_extract Spec.spec_prefix_ids Spec.spec_substr_ids
  Spec.spec_prefix_strs Spec.spec_substr_strs Spec.spec_table Spec.spec_elements Spec.spec_maxlen Spec.range_of Spec.valid_set_b
  BinNat.N.of_nat BinNat.N.to_nat BinNat.N.add BinNat.N.mul BinNat.N.div BinNat.N.modulo BinNat.N.compare BinNat.N.eqb BinNat.N.ltb.
