(* FM-index dictionary, iterator layer and wavelet-tree composition (component fm2):
   C04 (prefix streams), C05 (substring string stream), C13 (table scan / iterator protocol),
   and the composition of the FM theorems with the pointer wavelet tree of C19.
   Same hypotheses as Properties_fm.v: valid_set / valid_query on the input + ONE boolean checker fm_check run on the
   arrays dumped from the real object (+ separable_b on the dumped code table for the wavelet-tree form). *)
From LibCSD Require Import Base Spec SpecProofs IterDefs IterProofs FMDefs FMProofs FMIterProofs BitRGDefs BitRGProofs.
Local Open Scope N_scope.

(* ---- C04: prefix search, what the client sees ------------------------------------------------------------- *)
(* the ID stream of locatePrefix (IteratorDictIDContiguous over the proved limits): exactly the IDs of the members with
   prefix p, ascending, hasNext false afterwards *)
Theorem C04_fm_locatePrefix_ids_spec : forall S sa d p cap,
  valid_set S -> fm_check S sa d = true -> p <> [] -> valid_query p -> (length S <= cap)%nat ->
  fm_locatePrefix_ids d p cap = Some (spec_prefix_ids S p, false).
Proof. intros S sa d p cap HS Hc. exact (fm_locatePrefix_ids_spec S HS sa d Hc p cap). Qed.
Print Assumptions C04_fm_locatePrefix_ids_spec.

(* the string stream of extractPrefix (IteratorDictStringFMINDEX): exactly the members with prefix p in ID order;
   a NULL iterator (Some None) when there is none *)
Theorem C04_fm_extractPrefix_spec : forall S sa d p cap,
  valid_set S -> fm_check S sa d = true -> p <> [] -> valid_query p -> (length S <= cap)%nat ->
  fm_extractPrefix d p cap = Some (match spec_prefix_strs S p with [] => None | l => Some (l, false) end).
Proof. intros S sa d p cap HS Hc. exact (fm_extractPrefix_spec S HS sa d Hc p cap). Qed.
Print Assumptions C04_fm_extractPrefix_spec.

Theorem C04_fm_extractPrefix_stream : forall S sa d p cap,
  valid_set S -> fm_check S sa d = true -> p <> [] -> valid_query p -> (length S <= cap)%nat ->
  forall l more, fm_extractPrefix d p cap = Some (Some (l, more)) ->
    more = false /\ NoDup l /\ Forall valid_str l /\ (forall s, In s l <-> In s S /\ Spec.is_prefix p s = true).
Proof. intros S sa d p cap HS Hc. exact (fm_extractPrefix_stream S HS sa d Hc p cap). Qed.
Print Assumptions C04_fm_extractPrefix_stream.

(* SSA::locateP on `\1 p`: (left, right, count) exactly *)
Theorem C04_fm_ssa_locateP_spec : forall S sa d p,
  valid_set S -> fm_check S sa d = true -> p <> [] -> valid_query p ->
  ssa_locateP d (1 :: p) =
  Some (match cnt (fun s => Spec.is_prefix p s) S with
        | O => None
        | Datatypes.S k => Some (N.of_nat (Datatypes.S (cnt (fun s => ltb s p) S)),
                                 N.of_nat (Datatypes.S (cnt (fun s => ltb s p) S)) + N.of_nat k,
                                 N.of_nat (Datatypes.S k))
        end).
Proof. intros S sa d p HS Hc. exact (ssa_locateP_prefix S HS sa d Hc p). Qed.
Print Assumptions C04_fm_ssa_locateP_spec.

(* ---- C05: substring search, string half ---------------------------------------------------------------------- *)
(* the string stream of extractSubstr (IteratorDictStringFMINDEXDuplicates over the sorted occurrence array):
   every member containing p exactly once, in ID order; NULL when there is none; for every sampling step >= 1 *)
Theorem C05_fm_extractSubstr_spec : forall S sa d p cap,
  valid_set S -> fm_check S sa d = true -> fm_samplesuff d <> 0 -> p <> [] -> valid_query p -> (length S <= cap)%nat ->
  fm_extractSubstr d p cap = Some (match spec_substr_strs S p with [] => None | l => Some (l, false) end).
Proof. intros S sa d p cap HS Hc. exact (fm_extractSubstr_spec S HS sa d Hc p cap). Qed.
Print Assumptions C05_fm_extractSubstr_spec.

Theorem C05_fm_extractSubstr_stream : forall S sa d p cap,
  valid_set S -> fm_check S sa d = true -> fm_samplesuff d <> 0 -> p <> [] -> valid_query p -> (length S <= cap)%nat ->
  forall l more, fm_extractSubstr d p cap = Some (Some (l, more)) ->
    more = false /\ NoDup l /\ Forall valid_str l /\ (forall s, In s l <-> In s S /\ is_infix p s = true).
Proof. intros S sa d p cap HS Hc. exact (fm_extractSubstr_stream S HS sa d Hc p cap). Qed.
Print Assumptions C05_fm_extractSubstr_stream.

(* ---- C13: table scan ------------------------------------------------------------------------------------------ *)
Theorem C13_fm_extractTable_spec : forall S sa d cap,
  valid_set S -> fm_check S sa d = true -> (length S <= cap)%nat ->
  fm_extractTable d cap = Some (S, false).
Proof. intros S sa d cap HS Hc. exact (fm_extractTable_spec S HS sa d Hc cap). Qed.
Print Assumptions C13_fm_extractTable_spec.

(* the iterator IteratorDictStringFMINDEX(first = i, scanneable = i + n): the members i .. i+n-1 *)
Theorem C13_fmstr_iter_spec : forall S sa d n cap i l,
  valid_set S -> fm_check S sa d = true -> (n <= cap)%nat -> i + N.of_nat n < sz64 ->
  map (spec_extract S) (seq_from i n) = map Some l ->
  fmstr_iter d cap i (i + N.of_nat n) = Some (l, false).
Proof. intros S sa d n cap i l HS Hc. exact (fmstr_iter_spec S HS sa d Hc n cap i l). Qed.
Print Assumptions C13_fmstr_iter_spec.

(* the three statements FMProofs.v kept as Definitions are theorems *)
Theorem C05_fm_extractSubstr_spec_full : fm_extractSubstr_spec_full.
Proof. exact fm_extractSubstr_spec_full_proved. Qed.
Theorem C04_fm_extractPrefix_spec_full : fm_extractPrefix_spec_full.
Proof. exact fm_extractPrefix_spec_full_proved. Qed.
Theorem C04_fm_locatePrefix_ids_spec_full : fm_locatePrefix_ids_spec_full.
Proof. exact fm_locatePrefix_ids_spec_full_proved. Qed.
Print Assumptions C05_fm_extractSubstr_spec_full.
Print Assumptions C04_fm_extractPrefix_spec_full.
Print Assumptions C04_fm_locatePrefix_ids_spec_full.

(* ---- composition with the wavelet tree (C19) ----------------------------------------------------------------- *)
(* the FMDefs.v model is an instance of the model parametric in getLength / rank / access(i, rank) *)
Theorem C05_fm_param_ext : forall o d, ops_agree o (fm_bwt d) ->
  (forall q, p_fm_locate o d q = fm_locate d q) /\ (forall id, p_fm_extract o d id = fm_extract d id) /\
  (forall p, p_fm_locatePrefix o d p = fm_locatePrefix d p) /\
  (forall p cap, p_fm_locatePrefix_ids o d p cap = fm_locatePrefix_ids d p cap) /\
  (forall p cap, p_fm_locateSubstr o d p cap = fm_locateSubstr d p cap) /\
  (forall p cap, p_fm_extractSubstr o d p cap = fm_extractSubstr d p cap) /\
  (forall p cap, p_fm_extractPrefix o d p cap = fm_extractPrefix d p cap) /\
  (forall cap, p_fm_extractTable o d cap = fm_extractTable d cap).
Proof.
  intros o d H. repeat split; intros.
  - apply p_fm_locate_eq; exact H.
  - apply p_fm_extract_eq; exact H.
  - apply p_fm_locatePrefix_eq; exact H.
  - apply p_fm_locatePrefix_ids_eq; exact H.
  - apply p_fm_locateSubstr_eq; exact H.
  - apply p_fm_extractSubstr_eq; exact H.
  - apply p_fm_extractPrefix_eq; exact H.
  - apply p_fm_extractTable_eq; exact H.
Qed.
Print Assumptions C05_fm_param_ext.

(* WaveletTree::access(pos, rank) (one descent) = symbol + inclusive rank of the plain list *)
Theorem C19_wt_access_rank_spec :
  forall (B : Type) (bbuild : list bool -> B) (baccess : B -> N -> bool) (brank1 bselect1 bselect0 : B -> N -> N)
         (is_set : N -> nat -> bool) (maxlen : N),
  maxlen <= W32 - 2 ->
  (forall bits i, lenN bits < maxlen -> i < lenN bits -> baccess (bbuild bits) i = bv_access bits i) ->
  (forall bits i, lenN bits < maxlen -> i < lenN bits -> brank1 (bbuild bits) i = bv_rank1 bits i) ->
  (forall bits, lenN bits < maxlen -> brank1 (bbuild bits) (W64 - 1) = 0) ->
  (forall bits j p, lenN bits < maxlen -> bv_select1 bits j = Some p -> bselect1 (bbuild bits) j = p) ->
  (forall bits j p, lenN bits < maxlen -> bv_select0 bits j = Some p -> bselect0 (bbuild bits) j = p) ->
  forall depth s i, lenN s < maxlen -> separable is_set depth 0 s -> i < lenN s ->
  wt_access_rank B baccess brank1 (wt_new B bbuild is_set depth s) i = FMDefs.seq_access s i.
Proof. exact wt_access_rank_correct. Qed.
Print Assumptions C19_wt_access_rank_spec.

(* THE composition: a pointer wavelet tree over ANY lawful bitmap, built over the BWT symbols with a
   symbol-separating code, answers getLength / rank / access(i, rank) exactly like the list FMDefs.v runs on *)
Theorem C19_fm_over_wt :
  forall (B : Type) (bbuild : list bool -> B) (baccess : B -> N -> bool) (brank1 bselect1 bselect0 : B -> N -> N)
         (is_set : N -> nat -> bool) (maxlen : N),
  maxlen <= W32 - 2 ->
  (forall bits i, lenN bits < maxlen -> i < lenN bits -> baccess (bbuild bits) i = bv_access bits i) ->
  (forall bits i, lenN bits < maxlen -> i < lenN bits -> brank1 (bbuild bits) i = bv_rank1 bits i) ->
  (forall bits, lenN bits < maxlen -> brank1 (bbuild bits) (W64 - 1) = 0) ->
  (forall bits j p, lenN bits < maxlen -> bv_select1 bits j = Some p -> bselect1 (bbuild bits) j = p) ->
  (forall bits j p, lenN bits < maxlen -> bv_select0 bits j = Some p -> bselect0 (bbuild bits) j = p) ->
  forall depth bwt, lenN bwt < maxlen -> separable is_set depth 0 bwt ->
  ops_agree (wt_ops B baccess brank1 is_set (wt_new B bbuild is_set depth bwt) (lenN bwt)) bwt.
Proof. exact fm_over_wt. Qed.
Print Assumptions C19_fm_over_wt.

(* ... over the word-exact BitSequenceRG *)
Theorem C19_fm_over_wt_rg : forall factor is_set depth bwt,
  1 <= factor -> lenN bwt < W32 - 64 -> separable is_set depth 0 bwt ->
  ops_agree (rg_wt_ops factor is_set depth bwt) bwt.
Proof. exact fm_over_wt_rg. Qed.
Print Assumptions C19_fm_over_wt_rg.

(* C01-C03 over the wavelet tree: locate *)
Theorem C03_fm_locate_over_wt_rg : forall S sa d factor is_set depth q,
  valid_set S -> fm_check S sa d = true -> 1 <= factor -> lenN (fm_bwt d) < W32 - 64 ->
  separable is_set depth 0 (fm_bwt d) -> valid_query q ->
  p_fm_locate (rg_wt_ops factor is_set depth (fm_bwt d)) d q = Some (spec_locate S q).
Proof. exact fm_locate_rg_spec. Qed.
Print Assumptions C03_fm_locate_over_wt_rg.

Theorem C03_fm_extract_over_wt_rg : forall S sa d factor is_set depth id,
  valid_set S -> fm_check S sa d = true -> 1 <= factor -> lenN (fm_bwt d) < W32 - 64 ->
  separable is_set depth 0 (fm_bwt d) ->
  p_fm_extract (rg_wt_ops factor is_set depth (fm_bwt d)) d id = Some (spec_extract S id).
Proof. exact fm_extract_rg_spec. Qed.
Print Assumptions C03_fm_extract_over_wt_rg.

(* C05 over the wavelet tree: locateSubstr *)
Theorem C05_fm_locateSubstr_over_wt_rg : forall S sa d factor is_set depth p cap,
  valid_set S -> fm_check S sa d = true -> 1 <= factor -> lenN (fm_bwt d) < W32 - 64 ->
  separable is_set depth 0 (fm_bwt d) -> fm_samplesuff d <> 0 -> p <> [] -> valid_query p -> (length S <= cap)%nat ->
  p_fm_locateSubstr (rg_wt_ops factor is_set depth (fm_bwt d)) d p cap = Some (Some (spec_substr_ids S p, false)).
Proof. exact fm_locateSubstr_rg_spec. Qed.
Print Assumptions C05_fm_locateSubstr_over_wt_rg.

(* the same for ANY lawful bitmap implementation (statement for locate and locateSubstr) *)
Theorem C03_fm_locate_over_wt :
  forall (B : Type) (bbuild : list bool -> B) (baccess : B -> N -> bool) (brank1 bselect1 bselect0 : B -> N -> N)
         (is_set : N -> nat -> bool) (maxlen : N),
  maxlen <= W32 - 2 ->
  (forall bits i, lenN bits < maxlen -> i < lenN bits -> baccess (bbuild bits) i = bv_access bits i) ->
  (forall bits i, lenN bits < maxlen -> i < lenN bits -> brank1 (bbuild bits) i = bv_rank1 bits i) ->
  (forall bits, lenN bits < maxlen -> brank1 (bbuild bits) (W64 - 1) = 0) ->
  (forall bits j p, lenN bits < maxlen -> bv_select1 bits j = Some p -> bselect1 (bbuild bits) j = p) ->
  (forall bits j p, lenN bits < maxlen -> bv_select0 bits j = Some p -> bselect0 (bbuild bits) j = p) ->
  forall S sa d depth, valid_set S -> fm_check S sa d = true -> lenN (fm_bwt d) < maxlen -> separable is_set depth 0 (fm_bwt d) ->
  forall q, valid_query q ->
  fm_locate_wt B baccess brank1 is_set (wt_new B bbuild is_set depth (fm_bwt d)) (lenN (fm_bwt d)) d q = Some (spec_locate S q).
Proof. exact fm_locate_wt_spec. Qed.
Print Assumptions C03_fm_locate_over_wt.

Theorem C05_fm_locateSubstr_over_wt :
  forall (B : Type) (bbuild : list bool -> B) (baccess : B -> N -> bool) (brank1 bselect1 bselect0 : B -> N -> N)
         (is_set : N -> nat -> bool) (maxlen : N),
  maxlen <= W32 - 2 ->
  (forall bits i, lenN bits < maxlen -> i < lenN bits -> baccess (bbuild bits) i = bv_access bits i) ->
  (forall bits i, lenN bits < maxlen -> i < lenN bits -> brank1 (bbuild bits) i = bv_rank1 bits i) ->
  (forall bits, lenN bits < maxlen -> brank1 (bbuild bits) (W64 - 1) = 0) ->
  (forall bits j p, lenN bits < maxlen -> bv_select1 bits j = Some p -> bselect1 (bbuild bits) j = p) ->
  (forall bits j p, lenN bits < maxlen -> bv_select0 bits j = Some p -> bselect0 (bbuild bits) j = p) ->
  forall S sa d depth, valid_set S -> fm_check S sa d = true -> lenN (fm_bwt d) < maxlen -> separable is_set depth 0 (fm_bwt d) ->
  forall p cap, fm_samplesuff d <> 0 -> p <> [] -> valid_query p -> (length S <= cap)%nat ->
  fm_locateSubstr_wt B baccess brank1 is_set (wt_new B bbuild is_set depth (fm_bwt d)) (lenN (fm_bwt d)) d p cap
  = Some (Some (spec_substr_ids S p, false)).
Proof. exact fm_locateSubstr_wt_spec. Qed.
Print Assumptions C05_fm_locateSubstr_over_wt.

(* ---- the hypotheses are satisfiable: the instance of Properties_fm.v (arrays dumped from the real
        StringDictionaryFMINDEX over {"aaaa","ab","ba"}, BitSequenceRG(4), BWT sampling 2) ---- *)
Definition fm2_S : list str := [[97; 97; 97; 97]; [97; 98]; [98; 97]].
Definition fm2_sa : list N := [13; 12; 11; 0; 5; 8; 10; 4; 3; 2; 1; 6; 7; 9].
Definition fm2_d : fmidx := mk_fmidx [0; 1; 97; 0; 97; 98; 98; 97; 97; 97; 1; 1; 97; 1]
  ([0; 2] ++ repeat 6 96 ++ [12; 14])
  (map (fun c => existsb (N.eqb c) [0; 1; 97; 98]) (map N.of_nat (seq 0 256)))
  2 [false; true; false; true; false; true; true; true; false; true; false; true; false; false]
  [4; 1; 3; 3; 1; 1; 2; 1] 3 5.
Example fm2_hyps : valid_set_b fm2_S = true /\ fm_check fm2_S fm2_sa fm2_d = true /\ fm_samplesuff fm2_d <> 0 /\
                   valid_query_b [97] = true /\ (length fm2_S <= 6)%nat.
Proof. vm_compute. repeat split; try reflexivity; try discriminate. repeat constructor. Qed.
Example fm2_locatePrefix_ids : fm_locatePrefix_ids fm2_d [97] 6 = Some ([1; 2], false) /\ spec_prefix_ids fm2_S [97] = [1; 2] /\
                               fm_locatePrefix_ids fm2_d [99] 6 = Some ([], false).
Proof. repeat split; vm_compute; reflexivity. Qed.
Example fm2_extractPrefix : fm_extractPrefix fm2_d [97] 6 = Some (Some ([[97; 97; 97; 97]; [97; 98]], false)) /\
                            fm_extractPrefix fm2_d [98; 98] 6 = Some None /\ fm_extractPrefix fm2_d [200] 6 = Some None.
Proof. repeat split; vm_compute; reflexivity. Qed.
(* "a" occurs in all three members (four times in the first one): each member once *)
Example fm2_extractSubstr : fm_extractSubstr fm2_d [97] 6 = Some (Some (fm2_S, false)) /\
                            fm_extractSubstr fm2_d [97; 97; 97] 6 = Some (Some ([[97; 97; 97; 97]], false)) /\
                            fm_extractSubstr fm2_d [98; 98] 6 = Some None.
Proof. repeat split; vm_compute; reflexivity. Qed.
Example fm2_extractTable : fm_extractTable fm2_d 6 = Some (fm2_S, false) /\ fm_extractTable fm2_d 2 = Some ([[97; 97; 97; 97]; [97; 98]], true).
Proof. split; vm_compute; reflexivity. Qed.
(* the BWT in a pointer wavelet tree over BitSequenceRG(4) with a 2-bit code for {0, 1, 'a', 'b'} *)
Definition fm2_code : list (N * list bool) := [(0, [false; false]); (1, [false; true]); (97, [true; false]); (98, [true; true])].
Example fm2_wt_hyps : separable_b (code_bit fm2_code) 2 (fm_bwt fm2_d) = true /\ lenN (fm_bwt fm2_d) < W32 - 64 /\ 1 <= 4.
Proof. vm_compute. repeat split; try reflexivity; discriminate. Qed.
Example fm2_wt_ops : let o := rg_wt_ops 4 (code_bit fm2_code) 2 (fm_bwt fm2_d) in
  so_len o = 14 /\ so_rank o 97 9 = Some 5 /\ so_rank o 97 14 = None /\ so_access o 9 = Some (97, 5) /\ so_access o 10 = Some (1, 2) /\
  FMDefs.seq_rank (fm_bwt fm2_d) 97 9 = Some 5 /\ FMDefs.seq_access (fm_bwt fm2_d) 10 = Some (1, 2).
Proof. vm_compute. repeat split; reflexivity. Qed.
Example fm2_wt_queries : let o := rg_wt_ops 4 (code_bit fm2_code) 2 (fm_bwt fm2_d) in
  p_fm_locate o fm2_d [97; 98] = Some 2 /\ p_fm_locate o fm2_d [97] = Some 0 /\
  p_fm_extract o fm2_d 3 = Some (Some [98; 97]) /\
  p_fm_locateSubstr o fm2_d [97] 6 = Some (Some ([1; 2; 3], false)) /\
  p_fm_extractSubstr o fm2_d [98] 6 = Some (Some ([[97; 98]; [98; 97]], false)) /\
  p_fm_extractPrefix o fm2_d [97] 6 = Some (Some ([[97; 97; 97; 97]; [97; 98]], false)).
Proof. vm_compute. repeat split; reflexivity. Qed.
