(* Executable model (definitions only) of the XBW dictionary
     /repo/StringDictionaryXBW.cpp   (locate, extract, locatePrefix, extractPrefix; load -> new XBW(in))
     /repo/XBW/XBW.cpp               (XBW(istream&), subPathSearch, getChildren, getParent, idToStr)
     /repo/iterators/IteratorDictIDXBW.h, IteratorDictStringXBW.h
   Tier B: algorithm-exact over ABSTRACT succinct structures.  [alpha] (a Huffman shaped wavelet tree in the
   C++) is the plain list of mapped labels with Sequence::rank(c,i) = occurrences in 0..i INCLUSIVE,
   Sequence::select(c,j) = 0-based position of the j-th occurrence, Sequence::access(i,r) = symbol + inclusive
   rank; [last] and [A] (BitSequenceRRR) are plain bit lists with rank1 inclusive and select1(0) =
   select1(j > ones) = (size_t)-1, as BitSequenceRRR::select1 answers.  The plain definitions are those of
   BitRGDefs.v section A.  Every array read goes through Base.nthN / an explicit bound test ([None] = the C++
   would read outside the structure); uint / size_t arithmetic is written modulo 2^32 / 2^64 where the C++
   computes in those types.  The uninitialised entries of the member arrays select_A[257] / unmap[257] are
   [None]: reading one is reported as [None] as well.
   locateSubstr / extractSubstr (IteratorDictIDXBWDuplicates) are NOT modelled: broken on this tree.

   The second half is the SPECIFICATION side: the trie of S ∪ terminator 255 as a list of sibling blocks in
   XBW order and the boolean checker run (extracted) on the arrays dumped from the real object.
   Proofs are in XBWProofs.v. *)
From LibCSD Require Import Base Bytes BitRGDefs Spec.
Local Open Scope N_scope.

(* ------------------------------------------------------------------ *)
(* A. the object                                                       *)
(* ------------------------------------------------------------------ *)
Record xbw : Type := mk_xbw {
  x_nodes : N;                   (* XBW::nodesCount *)
  x_maxLabel : N;                (* XBW::maxLabel = max of the alpha array *)
  x_alpha : list N;              (* XBW::alpha as the plain label list (mapped labels) *)
  x_last : list bool;            (* XBW::last, nodesCount bits *)
  x_A : list bool;               (* XBW::A, nodesCount + 1 bits *)
  x_mapping : list N;            (* XBW::mapping[257] *)
  x_unmap : list (option N);     (* XBW::unmap[257]; None = never written *)
  x_selA : list (option N);      (* XBW::select_A[257]; None = never written *)
  x_elements : N;                (* StringDictionary::elements *)
  x_maxlength : N                (* StringDictionary::maxlength *)
}.

(* BitSequenceRRR::select1 as a size_t: (size_t)-1 when j = 0 or j > ones *)
Definition sel1m (l : list bool) (j : N) : N :=
  match bv_select1 l j with Some p => p | None => W64 - 1 end.

(* x - y in uint *)
Definition subu32 (x y : N) : N := u32 (x + W32 - u32 y).

(* ---- XBW::XBW(std::istream &) : the derived members -------------------------------- *)
Definition upd {T} (l : list T) (i : N) (v : T) : option (list T) :=
  if i <? lenN l then Some (firstn (N.to_nat i) l ++ v :: skipn (S (N.to_nat i)) l) else None.

(* for (i = 0; i < 257; i++) if (mapping[i] > 0) { select_A[mapping[i]] = A->select1(mapping[i]); unmap[mapping[i]] = i; } *)
Fixpoint load_tabs (mp : list N) (i : N) (A : list bool) (selA unm : list (option N))
  : option (list (option N) * list (option N)) :=
  match mp with
  | [] => Some (selA, unm)
  | m :: mp' =>
      if 0 <? m then
        match upd selA m (Some (u32 (sel1m A m))), upd unm m (Some i) with
        | Some s', Some u' => load_tabs mp' (i + 1) A s' u'
        | _, _ => None                       (* write outside select_A[257] / unmap[257] *)
        end
      else load_tabs mp' (i + 1) A selA unm
  end.

Definition xbw_load (nodes : N) (mapping alphaInt : list N) (lastb Ab : list bool) (elements maxlength : N)
  : option xbw :=
  match load_tabs mapping 0 Ab (repeat None 257) (repeat None 257) with
  | None => None
  | Some (selA, unm) =>
      Some {| x_nodes := nodes; x_maxLabel := fold_left N.max alphaInt 0; x_alpha := alphaInt;
              x_last := lastb; x_A := Ab; x_mapping := mapping; x_unmap := unm; x_selA := selA;
              x_elements := elements; x_maxlength := maxlength |}
  end.

(* ---- primitive reads --------------------------------------------------------------- *)
(* checked reads: rdN l i = nthN l i (BitRGProofs.rdN_eq); the explicit bound test keeps the extracted code from
   building a huge unary index when the C++ index is garbage *)
Definition xmap (d : xbw) (c : N) : option N := rdN (x_mapping d) c.
Definition xselA (d : xbw) (s : N) : option N :=
  match rdN (x_selA d) s with Some (Some v) => Some v | _ => None end.
Definition xunmap (d : xbw) (s : N) : option N :=
  match rdN (x_unmap d) s with Some (Some v) => Some v | _ => None end.
Definition alpha_access (d : xbw) (i : N) : option N := rdN (x_alpha d) i.
Definition alpha_rank (d : xbw) (c i : N) : option N :=
  if i <? lenN (x_alpha d) then Some (seq_rank c (x_alpha d) i) else None.
Definition alpha_select (d : xbw) (c j : N) : option N := seq_select c (x_alpha d) j.
Definition last_rank1 (d : xbw) (i : N) : option N :=
  if i <? lenN (x_last d) then Some (bv_rank1 (x_last d) i) else None.
Definition A_rank1 (d : xbw) (i : N) : option N :=
  if i <? lenN (x_A d) then Some (bv_rank1 (x_A d) i) else None.

(* ---- XBW::subPathSearch ------------------------------------------------------------ *)
(* the while loop; [rest] = qry[i+1 .. ql-1] *)
Fixpoint sps_loop (d : xbw) (rest : list N) (lf rt : N) : option (N * N) :=
  match rest with
  | [] => Some (lf, rt)
  | c :: rest' =>
      if lf <=? rt then
        match xmap d c with
        | None => None
        | Some s =>
            if s =? 0 then Some (1, 0)
            else
              match xselA d s with
              | None => None
              | Some y =>
                  match last_rank1 d (subu32 y 1) with
                  | None => None
                  | Some z =>
                      match (if lf =? 0 then Some 0 else alpha_rank d s (lf - 1)) with
                      | None => None
                      | Some k1 =>
                          let lf' := u32 (sel1m (x_last d) (u32 (u32 z + u32 k1)) + 1) in
                          match alpha_rank d s rt with
                          | None => None
                          | Some k2 =>
                              let rt' := u32 (sel1m (x_last d) (u32 (u32 z + u32 k2))) in
                              sps_loop d rest' lf' rt'
                          end
                      end
                  end
              end
        end
      else Some (lf, rt)
  end.

Definition xbw_subPathSearch (d : xbw) (qry : list N) : option (N * N) :=
  match qry with
  | [] => Some (0, subu32 (x_nodes d) 1)
  | [_] => Some (0, subu32 (x_nodes d) 1)
  | c0 :: rest =>
      match xmap d c0 with
      | None => None
      | Some s =>
          if s =? 0 then Some (1, 0)
          else
            match xselA d s, xselA d (s + 1) with
            | Some l, Some r1 => sps_loop d rest l (subu32 r1 1)
            | _, _ => None
            end
      end
  end.

(* ---- XBW::getChildren / getParent / idToStr ---------------------------------------- *)
Definition xbw_getChildren (d : xbw) (i : N) : option (N * N) :=       (* (ini, fin) *)
  match alpha_access d i with
  | None => None
  | Some c =>
      let k := seq_rank c (x_alpha d) i in
      if x_maxLabel d =? c then Some (1, 0)
      else
        match xselA d c with
        | None => None
        | Some y =>
            match (if y =? 0 then Some 0 else last_rank1 d (y - 1)) with
            | None => None
            | Some z =>
                let zk := u32 (u32 z + u32 k) in
                Some (u32 (sel1m (x_last d) (subu32 zk 1) + 1), u32 (sel1m (x_last d) zk))
            end
        end
  end.

Definition xbw_getParent (d : xbw) (n : N) : option N :=
  if n =? 0 then Some (W32 - 1)
  else
    match A_rank1 d n with
    | None => None
    | Some c0 =>
        let c := u32 c0 in
        match xselA d c with
        | None => None
        | Some y =>
            if y =? 0 then Some 1
            else
              match last_rank1 d (n - 1), last_rank1 d (y - 1) with
              | Some a, Some b =>
                  let k := subu32 a b in
                  match alpha_select d c (k + 1) with
                  | Some p => Some (u32 p)
                  | None => None
                  end
              | _, _ => None
              end
        end
    end.

(* void XBW::idToStr(id, pos, v, cnt): the characters written, root side first.  [fuel] bounds the
   recursion depth (the C++ recursion has no bound of its own). *)
Fixpoint xbw_idToStr (d : xbw) (fuel : nat) (id : N) : option (list N) :=
  if id =? 1 then Some []
  else
    match fuel with
    | O => None
    | S f =>
        match xbw_getParent d id with
        | None => None
        | Some p =>
            match xbw_idToStr d f p with
            | None => None
            | Some v =>
                match alpha_access d id with
                | None => None
                | Some a =>
                    match xunmap d a with
                    | None => None
                    | Some c => Some (v ++ [c])
                    end
                end
            end
        end
    end.

Definition xfuel (d : xbw) : nat := S (length (x_alpha d)).

(* ---- StringDictionaryXBW::locate / extract ----------------------------------------- *)
Definition xbw_locate (d : xbw) (str : list N) : option N :=
  match xbw_subPathSearch d (0 :: str) with
  | None => None
  | Some (lf, rt) =>
      if rt <? lf then Some 0
      else
        match alpha_access d rt with
        | None => None
        | Some a =>
            if a =? x_maxLabel d then alpha_rank d (x_maxLabel d) rt else Some 0
        end
  end.

(* Some None = NULL; the string is returned WITHOUT the final terminator label (str[--len] = 0) *)
Definition xbw_extract (d : xbw) (id : N) : option (option (list N)) :=
  if (0 <? id) && (id <=? x_elements d) then
    match alpha_select d (x_maxLabel d) id with
    | None => None
    | Some pos =>
        if u32 pos =? 1 then None            (* new uchar[0]; v[-1] = 0 *)
        else
          match xbw_idToStr d (xfuel d) (u32 pos) with
          | None => None
          | Some v => Some (Some (removelast v))
          end
    end
  else Some None.

(* ---- IteratorDictIDXBW ------------------------------------------------------------- *)
(* for (uint j = lf; j <= rt; j++) queue.push_back(j) *)
Definition rangeN (l r : N) : list N :=
  if r <? l then [] else map (fun k => l + N.of_nat k) (seq 0 (N.to_nat (r - l + 1))).

(* the while loop of next(): expand queue[0] until it is a terminator leaf.  A child range reaching
   beyond the node array is reported as None (the C++ would queue those indices and read alpha there). *)
Fixpoint bfs_descend (d : xbw) (fuel : nat) (queue : list N) : option (list N) :=
  match queue with
  | [] => None
  | q0 :: qt =>
      match alpha_access d q0 with
      | None => None
      | Some a =>
          if x_maxLabel d =? a then Some queue
          else
            match fuel with
            | O => None
            | S f =>
                match xbw_getChildren d q0 with
                | None => None
                | Some (l, r) =>
                    if (l <=? r) && (x_nodes d <=? r) then None
                    else bfs_descend d f (qt ++ rangeN l r)
                end
            end
      end
  end.

Record xit : Type := mk_xit { xi_queue : list N; xi_processed : N; xi_scan : N }.

Definition xit_new (lf rt : N) : xit :=
  {| xi_queue := [lf]; xi_processed := lf; xi_scan := u64 (rt + 1) |}.
Definition xit_hasNext (it : xit) : bool := xi_processed it <? xi_scan it.

(* after the leaf queue[0] has been consumed *)
Definition xit_advance (it : xit) (qt : list N) : xit :=
  match qt with
  | [] => {| xi_queue := [u32 (u64 (xi_processed it + 1))]; xi_processed := u64 (xi_processed it + 1);
             xi_scan := xi_scan it |}
  | _ => {| xi_queue := qt; xi_processed := xi_processed it; xi_scan := xi_scan it |}
  end.

Definition xit_next (d : xbw) (it : xit) : option (N * xit) :=
  match bfs_descend d (xfuel d) (xi_queue it) with
  | Some (q0 :: qt) =>
      match alpha_rank d (x_maxLabel d) q0 with
      | None => None
      | Some id => Some (id, xit_advance it qt)
      end
  | _ => None
  end.

(* the client loop of the harness: while (hasNext && k < cap) next(); then hasNext -> MORE *)
Fixpoint xit_drain (d : xbw) (cap : nat) (it : xit) : option (list N * bool) :=
  if xit_hasNext it then
    match cap with
    | O => Some ([], true)
    | S cap' =>
        match xit_next d it with
        | None => None
        | Some (id, it') =>
            match xit_drain d cap' it' with
            | None => None
            | Some (ids, more) => Some (id :: ids, more)
            end
        end
    end
  else Some ([], false).

Definition xbw_locatePrefix (d : xbw) (str : list N) (cap : nat) : option (list N * bool) :=
  match xbw_subPathSearch d (0 :: str) with
  | None => None
  | Some (lf, rt) =>
      if lf <=? rt then xit_drain d cap (xit_new lf rt)
      else Some ([], false)                   (* IteratorDictIDContiguous(NORESULT, NORESULT) *)
  end.

(* ---- IteratorDictStringXBW --------------------------------------------------------- *)
(* void idToStr(uint id, uint cnt): the bytes written at str[strLen ...], in order *)
Fixpoint sit_idToStr (d : xbw) (fuel : nat) (processed id cnt : N) : option (list N) :=
  if id =? processed then
    if 0 <? cnt then
      match alpha_access d id with
      | None => None
      | Some a => match xunmap d a with None => None | Some c => Some [c] end
      end
    else Some [0]
  else
    match fuel with
    | O => None
    | S f =>
        let cnt' := u32 (cnt + 1) in
        match xbw_getParent d id with
        | None => None
        | Some p =>
            match sit_idToStr d f processed p cnt' with
            | None => None
            | Some v =>
                if 1 <? cnt' then
                  match alpha_access d id with
                  | None => None
                  | Some a => match xunmap d a with None => None | Some c => Some (v ++ [c]) end
                  end
                else Some (v ++ [0])
            end
        end
    end.

(* bytes up to the first NUL (what strcpy copies / strlen sees) *)
Fixpoint cstr (l : list N) : list N :=
  match l with [] => [] | x :: t => if x =? 0 then [] else x :: cstr t end.

(* next(): (string as a C string, *str_length, new iterator) *)
Definition sit_next (d : xbw) (prefix : list N) (it : xit) : option (list N * N * xit) :=
  match bfs_descend d (xfuel d) (xi_queue it) with
  | Some (q0 :: qt) =>
      match sit_idToStr d (xfuel d) (xi_processed it) q0 0 with
      | None => None
      | Some v =>
          (* str = new uchar[maxlength + 1] *)
          if x_maxlength d + 1 <? lenN prefix + lenN v then None
          else Some (cstr (prefix ++ v), u32 (lenN prefix + lenN v + W32 - 1), xit_advance it qt)
      end
  | _ => None
  end.

Fixpoint sit_drain (d : xbw) (prefix : list N) (cap : nat) (it : xit) : option (list (list N * N) * bool) :=
  if xit_hasNext it then
    match cap with
    | O => Some ([], true)
    | S cap' =>
        match sit_next d prefix it with
        | None => None
        | Some (s, l, it') =>
            match sit_drain d prefix cap' it' with
            | None => None
            | Some (r, more) => Some ((s, l) :: r, more)
            end
        end
    end
  else Some ([], false).

(* always an IteratorDictStringXBW, also for an empty range *)
Definition xbw_extractPrefix (d : xbw) (str : list N) (cap : nat) : option (list (list N * N) * bool) :=
  match xbw_subPathSearch d (0 :: str) with
  | None => None
  | Some (lf, rt) =>
      (* str = new uchar[maxlength + 1]; strncpy(str, prefix, prefixLen) *)
      if x_maxlength d + 1 <? lenN str then None
      else sit_drain d str cap (xit_new lf rt)
  end.

(* ------------------------------------------------------------------ *)
(* B. specification side: the trie in XBW order                         *)
(* ------------------------------------------------------------------ *)
(* A sibling block = (key, labels): [key] is the UPWARD path of the common parent of the siblings, read from
   the parent to the root and closed by the labels 0,0 of the two sentinel nodes (root, root2):
   key = rev pi ++ [0;0] for the parent reached by the downward path pi; [labels] are the siblings' labels in
   ascending order.  Blocks are listed by ascending key (lexicographic, a proper prefix first): this is the
   order TrieNode::cmp induces (parents compared by TrieNode::less = upward paths, siblings by symbol).
   Block 0 is the pseudo block ([0],[0;0]) holding the two sentinels root2 (position 0) and root (position 1):
   the constructor never sets root2->last, so the arrays present root2 and root as two siblings. *)
Definition blk : Type := (list N * list N)%type.

Definition labels_of (B : list blk) : list N := flat_map snd B.
Definition blk_rows (b : blk) : list (list N * N) := map (fun c => (fst b, c)) (snd b).
Definition rows_of (B : list blk) : list (list N * N) := flat_map blk_rows B.
Definition flags_of (b : blk) : list bool :=
  match snd b with [] => [] | _ :: t => map (fun _ => false) t ++ [true] end.
Definition lasts_of (B : list blk) : list bool := flat_map flags_of B.

Definition lex_ltb (a b : list N) : bool := match lex_compare a b with Lt => true | _ => false end.
(* key < w ; key < w or w is a prefix of key *)
Definition klt (w k : list N) : bool := lex_ltb k w.
Definition kle (w k : list N) : bool := lex_ltb k w || is_prefix w k.
Definition bsel (P : list N -> bool) (B : list blk) : list blk := filter (fun b => P (fst b)) B.
(* number of rows / blocks whose key satisfies P *)
Definition NR (P : list N -> bool) (B : list blk) : N := lenN (labels_of (bsel P B)).
Definition NB (P : list N -> bool) (B : list blk) : N := lenN (bsel P B).

Definition has (c : N) (b : blk) : bool := existsb (N.eqb c) (snd b).
Definition grp (c : N) (b : blk) : bool := match fst b with x :: _ => x =? c | [] => false end.
Definition keyeqb (a b : list N) : bool := str_eqb a b.

(* the downward path of a key *)
Definition unkey (k : list N) : list N := rev (removelast (removelast k)).
Definition mkkey (pi : list N) : list N := rev pi ++ [0; 0].

(* ---- the candidate blocks, computed from S (no proofs needed: the checker re-verifies everything) *)
Fixpoint prefixes (s : list N) : list (list N) :=
  [] :: match s with [] => [] | x :: t => map (cons x) (prefixes t) end.
Fixpoint next_sym (pi s : list N) : option N :=
  match pi, s with
  | [], [] => Some 255
  | [], x :: _ => Some x
  | _ :: _, [] => None
  | a :: pi', x :: s' => if a =? x then next_sym pi' s' else None
  end.
Fixpoint ins_N (c : N) (l : list N) : list N :=
  match l with
  | [] => [c]
  | x :: t => if c <? x then c :: l else if c =? x then l else x :: ins_N c t
  end.
Definition labs_of (S : list str) (pi : list N) : list N :=
  fold_right (fun s acc => match next_sym pi s with Some c => ins_N c acc | None => acc end) [] S.
Fixpoint ins_key (k : list N) (l : list (list N)) : list (list N) :=
  match l with
  | [] => [k]
  | x :: t => match lex_compare k x with Lt => k :: l | Eq => l | Gt => x :: ins_key k t end
  end.
Definition node_keys (S : list str) : list (list N) :=
  fold_right ins_key [] (map mkkey (flat_map prefixes S)).
Definition trie_blocks (S : list str) : list blk :=
  ([0], [0; 0]) :: map (fun k => (k, labs_of S (unkey k))) (node_keys S).

(* the order of the IDs: the members in the order of their terminator leaves *)
Definition xbw_order_of (B : list blk) : list str := map (fun b => unkey (fst b)) (filter (has 255) B).
Definition xbw_order (S : list str) : list str := xbw_order_of (trie_blocks S).

(* ---- the checker ------------------------------------------------------------------- *)
Fixpoint asc_b (l : list N) : bool :=
  match l with
  | [] => true
  | x :: t => match t with [] => true | y :: _ => (x <? y) && asc_b t end
  end.
Definition key_ok (k : list N) : bool :=
  match rev k with 0 :: 0 :: r => forallb (fun b => (2 <=? b) && (b <=? 254)) r | _ => false end.
Definition haskey (B : list blk) (k : list N) : bool := existsb (fun b => keyeqb (fst b) k) B.

(* conditions on the blocks alone (B = candidate, S = the string set) *)
Definition chk_head (B : list blk) : bool :=
  match B with
  | (k0, l0) :: (k1, _) :: _ => keyeqb k0 [0] && keyeqb l0 [0; 0] && keyeqb k1 [0; 0]
  | _ => false
  end.
Definition chk_blk (b : blk) : bool :=
  key_ok (fst b) && negb (match snd b with [] => true | _ => false end) && asc_b (snd b)
  && forallb (fun c => (2 <=? c) && (c <=? 255)) (snd b).
Definition chk_down (B : list blk) : bool :=
  forallb (fun b => forallb (fun c => (c =? 255) || haskey B (c :: fst b)) (snd b)) (tl B).
Definition chk_up (B : list blk) : bool :=
  forallb (fun b => match fst b with
                    | c :: k => existsb (fun b' => keyeqb (fst b') k && has c b') (tl B)
                    | [] => false
                    end) (tl (tl B)).
Definition chk_members (S : list str) (B : list blk) : bool :=
  forallb (fun s => existsb (fun b => keyeqb (fst b) (mkkey s) && has 255 b) B) S.
Definition chk_leaves (S : list str) (B : list blk) : bool :=
  forallb (fun b => negb (has 255 b) || existsb (str_eqb (unkey (fst b))) S) (tl B).
Definition check_blocks (S : list str) (B : list blk) : bool :=
  chk_head B && sorted_lt_b (map fst B) && forallb chk_blk (tl B) && chk_down B && chk_up B
  && chk_members S B && chk_leaves S B.

(* conditions tying the dumped arrays to the blocks *)
Definition mapf (d : xbw) (c : N) : N := match nthN (x_mapping d) c with Some v => v | None => 0 end.
Definition used (B : list blk) (c : N) : bool := (c =? 0) || existsb (N.eqb c) (labels_of B).
Definition chk_sym (B : list blk) (d : xbw) (c : N) : bool :=
  if used B c then
    negb (mapf d c =? 0)
    && (match xunmap d (mapf d c) with Some c' => c' =? c | None => false end)
    && ((c =? 255)
        || (match xselA d (mapf d c), xselA d (mapf d c + 1) with
            | Some a, Some b => (a =? NR (klt [c]) B) && (b =? NR (kle [c]) B)
            | _, _ => false
            end))
  else mapf d c =? 0.
Fixpoint chk_rowsA (d : xbw) (rows : list (list N * N)) (n : N) : bool :=
  match rows with
  | [] => true
  | (k, _) :: r =>
      (match k with
       | c :: _ => (n <? lenN (x_A d)) && (bv_rank1 (x_A d) n =? mapf d c)
       | [] => false
       end) && chk_rowsA d r (n + 1)
  end.
Definition beqb (a b : bool) : bool := Bool.eqb a b.
Fixpoint list_eqb {T} (e : T -> T -> bool) (a b : list T) : bool :=
  match a, b with
  | [], [] => true
  | x :: a', y :: b' => e x y && list_eqb e a' b'
  | _, _ => false
  end.
Definition check_arrays (S : list str) (B : list blk) (d : xbw) : bool :=
  (x_nodes d =? lenN (labels_of B)) && (x_nodes d + 1 <? W32)
  && list_eqb N.eqb (x_alpha d) (map (mapf d) (labels_of B))
  && list_eqb beqb (x_last d) (lasts_of B)
  && (lenN (x_mapping d) =? 257)
  && forallb (chk_sym B d) (map N.of_nat (seq 0 256))
  && (x_maxLabel d =? mapf d 255)
  && chk_rowsA d (rows_of B) 0
  && (x_elements d =? lenN S)
  && (x_maxlength d =? spec_maxlen S + 1)
  && forallb (fun m => m <? 257) (x_mapping d).

Definition xbw_check_with (S : list str) (B : list blk) (d : xbw) : bool :=
  check_blocks S B && check_arrays S B d.
Definition xbw_check (S : list str) (d : xbw) : bool := xbw_check_with S (trie_blocks S) d.

(* queries the theorems speak about: C strings (no NUL) that do not contain the terminator label *)
Definition xq_valid_b (q : list N) : bool := forallb (fun b => (1 <=? b) && (b <=? 254)) q.

(* ------------------------------------------------------------------ *)
(* D. the public methods as they are in the current tree                *)
(* ------------------------------------------------------------------ *)
(* StringDictionaryXBW::locate: `if (strLen == 0) return NORESULT;` precedes the path search
   (commit 9d5d76b); [xbw_locate] above is the search body that follows it. *)
Definition xbw_locate_api (d : xbw) (str : list N) : option N :=
  if lenN str =? 0 then Some 0 else xbw_locate d str.

(* StringDictionaryXBW::extractPrefix: `if (left > right) return NULL;` after subPathSearch
   (commit 0064a33), before the iterator (and its strncpy into maxlength+1 bytes) is built.
   Some None = NULL iterator. *)
Definition xbw_extractPrefix_api (d : xbw) (str : list N) (cap : nat)
  : option (option (list (list N * N) * bool)) :=
  match xbw_subPathSearch d (0 :: str) with
  | None => None
  | Some (lf, rt) =>
      if rt <? lf then Some None
      else option_map Some (xbw_extractPrefix d str cap)
  end.
