(* Lexicographic-order / longest-common-prefix toolkit for the PFC proofs:
   what strcmp and longestCommonPrefix compute on NUL-terminated buffers, expressed
   with [lex_compare] and [lcp], and the three-way "scan trick" that justifies skipping
   re-comparisons in StringDictionaryPFC::locate. *)
From LibCSD Require Import Base VByteDefs Spec SpecProofs PFCDefs PFCLayout.
From Coq Require Import Lia ZifyBool ZifyNat ZifyN.
Local Open Scope N_scope.

(* ---------------------------------------------------------------------- *)
(* small arithmetic / list helpers                                         *)
(* ---------------------------------------------------------------------- *)
Lemma to_nat_1p n : N.to_nat (1 + n) = S (N.to_nat n).
Proof. lia. Qed.

Lemma skipn_skipn' {A} : forall (x y : nat) (l : list A), skipn x (skipn y l) = skipn (y + x) l.
Proof.
  intros x y; revert x; induction y as [|y IH]; intros x l; [reflexivity|].
  destruct l as [|a l]; [rewrite !skipn_nil; reflexivity|]. cbn [skipn plus]. apply IH.
Qed.

Lemma nul_free_cons x s : nul_free (x :: s) <-> x <> 0 /\ nul_free s.
Proof.
  unfold nul_free; split.
  - intros H; inversion H; auto.
  - intros [? ?]; constructor; auto.
Qed.

Lemma nul_free_nil : nul_free [].
Proof. constructor. Qed.

Lemma nul_free_skipn n s : nul_free s -> nul_free (skipn n s).
Proof.
  unfold nul_free. revert s; induction n as [|n IH]; intros s H; [exact H|].
  destruct s; [constructor|]. cbn [skipn]. apply IH. inversion H; assumption.
Qed.

(* ---------------------------------------------------------------------- *)
(* lcp                                                                     *)
(* ---------------------------------------------------------------------- *)
Lemma lcp_nil_r a : lcp a [] = 0.
Proof. destruct a; reflexivity. Qed.

Lemma lcp_le_l a : forall b, lcp a b <= lenN a.
Proof.
  induction a as [|x a IH]; intros [|y b]; cbn [lcp]; try (unfold lenN; lia).
  destruct (x =? y); [|unfold lenN; lia]. rewrite lenN_cons. specialize (IH b). lia.
Qed.

Lemma lcp_le_r a : forall b, lcp a b <= lenN b.
Proof.
  induction a as [|x a IH]; intros [|y b]; cbn [lcp]; try (unfold lenN; lia).
  destruct (x =? y); [|unfold lenN; lia]. rewrite lenN_cons. specialize (IH b). lia.
Qed.

Lemma lcp_firstn a : forall b,
  firstn (N.to_nat (lcp a b)) a = firstn (N.to_nat (lcp a b)) b.
Proof.
  induction a as [|x a IH]; intros [|y b]; cbn [lcp]; try reflexivity.
  destruct (N.eqb_spec x y) as [->|Hxy]; [|reflexivity].
  rewrite to_nat_1p. cbn [firstn]. f_equal. apply IH.
Qed.

(* the common prefix glued to the rest of the second string gives the second string:
   what decodeNextString reconstructs *)
Lemma lcp_rebuild a b : firstN (lcp a b) a ++ skipN (lcp a b) b = b.
Proof. unfold firstN, skipN. rewrite lcp_firstn. apply firstn_skipn. Qed.

(* the symbols at position lcp differ, or one of the strings ends there *)
Lemma lcp_stop a : forall b,
  match nthN a (lcp a b), nthN b (lcp a b) with
  | Some x, Some y => x <> y
  | _, _ => True
  end.
Proof.
  induction a as [|x a IH]; intros b.
  - cbn [lcp]. unfold nthN. cbn. exact I.
  - destruct b as [|y b].
    + cbn [lcp]. unfold nthN. cbn. exact I.
    + cbn [lcp]. destruct (N.eqb_spec x y) as [->|Hxy].
      * unfold nthN. rewrite to_nat_1p. cbn [nth_error]. apply IH.
      * unfold nthN; cbn. exact Hxy.
Qed.

Lemma lcp_comm a : forall b, lcp a b = lcp b a.
Proof.
  induction a as [|x a IH]; intros [|y b]; cbn [lcp]; try reflexivity.
  rewrite (N.eqb_sym y x). destruct (x =? y); [|reflexivity]. rewrite IH. reflexivity.
Qed.

(* two strings sharing prefixes with a third share the shorter of them *)
Lemma lcp_min a : forall b c, N.min (lcp a b) (lcp a c) <= lcp b c.
Proof.
  induction a as [|x a IH]; intros [|y b] [|z c]; cbn [lcp]; try lia.
  destruct (N.eqb_spec x y) as [->|Hxy]; [|lia].
  destruct (N.eqb_spec y z) as [->|Hyz]; [|lia].
  specialize (IH b c). lia.
Qed.

(* dropping a shared prefix changes neither the comparison nor (up to the offset) the lcp *)
Lemma lcp_skip : forall (n : nat) a b, N.of_nat n <= lcp a b ->
  lcp a b = N.of_nat n + lcp (skipn n a) (skipn n b) /\
  lex_compare a b = lex_compare (skipn n a) (skipn n b).
Proof.
  induction n as [|n IH]; intros a b H; [split; reflexivity|].
  destruct a as [|x a]; [cbn [lcp] in H; lia|].
  destruct b as [|y b]; [cbn [lcp] in H; lia|].
  cbn [lcp] in *. destruct (N.eqb_spec x y) as [->|Hxy]; [|lia].
  destruct (IH a b ltac:(lia)) as [H1 H2].
  cbn [skipn lex_compare]. rewrite N.compare_refl. split; [lia|exact H2].
Qed.

(* ---------------------------------------------------------------------- *)
(* the order                                                               *)
(* ---------------------------------------------------------------------- *)
Lemma lex_gt_lt a b : lex_compare a b = Gt <-> lex_lt b a.
Proof.
  unfold lex_lt. rewrite (lex_compare_antisym a b).
  destruct (lex_compare a b); cbn; split; congruence.
Qed.

Lemma lex_lt_neq a b : lex_lt a b -> a <> b.
Proof. intros H ->. exact (lex_lt_irrefl _ H). Qed.

(* if q < a and a < b2 then q < b2 (named as in the design notes) *)
Lemma lex_lt_trans3 q a b2 : lex_lt q a -> lex_lt a b2 -> lex_lt q b2.
Proof. apply lex_lt_trans. Qed.

(* ---------------------------------------------------------------------- *)
(* the scan trick                                                          *)
(* ---------------------------------------------------------------------- *)
(* a < q, a < b2, and b2 shares FEWER symbols with a than q does: then q < b2 *)
Lemma scan_trick_lt a : forall q b2, lex_lt a q -> lex_lt a b2 ->
  lcp a b2 < lcp a q -> lex_lt q b2.
Proof.
  unfold lex_lt.
  induction a as [|x a IH]; intros [|y q] [|z b2]; cbn [lcp lex_compare]; intros Hq Hb Hl;
    try discriminate; try lia.
  destruct (N.eqb_spec x y) as [<-|Hxy]; [|destruct (x =? z); lia].
  rewrite N.compare_refl in Hq.
  destruct (N.eqb_spec x z) as [<-|Hxz].
  - rewrite N.compare_refl in *. apply (IH q b2); auto. lia.
  - destruct (N.compare_spec x z); try discriminate; try congruence; reflexivity.
Qed.

(* a < q, a < b2, and b2 shares MORE symbols with a than q does: then b2 relates to q
   exactly as a does (same lcp, same comparison outcome) *)
Lemma scan_trick_gt a : forall q b2, lex_lt a q -> lex_lt a b2 ->
  lcp a q < lcp a b2 -> lcp b2 q = lcp a q /\ lex_lt b2 q.
Proof.
  unfold lex_lt.
  induction a as [|x a IH]; intros [|y q] [|z b2]; cbn [lcp lex_compare]; intros Hq Hb Hl;
    try discriminate; try lia.
  destruct (N.eqb_spec x z) as [<-|Hxz]; [|destruct (x =? y); lia].
  rewrite N.compare_refl in Hb.
  destruct (N.eqb_spec x y) as [<-|Hxy].
  - rewrite N.compare_refl in *. destruct (IH q b2 Hq Hb ltac:(lia)) as [H1 H2].
    split; [lia|exact H2].
  - split; [reflexivity|].
    destruct (N.compare_spec x y); try discriminate; try congruence; reflexivity.
Qed.

(* same number of shared symbols: comparing b2 with q from that position on is sound *)
Lemma scan_trick_eq a q b2 : lcp a b2 = lcp a q -> lcp a q <= lcp b2 q.
Proof. intros H. pose proof (lcp_min a b2 q). lia. Qed.

(* ---------------------------------------------------------------------- *)
(* strcmp against the caller's pattern                                     *)
(* ---------------------------------------------------------------------- *)
Lemma c_strcmp_spec a : forall q rest, nul_free a -> nul_free q ->
  c_strcmp (a ++ 0 :: rest) q = Some (lex_compare a q).
Proof.
  induction a as [|x a IH]; intros [|y q] rest Ha Hq; cbn [app c_strcmp lex_compare].
  - reflexivity.
  - apply nul_free_cons in Hq. destruct Hq as [Hy _].
    destruct (N.eqb_spec 0 y) as [E|_]; [congruence|].
    f_equal. destruct (N.compare_spec 0 y); try lia; reflexivity.
  - apply nul_free_cons in Ha. destruct Ha as [Hx _].
    destruct (N.eqb_spec x 0); [contradiction|reflexivity].
  - apply nul_free_cons in Ha. destruct Ha as [Hx Ha].
    apply nul_free_cons in Hq. destruct Hq as [Hy Hq].
    destruct (N.eqb_spec x y) as [<-|Hxy].
    + destruct (N.eqb_spec x 0); [contradiction|]. rewrite N.compare_refl. apply IH; assumption.
    + destruct (N.compare_spec x y); try congruence; reflexivity.
Qed.

(* ---------------------------------------------------------------------- *)
(* longestCommonPrefix on decoded ++ NUL against pattern ++ NUL            *)
(* ---------------------------------------------------------------------- *)
(* outcome of a comparison: (difference, shared count) agrees with lex_compare / lcp *)
Definition cmp_agrees (a q : str) (base : N) (z : Z) (n : N) : Prop :=
  match lex_compare a q with
  | Eq => z = 0%Z
  | Lt => (z < 0)%Z /\ n = base + lcp a q
  | Gt => (0 < z)%Z /\ n = base + lcp a q
  end.

Lemma lcp_cmp_spec a : forall q acc, nul_free a -> nul_free q ->
  exists z n, lcp_cmp (a ++ [0]) (q ++ [0]) (lenN a + 1) acc = Some (z, n) /\ cmp_agrees a q acc z n.
Proof.
  unfold cmp_agrees.
  induction a as [|x a IH]; intros [|y q] acc Ha Hq; cbn [app lcp_cmp lex_compare lcp].
  - exists 0%Z, (acc + 1). split; reflexivity.
  - apply nul_free_cons in Hq. destruct Hq as [Hy _].
    change (lenN (@nil N) + 1 =? 0) with false. cbv iota.
    destruct (N.eqb_spec 0 y) as [E|_]; [congruence|].
    exists (Z.of_N 0 - Z.of_N y)%Z, acc. split; [reflexivity|].
    split; lia.
  - apply nul_free_cons in Ha. destruct Ha as [Hx _].
    destruct (N.eqb_spec (lenN (x :: a) + 1) 0) as [E|_]; [lia|].
    destruct (N.eqb_spec x 0); [contradiction|].
    exists (Z.of_N x - Z.of_N 0)%Z, acc. split; [reflexivity|]. split; lia.
  - apply nul_free_cons in Ha. destruct Ha as [Hx Ha].
    apply nul_free_cons in Hq. destruct Hq as [Hy Hq].
    destruct (N.eqb_spec (lenN (x :: a) + 1) 0) as [E|_]; [lia|].
    destruct (N.eqb_spec x y) as [<-|Hxy].
    + rewrite N.compare_refl.
      replace (lenN (x :: a) + 1 - 1) with (lenN a + 1) by (rewrite lenN_cons; lia).
      destruct (IH q (acc + 1) Ha Hq) as (z & n & E & Hag).
      exists z, n. split; [exact E|].
      destruct (lex_compare a q); [exact Hag| |]; (split; [tauto|lia]).
    + exists (Z.of_N x - Z.of_N y)%Z, acc. split; [reflexivity|].
      destruct (N.compare_spec x y); try congruence; split; lia.
Qed.

(* cmp_from: the comparison restarts at [s] shared symbols; it reads the pattern only up
   to its NUL (never None), and reports the sign of lex_compare and the full lcp *)
Lemma cmp_from_spec a q s : nul_free a -> nul_free q -> s <= lcp a q ->
  exists z n, cmp_from a q s 1 = Some (z, n) /\ cmp_agrees a q 0 z n.
Proof.
  intros Ha Hq Hs.
  pose proof (lcp_le_l a q) as Hla. pose proof (lcp_le_r a q) as Hlq.
  unfold cmp_from.
  destruct (N.leb_spec s (lenN a)); [|lia]. destruct (N.leb_spec s (lenN q)); [|lia].
  cbn [andb]. unfold skipN.
  rewrite !skipn_app.
  replace (N.to_nat s - length a)%nat with O by (unfold lenN in *; lia).
  replace (N.to_nat s - length q)%nat with O by (unfold lenN in *; lia).
  cbn [skipn].
  destruct (lcp_skip (N.to_nat s) a q ltac:(lia)) as [H1 H2].
  replace (lenN a - s + 1) with (lenN (skipn (N.to_nat s) a) + 1)
    by (unfold lenN in *; rewrite skipn_length; lia).
  destruct (lcp_cmp_spec (skipn (N.to_nat s) a) (skipn (N.to_nat s) q) s
              (nul_free_skipn _ _ Ha) (nul_free_skipn _ _ Hq)) as (z & n & E & Hag).
  exists z, n. split; [exact E|].
  unfold cmp_agrees in *. rewrite H2.
  destruct (lex_compare (skipn (N.to_nat s) a) (skipn (N.to_nat s) q)); [exact Hag| |];
    (split; [tauto|lia]).
Qed.
