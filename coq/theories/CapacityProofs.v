(* Capacity accounting of the StringDictionaryPFC constructor (C07): theorems about
   CapacityDefs.v.

   - [cap_grow_spec]              the doubling loop terminates (logarithmic fuel suffices) and
                                  establishes need <= reserved, for every reservation >= 1;
   - [cap_run_safe]               any check that covers the bytes of each item keeps every
                                  write inside the buffer (generic, one induction);
   - [cap_ok_pinned_exact], [cap_ok_if_len_ge_2]
                                  the pinned check `bytes + 2*len` is sufficient exactly when
                                  vb_len lcp + (len - lcp) + 1 <= 2*len for every internal string
                                  (and len >= 1 for headers): e.g. all internal strings of length
                                  >= 2, or with a non-empty common prefix;
   - [cap_pinned_condition_necessary], [cap_refuted], [cap_refuted_strings]
                                  the check is too weak in general: a 1-byte internal string
                                  with LCP 0 needs 3 bytes, 2 are guaranteed; witness in the
                                  bookkeeping model and as a VALID string set for the real
                                  parameters (MEMALLOC = 32768, bucket size 2);
   - [cap_ok_fixed], [cap_ok_min], [cap_ok_fixed_strings]
                                  `bytes + 2*len + 6` (or `bytes + len + 6`) is sufficient for
                                  EVERY sequence;
   - [cap_cursor_is_text_length]  the cursor of the bookkeeping model is the length of the text
                                  the byte-exact model PFCDefs.pfc_build produces. *)
From LibCSD Require Import Base VByteDefs VByteProofs Spec SpecProofs PFCDefs PFCLayout PFCBuildProofs
  LexLemmas PFCLocateProofs CapacityDefs.
Local Open Scope N_scope.

Ltac Zify.zify_post_hook ::= Z.to_euclidean_division_equations.

(* ---------------------------------------------------------------------- *)
(* VByte lengths                                                            *)
(* ---------------------------------------------------------------------- *)
Lemma vb_len_small c : c < 128 -> vb_len c = 1.
Proof. intros H. unfold vb_len. rewrite vb_encode_small by exact H. reflexivity. Qed.

Lemma vb_fuel_len_max fuel : forall c, (length (vb_encode_fuel fuel c) <= S fuel)%nat.
Proof.
  induction fuel as [|f IH]; intros c; cbn [vb_encode_fuel]; [simpl; lia|].
  destruct (127 <? c); [|simpl; lia]. cbn [length]. specialize (IH (N.shiftr c 7)). lia.
Qed.

Lemma vb_len_le10 c : vb_len c <= 10.
Proof. unfold vb_len, vb_encode, lenN. pose proof (vb_fuel_len_max 9 c). lia. Qed.

Lemma vb_len_ge1 c : 1 <= vb_len c.
Proof. unfold vb_len, vb_encode, lenN. cbn [vb_encode_fuel]. destruct (127 <? c); cbn [length]; lia. Qed.

Lemma vb_len_le5 c : c < 2 ^ 32 -> vb_len c <= 5.
Proof. intros H. unfold vb_len, lenN. pose proof (vbyte_length_le5 c H). lia. Qed.

(* a non-zero LCP pays for its own VByte *)
Lemma vb_len_le_self c : 1 <= c -> vb_len c <= c.
Proof.
  intros H. destruct (N.lt_ge_cases c 128) as [Hs|Hb].
  - rewrite vb_len_small by exact Hs. exact H.
  - pose proof (vb_len_le10 c). lia.
Qed.

(* ---------------------------------------------------------------------- *)
(* the growth loop                                                          *)
(* ---------------------------------------------------------------------- *)
Lemma cap_grow_fuel_ge fuel : forall need r, r <= cap_grow_fuel fuel need r.
Proof.
  induction fuel as [|f IH]; intros need r; cbn [cap_grow_fuel]; [lia|].
  destruct (r <? need); [|lia]. specialize (IH need (2 * r)). lia.
Qed.

Lemma cap_grow_fuel_spec fuel : forall need r,
  need <= r * 2 ^ N.of_nat fuel -> need <= cap_grow_fuel fuel need r.
Proof.
  induction fuel as [|f IH]; intros need r H; cbn [cap_grow_fuel].
  - change (2 ^ N.of_nat 0) with 1 in H. lia.
  - destruct (N.ltb_spec r need) as [Hlt|Hge]; [|exact Hge].
    apply IH. replace (N.of_nat (S f)) with (1 + N.of_nat f) in H by lia.
    rewrite N.pow_add_r in H. change (2 ^ 1) with 2 in H. lia.
Qed.

(* termination + postcondition of `while (need > reserved) reserved = Reallocate(..)` *)
Theorem cap_grow_spec need r : 1 <= r -> need <= cap_grow need r /\ r <= cap_grow need r.
Proof.
  intros Hr. unfold cap_grow. split; [|apply cap_grow_fuel_ge].
  apply cap_grow_fuel_spec.
  replace (N.of_nat (S (N.to_nat (N.size need)))) with (1 + N.size need) by lia.
  pose proof (N.size_gt need) as Hs.
  rewrite N.pow_add_r. change (2 ^ 1) with 2.
  assert (2 ^ N.size need <= r * (2 * 2 ^ N.size need)) by nia. lia.
Qed.

(* no growth when the check passes *)
Lemma cap_grow_id need r : need <= r -> cap_grow need r = r.
Proof.
  intros H. unfold cap_grow. cbn [cap_grow_fuel]. destruct (N.ltb_spec r need); [lia|reflexivity].
Qed.

(* ---------------------------------------------------------------------- *)
(* generic safety theorem                                                   *)
(* ---------------------------------------------------------------------- *)
Definition item_len (it : cap_item) : N := fst (fst it).

(* the check demands at least the bytes the iteration writes *)
Definition chk_covers (chk : N -> N -> N) (ok : cap_item -> Prop) : Prop :=
  forall cursor it, ok it -> cursor + cap_top it + 1 <= chk cursor (item_len it).

Definition in_bounds (rt : N * N) : Prop := snd rt < fst rt.

Theorem cap_run_safe chk ok : chk_covers chk ok ->
  forall items st, 1 <= fst st -> Forall ok items -> Forall in_bounds (cap_run chk st items).
Proof.
  intros Hc. induction items as [|it r IH]; intros [reserved cursor] Hr Hok; [constructor|].
  inversion Hok as [|? ? Hit Hrest]; subst. cbn [fst] in Hr.
  destruct it as [[len l] hdr] eqn:Eit.
  cbn [cap_run cap_step]. rewrite <- Eit.
  destruct (cap_grow_spec (chk cursor len) reserved Hr) as [Hneed Hmono].
  pose proof (Hc cursor it ltac:(subst it; exact Hit)) as Hcov.
  replace (item_len it) with len in Hcov by (subst it; reflexivity).
  constructor.
  - unfold in_bounds. cbn [fst snd]. lia.
  - apply IH; [cbn [fst]; lia|exact Hrest].
Qed.

Lemma in_bounds_forallb l : Forall in_bounds l -> forallb (fun rt => snd rt <? fst rt) l = true.
Proof.
  intros H. apply forallb_forall. intros rt Hrt. rewrite Forall_forall in H.
  apply N.ltb_lt. apply (H rt Hrt).
Qed.

Corollary cap_safe_of_covers chk ok R0 items :
  chk_covers chk ok -> 1 <= R0 -> Forall ok items -> cap_safe chk R0 items = true.
Proof.
  intros Hc HR Hok. unfold cap_safe. apply in_bounds_forallb.
  apply (cap_run_safe chk ok Hc); [exact HR|exact Hok].
Qed.

(* ---------------------------------------------------------------------- *)
(* the pinned check                                                         *)
(* ---------------------------------------------------------------------- *)
(* the exact per-string condition under which `bytes + 2*len` covers the write *)
Definition pinned_item_ok (it : cap_item) : Prop :=
  let '(len, l, hdr) := it in
  len < 2 ^ 31 /\ if hdr then 1 <= len else vb_len l + (len - l) + 1 <= 2 * len.

Lemma pinned_covers : chk_covers chk_pinned pinned_item_ok.
Proof.
  intros cursor [[len l] hdr] [Hlen H]. unfold chk_pinned, item_len, cap_top. cbn [fst].
  rewrite (N.mod_small (2 * len)) by (change (2 ^ 32) with (2 * 2 ^ 31); lia).
  destruct hdr; lia.
Qed.

Theorem cap_ok_pinned_exact R0 items :
  1 <= R0 -> Forall pinned_item_ok items -> cap_safe chk_pinned R0 items = true.
Proof. intros HR H. apply (cap_safe_of_covers _ _ R0 items pinned_covers HR H). Qed.

(* readable sufficient condition: headers are non-empty; an internal string is longer than
   its LCP (true for strictly sorted input) and has length >= 2 or a non-empty LCP *)
Definition item_len_ge_2 (it : cap_item) : Prop :=
  let '(len, l, hdr) := it in
  len < 2 ^ 31 /\ if hdr then 1 <= len else l < len /\ (2 <= len \/ 1 <= l).

Lemma item_len_ge_2_ok it : item_len_ge_2 it -> pinned_item_ok it.
Proof.
  destruct it as [[len l] hdr]. unfold item_len_ge_2, pinned_item_ok.
  intros [Hlen H]. split; [exact Hlen|]. destruct hdr; [exact H|].
  destruct H as [Hl H]. destruct (N.eq_dec l 0) as [->|Hl0].
  - rewrite vb_len_small by lia. lia.
  - pose proof (vb_len_le_self l ltac:(lia)). lia.
Qed.

(* boolean checker of the hypothesis (sound), runnable by the harness on a length vector *)
Definition item_len_ge_2_b (it : cap_item) : bool :=
  let '(len, l, hdr) := it in
  (len <? 2 ^ 31) && (if hdr then 1 <=? len else (l <? len) && ((2 <=? len) || (1 <=? l))).

Lemma item_len_ge_2_b_sound it : item_len_ge_2_b it = true -> item_len_ge_2 it.
Proof.
  destruct it as [[len l] hdr]. unfold item_len_ge_2_b, item_len_ge_2.
  rewrite andb_true_iff. intros [H1 H2]. apply N.ltb_lt in H1. split; [exact H1|].
  destruct hdr; [apply N.leb_le; exact H2|].
  rewrite andb_true_iff, orb_true_iff in H2. destruct H2 as [H2 H3]. apply N.ltb_lt in H2.
  split; [exact H2|]. destruct H3 as [H3|H3]; apply N.leb_le in H3; [left|right]; exact H3.
Qed.

Lemma items_len_ge_2_b_sound items : forallb item_len_ge_2_b items = true -> Forall item_len_ge_2 items.
Proof.
  intros H. apply Forall_forall. intros it Hit. rewrite forallb_forall in H.
  apply item_len_ge_2_b_sound. apply H. exact Hit.
Qed.

Theorem cap_ok_if_len_ge_2 R0 items :
  1 <= R0 -> Forall item_len_ge_2 items -> cap_safe chk_pinned R0 items = true.
Proof.
  intros HR H. apply cap_ok_pinned_exact; [exact HR|].
  eapply Forall_impl; [|exact H]. exact item_len_ge_2_ok.
Qed.

(* the condition is also necessary: an internal string violating it overflows as soon as the
   cursor sits at reserved - 2*len, where the check still passes *)
Theorem cap_pinned_condition_necessary R len l :
  len < 2 ^ 31 -> 2 * len <= R -> 2 * len < vb_len l + (len - l) + 1 ->
  let '(R', _, top) := cap_step chk_pinned (R, R - 2 * len) (len, l, false) in
  R' = R /\ R <= top.
Proof.
  intros Hlen HR Hbad. cbn [cap_step cap_top]. unfold chk_pinned.
  rewrite (N.mod_small (2 * len)) by (change (2 ^ 32) with (2 * 2 ^ 31); lia).
  rewrite cap_grow_id by lia. split; [reflexivity|lia].
Qed.

(* the smallest instance: a 1-byte internal string with LCP 0 needs VByte + byte + NUL = 3
   bytes, the check guarantees 2 *)
Theorem cap_refuted :
  exists R0 items, 1 <= R0 /\ cap_safe chk_pinned R0 items = false /\
                   cap_run chk_pinned (R0, 0) items = [(4, 1); (4, 4)].
Proof. exists 4, [(1, 0, true); (1, 0, false)]. vm_compute. repeat split; congruence. Qed.

(* the same at the real initial reservation 65536 = MEMALLOC * 2, as a length vector:
   32767 one-byte headers bring the cursor to 65534 without growth *)
Theorem cap_refuted_65536 :
  let items := repeat (1, 0, true) (N.to_nat 32767) in
  cap_final chk_pinned (65536, 0) items = (65536, 65534) /\
  cap_safe chk_pinned 65536 items = true /\
  cap_safe chk_pinned 65536 (items ++ [(1, 0, false)]) = false.
Proof. vm_compute. repeat split; reflexivity. Qed.

(* ---------------------------------------------------------------------- *)
(* the repaired checks                                                      *)
(* ---------------------------------------------------------------------- *)
(* the LCP is a `uint` *)
Definition item_lcp32 (it : cap_item) : Prop := snd (fst it) < 2 ^ 32.

Lemma fixed_covers : chk_covers chk_fixed item_lcp32.
Proof.
  intros cursor [[len l] hdr] H. unfold item_lcp32 in H. cbn [fst snd] in H.
  unfold chk_fixed, item_len, cap_top. cbn [fst].
  pose proof (vb_len_le5 l H). destruct hdr; lia.
Qed.

(* the uncast variant `bytesStrings + 2 * lenCurrent + 6`: fine below 2^31 *)
Definition item_fixed32_ok (it : cap_item) : Prop := item_len it < 2 ^ 31 /\ item_lcp32 it.

Lemma fixed32_covers : chk_covers chk_fixed32 item_fixed32_ok.
Proof.
  intros cursor [[len l] hdr] [Hlen H]. unfold item_lcp32, item_len in *. cbn [fst snd] in *.
  unfold chk_fixed32, cap_top.
  rewrite (N.mod_small (2 * len)) by (change (2 ^ 32) with (2 * 2 ^ 31); lia).
  pose proof (vb_len_le5 l H). destruct hdr; lia.
Qed.

(* VByte(c) never takes more than c + 1 bytes *)
Lemma vb_len_le_succ c : vb_len c <= c + 1.
Proof.
  destruct (N.eq_dec c 0) as [->|H]; [rewrite vb_len_small; lia|].
  pose proof (vb_len_le_self c ltac:(lia)). lia.
Qed.

(* a true LCP is at most the length *)
Definition item_lcp_le (it : cap_item) : Prop := snd (fst it) <= item_len it.

Lemma min_covers : chk_covers chk_min item_lcp_le.
Proof.
  intros cursor [[len l] hdr] H. unfold item_lcp_le, item_len in *. cbn [fst snd] in *.
  unfold chk_min, cap_top.
  pose proof (vb_len_le_succ l). destruct hdr; lia.
Qed.

(* `bytesStrings + 2 * (size_t)lenCurrent + 6 > reservedStrings` is sufficient for EVERY
   length / LCP / header sequence and every initial reservation >= 1 *)
Theorem cap_ok_fixed R0 items :
  1 <= R0 -> Forall item_lcp32 items -> cap_safe chk_fixed R0 items = true.
Proof. intros HR H. apply (cap_safe_of_covers _ _ R0 items fixed_covers HR H). Qed.

Theorem cap_ok_fixed32 R0 items :
  1 <= R0 -> Forall item_fixed32_ok items -> cap_safe chk_fixed32 R0 items = true.
Proof. intros HR H. apply (cap_safe_of_covers _ _ R0 items fixed32_covers HR H). Qed.

(* so is the much tighter `bytesStrings + lenCurrent + 2` *)
Theorem cap_ok_min R0 items :
  1 <= R0 -> Forall item_lcp_le items -> cap_safe chk_min R0 items = true.
Proof. intros HR H. apply (cap_safe_of_covers _ _ R0 items min_covers HR H). Qed.

(* ... and 2 is the least constant for which `bytes + len + c` works (same 1-byte string) *)
Theorem cap_min_is_tight :
  cap_safe (fun cursor len => cursor + len + 1) 4 [(1, 0, true); (1, 0, false)] = false.
Proof. vm_compute. reflexivity. Qed.

(* ---------------------------------------------------------------------- *)
(* from string lists to items                                               *)
(* ---------------------------------------------------------------------- *)
Lemma lex_lt_lcp_lt a : forall b, lex_lt a b -> lcp a b < lenN b.
Proof.
  unfold lex_lt. induction a as [|x a IH]; intros [|y b] H; cbn [lex_compare lcp] in *; try discriminate.
  - rewrite lenN_cons. lia.
  - rewrite lenN_cons. destruct (N.compare_spec x y) as [->|Hlt|Hgt]; try discriminate.
    + rewrite N.eqb_refl. specialize (IH b H). lia.
    + destruct (N.eqb_spec x y); lia.
Qed.

(* the items of a list in which every string has a length below [M]: LCPs are below M too *)
Lemma cap_items_lcp32 b : forall S i prev,
  Forall (fun s => lenN s < 2 ^ 32) S -> Forall item_lcp32 (cap_items_from b i prev S).
Proof.
  induction S as [|s r IH]; intros i prev H; cbn [cap_items_from]; [constructor|].
  inversion H; subst. constructor; [|apply IH; assumption].
  unfold item_lcp32. cbn [fst snd]. pose proof (lcp_le_r prev s). lia.
Qed.

(* the initial reservation is positive for every bucket size in [1, 2^17) *)
Lemma cap_reserved0_pos b0 : 1 <= b0 < 131072 -> 1 <= cap_reserved0 b0.
Proof.
  intros H. unfold cap_reserved0, MEMALLOC. rewrite N.mod_small; [lia|].
  change (2 ^ 32) with (32768 * 131072). lia.
Qed.

(* ... and 0 for the bucket sizes 0, 2^17, 2^18, ...: `while (need > 0) reserved = 2 * 0` never
   ends (in the model: the fuel runs out with the reservation still below the need) *)
Lemma cap_reserved0_zero : cap_reserved0 0 = 0 /\ cap_reserved0 131072 = 0.
Proof. split; reflexivity. Qed.

Lemma cap_grow_zero need : cap_grow need 0 = 0.
Proof.
  unfold cap_grow. generalize (S (N.to_nat (N.size need))) as fuel.
  induction fuel as [|f IH]; cbn [cap_grow_fuel]; [reflexivity|].
  destruct (0 <? need); [exact IH|reflexivity].
Qed.

(* with the repaired check the constructor stays in bounds on EVERY PFC input (no condition
   on the lengths beyond the uint range), for every bucket size *)
Theorem cap_ok_fixed_strings b0 S :
  1 <= cap_reserved0 b0 ->
  Forall (fun s => lenN s < 2 ^ 32) S -> pfc_ctor_in_bounds chk_fixed b0 S = true.
Proof.
  intros HR H. unfold pfc_ctor_in_bounds. apply cap_ok_fixed; [exact HR|].
  apply cap_items_lcp32. exact H.
Qed.

Lemma cap_items_lcp_le b : forall S i prev, Forall item_lcp_le (cap_items_from b i prev S).
Proof.
  induction S as [|s r IH]; intros i prev; cbn [cap_items_from]; constructor; [|apply IH].
  unfold item_lcp_le, item_len. cbn [fst snd]. apply lcp_le_r.
Qed.

(* the tight check needs no hypothesis on the strings at all *)
Theorem cap_ok_min_strings b0 S : 1 <= cap_reserved0 b0 -> pfc_ctor_in_bounds chk_min b0 S = true.
Proof.
  intros HR. unfold pfc_ctor_in_bounds. apply cap_ok_min; [exact HR|]. apply cap_items_lcp_le.
Qed.

(* with the pinned check: safe when the list is strictly sorted and every string has a
   length in [2, 2^31) *)
Lemma cap_items_len_ge_2 b : forall S i prev,
  sorted_lt (prev :: S) -> Forall (fun s => 2 <= lenN s < 2 ^ 31) S ->
  Forall item_len_ge_2 (cap_items_from b i prev S).
Proof.
  induction S as [|s r IH]; intros i prev Hs H; cbn [cap_items_from]; [constructor|].
  inversion H as [|? ? Hlen Hr]; subst. inversion Hs as [| |? ? ? Hlt Hs']; subst.
  constructor; [|apply IH; assumption].
  unfold item_len_ge_2. split; [lia|].
  destruct (i mod b =? 0); [lia|]. split; [apply lex_lt_lcp_lt; exact Hlt|left; lia].
Qed.

Theorem cap_ok_pinned_strings b0 S :
  1 <= cap_reserved0 b0 ->
  sorted_lt S -> Forall (fun s => 2 <= lenN s < 2 ^ 31) S -> pfc_ctor_in_bounds chk_pinned b0 S = true.
Proof.
  intros HR Hs H. unfold pfc_ctor_in_bounds. apply cap_ok_if_len_ge_2; [exact HR|].
  unfold cap_items. destruct S as [|s r]; [constructor|].
  cbn [cap_items_from]. inversion H as [|? ? Hlen Hr]; subst.
  constructor.
  - unfold item_len_ge_2. split; [lia|].
    destruct (0 mod b0 =? 0); [lia|]. split; [cbn [lcp]; lia|left; lia].
  - apply cap_items_len_ge_2; assumption.
Qed.

(* ---------------------------------------------------------------------- *)
(* the cursor of the bookkeeping model = length of the text of the byte-exact model *)
(* ---------------------------------------------------------------------- *)
Lemma cap_cursor_fold chk bs : forall S st R,
  snd (cap_final chk (R, lenN (b_text st)) (cap_items_from bs (b_elems st) (b_prev st) S)) =
  lenN (b_text (fold_left (pfc_step bs) S st)).
Proof.
  induction S as [|s r IH]; intros st R; [reflexivity|].
  cbn [cap_items_from cap_final cap_step fold_left].
  set (R' := cap_grow _ R).
  specialize (IH (pfc_step bs st s) R').
  replace (lenN (b_text st) + cap_top (lenN s, lcp (b_prev st) s, b_elems st mod bs =? 0) + 1)
    with (lenN (b_text (pfc_step bs st s))).
  - replace (b_elems st + 1) with (b_elems (pfc_step bs st s)).
    + replace s with (b_prev (pfc_step bs st s)) at 3; [exact IH|].
      unfold pfc_step. destruct (b_elems st mod bs =? 0); reflexivity.
    + unfold pfc_step. destruct (b_elems st mod bs =? 0); reflexivity.
  - unfold pfc_step, cap_top, vb_len. destruct (b_elems st mod bs =? 0); cbn [b_text];
      rewrite ?lenN_app, ?lenN_cons, ?lenN_skipN; change (@lenN N []) with 0; lia.
Qed.

Theorem cap_cursor_is_text_length chk b0 S : 2 <= b0 ->
  snd (cap_final chk (cap_reserved0 b0, 0) (cap_items b0 S)) = lenN (p_text (pfc_build b0 S)).
Proof.
  intros Hb. unfold pfc_build, cap_items. cbn [p_text].
  replace (clamp_bsize b0) with b0 by (unfold clamp_bsize; destruct (N.ltb_spec b0 2); [lia|reflexivity]).
  exact (cap_cursor_fold chk b0 S b_init (cap_reserved0 b0)).
Qed.

(* ---------------------------------------------------------------------- *)
(* the witness as a real, valid input                                        *)
(* ---------------------------------------------------------------------- *)
Lemma valid_str_b_sound s : valid_str_b s = true -> valid_str s.
Proof.
  unfold valid_str_b, valid_str. rewrite andb_true_iff. intros [H1 H2]. split.
  - destruct s; [discriminate|congruence].
  - apply Forall_forall. intros x Hx. rewrite forallb_forall in H2. specialize (H2 x Hx).
    rewrite andb_true_iff in H2. destruct H2 as [Ha Hb].
    apply N.leb_le in Ha. apply N.leb_le in Hb. unfold valid_byte. lia.
Qed.

Lemma valid_set_b_sound S : valid_set_b S = true -> valid_set S.
Proof.
  unfold valid_set_b, valid_set. rewrite !andb_true_iff. intros [[H1 H2] H3]. repeat split.
  - destruct S; [discriminate|congruence].
  - apply Forall_forall. intros s Hs. rewrite forallb_forall in H2. apply valid_str_b_sound. auto.
  - apply sorted_lt_b_sound. exact H3.
Qed.

(* 13124 strings over 'a'..'z': non-empty, NUL-free, strictly sorted, duplicate-free *)
Lemma cap_witness_valid : valid_set cap_witness_S /\ pfc_input cap_witness_S /\ lenN cap_witness_S = 13124.
Proof.
  split; [apply valid_set_b_sound; vm_compute; reflexivity|].
  split; [apply pfc_input_chk_sound; vm_compute; reflexivity|vm_compute; reflexivity].
Qed.

(* On this input, with the real parameters (MEMALLOC = 32768, bucket size 2, hence a
   65536-byte buffer that never grows), the last iteration -- the 1-byte internal string
   "y" at cursor 65534 -- writes index 65536 of the 65536-byte buffer.  All earlier writes
   are in bounds; the repaired check doubles the buffer in time. *)
Theorem cap_refuted_strings :
  valid_set cap_witness_S /\ pfc_input cap_witness_S /\
  pfc_ctor_in_bounds chk_pinned 2 cap_witness_S = false /\
  last (cap_run chk_pinned (cap_reserved0 2, 0) (cap_items 2 cap_witness_S)) (0, 0) = (65536, 65536) /\
  pfc_ctor_in_bounds chk_pinned 2 (removelast cap_witness_S) = true /\
  snd (cap_final chk_pinned (cap_reserved0 2, 0) (cap_items 2 (removelast cap_witness_S))) = 65534 /\
  last cap_witness_S [] = [121] /\
  pfc_ctor_in_bounds chk_fixed 2 cap_witness_S = true.
Proof.
  destruct cap_witness_valid as (H1 & H2 & _).
  split; [exact H1|]. split; [exact H2|].
  vm_compute. repeat split; reflexivity.
Qed.

(* the property "buffer growth keeps pace with the data for every string-length
   distribution" as a statement about the pinned constructor, and its refutation *)
Definition C07_pfc_capacity_full : Prop :=
  forall b0 S, 2 <= b0 < 131072 -> valid_set S -> pfc_input S -> pfc_ctor_in_bounds chk_pinned b0 S = true.

Theorem C07_pfc_capacity_refuted : ~ C07_pfc_capacity_full.
Proof.
  intros H. destruct cap_refuted_strings as (H1 & H2 & H3 & _).
  rewrite (H 2 cap_witness_S ltac:(lia) H1 H2) in H3. discriminate.
Qed.

(* what does hold for the pinned constructor *)
Theorem C07_pfc_capacity_partial b0 S : 1 <= b0 < 131072 ->
  valid_set S -> Forall (fun s => 2 <= lenN s < 2 ^ 31) S -> pfc_ctor_in_bounds chk_pinned b0 S = true.
Proof. intros Hb (_ & _ & Hs) H. apply cap_ok_pinned_strings; try assumption. apply cap_reserved0_pos. exact Hb. Qed.

(* and for the repaired one: the full statement *)
Theorem C07_pfc_capacity_fixed b0 S : 1 <= b0 < 131072 ->
  pfc_input S -> pfc_ctor_in_bounds chk_fixed b0 S = true.
Proof. intros Hb (_ & _ & _ & H & _). apply cap_ok_fixed_strings; [apply cap_reserved0_pos; exact Hb|exact H]. Qed.
