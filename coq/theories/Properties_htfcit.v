(* HTFC string iterator (IteratorDictStringHTFC as extractTable / extractPrefix of the LOADED StringDictionaryHTFC use it):
   exported theorems.  Only `exact`, Print Assumptions and Examples.  (To be appended to Properties_htfc.v; needs
   `From LibCSD Require Import IterDefs HTFCIterDefs HTFCIterProofs.` in addition to its imports.) *)
From LibCSD Require Import Base Spec SpecProofs PFCDefs PFCLayout PFCExtractProofs CodesDefs HTFCDefs HTFCProofs
  IterDefs HTFCIterDefs HTFCIterProofs.
Local Open Scope N_scope.

(* the boolean checker the harness runs on every real (dumped) object (okit=) is sound: the iterator's own
   decodeHeader / decodeNextString (2 * maxlength + k scratch buffer) walk S, and every bucket's last string ends exactly
   where blStrings says the next bucket starts (the iterator continues from chunk.b_ptr at a bucket change) *)
Theorem C13_htfc_iter_check_sound : forall S d, htfc_iter_check S d = true -> hiter_ok d (h_bsize d) S.
Proof. exact htfc_iter_check_sound. Qed.
Print Assumptions C13_htfc_iter_check_sound.

(* C13: the table scan yields exactly the strings of S, each with its true length, in ID order; hasNext() is false
   exactly after the last one (MORE = false); the model's memory-error outcome is unreachable *)
Theorem C13_htfc_extract_table_spec : forall S d, valid_set S -> htfc_iter_check S d = true ->
  htfc_extract_table d (3 + length S) = Some (Some (map (fun s => (s, lenN s)) S, false)).
Proof. exact htfc_extract_table_spec. Qed.
Print Assumptions C13_htfc_extract_table_spec.

(* C04 / C13: extractPrefix(p) yields exactly the members having prefix p (with their true lengths, in ID order,
   MORE = false), the NULL iterator exactly when there is none; every NUL-free pattern, the empty one included *)
Theorem C04_htfc_extract_prefix_spec : forall S d, valid_set S -> htfc_check S d = true \/ htfc_check2 S d = true ->
  htfc_iter_check S d = true -> forall p, nul_free p -> Forall (fun c => c < 256) p ->
  htfc_extract_prefix d p (3 + length S) =
  Some (match spec_prefix_strs S p with [] => None | l => Some (map (fun s => (s, lenN s)) l, false) end).
Proof. exact htfc_extract_prefix_spec. Qed.
Print Assumptions C04_htfc_extract_prefix_spec.

Theorem C07_htfc_iter_no_oob : forall S d, valid_set S -> htfc_check S d = true \/ htfc_check2 S d = true ->
  htfc_iter_check S d = true ->
  htfc_extract_table d (3 + length S) <> None /\ htfc_extract_table d (3 + length S) <> Some None /\
  forall p, nul_free p -> Forall (fun c => c < 256) p ->
    htfc_extract_prefix d p (3 + length S) <> None /\
    (htfc_extract_prefix d p (3 + length S) = Some None <-> forall s, In s S -> is_prefix p s = false).
Proof. exact htfc_iter_no_oob. Qed.
Print Assumptions C07_htfc_iter_no_oob.

(* the same two theorems from the dictionary's own certificate [htfc_check] plus the cheap checks [htfc_iter_small]
   (oksm=): on htfc_check's own trace the scratch buffer stays within the iterator's 2 * maxlength + k bytes, |s| + 2 < 2^32,
   and every bucket's last string ends exactly at blStrings[next bucket] *)
Theorem C13_htfc_iter_check_of_check : forall S d,
  htfc_check S d = true -> htfc_iter_small S d = true -> htfc_iter_check S d = true.
Proof. exact htfc_iter_check_of_check. Qed.
Print Assumptions C13_htfc_iter_check_of_check.

Theorem C13_htfc_extract_table_spec_small : forall S d, valid_set S -> htfc_check S d = true -> htfc_iter_small S d = true ->
  htfc_extract_table d (3 + length S) = Some (Some (map (fun s => (s, lenN s)) S, false)).
Proof. exact htfc_extract_table_spec_small. Qed.
Print Assumptions C13_htfc_extract_table_spec_small.

Theorem C04_htfc_extract_prefix_spec_small : forall S d, valid_set S -> htfc_check S d = true -> htfc_iter_small S d = true ->
  forall p, nul_free p -> Forall (fun c => c < 256) p ->
  htfc_extract_prefix d p (3 + length S) =
  Some (match spec_prefix_strs S p with [] => None | l => Some (map (fun s => (s, lenN s)) l, false) end).
Proof. exact htfc_extract_prefix_spec_small. Qed.
Print Assumptions C04_htfc_extract_prefix_spec_small.

(* StatCoder::decodeString / decodeNextString does not depend on the capacity of the scratch buffer beyond the bytes it
   actually writes (what makes the dictionary's 4 * maxlength + k certificate usable for the 2 * maxlength + k iterator) *)
Theorem C13_htfc_decode_string_cap : forall d cap b a b' a' sh, decode_string d cap b a = Some (b', a', sh) ->
  lenN (a_buf a) <= lenN (a_buf a') /\
  forall cap', lenN (a_buf a') <= cap' -> cap' < 2 ^ 32 -> decode_string d cap' b a = Some (b', a', sh).
Proof. exact decode_string_cap. Qed.
Print Assumptions C13_htfc_decode_string_cap.

(* the extra hypothesis (htfc_iter_check / htfc_iter_small) cannot be dropped: htfc_check and htfc_check2 certify the
   object below (the real dump with three zero bytes inserted in front of bucket 2, blStrings shifted), extract / locate /
   locatePrefix are right on it, the string iterator is not.  Replayed on the real code: wip/htfcit/replay.py *)
Theorem C13_htfc_iter_check_needed :
  valid_set_b hx_usa_S = true /\ htfc_check hx_usa_S hx_gap_d = true /\ htfc_check2 hx_usa_S hx_gap_d = true /\
  htfc_iter_check hx_usa_S hx_gap_d = false /\ htfc_iter_small hx_usa_S hx_gap_d = false /\
  htfc_extract_table hx_gap_d (3 + length hx_usa_S) = None /\
  spec_prefix_strs hx_usa_S [97] =
    [[97; 108; 97; 98; 97; 109; 97]; [97; 108; 97; 115; 107; 97]; [97; 114; 105; 122; 111; 110; 97]; [97; 114; 107; 97; 110; 115; 97; 115]] /\
  htfc_extract_prefix hx_gap_d [97] (3 + length hx_usa_S) =
    Some (Some ([([97; 108; 97; 98; 97; 109; 97], 7); ([97; 108; 97; 115; 107; 97], 6); ([97; 114; 105; 122; 111; 110; 97], 7); ([], 1)], false)).
Proof. exact htfc_iter_check_needed. Qed.
Print Assumptions C13_htfc_iter_check_needed.

(* the hypotheses are satisfiable: the real dumped object of Properties_htfc.v (8 strings, bucket size 3: three buckets,
   two bucket changes) *)
Example hx_iter_checked : htfc_iter_check hx_usa_S hx_usa_d = true.
Proof. vm_compute. reflexivity. Qed.

Example hx_iter_small_checked : htfc_iter_small hx_usa_S hx_usa_d = true.
Proof. vm_compute. reflexivity. Qed.

Example hx_iter_check_of_check : htfc_iter_check hx_usa_S hx_usa_d = true.
Proof. exact (C13_htfc_iter_check_of_check hx_usa_S hx_usa_d (proj1 hx_usa_checked) hx_iter_small_checked). Qed.

Example hx_extract_table_small :
  htfc_extract_table hx_usa_d 11 = Some (Some (map (fun s => (s, lenN s)) hx_usa_S, false)).
Proof. exact (C13_htfc_extract_table_spec_small hx_usa_S hx_usa_d hx_usa_valid (proj1 hx_usa_checked) hx_iter_small_checked). Qed.

Example hx_extract_prefix_small : htfc_extract_prefix hx_usa_d [100] 11 = Some (Some ([([100; 101; 108; 97; 119; 97; 114; 101], 8)], false)).
Proof.
  change 11%nat with (3 + length hx_usa_S)%nat.
  rewrite (C04_htfc_extract_prefix_spec_small hx_usa_S hx_usa_d hx_usa_valid (proj1 hx_usa_checked) hx_iter_small_checked [100]);
    [reflexivity|repeat constructor; discriminate|repeat constructor].
Qed.

Example hx_decode_string_cap : forall b' a' sh, decode_string hx_usa_d (str_cap hx_usa_d) (fst hx_st1) (snd hx_st1) = Some (b', a', sh) ->
  lenN (a_buf a') <= it_cap hx_usa_d -> decode_string hx_usa_d (it_cap hx_usa_d) (fst hx_st1) (snd hx_st1) = Some (b', a', sh).
Proof. intros b' a' sh H Hc. apply (proj2 (C13_htfc_decode_string_cap _ _ _ _ _ _ _ H)); [exact Hc|apply it_cap_lt]. Qed.

Example hx_iter_sound : hiter_ok hx_usa_d 3 hx_usa_S.
Proof. exact (C13_htfc_iter_check_sound hx_usa_S hx_usa_d hx_iter_checked). Qed.

Example hx_extract_table :
  htfc_extract_table hx_usa_d 11 = Some (Some (map (fun s => (s, lenN s)) hx_usa_S, false)).
Proof. exact (C13_htfc_extract_table_spec hx_usa_S hx_usa_d hx_usa_valid hx_iter_checked). Qed.

Example hx_extract_prefix :
  htfc_extract_prefix hx_usa_d [97] 11 =
    Some (Some ([([97; 108; 97; 98; 97; 109; 97], 7); ([97; 108; 97; 115; 107; 97], 6); ([97; 114; 105; 122; 111; 110; 97], 7);
                 ([97; 114; 107; 97; 110; 115; 97; 115], 8)], false)) /\
  htfc_extract_prefix hx_usa_d [99; 111] 11 =
    Some (Some ([([99; 111; 108; 111; 114; 97; 100; 111], 8); ([99; 111; 110; 110; 101; 99; 116; 105; 99; 117; 116], 11)], false)) /\
  htfc_extract_prefix hx_usa_d [98] 11 = Some None /\
  htfc_extract_prefix hx_usa_d [] 11 = Some (Some (map (fun s => (s, lenN s)) hx_usa_S, false)).
Proof.
  assert (N1 : nul_free [97]) by (repeat constructor; discriminate).
  assert (B1 : Forall (fun c => c < 256) [97]) by (repeat constructor).
  assert (N2 : nul_free [99; 111]) by (repeat constructor; discriminate).
  assert (B2 : Forall (fun c => c < 256) [99; 111]) by (repeat constructor).
  assert (N3 : nul_free [98]) by (repeat constructor; discriminate).
  assert (B3 : Forall (fun c => c < 256) [98]) by (repeat constructor).
  pose proof (C04_htfc_extract_prefix_spec hx_usa_S hx_usa_d hx_usa_valid (or_introl (proj1 hx_usa_checked)) hx_iter_checked) as T.
  change 11%nat with (3 + length hx_usa_S)%nat.
  split; [|split; [|split]].
  - rewrite (T _ N1 B1). reflexivity.
  - rewrite (T _ N2 B2). reflexivity.
  - rewrite (T _ N3 B3). reflexivity.
  - rewrite (T [] (Forall_nil _) (Forall_nil _)). reflexivity.
Qed.

Example hx_iter_no_oob : htfc_extract_table hx_usa_d 11 <> None /\ htfc_extract_prefix hx_usa_d [97] 11 <> None.
Proof.
  destruct (C07_htfc_iter_no_oob hx_usa_S hx_usa_d hx_usa_valid (or_intror (proj1 (proj2 hx_usa_checked))) hx_iter_checked) as (H1 & _ & H3).
  split; [exact H1|]. apply H3; repeat constructor; discriminate.
Qed.

(* the model computes (no theorem involved) *)
Example hx_iter_compute :
  htfc_extract_table hx_usa_d 11 = Some (Some (map (fun s => (s, lenN s)) hx_usa_S, false)) /\
  htfc_extract_table hx_usa_d 5 = Some (Some (map (fun s => (s, lenN s)) (firstn 5 hx_usa_S), true)).
Proof. vm_compute. split; reflexivity. Qed.
