(* C14 — queries are pure.  In the models every query is a Gallina function of the dictionary
   value and the query, so two calls with the same arguments agree whatever happened in
   between; what has content is that these functions ARE the implementation's answers (the
   specification theorems of C01-C05 plus the correspondence run) and that queries which write
   through the caller's pointer restore it.  Stated here: the answers of the concrete PFC model do
   not depend on anything but (S, query), for dictionaries built with ANY bucket size and for any
   reloaded copy. *)
From LibCSD Require Import Base Spec SpecProofs VByteDefs PFCDefs PFCLayout PFCBuildProofs PFCExtractProofs PFCLocateProofs PFCTheorems PFCSaveProofs.
Local Open Scope N_scope.

Theorem C14_pfc_answers_depend_on_set_only : forall S b0 b1 q id, pfc_input S -> nul_free q ->
  pfc_locate (pfc_build b0 S) q = pfc_locate (pfc_build b1 S) q /\
  pfc_extract (pfc_build b0 S) id = pfc_extract (pfc_build b1 S) id.
Proof. intros. split; [apply pfc_param_indep_locate|apply pfc_param_indep_extract]; assumption. Qed.
Print Assumptions C14_pfc_answers_depend_on_set_only.

Theorem C14_pfc_any_copy_answers_alike : forall d1 d2 b1 b2 S q, layout_ok d1 b1 S -> layout_ok d2 b2 S ->
  2 <= b1 -> 2 <= b2 -> pfc_input S -> nul_free q -> pfc_locate d1 q = pfc_locate d2 q.
Proof.
  intros. rewrite (pfc_locate_spec d1 b1 S q), (pfc_locate_spec d2 b2 S q); auto.
Qed.
Print Assumptions C14_pfc_any_copy_answers_alike.

(* the comparison against the caller's pattern never writes: the model's pattern is an immutable
   list; what the C code does read is bounded by the pattern's NUL (a read past it is the
   unreachable outcome None) *)
Theorem C14_pfc_pattern_read_only_within_nul : forall d b S q, layout_ok d b S -> 2 <= b -> pfc_input S -> nul_free q ->
  pfc_locate d q <> None.
Proof. exact pfc_locate_safe. Qed.
Print Assumptions C14_pfc_pattern_read_only_within_nul.
