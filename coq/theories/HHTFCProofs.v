(* StringDictionaryHHTFC (model HHTFCDefs.v: the LOADED object seen through its two coders) answers extract /
   locate / locatePrefix as the specification does, on every object certified by the verified checker
   [hhtfc_check]; the memory-error / fuel results [None] of the model are unreachable.

   The development is the two-table version of HTFCProofs.v: the flat stream view (string number i is a
   bucket header iff i mod b = 0; [St i] = ChunkScan state after string i) with
     header : blStrings[k] points at coderHT->encodeString(h, |h|+1), decodeHeader(k) (tableHT) hands out h
     step   : coderHU->decodeString in state St i hands out string i+1, returns lcp, leaves St (i+1).
   Everything that concerns ONE table is reused from HTFCProofs unchanged (the scratch-buffer lemmas, memcmp on
   the Hu-Tucker encoded headers, the boundary-bucket search, [decode_string_item] for the Huffman table);
   the sections below are the ports of HTFCProofs.Stream / Prefix with [decode_string dU (str_cap dT)]. *)
From LibCSD Require Import Base VByteDefs VByteProofs CodesDefs CodesProofs HTCompareProofs.
From LibCSD Require Import Spec SpecProofs PFCDefs PFCLayout LexLemmas PFCBuildProofs PFCExtractProofs
  PFCLocateProofs PFCTheorems PFCPrefixProofs HTFCDefs HTFCProofs HHTFCDefs.
From Coq Require Import Lia ZifyBool ZifyNat ZifyN.
Ltac Zify.zify_post_hook ::= Z.to_euclidean_division_equations.
Local Open Scope N_scope.

(* ====================================================================== *)
(* C. what the checker certifies                                           *)
(* ====================================================================== *)
(* string number i, whose predecessor is [prev] and was produced in state [pst]; [est] = state after it *)
Definition hhitem_ok (dT dU : htfc) (b i : N) (prev cur : str) (pst est : bst * ast) : Prop :=
  holds (snd est) cur /\
  if i mod b =? 0 then
    exists off enc o rest st0,
      nthN (h_bl dT) (i / b + 1) = Some off /\ pack_string (h_cw dT) (cur ++ [0]) = Some (enc, o) /\
      off <= lenN (h_text dT) /\ skipN off (h_text dT) = enc ++ rest /\
      decode_header dT (i / b + 1) = Some st0 /\ reset_scan dT (i / b + 1) st0 = Some est
  else decode_string dU (str_cap dT) (fst pst) (snd pst) = Some (fst est, snd est, lcp prev cur).

Definition hhstream_ok (dT dU : htfc) (b : N) (S : list str) (St : N -> bst * ast) : Prop :=
  forall i, i < lenN S -> hhitem_ok dT dU b i (snth S (i - 1)) (snth S i) (St (i - 1)) (St i).

Definition hh_ok (dT dU : htfc) (b : N) (S : list str) : Prop :=
  h_bsize dT = b /\ 2 <= b /\ b < 2 ^ 32 /\ h_elements dT = lenN S /\ lenN S < 2 ^ 32 /\
  h_buckets dT = (lenN S + b - 1) / b /\ h_k dT = 16 /\ code_ok (h_cw dT) /\
  Forall (fun x => x < 256) (h_text dT) /\ exists St, hhstream_ok dT dU b S St.

Lemma hhtrace_from_sound dT dU b : forall ss i prev pst tr,
  hhtrace_from dT dU b i prev pst ss = Some tr ->
  length tr = length ss /\
  forall j, (j < length ss)%nat ->
    hhitem_ok dT dU b (i + N.of_nat j) (nth j (prev :: ss) []) (nth j ss []) (nth j (pst :: tr) st0_dummy) (nth j tr st0_dummy).
Proof.
  induction ss as [|s r IH]; intros i prev pst tr H; cbn [hhtrace_from] in H.
  - inversion H; subst. split; [reflexivity|]. intros j Hj. cbn [length] in Hj. lia.
  - assert (Hgen : forall e, hhitem_ok dT dU b i prev s pst e ->
              option_map (cons e) (hhtrace_from dT dU b (i + 1) s e r) = Some tr ->
              length tr = length (s :: r) /\
              forall j, (j < length (s :: r))%nat ->
                hhitem_ok dT dU b (i + N.of_nat j) (nth j (prev :: s :: r) []) (nth j (s :: r) [])
                        (nth j (pst :: tr) st0_dummy) (nth j tr st0_dummy)).
    { intros e He Hm. destruct (hhtrace_from dT dU b (i + 1) s e r) as [tr'|] eqn:Et; [|discriminate].
      cbn [option_map] in Hm. inversion Hm; subst tr. destruct (IH _ _ _ _ Et) as [Hl Hit].
      split; [cbn [length]; lia|]. intros j Hj. destruct j as [|j].
      - cbn [nth]. rewrite N.add_0_r. exact He.
      - cbn [length] in Hj. specialize (Hit j ltac:(lia)).
        replace (i + N.of_nat (Datatypes.S j)) with (i + 1 + N.of_nat j) by lia.
        change (nth (Datatypes.S j) (prev :: s :: r) []) with (nth j (s :: r) []).
        change (nth (Datatypes.S j) (s :: r) []) with (nth j r []).
        change (nth (Datatypes.S j) (pst :: e :: tr') st0_dummy) with (nth j (e :: tr') st0_dummy).
        change (nth (Datatypes.S j) (e :: tr') st0_dummy) with (nth j tr' st0_dummy).
        exact Hit. }
    destruct (i mod b =? 0) eqn:Em.
    + rewrite rdN_nthN in H.
      destruct (nthN (h_bl dT) (i / b + 1)) as [off|] eqn:Eo; [|discriminate].
      destruct (pack_string (h_cw dT) (s ++ [0])) as [[enc o]|] eqn:Ep; [|discriminate].
      destruct (decode_header dT (i / b + 1)) as [st0|] eqn:Eh; [|discriminate].
      destruct (reset_scan dT (i / b + 1) st0) as [st1|] eqn:Er; [|discriminate].
      destruct ((off <=? lenN (h_text dT)) && hprefix_eqb enc (skipN off (h_text dT)) && ast_is (snd st0) s) eqn:Ec;
        [|discriminate].
      apply andb_true_iff in Ec. destruct Ec as [Ec Hast]. apply andb_true_iff in Ec. destruct Ec as [Hle Hpre].
      apply N.leb_le in Hle. destruct (hprefix_eqb_sound _ _ Hpre) as [rest Hrest].
      apply ast_is_sound in Hast.
      refine (Hgen _ _ H). unfold hhitem_ok. rewrite Em. split; [exact (reset_scan_holds _ _ _ _ _ Er Hast)|].
      exists off, enc, o, rest, st0. repeat split; assumption.
    + destruct (decode_string dU (str_cap dT) (fst pst) (snd pst)) as [[[b' a'] shared]|] eqn:Ed; [|discriminate].
      destruct ((shared =? lcp prev s) && ast_is a' s) eqn:Ec; [|discriminate].
      apply andb_true_iff in Ec. destruct Ec as [Hsh Hast]. apply N.eqb_eq in Hsh. subst shared.
      apply ast_is_sound in Hast.
      refine (Hgen _ _ H). unfold hhitem_ok. rewrite Em. cbn [fst snd]. split; [exact Hast|exact Ed].
Qed.

Lemma hhitem_ok_first dT dU b prev prev' cur pst pst' e :
  hhitem_ok dT dU b 0 prev cur pst e -> hhitem_ok dT dU b 0 prev' cur pst' e.
Proof.
  unfold hhitem_ok. assert (E0 : 0 mod b = 0) by (destruct b; reflexivity).
  rewrite E0. cbn [N.eqb]. auto.
Qed.

Theorem hh_check_sound S dT dU : hh_check S dT dU = true -> hh_ok dT dU (h_bsize dT) S.
Proof.
  unfold hh_check. intros H.
  repeat (apply andb_true_iff in H; let H' := fresh "C" in destruct H as [H H']).
  destruct (hhtrace_from dT dU (h_bsize dT) 0 [] st0_dummy S) as [tr|] eqn:Et; [|discriminate].
  apply N.leb_le in H. apply N.ltb_lt in C6, C4. apply N.eqb_eq in C5, C3, C2.
  unfold code_chk in C1.
  repeat (apply andb_true_iff in C1; let H' := fresh "K" in destruct C1 as [C1 H']).
  apply N.eqb_eq in C1.
  split; [reflexivity|]. split; [exact H|]. split; [exact C6|]. split; [exact C5|]. split; [exact C4|].
  split; [exact C3|]. split; [exact C2|].
  split.
  { split; [exact C1|]. split; [exact K2|]. split; [exact K1|]. split; [exact K0|].
    apply Forall_forall. intros c Hc. rewrite forallb_forall in K. specialize (K c Hc). apply N.ltb_lt in K. exact K. }
  split.
  { apply Forall_forall. intros x Hx. rewrite forallb_forall in C0. specialize (C0 x Hx). apply N.ltb_lt in C0. exact C0. }
  destruct (hhtrace_from_sound _ _ _ _ _ _ _ _ Et) as [Hl Hit].
  exists (fun k => nth (N.to_nat k) tr st0_dummy). intros i Hi.
  specialize (Hit (N.to_nat i) ltac:(unfold lenN in Hi; lia)).
  rewrite N.add_0_l, N2Nat.id in Hit. fold (snth S i) in Hit.
  destruct (N.eq_dec i 0) as [->|Hne].
  - eapply hhitem_ok_first. exact Hit.
  - replace (N.to_nat i) with (Datatypes.S (N.to_nat (i - 1))) in Hit at 1 2 by lia.
    cbn [nth] in Hit. exact Hit.
Qed.

(* ====================================================================== *)
(* E. the flat stream view of a certified object                           *)
(* ====================================================================== *)
Section Stream2.
  Variables (dT dU : htfc) (b : N) (S : list str) (St : N -> bst * ast).
  Hypothesis Hbs : h_bsize dT = b.
  Hypothesis Hb2 : 2 <= b.
  Hypothesis Hb32 : b < 2 ^ 32.
  Hypothesis Hel : h_elements dT = lenN S.
  Hypothesis Hn32 : lenN S < 2 ^ 32.
  Hypothesis Hbk : h_buckets dT = (lenN S + b - 1) / b.
  Hypothesis Hcode : code_ok (h_cw dT).
  Hypothesis Htext : Forall (fun x => x < 256) (h_text dT).
  Hypothesis HSt : hhstream_ok dT dU b S St.
  Hypothesis Hnf : Forall nul_free S.
  Hypothesis Hsort : sorted_lt S.
  Hypothesis Hne : S <> [].

  Lemma hs_nul_free2 i : i < lenN S -> nul_free (snth S i).
  Proof. intros H. pose proof Hnf as F. rewrite Forall_forall in F. apply F, snth_In, H. Qed.

  Lemma hs_holds2 i : i < lenN S -> holds (snd (St i)) (snth S i).
  Proof. intros H. destruct (HSt i H) as [Hh _]. exact Hh. Qed.

  Lemma hbuckets_iff2 k : 1 <= k -> (k <= h_buckets dT <-> (k - 1) * b < lenN S).
  Proof. intros Hk. rewrite Hbk. apply hbuckets_div; [lia|assumption]. Qed.

  Lemma hbuckets_pos2 : 1 <= h_buckets dT.
  Proof.
    apply (hbuckets_iff2 1); [lia|]. pose proof Hne. destruct S; [congruence|]. rewrite lenN_cons. lia.
  Qed.

  (* one decodeString call moves from string i to string i+1 *)
  Lemma hstream_dstep2 i : i + 1 < lenN S -> (i + 1) mod b <> 0 ->
    decode_string dU (str_cap dT) (fst (St i)) (snd (St i)) =
    Some (fst (St (i + 1)), snd (St (i + 1)), lcp (snth S i) (snth S (i + 1))).
  Proof.
    intros Hi Hm. destruct (HSt (i + 1) Hi) as [_ Hit].
    destruct (N.eqb_spec ((i + 1) mod b) 0) as [|_]; [contradiction|].
    rewrite N.add_sub in Hit. exact Hit.
  Qed.

  Lemma hstream_dstep2' i : i + 1 < lenN S -> (i + 1) mod b <> 0 -> dstep2 dU (str_cap dT) (St i) = Some (St (i + 1)).
  Proof.
    intros Hi Hm. unfold dstep2. rewrite (hstream_dstep2 i Hi Hm). destruct (St (i + 1)); reflexivity.
  Qed.

  (* the header of bucket k *)
  Lemma hstream_header2 k : 1 <= k -> k <= h_buckets dT ->
    exists off enc o rest st0, (k - 1) * b < lenN S /\
      nthN (h_bl dT) k = Some off /\ pack_string (h_cw dT) (snth S ((k - 1) * b) ++ [0]) = Some (enc, o) /\
      off <= lenN (h_text dT) /\ skipN off (h_text dT) = enc ++ rest /\
      decode_header dT k = Some st0 /\ reset_scan dT k st0 = Some (St ((k - 1) * b)) /\
      holds (snd st0) (snth S ((k - 1) * b)).
  Proof.
    intros Hk1 Hk2. pose proof (proj1 (hbuckets_iff2 k Hk1) Hk2) as Hlt.
    destruct (HSt _ Hlt) as [Hh Hit].
    rewrite (bucket_base_mod k b ltac:(lia)) in Hit. cbn [N.eqb] in Hit.
    rewrite N.div_mul in Hit by lia. replace (k - 1 + 1) with k in Hit by lia.
    destruct Hit as (off & enc & o & rest & st0 & E1 & E2 & E3 & E4 & E5 & E6).
    exists off, enc, o, rest, st0. repeat split; try assumption.
    - unfold reset_scan in E6. destruct st0 as [b0 a0]. destruct (rdN (h_bl dT) (k + 1)); [|discriminate].
      inversion E6 as [E7]. rewrite <- E7 in Hh. cbn [snd a_len a_buf] in *. destruct Hh as [H1 _]. exact H1.
    - destruct Hh as [_ [H2 _]]. exact H2.
    - unfold reset_scan in E6. destruct st0 as [b0 a0]. destruct (rdN (h_bl dT) (k + 1)); [|discriminate].
      inversion E6 as [E7]. rewrite <- E7 in Hh. cbn [snd a_len a_buf] in *. destruct Hh as [_ [_ H3]]. exact H3.
  Qed.

  Let H (k : N) : str := snth S ((k - 1) * b).

  (* the memcmp of locateBucket against the header of bucket k *)
  Lemma hdr_memcmp_stream2 k q bq oq : 1 <= k -> k <= h_buckets dT -> nul_free q ->
    pack_string (h_cw dT) (q ++ [0]) = Some (bq, oq) ->
    hdr_memcmp dT k bq = Some (lex_compare (H k) q).
  Proof.
    intros Hk1 Hk2 Hq Pq.
    destruct (hstream_header2 k Hk1 Hk2) as (off & enc & o & rest & st0 & Hlt & Ebl & Ep & Hle & Hs & _).
    destruct Hcode as (_ & CP & CA & CL & _).
    unfold hdr_memcmp. rewrite rdN_nthN, Ebl. destruct (N.leb_spec off (lenN (h_text dT))); [|lia].
    rewrite Hs. apply (memcmp_avail_header (h_cw dT) (H k) q enc o bq oq rest); auto.
    - apply hs_nul_free2. exact Hlt.
    - assert (F : Forall (fun x => x < 256) (skipN off (h_text dT))).
      { unfold skipN. apply Forall_forall. intros x Hx. rewrite Forall_forall in Htext. apply Htext.
        rewrite <- (firstn_skipn (N.to_nat off)). apply in_or_app. right. exact Hx. }
      rewrite Hs in F. apply Forall_app in F. apply F.
  Qed.

  (* everything the scans need to know about bucket k, with the multiplication hidden:
     the bucket holds the strings number base .. Eb-1 *)
  Lemma hbucket_facts2 k : 1 <= k -> k <= h_buckets dT ->
    exists base Eb st0, base = (k - 1) * b /\ base mod b = 0 /\ base < Eb /\ Eb <= base + b /\ Eb <= lenN S /\
      hscanneable dT k = Eb - base /\
      decode_header dT k = Some st0 /\ reset_scan dT k st0 = Some (St base) /\ holds (snd st0) (snth S base) /\
      (Eb < lenN S -> Eb = base + b /\ k + 1 <= h_buckets dT) /\
      (k < h_buckets dT -> Eb = base + b /\ Eb < lenN S).
  Proof.
    intros Hk1 Hk2. pose proof (proj1 (hbuckets_iff2 k Hk1) Hk2) as Hlt.
    pose proof (hbuckets_iff2 (k + 1) ltac:(lia)) as Hnext. rewrite N.add_sub in Hnext.
    pose proof (mul_pred_succ k b Hk1) as Ekb.
    pose proof (bucket_base_mod k b ltac:(lia)) as Hmod.
    destruct (hstream_header2 k Hk1 Hk2) as (off & enc & o & rest & st0 & _ & _ & _ & _ & _ & Edh & Ers & Hh0).
    assert (Hb0 : b <> 0) by lia.
    pose proof (N.div_mod (lenN S) b Hb0) as Hdm. pose proof (N.mod_lt (lenN S) b Hb0) as Hml.
    assert (Hlast : k = h_buckets dT -> lenN S - (k - 1) * b = (if lenN S mod b =? 0 then b else lenN S mod b)).
    { intros ->. pose proof (hbuckets_iff2 (h_buckets dT + 1) ltac:(lia)) as Hn2. rewrite N.add_sub in Hn2.
      assert (Hnot : ~ h_buckets dT * b < lenN S) by (intros Hc; apply Hn2 in Hc; lia).
      clear Hn2 Hnext Edh Ers Hh0.
      assert (Hdiv : (h_buckets dT - 1) * b mod b = 0) by exact Hmod.
      pose proof (N.div_mod ((h_buckets dT - 1) * b) b Hb0) as Hd2. rewrite Hdiv, N.div_mul in Hd2 by lia.
      set (base := (h_buckets dT - 1) * b) in *.
      assert (Hx : lenN S - base <= b) by lia.
      destruct (N.eqb_spec (lenN S mod b) 0) as [E0|E0].
      - assert (Hm2 : (lenN S - base) mod b = 0).
        { replace (lenN S) with (base + (lenN S - base)) in E0 by lia.
          rewrite N.add_mod, Hmod, N.add_0_l, N.mod_mod in E0 by lia. exact E0. }
        destruct (N.eq_dec (lenN S - base) b) as [|Hneq]; [assumption|].
        rewrite N.mod_small in Hm2 by lia. lia.
      - destruct (N.eq_dec (lenN S - base) b) as [Heq|Hneq].
        + exfalso. apply E0. replace (lenN S) with (base + b) by lia.
          rewrite N.add_mod, Hmod, N.mod_same, N.add_0_l by lia. apply N.mod_0_l. lia.
        + replace (lenN S) with (base + (lenN S - base)) at 2 by lia.
          rewrite N.add_mod, Hmod, N.add_0_l, N.mod_mod by lia. symmetry. apply N.mod_small. lia. }
    unfold hscanneable. rewrite Hbs, Hel.
    revert Hlt Hnext Ekb Hmod Edh Ers Hh0 Hlast. generalize ((k - 1) * b).
    intros base Hlt Hnext Ekb Hmod Edh Ers Hh0 Hlast.
    exists base, (base + N.min b (lenN S - base)), st0.
    split; [reflexivity|]. split; [exact Hmod|]. split; [lia|]. split; [lia|]. split; [lia|].
    split.
    { destruct (N.eqb_spec k (h_buckets dT)) as [Ek|Ek].
      - specialize (Hlast Ek). cbn [andb]. destruct (N.eqb_spec (lenN S mod b) 0); cbn [negb]; lia.
      - cbn [andb]. assert (k * b < lenN S) by (apply Hnext; lia). lia. }
    split; [exact Edh|]. split; [exact Ers|]. split; [exact Hh0|]. split.
    - intros Hx. assert (k * b < lenN S) by lia. split; [lia|]. apply Hnext. assumption.
    - intros Hx. assert (k * b < lenN S) by (apply Hnext; lia). lia.
  Qed.

  (* ---------------------------------------------------------------- *)
  (* extract                                                           *)
  (* ---------------------------------------------------------------- *)
  Lemma hin_bucket_mod2 base i : base mod b = 0 -> base <= i -> i + 1 < base + b -> (i + 1) mod b <> 0.
  Proof.
    intros H0 H1 H2. replace (i + 1) with (base + (i + 1 - base)) by lia.
    rewrite mod_of_zero_plus by (auto; lia). lia.
  Qed.

  Lemma hiter_dstep2 base : base mod b = 0 -> forall j, j < b -> base + j < lenN S ->
    N.iter j (fun o => opt_bind o (dstep2 dU (str_cap dT))) (Some (St base)) = Some (St (base + j)).
  Proof.
    intros H0 j. induction j as [|j IH] using N.peano_ind; intros Hj Hn.
    - rewrite N.add_0_r. reflexivity.
    - rewrite N.iter_succ, IH by lia. cbn [opt_bind].
      replace (base + N.succ j) with (base + j + 1) by lia.
      apply hstream_dstep2'; [lia|]. apply (hin_bucket_mod2 base); [exact H0|lia|lia].
  Qed.

  Lemma holds_result2 a s : holds a s -> nul_free s ->
    take0 (a_buf a) = Some s /\ wsub32 (a_len a) 1 = lenN s.
  Proof.
    intros (Hl & Hlt & r & Hb) Hn. split.
    - rewrite Hb. apply take0_spec. exact Hn.
    - rewrite Hl. unfold wsub32. change (1 mod 2 ^ 32) with 1.
      replace (lenN s + 1 + 2 ^ 32 - 1) with (lenN s + 1 * 2 ^ 32) by lia.
      rewrite N.mod_add by lia. apply N.mod_small. lia.
  Qed.

  Theorem htfc_extract_stream2 id : hh_extract dT dU id = Some (spec_extract S id).
  Proof.
    unfold hh_extract, hh_extract_raw, spec_extract. rewrite Hel, Hbs.
    destruct (N.ltb_spec 0 id) as [Hid|Hid]; cbn [andb].
    2:{ assert (id = 0) by lia. subst id. reflexivity. }
    destruct (N.eqb_spec id 0) as [|_]; [lia|].
    destruct (N.leb_spec id (lenN S)) as [Hle|Hgt].
    2:{ f_equal. symmetry. unfold nthN. apply nth_error_None. unfold lenN in Hgt. lia. }
    assert (Hb0 : b <> 0) by lia. pose proof Hn32 as H32.
    pose proof (N.div_mod (id - 1) b Hb0) as Hdm. pose proof (N.mod_lt (id - 1) b Hb0) as Hml.
    assert (Hq : (id - 1) / b <= id - 1).
    { apply N.div_le_upper_bound; [lia|]. rewrite <- (N.mul_1_l (id - 1)) at 1. apply N.mul_le_mono_r. lia. }
    pose proof (N.mod_le (id - 1) b Hb0) as Hmle.
    rewrite !W32m_small by lia.
    set (k := 1 + (id - 1) / b).
    assert (Hbase : (k - 1) * b = id - 1 - (id - 1) mod b).
    { unfold k. replace (1 + (id - 1) / b - 1) with ((id - 1) / b) by lia.
      rewrite (N.mul_comm _ b). revert Hdm. generalize (b * ((id - 1) / b)). intros; lia. }
    assert (Hk1 : 1 <= k) by (unfold k; lia).
    clearbody k.
    assert (Hk2 : k <= h_buckets dT) by (apply hbuckets_iff2; [exact Hk1|rewrite Hbase; lia]).
    destruct (hbucket_facts2 k Hk1 Hk2) as (base & Eb & st0 & Ebase & Hmod0 & _ & _ & _ & _ & Edh & Ers & Hh0 & _).
    rewrite Edh. rewrite <- Ebase in Hbase. clear Hdm Hq.
    set (m := (id - 1) mod b) in *. clearbody m.
    assert (Hres : forall a, holds a (snth S (id - 1)) ->
              match take0 (a_buf a) with
              | Some s => Some (Some (s, wsub32 (a_len a) 1))
              | None => None
              end = Some (Some (snth S (id - 1), lenN (snth S (id - 1))))).
    { intros a Ha. destruct (holds_result2 a _ Ha (hs_nul_free2 (id - 1) ltac:(lia))) as [-> ->]. reflexivity. }
    destruct (N.ltb_spec 0 m) as [Hpos|Hpos].
    - rewrite Ers, (hiter_dstep2 base Hmod0 _ Hml ltac:(lia)).
      replace (base + m) with (id - 1) by lia.
      destruct (St (id - 1)) as [bb aa] eqn:Est.
      pose proof (hs_holds2 (id - 1) ltac:(lia)) as Hh. rewrite Est in Hh. cbn [snd] in Hh.
      rewrite (Hres aa Hh), N.eqb_refl. rewrite (nthN_snth S (id - 1)) by lia. reflexivity.
    - assert (Eid : id - 1 = base) by lia. destruct st0 as [bb aa]. cbn [snd] in Hh0. rewrite <- Eid in Hh0.
      rewrite (Hres aa Hh0), N.eqb_refl. rewrite (nthN_snth S (id - 1)) by lia. reflexivity.
  Qed.

  (* ---------------------------------------------------------------- *)
  (* locateBucket and locate                                           *)
  (* ---------------------------------------------------------------- *)
  Lemma H_lt2 j j' : 1 <= j -> j < j' -> j' <= h_buckets dT -> lex_lt (H j) (H j').
  Proof.
    intros H1 H2 H3. unfold H. apply snth_lt; [exact Hsort| |apply hbuckets_iff2; lia].
    apply N.mul_lt_mono_pos_r; lia.
  Qed.

  Definition hbucket_post2 (q : str) (found : bool) (k : N) : Prop :=
    k <= h_buckets dT /\
    if found then 1 <= k /\ H k = q
    else (forall j, 1 <= j -> j <= k -> lex_lt (H j) q) /\
         (forall j, k < j -> j <= h_buckets dT -> lex_lt q (H j)).

  Lemma hlocate_bucket_loop_spec2 q bq oq : nul_free q -> pack_string (h_cw dT) (q ++ [0]) = Some (bq, oq) ->
    forall fuel l r center cmp,
    1 <= l -> r <= h_buckets dT -> l <= r + 1 ->
    (N.to_nat (r + 1 - l) < fuel)%nat ->
    (forall j, 1 <= j -> j < l -> lex_lt (H j) q) ->
    (forall j, r < j -> j <= h_buckets dT -> lex_lt q (H j)) ->
    (r < l -> match cmp with Lt => center | _ => center - 1 end = r) ->
    exists found k, hlocate_bucket_loop fuel dT bq l r center cmp = Some (found, k) /\
                    hbucket_post2 q found k.
  Proof.
    intros Hnq Pq. induction fuel as [|f IH]; intros l r center cmp Hl Hr Hlr Hfuel Hlo Hhi Hexit; [lia|].
    cbn [hlocate_bucket_loop]. destruct (N.leb_spec l r) as [Hle|Hgt].
    - set (c := (l + r) / 2).
      assert (Hc : l <= c <= r) by (unfold c; lia).
      rewrite (hdr_memcmp_stream2 c q bq oq ltac:(lia) ltac:(lia) Hnq Pq).
      destruct (lex_compare (H c) q) eqn:Ecmp.
      + exists true, c. split; [reflexivity|]. split; [lia|]. split; [lia|].
        apply lex_compare_eq in Ecmp. exact Ecmp.
      + apply IH; try lia.
        * intros j Hj1 Hj2. destruct (N.eq_dec j c) as [->|Hjc]; [exact Ecmp|].
          apply (lex_lt_trans _ (H c)); [|exact Ecmp]. apply H_lt2; lia.
        * intros j Hj1 Hj2. apply Hhi; lia.
      + apply lex_gt_lt in Ecmp. apply IH; try lia.
        * intros j Hj1 Hj2. apply Hlo; lia.
        * intros j Hj1 Hj2. destruct (N.eq_dec j c) as [->|Hjc]; [exact Ecmp|].
          apply (lex_lt_trans _ (H c)); [exact Ecmp|]. apply H_lt2; lia.
    - exists false, r. split; [rewrite (Hexit Hgt); reflexivity|].
      split; [exact Hr|]. split.
      + intros j Hj1 Hj2. apply Hlo; lia.
      + intros j Hj1 Hj2. apply Hhi; lia.
  Qed.

  Lemma hlocate_bucket_spec2 q bq oq : nul_free q -> pack_string (h_cw dT) (q ++ [0]) = Some (bq, oq) ->
    exists found k, hlocate_bucket dT bq = Some (found, k) /\ hbucket_post2 q found k.
  Proof.
    intros Hnq Pq. unfold hlocate_bucket.
    apply (hlocate_bucket_loop_spec2 q bq oq Hnq Pq); try lia.
  Qed.

  Lemma hlocate_cert_none2 q : (forall j, j < lenN S -> snth S j <> q) -> spec_locate S q = 0.
  Proof.
    intros Hall. apply spec_locate_absent. intros Hin'.
    destruct (In_nth _ _ [] Hin') as (j & Hj & Ej).
    apply (Hall (N.of_nat j)).
    { unfold lenN, N.lt. rewrite <- Nat2N.inj_compare. apply Nat.compare_lt_iff. exact Hj. }
    unfold snth. rewrite Nat2N.id. exact Ej.
  Qed.

  Lemma hlocate_cert_some2 q j : j < lenN S -> snth S j = q -> spec_locate S q = j + 1.
  Proof.
    intros Hj Ej. unfold spec_locate.
    rewrite (nth_index_from S 1 j q ltac:(lia) (sorted_NoDup _ Hsort)); [lia|].
    rewrite <- Ej. apply nthN_snth. exact Hj.
  Qed.

  Lemma hs_lt2 i j : i < j -> j < lenN S -> lex_lt (snth S i) (snth S j).
  Proof. intros. apply snth_lt; [exact Hsort|assumption|assumption]. Qed.

  Lemma hlt_neq2 a c : lex_lt a c -> a <> c.
  Proof. intros Hlt ->. exact (lex_lt_irrefl _ Hlt). Qed.

  (* the comparison of locate on the state after string i *)
  Lemma hcmp_stream2 i q sh : i < lenN S -> nul_free q -> sh <= lcp (snth S i) q ->
    exists z m, hcmp_from (snd (St i)) q sh 1 = Some (z, m) /\ cmp_agrees (snth S i) q 0 z m.
  Proof.
    intros Hi Hnq Hs. pose proof (lcp_le_l (snth S i) q).
    rewrite (hcmp_from_cmp_from _ (snth S i) q sh 1 (hs_holds2 i Hi)) by lia.
    apply cmp_from_spec; [apply hs_nul_free2; exact Hi|exact Hnq|exact Hs].
  Qed.

  (* the for-loop of locate, entered after string i of the bucket (decoded, different from q) *)
  Lemma hscan_spec2 q k base Eb : nul_free q -> base = (k - 1) * b -> base mod b = 0 ->
    Eb <= base + b -> Eb <= lenN S ->
    (Eb < lenN S -> lex_lt q (snth S Eb)) ->
    forall (n : nat) i fuel,
    base <= i -> i < Eb -> N.to_nat (Eb - 1 - i) = n -> (n < fuel)%nat ->
    snth S i <> q ->
    exists r, hhscan_loop fuel dU (str_cap dT) (h_bsize dT) q k (Eb - base) (i - base + 1) (fst (St i)) (snd (St i)) (lcp (snth S i) q) = Some r /\
      ((r = 0 /\ forall j, i < j -> j < lenN S -> snth S j <> q) \/
       (exists j, i < j /\ j < Eb /\ snth S j = q /\ r = j + 1)).
  Proof.
    intros Hnq Ebase Hmod HE1 HE2 Hafter.
    assert (Habove : forall i, i < lenN S -> lex_lt q (snth S i) -> forall j, i < j -> j < lenN S -> snth S j <> q).
    { intros i Hi Hq j Hj1 Hj2 Ej. pose proof (hs_lt2 i j Hj1 Hj2) as Hlt. rewrite Ej in Hlt.
      exact (lex_lt_asym _ _ Hq Hlt). }
    induction n as [|n IH]; intros i fuel Hi1 Hi2 Hn Hf Hneq;
      (destruct fuel as [|f]; [lia|]); cbn [hhscan_loop].
    - destruct (N.ltb_spec (i - base + 1) (Eb - base)); [lia|].
      exists 0. split; [reflexivity|]. left. split; [reflexivity|].
      intros j Hj1 Hj2. assert (Eb < lenN S) by lia. destruct (N.eq_dec j Eb) as [->|Hne'].
      + apply not_eq_sym, hlt_neq2, Hafter. assumption.
      + apply (Habove Eb); [assumption|apply Hafter; assumption|lia|assumption].
    - destruct (N.ltb_spec (i - base + 1) (Eb - base)); [|lia].
      assert (Hi3 : i + 1 < Eb) by lia.
      rewrite (hstream_dstep2 i ltac:(lia) (hin_bucket_mod2 base i Hmod Hi1 ltac:(lia))).
      assert (Hii : lex_lt (snth S i) (snth S (i + 1))) by (apply hs_lt2; lia).
      destruct (N.ltb_spec (lcp (snth S i) (snth S (i + 1))) (lcp (snth S i) q)) as [Hsh|Hsh].
      + exists 0. split; [reflexivity|]. left. split; [reflexivity|].
        assert (Hq1 : lex_lt q (snth S (i + 1))).
        { destruct (lex_total (snth S i) q) as [Hlt|[Heq|Hgt]]; [|contradiction|].
          - apply (scan_trick_lt (snth S i)); assumption.
          - apply (lex_lt_trans _ (snth S i)); assumption. }
        intros j Hj1 Hj2. destruct (N.eq_dec j (i + 1)) as [->|Hne'].
        * apply not_eq_sym, hlt_neq2. exact Hq1.
        * apply (Habove (i + 1)); [lia|exact Hq1|lia|assumption].
      + assert (Hs : lcp (snth S i) q <= lcp (snth S (i + 1)) q).
        { pose proof (lcp_min (snth S i) (snth S (i + 1)) q). lia. }
        destruct (hcmp_stream2 (i + 1) q _ ltac:(lia) Hnq Hs) as (z & m & Ec & Hag).
        rewrite Ec. unfold cmp_agrees in Hag.
        destruct (lex_compare (snth S (i + 1)) q) eqn:Ecmp.
        * subst z. cbn [Z.eqb]. eexists. split; [reflexivity|]. right. exists (i + 1).
          apply lex_compare_eq in Ecmp. split; [lia|]. split; [lia|]. split; [exact Ecmp|].
          rewrite Hbs, <- Ebase. lia.
        * destruct Hag as [Hz ->]. destruct (Z.eqb_spec z 0); [lia|]. destruct (Z.ltb_spec 0 z); [lia|].
          rewrite N.add_0_l.
          assert (Hne1 : snth S (i + 1) <> q) by (apply hlt_neq2; exact Ecmp).
          destruct (IH (i + 1) f ltac:(lia) Hi3 ltac:(lia) ltac:(lia) Hne1) as (r & Er & Hr).
          replace (i + 1 - base + 1) with (i - base + 1 + 1) in Er by lia. rewrite Er.
          exists r. split; [reflexivity|]. destruct Hr as [[-> Hr]|(j & Hj1 & Hj2 & Hj3 & Hj4)].
          -- left. split; [reflexivity|]. intros j Hj1 Hj2. destruct (N.eq_dec j (i + 1)) as [->|Hne'];
               [exact Hne1|apply Hr; lia].
          -- right. exists j. repeat split; auto. lia.
        * destruct Hag as [Hz _]. destruct (Z.eqb_spec z 0); [lia|]. destruct (Z.ltb_spec 0 z); [|lia].
          exists 0. split; [reflexivity|]. left. split; [reflexivity|].
          apply lex_gt_lt in Ecmp.
          intros j Hj1 Hj2. destruct (N.eq_dec j (i + 1)) as [->|Hne'].
          -- apply not_eq_sym, hlt_neq2. exact Ecmp.
          -- apply (Habove (i + 1)); [lia|exact Ecmp|lia|assumption].
  Qed.

  Theorem htfc_locate_stream2 q : nul_free q -> Forall (fun c => c < 256) q ->
    hh_locate dT dU q = Some (spec_locate S q).
  Proof.
    intros Hnq Hq256. unfold hh_locate.
    destruct (encode_string_pack dT (q ++ [0]) Hcode) as (bq & oq & Ees & Pq).
    { apply Forall_app. split; [exact Hq256|]. constructor; [lia|constructor]. }
    rewrite Ees.
    destruct (hlocate_bucket_spec2 q bq oq Hnq Pq) as (found & k & Elb & Hk & Hpost). rewrite Elb.
    destruct found.
    - destruct Hpost as [Hk1 Hq]. rewrite Hbs. f_equal. symmetry.
      apply hlocate_cert_some2; [apply hbuckets_iff2; assumption|exact Hq].
    - destruct Hpost as [Hlo Hhi].
      destruct (N.eqb_spec k 0) as [->|Hk0].
      + f_equal. symmetry. apply hlocate_cert_none2. intros j Hj.
        pose proof (Hhi 1 ltac:(lia) hbuckets_pos2) as H1. unfold H in H1.
        replace ((1 - 1) * b) with 0 in H1 by lia.
        destruct (N.eq_dec j 0) as [->|Hj0]; [apply not_eq_sym, hlt_neq2; exact H1|].
        apply not_eq_sym, hlt_neq2. apply (lex_lt_trans _ (snth S 0)); [exact H1|apply hs_lt2; lia].
      + destruct (hbucket_facts2 k ltac:(lia) Hk)
          as (base & Eb & st0 & Ebase & Hmod & HbE & HE1 & HE2 & Esc & Edh & Ers & _ & Hnext & _).
        rewrite Edh. cbn [opt_bind]. rewrite Ers, Esc.
        destruct (St base) as [bb0 aa0] eqn:Est0.
        pose proof (Hlo k ltac:(lia) ltac:(lia)) as Hhk. unfold H in Hhk. rewrite <- Ebase in Hhk.
        assert (Hafter : Eb < lenN S -> lex_lt q (snth S Eb)).
        { intros Hlt. destruct (Hnext Hlt) as [EE Hk1]. pose proof (Hhi (k + 1) ltac:(lia) Hk1) as H2.
          unfold H in H2. rewrite N.add_sub in H2. rewrite (mul_pred_succ k b ltac:(lia)), <- Ebase, <- EE in H2.
          exact H2. }
        assert (Hbelow : forall j, j <= base -> snth S j <> q).
        { intros j Hj. apply hlt_neq2. destruct (N.eq_dec j base) as [->|Hne']; [exact Hhk|].
          apply (lex_lt_trans _ (snth S base)); [apply hs_lt2; lia|exact Hhk]. }
        assert (Habove : forall j, Eb <= j -> j < lenN S -> snth S j <> q).
        { intros j Hj1 Hj2. apply not_eq_sym, hlt_neq2. pose proof (Hafter ltac:(lia)) as Hq.
          destruct (N.eq_dec j Eb) as [->|Hne']; [exact Hq|].
          apply (lex_lt_trans _ (snth S Eb)); [exact Hq|apply hs_lt2; lia]. }
        destruct (N.ltb_spec 1 (Eb - base)) as [Hsc|Hsc].
        * assert (Hm1 : (base + 1) mod b <> 0) by (apply (hin_bucket_mod2 base base Hmod); lia).
          pose proof (hstream_dstep2 base ltac:(lia) Hm1) as Eds. rewrite Est0 in Eds. cbn [fst snd] in Eds.
          rewrite Eds.
          destruct (hcmp_stream2 (base + 1) q 0 ltac:(lia) Hnq ltac:(lia)) as (z & m & Ec & Hag).
          rewrite Ec. unfold cmp_agrees in Hag.
          destruct (lex_compare (snth S (base + 1)) q) eqn:Ecmp.
          -- subst z. cbn [Z.eqb]. rewrite Hbs, <- Ebase. f_equal. symmetry.
             apply lex_compare_eq in Ecmp. rewrite (hlocate_cert_some2 q (base + 1)); [lia|lia|exact Ecmp].
          -- destruct Hag as [Hz ->]. destruct (Z.eqb_spec z 0); [lia|]. rewrite N.add_0_l.
             assert (Hne1 : snth S (base + 1) <> q) by (apply hlt_neq2; exact Ecmp).
             destruct (hscan_spec2 q k base Eb Hnq Ebase Hmod HE1 HE2 Hafter
                         (N.to_nat (Eb - 1 - (base + 1))) (base + 1) (N.to_nat (Eb - base))
                         ltac:(lia) ltac:(lia) eq_refl ltac:(lia) Hne1) as (r & Er & Hr).
             replace (base + 1 - base + 1) with 2 in Er by lia. rewrite Er. f_equal.
             destruct Hr as [[-> Hr]|(j & Hj1 & Hj2 & Hj3 & ->)].
             ++ symmetry. apply hlocate_cert_none2. intros j Hj.
                destruct (N.le_gt_cases j base); [apply Hbelow; assumption|].
                destruct (N.eq_dec j (base + 1)) as [->|]; [exact Hne1|apply Hr; lia].
             ++ symmetry. apply hlocate_cert_some2; [lia|exact Hj3].
          -- destruct Hag as [Hz ->]. destruct (Z.eqb_spec z 0); [lia|]. rewrite N.add_0_l.
             apply lex_gt_lt in Ecmp.
             assert (Hne1 : snth S (base + 1) <> q) by (apply not_eq_sym, hlt_neq2; exact Ecmp).
             destruct (hscan_spec2 q k base Eb Hnq Ebase Hmod HE1 HE2 Hafter
                         (N.to_nat (Eb - 1 - (base + 1))) (base + 1) (N.to_nat (Eb - base))
                         ltac:(lia) ltac:(lia) eq_refl ltac:(lia) Hne1) as (r & Er & Hr).
             replace (base + 1 - base + 1) with 2 in Er by lia. rewrite Er. f_equal.
             destruct Hr as [[-> Hr]|(j & Hj1 & Hj2 & Hj3 & ->)].
             ++ symmetry. apply hlocate_cert_none2. intros j Hj.
                destruct (N.le_gt_cases j base); [apply Hbelow; assumption|].
                destruct (N.eq_dec j (base + 1)) as [->|]; [exact Hne1|apply Hr; lia].
             ++ symmetry. apply hlocate_cert_some2; [lia|exact Hj3].
        * f_equal. symmetry. apply hlocate_cert_none2. intros j Hj.
          destruct (N.le_gt_cases j base); [apply Hbelow; assumption|apply Habove; lia].
  Qed.
End Stream2.

(* ====================================================================== *)
(* P. locatePrefix on a certified object                                   *)
(* ====================================================================== *)
Section Prefix2.
  Variables (dT dU : htfc) (b : N) (S : list str) (St : N -> bst * ast).
  Hypothesis Hbs : h_bsize dT = b.
  Hypothesis Hb2 : 2 <= b.
  Hypothesis Hb32 : b < 2 ^ 32.
  Hypothesis Hel : h_elements dT = lenN S.
  Hypothesis Hn32 : lenN S < 2 ^ 32.
  Hypothesis Hbk : h_buckets dT = (lenN S + b - 1) / b.
  Hypothesis Hcode : code_ok (h_cw dT).
  Hypothesis Htext : Forall (fun x => x < 256) (h_text dT).
  Hypothesis HSt : hhstream_ok dT dU b S St.
  Hypothesis Hnf : Forall nul_free S.
  Hypothesis Hsort : sorted_lt S.
  Hypothesis Hne : S <> [].

  Let Hdstep i : i + 1 < lenN S -> (i + 1) mod b <> 0 ->
    decode_string dU (str_cap dT) (fst (St i)) (snd (St i)) =
    Some (fst (St (i + 1)), snd (St (i + 1)), lcp (snth S i) (snth S (i + 1))).
  Proof. apply (hstream_dstep2 dT dU b S St HSt). Qed.

  Let Hholds i : i < lenN S -> holds (snd (St i)) (snth S i).
  Proof. apply (hs_holds2 dT dU b S St HSt). Qed.

  Let Hnfi i : i < lenN S -> nul_free (snth S i).
  Proof. apply (hs_nul_free2 S Hnf). Qed.

  Let Hslt i j : i < j -> j < lenN S -> lex_lt (snth S i) (snth S j).
  Proof. apply (hs_lt2 S Hsort). Qed.

  Let Hbiff k : 1 <= k -> (k <= h_buckets dT <-> (k - 1) * b < lenN S).
  Proof. apply (hbuckets_iff2 dT b S); assumption. Qed.

  Let Hbpos : 1 <= h_buckets dT.
  Proof. apply (hbuckets_pos2 dT dU b S St); assumption. Qed.

  Let Hmod base i : base mod b = 0 -> base <= i -> i + 1 < base + b -> (i + 1) mod b <> 0.
  Proof. apply (hin_bucket_mod2 dT b S); assumption. Qed.

  Let Hfacts k : 1 <= k -> k <= h_buckets dT ->
    exists base Eb st0, base = (k - 1) * b /\ base mod b = 0 /\ base < Eb /\ Eb <= base + b /\ Eb <= lenN S /\
      hscanneable dT k = Eb - base /\
      decode_header dT k = Some st0 /\ reset_scan dT k st0 = Some (St base) /\ holds (snd st0) (snth S base) /\
      (Eb < lenN S -> Eb = base + b /\ k + 1 <= h_buckets dT) /\
      (k < h_buckets dT -> Eb = base + b /\ Eb < lenN S).
  Proof. apply (hbucket_facts2 dT dU b S St); assumption. Qed.

  (* the comparison of searchPrefix on the state after string i *)
  Lemma hcmp0_stream2 i p sh : i < lenN S -> nul_free p -> sh <= lcp (snth S i) p ->
    exists z, hcmp_from (snd (St i)) p sh 0 = Some (z, lcp (snth S i) p) /\
      (lcp (snth S i) p < lenN p ->
       ((0 < z)%Z /\ lex_compare (snth S i) p = Gt) \/ ((z <= 0)%Z /\ lex_compare (snth S i) p = Lt)).
  Proof.
    intros Hi Hnp Hs. pose proof (LexLemmas.lcp_le_l (snth S i) p).
    rewrite (hcmp_from_cmp_from _ (snth S i) p sh 0 (Hholds i Hi)) by lia.
    apply cmp_from0_spec; [apply Hnfi; exact Hi|exact Hnp|exact Hs].
  Qed.

  Section PrefixScan2.
    Variable p : str.
    Hypothesis Hnp : nul_free p.
    Variables (base Eb : N).
    Hypothesis Hbase : base mod b = 0.
    Hypothesis HE1 : Eb <= base + b.
    Hypothesis HE2 : Eb <= lenN S.

    Let nomatch (j : N) : Prop := Spec.is_prefix p (snth S j) = false.

    Lemma hsearch_prefix_spec2 : forall (n : nat) i fuel s,
      base <= i -> i < Eb -> N.to_nat (Eb - 1 - i) = n -> (n < fuel)%nat ->
      s <= lcp (snth S i) p ->
      (forall j, base <= j -> j < i -> nomatch j) ->
      exists r b' a',
        hhsearch_prefix fuel dU (str_cap dT) p (Eb - base) (fst (St i)) (snd (St i)) s (i - base + 1) = Some (r, b', a') /\
        ((r = 0 /\ forall j, base <= j -> j < Eb -> nomatch j) \/
         (exists j, i <= j /\ j < Eb /\ r = j - base + 1 /\ (b', a') = St j /\
                    Spec.is_prefix p (snth S j) = true /\ forall j', base <= j' -> j' < j -> nomatch j')).
    Proof.
      induction n as [|n IH]; intros i fuel s Hi1 Hi2 Hn Hf Hs Hprev;
        (destruct fuel as [|f]; [lia|]); cbn [hhsearch_prefix].
      all: pose proof (LexLemmas.lcp_le_l (snth S i) p) as Hl1;
           pose proof (LexLemmas.lcp_le_r (snth S i) p) as Hl2.
      all: destruct (hcmp0_stream2 i p s ltac:(lia) Hnp Hs) as (z & Ec & Hsgn); rewrite Ec.
      all: destruct (N.eqb_spec (lcp (snth S i) p) (lenN p)) as [Efound|Enf].
      1,3: (eexists _, _, _; split; [reflexivity|]; right; exists i;
            repeat split; auto; try lia; [destruct (St i); reflexivity|apply is_prefix_lcp'; exact Efound]).
      all: assert (Hnm : nomatch i)
             by (unfold nomatch; destruct (Spec.is_prefix p (snth S i)) eqn:Ei; [apply is_prefix_lcp' in Ei; contradiction|reflexivity]).
      all: specialize (Hsgn ltac:(lia)).
      - assert (Hor : ((0 <? z)%Z || (i - base + 1 =? Eb - base)) = true).
        { destruct (N.eqb_spec (i - base + 1) (Eb - base)); [apply orb_true_r|lia]. }
        rewrite Hor. eexists _, _, _; split; [reflexivity|]. left. split; [reflexivity|].
        intros j Hj1 Hj2. destruct (N.eq_dec j i) as [->|Hne']; [exact Hnm|apply Hprev; lia].
      - destruct (Z.ltb_spec 0 z) as [Hz|Hz]; cbn [orb].
        + destruct Hsgn as [[_ Hgt]|[Hz' _]]; [|lia].
          eexists _, _, _; split; [reflexivity|]. left. split; [reflexivity|].
          intros j Hj1 Hj2. destruct (N.lt_ge_cases j i) as [Hlt|Hge]; [apply Hprev; assumption|].
          apply (nomatch_after S p i j Hsort Hge ltac:(lia)).
          unfold pcls. unfold nomatch in Hnm. rewrite Hnm. exact Hgt.
        + destruct Hsgn as [[Hz' _]|[_ Hlt]]; [lia|].
          destruct (N.eqb_spec (i - base + 1) (Eb - base)); [lia|].
          assert (Hi3 : i + 1 < Eb) by lia.
          rewrite (Hdstep i ltac:(lia) (Hmod base i Hbase Hi1 ltac:(lia))).
          assert (Hii : lex_lt (snth S i) (snth S (i + 1))) by (apply Hslt; lia).
          destruct (N.ltb_spec (lcp (snth S i) (snth S (i + 1))) (lcp (snth S i) p)) as [Hsh|Hsh].
          * eexists _, _, _; split; [reflexivity|]. left. split; [reflexivity|].
            intros j Hj1 Hj2. destruct (N.lt_ge_cases j i) as [Hlti|Hge]; [apply Hprev; assumption|].
            destruct (N.eq_dec j i) as [->|Hne']; [exact Hnm|].
            apply (nomatch_after S p (i + 1) j Hsort ltac:(lia) ltac:(lia)).
            assert (Hnm1 : Spec.is_prefix p (snth S (i + 1)) = false).
            { destruct (Spec.is_prefix p (snth S (i + 1))) eqn:E1; [|reflexivity].
              apply is_prefix_lcp in E1.
              pose proof (lcp_min p (snth S i) (snth S (i + 1))) as Hmin.
              rewrite (lcp_comm p (snth S i)) in Hmin. lia. }
            unfold pcls. rewrite Hnm1. apply lex_gt_lt.
            apply (scan_trick_lt (snth S i) p (snth S (i + 1)) Hlt Hii Hsh).
          * destruct (IH (i + 1) f (lcp (snth S i) p) ltac:(lia) Hi3 ltac:(lia) ltac:(lia)) as (r & b' & a' & Er & Hr).
            { pose proof (lcp_min (snth S i) (snth S (i + 1)) p). lia. }
            { intros j Hj1 Hj2. destruct (N.eq_dec j i) as [->|Hne']; [exact Hnm|apply Hprev; lia]. }
            replace (i - base + 1 + 1) with (i + 1 - base + 1) by lia.
            rewrite Er.
            exists r, b', a'. split; [reflexivity|].
            destruct Hr as [Hr|(j & Hj1 & Hj2 & Hr)]; [left; exact Hr|].
            right. exists j. split; [lia|]. split; [exact Hj2|exact Hr].
    Qed.

    Lemma hsearch_distinct_spec2 : forall (n : nat) j fuel id sc,
      base <= j -> j < Eb -> N.to_nat (Eb - 1 - j) = n -> (n < fuel)%nat ->
      sc + j + 1 = Eb + id -> 1 <= id ->
      Spec.is_prefix p (snth S j) = true ->
      exists j', j <= j' /\ j' < Eb /\
        hhsearch_distinct fuel dU (str_cap dT) (lenN p) sc (fst (St j)) (snd (St j)) id = Some (id + (j' - j)) /\
        Spec.is_prefix p (snth S j') = true /\ (j' + 1 < Eb -> nomatch (j' + 1)).
    Proof.
      induction n as [|n IH]; intros j fuel id sc Hj1 Hj2 Hn Hf Hsc Hid Hm;
        (destruct fuel as [|f]; [lia|]); cbn [hhsearch_distinct].
      - destruct (N.ltb_spec id sc); [lia|].
        exists j. repeat split; auto; try lia. f_equal. lia.
      - destruct (N.ltb_spec id sc); [|lia].
        assert (Hj3 : j + 1 < Eb) by lia.
        rewrite (Hdstep j ltac:(lia) (Hmod base j Hbase Hj1 ltac:(lia))).
        pose proof (prefix_next p (snth S j) (snth S (j + 1)) Hm) as Hnext.
        destruct (N.ltb_spec (lcp (snth S j) (snth S (j + 1))) (lenN p)) as [Hsh|Hsh].
        + exists j. repeat split; auto; try lia; [f_equal; lia|].
          intros _. unfold nomatch. destruct (Spec.is_prefix p (snth S (j + 1))); [|reflexivity].
          pose proof (proj1 Hnext eq_refl). lia.
        + destruct (IH (j + 1) f (id + 1) sc ltac:(lia) Hj3 ltac:(lia) ltac:(lia) ltac:(lia) ltac:(lia)
                      (proj2 Hnext Hsh)) as (j' & H1 & H2 & Er & H3 & H4).
          exists j'. split; [lia|]. split; [exact H2|]. split; [rewrite Er; f_equal; lia|]. split; assumption.
    Qed.
  End PrefixScan2.

  Let H (k : N) : str := snth S ((k - 1) * b).

  (* the masked memcmp of locateBoundaryBuckets against the header of bucket k *)
  Lemma hdr_memcmp_masked_stream2 k p enc o : 1 <= k -> k <= h_buckets dT -> nul_free p ->
    pack_string (h_cw dT) p = Some (enc, o) ->
    hdr_memcmp_masked dT k enc o = Some (pcls p (H k)).
  Proof.
    intros Hk1 Hk2 Hp Pp.
    destruct (hstream_header2 dT dU b S St Hbs Hb2 Hb32 Hel Hn32 Hbk HSt k Hk1 Hk2)
      as (off & ench & oh & rest & st0 & Hlt & Ebl & Ep & Hle & Hs & _).
    destruct Hcode as (_ & CP & CA & CL & _).
    unfold hdr_memcmp_masked. rewrite rdN_nthN, Ebl. destruct (N.leb_spec off (lenN (h_text dT))); [|lia].
    rewrite Hs.
    assert (F : Forall (fun x => x < 256) rest).
    { assert (F0 : Forall (fun x => x < 256) (skipN off (h_text dT))).
      { unfold skipN. apply Forall_forall. intros x Hx. rewrite Forall_forall in Htext. apply Htext.
        rewrite <- (firstn_skipn (N.to_nat off)). apply in_or_app. right. exact Hx. }
      rewrite Hs in F0. apply Forall_app in F0. apply F0. }
    exact (masked_memcmp_pcls (h_cw dT) (H k) p ench oh enc o rest CP CA CL (Hnfi _ Hlt) Hp Ep Pp F).
  Qed.

  Lemma hlbb_spec2 p enc o : nul_free p -> pack_string (h_cw dT) p = Some (enc, o) ->
    exists L R, hlocate_boundary_buckets dT enc o = Some (L, R) /\ hlbb_post (h_buckets dT) (hcls b S p) L R.
  Proof.
    intros Hnp Pp.
    assert (Hidx : forall k, 1 <= k -> k <= h_buckets dT -> (k - 1) * b < lenN S).
    { intros k H1 H2. apply (Hbiff k); lia. }
    apply (hlocate_boundary_buckets_abs dT enc o (h_buckets dT) (hcls b S p) eq_refl).
    - (* buckets + 1 < 2^32 *)
      assert (Hb0 : b <> 0) by lia.
      assert (E32 : 2 ^ 32 = 4294967296) by reflexivity. rewrite E32 in *.
      assert (H1 : (lenN S + b - 1) / b <= (lenN S + 1 * b) / b) by (apply N.div_le_mono; lia).
      rewrite N.div_add in H1 by lia.
      assert (H2 : lenN S / b <= lenN S / 2) by (apply N.div_le_compat_l; lia).
      rewrite Hbk. lia.
    - intros k H1 H2. apply (hdr_memcmp_masked_stream2 k p enc o H1 H2 Hnp Pp).
    - intros j k H1 H2 H3 Hc. unfold hcls in *.
      apply (cls_before S p ((k - 1) * b) ((j - 1) * b) Hsort);
        [apply N.mul_le_mono_r; lia|apply Hidx; lia|exact Hc].
    - intros j k H1 H2 H3 Hc. unfold hcls in *.
      apply (cls_after S p ((j - 1) * b) ((k - 1) * b) Hsort);
        [apply N.mul_le_mono_r; lia|apply Hidx; lia|exact Hc].
    - exact Hbpos.
  Qed.

  Section Glue.
    Variable p : str.
    Hypothesis Hnp : nul_free p.
    Variables (enc : list N) (o : N).
    Hypothesis Hes : encode_string dT p = Some (enc, o).

    Lemma hsame_bucket_case2 k : 1 <= k -> k <= h_buckets dT ->
      hlocate_boundary_buckets dT enc o = Some (k, k) ->
      (forall j, j < (k - 1) * b -> Spec.is_prefix p (snth S j) = false) ->
      (k * b < lenN S -> pcls p (snth S (k * b)) = Gt) ->
      hh_locate_prefix dT dU p = Some (range_of (spec_prefix_ids S p)).
    Proof.
      intros Hk1 Hk2 Elbb Hbefore Hafter.
      unfold hh_locate_prefix. rewrite Hes, Elbb, Hbs.
      destruct (N.ltb_spec 0 k); [|lia]. rewrite N.eqb_refl.
      rewrite (mul_pred_succ k b Hk1) in Hafter.
      destruct (Hfacts k Hk1 Hk2) as (base & Eb & st0 & Eb' & Hmod0 & HbE & HE1 & HE2 & Esc & Edh & Ers & _ & Hnext & _).
      rewrite <- Eb' in *. clear Eb'.
      rewrite Edh. cbn [opt_bind]. rewrite Ers, Esc.
      destruct (St base) as [bb0 aa0] eqn:Est0.
      destruct (hsearch_prefix_spec2 p Hnp base Eb Hmod0 HE1 HE2
                  (N.to_nat (Eb - 1 - base)) base (Datatypes.S (Datatypes.S (N.to_nat (Eb - base)))) 0)
        as (r & b' & a' & Esp & Hsp); try lia.
      replace (base - base + 1) with 1 in Esp by lia. rewrite Est0 in Esp. cbn [fst snd] in Esp. rewrite Esp.
      destruct Hsp as [[-> Hnone]|(j & Hj1 & Hj2 & -> & Est & Hmj & Hprev)].
      - cbn [N.eqb]. f_equal. symmetry. apply none_cert.
        intros j Hj. destruct (N.lt_ge_cases j base) as [H1|H1]; [apply Hbefore; exact H1|].
        destruct (N.lt_ge_cases j Eb) as [H2|H2]; [apply Hnone; assumption|].
        destruct (Hnext ltac:(lia)) as [EE _]. subst Eb.
        apply (nomatch_after S p (base + b) j Hsort H2 Hj). apply Hafter. lia.
      - destruct (N.eqb_spec (j - base + 1) 0); [lia|].
        assert (E32 : 2 ^ 32 = 4294967296) by reflexivity.
        destruct (hsearch_distinct_spec2 p base Eb Hmod0 HE1 HE2
                    (N.to_nat (Eb - 1 - j)) j (Datatypes.S (Datatypes.S (N.to_nat (Eb - base)))) 1
                    (Eb - base - (j - base + 1) + 1)) as (j' & H1 & H2 & Esd & Hmj' & Hnj'); try lia; auto.
        assert (Ew : W32m (Eb - base + 2 ^ 32 - (j - base + 1) + 1) = Eb - base - (j - base + 1) + 1).
        { unfold W32m. replace (Eb - base + 2 ^ 32 - (j - base + 1) + 1) with (Eb - base - (j - base + 1) + 1 + 1 * 2 ^ 32) by lia.
          rewrite N.mod_add by lia. apply N.mod_small. rewrite E32 in *. lia. }
        rewrite Ew. rewrite <- Est in Esd. cbn [fst snd] in Esd. rewrite Esd. f_equal.
        rewrite (range_cert S p j j' Hsort H1 ltac:(lia) Hmj Hmj').
        + f_equal; lia.
        + destruct (N.eq_dec j base) as [->|Hne'].
          * destruct (N.eq_dec base 0) as [->|Hb0]; [left; reflexivity|].
            right. apply Hbefore. lia.
          * right. apply Hprev; lia.
        + destruct (N.lt_ge_cases (j' + 1) Eb) as [H3|H3]; [right; apply Hnj'; exact H3|].
          assert (j' + 1 = Eb) by lia.
          destruct (N.eq_dec Eb (lenN S)) as [EE|NE]; [left; lia|].
          destruct (Hnext ltac:(lia)) as [EE _]. right.
          replace (j' + 1) with (base + b) by lia.
          apply (nomatch_after S p (base + b) (base + b) Hsort); [lia|lia|apply Hafter; lia].
    Qed.
  
    Lemma htwo_bucket_case2 L R : 1 <= L -> L < R -> R <= h_buckets dT ->
      hlocate_boundary_buckets dT enc o = Some (L, R) ->
      (L = 1 \/ hcls b S p L = Lt) ->
      hcls b S p (L + 1) = Eq -> hcls b S p R = Eq ->
      (R + 1 <= h_buckets dT -> hcls b S p (R + 1) = Gt) ->
      hh_locate_prefix dT dU p = Some (range_of (spec_prefix_ids S p)).
    Proof.
      intros HL1 HLR HRm Elbb HcL HcL1 HcR HcR1.
      unfold hh_locate_prefix. rewrite Hes, Elbb, Hbs.
      destruct (N.ltb_spec 0 L); [|lia]. destruct (N.eqb_spec L R); [lia|].
      unfold hcls in *. rewrite N.add_sub in HcL1, HcR1.
      apply pcls_Eq in HcL1, HcR.
      assert (HLb : L * b = (L - 1) * b + b) by (apply mul_pred_succ; lia).
      assert (HLRb : L * b <= (R - 1) * b) by (apply N.mul_le_mono_r; lia).
      assert (HRb : R * b = (R - 1) * b + b) by (apply mul_pred_succ; lia).
      destruct (Hfacts L ltac:(lia) ltac:(lia)) as (baseL & EL & st0L & EbL & HmodL & HbEL & HEL1 & HEL2 & EscL & EdhL & ErsL & _ & _ & HfullL).
      destruct (Hfacts R ltac:(lia) ltac:(lia)) as (baseR & ER & st0R & EbR & HmodR & HbER & HER1 & HER2 & EscR & EdhR & ErsR & _ & HnextR & _).
      destruct (HfullL ltac:(lia)) as [EEL HELn].
      assert (HbL0 : L = 1 -> baseL = 0) by (intros ->; rewrite EbL; reflexivity).
      rewrite <- EbL in *. rewrite <- EbR in *. clear EbL EbR.
      revert HcL1 HcR1 HLb HLRb HRb. generalize (L * b). generalize (R * b). intros Rb Lb HcL1 HcR1 HLb HLRb HRb.
      subst Lb Rb EL.
      rewrite EdhL. cbn [opt_bind]. rewrite ErsL, EscL.
      destruct (St baseL) as [bbL aaL] eqn:EstL.
      destruct (hsearch_prefix_spec2 p Hnp baseL (baseL + b) HmodL HEL1 HEL2
                  (N.to_nat (baseL + b - 1 - baseL)) baseL (Datatypes.S (Datatypes.S (N.to_nat (baseL + b - baseL)))) 0)
        as (r & b' & a' & Esp & Hsp); try lia.
      replace (baseL - baseL + 1) with 1 in Esp by lia. rewrite EstL in Esp. cbn [fst snd] in Esp. rewrite Esp.
      rewrite EdhR. cbn [opt_bind]. rewrite ErsR, EscR.
      destruct (St baseR) as [bbR aaR] eqn:EstR.
      destruct (hsearch_distinct_spec2 p baseR ER HmodR HER1 HER2
                  (N.to_nat (ER - 1 - baseR)) baseR (Datatypes.S (Datatypes.S (N.to_nat (ER - baseR)))) 1
                  (ER - baseR)) as (j' & H1 & H2 & Esd & Hmj' & Hnj'); try lia; auto.
      rewrite EstR in Esd. cbn [fst snd] in Esd. rewrite Esd. f_equal.
      clear HmodL HmodR EdhL EdhR ErsL ErsR EscL EscR Esp Esd Elbb.
      assert (Hhi : j' + 1 = lenN S \/ Spec.is_prefix p (snth S (j' + 1)) = false).
      { destruct (N.lt_ge_cases (j' + 1) ER) as [H3|H3]; [right; apply Hnj'; exact H3|].
        assert (j' + 1 = ER) by lia.
        destruct (N.eq_dec ER (lenN S)) as [EE|NE]; [left; lia|].
        destruct (HnextR ltac:(lia)) as [EE HR1]. right.
        replace (j' + 1) with (baseR + b) by lia.
        apply (nomatch_after S p (baseR + b) (baseR + b) Hsort); [lia|lia|apply HcR1; exact HR1]. }
      destruct Hsp as [[-> Hnone]|(j & Hj1 & Hj2 & -> & Est & Hmj & Hprev)].
      - cbn [N.eqb].
        rewrite (range_cert S p (baseL + b) j' Hsort ltac:(lia) ltac:(lia) HcL1 Hmj').
        + f_equal; lia.
        + right. apply Hnone; lia.
        + exact Hhi.
      - destruct (N.eqb_spec (j - baseL + 1) 0); [lia|].
        rewrite (range_cert S p j j' Hsort ltac:(lia) ltac:(lia) Hmj Hmj').
        + f_equal; lia.
        + destruct (N.eq_dec j baseL) as [->|Hne']; [|right; apply Hprev; lia].
          destruct HcL as [HcL|HcL].
          * left. apply HbL0. exact HcL.
          * apply pcls_Lt in HcL. destruct HcL as [HcL _]. congruence.
        + exact Hhi.
    Qed.

    Theorem htfc_locate_prefix_stream2 : pack_string (h_cw dT) p = Some (enc, o) ->
      hh_locate_prefix dT dU p = Some (range_of (spec_prefix_ids S p)).
    Proof.
      intros Pp.
      pose proof Hbpos as Hm1.
      assert (Hidx : forall k, 1 <= k -> k <= h_buckets dT -> (k - 1) * b < lenN S).
      { intros k H1 H2. apply (Hbiff k); lia. }
      pose proof (hlbb_spec2 p enc o Hnp Pp) as Hlbb.
      destruct Hlbb as (L & R & Elbb & [(fE & lE & Hf1 & Hf2 & Hf3 & HcLt & HcEq & HcGt & -> & ->)|(-> & HRm & HcLt & HcGt)]).
      - destruct (N.eqb_spec fE 1) as [->|Hf].
        + destruct (N.eq_dec lE 1) as [->|Hl].
          * apply (hsame_bucket_case2 1); [lia|exact Hm1|exact Elbb|intros j Hj; lia|].
            intros Hn. rewrite N.mul_1_l in *.
            assert (H2 : 2 <= h_buckets dT)
              by (apply (Hbiff 2); [lia|]; replace ((2 - 1) * b) with b by lia; exact Hn).
            pose proof (HcGt 2 ltac:(lia) H2) as Hc. unfold hcls in Hc.
            replace ((2 - 1) * b) with b in Hc by lia. exact Hc.
          * apply (htwo_bucket_case2 1 lE);
              [lia|lia|lia|exact Elbb|left; reflexivity|apply HcEq; lia|apply HcEq; lia|intros H'; apply HcGt; lia].
        + apply (htwo_bucket_case2 (fE - 1) lE);
            [lia|lia|lia|exact Elbb|right; apply HcLt; lia| |apply HcEq; lia|intros H'; apply HcGt; lia].
          replace (fE - 1 + 1) with fE by lia. apply HcEq; lia.
      - destruct (N.eq_dec R 0) as [->|HR0].
        + unfold hh_locate_prefix. rewrite Hes, Elbb. cbn [N.ltb N.compare]. f_equal. symmetry.
          apply none_cert. intros j Hj.
          pose proof (HcGt 1 ltac:(lia) Hm1) as Hc. unfold hcls in Hc.
          replace ((1 - 1) * b) with 0 in Hc by lia.
          apply (nomatch_after S p 0 j Hsort); auto. lia.
        + apply (hsame_bucket_case2 R); auto; try lia.
          * intros j Hj. pose proof (HcLt R ltac:(lia) ltac:(lia)) as Hc. unfold hcls in Hc.
            apply (nomatch_before S p ((R - 1) * b) j Hsort); auto; [lia|]. apply Hidx; lia.
          * intros Hn.
            assert (H2 : R + 1 <= h_buckets dT) by (apply (Hbiff (R + 1)); [lia|]; rewrite N.add_sub; exact Hn).
            pose proof (HcGt (R + 1) ltac:(lia) H2) as Hc. unfold hcls in Hc.
            rewrite N.add_sub in Hc. exact Hc.
    Qed.
  End Glue.
End Prefix2.

(* ====================================================================== *)
(* E2. the second checker (chunk chain only) is sound                       *)
(* ====================================================================== *)
Lemma hhitem_chain_cons dT dU b i prev s r pst e :
  hhitem_ok dT dU b i prev s pst e ->
  (exists tr', length tr' = length r /\
     forall j, (j < length r)%nat ->
       hhitem_ok dT dU b (i + 1 + N.of_nat j) (nth j (s :: r) []) (nth j r []) (nth j (e :: tr') st0_dummy) (nth j tr' st0_dummy)) ->
  exists tr, length tr = length (s :: r) /\
     forall j, (j < length (s :: r))%nat ->
       hhitem_ok dT dU b (i + N.of_nat j) (nth j (prev :: s :: r) []) (nth j (s :: r) []) (nth j (pst :: tr) st0_dummy) (nth j tr st0_dummy).
Proof.
  intros He (tr' & Hl & Hit). exists (e :: tr'). split; [cbn [length]; lia|].
  intros j Hj. destruct j as [|j].
  - cbn [nth]. rewrite N.add_0_r. exact He.
  - cbn [length] in Hj. specialize (Hit j ltac:(lia)).
    replace (i + N.of_nat (Datatypes.S j)) with (i + 1 + N.of_nat j) by lia.
    change (nth (Datatypes.S j) (prev :: s :: r) []) with (nth j (s :: r) []).
    change (nth (Datatypes.S j) (s :: r) []) with (nth j r []).
    change (nth (Datatypes.S j) (pst :: e :: tr') st0_dummy) with (nth j (e :: tr') st0_dummy).
    change (nth (Datatypes.S j) (e :: tr') st0_dummy) with (nth j tr' st0_dummy).
    exact Hit.
Qed.

Lemma hhchain_from_sound dT dU b : str_cap dT < 2 ^ 32 -> h_maxlength dT < 2 ^ 29 -> forall ss i prev bs A pst,
  hhchain_from dT dU b i prev bs A ss = true ->
  (i mod b <> 0 -> fst pst = bs /\ holds_adv (snd pst) prev A /\ nul_free prev) ->
  exists tr, length tr = length ss /\
    forall j, (j < length ss)%nat ->
      hhitem_ok dT dU b (i + N.of_nat j) (nth j (prev :: ss) []) (nth j ss []) (nth j (pst :: tr) st0_dummy) (nth j tr st0_dummy).
Proof.
  intros Hcap Hml. induction ss as [|s r IH]; intros i prev bs A pst H Hpst; cbn [hhchain_from] in H.
  - exists []. split; [reflexivity|]. intros j Hj. cbn [length] in Hj. lia.
  - apply andb_true_iff in H. destruct H as [H0 H]. apply andb_true_iff in H0. destruct H0 as [Hlen Hnf].
    apply N.ltb_lt in Hlen. apply nul_free_b_sound in Hnf.
    destruct (i mod b =? 0) eqn:Em.
    + rewrite rdN_nthN in H.
      destruct (nthN (h_bl dT) (i / b + 1)) as [off|] eqn:Eo; [|discriminate].
      destruct (pack_string (h_cw dT) (s ++ [0])) as [[enc o]|] eqn:Ep; [|discriminate].
      destruct (decode_header dT (i / b + 1)) as [st0|] eqn:Eh; [|discriminate].
      destruct (reset_scan dT (i / b + 1) st0) as [st1|] eqn:Er; [|discriminate].
      apply andb_true_iff in H. destruct H as [Hc Hrec]. apply andb_true_iff in Hc. destruct Hc as [Hc Hast].
      apply andb_true_iff in Hc. destruct Hc as [Hle Hpre].
      apply N.leb_le in Hle. destruct (hprefix_eqb_sound _ _ Hpre) as [rest Hrest].
      apply ast_is_sound in Hast.
      pose proof (reset_scan_holds _ _ _ _ _ Er Hast) as Hh1.
      apply (hhitem_chain_cons dT dU b i prev s r pst st1).
      * unfold hhitem_ok. rewrite Em. split; [exact Hh1|].
        exists off, enc, o, rest, st0. repeat split; assumption.
      * apply (IH (i + 1) s (fst st1) [] st1 Hrec). intros _. split; [reflexivity|]. split; [|exact Hnf].
        apply holds_holds_adv; [exact Hh1|].
        unfold reset_scan in Er. destruct st0 as [b0 a0]. destruct (rdN (h_bl dT) (i / b + 1 + 1)); [|discriminate].
        inversion Er; subst. reflexivity.
    + apply N.eqb_neq in Em. destruct (Hpst Em) as (Ebs & Hha & Hnp). subst bs.
      set (l := lcp prev s) in *. set (suf := skipN l s) in *.
      apply andb_true_iff in H. destruct H as [Hc H]. apply andb_true_iff in Hc. destruct Hc as [Hl128 Hlt].
      apply N.ltb_lt in Hl128, Hlt.
      destruct (item_walk (S (length ((l + 128) :: suf ++ [0]))) dU (fst pst) A (lenN ((l + 128) :: suf ++ [0])))
        as [[bs' Afull]|] eqn:Ew; [|discriminate].
      apply andb_true_iff in H. destruct H as [Hc Hrec]. apply andb_true_iff in Hc. destruct Hc as [Hpre Hcp].
      apply N.ltb_lt in Hcp. apply item_walk_sound in Ew.
      pose proof (hprefix_eqb_skip _ _ Hpre) as EAf.
      set (A' := skipN (lenN ((l + 128) :: suf ++ [0])) Afull) in *.
      destruct (decode_string_item dU (str_cap dT) prev l suf (fst pst) (snd pst) A bs' Afull A' Hcap Hnp
                  (lcp_le_l prev s) Hl128 (nul_free_skipn _ _ Hnf) (lcp_lt_suffix_ne prev s Hlt) Hha Ew EAf Hcp)
        as (a' & Ed & Hh').
      assert (Ecur : firstN l prev ++ suf = s) by (unfold suf, l; apply lcp_rebuild).
      rewrite Ecur in Hh'.
      apply (hhitem_chain_cons dT dU b i prev s r pst (bs', a')).
      * unfold hhitem_ok. destruct (N.eqb_spec (i mod b) 0); [contradiction|]. cbn [fst snd].
        split; [|exact Ed]. apply (holds_adv_holds _ _ _ Hh'). lia.
      * apply (IH (i + 1) s bs' A' (bs', a') Hrec). intros _. cbn [fst snd]. split; [reflexivity|]. split; assumption.
Qed.

Theorem hh_check2_sound S dT dU : hh_check2 S dT dU = true -> hh_ok dT dU (h_bsize dT) S.
Proof.
  unfold hh_check2. intros H.
  repeat (apply andb_true_iff in H; let H' := fresh "C" in destruct H as [H H']).
  apply N.leb_le in H. apply N.ltb_lt in C7, C5, C2. apply N.eqb_eq in C6, C4, C3.
  unfold code_chk in C1.
  repeat (apply andb_true_iff in C1; let H' := fresh "K" in destruct C1 as [C1 H']).
  apply N.eqb_eq in C1.
  split; [reflexivity|]. split; [exact H|]. split; [exact C7|]. split; [exact C6|]. split; [exact C5|].
  split; [exact C4|]. split; [exact C3|].
  split.
  { split; [exact C1|]. split; [exact K2|]. split; [exact K1|]. split; [exact K0|].
    apply Forall_forall. intros c Hc. rewrite forallb_forall in K. specialize (K c Hc). apply N.ltb_lt in K. exact K. }
  split.
  { apply Forall_forall. intros x Hx. rewrite forallb_forall in C0. specialize (C0 x Hx). apply N.ltb_lt in C0. exact C0. }
  assert (Hcap : str_cap dT < 2 ^ 32).
  { unfold str_cap. rewrite C3. assert (E32 : 2 ^ 32 = 4294967296) by reflexivity.
    assert (E30 : 2 ^ 29 = 536870912) by reflexivity. rewrite E30 in C2. rewrite E32. lia. }
  destruct (hhchain_from_sound dT dU (h_bsize dT) Hcap C2 S 0 [] (fst st0_dummy) [] st0_dummy C) as (tr & Hl & Hit).
  { intros Hne. exfalso. apply Hne. destruct (h_bsize dT); reflexivity. }
  exists (fun k => nth (N.to_nat k) tr st0_dummy). intros i Hi.
  specialize (Hit (N.to_nat i) ltac:(unfold lenN in Hi; lia)).
  rewrite N.add_0_l, N2Nat.id in Hit. fold (snth S i) in Hit.
  destruct (N.eq_dec i 0) as [->|Hne].
  - eapply hhitem_ok_first. exact Hit.
  - replace (N.to_nat i) with (Datatypes.S (N.to_nat (i - 1))) in Hit at 1 2 by lia.
    cbn [nth] in Hit. exact Hit.
Qed.

(* ====================================================================== *)
(* F. the theorems in the form the harness instantiates                    *)
(* ====================================================================== *)
Theorem hh_extract_ok dT dU b S : hh_ok dT dU b S -> S <> [] -> Forall nul_free S -> sorted_lt S ->
  forall id, hh_extract dT dU id = Some (spec_extract S id).
Proof.
  intros (Hbs & Hb2 & Hb32 & Hel & Hn32 & Hbk & Hk & Hcode & Htext & St & HSt) Hne Hnf Hsort id.
  apply (htfc_extract_stream2 dT dU b S St); assumption.
Qed.

Theorem hh_locate_ok dT dU b S : hh_ok dT dU b S -> S <> [] -> Forall nul_free S -> sorted_lt S ->
  forall q, nul_free q -> Forall (fun c => c < 256) q -> hh_locate dT dU q = Some (spec_locate S q).
Proof.
  intros (Hbs & Hb2 & Hb32 & Hel & Hn32 & Hbk & Hk & Hcode & Htext & St & HSt) Hne Hnf Hsort q Hq Hq256.
  apply (htfc_locate_stream2 dT dU b S St); assumption.
Qed.

(* what the checker certifies, on the object itself *)
Definition hhtfc_ok (d : hhtfc) (S : list str) : Prop := hh_ok (hh_ht d) (hh_hu d) (h_bsize (hh_ht d)) S.

Theorem hhtfc_check_sound S d : hhtfc_check S d = true -> hhtfc_ok d S.
Proof. unfold hhtfc_check, hhtfc_ok. apply hh_check_sound. Qed.

(* every object certified by the checker answers extract / locate like the specification *)
Theorem hhtfc_extract_spec S d : valid_set S -> hhtfc_check S d = true ->
  forall id, hhtfc_extract d id = Some (spec_extract S id).
Proof.
  intros HV HC. destruct (valid_set_facts S HV) as (Hne & Hnf & Hsort).
  exact (hh_extract_ok _ _ _ S (hhtfc_check_sound S d HC) Hne Hnf Hsort).
Qed.

Theorem hhtfc_locate_spec S d : valid_set S -> hhtfc_check S d = true ->
  forall q, nul_free q -> Forall (fun c => c < 256) q -> hhtfc_locate d q = Some (spec_locate S q).
Proof.
  intros HV HC. destruct (valid_set_facts S HV) as (Hne & Hnf & Hsort).
  exact (hh_locate_ok _ _ _ S (hhtfc_check_sound S d HC) Hne Hnf Hsort).
Qed.

(* round trips: locate (extract id) = id for every valid id, extract (locate s) = s for every member *)
Theorem hhtfc_roundtrip S d : valid_set S -> hhtfc_check S d = true ->
  (forall id, 1 <= id <= lenN S -> exists s, hhtfc_extract d id = Some (Some s) /\ hhtfc_locate d s = Some id) /\
  (forall s, In s S -> exists id, hhtfc_locate d s = Some id /\ hhtfc_extract d id = Some (Some s)).
Proof.
  intros HV HC. destruct (valid_set_facts S HV) as (Hne & Hnf & Hsort).
  pose proof (valid_set_bytes S HV) as Hby.
  pose proof (hhtfc_extract_spec S d HV HC) as HE. pose proof (hhtfc_locate_spec S d HV HC) as HL.
  rewrite Forall_forall in Hnf, Hby.
  split.
  - intros id Hid. destruct (spec_extract_in_range S id Hid) as (s & Es & Hin).
    exists s. rewrite HE, Es. split; [reflexivity|].
    rewrite (HL s (Hnf s Hin) (Hby s Hin)).
    f_equal. apply spec_locate_extract; [apply sorted_NoDup; exact Hsort|exact Es].
  - intros s Hin. exists (spec_locate S s).
    rewrite (HL s (Hnf s Hin) (Hby s Hin)). split; [reflexivity|].
    rewrite HE, (spec_extract_locate S s Hin). reflexivity.
Qed.

(* memory safety: no query of a certified object reads outside textStrings / the two streams / blStrings /
   codewordsHT / the scratch buffer's initialised part, writes outside the scratch buffer, or runs out of fuel
   (every such event is [None] in the model) *)
Theorem hhtfc_no_oob S d : valid_set S -> hhtfc_check S d = true ->
  (forall id, hhtfc_extract d id <> None) /\
  (forall q, nul_free q -> Forall (fun c => c < 256) q -> hhtfc_locate d q <> None).
Proof.
  intros HV HC. split.
  - intros id. rewrite (hhtfc_extract_spec S d HV HC id). discriminate.
  - intros q Hq Hq2. rewrite (hhtfc_locate_spec S d HV HC q Hq Hq2). discriminate.
Qed.


Theorem hh_locate_prefix_ok dT dU b S : hh_ok dT dU b S -> S <> [] -> Forall nul_free S -> sorted_lt S ->
  forall p, nul_free p -> Forall (fun c => c < 256) p ->
  hh_locate_prefix dT dU p = Some (range_of (spec_prefix_ids S p)).
Proof.
  intros (Hbs & Hb2 & Hb32 & Hel & Hn32 & Hbk & Hk & Hcode & Htext & St & HSt) Hne Hnf Hsort p Hp Hp256.
  destruct (encode_string_pack_any dT p Hcode Hp256) as (enc & o & Ees & Pp).
  apply (htfc_locate_prefix_stream2 dT dU b S St Hbs Hb2 Hb32 Hel Hn32 Hbk Hcode Htext HSt Hnf Hsort Hne p Hp enc o Ees Pp).
Qed.

(* prefix search: the (left, right) limits locatePrefix hands to IteratorDictIDContiguous, and the IDs it enumerates *)
Theorem hhtfc_locate_prefix_spec S d : valid_set S -> hhtfc_check S d = true ->
  forall p, nul_free p -> Forall (fun c => c < 256) p ->
  hhtfc_locate_prefix d p = Some (range_of (spec_prefix_ids S p)).
Proof.
  intros HV HC. destruct (valid_set_facts S HV) as (Hne & Hnf & Hsort).
  exact (hh_locate_prefix_ok _ _ _ S (hhtfc_check_sound S d HC) Hne Hnf Hsort).
Qed.

Theorem hhtfc_locate_prefix_ids S d : valid_set S -> hhtfc_check S d = true ->
  forall p, nul_free p -> Forall (fun c => c < 256) p ->
  exists r, hhtfc_locate_prefix d p = Some r /\ contig_ids (fst r) (snd r) = spec_prefix_ids S p.
Proof.
  intros HV HC p Hp Hp2. destruct (valid_set_facts S HV) as (Hne & Hnf & Hsort).
  exists (range_of (spec_prefix_ids S p)). split; [apply (hhtfc_locate_prefix_spec S d HV HC p Hp Hp2)|].
  destruct (hhtfc_check_sound S d HC) as (_ & _ & _ & _ & Hn32 & _).
  apply range_ids_spec; [exact Hsort|]. assert (2 ^ 32 < 2 ^ 64) by (apply N.pow_lt_mono_r; lia). lia.
Qed.

Theorem hhtfc_check2_sound S d : hhtfc_check2 S d = true -> hhtfc_ok d S.
Proof. unfold hhtfc_check2, hhtfc_ok. apply hh_check2_sound. Qed.

(* the same theorems for objects certified by the second checker, which does not run decodeString *)
Theorem hhtfc_extract_spec2 S d : valid_set S -> hhtfc_check2 S d = true ->
  forall id, hhtfc_extract d id = Some (spec_extract S id).
Proof.
  intros HV HC. destruct (valid_set_facts S HV) as (Hne & Hnf & Hsort).
  exact (hh_extract_ok _ _ _ S (hhtfc_check2_sound S d HC) Hne Hnf Hsort).
Qed.

Theorem hhtfc_locate_spec2 S d : valid_set S -> hhtfc_check2 S d = true ->
  forall q, nul_free q -> Forall (fun c => c < 256) q -> hhtfc_locate d q = Some (spec_locate S q).
Proof.
  intros HV HC. destruct (valid_set_facts S HV) as (Hne & Hnf & Hsort).
  exact (hh_locate_ok _ _ _ S (hhtfc_check2_sound S d HC) Hne Hnf Hsort).
Qed.

Theorem hhtfc_locate_prefix_spec2 S d : valid_set S -> hhtfc_check2 S d = true ->
  forall p, nul_free p -> Forall (fun c => c < 256) p ->
  hhtfc_locate_prefix d p = Some (range_of (spec_prefix_ids S p)).
Proof.
  intros HV HC. destruct (valid_set_facts S HV) as (Hne & Hnf & Hsort).
  exact (hh_locate_prefix_ok _ _ _ S (hhtfc_check2_sound S d HC) Hne Hnf Hsort).
Qed.

(* ====================================================================== *)
(* M. two objects dumped from the real constructor + save + load            *)
(* ====================================================================== *)
(* hhx_usa: S = {alabama, alaska, arizona, arkansas, california, colorado, connecticut, delaware}, bucketsize 3
   hhx_t16: S = {a^128} U {a^128 c : c = 'b' .. 'q'} (17 strings), bucketsize 32: every in-bucket shared prefix is 128,
   whose VByte is 00 81; with 17 such items the Huffman code of the byte 0 has 3 bits, the 16-bit chunk that starts an
   item holds more than two symbols, and the decoder takes the first VByte byte for the end of a string
   (known finding ht-front-coding-lcp-ge-128; wip/hhtfc/one.py t16 replays it on the real code) *)
Definition hhx_usa_S : list str := [[97; 108; 97; 98; 97; 109; 97]; [97; 108; 97; 115; 107; 97]; [97; 114; 105; 122; 111; 110; 97]; [97; 114; 107; 97; 110; 115; 97; 115]; [99; 97; 108; 105; 102; 111; 114; 110; 105; 97]; [99; 111; 108; 111; 114; 97; 100; 111]; [99; 111; 110; 110; 101; 99; 116; 105; 99; 117; 116]; [100; 101; 108; 97; 119; 97; 114; 101]].
Definition hhx_usa_d : hhtfc :=
  {| hh_ht :=
  {| h_elements := 8; h_maxlength := 12; h_maxcomplength := 15; h_buckets := 3; h_bsize := 3;
     h_text := [83; 37; 44; 83; 53; 0; 225; 223; 220; 255; 238; 190; 119; 221; 247; 143; 255; 0; 83; 118; 42; 104; 225; 78; 0; 0; 231; 193; 255; 110; 251; 126; 249; 199; 191; 255; 117; 247; 183; 190; 127; 211; 223; 128; 90; 213; 163; 69; 213; 174; 88; 22; 186; 114; 0; 231; 211; 151; 111; 247; 191; 243; 151; 192; 0; 0];
     h_bl := [0; 0; 18; 44; 66];
     h_cw := [(0, 7); (4, 9); (5, 9); (6, 9); (7, 9); (8, 9); (9, 9); (10, 9); (11, 9); (12, 9); (13, 9); (14, 9); (15, 9); (16, 9); (17, 9); (18, 9); (19, 9); (20, 9); (21, 9); (22, 9); (23, 9); (24, 9); (25, 9); (26, 9); (27, 9); (28, 9); (29, 9); (30, 9); (31, 9); (32, 9); (33, 9); (34, 9); (35, 9); (36, 9); (37, 9); (38, 9); (39, 9); (20, 8); (21, 8); (22, 8); (23, 8); (24, 8); (25, 8); (26, 8); (27, 8); (28, 8); (29, 8); (30, 8); (31, 8); (32, 8); (33, 8); (34, 8); (35, 8); (36, 8); (37, 8); (38, 8); (39, 8); (40, 8); (41, 8); (42, 8); (43, 8); (44, 8); (45, 8); (46, 8); (47, 8); (48, 8); (49, 8); (50, 8); (51, 8); (52, 8); (53, 8); (54, 8); (55, 8); (56, 8); (57, 8); (58, 8); (59, 8); (60, 8); (61, 8); (62, 8); (63, 8); (64, 8); (65, 8); (66, 8); (67, 8); (68, 8); (69, 8); (70, 8); (71, 8); (72, 8); (73, 8); (74, 8); (75, 8); (76, 8); (77, 8); (78, 8); (79, 8); (10, 5); (44, 7); (45, 7); (92, 8); (93, 8); (188, 9); (189, 9); (95, 8); (96, 8); (97, 8); (49, 7); (50, 7); (51, 7); (52, 7); (53, 7); (108, 8); (109, 8); (55, 7); (56, 7); (57, 7); (58, 7); (118, 8); (119, 8); (120, 8); (121, 8); (122, 8); (123, 8); (124, 8); (125, 8); (126, 8); (127, 8); (128, 8); (129, 8); (130, 8); (131, 8); (132, 8); (133, 8); (134, 8); (135, 8); (136, 8); (137, 8); (138, 8); (139, 8); (140, 8); (141, 8); (142, 8); (143, 8); (144, 8); (145, 8); (146, 8); (147, 8); (148, 8); (149, 8); (150, 8); (151, 8); (152, 8); (153, 8); (154, 8); (155, 8); (156, 8); (157, 8); (158, 8); (159, 8); (160, 8); (161, 8); (162, 8); (163, 8); (164, 8); (165, 8); (166, 8); (167, 8); (168, 8); (169, 8); (170, 8); (171, 8); (172, 8); (173, 8); (174, 8); (175, 8); (176, 8); (177, 8); (178, 8); (179, 8); (180, 8); (181, 8); (182, 8); (183, 8); (184, 8); (185, 8); (186, 8); (187, 8); (188, 8); (189, 8); (190, 8); (191, 8); (192, 8); (193, 8); (194, 8); (195, 8); (196, 8); (197, 8); (198, 8); (199, 8); (200, 8); (201, 8); (202, 8); (203, 8); (204, 8); (205, 8); (206, 8); (207, 8); (208, 8); (209, 8); (210, 8); (211, 8); (212, 8); (213, 8); (214, 8); (215, 8); (216, 8); (217, 8); (218, 8); (219, 8); (220, 8); (221, 8); (222, 8); (223, 8); (224, 8); (225, 8); (226, 8); (227, 8); (228, 8); (229, 8); (230, 8); (231, 8); (232, 8); (233, 8); (234, 8); (235, 8); (236, 8); (237, 8); (238, 8); (239, 8); (240, 8); (241, 8); (242, 8); (243, 8); (244, 8); (245, 8); (246, 8); (247, 8); (248, 8); (249, 8); (250, 8); (251, 8); (252, 8); (253, 8); (254, 8); (255, 8)];
     h_k := 16;
     h_stream := [0; 16; 0; 32; 97; 0; 43; 97; 98; 43; 97; 108; 43; 97; 109; 43; 97; 114; 43; 97; 115; 45; 99; 111; 45; 99; 117; 46; 101; 99; 43; 107; 97; 45; 110; 110; 45; 110; 115; 32; 116; 0; 46; 116; 105];
     h_tab := [(3, 1); (20494, 3); (21189, 6); (21285, 9); (21301, 12); (21366, 15); (21376, 18); (23253, 21); (23273, 24); (23898, 27); (25254, 30); (26833, 33); (26849, 36); (29184, 39); (29376, 42)];
     h_endings := [3; 20494; 29184];
     h_trees := [] |};
     hh_cwU := [(62, 6); (0, 9); (1, 9); (2, 9); (3, 9); (4, 9); (5, 9); (6, 9); (7, 9); (8, 9); (9, 9); (10, 9); (11, 9); (12, 9); (13, 9); (14, 9); (15, 9); (16, 9); (17, 9); (18, 9); (19, 9); (20, 9); (21, 9); (22, 9); (23, 9); (24, 9); (25, 9); (26, 9); (27, 9); (28, 9); (29, 9); (30, 9); (31, 9); (32, 9); (33, 9); (34, 9); (35, 9); (36, 9); (37, 9); (19, 8); (20, 8); (21, 8); (22, 8); (23, 8); (24, 8); (25, 8); (26, 8); (27, 8); (28, 8); (29, 8); (30, 8); (31, 8); (32, 8); (33, 8); (34, 8); (35, 8); (36, 8); (37, 8); (38, 8); (39, 8); (40, 8); (41, 8); (42, 8); (43, 8); (44, 8); (45, 8); (46, 8); (47, 8); (48, 8); (49, 8); (50, 8); (51, 8); (52, 8); (53, 8); (54, 8); (55, 8); (56, 8); (57, 8); (58, 8); (59, 8); (60, 8); (61, 8); (62, 8); (63, 8); (64, 8); (65, 8); (66, 8); (67, 8); (68, 8); (69, 8); (70, 8); (71, 8); (72, 8); (73, 8); (74, 8); (75, 8); (76, 8); (63, 6); (78, 8); (224, 8); (116, 7); (114, 7); (219, 8); (83, 8); (84, 8); (119, 7); (86, 8); (220, 8); (118, 7); (89, 8); (113, 7); (61, 6); (92, 8); (93, 8); (60, 6); (223, 8); (96, 8); (97, 8); (98, 8); (222, 8); (100, 8); (101, 8); (221, 8); (103, 8); (104, 8); (105, 8); (106, 8); (107, 8); (115, 7); (117, 7); (110, 8); (225, 8); (112, 8); (113, 8); (114, 8); (115, 8); (116, 8); (117, 8); (118, 8); (119, 8); (120, 8); (121, 8); (122, 8); (123, 8); (124, 8); (125, 8); (126, 8); (127, 8); (128, 8); (129, 8); (130, 8); (131, 8); (132, 8); (133, 8); (134, 8); (135, 8); (136, 8); (137, 8); (138, 8); (139, 8); (140, 8); (141, 8); (142, 8); (143, 8); (144, 8); (145, 8); (146, 8); (147, 8); (148, 8); (149, 8); (150, 8); (151, 8); (152, 8); (153, 8); (154, 8); (155, 8); (156, 8); (157, 8); (158, 8); (159, 8); (160, 8); (161, 8); (162, 8); (163, 8); (164, 8); (165, 8); (166, 8); (167, 8); (168, 8); (169, 8); (170, 8); (171, 8); (172, 8); (173, 8); (174, 8); (175, 8); (176, 8); (177, 8); (178, 8); (179, 8); (180, 8); (181, 8); (182, 8); (183, 8); (184, 8); (185, 8); (186, 8); (187, 8); (188, 8); (189, 8); (190, 8); (191, 8); (192, 8); (193, 8); (194, 8); (195, 8); (196, 8); (197, 8); (198, 8); (199, 8); (200, 8); (201, 8); (202, 8); (203, 8); (204, 8); (205, 8); (206, 8); (207, 8); (208, 8); (209, 8); (210, 8); (211, 8); (212, 8); (213, 8); (214, 8); (215, 8); (216, 8); (111, 8); (109, 8); (108, 8); (102, 8); (99, 8); (95, 8); (94, 8); (91, 8); (90, 8); (88, 8); (87, 8); (85, 8); (82, 8); (81, 8); (80, 8); (79, 8); (217, 8); (77, 8); (218, 8)];
     hh_kU := 16;
     hh_streamU := [0; 45; 107; 97; 45; 122; 111; 47; 131; 115; 45; 110; 105; 44; 110; 97; 45; 101; 108; 32; 101; 0; 46; 128; 99; 45; 128; 100; 44; 100; 111; 44; 129; 111; 44; 108; 111; 46; 105; 102; 44; 114; 105; 43; 114; 97; 43; 111; 114; 16; 0; 44; 0; 129; 45; 97; 119; 44; 97; 108; 43; 97; 114; 43; 97; 0];
     hh_tabU := [(56575, 1); (56823, 4); (57823, 7); (58335, 10); (58367, 13); (58843, 16); (58864, 19); (59329, 22); (59347, 25); (59887, 28); (60399, 31); (60911, 34); (61367, 37); (62398, 40); (62462, 43); (63438, 46); (63488, 49); (64431, 51); (65403, 54); (65463, 57); (65486, 60); (65518, 63)];
     hh_endingsU := [58864; 63488; 64431; 65518];
     hh_treesU := [] |}.
Definition hhx_t16_S : list str := [[97; 97; 97; 97; 97; 97; 97; 97; 97; 97; 97; 97; 97; 97; 97; 97; 97; 97; 97; 97; 97; 97; 97; 97; 97; 97; 97; 97; 97; 97; 97; 97; 97; 97; 97; 97; 97; 97; 97; 97; 97; 97; 97; 97; 97; 97; 97; 97; 97; 97; 97; 97; 97; 97; 97; 97; 97; 97; 97; 97; 97; 97; 97; 97; 97; 97; 97; 97; 97; 97; 97; 97; 97; 97; 97; 97; 97; 97; 97; 97; 97; 97; 97; 97; 97; 97; 97; 97; 97; 97; 97; 97; 97; 97; 97; 97; 97; 97; 97; 97; 97; 97; 97; 97; 97; 97; 97; 97; 97; 97; 97; 97; 97; 97; 97; 97; 97; 97; 97; 97; 97; 97; 97; 97; 97; 97; 97; 97]; [97; 97; 97; 97; 97; 97; 97; 97; 97; 97; 97; 97; 97; 97; 97; 97; 97; 97; 97; 97; 97; 97; 97; 97; 97; 97; 97; 97; 97; 97; 97; 97; 97; 97; 97; 97; 97; 97; 97; 97; 97; 97; 97; 97; 97; 97; 97; 97; 97; 97; 97; 97; 97; 97; 97; 97; 97; 97; 97; 97; 97; 97; 97; 97; 97; 97; 97; 97; 97; 97; 97; 97; 97; 97; 97; 97; 97; 97; 97; 97; 97; 97; 97; 97; 97; 97; 97; 97; 97; 97; 97; 97; 97; 97; 97; 97; 97; 97; 97; 97; 97; 97; 97; 97; 97; 97; 97; 97; 97; 97; 97; 97; 97; 97; 97; 97; 97; 97; 97; 97; 97; 97; 97; 97; 97; 97; 97; 97; 98]; [97; 97; 97; 97; 97; 97; 97; 97; 97; 97; 97; 97; 97; 97; 97; 97; 97; 97; 97; 97; 97; 97; 97; 97; 97; 97; 97; 97; 97; 97; 97; 97; 97; 97; 97; 97; 97; 97; 97; 97; 97; 97; 97; 97; 97; 97; 97; 97; 97; 97; 97; 97; 97; 97; 97; 97; 97; 97; 97; 97; 97; 97; 97; 97; 97; 97; 97; 97; 97; 97; 97; 97; 97; 97; 97; 97; 97; 97; 97; 97; 97; 97; 97; 97; 97; 97; 97; 97; 97; 97; 97; 97; 97; 97; 97; 97; 97; 97; 97; 97; 97; 97; 97; 97; 97; 97; 97; 97; 97; 97; 97; 97; 97; 97; 97; 97; 97; 97; 97; 97; 97; 97; 97; 97; 97; 97; 97; 97; 99]; [97; 97; 97; 97; 97; 97; 97; 97; 97; 97; 97; 97; 97; 97; 97; 97; 97; 97; 97; 97; 97; 97; 97; 97; 97; 97; 97; 97; 97; 97; 97; 97; 97; 97; 97; 97; 97; 97; 97; 97; 97; 97; 97; 97; 97; 97; 97; 97; 97; 97; 97; 97; 97; 97; 97; 97; 97; 97; 97; 97; 97; 97; 97; 97; 97; 97; 97; 97; 97; 97; 97; 97; 97; 97; 97; 97; 97; 97; 97; 97; 97; 97; 97; 97; 97; 97; 97; 97; 97; 97; 97; 97; 97; 97; 97; 97; 97; 97; 97; 97; 97; 97; 97; 97; 97; 97; 97; 97; 97; 97; 97; 97; 97; 97; 97; 97; 97; 97; 97; 97; 97; 97; 97; 97; 97; 97; 97; 97; 100]; [97; 97; 97; 97; 97; 97; 97; 97; 97; 97; 97; 97; 97; 97; 97; 97; 97; 97; 97; 97; 97; 97; 97; 97; 97; 97; 97; 97; 97; 97; 97; 97; 97; 97; 97; 97; 97; 97; 97; 97; 97; 97; 97; 97; 97; 97; 97; 97; 97; 97; 97; 97; 97; 97; 97; 97; 97; 97; 97; 97; 97; 97; 97; 97; 97; 97; 97; 97; 97; 97; 97; 97; 97; 97; 97; 97; 97; 97; 97; 97; 97; 97; 97; 97; 97; 97; 97; 97; 97; 97; 97; 97; 97; 97; 97; 97; 97; 97; 97; 97; 97; 97; 97; 97; 97; 97; 97; 97; 97; 97; 97; 97; 97; 97; 97; 97; 97; 97; 97; 97; 97; 97; 97; 97; 97; 97; 97; 97; 101]; [97; 97; 97; 97; 97; 97; 97; 97; 97; 97; 97; 97; 97; 97; 97; 97; 97; 97; 97; 97; 97; 97; 97; 97; 97; 97; 97; 97; 97; 97; 97; 97; 97; 97; 97; 97; 97; 97; 97; 97; 97; 97; 97; 97; 97; 97; 97; 97; 97; 97; 97; 97; 97; 97; 97; 97; 97; 97; 97; 97; 97; 97; 97; 97; 97; 97; 97; 97; 97; 97; 97; 97; 97; 97; 97; 97; 97; 97; 97; 97; 97; 97; 97; 97; 97; 97; 97; 97; 97; 97; 97; 97; 97; 97; 97; 97; 97; 97; 97; 97; 97; 97; 97; 97; 97; 97; 97; 97; 97; 97; 97; 97; 97; 97; 97; 97; 97; 97; 97; 97; 97; 97; 97; 97; 97; 97; 97; 97; 102]; [97; 97; 97; 97; 97; 97; 97; 97; 97; 97; 97; 97; 97; 97; 97; 97; 97; 97; 97; 97; 97; 97; 97; 97; 97; 97; 97; 97; 97; 97; 97; 97; 97; 97; 97; 97; 97; 97; 97; 97; 97; 97; 97; 97; 97; 97; 97; 97; 97; 97; 97; 97; 97; 97; 97; 97; 97; 97; 97; 97; 97; 97; 97; 97; 97; 97; 97; 97; 97; 97; 97; 97; 97; 97; 97; 97; 97; 97; 97; 97; 97; 97; 97; 97; 97; 97; 97; 97; 97; 97; 97; 97; 97; 97; 97; 97; 97; 97; 97; 97; 97; 97; 97; 97; 97; 97; 97; 97; 97; 97; 97; 97; 97; 97; 97; 97; 97; 97; 97; 97; 97; 97; 97; 97; 97; 97; 97; 97; 103]; [97; 97; 97; 97; 97; 97; 97; 97; 97; 97; 97; 97; 97; 97; 97; 97; 97; 97; 97; 97; 97; 97; 97; 97; 97; 97; 97; 97; 97; 97; 97; 97; 97; 97; 97; 97; 97; 97; 97; 97; 97; 97; 97; 97; 97; 97; 97; 97; 97; 97; 97; 97; 97; 97; 97; 97; 97; 97; 97; 97; 97; 97; 97; 97; 97; 97; 97; 97; 97; 97; 97; 97; 97; 97; 97; 97; 97; 97; 97; 97; 97; 97; 97; 97; 97; 97; 97; 97; 97; 97; 97; 97; 97; 97; 97; 97; 97; 97; 97; 97; 97; 97; 97; 97; 97; 97; 97; 97; 97; 97; 97; 97; 97; 97; 97; 97; 97; 97; 97; 97; 97; 97; 97; 97; 97; 97; 97; 97; 104]; [97; 97; 97; 97; 97; 97; 97; 97; 97; 97; 97; 97; 97; 97; 97; 97; 97; 97; 97; 97; 97; 97; 97; 97; 97; 97; 97; 97; 97; 97; 97; 97; 97; 97; 97; 97; 97; 97; 97; 97; 97; 97; 97; 97; 97; 97; 97; 97; 97; 97; 97; 97; 97; 97; 97; 97; 97; 97; 97; 97; 97; 97; 97; 97; 97; 97; 97; 97; 97; 97; 97; 97; 97; 97; 97; 97; 97; 97; 97; 97; 97; 97; 97; 97; 97; 97; 97; 97; 97; 97; 97; 97; 97; 97; 97; 97; 97; 97; 97; 97; 97; 97; 97; 97; 97; 97; 97; 97; 97; 97; 97; 97; 97; 97; 97; 97; 97; 97; 97; 97; 97; 97; 97; 97; 97; 97; 97; 97; 105]; [97; 97; 97; 97; 97; 97; 97; 97; 97; 97; 97; 97; 97; 97; 97; 97; 97; 97; 97; 97; 97; 97; 97; 97; 97; 97; 97; 97; 97; 97; 97; 97; 97; 97; 97; 97; 97; 97; 97; 97; 97; 97; 97; 97; 97; 97; 97; 97; 97; 97; 97; 97; 97; 97; 97; 97; 97; 97; 97; 97; 97; 97; 97; 97; 97; 97; 97; 97; 97; 97; 97; 97; 97; 97; 97; 97; 97; 97; 97; 97; 97; 97; 97; 97; 97; 97; 97; 97; 97; 97; 97; 97; 97; 97; 97; 97; 97; 97; 97; 97; 97; 97; 97; 97; 97; 97; 97; 97; 97; 97; 97; 97; 97; 97; 97; 97; 97; 97; 97; 97; 97; 97; 97; 97; 97; 97; 97; 97; 106]; [97; 97; 97; 97; 97; 97; 97; 97; 97; 97; 97; 97; 97; 97; 97; 97; 97; 97; 97; 97; 97; 97; 97; 97; 97; 97; 97; 97; 97; 97; 97; 97; 97; 97; 97; 97; 97; 97; 97; 97; 97; 97; 97; 97; 97; 97; 97; 97; 97; 97; 97; 97; 97; 97; 97; 97; 97; 97; 97; 97; 97; 97; 97; 97; 97; 97; 97; 97; 97; 97; 97; 97; 97; 97; 97; 97; 97; 97; 97; 97; 97; 97; 97; 97; 97; 97; 97; 97; 97; 97; 97; 97; 97; 97; 97; 97; 97; 97; 97; 97; 97; 97; 97; 97; 97; 97; 97; 97; 97; 97; 97; 97; 97; 97; 97; 97; 97; 97; 97; 97; 97; 97; 97; 97; 97; 97; 97; 97; 107]; [97; 97; 97; 97; 97; 97; 97; 97; 97; 97; 97; 97; 97; 97; 97; 97; 97; 97; 97; 97; 97; 97; 97; 97; 97; 97; 97; 97; 97; 97; 97; 97; 97; 97; 97; 97; 97; 97; 97; 97; 97; 97; 97; 97; 97; 97; 97; 97; 97; 97; 97; 97; 97; 97; 97; 97; 97; 97; 97; 97; 97; 97; 97; 97; 97; 97; 97; 97; 97; 97; 97; 97; 97; 97; 97; 97; 97; 97; 97; 97; 97; 97; 97; 97; 97; 97; 97; 97; 97; 97; 97; 97; 97; 97; 97; 97; 97; 97; 97; 97; 97; 97; 97; 97; 97; 97; 97; 97; 97; 97; 97; 97; 97; 97; 97; 97; 97; 97; 97; 97; 97; 97; 97; 97; 97; 97; 97; 97; 108]; [97; 97; 97; 97; 97; 97; 97; 97; 97; 97; 97; 97; 97; 97; 97; 97; 97; 97; 97; 97; 97; 97; 97; 97; 97; 97; 97; 97; 97; 97; 97; 97; 97; 97; 97; 97; 97; 97; 97; 97; 97; 97; 97; 97; 97; 97; 97; 97; 97; 97; 97; 97; 97; 97; 97; 97; 97; 97; 97; 97; 97; 97; 97; 97; 97; 97; 97; 97; 97; 97; 97; 97; 97; 97; 97; 97; 97; 97; 97; 97; 97; 97; 97; 97; 97; 97; 97; 97; 97; 97; 97; 97; 97; 97; 97; 97; 97; 97; 97; 97; 97; 97; 97; 97; 97; 97; 97; 97; 97; 97; 97; 97; 97; 97; 97; 97; 97; 97; 97; 97; 97; 97; 97; 97; 97; 97; 97; 97; 109]; [97; 97; 97; 97; 97; 97; 97; 97; 97; 97; 97; 97; 97; 97; 97; 97; 97; 97; 97; 97; 97; 97; 97; 97; 97; 97; 97; 97; 97; 97; 97; 97; 97; 97; 97; 97; 97; 97; 97; 97; 97; 97; 97; 97; 97; 97; 97; 97; 97; 97; 97; 97; 97; 97; 97; 97; 97; 97; 97; 97; 97; 97; 97; 97; 97; 97; 97; 97; 97; 97; 97; 97; 97; 97; 97; 97; 97; 97; 97; 97; 97; 97; 97; 97; 97; 97; 97; 97; 97; 97; 97; 97; 97; 97; 97; 97; 97; 97; 97; 97; 97; 97; 97; 97; 97; 97; 97; 97; 97; 97; 97; 97; 97; 97; 97; 97; 97; 97; 97; 97; 97; 97; 97; 97; 97; 97; 97; 97; 110]; [97; 97; 97; 97; 97; 97; 97; 97; 97; 97; 97; 97; 97; 97; 97; 97; 97; 97; 97; 97; 97; 97; 97; 97; 97; 97; 97; 97; 97; 97; 97; 97; 97; 97; 97; 97; 97; 97; 97; 97; 97; 97; 97; 97; 97; 97; 97; 97; 97; 97; 97; 97; 97; 97; 97; 97; 97; 97; 97; 97; 97; 97; 97; 97; 97; 97; 97; 97; 97; 97; 97; 97; 97; 97; 97; 97; 97; 97; 97; 97; 97; 97; 97; 97; 97; 97; 97; 97; 97; 97; 97; 97; 97; 97; 97; 97; 97; 97; 97; 97; 97; 97; 97; 97; 97; 97; 97; 97; 97; 97; 97; 97; 97; 97; 97; 97; 97; 97; 97; 97; 97; 97; 97; 97; 97; 97; 97; 97; 111]; [97; 97; 97; 97; 97; 97; 97; 97; 97; 97; 97; 97; 97; 97; 97; 97; 97; 97; 97; 97; 97; 97; 97; 97; 97; 97; 97; 97; 97; 97; 97; 97; 97; 97; 97; 97; 97; 97; 97; 97; 97; 97; 97; 97; 97; 97; 97; 97; 97; 97; 97; 97; 97; 97; 97; 97; 97; 97; 97; 97; 97; 97; 97; 97; 97; 97; 97; 97; 97; 97; 97; 97; 97; 97; 97; 97; 97; 97; 97; 97; 97; 97; 97; 97; 97; 97; 97; 97; 97; 97; 97; 97; 97; 97; 97; 97; 97; 97; 97; 97; 97; 97; 97; 97; 97; 97; 97; 97; 97; 97; 97; 97; 97; 97; 97; 97; 97; 97; 97; 97; 97; 97; 97; 97; 97; 97; 97; 97; 112]; [97; 97; 97; 97; 97; 97; 97; 97; 97; 97; 97; 97; 97; 97; 97; 97; 97; 97; 97; 97; 97; 97; 97; 97; 97; 97; 97; 97; 97; 97; 97; 97; 97; 97; 97; 97; 97; 97; 97; 97; 97; 97; 97; 97; 97; 97; 97; 97; 97; 97; 97; 97; 97; 97; 97; 97; 97; 97; 97; 97; 97; 97; 97; 97; 97; 97; 97; 97; 97; 97; 97; 97; 97; 97; 97; 97; 97; 97; 97; 97; 97; 97; 97; 97; 97; 97; 97; 97; 97; 97; 97; 97; 97; 97; 97; 97; 97; 97; 97; 97; 97; 97; 97; 97; 97; 97; 97; 97; 97; 97; 97; 97; 97; 97; 97; 97; 97; 97; 97; 97; 97; 97; 97; 97; 97; 97; 97; 97; 113]].
Definition hhx_t16_d : hhtfc :=
  {| hh_ht :=
  {| h_elements := 17; h_maxlength := 130; h_maxcomplength := 37; h_buckets := 1; h_bsize := 32;
     h_text := [85; 85; 85; 85; 85; 85; 85; 85; 85; 85; 85; 85; 85; 85; 85; 85; 85; 85; 85; 85; 85; 85; 85; 85; 85; 85; 85; 85; 85; 85; 85; 85; 0; 251; 159; 254; 231; 127; 185; 191; 238; 103; 251; 151; 254; 229; 127; 185; 63; 238; 71; 251; 143; 254; 227; 127; 184; 191; 238; 39; 251; 135; 254; 225; 127; 184; 63; 238; 7; 0; 0; 0];
     h_bl := [0; 0; 72];
     h_cw := [(0, 8); (2, 9); (3, 9); (4, 9); (5, 9); (6, 9); (7, 9); (8, 9); (9, 9); (10, 9); (11, 9); (12, 9); (13, 9); (14, 9); (15, 9); (16, 9); (17, 9); (18, 9); (19, 9); (20, 9); (21, 9); (22, 9); (23, 9); (24, 9); (25, 9); (26, 9); (27, 9); (28, 9); (29, 9); (30, 9); (31, 9); (32, 9); (33, 9); (34, 9); (35, 9); (36, 9); (37, 9); (38, 9); (39, 9); (40, 9); (41, 9); (42, 9); (43, 9); (44, 9); (45, 9); (46, 9); (47, 9); (48, 9); (49, 9); (50, 9); (51, 9); (52, 9); (53, 9); (54, 9); (55, 9); (56, 9); (57, 9); (58, 9); (59, 9); (60, 9); (61, 9); (62, 9); (63, 9); (64, 9); (65, 9); (66, 9); (67, 9); (34, 8); (35, 8); (36, 8); (37, 8); (38, 8); (39, 8); (40, 8); (41, 8); (42, 8); (43, 8); (44, 8); (45, 8); (46, 8); (47, 8); (48, 8); (49, 8); (50, 8); (51, 8); (52, 8); (53, 8); (54, 8); (55, 8); (56, 8); (57, 8); (58, 8); (59, 8); (60, 8); (61, 8); (62, 8); (63, 8); (1, 2); (256, 9); (257, 9); (258, 9); (259, 9); (260, 9); (261, 9); (262, 9); (263, 9); (264, 9); (265, 9); (266, 9); (267, 9); (268, 9); (269, 9); (270, 9); (271, 9); (272, 9); (273, 9); (274, 9); (275, 9); (276, 9); (277, 9); (278, 9); (279, 9); (280, 9); (281, 9); (282, 9); (283, 9); (284, 9); (285, 9); (286, 9); (287, 9); (288, 9); (289, 9); (290, 9); (291, 9); (292, 9); (293, 9); (294, 9); (295, 9); (296, 9); (297, 9); (298, 9); (299, 9); (300, 9); (301, 9); (302, 9); (303, 9); (304, 9); (305, 9); (306, 9); (307, 9); (308, 9); (309, 9); (310, 9); (311, 9); (312, 9); (313, 9); (314, 9); (315, 9); (158, 8); (159, 8); (160, 8); (161, 8); (162, 8); (163, 8); (164, 8); (165, 8); (166, 8); (167, 8); (168, 8); (169, 8); (170, 8); (171, 8); (172, 8); (173, 8); (174, 8); (175, 8); (176, 8); (177, 8); (178, 8); (179, 8); (180, 8); (181, 8); (182, 8); (183, 8); (184, 8); (185, 8); (186, 8); (187, 8); (188, 8); (189, 8); (190, 8); (191, 8); (192, 8); (193, 8); (194, 8); (195, 8); (196, 8); (197, 8); (198, 8); (199, 8); (200, 8); (201, 8); (202, 8); (203, 8); (204, 8); (205, 8); (206, 8); (207, 8); (208, 8); (209, 8); (210, 8); (211, 8); (212, 8); (213, 8); (214, 8); (215, 8); (216, 8); (217, 8); (218, 8); (219, 8); (220, 8); (221, 8); (222, 8); (223, 8); (224, 8); (225, 8); (226, 8); (227, 8); (228, 8); (229, 8); (230, 8); (231, 8); (232, 8); (233, 8); (234, 8); (235, 8); (236, 8); (237, 8); (238, 8); (239, 8); (240, 8); (241, 8); (242, 8); (243, 8); (244, 8); (245, 8); (246, 8); (247, 8); (248, 8); (249, 8); (250, 8); (251, 8); (252, 8); (253, 8); (254, 8); (255, 8)];
     h_k := 16;
     h_stream := [0; 16; 0; 143; 97; 97; 97; 97; 97; 97; 97; 97];
     h_tab := [(251, 1); (21845, 3)];
     h_endings := [251];
     h_trees := [] |};
     hh_cwU := [(7, 3); (0, 9); (1, 9); (2, 9); (3, 9); (4, 9); (5, 9); (6, 9); (7, 9); (8, 9); (9, 9); (10, 9); (11, 9); (12, 9); (13, 9); (14, 9); (15, 9); (16, 9); (17, 9); (18, 9); (19, 9); (20, 9); (21, 9); (22, 9); (23, 9); (24, 9); (25, 9); (26, 9); (27, 9); (28, 9); (29, 9); (30, 9); (31, 9); (32, 9); (33, 9); (34, 9); (35, 9); (36, 9); (37, 9); (38, 9); (39, 9); (40, 9); (41, 9); (42, 9); (43, 9); (44, 9); (45, 9); (46, 9); (47, 9); (48, 9); (49, 9); (50, 9); (51, 9); (52, 9); (53, 9); (54, 9); (55, 9); (56, 9); (57, 9); (58, 9); (59, 9); (60, 9); (61, 9); (62, 9); (63, 9); (64, 9); (65, 9); (66, 9); (67, 9); (68, 9); (69, 9); (70, 9); (71, 9); (72, 9); (73, 9); (74, 9); (75, 9); (76, 9); (77, 9); (78, 9); (79, 9); (80, 9); (81, 9); (82, 9); (83, 9); (84, 9); (85, 9); (86, 9); (87, 9); (88, 9); (89, 9); (90, 9); (91, 9); (46, 8); (47, 8); (48, 8); (49, 8); (50, 8); (207, 8); (206, 8); (205, 8); (204, 8); (203, 8); (202, 8); (201, 8); (200, 8); (199, 8); (198, 8); (197, 8); (196, 8); (195, 8); (194, 8); (193, 8); (192, 8); (67, 8); (68, 8); (69, 8); (70, 8); (71, 8); (72, 8); (73, 8); (74, 8); (75, 8); (76, 8); (77, 8); (78, 8); (79, 8); (80, 8); (81, 8); (13, 4); (83, 8); (84, 8); (85, 8); (86, 8); (87, 8); (88, 8); (89, 8); (90, 8); (91, 8); (92, 8); (93, 8); (94, 8); (95, 8); (96, 8); (97, 8); (98, 8); (99, 8); (100, 8); (101, 8); (102, 8); (103, 8); (104, 8); (105, 8); (106, 8); (107, 8); (108, 8); (109, 8); (110, 8); (111, 8); (112, 8); (113, 8); (114, 8); (115, 8); (116, 8); (117, 8); (118, 8); (119, 8); (120, 8); (121, 8); (122, 8); (123, 8); (124, 8); (125, 8); (126, 8); (127, 8); (128, 8); (129, 8); (130, 8); (131, 8); (132, 8); (133, 8); (134, 8); (135, 8); (136, 8); (137, 8); (138, 8); (139, 8); (140, 8); (141, 8); (142, 8); (143, 8); (144, 8); (145, 8); (146, 8); (147, 8); (148, 8); (149, 8); (150, 8); (151, 8); (152, 8); (153, 8); (154, 8); (155, 8); (156, 8); (157, 8); (158, 8); (159, 8); (160, 8); (161, 8); (162, 8); (163, 8); (164, 8); (165, 8); (166, 8); (167, 8); (168, 8); (169, 8); (170, 8); (171, 8); (172, 8); (173, 8); (174, 8); (175, 8); (176, 8); (177, 8); (178, 8); (179, 8); (180, 8); (181, 8); (182, 8); (183, 8); (184, 8); (185, 8); (186, 8); (187, 8); (188, 8); (189, 8); (82, 8); (66, 8); (65, 8); (64, 8); (63, 8); (62, 8); (61, 8); (60, 8); (59, 8); (58, 8); (57, 8); (56, 8); (55, 8); (54, 8); (53, 8); (52, 8); (51, 8); (190, 8); (191, 8)];
     hh_kU := 16;
     hh_streamU := [0; 61; 111; 0; 0; 61; 108; 0; 0; 61; 105; 0; 0; 61; 102; 0; 0; 61; 99; 0; 0; 62; 129; 112; 0; 62; 129; 109; 0; 62; 129; 106; 0; 62; 129; 103; 0; 62; 129; 100; 0; 16; 0; 62; 0; 129; 113; 62; 0; 129; 110; 62; 0; 129; 107; 62; 0; 129; 104; 62; 0; 129; 101; 62; 0; 129; 98; 57; 0; 0; 129];
     hh_tabU := [(49919, 1); (50687, 5); (51455, 9); (52223, 13); (52991, 17); (56351, 21); (56399, 25); (56447, 29); (56495, 33); (56543, 37); (57344, 41); (64385, 43); (64391, 47); (64397, 51); (64403, 55); (64409, 59); (64415, 63); (65392, 67); (65393, 67); (65394, 67); (65395, 67)];
     hh_endingsU := [49919; 50687; 51455; 52223; 52991; 56351; 56399; 56447; 56495; 56543; 57344; 64385; 64391; 64397; 64403; 64409; 64415; 65392; 65393; 65394; 65395];
     hh_treesU := [] |}.

Lemma hhx_usa_checked :
  hhtfc_check hhx_usa_S hhx_usa_d = true /\ valid_set_b hhx_usa_S = true /\ hhtfc_layout_chk hhx_usa_S hhx_usa_d = true.
Proof. vm_compute. auto. Qed.

Lemma hhx_usa_valid : valid_set hhx_usa_S.
Proof. apply hvalid_set_b_sound. apply hhx_usa_checked. Qed.

(* the faithful model reproduces the defect: the object of the real constructor for a valid set whose in-bucket shared
   prefixes are 128 does not answer extract(2) (the real code crashes in StatCoder::decodeString); the checker
   rejects the object, although the constructor laid the text out as specified *)
Theorem hhtfc_lcp128_refuted :
  valid_set_b hhx_t16_S = true /\
  spec_extract hhx_t16_S 2 = Some (repeat 97 128 ++ [98]) /\ hhtfc_extract hhx_t16_d 2 = None /\
  hhtfc_check hhx_t16_S hhx_t16_d = false /\ hhtfc_layout_chk hhx_t16_S hhx_t16_d = true.
Proof. vm_compute. auto 10. Qed.

(* the hypotheses of [decode_string_item] for the HUFFMAN view of hhx_usa: the second string of bucket 1 (alaska after
   alabama, lcp 3), read from the state decodeHeader(1) (tableHT) + resetScan(1) leave *)
Definition hhx_st1 : bst * ast :=
  match opt_bind (decode_header (hh_ht hhx_usa_d) 1) (reset_scan (hh_ht hhx_usa_d) 1) with Some st => st | None => st0_dummy end.
Definition hhx_walk : bst * list N :=
  match item_walk 20 (hh_hu hhx_usa_d) (fst hhx_st1) [] 5 with Some r => r | None => (fst st0_dummy, []) end.

Lemma hhx_item_hyps :
  holds_adv (snd hhx_st1) [97; 108; 97; 98; 97; 109; 97] [] /\
  reads (hh_hu hhx_usa_d) (fst hhx_st1) [] (lenN (((3 + 128) :: [115; 107; 97]) ++ [0])) (fst hhx_walk) (snd hhx_walk) /\
  snd hhx_walk = (((3 + 128) :: [115; 107; 97]) ++ [0]) ++ skipN 5 (snd hhx_walk) /\
  lenN [97; 108; 97; 98; 97; 109; 97] + 1 + lenN (snd hhx_walk) < str_cap (hh_ht hhx_usa_d).
Proof.
  split; [|split; [|split]].
  - split; [vm_compute; reflexivity|]. split; [vm_compute; reflexivity|].
    assert (E : exists rest, a_buf (snd hhx_st1) = ([97; 108; 97; 98; 97; 109; 97] ++ [0]) ++ rest).
    { eexists. vm_compute. reflexivity. }
    destruct E as [rest E]. rewrite E. apply buf_at_0_intro.
  - apply (item_walk_sound (hh_hu hhx_usa_d) 20). vm_compute. reflexivity.
  - vm_compute. reflexivity.
  - vm_compute. reflexivity.
Qed.

(* the second checker on the two dumped objects *)
Lemma hhx_checked2 : hhtfc_check2 hhx_usa_S hhx_usa_d = true /\ hhtfc_check2 hhx_t16_S hhx_t16_d = false.
Proof. vm_compute. auto. Qed.
