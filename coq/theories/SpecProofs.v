(* Sanity theorems of the specification itself: it really is a bijection
   [1,n] <-> S, absent strings give 0, order-preserving, prefix ranges are
   contiguous, substring IDs are duplicate-free and ascending. *)
From LibCSD Require Import Base Spec.
Local Open Scope N_scope.

(* ---- lexicographic order ---------------------------------------------------- *)

Lemma lex_compare_refl a : lex_compare a a = Eq.
Proof. induction a as [|x a IH]; simpl; [reflexivity|]. rewrite N.compare_refl. exact IH. Qed.

Lemma lex_compare_eq a b : lex_compare a b = Eq -> a = b.
Proof.
  revert b; induction a as [|x a IH]; intros [|y b]; simpl; try discriminate; auto.
  destruct (N.compare_spec x y) as [Hxy|Hxy|Hxy]; try discriminate. intros H. subst. f_equal. auto.
Qed.

Lemma lex_compare_eq_iff a b : lex_compare a b = Eq <-> a = b.
Proof. split; [apply lex_compare_eq|intros ->; apply lex_compare_refl]. Qed.

Lemma lex_compare_antisym a b : lex_compare b a = CompOpp (lex_compare a b).
Proof.
  revert b; induction a as [|x a IH]; intros [|y b]; simpl; auto.
  rewrite (N.compare_antisym x y). destruct (N.compare x y); simpl; auto.
Qed.

Lemma lex_lt_trans a b c : lex_lt a b -> lex_lt b c -> lex_lt a c.
Proof.
  unfold lex_lt. revert b c; induction a as [|x a IH]; intros [|y b] [|z c]; simpl; try discriminate; auto.
  destruct (N.compare_spec x y) as [->|Hxy|Hxy]; try discriminate.
  - destruct (N.compare_spec y z) as [->|Hyz|Hyz]; try discriminate; auto. eauto.
  - intros _. destruct (N.compare_spec y z) as [->|Hyz|Hyz]; try discriminate.
    + intros _. destruct (N.compare_spec x z); try lia; reflexivity.
    + intros _. destruct (N.compare_spec x z); try lia; reflexivity.
Qed.

Lemma lex_lt_irrefl a : ~ lex_lt a a.
Proof. unfold lex_lt. rewrite lex_compare_refl. discriminate. Qed.

Lemma lex_lt_asym a b : lex_lt a b -> ~ lex_lt b a.
Proof. intros H1 H2. apply (lex_lt_irrefl a). eapply lex_lt_trans; eauto. Qed.

Lemma lex_total a b : lex_lt a b \/ a = b \/ lex_lt b a.
Proof.
  unfold lex_lt. destruct (lex_compare a b) eqn:E.
  - right; left. apply lex_compare_eq; assumption.
  - left; reflexivity.
  - right; right. rewrite lex_compare_antisym, E. reflexivity.
Qed.

Lemma str_eqb_eq a b : str_eqb a b = true <-> a = b.
Proof.
  unfold str_eqb. split.
  - destruct (lex_compare a b) eqn:E; try discriminate. intros _. apply lex_compare_eq; assumption.
  - intros ->. rewrite lex_compare_refl. reflexivity.
Qed.

Lemma str_eqb_neq a b : str_eqb a b = false <-> a <> b.
Proof.
  split.
  - intros H E. apply str_eqb_eq in E. congruence.
  - intros H. destruct (str_eqb a b) eqn:E; [|reflexivity]. apply str_eqb_eq in E. contradiction.
Qed.

(* ---- sortedness -------------------------------------------------------------- *)

Lemma sorted_tail s r : sorted_lt (s :: r) -> sorted_lt r.
Proof. inversion 1; subst; [constructor|assumption]. Qed.

Lemma sorted_head_lt s r : sorted_lt (s :: r) -> Forall (lex_lt s) r.
Proof.
  revert s; induction r as [|t r IH]; intros s H; [constructor|].
  inversion H; subst. constructor; [assumption|].
  specialize (IH t ltac:(assumption)).
  eapply Forall_impl; [|exact IH]. intros u Hu. eapply lex_lt_trans; eauto.
Qed.

Lemma sorted_NoDup S : sorted_lt S -> NoDup S.
Proof.
  induction S as [|s r IH]; intros H; constructor.
  - intros Hin. pose proof (sorted_head_lt s r H) as Hf. rewrite Forall_forall in Hf.
    apply (lex_lt_irrefl s). apply Hf. assumption.
  - apply IH. eapply sorted_tail; eauto.
Qed.

Lemma sorted_lt_b_sound S : sorted_lt_b S = true -> sorted_lt S.
Proof.
  induction S as [|s r IH]; [constructor|].
  cbn [sorted_lt_b]. destruct r as [|t r']; [constructor|].
  destruct (lex_compare s t) eqn:E; try discriminate. cbn [andb]. intros H. constructor; [exact E|auto].
Qed.

(* ---- locate / extract bijection ---------------------------------------------- *)

Lemma index_from_range q S i : 1 <= i -> index_from q S i = 0 \/ (i <= index_from q S i < i + lenN S).
Proof.
  revert i; induction S as [|s r IH]; intros i Hi; cbn [index_from]; [left; reflexivity|].
  rewrite lenN_cons. destruct (str_eqb s q).
  - right. lia.
  - destruct (IH (i + 1) ltac:(lia)) as [H|H]; [left; exact H|right; lia].
Qed.

Lemma index_from_absent q S i : 1 <= i -> (index_from q S i = 0 <-> ~ In q S).
Proof.
  revert i; induction S as [|s r IH]; intros i Hi; cbn [index_from].
  - split; auto.
  - destruct (str_eqb s q) eqn:E.
    + apply str_eqb_eq in E. subst. split; [lia|]. intros H. exfalso. apply H. left; reflexivity.
    + apply str_eqb_neq in E. rewrite IH by lia. simpl. tauto.
Qed.

Lemma index_from_nth q S i : 1 <= i -> index_from q S i <> 0 ->
  nthN S (index_from q S i - i) = Some q.
Proof.
  revert i; induction S as [|s r IH]; intros i Hi; cbn [index_from]; [congruence|].
  destruct (str_eqb s q) eqn:E.
  - apply str_eqb_eq in E. subst. intros _. rewrite N.sub_diag. reflexivity.
  - intros H. specialize (IH (i + 1) ltac:(lia) H).
    destruct (index_from_range q r (i + 1) ltac:(lia)) as [H0|H0]; [congruence|].
    unfold nthN in *. replace (N.to_nat (index_from q r (i + 1) - i)) with (S (N.to_nat (index_from q r (i + 1) - (i + 1)))) by lia.
    exact IH.
Qed.

Lemma nth_index_from S : forall i k s, 1 <= i -> NoDup S -> nthN S k = Some s -> index_from s S i = i + k.
Proof.
  induction S as [|t r IH]; intros i k s Hi Hnd Hk.
  - unfold nthN in Hk. destruct (N.to_nat k); discriminate.
  - cbn [index_from]. inversion Hnd as [|? ? Hnotin Hnd']; subst.
    destruct (N.eq_dec k 0) as [->|Hk0].
    + unfold nthN in Hk. simpl in Hk. inversion Hk; subst.
      replace (str_eqb s s) with true by (symmetry; apply str_eqb_eq; reflexivity). lia.
    + assert (Hk' : nthN r (k - 1) = Some s).
      { unfold nthN in *. replace (N.to_nat k) with (S (N.to_nat (k - 1))) in Hk by lia. exact Hk. }
      assert (t <> s).
      { intros ->. apply Hnotin. unfold nthN in Hk'. eapply nth_error_In; eauto. }
      replace (str_eqb t s) with false by (symmetry; apply str_eqb_neq; assumption).
      rewrite (IH (i + 1) (k - 1) s) by (auto; lia). lia.
Qed.

Theorem spec_locate_range S q : spec_locate S q = 0 \/ 1 <= spec_locate S q <= lenN S.
Proof. unfold spec_locate. destruct (index_from_range q S 1 ltac:(lia)); [left; assumption|right; lia]. Qed.

Theorem spec_locate_absent S q : spec_locate S q = 0 <-> ~ In q S.
Proof. unfold spec_locate. apply index_from_absent. lia. Qed.

Theorem spec_locate_member S s : In s S -> 1 <= spec_locate S s <= lenN S.
Proof.
  intros Hin. destruct (spec_locate_range S s) as [H|H]; [|exact H].
  apply spec_locate_absent in H. contradiction.
Qed.

Theorem spec_extract_locate S s : In s S -> spec_extract S (spec_locate S s) = Some s.
Proof.
  intros Hin. pose proof (spec_locate_member S s Hin) as Hr.
  unfold spec_extract. destruct (N.eqb_spec (spec_locate S s) 0); [lia|].
  unfold spec_locate in *. apply index_from_nth; lia.
Qed.

Theorem spec_locate_extract S i s : NoDup S -> spec_extract S i = Some s -> spec_locate S s = i.
Proof.
  intros Hnd. unfold spec_extract. destruct (N.eqb_spec i 0); [discriminate|].
  intros H. unfold spec_locate. rewrite (nth_index_from S 1 (i - 1) s); auto; lia.
Qed.

Theorem spec_extract_in_range S i : 1 <= i <= lenN S -> exists s, spec_extract S i = Some s /\ In s S.
Proof.
  intros Hi. unfold spec_extract. destruct (N.eqb_spec i 0); [lia|].
  destruct (nthN_lt_Some S (i - 1) ltac:(lia)) as [s Hs]. exists s. split; [exact Hs|].
  unfold nthN in Hs. eapply nth_error_In; eauto.
Qed.

Theorem spec_extract_out_of_range S i : i = 0 \/ lenN S < i -> spec_extract S i = None.
Proof.
  intros [->|Hi]; [reflexivity|]. unfold spec_extract. destruct (N.eqb_spec i 0); [reflexivity|].
  unfold nthN. apply nth_error_None. unfold lenN in Hi. lia.
Qed.

(* extract is injective on [1,n] for duplicate-free S: with the two theorems above,
   a bijection [1,n] <-> S *)
Theorem spec_extract_injective S i j s : NoDup S ->
  spec_extract S i = Some s -> spec_extract S j = Some s -> i = j.
Proof. intros Hnd Hi Hj. rewrite <- (spec_locate_extract S i s Hnd Hi). apply spec_locate_extract; assumption. Qed.

(* ---- order preservation ------------------------------------------------------- *)

Lemma sorted_nth_lt S : sorted_lt S -> forall i j s t, (i < j)%nat ->
  nth_error S i = Some s -> nth_error S j = Some t -> lex_lt s t.
Proof.
  induction S as [|u r IH]; intros Hs i j s t Hij Hi Hj.
  - destruct i; discriminate.
  - destruct j as [|j]; [lia|]. simpl in Hj.
    destruct i as [|i].
    + simpl in Hi. inversion Hi; subst. pose proof (sorted_head_lt s r Hs) as Hf.
      rewrite Forall_forall in Hf. apply Hf. eapply nth_error_In; eauto.
    + simpl in Hi. apply (IH (sorted_tail _ _ Hs) i j s t); [lia|exact Hi|exact Hj].
Qed.

Theorem spec_locate_monotone S s t : sorted_lt S -> In s S -> In t S -> lex_lt s t ->
  spec_locate S s < spec_locate S t.
Proof.
  intros Hs Hins Hint Hlt.
  pose proof (spec_extract_locate S s Hins) as Es. pose proof (spec_extract_locate S t Hint) as Et.
  pose proof (spec_locate_member S s Hins) as Rs. pose proof (spec_locate_member S t Hint) as Rt.
  unfold spec_extract in *.
  destruct (N.eqb_spec (spec_locate S s) 0); [lia|]. destruct (N.eqb_spec (spec_locate S t) 0); [lia|].
  destruct (N.lt_trichotomy (spec_locate S s) (spec_locate S t)) as [H|[H|H]]; [exact H| |].
  - rewrite H in Es. rewrite Es in Et. inversion Et; subst. exfalso. eapply lex_lt_irrefl; eauto.
  - exfalso. unfold nthN in *.
    assert (lex_lt t s) by (eapply (sorted_nth_lt S Hs (N.to_nat (spec_locate S t - 1)) (N.to_nat (spec_locate S s - 1))); eauto; lia).
    eapply lex_lt_asym; eauto.
Qed.

(* the i-th smallest: extract i is below extract j for i < j *)
Theorem spec_extract_rank S i j s t : sorted_lt S -> i < j ->
  spec_extract S i = Some s -> spec_extract S j = Some t -> lex_lt s t.
Proof.
  intros Hs Hij. unfold spec_extract.
  destruct (N.eqb_spec i 0); [discriminate|]. destruct (N.eqb_spec j 0); [discriminate|].
  unfold nthN. intros Hi Hj. apply (sorted_nth_lt S Hs (N.to_nat (i - 1)) (N.to_nat (j - 1)) s t); [lia|exact Hi|exact Hj].
Qed.

(* ---- id streams ---------------------------------------------------------------- *)

Lemma ids_where_spec f S i id : In id (ids_where f S i) <->
  exists s, i <= id /\ nthN S (id - i) = Some s /\ f s = true.
Proof.
  revert i; induction S as [|s r IH]; intros i; cbn [ids_where].
  - split; [intros []|]. intros (s & _ & H & _). unfold nthN in H. destruct (N.to_nat (id - i)); discriminate.
  - assert (Hstep : (exists s0, i + 1 <= id /\ nthN r (id - (i + 1)) = Some s0 /\ f s0 = true) <->
                    (exists s0, i < id /\ nthN (s :: r) (id - i) = Some s0 /\ f s0 = true)).
    { split; intros (s0 & H1 & H2 & H3); exists s0; (split; [lia|]); (split; [|exact H3]).
      - unfold nthN in *. replace (N.to_nat (id - i)) with (S (N.to_nat (id - (i + 1)))) by lia. exact H2.
      - unfold nthN in *. replace (N.to_nat (id - i)) with (S (N.to_nat (id - (i + 1)))) in H2 by lia. exact H2. }
    destruct (f s) eqn:E.
    + simpl. rewrite IH, Hstep. split.
      * intros [<-|(s0 & H1 & H2 & H3)].
        -- exists s. split; [lia|]. rewrite N.sub_diag. auto.
        -- exists s0. split; [lia|]. auto.
      * intros (s0 & H1 & H2 & H3). destruct (N.eq_dec i id) as [->|Hne]; [left; reflexivity|].
        right. exists s0. split; [lia|]. auto.
    + rewrite IH, Hstep. split.
      * intros (s0 & H1 & H2 & H3). exists s0. split; [lia|]. auto.
      * intros (s0 & H1 & H2 & H3). destruct (N.eq_dec i id) as [->|Hne].
        -- rewrite N.sub_diag in H2. unfold nthN in H2. simpl in H2. inversion H2; subst. congruence.
        -- exists s0. split; [lia|]. auto.
Qed.

Inductive ascending_from : N -> list N -> Prop :=
| asc_nil lo : ascending_from lo []
| asc_cons lo x r : lo <= x -> ascending_from (x + 1) r -> ascending_from lo (x :: r).

Lemma ids_where_ascending f S i : ascending_from i (ids_where f S i).
Proof.
  revert i; induction S as [|s r IH]; intros i; cbn [ids_where]; [constructor|].
  destruct (f s).
  - constructor; [lia|apply IH].
  - specialize (IH (i + 1)). clear -IH. revert IH. generalize (ids_where f r (i + 1)).
    intros l H. inversion H; subst; constructor; [lia|assumption].
Qed.

Lemma ascending_lb lo l x : ascending_from lo l -> In x l -> lo <= x.
Proof. induction 1; intros Hin; [destruct Hin|]. destruct Hin as [<-|Hin]; [assumption|]. specialize (IHascending_from Hin). lia. Qed.

Lemma ascending_NoDup lo l : ascending_from lo l -> NoDup l.
Proof.
  induction 1; constructor; auto. intros Hin.
  pose proof (ascending_lb _ _ _ H0 Hin). lia.
Qed.

(* membership of the prefix / substring ID streams: exactly the matching members,
   each once, ascending *)
Theorem spec_prefix_ids_spec S p id : In id (spec_prefix_ids S p) <->
  exists s, spec_extract S id = Some s /\ is_prefix p s = true.
Proof.
  unfold spec_prefix_ids, spec_extract. rewrite ids_where_spec. split.
  - intros (s & H1 & H2 & H3). exists s. destruct (N.eqb_spec id 0); [lia|]. auto.
  - intros (s & H1 & H2). destruct (N.eqb_spec id 0); [discriminate|]. exists s. split; [lia|]. auto.
Qed.

Theorem spec_substr_ids_spec S p id : In id (spec_substr_ids S p) <->
  exists s, spec_extract S id = Some s /\ is_infix p s = true.
Proof.
  unfold spec_substr_ids, spec_extract. rewrite ids_where_spec. split.
  - intros (s & H1 & H2 & H3). exists s. destruct (N.eqb_spec id 0); [lia|]. auto.
  - intros (s & H1 & H2). destruct (N.eqb_spec id 0); [discriminate|]. exists s. split; [lia|]. auto.
Qed.

Theorem spec_ids_NoDup f S : NoDup (ids_where f S 1).
Proof. eapply ascending_NoDup. apply ids_where_ascending. Qed.

(* ---- prefix matches of a sorted set are contiguous ------------------------------ *)

Lemma is_prefix_app p s : is_prefix p s = true <-> exists r, s = p ++ r.
Proof.
  revert s; induction p as [|x p IH]; intros s; simpl.
  - split; eauto.
  - destruct s as [|y s]; [split; [discriminate|intros (r & H); discriminate]|].
    rewrite andb_true_iff, IH, N.eqb_eq. split.
    + intros (-> & r & ->). eauto.
    + intros (r & H). inversion H; subst. eauto.
Qed.

Lemma lex_compare_app p a b : lex_compare (p ++ a) (p ++ b) = lex_compare a b.
Proof. induction p as [|x p IH]; simpl; [reflexivity|]. rewrite N.compare_refl. exact IH. Qed.

(* between two strings with prefix p, everything has prefix p *)
Lemma prefix_convex p s t u : is_prefix p s = true -> is_prefix p u = true ->
  lex_lt s t -> lex_lt t u -> is_prefix p t = true.
Proof.
  unfold lex_lt. revert s t u; induction p as [|x p IH]; intros s t u Hs Hu Hst Htu; [reflexivity|].
  destruct s as [|a s]; [discriminate|]. destruct u as [|c u]; [discriminate|].
  simpl in Hs, Hu. apply andb_true_iff in Hs as [Ha Hs]. apply andb_true_iff in Hu as [Hc Hu].
  apply N.eqb_eq in Ha, Hc. subst a c.
  destruct t as [|b t]; [simpl in Hst; discriminate|].
  simpl in Hst, Htu. simpl.
  destruct (N.compare_spec x b) as [->|Hxb|Hxb]; try discriminate.
  - rewrite N.compare_refl in Htu. rewrite N.eqb_refl. simpl. exact (IH s t u Hs Hu Hst Htu).
  - destruct (N.compare_spec b x); try discriminate; lia.
Qed.

Inductive contiguous : list N -> Prop :=
| contig_nil : contiguous []
| contig_one x : contiguous [x]
| contig_cons x r : contiguous ((x + 1) :: r) -> contiguous (x :: (x + 1) :: r).

Lemma ids_where_head_lb f S i x r : ids_where f S i = x :: r -> i <= x.
Proof.
  intros H. pose proof (ids_where_ascending f S i) as Ha. rewrite H in Ha. inversion Ha; assumption.
Qed.

Lemma ids_where_none f S : (forall u, In u S -> f u = false) -> forall k, ids_where f S k = [].
Proof.
  induction S as [|s r IH]; intros H k; cbn [ids_where]; [reflexivity|].
  rewrite (H s) by (left; reflexivity). apply IH. intros u Hu. apply H. right; assumption.
Qed.

Lemma no_match_after p s t r : sorted_lt (s :: t :: r) ->
  is_prefix p s = true -> is_prefix p t = false -> forall u, In u r -> is_prefix p u = false.
Proof.
  intros Hs Es Et u Hu. inversion Hs as [| |? ? ? Hst Hs']; subst.
  pose proof (sorted_head_lt t r Hs') as Hf. rewrite Forall_forall in Hf.
  destruct (is_prefix p u) eqn:Eu; [|reflexivity].
  rewrite (prefix_convex p s t u Es Eu Hst (Hf u Hu)) in Et. discriminate.
Qed.

Lemma prefix_ids_contiguous_from p : forall S i, sorted_lt S -> contiguous (ids_where (is_prefix p) S i).
Proof.
  induction S as [|s r IH]; intros i Hs; cbn [ids_where]; [constructor|].
  pose proof (sorted_tail _ _ Hs) as Hs'.
  destruct (is_prefix p s) eqn:E; [|apply IH; assumption].
  specialize (IH (i + 1) Hs').
  destruct r as [|t r']; [cbn [ids_where]; constructor|].
  cbn [ids_where] in *. destruct (is_prefix p t) eqn:Et; [constructor; exact IH|].
  rewrite (ids_where_none _ r' (no_match_after p s t r' Hs E Et)). constructor.
Qed.

Theorem spec_prefix_ids_contiguous S p : sorted_lt S -> contiguous (spec_prefix_ids S p).
Proof. intros. apply prefix_ids_contiguous_from. assumption. Qed.

(* ---- metadata --------------------------------------------------------------- *)
Lemma spec_maxlen_bounds_aux : forall S s, In s S -> lenN s <= spec_maxlen S.
Proof.
  unfold spec_maxlen. induction S as [|t r IH]; intros s Hin; [contradiction|].
  cbn [fold_right]. destruct Hin as [->|Hin]; [lia|]. specialize (IH s Hin). lia.
Qed.

Lemma spec_maxlen_attained_aux : forall S, S <> [] -> exists s, In s S /\ lenN s = spec_maxlen S.
Proof.
  unfold spec_maxlen. induction S as [|t r IH]; intros H; [congruence|].
  cbn [fold_right]. destruct r as [|u r'].
  - exists t. split; [left; reflexivity|]. cbn [fold_right]. lia.
  - destruct (IH ltac:(discriminate)) as (s & Hin & Hl).
    destruct (N.le_ge_cases (lenN t) (fold_right (fun s m => N.max (lenN s) m) 0 (u :: r'))) as [Hle|Hge].
    + exists s. split; [right; exact Hin|]. lia.
    + exists t. split; [left; reflexivity|]. lia.
Qed.

