(* C01 — locate/extract round trip: IDs 1..n are a bijection onto the string set.
   ONLY exported statements, each closed by [exact], followed by Print Assumptions.

   Part 1: the abstract dictionary specification (Spec.v) every kind is compared with has
   the property.  Part 2 (Properties_C01_PFC section below, added as the concrete-model
   theorems are proved): the byte-exact PFC model equals that specification. *)
From LibCSD Require Import Base Spec SpecProofs VByteDefs PFCDefs PFCLayout PFCBuildProofs PFCExtractProofs PFCLocateProofs PFCTheorems.
Local Open Scope N_scope.

Theorem C01_spec_locate_in_range : forall S s, In s S -> 1 <= spec_locate S s <= lenN S.
Proof. exact spec_locate_member. Qed.
Print Assumptions C01_spec_locate_in_range.

Theorem C01_spec_extract_locate : forall S s, In s S -> spec_extract S (spec_locate S s) = Some s.
Proof. exact spec_extract_locate. Qed.
Print Assumptions C01_spec_extract_locate.

Theorem C01_spec_locate_extract : forall S i s, NoDup S -> spec_extract S i = Some s -> spec_locate S s = i.
Proof. exact spec_locate_extract. Qed.
Print Assumptions C01_spec_locate_extract.

Theorem C01_spec_extract_total : forall S i, 1 <= i <= lenN S -> exists s, spec_extract S i = Some s /\ In s S.
Proof. exact spec_extract_in_range. Qed.
Print Assumptions C01_spec_extract_total.

Theorem C01_spec_extract_injective : forall S i j s, NoDup S ->
  spec_extract S i = Some s -> spec_extract S j = Some s -> i = j.
Proof. exact spec_extract_injective. Qed.
Print Assumptions C01_spec_extract_injective.

Theorem C01_sorted_sets_are_duplicate_free : forall S, sorted_lt S -> NoDup S.
Proof. exact sorted_NoDup. Qed.
Print Assumptions C01_sorted_sets_are_duplicate_free.

(* non-vacuity: a concrete valid set meets the hypotheses *)
Example C01_example : let S := [[97]; [97; 98]; [98; 2]; [254]] in
  sorted_lt S /\ spec_locate S [98; 2] = 3 /\ spec_extract S 3 = Some [98; 2].
Proof. cbv zeta. split; [apply sorted_lt_b_sound; reflexivity | split; reflexivity]. Qed.


(* ---- Part 2: the byte-exact model of StringDictionaryPFC (PFCDefs.v) ------------------ *)
(* the constructor's output has the front-coded layout, for EVERY string list and bucket size *)
Theorem C01_pfc_build_layout : forall b0 S, layout_ok (pfc_build b0 S) (clamp_bsize b0) S.
Proof. exact pfc_build_layout_gen. Qed.
Print Assumptions C01_pfc_build_layout.

(* extract = specification for every id (incl. 0 and ids beyond n); locate = specification for
   every NUL-free query; the memory-error outcome [None] is unreachable *)
Theorem C01_pfc_extract_spec : forall S, pfc_input S ->
  forall b0 id, pfc_extract (pfc_build b0 S) id = Some (spec_extract S id).
Proof. exact pfc_extract_built. Qed.
Print Assumptions C01_pfc_extract_spec.

Theorem C01_pfc_locate_spec : forall S q b0, pfc_input S -> nul_free q ->
  pfc_locate (pfc_build b0 S) q = Some (spec_locate S q).
Proof. exact pfc_locate_built. Qed.
Print Assumptions C01_pfc_locate_spec.

Theorem C01_pfc_round_trip : forall S b0 s, pfc_input S -> In s S ->
  exists id, pfc_locate (pfc_build b0 S) s = Some id /\ 1 <= id <= lenN S /\
             pfc_extract (pfc_build b0 S) id = Some (Some s).
Proof. exact pfc_round_trip. Qed.
Print Assumptions C01_pfc_round_trip.

Theorem C01_pfc_round_trip_id : forall S b0 i, pfc_input S -> 1 <= i <= lenN S ->
  exists s, pfc_extract (pfc_build b0 S) i = Some (Some s) /\ In s S /\
            pfc_locate (pfc_build b0 S) s = Some i.
Proof. exact pfc_round_trip_id. Qed.
Print Assumptions C01_pfc_round_trip_id.

(* any dictionary object whose fields have the layout (e.g. one reloaded from an image) answers alike *)
Theorem C01_pfc_any_object_with_layout : forall d b S q, layout_ok d b S -> 2 <= b -> pfc_input S -> nul_free q ->
  pfc_locate d q = Some (spec_locate S q).
Proof. exact pfc_locate_spec. Qed.
Print Assumptions C01_pfc_any_object_with_layout.

Theorem C01_valid_sets_are_pfc_inputs : forall S,
  valid_set S -> Forall (fun s => lenN s < 2 ^ 32) S -> lenN S < 2 ^ 32 -> pfc_input S.
Proof. exact valid_set_pfc_input. Qed.
Print Assumptions C01_valid_sets_are_pfc_inputs.

Example C01_pfc_example : pfc_input thm_ex_S /\ pfc_locate (pfc_build 3 thm_ex_S) [97; 98; 100] = Some 4
  /\ pfc_extract (pfc_build 3 thm_ex_S) 4 = Some (Some [97; 98; 100]).
Proof. split; [exact thm_ex_input|split; vm_compute; reflexivity]. Qed.
