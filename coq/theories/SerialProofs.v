(* SerialProofs.v -- the generic round-trip theorem for serialisation schemas (C06) and the generic facts behind
   C16 (foreign image / unknown tag).  See SerialDefs.v for the model. *)
From Coq Require Import List NArith String Bool Lia.
From LibCSD Require Import Base Bytes SerialDefs.
Import ListNotations.
Local Open Scope string_scope.
Local Open Scope N_scope.
Local Open Scope list_scope.

(* ---------- small facts ---------- *)
Lemma take_app a r k : length a = k -> take k (a ++ r) = Some (a, r).
Proof.
  intros H. unfold take.
  assert (Hle : (k <=? length (a ++ r))%nat = true) by (apply Nat.leb_le; rewrite app_length; lia).
  rewrite Hle, firstn_app_exact, skipn_app_exact by exact H. reflexivity.
Qed.

Lemma peek4_app out rest t : peek4 out = Some t -> peek4 (out ++ rest) = Some t.
Proof.
  unfold peek4, take. destruct (4 <=? length out)%nat eqn:E; [|discriminate].
  apply Nat.leb_le in E. intros H. inversion H; subst; clear H.
  assert (Hle : (4 <=? length (out ++ rest))%nat = true) by (apply Nat.leb_le; rewrite app_length; lia).
  rewrite Hle. rewrite firstn_app.
  replace (4 - length out)%nat with 0%nat by lia. simpl firstn at 2. rewrite app_nil_r. reflexivity.
Qed.

Lemma assoc_app_some {A} x (l m : list (string * A)) v : assoc x l = Some v -> assoc x (l ++ m) = Some v.
Proof.
  induction l as [|[k w] l IH]; simpl; [discriminate|].
  destruct (String.eqb x k); auto.
Qed.

Lemma assoc_dom {A} x (sc : list (string * A)) : In x (map fst sc) -> exists v, assoc x sc = Some v.
Proof.
  induction sc as [|[k w] sc IH]; simpl; [tauto|].
  intros [H|H].
  - subst. rewrite String.eqb_refl. eauto.
  - destruct (String.eqb x k); eauto.
Qed.

Lemma assoc_In {A} x (l : list (string * A)) v : assoc x l = Some v -> In (x, v) l.
Proof.
  induction l as [|[k w] l IH]; simpl; [discriminate|].
  destruct (String.eqb x k) eqn:E.
  - apply String.eqb_eq in E. subst. intros H; inversion H; auto.
  - auto.
Qed.

Lemma mem_In x l : mem x l = true -> In x l.
Proof.
  induction l as [|y l IH]; simpl; [discriminate|].
  destruct (String.eqb x y) eqn:E; simpl.
  - apply String.eqb_eq in E. auto.
  - auto.
Qed.

Lemma assocN_notin {A} t (l : list (N * A)) : ~ In t (map fst l) -> assocN t l = None.
Proof.
  induction l as [|[k w] l IH]; simpl; [reflexivity|].
  intros H. destruct (N.eqb t k) eqn:E.
  - apply N.eqb_eq in E. subst. tauto.
  - apply IH. tauto.
Qed.

(* ---------- count expressions only depend on their variables ---------- *)
Lemma ceval_ext e s1 s2 : (forall x, In x (cvars e) -> assoc x s1 = assoc x s2) -> ceval e s1 = ceval e s2.
Proof.
  induction e as [n|x|op a IHa b IHb|a IHa|c IHc a IHa b IHb]; simpl; intros H.
  - reflexivity.
  - apply H. simpl. auto.
  - rewrite IHa, IHb; [reflexivity| |]; intros; apply H; apply in_or_app; auto.
  - rewrite IHa; auto.
  - rewrite IHc, IHa, IHb; [reflexivity| | |]; intros; apply H; apply in_or_app; simpl; auto;
      right; apply in_or_app; auto.
Qed.

(* the loader's scope agrees with the saver's environment on everything the loader has read so far *)
Definition agree (sc env : scope) : Prop := forall x, In x (map fst sc) -> assoc x env = assoc x sc.

Lemma agree_nil env : agree [] env.
Proof. intros x []. Qed.

Lemma agree_app sc env l : agree sc env -> agree sc (env ++ l).
Proof.
  intros H x Hx. destruct (assoc_dom x sc Hx) as [v Hv].
  rewrite Hv. apply assoc_app_some. rewrite H; auto.
Qed.

Lemma agree_cons sc env e x : agree sc env -> assoc e env = Some x -> agree ((e, x) :: sc) env.
Proof.
  intros H He y Hy. simpl. destruct (String.eqb y e) eqn:E.
  - apply String.eqb_eq in E. subst. exact He.
  - simpl in Hy. destruct Hy as [Hy|Hy].
    + subst. rewrite String.eqb_refl in E. discriminate.
    + auto.
Qed.

Lemma cnt_agree tbl c sc env : vars_in (map fst sc) tbl c = true -> agree sc env -> cnt tbl c env = cnt tbl c sc.
Proof.
  unfold vars_in, cnt. destruct (assoc c tbl) as [e|]; [|discriminate].
  intros Hv Ha. apply ceval_ext. intros x Hx.
  rewrite forallb_forall in Hv. apply Ha. apply mem_In. auto.
Qed.

(* ---------- the round trip ---------- *)
Definition bindv (it : item) (v : val) (sc : scope) : scope :=
  match it, v with Scalar _ e, VS x => (e, x) :: sc | _, _ => sc end.

Lemma bindv_bind cx f tbl env it v out sc :
  witem cx f tbl env it v = Some out -> map fst (bindv it v sc) = bind it (map fst sc).
Proof.
  destruct f; [discriminate|].
  destruct it, v; simpl; intros H; try discriminate; reflexivity.
Qed.

Definition item_ok (cx : ctx) (f : nat) : Prop :=
  forall k tbl it v env sc out rest,
    wf_item cx k tbl (map fst sc) it = true ->
    agree sc env ->
    witem cx f tbl env it v = Some out ->
    ritem cx f tbl it sc (out ++ rest) = Some (v, bindv it v sc, rest) /\ agree (bindv it v sc) env.

Lemma list_ok cx f :
  item_ok cx f ->
  forall k tbl sch vs env sc out rest,
    wf_list (wf_item cx k tbl) (map fst sc) sch = true ->
    agree sc env ->
    wlist (witem cx f tbl env) sch vs = Some out ->
    exists sc', rlist (ritem cx f tbl) sch sc (out ++ rest) = Some (vs, sc', rest).
Proof.
  intros Hok k tbl sch. induction sch as [|it sch IH]; intros vs env sc out rest Hwf Hag Hw.
  - destruct vs; [|discriminate]. simpl in Hw. inversion Hw; subst. simpl. eauto.
  - destruct vs as [|v vs]; [discriminate|]. simpl in Hw.
    destruct (witem cx f tbl env it v) as [a|] eqn:Ea; [|discriminate].
    destruct (wlist (witem cx f tbl env) sch vs) as [b|] eqn:Eb; [|discriminate].
    inversion Hw; subst; clear Hw.
    simpl in Hwf. apply andb_true_iff in Hwf. destruct Hwf as [Hwi Hwl].
    destruct (Hok k tbl it v env sc a (b ++ rest) Hwi Hag Ea) as [Hr Hag'].
    rewrite <- app_assoc. simpl. rewrite Hr.
    rewrite <- (bindv_bind cx f tbl env it v a sc Ea) in Hwl.
    destruct (IH vs env (bindv it v sc) b rest Hwl Hag' Eb) as [sc' Hrl].
    rewrite Hrl. eauto.
Qed.

Lemma loop_ok cx f k tbl body env sc :
  item_ok cx f ->
  wf_list (wf_item cx k tbl) (map fst sc) body = true ->
  agree sc env ->
  forall its out rest,
    wconcat (fun vs => wlist (witem cx f tbl (env ++ collect body vs)) body vs) its = Some out ->
    rrep (fun bs => drop_scope (rlist (ritem cx f tbl) body sc bs)) (length its) (out ++ rest) = Some (its, rest).
Proof.
  intros Hok Hwf Hag its. induction its as [|vs its IH]; intros out rest Hw.
  - simpl in Hw. inversion Hw; subst. reflexivity.
  - simpl in Hw.
    destruct (wlist (witem cx f tbl (env ++ collect body vs)) body vs) as [a|] eqn:Ea; [|discriminate].
    destruct (wconcat _ its) as [b|] eqn:Eb; [|discriminate].
    inversion Hw; subst; clear Hw.
    rewrite <- app_assoc. cbn [length rrep].
    destruct (list_ok cx f Hok k tbl body vs (env ++ collect body vs) sc a (b ++ rest) Hwf
                      (agree_app _ _ _ Hag) Ea) as [sc' Hr].
    rewrite Hr. cbn [drop_scope]. rewrite (IH b rest eq_refl). reflexivity.
Qed.

Lemma wf_ctx_class cx c s t :
  wf_ctx cx = true -> assoc c (cx_cls cx) = Some (s, t) -> wf_list (wf_item cx wf_fuel t) [] s = true.
Proof.
  unfold wf_ctx. rewrite forallb_forall. intros H Ha.
  apply assoc_In in Ha. apply (H _ Ha).
Qed.

Theorem item_ok_all cx : wf_ctx cx = true -> forall f, item_ok cx f.
Proof.
  intros Hctx f. induction f as [|f IH]; intros k tbl it v env sc out rest Hwf Hag Hw.
  - discriminate.
  - destruct k as [|k]; [discriminate|].
    destruct it as [b e|el c|B|c body|c a b|s]; destruct v as [x|bs|cl vs|its|vs]; cbn [witem] in Hw; try discriminate.
    + (* Scalar *)
      destruct (x <? 256 ^ b) eqn:Ex; [|discriminate].
      destruct (scalar_ok env e x) eqn:Es; [|discriminate].
      simpl in Hw. inversion Hw; subst; clear Hw.
      cbn [ritem bindv].
      rewrite take_app by apply le_bytes_length.
      rewrite le_value_le_bytes by (rewrite N2Nat.id; apply N.ltb_lt; exact Ex).
      split; [reflexivity|].
      apply agree_cons; [exact Hag|].
      unfold scalar_ok in Es. destruct (assoc e env) as [y|]; [|discriminate].
      apply N.eqb_eq in Es. subst. reflexivity.
    + (* Array *)
      cbn [wf_item] in Hwf.
      destruct (cnt tbl c env) as [n|] eqn:En; [|discriminate].
      destruct (lenN bs =? el * n) eqn:El; [|discriminate].
      inversion Hw; subst; clear Hw.
      cbn [ritem bindv]. rewrite <- (cnt_agree tbl c sc env Hwf Hag), En.
      apply N.eqb_eq in El. unfold lenN in El.
      rewrite take_app by (rewrite <- El; rewrite Nat2N.id; reflexivity).
      split; [reflexivity|exact Hag].
    + (* Nested *)
      destruct (nested_target cx B cl) eqn:Et; [|discriminate].
      destruct (assoc cl (cx_cls cx)) as [[s t]|] eqn:Ec; [|discriminate].
      destruct (wlist (witem cx f t (collect s vs)) s vs) as [o|] eqn:Eo; [|discriminate].
      destruct (poly_ok cx B cl o) eqn:Ep; [|discriminate].
      inversion Hw; subst; clear Hw.
      cbn [ritem bindv].
      assert (Hrc : read_class cx B (out ++ rest) = Some cl).
      { unfold read_class. unfold nested_target in Et. unfold poly_ok in Ep.
        destruct (assoc B (cx_poly cx)) as [disp|].
        - destruct (peek4 out) as [tg|] eqn:Epk; [|discriminate].
          rewrite (peek4_app _ rest _ Epk).
          destruct (assocN tg disp) as [k'|]; [|discriminate].
          apply String.eqb_eq in Ep. subst. reflexivity.
        - apply String.eqb_eq in Et. subst. reflexivity. }
      rewrite Hrc, Ec.
      destruct (list_ok cx f IH wf_fuel t s vs (collect s vs) [] out rest
                        (wf_ctx_class cx cl s t Hctx Ec) (agree_nil _) Eo) as [sc' Hr].
      rewrite Hr. cbn [drop_scope]. split; [reflexivity|exact Hag].
    + (* Loop *)
      cbn [wf_item] in Hwf. apply andb_true_iff in Hwf. destruct Hwf as [Hv Hb].
      destruct (cnt tbl c env) as [n|] eqn:En; [|discriminate].
      destruct (lenN its =? n) eqn:El; [|discriminate].
      cbn [ritem bindv]. rewrite <- (cnt_agree tbl c sc env Hv Hag), En.
      apply N.eqb_eq in El. subst n. unfold lenN. rewrite Nat2N.id.
      rewrite (loop_ok cx f k tbl body env sc IH Hb Hag its out rest Hw).
      split; [reflexivity|exact Hag].
    + (* Cond *)
      cbn [wf_item] in Hwf. apply andb_true_iff in Hwf. destruct Hwf as [Hv Hb2].
      apply andb_true_iff in Hv. destruct Hv as [Hv Hb1].
      destruct (cnt tbl c env) as [x|] eqn:En; [|discriminate].
      cbn [ritem bindv]. rewrite <- (cnt_agree tbl c sc env Hv Hag), En.
      cbv zeta in Hw |- *.
      assert (Hbr : wf_list (wf_item cx k tbl) (map fst sc) (if x =? 0 then b else a) = true)
        by (destruct (x =? 0); assumption).
      destruct (list_ok cx f IH k tbl _ vs _ sc out rest Hbr (agree_app _ _ _ Hag) Hw) as [sc' Hr].
      rewrite Hr. cbn [drop_scope]. split; [reflexivity|exact Hag].
Qed.

(* MAIN THEOREM (C06, generic): a loader that mirrors the saver field by field reads back exactly what was written
   and consumes exactly the written bytes. *)
Theorem read_write cx fuel tbl sch vs out rest :
  wf_ctx cx = true ->
  wf_schema cx tbl sch = true ->
  write cx fuel tbl sch vs = Some out ->
  read cx fuel tbl sch (out ++ rest) = Some (vs, rest).
Proof.
  intros Hctx Hwf Hw. unfold read, write in *.
  destruct (list_ok cx fuel (item_ok_all cx Hctx fuel) wf_fuel tbl sch vs (collect sch vs) [] out rest
                    Hwf (agree_nil _) Hw) as [sc' Hr].
  rewrite Hr. reflexivity.
Qed.

Corollary read_write_fits cx fuel tbl sch vs rest :
  wf_ctx cx = true ->
  wf_schema cx tbl sch = true ->
  fits cx fuel tbl sch vs = true ->
  exists out, write cx fuel tbl sch vs = Some out /\ read cx fuel tbl sch (out ++ rest) = Some (vs, rest).
Proof.
  intros Hctx Hwf Hf. unfold fits in Hf.
  destruct (write cx fuel tbl sch vs) as [out|] eqn:E; [|discriminate].
  exists out. split; [reflexivity|]. eapply read_write; eauto.
Qed.

(* self-delimiting images: two images written one after the other are read back one after the other *)
Corollary self_delimiting cx fuel tbl1 sch1 tbl2 sch2 vs1 vs2 out1 out2 rest :
  wf_ctx cx = true ->
  wf_schema cx tbl1 sch1 = true -> wf_schema cx tbl2 sch2 = true ->
  write cx fuel tbl1 sch1 vs1 = Some out1 -> write cx fuel tbl2 sch2 vs2 = Some out2 ->
  read cx fuel tbl1 sch1 (out1 ++ out2 ++ rest) = Some (vs1, out2 ++ rest) /\
  read cx fuel tbl2 sch2 (out2 ++ rest) = Some (vs2, rest).
Proof.
  intros Hctx H1 H2 W1 W2. split; eapply read_write; eauto.
Qed.

(* ---------- schema_eq is sound (so a mirror obligation really is an equality of schemas) ---------- *)
Lemma list_eqb_sound {A} (eqb : A -> A -> bool) :
  (forall a b, eqb a b = true -> a = b) -> forall l m, list_eqb eqb l m = true -> l = m.
Proof.
  intros H l. induction l as [|x l IH]; destruct m as [|y m]; simpl; intros E; try discriminate; auto.
  apply andb_true_iff in E. destruct E as [E1 E2]. f_equal; auto.
Qed.

Lemma item_eqb_sound f : forall a b, item_eqb f a b = true -> a = b.
Proof.
  induction f as [|f IH]; intros a b E; [discriminate|].
  destruct a, b; cbn [item_eqb] in E; try discriminate;
    repeat (apply andb_true_iff in E; let E' := fresh "E" in destruct E as [E E']).
  - apply N.eqb_eq in E. apply String.eqb_eq in E0. subst. reflexivity.
  - apply N.eqb_eq in E. apply String.eqb_eq in E0. subst. reflexivity.
  - apply String.eqb_eq in E. subst. reflexivity.
  - apply String.eqb_eq in E. apply (list_eqb_sound _ IH) in E0. subst. reflexivity.
  - apply String.eqb_eq in E. apply (list_eqb_sound _ IH) in E0. apply (list_eqb_sound _ IH) in E1.
    subst. reflexivity.
  - apply String.eqb_eq in E. subst. reflexivity.
Qed.

Theorem schema_eq_sound a b : schema_eq a b = true -> a = b.
Proof. apply list_eqb_sound. apply item_eqb_sound. Qed.

(* ---------- C16: generic facts ---------- *)
Lemma peek4_le32 t rest : t < 2 ^ 32 -> peek4 (le_bytes 4 t ++ rest) = Some t.
Proof.
  intros Ht. unfold peek4. rewrite take_app by apply le_bytes_length.
  rewrite le_value_le_bytes; [reflexivity|]. exact Ht.
Qed.

(* a loader refuses every image that starts with a tag other than its own *)
Theorem loader_foreign cx fuel g tbl sch t rest :
  t < 2 ^ 32 -> t <> g -> loader cx fuel g tbl sch (le_bytes 4 t ++ rest) = None.
Proof.
  intros Ht Hne. unfold loader. rewrite peek4_le32 by exact Ht.
  destruct (t =? g) eqn:E; [apply N.eqb_eq in E; contradiction|reflexivity].
Qed.

(* ... and accepts (reads) its own: the guard is transparent on the right tag *)
Theorem loader_own cx fuel g tbl sch bs :
  peek4 bs = Some g -> loader cx fuel g tbl sch bs = read cx fuel tbl sch bs.
Proof. intros H. unfold loader. rewrite H, N.eqb_refl. reflexivity. Qed.

Theorem dispatch_unknown disp dflt t :
  dflt = None -> ~ In t (map fst disp) -> generic_load_result disp dflt t = None.
Proof. intros -> H. unfold generic_load_result. rewrite assocN_notin by exact H. reflexivity. Qed.

Theorem generic_load_unknown cx fuel disp dflt guards t rest :
  dflt = None -> t < 2 ^ 32 -> ~ In t (map fst disp) ->
  generic_load cx fuel disp dflt guards (le_bytes 4 t ++ rest) = None.
Proof.
  intros Hd Ht Hn. unfold generic_load. rewrite peek4_le32 by exact Ht.
  rewrite dispatch_unknown by assumption. reflexivity.
Qed.

(* a routed image reaches a loader whose guard is the routing tag, hence is read by that class's schema *)
Theorem generic_load_routes cx fuel disp dflt guards bs t c s tb :
  peek4 bs = Some t -> assocN t disp = Some c -> assoc c guards = Some t -> assoc c (cx_cls cx) = Some (s, tb) ->
  generic_load cx fuel disp dflt guards bs =
  match read cx fuel tb s bs with Some (vs, r) => Some (c, vs, r) | None => None end.
Proof.
  intros Hp Hd Hg Hc. unfold generic_load, generic_load_result. rewrite Hp, Hd, Hg, Hc.
  rewrite (loader_own _ _ _ _ _ _ Hp). reflexivity.
Qed.
