(* libcds/includes/libcdsBasics.h : the 32-bit word primitives (W = 32)
     bits(n), bitget / bitset / bitclean, uint_len, get_field / set_field,
     get_var_field / set_var_field
   as used by DAC_VLS, BitSequenceRG/RRR, the wavelet trees and the hash classes.

   Part 1: executable bit-exact model (definitions only; proofs in Cds32Proofs.v).
   Part 2: the CONCRETE DAC_VLS object (packed 32-bit words of [levels], the word-exact
           BitSequenceRG of BitRGDefs) and [access]/[access_next] over it.

   Words are N < 2^32.  C integer arithmetic is written out: [c32_u32] = value kept in a
   [uint], [c32_u64] = value kept in a [size_t]; [c32_subw wrap a b] = a - b evaluated in the
   unsigned type whose truncation is [wrap].

   SHIFTS.  uint << c and uint >> c are undefined in C++ for c >= 32.  The model is generic in
   the two shift functions ([sl], [sr]); the instance used everywhere ([shl32], [shr32]) is what
   x86-64 executes for a 32-bit operand (SHL/SHR r32, cl: the count is taken mod 32, the result
   truncated to 32 bits).  Cds32Proofs.cds32_no_shift32 shows that for len in 0..32 NO shift
   with a count >= 32 is ever evaluated (the results do not depend on what [sl]/[sr] do for
   such counts): get_field/set_field special-case len = W and len = 0, and the two ternaries
   of the mask expression  ((j+len) < W ? ~0u << (j+len) : 0) | ((W-j) < W ? ~0u >> (W-j) : 0)
   guard exactly the two counts that could reach 32. *)
From LibCSD Require Import Base Bytes LogSeqDefs DACDefs BitRGDefs.
Local Open Scope N_scope.

(* ------------------------------------------------------------------------- *)
(* Part 1                                                                      *)
(* ------------------------------------------------------------------------- *)
Definition c32_W : N := 4294967296.                     (* 2^32 *)
Definition c32_W64 : N := 18446744073709551616.         (* 2^64 *)
Definition c32_u32 (x : N) : N := x mod c32_W.
Definition c32_u64 (x : N) : N := x mod c32_W64.
(* a - b in the unsigned type with truncation [wrap] (2^64 is a multiple of 2^32) *)
Definition c32_subw (wrap : N -> N) (a b : N) : N := wrap (a + c32_W64 - c32_u64 b).

Definition ones32 : N := 4294967295.                    (* ~0u *)
Definition shl32 (x s : N) : N := (N.shiftl x (s mod 32)) mod c32_W.
Definition shr32 (x s : N) : N := N.shiftr x (s mod 32).
Definition not32 (x : N) : N := N.lnot x 32.

(* checked array read / write ([rdN] = Base.nthN behind a bounds test, BitRGProofs.rdN_eq) *)
Definition c32_rd (A : list N) (i : N) : option N := rdN A i.

(* inline uint bits(uint n) { uint b = 0; while (n) { b++; n >>= 1; } return b; } *)
Fixpoint bits32_loop (fuel : nat) (n b : N) : N :=
  match fuel with
  | O => b
  | S f => if n =? 0 then b else bits32_loop f (n / 2) (b + 1)
  end.
Definition bits32 (n : N) : N := bits32_loop 33 (c32_u32 n) 0.

(* #define bitget(e, p) ((((e)[(p) / W] >> ((p) % W))) & 1)      (e an array of uint) *)
Definition bitget32 (e : list N) (p : N) : option N :=
  match c32_rd e (p / 32) with
  | Some w => Some (N.land (shr32 w (p mod 32)) 1)
  | None => None
  end.
(* inline void bitset(uint* e, size_t p) { e[p / W] |= (1 << (p % W)); }
   [1 << 31] is evaluated in int (INT_MIN) and converted to uint by the |= : 0x80000000 *)
Definition bitset32 (e : list N) (p : N) : option (list N) :=
  match c32_rd e (p / 32) with
  | Some w => Some (updN e (p / 32) (N.lor w (shl32 1 (p mod 32))))
  | None => None
  end.
(* inline void bitclean(uint* e, size_t p) { e[p / W] &= ~(1 << (p % W)); } *)
Definition bitclean32 (e : list N) (p : N) : option (list N) :=
  match c32_rd e (p / 32) with
  | Some w => Some (updN e (p / 32) (N.land w (not32 (shl32 1 (p mod 32)))))
  | None => None
  end.

(* inline uint uint_len(const uint e, const size_t n) { return ((unsigned long long)e * n + W - 1) / W; } *)
Definition uint_len32 (e n : N) : N := c32_u32 (c32_u64 (c32_u32 e * c32_u64 n + 31) / 32).

Section Core.
  Variables sl sr : N -> N -> N.          (* uint << count, uint >> count *)
  Variable wrap : N -> N.                 (* type in which j + len, W - j - len ... are evaluated *)

  (*  if (j + len <= W) result = (A[i] << (W - j - len)) >> (W - len);
      else { result = A[i] >> j;
             result = result | (A[i + 1] << (WW - j - len)) >> (W - len); }
      (the text shared by get_field and get_var_field; >> binds tighter than |) *)
  Definition rd_core32 (A : list N) (i j len : N) : option N :=
    if wrap (j + len) <=? 32 then
      match c32_rd A i with
      | Some a => Some (sr (sl a (c32_subw wrap (c32_subw wrap 32 j) len)) (c32_subw wrap 32 len))
      | None => None
      end
    else
      match c32_rd A i with
      | Some a =>
          match c32_rd A (i + 1) with
          | Some a1 =>
              Some (N.lor (sr a j) (sr (sl a1 (c32_subw wrap (c32_subw wrap 64 j) len)) (c32_subw wrap 32 len)))
          | None => None
          end
      | None => None
      end.

  (*  uint mask = ((j + len) < W ? ~0u << (j + len) : 0) | ((W - j) < W ? ~0u >> (W - j) : 0);
      A[i] = (A[i] & mask) | x << j;
      if (j + len > W) { mask = ((~0u) << (len + j - W));
                         A[i + 1] = (A[i + 1] & mask) | x >> (W - j); }
      (the text shared by set_field and set_var_field) *)
  Definition wr_core32 (A : list N) (i j len x : N) : option (list N) :=
    let jl := wrap (j + len) in
    let mask := N.lor (if jl <? 32 then sl ones32 jl else 0)
                      (if c32_subw wrap 32 j <? 32 then sr ones32 (c32_subw wrap 32 j) else 0) in
    match c32_rd A i with
    | None => None
    | Some a =>
        let A1 := updN A i (N.lor (N.land a mask) (sl x j)) in
        if 32 <? jl then
          match c32_rd A1 (i + 1) with
          | None => None
          | Some a1 =>
              let mask1 := sl ones32 (c32_subw wrap (wrap (len + j)) 32) in
              Some (updN A1 (i + 1) (N.lor (N.land a1 mask1) (sr x (c32_subw wrap 32 j))))
          end
        else Some A1
    end.

  (* inline uint get_field(const uint* A, const size_t len, const size_t index):
       if (len == W) return A[index];  if (len == 0) return 0;
       size_t i = index * len / W, j = index * len - W * i;  <core> *)
  Definition get_field32_gen (A : list N) (len index : N) : option N :=
    if len =? 32 then c32_rd A index
    else if len =? 0 then Some 0
    else
      let p := c32_u64 (index * len) in
      let i := p / 32 in
      let j := c32_subw c32_u64 p (32 * i) in
      rd_core32 A i j len.

  (* inline void set_field(uint* A, const size_t len, const size_t index, const uint x):
       if (len == W) { A[index] = x; return; }  if (len == 0) return;
       size_t i = index * len / W, j = index * len - i * W;  <core> *)
  Definition set_field32_gen (A : list N) (len index x0 : N) : option (list N) :=
    let x := c32_u32 x0 in
    if len =? 32 then (if index <? lenN A then Some (updN A index x) else None)
    else if len =? 0 then Some A
    else
      let p := c32_u64 (index * len) in
      let i := p / 32 in
      let j := c32_subw c32_u64 p (i * 32) in
      wr_core32 A i j len x.

  (* inline uint get_var_field(const uint* A, const size_t ini, const size_t fin):
       if (ini == fin + 1) return 0;
       size_t i = ini / W, j = ini - W * i;  uint len = (uint)(fin - ini + 1);  <core>
     ([W - len] is a uint here and a size_t in get_field: the same number whenever len <= 32,
      and the same shift count mod 32 always) *)
  Definition get_var_field32_gen (A : list N) (ini fin : N) : option N :=
    if ini =? c32_u64 (fin + 1) then Some 0
    else
      let i := ini / 32 in
      let j := c32_subw c32_u64 ini (32 * i) in
      let len := c32_u32 (c32_u64 (c32_subw c32_u64 fin ini + 1)) in
      rd_core32 A i j len.

  (* inline void set_var_field(uint* A, const size_t ini, const size_t fin, const uint x):
       if (ini == fin + 1) return;
       uint i = ini / W, j = ini - i * W;  uint len = (fin - ini + 1);  <core, all in uint> *)
  Definition set_var_field32_gen (A : list N) (ini fin x0 : N) : option (list N) :=
    let x := c32_u32 x0 in
    if ini =? c32_u64 (fin + 1) then Some A
    else
      let i := c32_u32 (ini / 32) in
      let j := c32_u32 (c32_subw c32_u64 ini (c32_u32 (i * 32))) in
      let len := c32_u32 (c32_u64 (c32_subw c32_u64 fin ini + 1)) in
      wr_core32 A i j len x.
End Core.

Definition get_field32 : list N -> N -> N -> option N := get_field32_gen shl32 shr32 c32_u64.
Definition set_field32 : list N -> N -> N -> N -> option (list N) := set_field32_gen shl32 shr32 c32_u64.
Definition get_var_field32 : list N -> N -> N -> option N := get_var_field32_gen shl32 shr32 c32_u64.
Definition set_var_field32 : list N -> N -> N -> N -> option (list N) := set_var_field32_gen shl32 shr32 c32_u32.

(* the array seen as an array of n fields of len bits *)
Fixpoint fields_of32_from (A : list N) (len i : N) (cnt : nat) : option (list N) :=
  match cnt with
  | O => Some []
  | S c =>
      match get_field32 A len i with
      | None => None
      | Some v =>
          match fields_of32_from A len (i + 1) c with
          | None => None
          | Some r => Some (v :: r)
          end
      end
  end.
Definition fields_of32 (A : list N) (len n : N) : option (list N) := fields_of32_from A len 0 (N.to_nat n).

(* for (k = 0; k < n; k++) set_field(A, len, i + k, vs[k]); *)
Fixpoint pack32_fill (A : list N) (len i : N) (vs : list N) : option (list N) :=
  match vs with
  | [] => Some A
  | v :: r =>
      match set_field32 A len i v with
      | Some A' => pack32_fill A' len (i + 1) r
      | None => None
      end
  end.
(* into a zeroed array of nwords words *)
Definition pack32w (nwords len : N) (vs : list N) : option (list N) :=
  pack32_fill (repeat 0 (N.to_nat nwords)) len 0 vs.
(* ... of uint_len(len, n) words: what  A = new uint[uint_len(len, n)]  zeroed and filled holds *)
Definition pack32 (len : N) (vs : list N) : list N :=
  match pack32w (uint_len32 len (lenN vs)) len vs with Some A => A | None => [] end.

(* arbitrary order of stores (the DAC constructor fills level-interleaved): ops = (index, value) *)
Fixpoint set_fields32 (A : list N) (len : N) (ops : list (N * N)) : option (list N) :=
  match ops with
  | [] => Some A
  | (i, v) :: r =>
      match set_field32 A len i v with
      | Some A' => set_fields32 A' len r
      | None => None
      end
  end.

(* bits set one by one into a zeroed array of n/W + 1 words (what DAC_VLS, wt_node_internal do) *)
Fixpoint bitset_fill (e : list N) (i : N) (bv : list bool) : option (list N) :=
  match bv with
  | [] => Some e
  | b :: r =>
      if b then match bitset32 e i with Some e' => bitset_fill e' (i + 1) r | None => None end
      else bitset_fill e (i + 1) r
  end.
Definition bitset_words (bv : list bool) : option (list N) :=
  bitset_fill (repeat 0 (N.to_nat (lenN bv / 32 + 1))) 0 bv.

(* ------------------------------------------------------------------------- *)
(* Part 2: DAC_VLS over the packed words and the word-exact BitSequenceRG       *)
(* ------------------------------------------------------------------------- *)
Record dacc := mkDacc {
  c_tamCode : N;
  c_base_bits : N;
  c_listLength : N;
  c_nLevels : N;
  c_levelsIndex : list N;
  c_levels : list N;        (* uint levels[tamCode / W + 1] : the packed words *)
  c_bS : rg;                (* new BitSequenceRG(bits_BS, bits_BS_len, 4) *)
  c_rankLevels : list N
}.

(* levels = new uint[tamLevels / W + 1], zeroed, one set_field(levels, base_bits, k, sym_k) per symbol *)
Definition dac_levels_c (d : dac) : option (list N) :=
  pack32w (d_tamCode d / 32 + 1) (d_base_bits d) (d_syms d).

Definition dac_concretize (d : dac) : option dacc :=
  match dac_levels_c d with
  | None => None
  | Some lv =>
      match rg_of_bits (d_bits d) dac_rg_factor with
      | None => None
      | Some bs =>
          Some {| c_tamCode := d_tamCode d; c_base_bits := d_base_bits d; c_listLength := d_listLength d;
                  c_nLevels := d_nLevels d; c_levelsIndex := d_levelsIndex d; c_levels := lv; c_bS := bs;
                  c_rankLevels := d_rankLevels d |}
      end
  end.

(* DAC_VLS::DAC_VLS(int* list, uint l_Length, uint log_r, uint max_seq_length), concrete result *)
Definition dac_build_c (list : list Z) (llen logr maxseq : N) : option dacc :=
  match dac_build list llen logr maxseq with
  | None => None
  | Some d => dac_concretize d
  end.

(* get_field(levels, base_bits, ini) *)
Definition dacc_sym (c : dacc) (ini : N) : option N := get_field32 (c_levels c) (c_base_bits c) ini.
(* bitget(bS->data, ini) *)
Definition dacc_bit (c : dacc) (ini : N) : option bool :=
  match bitget32 (rg_data (c_bS c)) ini with
  | Some b => Some (negb (b =? 0))
  | None => None
  end.

(* DAC_VLS::access over the concrete object (same text as DACDefs.dac_access_loop, the three
   abstract reads replaced by get_field32 / bitget32 / rg_rank1) *)
Fixpoint dac_access_c_loop (c : dacc) (fuel : nat) (j ini : N) (acc : list N) : option (list N) :=
  if j <? dac_sub32 (c_nLevels c) 1 then
    b <- dacc_bit c ini ;;
    if b : bool then
      match fuel with
      | O => None
      | S f =>
          r <- rg_rank1 (c_bS c) ini ;;
          rl <- dac_nth (c_rankLevels c) j ;;
          let rankini := dac_sub32 r rl in
          let j' := dac_add32 j 1 in
          li <- dac_nth (c_levelsIndex c) j' ;;
          let ini' := dac_sub32 (dac_add32 li rankini) 1 in
          v <- dacc_sym c ini' ;;
          if j' <? c_nLevels c then
            if j' =? dac_sub32 (c_nLevels c) 1 then Some (acc ++ [v])
            else dac_access_c_loop c f j' ini' (acc ++ [v])
          else None
      end
    else Some acc
  else Some acc.

Definition dac_access_c (c : dacc) (pos : N) : option (list N) :=
  let ini := dac_sub32 pos 1 in
  v <- dacc_sym c ini ;;
  if 0 <? c_nLevels c then dac_access_c_loop c (N.to_nat (c_nLevels c)) 0 ini [v] else None.

Definition dac_access_next_c (c : dacc) (l pos : N) : option (N * N) :=
  let ini := dac_sub32 pos 1 in
  v <- dacc_sym c ini ;;
  if l =? dac_sub32 (c_nLevels c) 1 then Some (v, dac_END)
  else
    b <- dacc_bit c ini ;;
    if b : bool then
      r <- rg_rank1 (c_bS c) ini ;;
      rl <- dac_nth (c_rankLevels c) l ;;
      li <- dac_nth (c_levelsIndex c) (l + 1) ;;
      Some (v, dac_add32 li (dac_sub32 r rl))
    else Some (v, dac_END).

Fixpoint dac_chain_c (c : dacc) (fuel : nat) (l pos : N) : option (list N) :=
  if pos =? dac_END then Some []
  else match fuel with
       | O => None
       | S f =>
           '(v, pos') <- dac_access_next_c c l pos ;;
           rest <- dac_chain_c c f (l + 1) pos' ;;
           Some (v :: rest)
       end.

(* the driver's bounded walk: for (l = 0; l < nLevels + 2 && p != -1; l++) *)
Fixpoint dac_chain_bounded_c (c : dacc) (k : nat) (l pos : N) : option (list N) :=
  match k with
  | O => Some []
  | S k' =>
      if pos =? dac_END then Some []
      else '(v, pos') <- dac_access_next_c c l pos ;;
           rest <- dac_chain_bounded_c c k' (l + 1) pos' ;;
           Some (v :: rest)
  end.

(* input class of the concrete theorems: the DAC model's class + the two size conditions under
   which [uint tamCode] does not wrap and BitSequenceRG's 32-bit positions suffice *)
Definition dac_wf_c (seqs : list (list N)) (logr maxseq : N) : bool :=
  dac_wf seqs logr maxseq &&
  (logr * (lenN (dac_flatten seqs) - lenN seqs) <? dac_U32) &&
  (lenN (dac_flatten seqs) <? dac_U32 - 64).
