(* C09 / C10 / C11 — worker pool (parallel/Worker.hpp) and the slot protocol / cutting loop of the
   parallel constructor of StringDictionaryHASHRPDACBlocks.  ONLY exported statements, each closed
   by [exact] of a lemma of PoolProofs.v, followed by Print Assumptions; one Example per theorem. *)
From Coq Require Import List NArith Bool Arith Permutation.
From LibCSD Require Import Base PoolDefs PoolProofs.
Import ListNotations.

(* ---- C10 (1): conservation, no duplicate execution, exactly once ---------- *)
(* both variants, any W, any script, any schedule (incl. spurious wake-ups) *)
Theorem C10_pool_conservation : forall fixed W script s,
  reachable fixed W script s ->
  forall t, cnt t (queue s) + inflight t (wpcs s) + cnt t (map fst (executed s)) = cnt t (added s)
            /\ cnt t (added s) <= cnt t (tasks_of script).
Proof. exact pool_conservation. Qed.
Print Assumptions C10_pool_conservation.

Theorem C10_pool_no_dup_exec : forall fixed W script s,
  reachable fixed W script s ->
  (forall t, cnt t (map fst (executed s)) <= cnt t (tasks_of script)) /\
  (NoDup (tasks_of script) -> NoDup (map fst (executed s))).
Proof. exact pool_no_dup_exec. Qed.
Print Assumptions C10_pool_no_dup_exec.

Theorem C10_pool_exactly_once_safety : forall fixed W ts s,
  W >= 1 -> reachable fixed W (script_of ts) s -> final s = true ->
  (forall t, cnt t (map fst (executed s)) = cnt t ts) /\
  Permutation (map fst (executed s)) ts /\ queue s = [] /\ err s = false.
Proof. exact pool_exactly_once_safety. Qed.
Print Assumptions C10_pool_exactly_once_safety.

(* general scripts: no add_task after the first stop_all_workers *)
Theorem C10_pool_exactly_once_gen : forall fixed W script s,
  W >= 1 -> wf_script script = true -> reachable fixed W script s -> final s = true ->
  (forall t, cnt t (map fst (executed s)) = cnt t (tasks_of script)) /\
  Permutation (map fst (executed s)) (tasks_of script) /\ queue s = [] /\ err s = false.
Proof. exact pool_exactly_once_gen. Qed.
Print Assumptions C10_pool_exactly_once_gen.

Theorem C10_pool_pop_nonempty : forall fixed W script s,
  wf_script script = true -> reachable fixed W script s -> err s = false.
Proof. exact pool_pop_nonempty. Qed.
Print Assumptions C10_pool_pop_nonempty.

(* hypotheses satisfiable: a complete run of 2 workers / 3 tasks reaches a final state *)
Example C10_exactly_once_example :
  let s := run true (concat (repeat [Go 0; Go 1; Go 2] 80)) (init 2 (script_of [5; 6; 5]%N)) in
  final s = true /\ map fst (executed s) <> [] /\ wf_script (script_of [5; 6; 5]%N) = true.
Proof. vm_compute. repeat split; discriminate. Qed.

(* ---- C11 (2): mutual exclusion and lockset -------------------------------- *)
Theorem C11_pool_mutual_exclusion : forall fixed W script s,
  wf_script script = true -> reachable fixed W script s ->
  (forall t1 t2, in_cs fixed s t1 = true -> in_cs fixed s t2 = true -> t1 = t2) /\
  (forall t, in_cs fixed s t = true <-> owner s = Some t).
Proof. exact pool_mutual_exclusion. Qed.
Print Assumptions C11_pool_mutual_exclusion.

Theorem C11_pool_lockset : forall fixed W script s tid a,
  wf_script script = true -> reachable fixed W script s ->
  next_action fixed s tid = Some a ->
  match a with
  | APop | AUnlock | ABlock => owner s = Some tid
  | APush _ | ASetStop _ => fixed = true -> owner s = Some tid
  | ALock => in_cs fixed s tid = false
  | _ => True
  end.
Proof. exact pool_lockset. Qed.
Print Assumptions C11_pool_lockset.

Example C11_lockset_example :
  let s := run true [Go 1; Go 1; Go 1; Go 1; Go 0] (init 2 (script_of [1%N])) in
  in_cs true s 1 = true /\ owner s = Some 1 /\ next_action true s 0 = Some ALock /\ enabled true s 0 = false.
Proof. vm_compute. repeat split; reflexivity. Qed.

(* ---- C10 (3): the pinned pool loses a wake-up (refutation of deadlock freedom) *)
Theorem C10_pool_lost_wakeup_reachable :
  exists s, reachable false 1 (script_of []) s /\
            final s = false /\ any_enabled false s = false /\ stuck false s = true /\
            nth_error (wpcs s) 0 = Some WSleep /\ pp s = PJoin 0.
Proof. exact pool_lost_wakeup_reachable. Qed.
Print Assumptions C10_pool_lost_wakeup_reachable.

Theorem C10_pool_lost_task_reachable :
  exists s, reachable false 1 [AddTask 7%N; WaitWorkers] s /\
            stuck false s = true /\ queue s = [7%N] /\ executed s = [] /\
            nth_error (wpcs s) 0 = Some WSleep /\ pp s = PJoin 0.
Proof. exact pool_lost_task_reachable. Qed.
Print Assumptions C10_pool_lost_task_reachable.

Theorem C10_pool_lost_task_no_join :
  exists s, reachable false 1 [AddTask 7%N] s /\
            any_enabled false s = false /\ queue s = [7%N] /\ executed s = [].
Proof. exact pool_lost_task_no_join. Qed.
Print Assumptions C10_pool_lost_task_no_join.

(* ---- C10 (4): the fixed pool is deadlock free ------------------------------ *)
Theorem C10_pool_deadlock_free_fixed : forall W ts s,
  reachable true W (script_of ts) s ->
  final s = true \/ exists tid, enabled true s tid = true.
Proof. exact pool_deadlock_free_fixed. Qed.
Print Assumptions C10_pool_deadlock_free_fixed.

Theorem C10_pool_never_stuck_fixed : forall W ts s,
  reachable true W (script_of ts) s -> stuck true s = false.
Proof. exact pool_never_stuck_fixed. Qed.
Print Assumptions C10_pool_never_stuck_fixed.

Example C10_deadlock_free_example :
  (* the very schedule that deadlocks the pinned pool *)
  stuck false (run false lost_wakeup_sched (init 1 (script_of []))) = true /\
  stuck true (run true lost_wakeup_sched (init 1 (script_of []))) = false.
Proof. vm_compute. split; reflexivity. Qed.

(* ---- C09 (5): slot protocol and cutting loop ------------------------------- *)
Theorem C09_parbuild_deterministic :
  forall (block part : Type) (build_block : block -> part) (blocks : list block) W sched,
  let s := brun block part build_block sched (binit block part W blocks) in
  NoDup (PoolDefs.wlog s) /\
  (forall i, In i (PoolDefs.wlog s) ->
             i < length (PoolDefs.parts s) <= length blocks) /\
  (bfinal block part s = true ->
   PoolDefs.parts s = map (fun b => Some (build_block b)) blocks /\
   PoolDefs.parts_done s = length blocks /\ PoolDefs.bq s = []).
Proof. exact parbuild_deterministic. Qed.
Print Assumptions C09_parbuild_deterministic.

Theorem C09_parbuild_wait_sound :
  forall (block part : Type) (build_block : block -> part) (blocks : list block) W sched,
  let s := brun block part build_block sched (binit block part W blocks) in
  PoolDefs.parts_done s = length (PoolDefs.parts s) ->
  forall i, i < length (PoolDefs.parts s) ->
            nth_error (PoolDefs.parts s) i <> Some None.
Proof. exact parbuild_wait_sound. Qed.
Print Assumptions C09_parbuild_wait_sound.

Example C09_parbuild_example :
  (* 2 workers, 3 blocks; worker 2 finishes block 1 before worker 1 finishes block 0 *)
  let s := brun nat nat (fun b => b * 10)
                ([0; 0; 0; 0; 1; 2; 2; 2; 1; 1; 0; 0; 0; 2; 2; 2; 0; 0])
                (binit nat nat 2 [7; 8; 9]) in
  bfinal nat nat s = true /\ PoolDefs.parts s = [Some 70; Some 80; Some 90] /\
  PoolDefs.wlog s = [2; 0; 1].
Proof. vm_compute. repeat split; reflexivity. Qed.

Theorem C09_partition_spec : forall (A : Type) (len : A -> N) cut (S : list A),
  let bl := partition A len cut S in
  concat bl = S /\ Forall (nonempty A) bl /\
  starting_indexes A len cut S = starts A 0 bl /\
  cut_samples A len cut S = firsts A bl /\
  length (starting_indexes A len cut S) = length bl /\
  length (cut_samples A len cut S) = length bl /\
  (forall k, (k < length bl)%nat ->
     nth_error (starting_indexes A len cut S) k = Some (lenN (concat (firstn k bl)))).
Proof. exact partition_spec. Qed.
Print Assumptions C09_partition_spec.

Example C09_partition_example :
  partition N (fun x => x) 5 [1; 2; 1; 9; 1; 1]%N = [[1; 2; 1]; [9]; [1; 1]]%N /\
  starting_indexes N (fun x => x) 5 [1; 2; 1; 9; 1; 1]%N = [0; 3; 4]%N /\
  cut_samples N (fun x => x) 5 [1; 2; 1; 9; 1; 1]%N = [1; 9; 1]%N.
Proof. vm_compute. repeat split; reflexivity. Qed.
