(* hash component: exported theorems (statements in full) + Print Assumptions + satisfiability examples.
   To be pasted into Properties_C01/C02/C12.v after
     From LibCSD Require Import Base HashDefs HashProofs.  From Coq Require Import Sorted. *)
From LibCSD Require Import Base HashDefs HashProofs.
From Coq Require Import Sorted.
Local Open Scope N_scope.

(* ---- 1. inserted keys are found, in the cell insert chose ------------------- *)
Theorem C01_dh_search_inserted : forall m ks t cs,
  dh_build m ks = Some (t, cs) ->
  NoDup (map hk_key ks) ->
  Forall2 (fun hk c => dh_search t hk = SFound c /\ nthN t c = Some (Some (hk_key hk))) ks cs.
Proof. exact dh_search_inserted. Qed.
Print Assumptions C01_dh_search_inserted.

Theorem C01_dh_insert_succeeds : forall m ks,
  m <= 2 ^ 63 -> lenN ks <= m -> Forall (fun hk => hk_ok m hk = true) ks ->
  exists t cs, dh_build m ks = Some (t, cs).
Proof. exact dh_insert_succeeds. Qed.
Print Assumptions C01_dh_insert_succeeds.

Theorem C01_dh_prime_hk_ok : forall m k h1 h2,
  prime m -> h1 < m -> 1 <= h2 < m -> hk_ok m (mkHKey k h1 h2) = true.
Proof. exact prime_hk_ok. Qed.
Print Assumptions C01_dh_prime_hk_ok.

Theorem C01_dh_search_mul_eq : forall t q,
  lenN t < 2 ^ 32 -> hk_h1 q < lenN t -> hk_h2 q < lenN t -> dh_search_mul t q = dh_search t q.
Proof. exact search_mul_eq. Qed.
Print Assumptions C01_dh_search_mul_eq.

Theorem C01_dh_table_correct : forall m ks,
  dh_build_ok m ks = true ->
  exists t cs,
    dh_build m ks = Some (t, cs) /\ lenN t = m /\
    Forall2 (fun hk c => dh_search t hk = SFound c /\ dh_search_mul t hk = SFound c /\
                         dh_locate t hk = Some (dh_id_of_cell t c) /\
                         dh_extract t (dh_id_of_cell t c) = Some (hk_key hk)) ks cs /\
    (forall q, ~ In (hk_key q) (map hk_key ks) -> hk_h1 q < m ->
       dh_search t q = SAbsent /\ dh_search_mul t q = SAbsent /\ dh_locate t q = Some 0).
Proof. exact dh_table_correct. Qed.
Print Assumptions C01_dh_table_correct.

(* ---- 2. non-members, termination, no out-of-bounds read ----------------------- *)
Theorem C02_dh_search_absent : forall m ks t cs q,
  dh_build m ks = Some (t, cs) ->
  ~ In (hk_key q) (map hk_key ks) -> hk_h1 q < m ->
  dh_search t q = SAbsent /\ dh_search_mul t q = SAbsent.
Proof. exact dh_search_absent. Qed.
Print Assumptions C02_dh_search_absent.

Theorem C02_dh_search_no_oob : forall t q, hk_h1 q < lenN t -> dh_search t q <> SOob.
Proof. exact dh_search_no_oob. Qed.
Print Assumptions C02_dh_search_no_oob.

Theorem C02_dh_search_mul_no_oob : forall t q, hk_h1 q < lenN t -> dh_search_mul t q <> SOob.
Proof. exact dh_search_mul_no_oob. Qed.
Print Assumptions C02_dh_search_mul_no_oob.

Theorem C02_dh_insert_no_oob : forall t hk, hk_h1 hk < lenN t -> dh_insert t hk <> IOob.
Proof. exact dh_insert_no_oob. Qed.
Print Assumptions C02_dh_insert_no_oob.

(* ---- 3. IDs --------------------------------------------------------------------- *)
Theorem C01_dh_id_bijection : forall m ks t cs,
  dh_build m ks = Some (t, cs) ->
  NoDup (map hk_key ks) ->
  lenN (dh_tdict t) = lenN ks /\
  Forall2 (fun hk c => dh_locate t hk = Some (dh_id_of_cell t c) /\
                       1 <= dh_id_of_cell t c <= lenN ks /\
                       dh_extract t (dh_id_of_cell t c) = Some (hk_key hk)) ks cs /\
  (forall id, 1 <= id <= lenN ks ->
     exists hk, In hk ks /\ dh_extract t id = Some (hk_key hk) /\ dh_locate t hk = Some id) /\
  (forall hk hk' id, In hk ks -> In hk' ks -> dh_locate t hk = Some id -> dh_locate t hk' = Some id ->
     hk_key hk = hk_key hk') /\
  (forall id, ~ (1 <= id <= lenN ks) -> dh_extract t id = None).
Proof. exact dh_id_bijection. Qed.
Print Assumptions C01_dh_id_bijection.

Theorem C01_dh_stored_via_rank : forall t c k,
  nthN t c = Some (Some k) -> dh_stored_via_rank t c = Some k.
Proof. exact stored_via_rank_eq. Qed.
Print Assumptions C01_dh_stored_via_rank.

(* ---- 4. the three representations ----------------------------------------------- *)
Theorem C12_hash_repr_equiv : forall ot,
  StronglySorted N.lt (occ ot) -> 1 <= lenN (occ ot) ->
  exists comp offb,
    dh_count1 (ft_bits (dh_finish ot)) = lenN (occ ot) /\
    dh_compact_B (dh_finish ot) (lenN (occ ot)) = Some comp /\
    dh_offbits_BB (dh_finish ot) (lenN (occ ot)) = Some offb /\
    (forall c o, nthN ot c = Some (Some o) ->
       getValuePos_dh (dh_finish ot) c = Some o /\
       getValuePos_B (ft_bits (dh_finish ot)) comp c = Some o /\
       getValuePos_BB (ft_bits (dh_finish ot)) offb c = Some o) /\
    (forall id, 1 <= id <= lenN (occ ot) ->
       exists o, nthN (occ ot) (id - 1) = Some o /\
         getValue_dh (dh_finish ot) id = Some o /\ getValue_B comp id = Some o /\ getValue_BB offb id = Some o).
Proof. exact hash_repr_equiv. Qed.
Print Assumptions C12_hash_repr_equiv.

(* ---- 5. nearest_prime and coprimality --------------------------------------------- *)
Theorem C12_nearest_prime_spec : forall fuel n r,
  nearest_prime fuel n = Some r ->
  n <= r /\ r mod 2 = 1 /\ (r = 1 \/ prime r) /\ (2 <= n -> prime r).
Proof. exact nearest_prime_spec. Qed.
Print Assumptions C12_nearest_prime_spec.

Theorem C12_nearest_prime_coprime : forall fuel n m h2,
  nearest_prime fuel n = Some m ->
  (m = 1 /\ h2 = 0) \/ (1 <= h2 < m) ->
  N.gcd h2 m = 1.
Proof. exact nearest_prime_coprime. Qed.
Print Assumptions C12_nearest_prime_coprime.

Theorem C12_probe_visits_all : forall m h1 h2 c,
  0 < m -> N.gcd h2 m = 1 -> h1 < m -> c < m ->
  exists i, i < m /\ (h1 + i * h2) mod m = c.
Proof. exact probe_visits_all. Qed.
Print Assumptions C12_probe_visits_all.

(* ---- the hypotheses are satisfiable on non-trivial inputs --------------------------- *)
(* 5 keys in a table of 5 cells (completely full), four of them start in cell 2 *)
Definition ex_ks : list hkey :=
  [mkHKey [97] 2 1; mkHKey [98] 2 3; mkHKey [99; 100] 2 1; mkHKey [101] 2 4; mkHKey [102] 0 2].

Example ex_build_ok : dh_build_ok 5 ex_ks = true.
Proof. vm_compute. reflexivity. Qed.

Example ex_build :
  dh_build 5 ex_ks =
  Some ([Some [98]; Some [101]; Some [97]; Some [99; 100]; Some [102]], [2; 0; 3; 1; 4]).
Proof. vm_compute. reflexivity. Qed.

Example ex_nodup : NoDup (map hk_key ex_ks).
Proof. apply keys_nodup_NoDup. vm_compute. reflexivity. Qed.

Example ex_hk_ok : Forall (fun hk => hk_ok 5 hk = true) ex_ks.
Proof. repeat constructor. Qed.

(* members found after up to 3 probes; IDs = rank of the cells *)
Example ex_locate :
  map (dh_locate (fst (match dh_build 5 ex_ks with Some x => x | None => ([], []) end))) ex_ks =
  [Some 3; Some 1; Some 4; Some 2; Some 5].
Proof. vm_compute. reflexivity. Qed.

(* an absent key walks through the whole (full) table and terminates with "absent";
   even with a degenerate step value 0 or a step >= tsize *)
Example ex_absent :
  let t := fst (match dh_build 5 ex_ks with Some x => x | None => ([], []) end) in
  dh_search t (mkHKey [120] 2 1) = SAbsent /\ dh_search t (mkHKey [120] 4 0) = SAbsent /\
  dh_search_mul t (mkHKey [120] 3 7) = SAbsent.
Proof. vm_compute. auto. Qed.

(* representations: offsets 0 < 3 < 10 in cells 1, 2, 4 of a table of 5 *)
Definition ex_ot : dh_otable := [None; Some 0; Some 3; None; Some 10].
Example ex_repr_hyp : StronglySorted N.lt (occ ex_ot) /\ 1 <= lenN (occ ex_ot).
Proof. split; [repeat constructor|vm_compute; discriminate]. Qed.
Example ex_repr :
  dh_compact_B (dh_finish ex_ot) 3 = Some [0; 3; 10] /\
  dh_offbits_BB (dh_finish ex_ot) 3 =
    Some [true; false; false; true; false; false; false; false; false; false; true] /\
  getValuePos_BB (ft_bits (dh_finish ex_ot)) [true; false; false; true; false; false; false; false; false; false; true] 4 = Some 10.
Proof. vm_compute. auto. Qed.

(* nearest_prime: what the loop really returns for small n (not the least prime >= 2) *)
Example ex_np :
  map (nearest_prime 10) [0; 1; 2; 3; 4; 9; 25; 90] = [Some 1; Some 1; Some 3; Some 3; Some 5; Some 11; Some 29; Some 97].
Proof. vm_compute. reflexivity. Qed.

Example ex_prime_97 : prime 97.
Proof.
  destruct (nearest_prime_spec 10 90 97 eq_refl) as [_ [_ [_ H]]]. apply H. discriminate.
Qed.

(* the bound "number of keys <= table size" is necessary (constructor called with overhead < 0) *)
Theorem C01_dh_insert_overfull_refuted :
  exists m ks, NoDup (map hk_key ks) /\ Forall (fun hk => hk_ok m hk = true) ks /\
               lenN ks = m + 1 /\ dh_build m ks = None.
Proof. exact dh_insert_overfull_refuted. Qed.
Print Assumptions C01_dh_insert_overfull_refuted.
