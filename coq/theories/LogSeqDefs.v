(* Executable model of utils/LogSequence.{h,cpp}: packed array of [w]-bit fields in
   64-bit words (get_field / set_field / maxVal / numElementsFor / save / load).
   Words are modelled as N < 2^64; every C shift is written with the x86-64
   semantics the compiled code has (count taken mod 64, result truncated to 64
   bits), so the model also says what happens where the C++ has undefined
   behaviour. *)
From LibCSD Require Import Base Bytes.
Local Open Scope N_scope.

Definition W64 : N := 2 ^ 64.
Definition ones64 : N := N.ones 64.

Definition shl64 (x s : N) : N := (N.shiftl x (s mod 64)) mod W64.
Definition shr64 (x s : N) : N := N.shiftr x (s mod 64).
Definition not64 (x : N) : N := N.lnot x 64.

Fixpoint upd {A} (l : list A) (i : nat) (x : A) : list A :=
  match l, i with
  | [], _ => []
  | _ :: t, O => x :: t
  | h :: t, S i' => h :: upd t i' x
  end.
Definition updN {A} (l : list A) (i : N) (x : A) : list A := upd l (N.to_nat i) x.

(* size_t get_field(const size_t *data, size_t bitsField, size_t index) *)
Definition get_field (data : list N) (w idx : N) : option N :=
  let bitPos := idx * w in
  let i := bitPos / 64 in
  let j := bitPos mod 64 in
  if j + w <=? 64 then
    match nthN data i with
    | Some d => Some (shr64 (shl64 d (64 - j - w)) (64 - w))
    | None => None
    end
  else
    match nthN data i, nthN data (i + 1) with
    | Some d, Some d1 =>
        Some (N.lor (shr64 d j) (shr64 (shl64 d1 (128 - j - w)) (64 - w)))
    | _, _ => None
    end.

(* the field mask: [fixed = true] is the tree after the "fix:" commit
   (bitsField >= WLS special-cased, as maxVal already does); [fixed = false] is
   the pinned code  ~(~0 << bitsField)  whose shift count 64 is masked to 0 *)
Definition field_mask (fixed : bool) (w : N) : N :=
  if fixed && (64 <=? w) then ones64 else not64 (shl64 ones64 w).

(* void set_field(size_t *data, size_t bitsField, size_t index, size_t value) *)
Definition set_field_gen (fixed : bool) (data : list N) (w idx value : N) : option (list N) :=
  let bitPos := idx * w in
  let i := bitPos / 64 in
  let j := bitPos mod 64 in
  match nthN data i with
  | None => None
  | Some d =>
      let mask := shl64 (field_mask fixed w) j in
      let d' := N.lor (N.land d (not64 mask)) (shl64 value j) in
      let data1 := updN data i d' in
      if 64 <? j + w then
        match nthN data (i + 1) with
        | None => None
        | Some d1 =>
            let mask1 := shl64 ones64 (w + j - 64) in
            Some (updN data1 (i + 1) (N.lor (N.land d1 mask1) (shr64 value (64 - j))))
        end
      else Some data1
  end.

Definition set_field := set_field_gen true.
Definition set_field_pinned := set_field_gen false.

Definition maxVal (w : N) : N :=
  if w =? 32 then 2 ^ 32 - 1 else if w =? 64 then ones64 else not64 (shl64 ones64 w).

Definition numElementsFor (w n : N) : N := (w * n + 63) / 64.
Definition numBytesFor (w n : N) : N := (w * n + 7) / 8.

(* bits(n): number of bits needed for n (0 for 0) *)
Definition bitsN (n : N) : N := N.size n.

Record logseq := { ls_bits : N; ls_n : N; ls_data : list N }.

Definition ls_new (w n : N) : logseq :=
  {| ls_bits := w; ls_n := n; ls_data := repeat 0 (N.to_nat (numElementsFor w n)) |}.

Definition ls_get (s : logseq) (pos : N) : option N :=
  if ls_n s <? pos then None else get_field (ls_data s) (ls_bits s) pos.

Definition ls_set (s : logseq) (pos v : N) : option logseq :=
  if ls_n s <? pos then None
  else if maxVal (ls_bits s) <? v then None
  else match set_field (ls_data s) (ls_bits s) pos v with
       | Some d => Some {| ls_bits := ls_bits s; ls_n := ls_n s; ls_data := d |}
       | None => None
       end.

Fixpoint ls_fill (s : logseq) (i : N) (vs : list N) : option logseq :=
  match vs with
  | [] => Some s
  | v :: vs' => match ls_set s i v with Some s' => ls_fill s' (i + 1) vs' | None => None end
  end.

(* LogSequence(std::vector<size_t>*, numbits) *)
Definition ls_of_list (vs : list N) (w : N) : option logseq := ls_fill (ls_new w (lenN vs)) 0 vs.

(* save: numbits (1 byte), numentries (8 bytes), then numBytesFor rounded up to a
   multiple of 8 bytes of the word array *)
Definition ls_padded_bytes (w n : N) : N :=
  let nb := numBytesFor w n in if nb mod 8 =? 0 then nb else nb + (8 - nb mod 8).

Definition ls_save (s : logseq) : list N :=
  le_bytes 1 (ls_bits s) ++ le_bytes 8 (ls_n s) ++
  firstn (N.to_nat (ls_padded_bytes (ls_bits s) (ls_n s))) (flat_map (le_bytes 8) (ls_data s)).

Fixpoint words_of_bytes (k : nat) (bs : list N) : list N :=
  match k with
  | O => []
  | S k' => le_value (firstn 8 bs) :: words_of_bytes k' (skipn 8 bs)
  end.

Definition ls_load (bs : list N) : option (logseq * list N) :=
  match bs with
  | [] => None
  | b :: r =>
      if (length r <? 8)%nat then None else
      let n := le_value (firstn 8 r) in
      let r' := skipn 8 r in
      let nb := ls_padded_bytes b n in
      if (length r' <? N.to_nat nb)%nat then None else
      Some ({| ls_bits := b; ls_n := n;
               ls_data := words_of_bytes (N.to_nat (nb / 8)) (firstn (N.to_nat nb) r') |},
            skipn (N.to_nat nb) r')
  end.
