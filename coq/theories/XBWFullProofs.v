(* XBW dictionary: the statements XBWProofs.v left as [Definition ... : Prop]:
     1. navigation downward: getChildren of a node = exactly the interval of its children rows;
     2. extractPrefix (current tree): NULL exactly when no member has the prefix, and the strncpy into the
        maxlength+1 bytes buffer never overruns for an in-scope pattern of ANY length;
     3. the prefix iterators (BFS over the subtree below the pattern node): the emitted stream is exactly the
        members with the prefix, each once; no fuel exhaustion, no out-of-bounds read, no MORE with
        cap = 3 + |S|. *)
From LibCSD Require Import Base Bytes BitRGDefs BitRGProofs Spec SpecProofs XBWDefs XBWProofs XBWApiProofs.
Require Import Lia ZifyBool ZifyNat ZifyN Sorted Permutation.
Ltac Zify.zify_post_hook ::= Z.to_euclidean_division_equations.
Local Open Scope N_scope.

(* ================================================================== *)
(* 0. generic list facts                                               *)
(* ================================================================== *)
Lemma app_inv_NoDup {T} (l1 : list T) : forall l1' x l2 l2',
  NoDup (l1 ++ x :: l2) -> l1 ++ x :: l2 = l1' ++ x :: l2' -> l1 = l1'.
Proof.
  induction l1 as [|a l1 IH]; intros l1' x l2 l2' ND E.
  - destruct l1' as [|a' l1']; [reflexivity|]. cbn [app] in *. injection E as E1 E2.
    apply NoDup_cons_iff in ND as [ND _]. exfalso. apply ND. rewrite E2. apply in_or_app. right. left. reflexivity.
  - destruct l1' as [|a' l1'].
    + cbn [app] in *. injection E as E1 E2. apply NoDup_cons_iff in ND as [ND _]. exfalso. apply ND.
      apply in_or_app. right. left. symmetry. exact E1.
    + cbn [app] in *. injection E as E1 E2. subst a'. f_equal. apply NoDup_cons_iff in ND as [_ ND].
      eapply IH; eauto.
Qed.

Lemma app_eq_len {T} (a : list T) : forall b r1 r2, a ++ r1 = b ++ r2 -> length r1 = length r2 -> a = b /\ r1 = r2.
Proof.
  induction a as [|x a IH]; intros [|y b] r1 r2 E L; cbn [app] in *.
  - auto.
  - subst r1. cbn [length] in L. rewrite app_length in L. lia.
  - subst r2. cbn [length] in L. rewrite app_length in L. lia.
  - injection E as <- E. destruct (IH _ _ _ E L) as [-> ->]. auto.
Qed.

Definition is_suffix (K L : list N) : bool := is_prefix (rev K) (rev L).

Lemma is_suffix_iff K L : is_suffix K L = true <-> exists y, L = y ++ K.
Proof.
  unfold is_suffix. rewrite is_prefix_app. split.
  - intros [r E]. exists (rev r). apply (f_equal (@rev N)) in E.
    rewrite rev_involutive, rev_app_distr, rev_involutive in E. exact E.
  - intros [y ->]. exists (rev y). apply rev_app_distr.
Qed.

(* ================================================================== *)
(* 1. getChildren                                                      *)
(* ================================================================== *)
Section Children.
  Variables (S : list str) (B : list blk) (d : xbw).
  Hypothesis HB : binv S B.
  Hypothesis HA : ainv S B d.

  (* the rows of one block *)
  Lemma block_rows C1 b' C2 : B = C1 ++ b' :: C2 ->
    forall i k' c', nthN (rows_of B) i = Some (k', c') ->
      (lenN (labels_of C1) <= i < lenN (labels_of C1) + lenN (snd b') <-> k' = fst b').
  Proof.
    intros EB i k' c' Hrow. split.
    - intros [H1 H2]. rewrite EB, rows_app in Hrow. rewrite nthN_app_r in Hrow by (rewrite rows_len; exact H1).
      rewrite rows_len in Hrow. change (rows_of (b' :: C2)) with (blk_rows b' ++ rows_of C2) in Hrow.
      rewrite nthN_app_l in Hrow by (unfold blk_rows; rewrite lenN_map; lia).
      unfold blk_rows, nthN in Hrow. rewrite nth_error_map in Hrow.
      destruct (nth_error (snd b') _); [|discriminate]. cbn in Hrow. injection Hrow as <- _. reflexivity.
    - intros ->. destruct (row_decomp B i _ c' Hrow) as (D1 & b2 & D2 & t & ED & Ei & Ht & Ek & _).
      assert (b2 = b').
      { apply (key_inj B); [apply (bi_sorted _ _ HB)| | |exact Ek]; [rewrite ED|rewrite EB]; apply in_or_app; right; left; reflexivity. }
      subst b2. assert (D1 = C1).
      { apply (app_inv_NoDup D1 C1 b' D2 C2); [rewrite <- ED; apply (B_NoDup S B HB)|rewrite <- ED; exact EB]. }
      subst D1. lia.
  Qed.

  Lemma sel_block C1 b' C2 : B = C1 ++ b' :: C2 -> C1 <> [] ->
    sel1m (x_last d) (lenN C1) = lenN (labels_of C1) - 1 /\
    sel1m (x_last d) (lenN C1 + 1) = lenN (labels_of C1) + lenN (snd b') - 1 /\
    1 <= lenN (labels_of C1) /\ 1 <= lenN (snd b') /\
    lenN (labels_of C1) + lenN (snd b') <= lenN (labels_of B) /\ lenN C1 + 1 <= lenN B.
  Proof.
    intros EB Hne. pose proof (B_neb S B HB) as Hneb. rewrite EB in Hneb.
    destruct (neb_app _ _ Hneb) as [N1 N2].
    assert (Hb : snd b' <> []) by (apply N2; left; reflexivity).
    unfold sel1m. rewrite (ai_last _ _ _ HA).
    split; [|split; [|split; [|split; [|split]]]].
    - rewrite EB at 1. rewrite (sel_blocks C1 (b' :: C2) N1 Hne). reflexivity.
    - replace (lenN C1 + 1) with (lenN (C1 ++ [b'])) by (rewrite lenN_app; reflexivity).
      rewrite EB at 1. replace (C1 ++ b' :: C2) with ((C1 ++ [b']) ++ C2) by (rewrite <- app_assoc; reflexivity).
      rewrite sel_blocks.
      + rewrite labels_app. change (labels_of [b']) with (snd b' ++ []). rewrite app_nil_r, lenN_app. reflexivity.
      + intros x Hx. apply in_app_or in Hx as [Hx|[<-|[]]]; auto.
      + destruct C1; discriminate.
    - pose proof (neb_len C1 N1). destruct C1; [congruence|]. rewrite lenN_cons in H. lia.
    - destruct (snd b'); [congruence|]. rewrite lenN_cons. lia.
    - rewrite EB, labels_app. change (labels_of (b' :: C2)) with (snd b' ++ labels_of C2). rewrite !lenN_app. lia.
    - rewrite EB, lenN_app, lenN_cons. lia.
  Qed.

  (* inclusive rank of the label of a row = 1 + number of earlier blocks holding that label *)
  Lemma rank_at_row B1 b B2 l1 c l2 : B = B1 ++ b :: B2 -> snd b = l1 ++ c :: l2 -> 1 <= c ->
    seq_rank c (labels_of B) (lenN (labels_of B1) + lenN l1) = lenN (filter (has c) B1) + 1.
  Proof.
    intros EB El Hc.
    assert (Hb : In b B) by (rewrite EB; apply in_or_app; right; left; reflexivity).
    assert (Hok : okc c b) by (apply (B_okc S B HB); assumption).
    assert (Hl1 : seq_count c l1 = 0).
    { unfold okc in Hok.
      replace (has c b) with true in Hok by (symmetry; apply has_In; rewrite El; apply in_or_app; right; left; reflexivity).
      rewrite El, seq_count_app, seq_count_cons, N.eqb_refl in Hok. lia. }
    unfold seq_rank, bv_rank1.
    rewrite EB at 1. rewrite labels_app. change (labels_of (b :: B2)) with (snd b ++ labels_of B2). rewrite El.
    replace (labels_of B1 ++ (l1 ++ c :: l2) ++ labels_of B2) with ((labels_of B1 ++ l1 ++ [c]) ++ (l2 ++ labels_of B2))
      by (rewrite <- !app_assoc; reflexivity).
    rewrite seq_bits_app.
    assert (HL : lenN (seq_bits c (labels_of B1 ++ l1 ++ [c])) = lenN (labels_of B1) + lenN l1 + 1).
    { unfold seq_bits. rewrite lenN_map, !lenN_app. change (lenN [c]) with 1. lia. }
    rewrite prefix_count_app_l by lia. rewrite prefix_count_all by lia.
    change (countb true (seq_bits c (labels_of B1 ++ l1 ++ [c]))) with (seq_count c (labels_of B1 ++ l1 ++ [c])).
    rewrite !seq_count_app, seq_count_cons, N.eqb_refl, Hl1.
    rewrite (cnt_labels c).
    - change (seq_count c []) with 0. lia.
    - intros x Hx. apply (B_okc S B HB); [exact Hc|]. rewrite EB. apply in_or_app. left. exact Hx.
  Qed.

  (* the blocks before a block of group c: those below [c], and the earlier blocks of the group *)
  Lemma split_group c k' C1 b' C2 : B = C1 ++ b' :: C2 -> fst b' = c :: k' ->
    lenN C1 = NB (klt [c]) B + lenN (filter (grp c) C1).
  Proof.
    intros EB Ek. pose proof (bi_sorted _ _ HB) as HS. rewrite EB in HS. destruct (SS_mid C1 b' C2 HS) as [Hlo Hhi].
    assert (Hcase : forall x, In x C1 -> klt [c] (fst x) || grp c x = true).
    { intros x Hx. specialize (Hlo x Hx). rewrite Ek in Hlo. apply lex_ltb_lt in Hlo.
      change (lex_ltb (fst x) (c :: k')) with (klt (c :: k') (fst x)) in Hlo. rewrite (klt_lift c k') in Hlo.
      unfold lift, grp in *. apply orb_prop in Hlo as [H|H]; [rewrite H; reflexivity|].
      destruct (fst x) as [|y ky]; [discriminate|]. apply andb_prop in H as [H _]. rewrite H. apply orb_true_r. }
    assert (Hex : forall x : blk, klt [c] (fst x) = true -> grp c x = false).
    { intros x H. unfold grp, klt, lex_ltb in *. destruct (fst x) as [|y ky]; [reflexivity|].
      cbn [lex_compare] in H. destruct (N.compare_spec y c) as [->|?|?]; try (apply N.eqb_neq; lia).
      destruct ky; discriminate. }
    assert (HNB : NB (klt [c]) B = lenN (filter (fun x : list N * list N => klt [c] (fst x)) C1)).
    { unfold NB, bsel. rewrite EB, filter_app. cbn [filter]. unfold blk in *.
      replace (klt [c] (fst b')) with false.
      2:{ rewrite Ek. unfold klt, lex_ltb. cbn [lex_compare]. rewrite N.compare_refl. destruct k'; reflexivity. }
      rewrite (filter_none (fun x : list N * list N => klt [c] (fst x)) C2).
      - rewrite app_nil_r. reflexivity.
      - intros x Hx. destruct (klt [c] (fst x)) eqn:E; [|reflexivity]. exfalso.
        specialize (Hhi x Hx). unfold klt in E. apply lex_ltb_lt in E.
        assert (lex_lt (fst b') [c]) by (eapply lex_lt_trans; eauto). rewrite Ek in H.
        unfold lex_lt in H. cbn [lex_compare] in H. rewrite N.compare_refl in H. destruct k'; discriminate. }
    rewrite HNB.
    assert (H1 : lenN C1 = lenN (filter (fun x : list N * list N => klt [c] (fst x) || grp c x) C1)).
    { rewrite filter_all; [reflexivity|exact Hcase]. }
    rewrite H1 at 1. apply filter_or_len. intros x _. apply Hex.
  Qed.

  (* the child block below the row (fst b, c): its position in the block list *)
  Lemma child_block B1 b B2 c : B = B1 ++ b :: B2 -> In c (snd b) -> 1 <= c <= 254 ->
    exists C1 b' C2, B = C1 ++ b' :: C2 /\ fst b' = c :: fst b /\
      lenN C1 = NB (klt [c]) B + lenN (filter (has c) B1).
  Proof.
    intros EB Hc Hr.
    pose proof (star S B HB c Hr) as Hst.
    set (j := lenN (filter (has c) B1)).
    assert (Hg : nth_error (map (fun b0 : list N * list N => c :: fst b0) (filter (has c) B)) (N.to_nat j) = Some (c :: fst b)).
    { rewrite EB, filter_app. cbn [filter]. replace (has c b) with true by (symmetry; apply has_In; exact Hc).
      rewrite map_app. cbn [map]. rewrite nth_error_app2 by (rewrite map_length; unfold j, lenN; lia).
      rewrite map_length. replace (N.to_nat j - length (filter (has c) B1))%nat with 0%nat by (unfold j, lenN; lia).
      reflexivity. }
    rewrite Hst in Hg. rewrite nth_error_map in Hg.
    match type of Hg with option_map _ ?X = _ => destruct X as [b'|] eqn:E end; cbn [option_map] in Hg; [|discriminate].
    injection Hg as Ek.
    destruct (nth_filter_split _ _ _ _ E) as (C1 & C2 & EC & HjC & _).
    exists C1, b', C2. split; [exact EC|]. split; [exact Ek|].
    rewrite (split_group c (fst b) C1 b' C2 EC Ek). f_equal.
    apply N2Nat.inj. unfold lenN at 1. rewrite Nat2N.id. exact HjC.
  Qed.

  Hypothesis HS : S <> [].

  Lemma maxLabel_neq c : In c (labels_of B) -> c <> 255 -> (x_maxLabel d =? mapf d c) = false.
  Proof.
    intros Hin Hn. rewrite (ai_max _ _ _ HA). apply N.eqb_neq. intros E.
    destruct (label_used S B HB c Hin) as [Hu Hc].
    destruct (label_used S B HB 255 (used_255 S B d HB HA HS)) as [Hu' _].
    apply Hn. symmetry. apply (mapf_inj S B d HA 255 c); auto. lia.
  Qed.

  Lemma getChildren_fin n c y z C1 b' C2 :
    nthN (labels_of B) n = Some c -> c <> 255 ->
    xselA d (mapf d c) = Some y -> (if y =? 0 then Some 0 else last_rank1 d (y - 1)) = Some z ->
    z + seq_rank c (labels_of B) n = lenN C1 + 1 -> B = C1 ++ b' :: C2 -> C1 <> [] ->
    xbw_getChildren d n = Some (lenN (labels_of C1), lenN (labels_of C1) + lenN (snd b') - 1).
  Proof.
    intros Hn Hc Hy Hz Hzk EB Hne.
    assert (Hin : In c (labels_of B)) by (unfold nthN in Hn; eapply nth_error_In; eauto).
    destruct (label_used S B HB c Hin) as [Hu Hc256].
    destruct (sel_block C1 b' C2 EB Hne) as (S1 & S2 & L1 & L2 & L3 & L4).
    pose proof (nodes_small S B d HA) as Hsm. pose proof (neb_len B (B_neb S B HB)) as HnB.
    unfold xbw_getChildren. rewrite (alpha_access_eq S B d HA n c Hn). cbv zeta.
    rewrite (maxLabel_neq c Hin Hc). rewrite Hy, Hz.
    unfold seq_rank in *. rewrite (alpha_bits S B d HB HA c Hc256 Hu).
    set (kr := bv_rank1 (seq_bits c (labels_of B)) n) in *.
    rewrite (u32_small z) by lia. rewrite (u32_small kr) by lia. rewrite (u32_small (z + kr)) by lia.
    rewrite Hzk. rewrite subu32_1 by lia. replace (lenN C1 + 1 - 1) with (lenN C1) by lia.
    rewrite S1, S2. rewrite !u32_small by lia. do 2 f_equal. lia.
  Qed.

  Theorem getChildren_spec n k c : nthN (rows_of B) n = Some (k, c) -> 1 <= n -> c <> 255 ->
    exists ini fin, xbw_getChildren d n = Some (ini, fin) /\ ini <= fin /\ 2 <= ini /\ fin < lenN (labels_of B) /\
      forall i k' c', nthN (rows_of B) i = Some (k', c') -> (ini <= i <= fin <-> k' = c :: k).
  Proof.
    intros Hrow Hn1 Hc.
    destruct (row_decomp B n k c Hrow) as (B1 & b & B2 & t & EB & En & Ht & Ek & Hct).
    destruct (B_shape S B HB) as (lr & Br & Esh).
    pose proof (nthN_labels B n k c Hrow) as Hlab.
    destruct B1 as [|x B1'].
    - (* the root row *)
      cbn [app] in EB. rewrite Esh in EB. injection EB as <- EB2. cbn [fst snd] in *.
      change (labels_of []) with (@nil N) in En. rewrite lenN_nil in En.
      assert (t = 1) by (unfold lenN in Ht; cbn [length] in Ht; lia). subst t. cbn in Hct. injection Hct as <-. subst k.
      assert (n = 1) by lia. subst n.
      assert (U0 : used B 0 = true) by reflexivity.
      destruct (used_facts S B d HA 0 ltac:(lia) U0) as (_ & _ & Hsel). destruct (Hsel ltac:(lia)) as [Hy _].
      rewrite (NR_klt0 S B HB) in Hy.
      assert (Hrk : seq_rank 0 (labels_of B) 1 = 2) by (rewrite Esh; reflexivity).
      pose proof (getChildren_fin 1 0 0 0 [([0], [0; 0])] ([0; 0], lr) Br Hlab Hc Hy eq_refl ltac:(rewrite Hrk; reflexivity) Esh ltac:(discriminate)) as HG.
      destruct (sel_block [([0], [0; 0])] ([0; 0], lr) Br Esh ltac:(discriminate)) as (_ & _ & L1 & L2 & L3 & _).
      change (labels_of [([0], [0; 0])]) with [0; 0] in *. cbn [snd fst] in *.
      change (lenN [0; 0]) with 2 in *.
      exists 2, (2 + lenN lr - 1). split; [exact HG|]. split; [lia|]. split; [lia|]. split; [lia|].
      intros i k' c' Hi. pose proof (block_rows [([0], [0; 0])] ([0; 0], lr) Br Esh i k' c' Hi) as HR.
      change (labels_of [([0], [0; 0])]) with [0; 0] in HR. cbn [snd fst] in HR. change (lenN [0; 0]) with 2 in HR.
      rewrite <- HR. lia.
    - (* a row of a proper block *)
      assert (Hx : x = ([0], [0; 0])) by (rewrite Esh in EB; cbn [app] in EB; injection EB as E1 _; congruence).
      assert (HbB : In b B) by (rewrite EB; apply in_or_app; right; left; reflexivity).
      assert (Htl : In b (tl B)).
      { rewrite EB. cbn [app tl]. apply in_or_app. right. left. reflexivity. }
      destruct (bi_blk _ _ HB b Htl) as (_ & _ & _ & Hrng).
      assert (Hcb : In c (snd b)) by (unfold nthN in Hct; eapply nth_error_In; eauto).
      specialize (Hrng c Hcb).
      assert (Hr : 1 <= c <= 254) by lia.
      destruct (child_block (x :: B1') b B2 c EB Hcb Hr) as (C1 & b' & C2 & EC & Ekb & HlenC).
      set (j := lenN (filter (has c) (x :: B1'))) in *.
      destruct (nth_error_split _ _ Hct) as (l1 & l2 & El & Hl1).
      assert (Hrk : seq_rank c (labels_of B) n = j + 1).
      { rewrite En. replace t with (lenN l1) by (unfold lenN; lia).
        apply (rank_at_row (x :: B1') b B2 l1 c l2 EB El). lia. }
      assert (Hin : In c (labels_of B)) by (unfold labels_of; apply in_flat_map; eauto).
      destruct (label_used S B HB c Hin) as [Hu Hc256].
      destruct (used_facts S B d HA c Hc256 Hu) as (_ & _ & Hsel). destruct (Hsel Hc) as [Hy _].
      destruct (head_klt S B HB c) as [B' EB']; [lia|].
      assert (Hy2 : 2 <= NR (klt [c]) B).
      { unfold NR. rewrite EB'. change (labels_of (([0], [0; 0]) :: B')) with ([0; 0] ++ labels_of B').
        rewrite lenN_app. unfold lenN at 1. cbn [length]. lia. }
      assert (HNB1 : 1 <= NB (klt [c]) B) by (unfold NB; rewrite EB', lenN_cons; lia).
      assert (Hz : (if NR (klt [c]) B =? 0 then Some 0 else last_rank1 d (NR (klt [c]) B - 1)) = Some (NB (klt [c]) B)).
      { replace (NR (klt [c]) B =? 0) with false by lia. unfold last_rank1. rewrite (last_len S B d HA).
        pose proof (NR_le_total (klt [c]) B).
        replace (NR (klt [c]) B - 1 <? lenN (labels_of B)) with true by lia.
        rewrite (ai_last _ _ _ HA), (rank_last_P S B HB _ (klt_dclosed [c])) by lia. reflexivity. }
      assert (HneC : C1 <> []) by (intros ->; rewrite lenN_nil in HlenC; lia).
      pose proof (getChildren_fin n c _ _ C1 b' C2 Hlab Hc Hy Hz ltac:(rewrite Hrk; lia) EC HneC) as HG.
      destruct (sel_block C1 b' C2 EC HneC) as (_ & _ & L1 & L2 & L3 & _).
      assert (L0 : 2 <= lenN (labels_of C1)).
      { destruct C1 as [|x1 C1']; [congruence|]. rewrite Esh in EC. cbn [app] in EC. injection EC as E1 _. subst x1.
        change (labels_of (([0], [0; 0]) :: C1')) with ([0; 0] ++ labels_of C1'). rewrite lenN_app.
        unfold lenN at 1. cbn [length]. lia. }
      exists (lenN (labels_of C1)), (lenN (labels_of C1) + lenN (snd b') - 1).
      split; [exact HG|]. split; [lia|]. split; [lia|]. split; [lia|].
      intros i k' c' Hi. pose proof (block_rows C1 b' C2 EC i k' c' Hi) as HR.
      rewrite Ekb, Ek in HR. rewrite <- HR. lia.
  Qed.
End Children.

(* ================================================================== *)
(* 2. subtrees: the rows below a node                                  *)
(* ================================================================== *)
Lemma asc_NoDup l : asc_b l = true -> NoDup l.
Proof.
  induction l as [|x t IH]; intros H; constructor.
  - intros Hin. pose proof (asc_gt x t H x Hin). lia.
  - apply IH. eapply asc_tail; eauto.
Qed.

Lemma NoDup_app_intro {T} (l1 l2 : list T) : NoDup l1 -> NoDup l2 -> (forall x, In x l1 -> ~ In x l2) -> NoDup (l1 ++ l2).
Proof.
  induction l1 as [|a l1 IH]; intros H1 H2 H; [exact H2|]. cbn [app]. apply NoDup_cons_iff in H1 as [Ha H1]. constructor.
  - intros Hin. apply in_app_or in Hin as [Hin|Hin]; [contradiction|]. apply (H a); [left; reflexivity|exact Hin].
  - apply IH; auto. intros x Hx. apply H. right; exact Hx.
Qed.

Lemma NoDup_flat_map_intro {A C} (f : A -> list C) l : NoDup l -> (forall x, In x l -> NoDup (f x)) ->
  (forall x1 x2 y, In x1 l -> In x2 l -> In y (f x1) -> In y (f x2) -> x1 = x2) -> NoDup (flat_map f l).
Proof.
  induction l as [|a l IH]; intros Hl Hf Hd; [constructor|]. cbn [flat_map].
  apply NoDup_cons_iff in Hl as [Ha Hl]. apply NoDup_app_intro.
  - apply Hf. left; reflexivity.
  - apply IH; auto.
    + intros x Hx. apply Hf. right; exact Hx.
    + intros x1 x2 y H1 H2. apply Hd; right; assumption.
  - intros y Hy Hin. apply in_flat_map in Hin as (x & Hx & Hyx).
    assert (a = x) by (apply (Hd a x y); auto; [left; reflexivity|right; exact Hx]). subst. contradiction.
Qed.

Lemma Permutation_filter {T} (f : T -> bool) l l' : Permutation l l' -> Permutation (filter f l) (filter f l').
Proof.
  induction 1 as [|x l l' H IH|x y l|l l' l'' H1 IH1 H2 IH2]; cbn [filter].
  - constructor.
  - destruct (f x); [constructor|]; exact IH.
  - destruct (f x), (f y); try apply Permutation_refl. apply perm_swap.
  - eapply Permutation_trans; eauto.
Qed.

Lemma filter_flat_map {A C} (g : C -> bool) (f : A -> list C) l :
  filter g (flat_map f l) = flat_map (fun x => filter g (f x)) l.
Proof. induction l as [|a l IH]; [reflexivity|]. cbn [flat_map]. rewrite filter_app, IH. reflexivity. Qed.

Lemma single_list {T} (l : list T) i : NoDup l -> (forall j, In j l <-> j = i) -> l = [i].
Proof.
  intros ND H. destruct l as [|a l]; [exfalso; apply (proj2 (H i) eq_refl)|].
  assert (a = i) by (apply H; left; reflexivity). subst a. f_equal.
  destruct l as [|b l]; [reflexivity|]. exfalso.
  assert (b = i) by (apply H; right; left; reflexivity). subst b.
  apply NoDup_cons_iff in ND as [ND _]. apply ND. left; reflexivity.
Qed.

Lemma rangeN_In l r i : In i (rangeN l r) <-> l <= i <= r.
Proof.
  unfold rangeN. destruct (N.ltb_spec r l) as [H|H]; [split; [intros []|lia]|].
  rewrite in_map_iff. split.
  - intros (k & <- & Hk). apply in_seq in Hk. lia.
  - intros Hi. exists (N.to_nat (i - l)). split; [lia|]. apply in_seq. lia.
Qed.

Lemma rangeN_NoDup l r : NoDup (rangeN l r).
Proof.
  unfold rangeN. destruct (r <? l); [constructor|]. apply NoDup_map_in; [|apply seq_NoDup].
  intros x y _ _ E. lia.
Qed.

Lemma rangeN_cons l r : l <= r -> rangeN l r = l :: rangeN (l + 1) r.
Proof.
  intros H. unfold rangeN. replace (r <? l) with false by lia.
  replace (N.to_nat (r - l + 1)) with (Datatypes.S (N.to_nat (r - l))) by lia.
  cbn [seq map]. rewrite N.add_0_r. f_equal.
  destruct (N.ltb_spec r (l + 1)) as [H1|H1].
  - replace (N.to_nat (r - l)) with 0%nat by lia. reflexivity.
  - replace (N.to_nat (r - (l + 1) + 1)) with (N.to_nat (r - l)) by lia.
    rewrite <- seq_shift, map_map. apply map_ext. intros a. lia.
Qed.

Lemma exists_last_or_nil {T} (y : list T) : y = [] \/ exists y' c, y = y' ++ [c].
Proof. destruct y as [|a y]; [left; reflexivity|right]. destruct (@exists_last _ (a :: y)) as (y' & c & E); [discriminate|eauto]. Qed.

Lemma filter_len_le {T} (f : T -> bool) l : (length (filter f l) <= length l)%nat.
Proof. induction l as [|a l IH]; cbn [filter length]; [lia|]. destruct (f a); cbn [length]; lia. Qed.

Section Subtree.
  Variables (S : list str) (B : list blk).
  Hypothesis HB : binv S B.

  (* a row of a proper block (everything but the two sentinel rows) *)
  Definition RowIn (k : list N) (c : N) : Prop := exists b, In b (tl B) /\ fst b = k /\ In c (snd b).

  Lemma row_RowIn i k c : nthN (rows_of B) i = Some (k, c) -> 2 <= i -> RowIn k c.
  Proof.
    intros Hrow Hi. destruct (row_decomp B i k c Hrow) as (B1 & b & B2 & t & EB & En & Ht & Ek & Hct).
    destruct (B_shape S B HB) as (lr & Br & Esh).
    exists b. split; [|split; [exact Ek|unfold nthN in Hct; eapply nth_error_In; eauto]].
    destruct B1 as [|x B1'].
    - exfalso. cbn [app] in EB. rewrite Esh in EB. injection EB as <- _. cbn [snd] in Ht.
      change (labels_of []) with (@nil N) in En. rewrite lenN_nil in En. unfold lenN in Ht. cbn [length] in Ht. lia.
    - rewrite EB. cbn [app tl]. apply in_or_app. right. left. reflexivity.
  Qed.

  Lemma RowIn_row k c : RowIn k c -> exists i, nthN (rows_of B) i = Some (k, c) /\ 2 <= i /\ i < lenN (labels_of B).
  Proof.
    intros (b & Hb & <- & Hc). destruct (B_shape S B HB) as (lr & Br & Esh).
    rewrite Esh in Hb. cbn [tl] in Hb. destruct (in_split _ _ Hb) as (X & Y & EX).
    destruct (in_split _ _ Hc) as (l1 & l2 & El).
    assert (EB : B = (([0], [0; 0]) :: X) ++ b :: Y) by (rewrite Esh, EX; reflexivity).
    assert (Hrow : nthN (rows_of B) (lenN (labels_of (([0], [0; 0]) :: X)) + lenN l1) = Some (fst b, c)).
    { rewrite EB at 1. apply (row_compose _ b Y l1 c l2 El). }
    exists (lenN (labels_of (([0], [0; 0]) :: X)) + lenN l1). split; [exact Hrow|split].
    - change (labels_of (([0], [0; 0]) :: X)) with ([0; 0] ++ labels_of X). rewrite lenN_app.
      change (lenN [0; 0]) with 2. lia.
    - apply nthN_Some_lt in Hrow. rewrite rows_len in Hrow. exact Hrow.
  Qed.

  Lemma RowIn_key k c : RowIn k c -> exists r, k = r ++ [0; 0] /\ Forall vbyte r /\ 2 <= c <= 255.
  Proof.
    intros (b & Hb & <- & Hc). destruct (key_form S B HB b Hb) as (r & E & Hr). exists r.
    split; [exact E|]. split; [exact Hr|]. destruct (bi_blk _ _ HB b Hb) as (_ & _ & _ & H). apply H. exact Hc.
  Qed.

  Lemma row_inj i j k c : nthN (rows_of B) i = Some (k, c) -> nthN (rows_of B) j = Some (k, c) -> 2 <= i -> i = j.
  Proof.
    intros Hi Hj H2. destruct (row_RowIn i k c Hi H2) as (b0 & Hb0 & Ek0 & _).
    destruct (row_decomp B i k c Hi) as (B1 & b & B2 & t & EB & En & Ht & Ek & Hct).
    destruct (row_decomp B j k c Hj) as (D1 & b2 & D2 & t2 & ED & En2 & Ht2 & Ek2 & Hct2).
    assert (InB : forall X x Y, B = X ++ x :: Y -> In x B) by (intros X x Y ->; apply in_or_app; right; left; reflexivity).
    assert (b2 = b) by (apply (key_inj B); [apply (bi_sorted _ _ HB)|eapply InB; eauto|eapply InB; eauto|congruence]).
    subst b2.
    assert (b0 = b).
    { apply (key_inj B); [apply (bi_sorted _ _ HB)| |eapply InB; eauto|congruence].
      destruct (B_shape S B HB) as (lr & Br & Esh). rewrite Esh in Hb0 |- *. right. exact Hb0. }
    subst b0.
    assert (D1 = B1) by (apply (app_inv_NoDup D1 B1 b D2 B2); [rewrite <- ED; apply (B_NoDup S B HB)|rewrite <- ED; exact EB]).
    subst D1.
    destruct (bi_blk _ _ HB b Hb0) as (_ & _ & Hasc & _).
    assert (t = t2).
    { apply N2Nat.inj. apply (proj1 (NoDup_nth_error (snd b)) (asc_NoDup _ Hasc)).
      - unfold lenN in Ht. lia.
      - unfold nthN in *. congruence. }
    lia.
  Qed.

  (* upward closure: every ancestor of a row is a row *)
  Lemma up_closed y : forall k' c' c1 K, RowIn k' c' -> c' :: k' = y ++ c1 :: K -> (2 <= length K)%nat -> RowIn K c1.
  Proof.
    induction y as [|a y IH]; intros k' c' c1 K HR E HK.
    - cbn [app] in E. injection E as -> ->. exact HR.
    - cbn [app] in E. injection E as -> Ek. destruct HR as (b & Hb & Ekb & _).
      destruct (B_shape S B HB) as (lr & Br & Esh).
      assert (Htt : In b (tl (tl B))).
      { rewrite Esh in Hb |- *. cbn [tl] in *. destruct Hb as [<-|Hb]; [|exact Hb].
        exfalso. cbn [fst] in Ekb. rewrite Ek in Ekb. apply (f_equal (@length N)) in Ekb.
        rewrite app_length in Ekb. cbn [length] in Ekb. lia. }
      destruct (bi_up _ _ HB b Htt) as (c0 & k0 & b0 & E0 & Hb0 & Ek0 & Hc0).
      apply (IH k0 c0 c1 K); [exists b0; auto| |exact HK]. rewrite <- E0, Ekb. exact Ek.
  Qed.

  (* ---- the subtree of a node, as the list of its row indices ---- *)
  Definition nkey (r : list N * N) : list N := snd r :: fst r.
  Definition idx : list N := map N.of_nat (seq 0 (length (rows_of B))).
  Definition inST (K : list N) (j : N) : bool :=
    match nthN (rows_of B) j with Some r => is_suffix K (nkey r) | None => false end.
  Definition ST (K : list N) : list N := filter (inST K) idx.
  Definition STi (i : N) : list N := match nthN (rows_of B) i with Some r => ST (nkey r) | None => [] end.
  Definition leafb (j : N) : bool := match nthN (rows_of B) j with Some r => snd r =? 255 | None => false end.
  Definition LVi (i : N) : list N := filter leafb (STi i).

  Lemma idx_In j : In j idx <-> j < lenN (rows_of B).
  Proof.
    unfold idx, lenN. rewrite in_map_iff. split.
    - intros (k & <- & Hk). apply in_seq in Hk. lia.
    - intros H. exists (N.to_nat j). split; [lia|]. apply in_seq. lia.
  Qed.

  Lemma idx_NoDup : NoDup idx.
  Proof. unfold idx. apply NoDup_map_in; [|apply seq_NoDup]. intros x y _ _ E. lia. Qed.

  Lemma ST_In K j : In j (ST K) <-> exists k' c' y, nthN (rows_of B) j = Some (k', c') /\ c' :: k' = y ++ K.
  Proof.
    unfold ST. rewrite filter_In, idx_In. unfold inST. split.
    - intros [_ H]. destruct (nthN (rows_of B) j) as [[k' c']|]; [|discriminate].
      apply is_suffix_iff in H as [y E]. exists k', c', y. auto.
    - intros (k' & c' & y & Hj & E). split; [eapply nthN_Some_lt; eauto|]. rewrite Hj.
      apply is_suffix_iff. exists y. exact E.
  Qed.

  Lemma ST_NoDup K : NoDup (ST K).
  Proof. apply NoDup_filter, idx_NoDup. Qed.

  Lemma ST_len K : (length (ST K) <= length (rows_of B))%nat.
  Proof.
    unfold ST. eapply Nat.le_trans; [apply filter_len_le|]. unfold idx. rewrite map_length, seq_length. lia.
  Qed.

  Lemma ST_ge2 K j : (3 <= length K)%nat -> In j (ST K) -> 2 <= j.
  Proof.
    intros HK Hj. apply ST_In in Hj as (k' & c' & y & Hrow & E).
    destruct (row0 S B HB) as [R0 R1].
    destruct (N.lt_ge_cases j 2) as [Hlt|]; [|assumption]. exfalso.
    assert (j = 0 \/ j = 1) as [-> | ->] by lia.
    - rewrite R0 in Hrow. injection Hrow as <- <-. apply (f_equal (@length N)) in E. rewrite app_length in E. cbn [length] in E. lia.
    - rewrite R1 in Hrow. injection Hrow as <- <-. apply (f_equal (@length N)) in E. rewrite app_length in E. cbn [length] in E. lia.
  Qed.

  Lemma RowIn_len k c : RowIn k c -> (2 <= length k)%nat.
  Proof.
    intros H. destruct (RowIn_key k c H) as (r & -> & _). rewrite app_length. cbn [length]. lia.
  Qed.

  Lemma ST_trans K1 K2 j : In j (ST K2) -> (exists y, K2 = y ++ K1) -> In j (ST K1).
  Proof.
    intros Hj [y0 ->]. apply ST_In in Hj as (k' & c' & y & Hrow & E). apply ST_In.
    exists k', c', (y ++ y0). split; [exact Hrow|]. rewrite <- app_assoc. exact E.
  Qed.

  (* a terminator leaf *)
  Lemma ST_leaf i k : nthN (rows_of B) i = Some (k, 255) -> 2 <= i -> ST (255 :: k) = [i].
  Proof.
    intros Hi H2. apply single_list; [apply ST_NoDup|]. intros j. split.
    - intros Hj. pose proof (row_RowIn i k 255 Hi H2) as HR. pose proof (RowIn_len _ _ HR) as HL.
      assert (Hj2 : 2 <= j) by (apply (ST_ge2 (255 :: k)); [cbn [length]; lia|exact Hj]).
      apply ST_In in Hj as (k' & c' & y & Hrow & E). destruct y as [|a y].
      + cbn [app] in E. injection E as -> ->. symmetry. eapply row_inj; eauto.
      + exfalso. cbn [app] in E. injection E as -> Ek.
        destruct (RowIn_key _ _ (row_RowIn j k' a Hrow Hj2)) as (r & Er & Hr & _).
        assert (Hin : In 255 (r ++ [0; 0])) by (rewrite <- Er, Ek; apply in_or_app; right; left; reflexivity).
        apply in_app_or in Hin as [Hin|[Hin|[Hin|[]]]]; try discriminate.
        rewrite Forall_forall in Hr. specialize (Hr 255 Hin). unfold vbyte in Hr. lia.
    - intros ->. apply ST_In. exists k, 255, []. auto.
  Qed.

  (* an inner node: itself plus the subtrees of its children *)
  Lemma ST_children n k c ini fin : nthN (rows_of B) n = Some (k, c) -> 2 <= n ->
    ini <= fin -> 2 <= ini ->
    (forall i k' c', nthN (rows_of B) i = Some (k', c') -> (ini <= i <= fin <-> k' = c :: k)) ->
    Permutation (ST (c :: k)) (n :: flat_map STi (rangeN ini fin)).
  Proof.
    intros Hn H2 Hle Hini Hch. pose proof (row_RowIn n k c Hn H2) as HR. pose proof (RowIn_len _ _ HR) as HL.
    assert (HSTi : forall i j, In i (rangeN ini fin) -> In j (STi i) ->
              exists ci, nthN (rows_of B) i = Some (c :: k, ci) /\ In j (ST (ci :: c :: k))).
    { intros i j Hi Hj. unfold STi in Hj. destruct (nthN (rows_of B) i) as [[ki ci]|] eqn:Ei; [|destruct Hj].
      apply rangeN_In in Hi. apply (Hch i ki ci Ei) in Hi. subst ki. exists ci. auto. }
    apply NoDup_Permutation.
    - apply ST_NoDup.
    - constructor.
      + intros Hin. apply in_flat_map in Hin as (i & Hi & Hj). destruct (HSTi i n Hi Hj) as (ci & _ & Hj').
        apply ST_In in Hj' as (k' & c' & y & Hrow & E). rewrite Hn in Hrow. injection Hrow as <- <-.
        apply (f_equal (@length N)) in E. rewrite app_length in E. cbn [length] in E. lia.
      + apply NoDup_flat_map_intro.
        * apply rangeN_NoDup.
        * intros i _. unfold STi. destruct (nthN (rows_of B) i); [apply ST_NoDup|constructor].
        * intros i1 i2 j Hi1 Hi2 Hj1 Hj2.
          destruct (HSTi i1 j Hi1 Hj1) as (c1 & Hr1 & Hj1'). destruct (HSTi i2 j Hi2 Hj2) as (c2 & Hr2 & Hj2').
          apply ST_In in Hj1' as (k' & c' & y1 & Hrow & E1). apply ST_In in Hj2' as (k'' & c'' & y2 & Hrow' & E2).
          rewrite Hrow in Hrow'. injection Hrow' as <- <-. rewrite E1 in E2.
          destruct (app_eq_len _ _ _ _ E2 eq_refl) as [_ E3]. injection E3 as ->.
          apply rangeN_In in Hi1. eapply row_inj; eauto. lia.
    - intros j. split.
      + intros Hj. assert (Hj2 : 2 <= j) by (apply (ST_ge2 (c :: k)); [cbn [length]; lia|exact Hj]).
        apply ST_In in Hj as (k' & c' & y & Hrow & E).
        destruct (exists_last_or_nil y) as [->|(y' & c1 & ->)].
        * left. cbn [app] in E. injection E as -> ->. eapply row_inj; eauto.
        * right. rewrite <- app_assoc in E. cbn [app] in E.
          pose proof (up_closed y' k' c' c1 (c :: k) (row_RowIn j k' c' Hrow Hj2) E ltac:(cbn [length]; lia)) as HR1.
          destruct (RowIn_row _ _ HR1) as (i & Hi & _ & _).
          apply in_flat_map. exists i. split; [apply rangeN_In; apply (Hch i _ c1 Hi); reflexivity|].
          unfold STi. rewrite Hi. apply ST_In. exists k', c', y'. auto.
      + intros [<-|Hin].
        * apply ST_In. exists k, c, []. auto.
        * apply in_flat_map in Hin as (i & Hi & Hj). destruct (HSTi i j Hi Hj) as (ci & _ & Hj').
          eapply ST_trans; [exact Hj'|]. exists [ci]. reflexivity.
  Qed.
End Subtree.

(* ================================================================== *)
(* 3. the BFS of the prefix iterators                                  *)
(* ================================================================== *)
(* both iterators are the same loop around a different "emit" step *)
Fixpoint gdrain {T} (emit : N -> N -> option T) (d : xbw) (cap : nat) (it : xit) : option (list T * bool) :=
  if xit_hasNext it then
    match cap with
    | O => Some ([], true)
    | Datatypes.S cap' =>
        match bfs_descend d (xfuel d) (xi_queue it) with
        | Some (q0 :: qt) =>
            match emit (xi_processed it) q0 with
            | None => None
            | Some x =>
                match gdrain emit d cap' (xit_advance it qt) with
                | None => None
                | Some (r, more) => Some (x :: r, more)
                end
            end
        | _ => None
        end
    end
  else Some ([], false).

Definition id_emit (d : xbw) (_ q0 : N) : option N := alpha_rank d (x_maxLabel d) q0.

Definition sit_emit (d : xbw) (prefix : list N) (pr q0 : N) : option (list N * N) :=
  match sit_idToStr d (xfuel d) pr q0 0 with
  | None => None
  | Some v =>
      if x_maxlength d + 1 <? lenN prefix + lenN v then None
      else Some (cstr (prefix ++ v), u32 (lenN prefix + lenN v + W32 - 1))
  end.

Lemma xit_drain_gdrain d cap : forall it, xit_drain d cap it = gdrain (id_emit d) d cap it.
Proof.
  induction cap as [|cap IH]; intros it; cbn [xit_drain gdrain]; [reflexivity|].
  destruct (xit_hasNext it); [|reflexivity]. unfold xit_next, id_emit.
  destruct (bfs_descend d (xfuel d) (xi_queue it)) as [[|q0 qt]|]; try reflexivity.
  destruct (alpha_rank d (x_maxLabel d) q0); [|reflexivity]. rewrite IH. reflexivity.
Qed.

Lemma sit_drain_gdrain d prefix cap : forall it, sit_drain d prefix cap it = gdrain (sit_emit d prefix) d cap it.
Proof.
  induction cap as [|cap IH]; intros it; cbn [sit_drain gdrain]; [reflexivity|].
  destruct (xit_hasNext it); [|reflexivity]. unfold sit_next, sit_emit.
  destruct (bfs_descend d (xfuel d) (xi_queue it)) as [[|q0 qt]|]; try reflexivity.
  destruct (sit_idToStr d (xfuel d) (xi_processed it) q0 0); [|reflexivity].
  destruct (x_maxlength d + 1 <? lenN prefix + lenN l); [reflexivity|]. rewrite IH. reflexivity.
Qed.

Lemma u64_small x : x < W64 -> u64 x = x.
Proof. intros H. unfold u64. apply N.mod_small. exact H. Qed.

Section BFS.
  Variables (S : list str) (B : list blk) (d : xbw).
  Hypothesis HB : binv S B.
  Hypothesis HA : ainv S B d.
  Hypothesis HS : S <> [].

  Notation sti := (STi B).
  Notation lvi := (LVi B).
  Notation st := (ST B).
  Notation lfb := (leafb B).

  Definition qweight (queue : list N) : nat := length (flat_map sti queue).

  Lemma STi_row pr q : In q (sti pr) ->
    exists kp cp k c y, nthN (rows_of B) pr = Some (kp, cp) /\ nthN (rows_of B) q = Some (k, c) /\ c :: k = y ++ cp :: kp.
  Proof.
    unfold STi. destruct (nthN (rows_of B) pr) as [[kp cp]|]; [|intros []].
    intros H. apply ST_In in H as (k & c & y & Hq & E). exists kp, cp, k, c, y. auto.
  Qed.

  Lemma STi_self q k c : nthN (rows_of B) q = Some (k, c) -> In q (sti q).
  Proof. intros H. unfold STi. rewrite H. apply ST_In. exists k, c, []. auto. Qed.

  Lemma leaf_LVi q k : nthN (rows_of B) q = Some (k, 255) -> 2 <= q -> sti q = [q] /\ lvi q = [q].
  Proof.
    intros H H2. unfold LVi, STi. rewrite H. unfold nkey; cbn [snd fst].
    rewrite (ST_leaf S B HB q k H H2). split; [reflexivity|]. cbn [filter]. unfold leafb. rewrite H. reflexivity.
  Qed.

  Section OneSubtree.
    Variables (pr : N) (kp : list N) (cp : N).
    Hypothesis Hpr : nthN (rows_of B) pr = Some (kp, cp).
    Hypothesis Hpr2 : 2 <= pr.

    Lemma sub_node q : In q (sti pr) -> 2 <= q /\ exists k c, nthN (rows_of B) q = Some (k, c).
    Proof.
      intros H. split.
      - unfold STi in H. rewrite Hpr in H. apply (ST_ge2 S B HB (cp :: kp)); [|exact H].
        pose proof (RowIn_len S B HB _ _ (row_RowIn S B HB pr kp cp Hpr Hpr2)). unfold nkey; cbn [length snd fst]. lia.
      - destruct (STi_row pr q H) as (_ & _ & k & c & _ & _ & Hq & _). eauto.
    Qed.

    Lemma bfs_descend_ok : forall fuel queue, queue <> [] -> (forall q, In q queue -> In q (sti pr)) ->
      (qweight queue <= fuel)%nat ->
      exists q0 qt, bfs_descend d fuel queue = Some (q0 :: qt) /\ lfb q0 = true /\
        (forall q, In q (q0 :: qt) -> In q (sti pr)) /\
        Permutation (flat_map lvi queue) (q0 :: flat_map lvi qt) /\
        (qweight (q0 :: qt) <= qweight queue)%nat /\ qweight (q0 :: qt) = Datatypes.S (qweight qt).
    Proof.
      induction fuel as [|f IH]; intros queue Hne Hsub HW.
      - exfalso. destruct queue as [|q0 qt]; [congruence|].
        destruct (sub_node q0 (Hsub q0 (or_introl eq_refl))) as (_ & k0 & c0 & Hq0).
        pose proof (STi_self q0 k0 c0 Hq0) as Hself. unfold qweight in HW. cbn [flat_map] in HW. rewrite app_length in HW.
        destruct (sti q0); [destruct Hself|cbn [length] in HW; lia].
      - destruct queue as [|q0 qt]; [congruence|].
        destruct (sub_node q0 (Hsub q0 (or_introl eq_refl))) as (Hq2 & k0 & c0 & Hq0).
        pose proof (nthN_labels B q0 k0 c0 Hq0) as Hlab.
        cbn [bfs_descend]. rewrite (alpha_access_eq S B d HA q0 c0 Hlab).
        destruct (N.eq_dec c0 255) as [->|Hc0].
        + rewrite (ai_max _ _ _ HA), N.eqb_refl. destruct (leaf_LVi q0 k0 Hq0 Hq2) as [E1 E2].
          exists q0, qt. split; [reflexivity|]. split; [unfold leafb; rewrite Hq0; reflexivity|].
          split; [exact Hsub|]. split; [cbn [flat_map]; rewrite E2; apply Permutation_refl|].
          split; [lia|]. unfold qweight. cbn [flat_map]. rewrite E1. reflexivity.
        + assert (Hin : In c0 (labels_of B)) by (unfold nthN in Hlab; eapply nth_error_In; eauto).
          rewrite (maxLabel_neq S B d HB HA HS c0 Hin Hc0).
          destruct (getChildren_spec S B d HB HA HS q0 k0 c0 Hq0 ltac:(lia) Hc0) as (ini & fin & HG & Hle & Hini & Hfin & Hch).
          rewrite HG. rewrite (ai_nodes _ _ _ HA).
          replace (lenN (labels_of B) <=? fin) with false by lia. rewrite andb_false_r.
          pose proof (ST_children S B HB q0 k0 c0 ini fin Hq0 Hq2 Hle Hini Hch) as HP.
          assert (HST0 : sti q0 = st (c0 :: k0)) by (unfold STi; rewrite Hq0; reflexivity).
          assert (HWq : qweight (q0 :: qt) = Datatypes.S (qweight (qt ++ rangeN ini fin))).
          { unfold qweight. cbn [flat_map]. rewrite flat_map_app, !app_length, HST0, (Permutation_length HP). cbn [length]. lia. }
          destruct (IH (qt ++ rangeN ini fin)) as (q0' & qt' & E & Hl & Hs' & HPm & HW1 & HW2).
          * intros E. apply app_eq_nil in E as [_ E]. assert (In ini (rangeN ini fin)) by (apply rangeN_In; lia).
            rewrite E in H. destruct H.
          * intros q Hq. apply in_app_or in Hq as [Hq|Hq]; [apply Hsub; right; exact Hq|].
            apply rangeN_In in Hq.
            assert (Hq' : q < lenN (rows_of B)) by (rewrite rows_len; lia).
            destruct (nthN_lt_Some _ _ Hq') as [[kq cq] Hrq].
            pose proof (proj1 (Hch q kq cq Hrq) Hq) as ->.
            destruct (STi_row pr q0 (Hsub q0 (or_introl eq_refl))) as (kp' & cp' & k0' & c0' & y & Hp' & Hq0' & Ey).
            rewrite Hq0 in Hq0'. injection Hq0' as <- <-.
            unfold STi. rewrite Hp'. apply ST_In. exists (c0 :: k0), cq, (cq :: y). split; [exact Hrq|].
            unfold nkey; cbn [app snd fst]. rewrite Ey. reflexivity.
          * lia.
          * exists q0', qt'. split; [exact E|]. split; [exact Hl|]. split; [exact Hs'|]. split; [|split; [lia|exact HW2]].
            eapply Permutation_trans; [|exact HPm]. cbn [flat_map]. rewrite flat_map_app.
            eapply Permutation_trans; [apply Permutation_app_comm|]. apply Permutation_app_head.
            unfold LVi at 1. rewrite HST0.
            eapply Permutation_trans; [apply Permutation_filter; exact HP|]. cbn [filter].
            replace (lfb q0) with false.
            2:{ unfold leafb. rewrite Hq0. cbn [snd]. symmetry. apply N.eqb_neq. exact Hc0. }
            rewrite filter_flat_map. apply Permutation_refl.
    Qed.

    Variables (T : Type) (emit : N -> N -> option T) (g : N -> T) (rt : N).
    Hypothesis Hemit : forall q0, In q0 (lvi pr) -> emit pr q0 = Some (g q0).
    Hypothesis Hrt : pr <= rt /\ rt < lenN (labels_of B).

    Lemma subtree_drain : forall m queue, (qweight queue <= m)%nat -> queue <> [] -> (forall q, In q queue -> In q (sti pr)) ->
      (qweight queue <= length (rows_of B))%nat ->
      exists E, Permutation E (flat_map lvi queue) /\
        forall cap, gdrain emit d (length E + cap) (mk_xit queue pr (rt + 1)) =
          match gdrain emit d cap (mk_xit [pr + 1] (pr + 1) (rt + 1)) with
          | None => None
          | Some (r, more) => Some (map g E ++ r, more)
          end.
    Proof.
      pose proof (nodes_small S B d HA) as Hsm.
      induction m as [|m IH]; intros queue HWm Hne Hsub HWn.
      - exfalso. destruct queue as [|q0 qt]; [congruence|].
        destruct (sub_node q0 (Hsub q0 (or_introl eq_refl))) as (_ & k0 & c0 & Hq0).
        pose proof (STi_self q0 k0 c0 Hq0) as Hself. unfold qweight in HWm. cbn [flat_map] in HWm. rewrite app_length in HWm.
        destruct (sti q0); [destruct Hself|cbn [length] in HWm; lia].
      - assert (Hfuel : (qweight queue <= xfuel d)%nat).
        { unfold xfuel. rewrite (ai_alpha _ _ _ HA), map_length. pose proof (rows_len B) as HL. unfold lenN in HL. lia. }
        destruct (bfs_descend_ok (xfuel d) queue Hne Hsub Hfuel) as (q0 & qt & E & Hl & Hs' & HPm & HW1 & HW2).
        assert (Hem : emit pr q0 = Some (g q0)).
        { apply Hemit. unfold LVi. apply filter_In. split; [apply Hs'; left; reflexivity|exact Hl]. }
        assert (Hnext : xit_hasNext (mk_xit queue pr (rt + 1)) = true) by (unfold xit_hasNext; cbn [xi_processed xi_scan]; lia).
        destruct qt as [|q1 qt'].
        + exists [q0]. split; [apply Permutation_sym; exact HPm|]. intros cap.
          cbn [length Nat.add gdrain]. rewrite Hnext. cbn [xi_queue xi_processed]. rewrite E, Hem.
          cbn [xit_advance xi_processed xi_scan]. rewrite (u64_small (pr + 1)) by (unfold W64, W32 in *; lia).
          rewrite (u32_small (pr + 1)) by lia.
          destruct (gdrain emit d cap (mk_xit [pr + 1] (pr + 1) (rt + 1))) as [[r more]|]; reflexivity.
        + destruct (IH (q1 :: qt')) as (E' & HP' & Hdr); [lia|discriminate|intros q Hq; apply Hs'; right; exact Hq|lia|].
          exists (q0 :: E'). split.
          * eapply Permutation_trans; [|apply Permutation_sym; exact HPm]. constructor. exact HP'.
          * intros cap. cbn [length Nat.add gdrain]. rewrite Hnext. cbn [xi_queue xi_processed]. rewrite E, Hem.
            cbn [xit_advance xi_processed xi_scan]. rewrite Hdr.
            destruct (gdrain emit d cap (mk_xit [pr + 1] (pr + 1) (rt + 1))) as [[r more]|]; reflexivity.
    Qed.
  End OneSubtree.

  Section Range.
    Variables (T : Type) (emit : N -> N -> option T) (g : N -> T) (lf rt : N).
    Hypothesis Hlf : 2 <= lf.
    Hypothesis Hrt : rt < lenN (labels_of B).
    Hypothesis Hemit : forall pr q0, lf <= pr <= rt -> In q0 (lvi pr) -> emit pr q0 = Some (g q0).

    Lemma range_drain : forall k pr, N.of_nat k = rt + 1 - pr -> lf <= pr -> pr <= rt + 1 ->
      exists E, Permutation E (flat_map lvi (rangeN pr rt)) /\
        forall cap, gdrain emit d (length E + cap) (mk_xit [pr] pr (rt + 1)) = Some (map g E, false).
    Proof.
      induction k as [|k IH]; intros pr Hk Hl Hr.
      - exists []. split.
        + unfold rangeN. replace (rt <? pr) with true by lia. constructor.
        + intros cap. cbn [length Nat.add].
          assert (Hn : xit_hasNext (mk_xit [pr] pr (rt + 1)) = false) by (unfold xit_hasNext; cbn [xi_processed xi_scan]; lia).
          destruct cap; cbn [gdrain]; rewrite Hn; reflexivity.
      - assert (Hpr : pr <= rt) by lia.
        assert (Hpr' : pr < lenN (rows_of B)) by (rewrite rows_len; lia).
        destruct (nthN_lt_Some _ _ Hpr') as [[kp cp] Hrow].
        destruct (subtree_drain pr kp cp Hrow ltac:(lia) T emit g rt (fun q0 => Hemit pr q0 ltac:(lia)) (conj Hpr Hrt)
                    (qweight [pr]) [pr] (Nat.le_refl _) ltac:(discriminate)) as (E1 & HP1 & Hd1).
        { intros q [<-|[]]. eapply STi_self; eauto. }
        { unfold qweight. cbn [flat_map]. rewrite app_nil_r. unfold STi. rewrite Hrow. apply ST_len. }
        destruct (IH (pr + 1)) as (E2 & HP2 & Hd2); [lia|lia|lia|].
        exists (E1 ++ E2). split.
        + rewrite (rangeN_cons pr rt Hpr). cbn [flat_map]. apply Permutation_app; [|exact HP2].
          cbn [flat_map] in HP1. rewrite app_nil_r in HP1. exact HP1.
        + intros cap. rewrite app_length, <- Nat.add_assoc, Hd1, Hd2, map_app. reflexivity.
    Qed.
  End Range.
End BFS.

(* ================================================================== *)
(* 4. the range of the pattern node, its leaves, and the emitted items  *)
(* ================================================================== *)
Lemma cstr_nz s t : Forall qchar s -> cstr (s ++ 0 :: t) = s.
Proof.
  induction s as [|x s IH]; intros H; cbn [app cstr]; [reflexivity|].
  pose proof (Forall_inv H) as Hx. unfold qchar in Hx. replace (x =? 0) with false by lia.
  f_equal. apply IH. eapply Forall_inv_tail; eauto.
Qed.

Definition rowstr (B : list blk) (j : N) : list N :=
  match nthN (rows_of B) j with Some r => unkey (fst r) | None => [] end.

Section Prefix.
  Variables (S : list str) (B : list blk) (d : xbw).
  Hypothesis HB : binv S B.
  Hypothesis HA : ainv S B d.
  Hypothesis HS : S <> [].

  Notation sti := (STi B).
  Notation lvi := (LVi B).
  Notation st := (ST B).
  Notation lfb := (leafb B).

  Lemma row_ge2 i k c : nthN (rows_of B) i = Some (k, c) -> (2 <= length k)%nat -> 2 <= i.
  Proof.
    intros Hrow HL. destruct (row0 S B HB) as [R0 R1].
    destruct (N.lt_ge_cases i 2) as [Hlt|]; [|assumption]. exfalso.
    assert (i = 0 \/ i = 1) as [-> | ->] by lia.
    - rewrite R0 in Hrow. injection Hrow as <- _. cbn [length] in HL. lia.
    - rewrite R1 in Hrow. injection Hrow as <- _. cbn [length] in HL. lia.
  Qed.

  Lemma mkkey_len p : length (mkkey p) = (length p + 2)%nat.
  Proof. unfold mkkey. rewrite app_length, rev_length. reflexivity. Qed.

  Lemma RowIn_mkkey k c : RowIn B k c -> mkkey (unkey k) = k.
  Proof.
    intros H. destruct (RowIn_key S B HB k c H) as (r & -> & _). rewrite unkey_app. unfold mkkey.
    now rewrite rev_involutive.
  Qed.

  Lemma mkkey_inj a b : mkkey a = mkkey b -> a = b.
  Proof. intros H. rewrite <- (unkey_mkkey a), <- (unkey_mkkey b), H. reflexivity. Qed.

  (* the range handed to the prefix iterators *)
  Lemma prefix_range_gen p : p <> [] -> Forall qchar p ->
    exists l r, xbw_subPathSearch d (0 :: p) = Some (l, r) /\
      (forall i k c, nthN (rows_of B) i = Some (k, c) -> (l <= i <= r <-> k = mkkey p)) /\
      (l <= r -> 2 <= l /\ r < lenN (labels_of B)).
  Proof.
    intros Hp Hq. destruct p as [|c1 rest] eqn:Ep; [congruence|]. rewrite <- Ep in *.
    destruct (xbw_subPathSearch_spec S B d HB HA 0 c1 rest (or_introl eq_refl)) as (l & r & E & HR).
    { rewrite <- Ep. exact Hq. }
    rewrite <- Ep in E, HR. exists l, r. split; [exact E|].
    assert (Hchar : forall i k c, nthN (rows_of B) i = Some (k, c) -> (l <= i <= r <-> k = mkkey p)).
    { intros i k c Hrow.
      pose proof (row_range S B HB (rev (0 :: p)) i k c Hrow) as Hrr.
      assert (H1 : l <= i <= r <-> is_prefix (rev (0 :: p)) k = true).
      { unfold Res in HR. destruct (N.leb_spec l r) as [Hlr|Hlr].
        - destruct HR as [-> Er]. rewrite <- Hrr. lia.
        - unfold Emp in HR.
          assert (NR (klt (rev (0 :: p))) B = NR (kle (rev (0 :: p))) B) by (unfold NR; now rewrite HR).
          rewrite <- Hrr. lia. }
      rewrite H1. replace (rev (0 :: p)) with (rev p ++ [0]) by reflexivity. split.
      - intros Hpre. destruct (row_decomp B i k c Hrow) as (B1 & b & B2 & t & EB & _ & _ & Ek & _).
        assert (Hb : In b B) by (rewrite EB; apply in_or_app; right; left; reflexivity).
        rewrite <- Ek in Hpre |- *. apply (prefix_key S B HB p b); assumption.
      - intros ->. unfold mkkey. replace (rev p ++ [0; 0]) with ((rev p ++ [0]) ++ [0]) by (rewrite <- app_assoc; reflexivity).
        apply is_prefix_app. eauto. }
    split; [exact Hchar|].
    intros Hlr. unfold Res in HR. replace (l <=? r) with true in HR by lia. destruct HR as [El Er].
    pose proof (NR_le_total (kle (rev (0 :: p))) B). split; [|lia].
    assert (Hl' : l < lenN (rows_of B)) by (rewrite rows_len; lia).
    destruct (nthN_lt_Some _ _ Hl') as [[kl cl] Hrow].
    apply (row_ge2 l kl cl Hrow). rewrite (proj1 (Hchar l kl cl Hrow) ltac:(lia)), mkkey_len. lia.
  Qed.

  Section WithRange.
    Variables (p : list N) (l r : N).
    Hypothesis Hp : p <> [].
    Hypothesis Hq : Forall qchar p.
    Hypothesis Hchar : forall i k c, nthN (rows_of B) i = Some (k, c) -> (l <= i <= r <-> k = mkkey p).

    Lemma range_row i : In i (rangeN l r) -> r < lenN (labels_of B) -> exists ci, nthN (rows_of B) i = Some (mkkey p, ci).
    Proof.
      intros Hi Hr. apply rangeN_In in Hi. assert (Hi' : i < lenN (rows_of B)) by (rewrite rows_len; lia).
      destruct (nthN_lt_Some _ _ Hi') as [[ki ci] Hrow]. rewrite (proj1 (Hchar i ki ci Hrow) Hi) in Hrow. eauto.
    Qed.

    (* the terminator leaves below the rows of the range are the members with the prefix *)
    Lemma leaves_char j : r < lenN (labels_of B) ->
      (In j (flat_map lvi (rangeN l r)) <->
       exists s, In s S /\ is_prefix p s = true /\ nthN (rows_of B) j = Some (mkkey s, 255) /\ 2 <= j).
    Proof.
      intros Hr. split.
      - intros Hin. apply in_flat_map in Hin as (i & Hi & Hj).
        destruct (range_row i Hi Hr) as (ci & Hrow).
        unfold LVi in Hj. apply filter_In in Hj as [Hj Hlf]. unfold STi in Hj. rewrite Hrow in Hj.
        unfold nkey in Hj; cbn [snd fst] in Hj.
        assert (Hj2 : 2 <= j) by (apply (ST_ge2 S B HB _ j) in Hj; [exact Hj|cbn [length]; rewrite mkkey_len; lia]).
        apply ST_In in Hj as (k' & c' & y & Hrj & E).
        unfold leafb in Hlf. rewrite Hrj in Hlf. cbn [snd] in Hlf. apply N.eqb_eq in Hlf. subst c'.
        pose proof (row_RowIn S B HB j k' 255 Hrj Hj2) as HR.
        exists (unkey k'). split; [|split; [|split; [rewrite (RowIn_mkkey _ _ HR); exact Hrj|exact Hj2]]].
        + destruct HR as (b & Hb & <- & H255). apply (bi_leaf _ _ HB b Hb H255).
        + apply is_prefix_app. destruct y as [|a y].
          * cbn [app] in E. injection E as _ ->. exists []. rewrite unkey_mkkey, app_nil_r. reflexivity.
          * cbn [app] in E. injection E as _ ->. exists (ci :: rev y).
            unfold mkkey. replace (y ++ ci :: rev p ++ [0; 0]) with ((y ++ ci :: rev p) ++ [0; 0]) by (rewrite <- app_assoc; reflexivity).
            rewrite unkey_app, rev_app_distr. cbn [rev]. rewrite rev_involutive, <- app_assoc. reflexivity.
      - intros (s & Hs & Hpre & Hrj & Hj2). apply is_prefix_app in Hpre as [t ->].
        pose proof (row_RowIn S B HB j _ 255 Hrj Hj2) as HR.
        assert (Hlf : lfb j = true) by (unfold leafb; rewrite Hrj; reflexivity).
        destruct t as [|c1 t].
        + rewrite app_nil_r in *. apply in_flat_map. exists j. split; [apply rangeN_In, (Hchar j _ 255 Hrj); reflexivity|].
          unfold LVi. apply filter_In. split; [|exact Hlf]. unfold STi. rewrite Hrj. apply ST_In.
          exists (mkkey p), 255, []. auto.
        + assert (E : 255 :: mkkey (p ++ c1 :: t) = (255 :: rev t) ++ c1 :: mkkey p).
          { unfold mkkey. rewrite rev_app_distr. cbn [rev app]. rewrite <- !app_assoc. reflexivity. }
          pose proof (up_closed S B HB (255 :: rev t) _ 255 c1 (mkkey p) HR E ltac:(rewrite mkkey_len; lia)) as HR1.
          destruct (RowIn_row S B HB _ _ HR1) as (i & Hi & _ & _).
          apply in_flat_map. exists i. split; [apply rangeN_In, (Hchar i _ c1 Hi); reflexivity|].
          unfold LVi. apply filter_In. split; [|exact Hlf]. unfold STi. rewrite Hi. apply ST_In.
          exists (mkkey (p ++ c1 :: t)), 255, (255 :: rev t). auto.
    Qed.

    Lemma leaves_NoDup : r < lenN (labels_of B) -> 2 <= l -> NoDup (flat_map lvi (rangeN l r)).
    Proof.
      intros Hr Hl. apply NoDup_flat_map_intro.
      - apply rangeN_NoDup.
      - intros i _. unfold LVi, STi. apply NoDup_filter. destruct (nthN (rows_of B) i); [apply ST_NoDup|constructor].
      - intros i1 i2 j Hi1 Hi2 Hj1 Hj2.
        destruct (range_row i1 Hi1 Hr) as (c1 & Hr1). destruct (range_row i2 Hi2 Hr) as (c2 & Hr2).
        unfold LVi in Hj1, Hj2. apply filter_In in Hj1 as [Hj1 _]. apply filter_In in Hj2 as [Hj2 _].
        unfold STi in Hj1, Hj2. rewrite Hr1 in Hj1. rewrite Hr2 in Hj2.
        apply ST_In in Hj1 as (k' & c' & y1 & Hrow & E1). apply ST_In in Hj2 as (k'' & c'' & y2 & Hrow' & E2).
        rewrite Hrow in Hrow'. injection Hrow' as <- <-. rewrite E1 in E2. unfold nkey in E2; cbn [snd fst] in E2.
        destruct (app_eq_len _ _ _ _ E2 eq_refl) as [_ E3]. injection E3 as ->.
        apply rangeN_In in Hi1. apply (row_inj S B HB i1 i2 _ _ Hr1 Hr2). lia.
    Qed.

    Lemma leaf_row_inj j1 j2 : r < lenN (labels_of B) -> In j1 (flat_map lvi (rangeN l r)) -> In j2 (flat_map lvi (rangeN l r)) ->
      rowstr B j1 = rowstr B j2 -> j1 = j2.
    Proof.
      intros Hr H1 H2 E. apply (leaves_char j1 Hr) in H1 as (s1 & _ & _ & R1 & J1).
      apply (leaves_char j2 Hr) in H2 as (s2 & _ & _ & R2 & J2).
      unfold rowstr in E. rewrite R1, R2 in E. cbn [fst] in E. rewrite !unkey_mkkey in E. subst s2.
      apply (row_inj S B HB j1 j2 _ _ R1 R2 J1).
    Qed.

    (* the strings of the leaves: exactly the members with the prefix *)
    Lemma leaves_strings E : r < lenN (labels_of B) -> 2 <= l -> NoDup S -> Permutation E (flat_map lvi (rangeN l r)) ->
      Permutation (map (rowstr B) E) (filter (is_prefix p) S).
    Proof.
      intros Hr Hl HND HP.
      assert (HinE : forall j, In j E <-> In j (flat_map lvi (rangeN l r))).
      { intros j. split; apply Permutation_in; [exact HP|apply Permutation_sym; exact HP]. }
      apply NoDup_Permutation.
      - apply NoDup_map_in.
        + intros x y Hx Hy. apply (leaf_row_inj x y Hr); apply HinE; assumption.
        + apply (Permutation_NoDup (Permutation_sym HP)). apply leaves_NoDup; assumption.
      - apply NoDup_filter. exact HND.
      - intros s. rewrite in_map_iff, filter_In. split.
        + intros (j & <- & Hj). apply HinE, (leaves_char j Hr) in Hj as (s & Hs & Hpre & Hrow & _).
          unfold rowstr. rewrite Hrow. cbn [fst]. rewrite unkey_mkkey. auto.
        + intros [Hs Hpre]. destruct (bi_mem _ _ HB s Hs) as (b & Hb & Ek & H255).
          assert (HR : RowIn B (mkkey s) 255).
          { exists b. split; [|auto]. apply (has255_tl S B HB b Hb). apply has_In. exact H255. }
          destruct (RowIn_row S B HB _ _ HR) as (j & Hrow & Hj2 & _).
          exists j. split; [unfold rowstr; rewrite Hrow; cbn [fst]; apply unkey_mkkey|].
          apply HinE, (leaves_char j Hr). exists s. auto.
    Qed.
  End WithRange.
End Prefix.

(* ================================================================== *)
(* 5. what the two iterators emit for a leaf                            *)
(* ================================================================== *)
Section Emit.
  Variables (S : list str) (B : list blk) (d : xbw).
  Hypothesis HB : binv S B.
  Hypothesis HA : ainv S B d.
  Hypothesis HS : S <> [].

  (* the ID of a terminator leaf = the position of its string in the ID order *)
  Lemma leaf_id j s : nthN (rows_of B) j = Some (mkkey s, 255) ->
    seq_rank 255 (labels_of B) j = spec_locate (xbw_order_of B) s.
  Proof.
    intros Hrow. destruct (row_decomp B j _ 255 Hrow) as (C1 & bl & C2 & t & EC & Ej & Ht & Ek & Hct).
    destruct (nth_error_split _ _ Hct) as (l1 & l2 & El & Hl1).
    rewrite Ej. replace t with (lenN l1) by (unfold lenN; lia).
    rewrite (rank_at_row S B HB C1 bl C2 l1 255 l2 EC El) by lia.
    assert (H1 : has 255 bl = true) by (apply has_In; rewrite El; apply in_or_app; right; left; reflexivity).
    assert (Hnth : nthN (xbw_order_of B) (lenN (filter (has 255) C1)) = Some s).
    { unfold xbw_order_of. rewrite EC. rewrite filter_app. cbn [filter]. rewrite H1.
      rewrite map_app. cbn [map].
      rewrite <- (lenN_map (fun b : blk => unkey (fst b)) (filter (has 255) C1)).
      rewrite nthN_mid. rewrite Ek, unkey_mkkey. reflexivity. }
    unfold spec_locate. rewrite (nth_index_from _ 1 _ s (N.le_refl 1) (order_NoDup S B HB) Hnth). lia.
  Qed.

  Lemma id_emit_ok q0 : q0 < lenN (labels_of B) -> id_emit d q0 q0 = Some (seq_rank 255 (labels_of B) q0).
  Proof.
    intros H. unfold id_emit. rewrite (ai_max _ _ _ HA).
    destruct (label_used S B HB 255 (used_255 S B d HB HA HS)) as [Hu _].
    apply (alpha_rank_eq S B d HB HA 255); [lia|exact Hu|exact H].
  Qed.

  (* the depth of a row is bounded by the number of nodes *)
  Lemma key_depth k c : RowIn B k c -> (length k <= length (labels_of B))%nat.
  Proof.
    intros (b & Hb & <- & _). destruct (key_form S B HB b Hb) as (r & Er & Hvr).
    assert (HbB : In b B) by (destruct (B_shape S B HB) as (l1 & B2 & E); rewrite E in Hb |- *; right; exact Hb).
    assert (Ekey : fst b = mkkey (rev r)) by (unfold mkkey; rewrite rev_involutive; exact Er).
    assert (Hvrev : Forall vbyte (rev r)).
    { apply Forall_forall. intros x Hx. apply in_rev in Hx. rewrite Forall_forall in Hvr. auto. }
    destruct (depth_bound S B HB (rev r) b HbB Ekey Hvrev) as (L & ND & Hincl & Hlen & _).
    pose proof (NoDup_incl_length ND Hincl) as HL. rewrite map_length in HL.
    pose proof (neb_len B (B_neb S B HB)) as HnB. unfold lenN in HnB.
    rewrite Er, app_length. cbn [length]. rewrite rev_length in Hlen. unfold blk in *. lia.
  Qed.

  Lemma label_unmap i k c : nthN (rows_of B) i = Some (k, c) ->
    alpha_access d i = Some (mapf d c) /\ xunmap d (mapf d c) = Some c.
  Proof.
    intros Hrow. split; [apply (alpha_access_eq S B d HA), (nthN_labels B i k c Hrow)|].
    assert (Hl : In c (labels_of B)) by (apply nthN_labels in Hrow; unfold nthN in Hrow; eapply nth_error_In; eauto).
    destruct (label_used S B HB c Hl) as [Hu Hc256]. destruct (used_facts S B d HA c Hc256 Hu) as (_ & Hun & _). exact Hun.
  Qed.

  Section Up.
    Variables (pr : N) (Kp : list N) (cp : N).
    Hypothesis Hpr : nthN (rows_of B) pr = Some (Kp, cp).
    Hypothesis Hpr2 : 2 <= pr.

    Lemma parent_row id kid cid y : nthN (rows_of B) id = Some (kid, cid) -> 2 <= id -> kid = y ++ cp :: Kp ->
      exists par c'' k'', xbw_getParent d id = Some par /\ nthN (rows_of B) par = Some (k'', c'') /\ 2 <= par /\
        c'' :: k'' = kid.
    Proof.
      intros Hid Hid2 Ek.
      pose proof (row_RowIn S B HB id kid cid Hid Hid2) as HRid.
      destruct (RowIn_key S B HB _ _ HRid) as (r & Er & Hvr & _).
      pose proof (RowIn_len S B HB _ _ (row_RowIn S B HB pr Kp cp Hpr Hpr2)) as HLp.
      destruct r as [|c'' r'].
      { exfalso. rewrite Ek in Er. apply (f_equal (@length N)) in Er. rewrite app_length in Er. cbn [length app] in Er. lia. }
      pose proof (Forall_inv Hvr) as Hc''. cbn [app] in Er. rewrite Er in Hid.
      destruct (getParent_spec S B d HB HA id c'' (r' ++ [0; 0]) cid Hc'' Hid) as (par & Hpar & Hprow).
      exists par, c'', (r' ++ [0; 0]). split; [exact Hpar|]. split; [exact Hprow|]. split; [|symmetry; exact Er].
      apply (row_ge2 S B HB par _ _ Hprow). rewrite app_length. cbn [length]. lia.
    Qed.

    Lemma sit_up : forall y fuel id cnt cid kid, nthN (rows_of B) id = Some (kid, cid) -> 2 <= id ->
      cid :: kid = y ++ cp :: Kp -> 1 <= cnt -> cnt + lenN y < W32 -> (length y <= fuel)%nat ->
      sit_idToStr d fuel pr id cnt = Some (cp :: rev y).
    Proof.
      destruct (label_unmap pr Kp cp Hpr) as [Hap Hup].
      induction y as [|a y IH]; intros fuel id cnt cid kid Hid Hid2 E Hcnt Hsm Hf.
      - cbn [app] in E. injection E as -> ->.
        assert (pr = id) by (apply (row_inj S B HB pr id Kp cp Hpr Hid Hpr2)). subst id.
        destruct fuel; cbn [sit_idToStr]; rewrite N.eqb_refl; replace (0 <? cnt) with true by lia; rewrite Hap, Hup; reflexivity.
      - cbn [app] in E. injection E as -> Ek.
        assert (Hne : id <> pr).
        { intros ->. rewrite Hpr in Hid. injection Hid as E1 _. rewrite Ek in E1. apply (f_equal (@length N)) in E1.
          rewrite app_length in E1. cbn [length] in E1. lia. }
        destruct fuel as [|f]; [cbn [length] in Hf; lia|]. cbn [sit_idToStr]. replace (id =? pr) with false by lia.
        rewrite lenN_cons in Hsm. rewrite (u32_small (cnt + 1)) by lia.
        destruct (parent_row id kid a y Hid Hid2 Ek) as (par & c'' & k'' & Hpar & Hprow & Hpar2 & Ekk).
        rewrite Hpar.
        rewrite (IH f par (cnt + 1) c'' k'' Hprow Hpar2 ltac:(rewrite Ekk; exact Ek) ltac:(lia) ltac:(lia) ltac:(cbn [length] in Hf; lia)).
        replace (1 <? cnt + 1) with true by lia.
        destruct (label_unmap id _ a Hid) as [Ha Hu]. rewrite Ha, Hu. reflexivity.
    Qed.

    Lemma sit_leaf p q0 : Kp = mkkey p -> In q0 (LVi B pr) ->
      exists k0 w, nthN (rows_of B) q0 = Some (k0, 255) /\ 2 <= q0 /\
        sit_idToStr d (xfuel d) pr q0 0 = Some (w ++ [0]) /\ unkey k0 = p ++ w.
    Proof.
      intros EKp Hq0. unfold LVi in Hq0. apply filter_In in Hq0 as [Hq0 Hlf]. unfold STi in Hq0. rewrite Hpr in Hq0.
      unfold nkey in Hq0; cbn [snd fst] in Hq0.
      pose proof (RowIn_len S B HB _ _ (row_RowIn S B HB pr Kp cp Hpr Hpr2)) as HLp.
      assert (Hq2 : 2 <= q0) by (apply (ST_ge2 S B HB _ q0) in Hq0; [exact Hq0|cbn [length]; lia]).
      apply ST_In in Hq0 as (k0 & c0 & y & Hrow & E).
      unfold leafb in Hlf. rewrite Hrow in Hlf. cbn [snd] in Hlf. apply N.eqb_eq in Hlf. subst c0.
      exists k0. destruct y as [|a y].
      - cbn [app] in E. injection E as <- ->. exists []. split; [exact Hrow|]. split; [exact Hq2|].
        assert (pr = q0) by (apply (row_inj S B HB pr q0 _ _ Hpr Hrow Hpr2)). subst q0.
        split; [|rewrite EKp, unkey_mkkey, app_nil_r; reflexivity].
        unfold xfuel. cbn [sit_idToStr]. rewrite N.eqb_refl. reflexivity.
      - cbn [app] in E. injection E as <- Ek. exists (cp :: rev y). split; [exact Hrow|]. split; [exact Hq2|].
        split.
        + assert (Hne : q0 <> pr).
          { intros ->. rewrite Hpr in Hrow. injection Hrow as E1 _. rewrite Ek in E1. apply (f_equal (@length N)) in E1.
            rewrite app_length in E1. cbn [length] in E1. lia. }
          pose proof (key_depth k0 255 (row_RowIn S B HB q0 k0 255 Hrow Hq2)) as HD.
          pose proof (nodes_small S B d HA) as Hsm.
          assert (HLy : (length y < length (labels_of B))%nat).
          { rewrite Ek, app_length in HD. cbn [length] in HD. lia. }
          unfold xfuel. cbn [sit_idToStr]. replace (q0 =? pr) with false by lia.
          rewrite (u32_small (0 + 1)) by (unfold W32; lia).
          destruct (parent_row q0 k0 255 y Hrow Hq2 Ek) as (par & c'' & k'' & Hpar & Hprow & Hpar2 & Ekk).
          rewrite Hpar.
          rewrite (sit_up y (length (x_alpha d)) par (0 + 1) c'' k'' Hprow Hpar2 ltac:(rewrite Ekk; exact Ek) ltac:(lia)).
          * replace (1 <? 0 + 1) with false by lia. reflexivity.
          * unfold lenN in *. lia.
          * rewrite (ai_alpha _ _ _ HA), map_length. lia.
        + rewrite Ek, EKp. unfold mkkey.
          replace (y ++ cp :: rev p ++ [0; 0]) with ((y ++ cp :: rev p) ++ [0; 0]) by (rewrite <- app_assoc; reflexivity).
          rewrite unkey_app, rev_app_distr. cbn [rev]. rewrite rev_involutive, <- app_assoc. reflexivity.
    Qed.

    Lemma sit_emit_ok p q0 : (forall s, In s S -> Forall qchar s) -> Kp = mkkey p -> In q0 (LVi B pr) ->
      sit_emit d p pr q0 = Some (rowstr B q0, lenN (rowstr B q0)).
    Proof.
      intros member_chars EKp Hq0. destruct (sit_leaf p q0 EKp Hq0) as (k0 & w & Hrow & Hq2 & Hsit & Es).
      pose proof (row_RowIn S B HB q0 k0 255 Hrow Hq2) as HR.
      assert (Hin : In (unkey k0) S) by (destruct HR as (b & Hb & <- & H255); apply (bi_leaf _ _ HB b Hb H255)).
      pose proof (member_chars _ Hin) as Hqs.
      pose proof (spec_maxlen_bounds_aux S _ Hin) as Hml.
      pose proof (key_depth k0 255 HR) as HD. pose proof (nodes_small S B d HA) as Hsm.
      assert (Hlen : lenN (unkey k0) < W32 - 1).
      { destruct (RowIn_key S B HB _ _ HR) as (r & Er & _). rewrite Er in HD |- *. rewrite unkey_app.
        rewrite app_length in HD. unfold lenN in *. rewrite rev_length. lia. }
      unfold sit_emit. rewrite Hsit. unfold rowstr. rewrite Hrow. cbn [fst].
      assert (EL : lenN p + lenN (w ++ [0]) = lenN (unkey k0) + 1).
      { rewrite Es, !lenN_app. change (lenN [0]) with 1. lia. }
      rewrite EL, (ai_maxlen _ _ _ HA).
      replace (spec_maxlen S + 1 + 1 <? lenN (unkey k0) + 1) with false by lia.
      rewrite app_assoc, <- Es, cstr_nz by exact Hqs. do 2 f_equal.
      unfold u32. replace (lenN (unkey k0) + 1 + W32 - 1) with (lenN (unkey k0) + 1 * W32) by lia.
      rewrite N.mod_add by (unfold W32; lia). apply N.mod_small. lia.
    Qed.
  End Up.

  (* every node has a terminator leaf below it *)
  Definition maxkey : nat := list_max (map (fun b : blk => length (fst b)) B).

  Lemma key_le_max b : In b B -> (length (fst b) <= maxkey)%nat.
  Proof.
    intros Hb. unfold maxkey.
    pose proof (proj1 (list_max_le (map (fun b : blk => length (fst b)) B) _) (Nat.le_refl _)) as H.
    rewrite Forall_forall in H. apply H. apply in_map_iff. eauto.
  Qed.

  Lemma leaf_below : forall m b, In b (tl B) -> (maxkey - length (fst b) <= m)%nat ->
    exists s, In s S /\ is_prefix (unkey (fst b)) s = true.
  Proof.
    induction m as [|m IH]; intros b Hb Hm.
    - destruct (bi_blk _ _ HB b Hb) as (_ & Hne & _ & _). destruct (snd b) as [|c lt] eqn:El; [congruence|].
      assert (HbB : In b B) by (destruct (B_shape S B HB) as (l1 & B2 & E); rewrite E in Hb |- *; right; exact Hb).
      destruct (N.eq_dec c 255) as [->|Hc].
      + exists (unkey (fst b)). split; [apply (bi_leaf _ _ HB b Hb); rewrite El; left; reflexivity|].
        apply is_prefix_app. exists []. now rewrite app_nil_r.
      + exfalso. destruct (bi_down _ _ HB b c Hb ltac:(rewrite El; left; reflexivity) Hc) as (b' & Hb' & Ek).
        pose proof (key_le_max b' Hb') as H. rewrite Ek in H. cbn [length] in H. lia.
    - destruct (bi_blk _ _ HB b Hb) as (_ & Hne & _ & _). destruct (snd b) as [|c lt] eqn:El; [congruence|].
      destruct (N.eq_dec c 255) as [->|Hc].
      + exists (unkey (fst b)). split; [apply (bi_leaf _ _ HB b Hb); rewrite El; left; reflexivity|].
        apply is_prefix_app. exists []. now rewrite app_nil_r.
      + destruct (bi_down _ _ HB b c Hb ltac:(rewrite El; left; reflexivity) Hc) as (b' & Hb' & Ek).
        assert (Hb't : In b' (tl B)).
        { destruct (B_in_cases S B HB b' Hb') as [->|]; [|assumption]. cbn [fst] in Ek.
          destruct (key_form S B HB b Hb) as (r & Er & _). rewrite Er in Ek. destruct r; discriminate. }
        destruct (IH b' Hb't ltac:(rewrite Ek; cbn [length]; lia)) as (s & Hs & Hpre).
        exists s. split; [exact Hs|]. apply is_prefix_app in Hpre as [t Et]. apply is_prefix_app.
        destruct (key_form S B HB b Hb) as (r & Er & _). rewrite Ek, Er in Et.
        replace (c :: r ++ [0; 0]) with ((c :: r) ++ [0; 0]) in Et by reflexivity. rewrite unkey_app in Et. cbn [rev] in Et.
        exists (c :: t). rewrite Er, unkey_app, Et, <- app_assoc. reflexivity.
  Qed.
End Emit.

(* ================================================================== *)
(* 6. the exported statements                                           *)
(* ================================================================== *)
(* the client loop with a smaller cap sees a prefix of the stream, and MORE iff something is left *)
Lemma gdrain_firstn {T} (emit : N -> N -> option T) d : forall cap k it L,
  gdrain emit d (cap + k) it = Some (L, false) ->
  gdrain emit d cap it = Some (firstn cap L, (cap <? length L)%nat).
Proof.
  induction cap as [|c IH]; intros k it L H.
  - cbn [Nat.add] in H. cbn [gdrain firstn]. destruct (xit_hasNext it) eqn:Hn.
    + destruct k as [|k]; cbn [gdrain] in H; rewrite Hn in H; [discriminate|].
      destruct (bfs_descend d (xfuel d) (xi_queue it)) as [[|q0 qt]|]; try discriminate.
      destruct (emit (xi_processed it) q0); [|discriminate].
      destruct (gdrain emit d k (xit_advance it qt)) as [[r more]|]; [|discriminate].
      injection H as <- _. reflexivity.
    + destruct k as [|k]; cbn [gdrain] in H; rewrite Hn in H; injection H as <-; reflexivity.
  - cbn [Nat.add gdrain] in H |- *. destruct (xit_hasNext it) eqn:Hn.
    + destruct (bfs_descend d (xfuel d) (xi_queue it)) as [[|q0 qt]|]; try discriminate.
      destruct (emit (xi_processed it) q0); [|discriminate].
      destruct (gdrain emit d (c + k) (xit_advance it qt)) as [[r more]|] eqn:E; [|discriminate].
      injection H as <- ->. rewrite (IH k _ r E). reflexivity.
    + injection H as <-. reflexivity.
Qed.

Section Final.
  Variables (S : list str) (d : xbw).
  Hypothesis HV : valid_set S.
  Hypothesis HC : xbw_check S d = true.
  Let B := trie_blocks S.
  Let HB : binv S B := proj1 (xbw_check_sound S d HC).
  Let HA : ainv S B d := proj2 (xbw_check_sound S d HC).
  Let HS : S <> [] := proj1 (valid_set_facts S HV).
  Let HND : NoDup S := proj2 (valid_set_facts S HV).

  Lemma member_chars s : In s S -> Forall qchar s.
  Proof. intros Hs. apply (member_qchar S d HV s Hs). Qed.

  (* 1. navigation downward *)
  Theorem XBW_getChildren_spec n k c : nthN (rows_of B) n = Some (k, c) -> 1 <= n -> c <> 255 ->
    exists ini fin, xbw_getChildren d n = Some (ini, fin) /\ ini <= fin /\
      forall i k' c', nthN (rows_of B) i = Some (k', c') -> (ini <= i <= fin <-> k' = c :: k).
  Proof.
    intros Hrow Hn Hc. destruct (getChildren_spec S B d HB HA HS n k c Hrow Hn Hc) as (ini & fin & HG & Hle & _ & _ & Hch).
    exists ini, fin. auto.
  Qed.

  (* a member with the prefix puts a row into the range of the pattern node *)
  Lemma member_row p s l r : (forall i k c, nthN (rows_of B) i = Some (k, c) -> (l <= i <= r <-> k = mkkey p)) ->
    In s S -> is_prefix p s = true -> l <= r.
  Proof.
    intros Hchar Hs Hpre. apply is_prefix_app in Hpre as [t ->].
    destruct (bi_mem _ _ HB _ Hs) as (b & Hb & Ek & H255).
    assert (HR : RowIn B (mkkey (p ++ t)) 255).
    { exists b. split; [|auto]. apply (has255_tl S B HB b Hb). apply has_In. exact H255. }
    destruct t as [|c1 t].
    - rewrite app_nil_r in HR. destruct (RowIn_row S B HB _ _ HR) as (j & Hj & _).
      pose proof (proj2 (Hchar j _ _ Hj) eq_refl). lia.
    - assert (E : 255 :: mkkey (p ++ c1 :: t) = (255 :: rev t) ++ c1 :: mkkey p).
      { unfold mkkey. rewrite rev_app_distr. cbn [rev app]. rewrite <- !app_assoc. reflexivity. }
      pose proof (up_closed S B HB (255 :: rev t) _ 255 c1 (mkkey p) HR E ltac:(rewrite mkkey_len; lia)) as HR1.
      destruct (RowIn_row S B HB _ _ HR1) as (i & Hi & _).
      pose proof (proj2 (Hchar i _ _ Hi) eq_refl). lia.
  Qed.

  (* a non-empty range has a member below it *)
  Lemma range_member p l r : (forall i k c, nthN (rows_of B) i = Some (k, c) -> (l <= i <= r <-> k = mkkey p)) ->
    l <= r -> 2 <= l -> r < lenN (labels_of B) -> exists s, In s S /\ is_prefix p s = true.
  Proof.
    intros Hchar Hlr Hl Hr. assert (Hl' : l < lenN (rows_of B)) by (rewrite rows_len; lia).
    destruct (nthN_lt_Some _ _ Hl') as [[kl cl] Hrow].
    pose proof (proj1 (Hchar l kl cl Hrow) ltac:(lia)) as ->.
    destruct (row_RowIn S B HB l _ cl Hrow Hl) as (b & Hb & Ek & _).
    destruct (leaf_below S B HB (maxkey B - length (fst b)) b Hb (Nat.le_refl _)) as (s & Hs & Hpre).
    exists s. split; [exact Hs|]. rewrite Ek, unkey_mkkey in Hpre. exact Hpre.
  Qed.

  (* one run of a prefix iterator over a non-empty range, for every cap of the client loop *)
  Lemma run_gen (T : Type) (emit : N -> N -> option T) (g : N -> T) p l r : p <> [] -> Forall qchar p ->
    (forall i k c, nthN (rows_of B) i = Some (k, c) -> (l <= i <= r <-> k = mkkey p)) ->
    l <= r -> 2 <= l -> r < lenN (labels_of B) ->
    (forall pr q0, l <= pr <= r -> In q0 (LVi B pr) -> emit pr q0 = Some (g q0)) ->
    exists E, NoDup E /\ (length E <= length S)%nat /\
      Permutation (map (rowstr B) E) (filter (is_prefix p) S) /\
      (forall j, In j E <-> exists s, In s S /\ is_prefix p s = true /\ nthN (rows_of B) j = Some (mkkey s, 255) /\ 2 <= j) /\
      forall cap, gdrain emit d cap (xit_new l r) = Some (firstn cap (map g E), (cap <? length (map g E))%nat).
  Proof.
    intros Hp Hq Hchar Hlr Hl Hr Hemit.
    destruct (range_drain S B d HB HA HS T emit g l r Hl Hr Hemit (N.to_nat (r + 1 - l)) l ltac:(lia) ltac:(lia) ltac:(lia))
      as (E & HP & Hdr).
    pose proof (leaves_strings S B HB p l r Hchar E Hr Hl HND HP) as HPS.
    exists E. split; [|split; [|split; [exact HPS|split]]].
    - apply (Permutation_NoDup (Permutation_sym HP)). apply (leaves_NoDup S B HB p l r Hchar Hr Hl).
    - rewrite <- (map_length (rowstr B) E), (Permutation_length HPS). apply filter_len_le.
    - intros j. rewrite <- (leaves_char S B HB p l r Hchar j Hr). split; apply Permutation_in; [exact HP|apply Permutation_sym; exact HP].
    - intros cap. apply (gdrain_firstn emit d cap (length E)). rewrite Nat.add_comm.
      unfold xit_new. pose proof (nodes_small S B d HA).
      rewrite u64_small by (unfold W64, W32 in *; lia). apply Hdr.
  Qed.

  (* 3a. locatePrefix, for every cap of the client loop: the first [cap] IDs of a duplicate-free enumeration of
     exactly the members with the prefix, MORE iff some are left *)
  Theorem XBW_locatePrefix_cap p : p <> [] -> Forall qchar p ->
    exists ids, NoDup ids /\ (length ids <= length S)%nat /\
      (forall id, In id ids <-> exists s, In s S /\ is_prefix p s = true /\ id = spec_locate (xbw_order S) s) /\
      forall cap, xbw_locatePrefix d p cap = Some (firstn cap ids, (cap <? length ids)%nat).
  Proof.
    intros Hp Hq. destruct (prefix_range_gen S B d HB HA p Hp Hq) as (l & r & Esp & Hchar & Hbnd).
    unfold xbw_locatePrefix. rewrite Esp. change (xbw_order S) with (xbw_order_of B).
    destruct (N.leb_spec l r) as [Hlr|Hlr].
    - destruct (Hbnd Hlr) as [Hl Hr].
      destruct (run_gen N (id_emit d) (fun j => seq_rank 255 (labels_of B) j) p l r Hp Hq Hchar Hlr Hl Hr) as (E & HND' & HLen & _ & HinE & Hdr).
      { intros pr q0 _ Hq0. change (id_emit d pr q0) with (id_emit d q0 q0). apply (id_emit_ok S B d HB HA HS).
        unfold LVi in Hq0. apply filter_In in Hq0 as [Hq0 _].
        unfold STi in Hq0. destruct (nthN (rows_of B) pr); [|destruct Hq0].
        apply ST_In in Hq0 as (k' & c' & y & Hrow & _). apply nthN_Some_lt in Hrow. rewrite rows_len in Hrow. exact Hrow. }
      assert (Hid : forall j, In j E -> exists s, In s S /\ is_prefix p s = true /\ nthN (rows_of B) j = Some (mkkey s, 255) /\ 2 <= j /\
                      seq_rank 255 (labels_of B) j = spec_locate (xbw_order_of B) s).
      { intros j Hj. apply HinE in Hj as (s & Hs & Hpre & Hrow & Hj2). exists s. repeat split; auto.
        apply (leaf_id S B HB j s Hrow). }
      exists (map (fun j => seq_rank 255 (labels_of B) j) E). split; [|split; [|split]].
      + apply NoDup_map_in; [|exact HND']. intros x y Hx Hy Exy.
        destruct (Hid x Hx) as (s1 & Hs1 & _ & R1 & X2 & I1). destruct (Hid y Hy) as (s2 & Hs2 & _ & R2 & _ & I2).
        rewrite I1, I2 in Exy.
        assert (s1 = s2).
        { apply (order_In S B HB) in Hs1, Hs2.
          pose proof (spec_extract_locate _ _ Hs1) as X1. pose proof (spec_extract_locate _ _ Hs2) as X2'.
          rewrite Exy in X1. congruence. }
        subst s2. apply (row_inj S B HB x y _ _ R1 R2 X2).
      + rewrite map_length. exact HLen.
      + intros id. rewrite in_map_iff. split.
        * intros (j & <- & Hj). destruct (Hid j Hj) as (s & Hs & Hpre & _ & _ & I). eauto.
        * intros (s & Hs & Hpre & ->). destruct (bi_mem _ _ HB _ Hs) as (b & Hb & Ek & H255).
          assert (HR : RowIn B (mkkey s) 255).
          { exists b. split; [|auto]. apply (has255_tl S B HB b Hb). apply has_In. exact H255. }
          destruct (RowIn_row S B HB _ _ HR) as (j & Hj & Hj2 & _).
          exists j. split; [apply (leaf_id S B HB j s Hj)|]. apply HinE. exists s. auto.
      + intros cap. rewrite xit_drain_gdrain. apply Hdr.
    - exists []. split; [constructor|]. split; [cbn [length]; lia|]. split.
      + intros id. split; [intros []|].
        intros (s & Hs & Hpre & _). pose proof (member_row p s l r Hchar Hs Hpre). lia.
      + intros cap. rewrite firstn_nil. reflexivity.
  Qed.

  Theorem XBW_locatePrefix_spec p : p <> [] -> Forall qchar p ->
    exists ids, xbw_locatePrefix d p (3 + length S) = Some (ids, false) /\ NoDup ids /\
      forall id, In id ids <-> exists s, In s S /\ is_prefix p s = true /\ id = spec_locate (xbw_order S) s.
  Proof.
    intros Hp Hq. destruct (XBW_locatePrefix_cap p Hp Hq) as (ids & HN & HL & Hin & Hcap).
    exists ids. split; [|auto]. rewrite Hcap, firstn_all2 by lia.
    replace (3 + length S <? length ids)%nat with false by (symmetry; apply Nat.ltb_ge; lia). reflexivity.
  Qed.

  (* a pattern some member starts with is not longer than the longest member: the strncpy guard is dead *)
  Lemma prefix_len p s : In s S -> is_prefix p s = true -> lenN p <= spec_maxlen S.
  Proof.
    intros Hs Hpre. pose proof (spec_maxlen_bounds_aux S s Hs). apply is_prefix_app in Hpre as [t ->].
    rewrite lenN_app in H. lia.
  Qed.

  Lemma sit_run p l r : p <> [] -> Forall qchar p ->
    (forall i k c, nthN (rows_of B) i = Some (k, c) -> (l <= i <= r <-> k = mkkey p)) ->
    l <= r -> 2 <= l -> r < lenN (labels_of B) ->
    exists L, Permutation (map fst L) (filter (is_prefix p) S) /\ (forall s n, In (s, n) L -> n = lenN s) /\
      forall cap, sit_drain d p cap (xit_new l r) = Some (firstn cap L, (cap <? length L)%nat).
  Proof.
    intros Hp Hq Hchar Hlr Hl Hr.
    destruct (run_gen (list N * N) (sit_emit d p) (fun j => (rowstr B j, lenN (rowstr B j))) p l r Hp Hq Hchar Hlr Hl Hr)
      as (E & _ & HLen & HPS & _ & Hdr).
    { intros pr q0 Hpr Hq0. assert (Hpr' : pr < lenN (rows_of B)) by (rewrite rows_len; lia).
      destruct (nthN_lt_Some _ _ Hpr') as [[kp cp] Hrow]. pose proof (proj1 (Hchar pr kp cp Hrow) Hpr) as ->.
      apply (sit_emit_ok S B d HB HA pr (mkkey p) cp Hrow ltac:(lia) p q0 member_chars eq_refl Hq0). }
    exists (map (fun j => (rowstr B j, lenN (rowstr B j))) E). split; [|split].
    - rewrite map_map. cbn [fst]. exact HPS.
    - intros s n Hin. apply in_map_iff in Hin as (j & Ej & _). injection Ej as <- <-. reflexivity.
    - intros cap. rewrite sit_drain_gdrain. apply Hdr.
  Qed.

  Lemma perm_len_le (L : list (list N * N)) p : Permutation (map fst L) (filter (is_prefix p) S) -> (length L <= length S)%nat.
  Proof.
    intros HP. rewrite <- (map_length fst L), (Permutation_length HP). apply filter_len_le.
  Qed.

  (* 2. extractPrefix of the current tree: NULL exactly when no member has the prefix; otherwise the iterator is
     built and the strncpy of the pattern into the maxlength+1 bytes is within bounds, whatever |p| *)
  Theorem XBW_extractPrefix_api_no_overflow p cap : p <> [] -> Forall qchar p ->
    exists l r, xbw_subPathSearch d (0 :: p) = Some (l, r) /\
      ((r < l /\ (forall s, In s S -> is_prefix p s = false) /\ xbw_extractPrefix_api d p cap = Some None) \/
       (l <= r /\ (exists s, In s S /\ is_prefix p s = true) /\ lenN p <= spec_maxlen S /\
        (x_maxlength d + 1 <? lenN p) = false /\
        xbw_extractPrefix_api d p cap = option_map Some (sit_drain d p cap (xit_new l r)))).
  Proof.
    intros Hp Hq. destruct (prefix_range_gen S B d HB HA p Hp Hq) as (l & r & Esp & Hchar & Hbnd).
    exists l, r. split; [exact Esp|]. unfold xbw_extractPrefix_api, xbw_extractPrefix. rewrite Esp.
    destruct (N.ltb_spec r l) as [Hlr|Hlr].
    - left. split; [exact Hlr|]. split; [|reflexivity]. intros s Hs. destruct (is_prefix p s) eqn:Hpre; [|reflexivity].
      pose proof (member_row p s l r Hchar Hs Hpre). lia.
    - right. destruct (Hbnd Hlr) as [Hl Hr]. destruct (range_member p l r Hchar Hlr Hl Hr) as (s & Hs & Hpre).
      pose proof (prefix_len p s Hs Hpre) as HL.
      assert (HG : (x_maxlength d + 1 <? lenN p) = false) by (rewrite (ai_maxlen _ _ _ HA); lia).
      split; [exact Hlr|]. split; [eauto|]. split; [exact HL|]. split; [exact HG|]. rewrite HG. reflexivity.
  Qed.

  Theorem XBW_extractPrefix_api_null_iff p cap : p <> [] -> Forall qchar p ->
    (xbw_extractPrefix_api d p cap = Some None <-> forall s, In s S -> is_prefix p s = false).
  Proof.
    intros Hp Hq. destruct (XBW_extractPrefix_api_no_overflow p cap Hp Hq) as (l & r & _ & [(_ & Hno & E)|(_ & (s & Hs & Hpre) & _ & _ & E)]).
    - split; auto.
    - rewrite E. split.
      + destruct (sit_drain d p cap (xit_new l r)); discriminate.
      + intros H. rewrite (H s Hs) in Hpre. discriminate.
  Qed.

  (* 3b. extractPrefix (current tree), every pattern length, every cap *)
  Theorem XBW_extractPrefix_api_cap p : p <> [] -> Forall qchar p -> (exists s, In s S /\ is_prefix p s = true) ->
    exists L, Permutation (map fst L) (filter (is_prefix p) S) /\ (forall s n, In (s, n) L -> n = lenN s) /\
      forall cap, xbw_extractPrefix_api d p cap = Some (Some (firstn cap L, (cap <? length L)%nat)).
  Proof.
    intros Hp Hq (s & Hs & Hpre).
    destruct (prefix_range_gen S B d HB HA p Hp Hq) as (l & r & Esp & Hchar & Hbnd).
    pose proof (member_row p s l r Hchar Hs Hpre) as Hlr. destruct (Hbnd Hlr) as [Hl Hr].
    destruct (sit_run p l r Hp Hq Hchar Hlr Hl Hr) as (L & HP & HLn & HD).
    exists L. split; [exact HP|]. split; [exact HLn|]. intros cap.
    destruct (XBW_extractPrefix_api_no_overflow p cap Hp Hq) as (l' & r' & Esp' & [(_ & Hno & _)|(_ & _ & _ & _ & E)]).
    - rewrite (Hno s Hs) in Hpre. discriminate.
    - rewrite Esp in Esp'. injection Esp' as <- <-. rewrite E, HD. reflexivity.
  Qed.

  Theorem XBW_extractPrefix_api_spec p : p <> [] -> Forall qchar p ->
    ((exists s, In s S /\ is_prefix p s = true) ->
       exists L, xbw_extractPrefix_api d p (3 + length S) = Some (Some (L, false)) /\
         Permutation (map fst L) (filter (is_prefix p) S) /\ forall s n, In (s, n) L -> n = lenN s) /\
    ((forall s, In s S -> is_prefix p s = false) -> xbw_extractPrefix_api d p (3 + length S) = Some None).
  Proof.
    intros Hp Hq. split; [|apply XBW_extractPrefix_api_null_iff; assumption].
    intros Hex. destruct (XBW_extractPrefix_api_cap p Hp Hq Hex) as (L & HP & HLn & HD).
    exists L. split; [|auto]. pose proof (perm_len_le L p HP).
    assert (HL : (length L <= 3 + length S)%nat) by (eapply Nat.le_trans; [exact H|lia]).
    rewrite HD, (firstn_all2 L HL), (proj2 (Nat.ltb_ge _ _) HL). reflexivity.
  Qed.

  (* the iterator alone (the statement of XBWProofs.v, |p| <= maxlen + 2) *)
  Theorem XBW_extractPrefix_spec p : p <> [] -> Forall qchar p -> lenN p <= spec_maxlen S + 2 ->
    exists L, xbw_extractPrefix d p (3 + length S) = Some (L, false) /\
      Permutation (map fst L) (filter (is_prefix p) S) /\ forall s n, In (s, n) L -> n = lenN s.
  Proof.
    intros Hp Hq HLp. destruct (prefix_range_gen S B d HB HA p Hp Hq) as (l & r & Esp & Hchar & Hbnd).
    unfold xbw_extractPrefix. rewrite Esp. rewrite (ai_maxlen _ _ _ HA).
    replace (spec_maxlen S + 1 + 1 <? lenN p) with false by lia.
    destruct (N.leb_spec l r) as [Hlr|Hlr].
    - destruct (Hbnd Hlr) as [Hl Hr]. destruct (sit_run p l r Hp Hq Hchar Hlr Hl Hr) as (L & HP & HLn & HD).
      exists L. split; [|auto]. pose proof (perm_len_le L p HP).
      assert (HL : (length L <= 3 + length S)%nat) by (eapply Nat.le_trans; [exact H|lia]).
      rewrite HD, (firstn_all2 L HL), (proj2 (Nat.ltb_ge _ _) HL). reflexivity.
    - exists []. split; [|split; [|intros s n []]].
      + cbn [Nat.add sit_drain]. replace (xit_hasNext (xit_new l r)) with false; [reflexivity|].
        unfold xit_hasNext, xit_new. cbn [xi_processed xi_scan]. symmetry. apply N.ltb_ge.
        unfold u64. etransitivity; [apply N.mod_le; unfold W64; lia|lia].
      + cbn [map]. rewrite filter_none; [constructor|]. intros s Hs. destruct (is_prefix p s) eqn:Hpre; [|reflexivity].
        pose proof (member_row p s l r Hchar Hs Hpre). lia.
  Qed.
End Final.

(* the statements XBWProofs.v kept as definitions *)
Theorem xbw_getChildren_spec_full_proved : xbw_getChildren_spec_full.
Proof. intros S d n k c HV HC. apply (XBW_getChildren_spec S d HV HC). Qed.

Theorem xbw_locatePrefix_spec_full_proved : xbw_locatePrefix_spec_full.
Proof. intros S d p HV HC. apply (XBW_locatePrefix_spec S d HV HC). Qed.

Theorem xbw_extractPrefix_spec_full_proved : xbw_extractPrefix_spec_full.
Proof. intros S d p HV HC. apply (XBW_extractPrefix_spec S d HV HC). Qed.
