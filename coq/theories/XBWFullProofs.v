(* XBW dictionary: the statements XBWProofs.v left as [Definition ... : Prop]:
     1. navigation downward: getChildren of a node = exactly the interval of its children rows;
     2. extractPrefix (current tree): NULL exactly when no member has the prefix, and the strncpy into the
        maxlength+1 bytes buffer never overruns for an in-scope pattern of ANY length;
     3. the prefix iterators (BFS over the subtree below the pattern node): the emitted stream is exactly the
        members with the prefix, each once; no fuel exhaustion, no out-of-bounds read, no MORE with
        cap = 3 + |S|. *)
From LibCSD Require Import Base Bytes BitRGDefs BitRGProofs Spec SpecProofs XBWDefs XBWProofs XBWApiProofs.
Require Import Lia ZifyBool ZifyNat ZifyN Sorted Permutation.
Ltac Zify.zify_post_hook ::= Z.to_euclidean_division_equations.
Local Open Scope N_scope.

(* ================================================================== *)
(* 0. generic list facts                                               *)
(* ================================================================== *)
Lemma app_inv_NoDup {T} (l1 : list T) : forall l1' x l2 l2',
  NoDup (l1 ++ x :: l2) -> l1 ++ x :: l2 = l1' ++ x :: l2' -> l1 = l1'.
Proof.
  induction l1 as [|a l1 IH]; intros l1' x l2 l2' ND E.
  - destruct l1' as [|a' l1']; [reflexivity|]. cbn [app] in *. injection E as E1 E2.
    apply NoDup_cons_iff in ND as [ND _]. exfalso. apply ND. rewrite E2. apply in_or_app. right. left. reflexivity.
  - destruct l1' as [|a' l1'].
    + cbn [app] in *. injection E as E1 E2. apply NoDup_cons_iff in ND as [ND _]. exfalso. apply ND.
      apply in_or_app. right. left. symmetry. exact E1.
    + cbn [app] in *. injection E as E1 E2. subst a'. f_equal. apply NoDup_cons_iff in ND as [_ ND].
      eapply IH; eauto.
Qed.

Lemma app_eq_len {T} (a : list T) : forall b r1 r2, a ++ r1 = b ++ r2 -> length r1 = length r2 -> a = b /\ r1 = r2.
Proof.
  induction a as [|x a IH]; intros [|y b] r1 r2 E L; cbn [app] in *.
  - auto.
  - subst r1. cbn [length] in L. rewrite app_length in L. lia.
  - subst r2. cbn [length] in L. rewrite app_length in L. lia.
  - injection E as <- E. destruct (IH _ _ _ E L) as [-> ->]. auto.
Qed.

Definition is_suffix (K L : list N) : bool := is_prefix (rev K) (rev L).

Lemma is_suffix_iff K L : is_suffix K L = true <-> exists y, L = y ++ K.
Proof.
  unfold is_suffix. rewrite is_prefix_app. split.
  - intros [r E]. exists (rev r). apply (f_equal (@rev N)) in E.
    rewrite rev_involutive, rev_app_distr, rev_involutive in E. exact E.
  - intros [y ->]. exists (rev y). apply rev_app_distr.
Qed.

(* ================================================================== *)
(* 1. getChildren                                                      *)
(* ================================================================== *)
Section Children.
  Variables (S : list str) (B : list blk) (d : xbw).
  Hypothesis HB : binv S B.
  Hypothesis HA : ainv S B d.

  (* the rows of one block *)
  Lemma block_rows C1 b' C2 : B = C1 ++ b' :: C2 ->
    forall i k' c', nthN (rows_of B) i = Some (k', c') ->
      (lenN (labels_of C1) <= i < lenN (labels_of C1) + lenN (snd b') <-> k' = fst b').
  Proof.
    intros EB i k' c' Hrow. split.
    - intros [H1 H2]. rewrite EB, rows_app in Hrow. rewrite nthN_app_r in Hrow by (rewrite rows_len; exact H1).
      rewrite rows_len in Hrow. change (rows_of (b' :: C2)) with (blk_rows b' ++ rows_of C2) in Hrow.
      rewrite nthN_app_l in Hrow by (unfold blk_rows; rewrite lenN_map; lia).
      unfold blk_rows, nthN in Hrow. rewrite nth_error_map in Hrow.
      destruct (nth_error (snd b') _); [|discriminate]. cbn in Hrow. injection Hrow as <- _. reflexivity.
    - intros ->. destruct (row_decomp B i _ c' Hrow) as (D1 & b2 & D2 & t & ED & Ei & Ht & Ek & _).
      assert (b2 = b').
      { apply (key_inj B); [apply (bi_sorted _ _ HB)| | |exact Ek]; [rewrite ED|rewrite EB]; apply in_or_app; right; left; reflexivity. }
      subst b2. assert (D1 = C1).
      { apply (app_inv_NoDup D1 C1 b' D2 C2); [rewrite <- ED; apply (B_NoDup S B HB)|rewrite <- ED; exact EB]. }
      subst D1. lia.
  Qed.

  Lemma sel_block C1 b' C2 : B = C1 ++ b' :: C2 -> C1 <> [] ->
    sel1m (x_last d) (lenN C1) = lenN (labels_of C1) - 1 /\
    sel1m (x_last d) (lenN C1 + 1) = lenN (labels_of C1) + lenN (snd b') - 1 /\
    1 <= lenN (labels_of C1) /\ 1 <= lenN (snd b') /\
    lenN (labels_of C1) + lenN (snd b') <= lenN (labels_of B) /\ lenN C1 + 1 <= lenN B.
  Proof.
    intros EB Hne. pose proof (B_neb S B HB) as Hneb. rewrite EB in Hneb.
    destruct (neb_app _ _ Hneb) as [N1 N2].
    assert (Hb : snd b' <> []) by (apply N2; left; reflexivity).
    unfold sel1m. rewrite (ai_last _ _ _ HA).
    split; [|split; [|split; [|split; [|split]]]].
    - rewrite EB at 1. rewrite (sel_blocks C1 (b' :: C2) N1 Hne). reflexivity.
    - replace (lenN C1 + 1) with (lenN (C1 ++ [b'])) by (rewrite lenN_app; reflexivity).
      rewrite EB at 1. replace (C1 ++ b' :: C2) with ((C1 ++ [b']) ++ C2) by (rewrite <- app_assoc; reflexivity).
      rewrite sel_blocks.
      + rewrite labels_app. change (labels_of [b']) with (snd b' ++ []). rewrite app_nil_r, lenN_app. reflexivity.
      + intros x Hx. apply in_app_or in Hx as [Hx|[<-|[]]]; auto.
      + destruct C1; discriminate.
    - pose proof (neb_len C1 N1). destruct C1; [congruence|]. rewrite lenN_cons in H. lia.
    - destruct (snd b'); [congruence|]. rewrite lenN_cons. lia.
    - rewrite EB, labels_app. change (labels_of (b' :: C2)) with (snd b' ++ labels_of C2). rewrite !lenN_app. lia.
    - rewrite EB, lenN_app, lenN_cons. lia.
  Qed.

  (* inclusive rank of the label of a row = 1 + number of earlier blocks holding that label *)
  Lemma rank_at_row B1 b B2 l1 c l2 : B = B1 ++ b :: B2 -> snd b = l1 ++ c :: l2 -> 1 <= c ->
    seq_rank c (labels_of B) (lenN (labels_of B1) + lenN l1) = lenN (filter (has c) B1) + 1.
  Proof.
    intros EB El Hc.
    assert (Hb : In b B) by (rewrite EB; apply in_or_app; right; left; reflexivity).
    assert (Hok : okc c b) by (apply (B_okc S B HB); assumption).
    assert (Hl1 : seq_count c l1 = 0).
    { unfold okc in Hok.
      replace (has c b) with true in Hok by (symmetry; apply has_In; rewrite El; apply in_or_app; right; left; reflexivity).
      rewrite El, seq_count_app, seq_count_cons, N.eqb_refl in Hok. lia. }
    unfold seq_rank, bv_rank1.
    rewrite EB at 1. rewrite labels_app. change (labels_of (b :: B2)) with (snd b ++ labels_of B2). rewrite El.
    replace (labels_of B1 ++ (l1 ++ c :: l2) ++ labels_of B2) with ((labels_of B1 ++ l1 ++ [c]) ++ (l2 ++ labels_of B2))
      by (rewrite <- !app_assoc; reflexivity).
    rewrite seq_bits_app.
    assert (HL : lenN (seq_bits c (labels_of B1 ++ l1 ++ [c])) = lenN (labels_of B1) + lenN l1 + 1).
    { unfold seq_bits. rewrite lenN_map, !lenN_app. change (lenN [c]) with 1. lia. }
    rewrite prefix_count_app_l by lia. rewrite prefix_count_all by lia.
    change (countb true (seq_bits c (labels_of B1 ++ l1 ++ [c]))) with (seq_count c (labels_of B1 ++ l1 ++ [c])).
    rewrite !seq_count_app, seq_count_cons, N.eqb_refl, Hl1.
    rewrite (cnt_labels c).
    - change (seq_count c []) with 0. lia.
    - intros x Hx. apply (B_okc S B HB); [exact Hc|]. rewrite EB. apply in_or_app. left. exact Hx.
  Qed.

  (* the blocks before a block of group c: those below [c], and the earlier blocks of the group *)
  Lemma split_group c k' C1 b' C2 : B = C1 ++ b' :: C2 -> fst b' = c :: k' ->
    lenN C1 = NB (klt [c]) B + lenN (filter (grp c) C1).
  Proof.
    intros EB Ek. pose proof (bi_sorted _ _ HB) as HS. rewrite EB in HS. destruct (SS_mid C1 b' C2 HS) as [Hlo Hhi].
    assert (Hcase : forall x, In x C1 -> klt [c] (fst x) || grp c x = true).
    { intros x Hx. specialize (Hlo x Hx). rewrite Ek in Hlo. apply lex_ltb_lt in Hlo.
      change (lex_ltb (fst x) (c :: k')) with (klt (c :: k') (fst x)) in Hlo. rewrite (klt_lift c k') in Hlo.
      unfold lift, grp in *. apply orb_prop in Hlo as [H|H]; [rewrite H; reflexivity|].
      destruct (fst x) as [|y ky]; [discriminate|]. apply andb_prop in H as [H _]. rewrite H. apply orb_true_r. }
    assert (Hex : forall x : blk, klt [c] (fst x) = true -> grp c x = false).
    { intros x H. unfold grp, klt, lex_ltb in *. destruct (fst x) as [|y ky]; [reflexivity|].
      cbn [lex_compare] in H. destruct (N.compare_spec y c) as [->|?|?]; try (apply N.eqb_neq; lia).
      destruct ky; discriminate. }
    assert (HNB : NB (klt [c]) B = lenN (filter (fun x : list N * list N => klt [c] (fst x)) C1)).
    { unfold NB, bsel. rewrite EB, filter_app. cbn [filter]. unfold blk in *.
      replace (klt [c] (fst b')) with false.
      2:{ rewrite Ek. unfold klt, lex_ltb. cbn [lex_compare]. rewrite N.compare_refl. destruct k'; reflexivity. }
      rewrite (filter_none (fun x : list N * list N => klt [c] (fst x)) C2).
      - rewrite app_nil_r. reflexivity.
      - intros x Hx. destruct (klt [c] (fst x)) eqn:E; [|reflexivity]. exfalso.
        specialize (Hhi x Hx). unfold klt in E. apply lex_ltb_lt in E.
        assert (lex_lt (fst b') [c]) by (eapply lex_lt_trans; eauto). rewrite Ek in H.
        unfold lex_lt in H. cbn [lex_compare] in H. rewrite N.compare_refl in H. destruct k'; discriminate. }
    rewrite HNB.
    assert (H1 : lenN C1 = lenN (filter (fun x : list N * list N => klt [c] (fst x) || grp c x) C1)).
    { rewrite filter_all; [reflexivity|exact Hcase]. }
    rewrite H1 at 1. apply filter_or_len. intros x _. apply Hex.
  Qed.

  (* the child block below the row (fst b, c): its position in the block list *)
  Lemma child_block B1 b B2 c : B = B1 ++ b :: B2 -> In c (snd b) -> 1 <= c <= 254 ->
    exists C1 b' C2, B = C1 ++ b' :: C2 /\ fst b' = c :: fst b /\
      lenN C1 = NB (klt [c]) B + lenN (filter (has c) B1).
  Proof.
    intros EB Hc Hr.
    pose proof (star S B HB c Hr) as Hst.
    set (j := lenN (filter (has c) B1)).
    assert (Hg : nth_error (map (fun b0 : list N * list N => c :: fst b0) (filter (has c) B)) (N.to_nat j) = Some (c :: fst b)).
    { rewrite EB, filter_app. cbn [filter]. replace (has c b) with true by (symmetry; apply has_In; exact Hc).
      rewrite map_app. cbn [map]. rewrite nth_error_app2 by (rewrite map_length; unfold j, lenN; lia).
      rewrite map_length. replace (N.to_nat j - length (filter (has c) B1))%nat with 0%nat by (unfold j, lenN; lia).
      reflexivity. }
    rewrite Hst in Hg. rewrite nth_error_map in Hg.
    match type of Hg with option_map _ ?X = _ => destruct X as [b'|] eqn:E end; cbn [option_map] in Hg; [|discriminate].
    injection Hg as Ek.
    destruct (nth_filter_split _ _ _ _ E) as (C1 & C2 & EC & HjC & _).
    exists C1, b', C2. split; [exact EC|]. split; [exact Ek|].
    rewrite (split_group c (fst b) C1 b' C2 EC Ek). f_equal.
    apply N2Nat.inj. unfold lenN at 1. rewrite Nat2N.id. exact HjC.
  Qed.

  Hypothesis HS : S <> [].

  Lemma maxLabel_neq c : In c (labels_of B) -> c <> 255 -> (x_maxLabel d =? mapf d c) = false.
  Proof.
    intros Hin Hn. rewrite (ai_max _ _ _ HA). apply N.eqb_neq. intros E.
    destruct (label_used S B HB c Hin) as [Hu Hc].
    destruct (label_used S B HB 255 (used_255 S B d HB HA HS)) as [Hu' _].
    apply Hn. symmetry. apply (mapf_inj S B d HA 255 c); auto. lia.
  Qed.

  Lemma getChildren_fin n c y z C1 b' C2 :
    nthN (labels_of B) n = Some c -> c <> 255 ->
    xselA d (mapf d c) = Some y -> (if y =? 0 then Some 0 else last_rank1 d (y - 1)) = Some z ->
    z + seq_rank c (labels_of B) n = lenN C1 + 1 -> B = C1 ++ b' :: C2 -> C1 <> [] ->
    xbw_getChildren d n = Some (lenN (labels_of C1), lenN (labels_of C1) + lenN (snd b') - 1).
  Proof.
    intros Hn Hc Hy Hz Hzk EB Hne.
    assert (Hin : In c (labels_of B)) by (unfold nthN in Hn; eapply nth_error_In; eauto).
    destruct (label_used S B HB c Hin) as [Hu Hc256].
    destruct (sel_block C1 b' C2 EB Hne) as (S1 & S2 & L1 & L2 & L3 & L4).
    pose proof (nodes_small S B d HA) as Hsm. pose proof (neb_len B (B_neb S B HB)) as HnB.
    unfold xbw_getChildren. rewrite (alpha_access_eq S B d HA n c Hn). cbv zeta.
    rewrite (maxLabel_neq c Hin Hc). rewrite Hy, Hz.
    unfold seq_rank in *. rewrite (alpha_bits S B d HB HA c Hc256 Hu).
    set (kr := bv_rank1 (seq_bits c (labels_of B)) n) in *.
    rewrite (u32_small z) by lia. rewrite (u32_small kr) by lia. rewrite (u32_small (z + kr)) by lia.
    rewrite Hzk. rewrite subu32_1 by lia. replace (lenN C1 + 1 - 1) with (lenN C1) by lia.
    rewrite S1, S2. rewrite !u32_small by lia. do 2 f_equal. lia.
  Qed.

  Theorem getChildren_spec n k c : nthN (rows_of B) n = Some (k, c) -> 1 <= n -> c <> 255 ->
    exists ini fin, xbw_getChildren d n = Some (ini, fin) /\ ini <= fin /\ 2 <= ini /\ fin < lenN (labels_of B) /\
      forall i k' c', nthN (rows_of B) i = Some (k', c') -> (ini <= i <= fin <-> k' = c :: k).
  Proof.
    intros Hrow Hn1 Hc.
    destruct (row_decomp B n k c Hrow) as (B1 & b & B2 & t & EB & En & Ht & Ek & Hct).
    destruct (B_shape S B HB) as (lr & Br & Esh).
    pose proof (nthN_labels B n k c Hrow) as Hlab.
    destruct B1 as [|x B1'].
    - (* the root row *)
      cbn [app] in EB. rewrite Esh in EB. injection EB as <- EB2. cbn [fst snd] in *.
      change (labels_of []) with (@nil N) in En. rewrite lenN_nil in En.
      assert (t = 1) by (unfold lenN in Ht; cbn [length] in Ht; lia). subst t. cbn in Hct. injection Hct as <-. subst k.
      assert (n = 1) by lia. subst n.
      assert (U0 : used B 0 = true) by reflexivity.
      destruct (used_facts S B d HA 0 ltac:(lia) U0) as (_ & _ & Hsel). destruct (Hsel ltac:(lia)) as [Hy _].
      rewrite (NR_klt0 S B HB) in Hy.
      assert (Hrk : seq_rank 0 (labels_of B) 1 = 2) by (rewrite Esh; reflexivity).
      pose proof (getChildren_fin 1 0 0 0 [([0], [0; 0])] ([0; 0], lr) Br Hlab Hc Hy eq_refl ltac:(rewrite Hrk; reflexivity) Esh ltac:(discriminate)) as HG.
      destruct (sel_block [([0], [0; 0])] ([0; 0], lr) Br Esh ltac:(discriminate)) as (_ & _ & L1 & L2 & L3 & _).
      change (labels_of [([0], [0; 0])]) with [0; 0] in *. cbn [snd fst] in *.
      change (lenN [0; 0]) with 2 in *.
      exists 2, (2 + lenN lr - 1). split; [exact HG|]. split; [lia|]. split; [lia|]. split; [lia|].
      intros i k' c' Hi. pose proof (block_rows [([0], [0; 0])] ([0; 0], lr) Br Esh i k' c' Hi) as HR.
      change (labels_of [([0], [0; 0])]) with [0; 0] in HR. cbn [snd fst] in HR. change (lenN [0; 0]) with 2 in HR.
      rewrite <- HR. lia.
    - (* a row of a proper block *)
      assert (Hx : x = ([0], [0; 0])) by (rewrite Esh in EB; cbn [app] in EB; injection EB as E1 _; congruence).
      assert (HbB : In b B) by (rewrite EB; apply in_or_app; right; left; reflexivity).
      assert (Htl : In b (tl B)).
      { rewrite EB. cbn [app tl]. apply in_or_app. right. left. reflexivity. }
      destruct (bi_blk _ _ HB b Htl) as (_ & _ & _ & Hrng).
      assert (Hcb : In c (snd b)) by (unfold nthN in Hct; eapply nth_error_In; eauto).
      specialize (Hrng c Hcb).
      assert (Hr : 1 <= c <= 254) by lia.
      destruct (child_block (x :: B1') b B2 c EB Hcb Hr) as (C1 & b' & C2 & EC & Ekb & HlenC).
      set (j := lenN (filter (has c) (x :: B1'))) in *.
      destruct (nth_error_split _ _ Hct) as (l1 & l2 & El & Hl1).
      assert (Hrk : seq_rank c (labels_of B) n = j + 1).
      { rewrite En. replace t with (lenN l1) by (unfold lenN; lia).
        apply (rank_at_row (x :: B1') b B2 l1 c l2 EB El). lia. }
      assert (Hin : In c (labels_of B)) by (unfold labels_of; apply in_flat_map; eauto).
      destruct (label_used S B HB c Hin) as [Hu Hc256].
      destruct (used_facts S B d HA c Hc256 Hu) as (_ & _ & Hsel). destruct (Hsel Hc) as [Hy _].
      destruct (head_klt S B HB c) as [B' EB']; [lia|].
      assert (Hy2 : 2 <= NR (klt [c]) B).
      { unfold NR. rewrite EB'. change (labels_of (([0], [0; 0]) :: B')) with ([0; 0] ++ labels_of B').
        rewrite lenN_app. unfold lenN at 1. cbn [length]. lia. }
      assert (HNB1 : 1 <= NB (klt [c]) B) by (unfold NB; rewrite EB', lenN_cons; lia).
      assert (Hz : (if NR (klt [c]) B =? 0 then Some 0 else last_rank1 d (NR (klt [c]) B - 1)) = Some (NB (klt [c]) B)).
      { replace (NR (klt [c]) B =? 0) with false by lia. unfold last_rank1. rewrite (last_len S B d HA).
        pose proof (NR_le_total (klt [c]) B).
        replace (NR (klt [c]) B - 1 <? lenN (labels_of B)) with true by lia.
        rewrite (ai_last _ _ _ HA), (rank_last_P S B HB _ (klt_dclosed [c])) by lia. reflexivity. }
      assert (HneC : C1 <> []) by (intros ->; rewrite lenN_nil in HlenC; lia).
      pose proof (getChildren_fin n c _ _ C1 b' C2 Hlab Hc Hy Hz ltac:(rewrite Hrk; lia) EC HneC) as HG.
      destruct (sel_block C1 b' C2 EC HneC) as (_ & _ & L1 & L2 & L3 & _).
      assert (L0 : 2 <= lenN (labels_of C1)).
      { destruct C1 as [|x1 C1']; [congruence|]. rewrite Esh in EC. cbn [app] in EC. injection EC as E1 _. subst x1.
        change (labels_of (([0], [0; 0]) :: C1')) with ([0; 0] ++ labels_of C1'). rewrite lenN_app.
        unfold lenN at 1. cbn [length]. lia. }
      exists (lenN (labels_of C1)), (lenN (labels_of C1) + lenN (snd b') - 1).
      split; [exact HG|]. split; [lia|]. split; [lia|]. split; [lia|].
      intros i k' c' Hi. pose proof (block_rows C1 b' C2 EC i k' c' Hi) as HR.
      rewrite Ekb, Ek in HR. rewrite <- HR. lia.
  Qed.
End Children.

(* ================================================================== *)
(* 2. subtrees: the rows below a node                                  *)
(* ================================================================== *)
Lemma asc_NoDup l : asc_b l = true -> NoDup l.
Proof.
  induction l as [|x t IH]; intros H; constructor.
  - intros Hin. pose proof (asc_gt x t H x Hin). lia.
  - apply IH. eapply asc_tail; eauto.
Qed.

Lemma NoDup_app_intro {T} (l1 l2 : list T) : NoDup l1 -> NoDup l2 -> (forall x, In x l1 -> ~ In x l2) -> NoDup (l1 ++ l2).
Proof.
  induction l1 as [|a l1 IH]; intros H1 H2 H; [exact H2|]. cbn [app]. apply NoDup_cons_iff in H1 as [Ha H1]. constructor.
  - intros Hin. apply in_app_or in Hin as [Hin|Hin]; [contradiction|]. apply (H a); [left; reflexivity|exact Hin].
  - apply IH; auto. intros x Hx. apply H. right; exact Hx.
Qed.

Lemma NoDup_flat_map_intro {A C} (f : A -> list C) l : NoDup l -> (forall x, In x l -> NoDup (f x)) ->
  (forall x1 x2 y, In x1 l -> In x2 l -> In y (f x1) -> In y (f x2) -> x1 = x2) -> NoDup (flat_map f l).
Proof.
  induction l as [|a l IH]; intros Hl Hf Hd; [constructor|]. cbn [flat_map].
  apply NoDup_cons_iff in Hl as [Ha Hl]. apply NoDup_app_intro.
  - apply Hf. left; reflexivity.
  - apply IH; auto.
    + intros x Hx. apply Hf. right; exact Hx.
    + intros x1 x2 y H1 H2. apply Hd; right; assumption.
  - intros y Hy Hin. apply in_flat_map in Hin as (x & Hx & Hyx).
    assert (a = x) by (apply (Hd a x y); auto; [left; reflexivity|right; exact Hx]). subst. contradiction.
Qed.

Lemma Permutation_filter {T} (f : T -> bool) l l' : Permutation l l' -> Permutation (filter f l) (filter f l').
Proof.
  induction 1 as [|x l l' H IH|x y l|l l' l'' H1 IH1 H2 IH2]; cbn [filter].
  - constructor.
  - destruct (f x); [constructor|]; exact IH.
  - destruct (f x), (f y); try apply Permutation_refl. apply perm_swap.
  - eapply Permutation_trans; eauto.
Qed.

Lemma filter_flat_map {A C} (g : C -> bool) (f : A -> list C) l :
  filter g (flat_map f l) = flat_map (fun x => filter g (f x)) l.
Proof. induction l as [|a l IH]; [reflexivity|]. cbn [flat_map]. rewrite filter_app, IH. reflexivity. Qed.

Lemma single_list {T} (l : list T) i : NoDup l -> (forall j, In j l <-> j = i) -> l = [i].
Proof.
  intros ND H. destruct l as [|a l]; [exfalso; apply (proj2 (H i) eq_refl)|].
  assert (a = i) by (apply H; left; reflexivity). subst a. f_equal.
  destruct l as [|b l]; [reflexivity|]. exfalso.
  assert (b = i) by (apply H; right; left; reflexivity). subst b.
  apply NoDup_cons_iff in ND as [ND _]. apply ND. left; reflexivity.
Qed.

Lemma rangeN_In l r i : In i (rangeN l r) <-> l <= i <= r.
Proof.
  unfold rangeN. destruct (N.ltb_spec r l) as [H|H]; [split; [intros []|lia]|].
  rewrite in_map_iff. split.
  - intros (k & <- & Hk). apply in_seq in Hk. lia.
  - intros Hi. exists (N.to_nat (i - l)). split; [lia|]. apply in_seq. lia.
Qed.

Lemma rangeN_NoDup l r : NoDup (rangeN l r).
Proof.
  unfold rangeN. destruct (r <? l); [constructor|]. apply NoDup_map_in; [|apply seq_NoDup].
  intros x y _ _ E. lia.
Qed.

Lemma rangeN_cons l r : l <= r -> rangeN l r = l :: rangeN (l + 1) r.
Proof.
  intros H. unfold rangeN. replace (r <? l) with false by lia.
  replace (N.to_nat (r - l + 1)) with (Datatypes.S (N.to_nat (r - l))) by lia.
  cbn [seq map]. rewrite N.add_0_r. f_equal.
  destruct (N.ltb_spec r (l + 1)) as [H1|H1].
  - replace (N.to_nat (r - l)) with 0%nat by lia. reflexivity.
  - replace (N.to_nat (r - (l + 1) + 1)) with (N.to_nat (r - l)) by lia.
    rewrite <- seq_shift, map_map. apply map_ext. intros a. lia.
Qed.

Section Subtree.
  Variables (S : list str) (B : list blk) (d : xbw).
  Hypothesis HB : binv S B.
  Hypothesis HA : ainv S B d.
  Hypothesis HS : S <> [].

  (* a row of a proper block (everything but the two sentinel rows) *)
  Definition RowIn (k : list N) (c : N) : Prop := exists b, In b (tl B) /\ fst b = k /\ In c (snd b).

  Lemma row_RowIn i k c : nthN (rows_of B) i = Some (k, c) -> 2 <= i -> RowIn k c.
  Proof.
    intros Hrow Hi. destruct (row_decomp B i k c Hrow) as (B1 & b & B2 & t & EB & En & Ht & Ek & Hct).
    destruct (B_shape S B HB) as (lr & Br & Esh).
    exists b. split; [|split; [exact Ek|unfold nthN in Hct; eapply nth_error_In; eauto]].
    destruct B1 as [|x B1'].
    - exfalso. cbn [app] in EB. rewrite Esh in EB. injection EB as <- _. cbn [snd] in Ht.
      change (labels_of []) with (@nil N) in En. rewrite lenN_nil in En. unfold lenN in Ht. cbn [length] in Ht. lia.
    - rewrite EB. cbn [app tl]. apply in_or_app. right. left. reflexivity.
  Qed.

  Lemma RowIn_row k c : RowIn k c -> exists i, nthN (rows_of B) i = Some (k, c) /\ 2 <= i /\ i < lenN (labels_of B).
  Proof.
    intros (b & Hb & <- & Hc). destruct (B_shape S B HB) as (lr & Br & Esh).
    rewrite Esh in Hb. cbn [tl] in Hb. destruct (in_split _ _ Hb) as (X & Y & EX).
    destruct (in_split _ _ Hc) as (l1 & l2 & El).
    assert (EB : B = (([0], [0; 0]) :: X) ++ b :: Y) by (rewrite Esh, EX; reflexivity).
    assert (Hrow : nthN (rows_of B) (lenN (labels_of (([0], [0; 0]) :: X)) + lenN l1) = Some (fst b, c)).
    { rewrite EB at 1. apply (row_compose _ b Y l1 c l2 El). }
    exists (lenN (labels_of (([0], [0; 0]) :: X)) + lenN l1). split; [exact Hrow|split].
    - change (labels_of (([0], [0; 0]) :: X)) with ([0; 0] ++ labels_of X). rewrite lenN_app.
      change (lenN [0; 0]) with 2. lia.
    - apply nthN_Some_lt in Hrow. rewrite rows_len in Hrow. exact Hrow.
  Qed.

  Lemma RowIn_key k c : RowIn k c -> exists r, k = r ++ [0; 0] /\ Forall vbyte r /\ 2 <= c <= 255.
  Proof.
    intros (b & Hb & <- & Hc). destruct (key_form S B HB b Hb) as (r & E & Hr). exists r.
    split; [exact E|]. split; [exact Hr|]. destruct (bi_blk _ _ HB b Hb) as (_ & _ & _ & H). apply H. exact Hc.
  Qed.

  Lemma row_inj i j k c : nthN (rows_of B) i = Some (k, c) -> nthN (rows_of B) j = Some (k, c) -> 2 <= i -> i = j.
  Proof.
    intros Hi Hj H2. destruct (row_RowIn i k c Hi H2) as (b0 & Hb0 & Ek0 & _).
    destruct (row_decomp B i k c Hi) as (B1 & b & B2 & t & EB & En & Ht & Ek & Hct).
    destruct (row_decomp B j k c Hj) as (D1 & b2 & D2 & t2 & ED & En2 & Ht2 & Ek2 & Hct2).
    assert (InB : forall X x Y, B = X ++ x :: Y -> In x B) by (intros X x Y ->; apply in_or_app; right; left; reflexivity).
    assert (b2 = b) by (apply (key_inj B); [apply (bi_sorted _ _ HB)|eapply InB; eauto|eapply InB; eauto|congruence]).
    subst b2.
    assert (b0 = b).
    { apply (key_inj B); [apply (bi_sorted _ _ HB)| |eapply InB; eauto|congruence].
      destruct (B_shape S B HB) as (lr & Br & Esh). rewrite Esh in Hb0 |- *. right. exact Hb0. }
    subst b0.
    assert (D1 = B1) by (apply (app_inv_NoDup D1 B1 b D2 B2); [rewrite <- ED; apply (B_NoDup S B HB)|rewrite <- ED; exact EB]).
    subst D1.
    destruct (bi_blk _ _ HB b Hb0) as (_ & _ & Hasc & _).
    assert (t = t2).
    { apply N2Nat.inj. apply (proj1 (NoDup_nth_error (snd b)) (asc_NoDup _ Hasc)).
      - unfold lenN in Ht. lia.
      - unfold nthN in *. congruence. }
    lia.
  Qed.

  (* upward closure: every ancestor of a row is a row *)
  Lemma up_closed y : forall k' c' c1 K, RowIn k' c' -> c' :: k' = y ++ c1 :: K -> (2 <= length K)%nat -> RowIn K c1.
  Proof.
    induction y as [|a y IH]; intros k' c' c1 K HR E HK.
    - cbn [app] in E. injection E as -> ->. exact HR.
    - cbn [app] in E. injection E as -> Ek. destruct HR as (b & Hb & Ekb & _).
      destruct (B_shape S B HB) as (lr & Br & Esh).
      assert (Htt : In b (tl (tl B))).
      { rewrite Esh in Hb |- *. cbn [tl] in *. destruct Hb as [<-|Hb]; [|exact Hb].
        exfalso. cbn [fst] in Ekb. rewrite Ek in Ekb. apply (f_equal (@length N)) in Ekb.
        rewrite app_length in Ekb. cbn [length] in Ekb. lia. }
      destruct (bi_up _ _ HB b Htt) as (c0 & k0 & b0 & E0 & Hb0 & Ek0 & Hc0).
      apply (IH k0 c0 c1 K); [exists b0; auto| |exact HK]. rewrite <- E0, Ekb. exact Ek.
  Qed.

  (* ---- the subtree of a node, as the list of its row indices ---- *)
  Definition nkey (r : list N * N) : list N := snd r :: fst r.
  Definition idx : list N := map N.of_nat (seq 0 (length (rows_of B))).
  Definition inST (K : list N) (j : N) : bool :=
    match nthN (rows_of B) j with Some r => is_suffix K (nkey r) | None => false end.
  Definition ST (K : list N) : list N := filter (inST K) idx.
  Definition STi (i : N) : list N := match nthN (rows_of B) i with Some r => ST (nkey r) | None => [] end.
  Definition leafb (j : N) : bool := match nthN (rows_of B) j with Some r => snd r =? 255 | None => false end.
  Definition LVi (i : N) : list N := filter leafb (STi i).

  Lemma idx_In j : In j idx <-> j < lenN (rows_of B).
  Proof.
    unfold idx, lenN. rewrite in_map_iff. split.
    - intros (k & <- & Hk). apply in_seq in Hk. lia.
    - intros H. exists (N.to_nat j). split; [lia|]. apply in_seq. lia.
  Qed.

  Lemma idx_NoDup : NoDup idx.
  Proof. unfold idx. apply NoDup_map_in; [|apply seq_NoDup]. intros x y _ _ E. lia. Qed.

  Lemma ST_In K j : In j (ST K) <-> exists k' c' y, nthN (rows_of B) j = Some (k', c') /\ c' :: k' = y ++ K.
  Proof.
    unfold ST. rewrite filter_In, idx_In. unfold inST. split.
    - intros [_ H]. destruct (nthN (rows_of B) j) as [[k' c']|]; [|discriminate].
      apply is_suffix_iff in H as [y E]. exists k', c', y. auto.
    - intros (k' & c' & y & Hj & E). split; [eapply nthN_Some_lt; eauto|]. rewrite Hj.
      apply is_suffix_iff. exists y. exact E.
  Qed.

  Lemma ST_NoDup K : NoDup (ST K).
  Proof. apply NoDup_filter, idx_NoDup. Qed.

  Lemma ST_len K : (length (ST K) <= length (rows_of B))%nat.
  Proof.
    unfold ST. eapply Nat.le_trans; [apply filter_length_le|]. unfold idx. rewrite map_length, seq_length. lia.
  Qed.

  Lemma ST_ge2 K j : (3 <= length K)%nat -> In j (ST K) -> 2 <= j.
  Proof.
    intros HK Hj. apply ST_In in Hj as (k' & c' & y & Hrow & E).
    destruct (row0 S B HB) as [R0 R1].
    destruct (N.lt_ge_cases j 2) as [Hlt|]; [|assumption]. exfalso.
    assert (j = 0 \/ j = 1) as [-> | ->] by lia.
    - rewrite R0 in Hrow. injection Hrow as <- <-. apply (f_equal (@length N)) in E. rewrite app_length in E. cbn [length] in E. lia.
    - rewrite R1 in Hrow. injection Hrow as <- <-. apply (f_equal (@length N)) in E. rewrite app_length in E. cbn [length] in E. lia.
  Qed.

  Lemma RowIn_len k c : RowIn k c -> (2 <= length k)%nat.
  Proof.
    intros H. destruct (RowIn_key k c H) as (r & -> & _). rewrite app_length. cbn [length]. lia.
  Qed.

  Lemma ST_trans K1 K2 j : In j (ST K2) -> (exists y, K2 = y ++ K1) -> In j (ST K1).
  Proof.
    intros Hj [y0 ->]. apply ST_In in Hj as (k' & c' & y & Hrow & E). apply ST_In.
    exists k', c', (y ++ y0). split; [exact Hrow|]. rewrite <- app_assoc. exact E.
  Qed.

  (* a terminator leaf *)
  Lemma ST_leaf i k : nthN (rows_of B) i = Some (k, 255) -> 2 <= i -> ST (255 :: k) = [i].
  Proof.
    intros Hi H2. apply single_list; [apply ST_NoDup|]. intros j. split.
    - intros Hj. pose proof (row_RowIn i k 255 Hi H2) as HR. pose proof (RowIn_len _ _ HR) as HL.
      assert (Hj2 : 2 <= j) by (apply (ST_ge2 (255 :: k)); [cbn [length]; lia|exact Hj]).
      apply ST_In in Hj as (k' & c' & y & Hrow & E). destruct y as [|a y].
      + cbn [app] in E. injection E as -> ->. symmetry. eapply row_inj; eauto.
      + exfalso. cbn [app] in E. injection E as -> Ek.
        destruct (RowIn_key _ _ (row_RowIn j k' a Hrow Hj2)) as (r & Er & Hr & _).
        assert (Hin : In 255 (r ++ [0; 0])) by (rewrite <- Er, Ek; apply in_or_app; right; left; reflexivity).
        apply in_app_or in Hin as [Hin|[Hin|[Hin|[]]]]; try discriminate.
        rewrite Forall_forall in Hr. specialize (Hr 255 Hin). unfold vbyte in Hr. lia.
    - intros ->. apply ST_In. exists k, 255, []. auto.
  Qed.

  (* an inner node: itself plus the subtrees of its children *)
  Lemma ST_children n k c ini fin : nthN (rows_of B) n = Some (k, c) -> 2 <= n ->
    ini <= fin -> 2 <= ini ->
    (forall i k' c', nthN (rows_of B) i = Some (k', c') -> (ini <= i <= fin <-> k' = c :: k)) ->
    Permutation (ST (c :: k)) (n :: flat_map STi (rangeN ini fin)).
  Proof.
    intros Hn H2 Hle Hini Hch. pose proof (row_RowIn n k c Hn H2) as HR. pose proof (RowIn_len _ _ HR) as HL.
    assert (Hrange : forall i, ini <= i <= fin -> In j (STi i) -> True) by auto.
    clear Hrange.
    assert (HSTi : forall i j, In i (rangeN ini fin) -> In j (STi i) ->
              exists ci, nthN (rows_of B) i = Some (c :: k, ci) /\ In j (ST (ci :: c :: k))).
    { intros i j Hi Hj. unfold STi in Hj. destruct (nthN (rows_of B) i) as [[ki ci]|] eqn:Ei; [|destruct Hj].
      apply rangeN_In in Hi. apply (Hch i ki ci Ei) in Hi. subst ki. exists ci. auto. }
    apply NoDup_Permutation.
    - apply ST_NoDup.
    - constructor.
      + intros Hin. apply in_flat_map in Hin as (i & Hi & Hj). destruct (HSTi i n Hi Hj) as (ci & _ & Hj').
        apply ST_In in Hj' as (k' & c' & y & Hrow & E). rewrite Hn in Hrow. injection Hrow as <- <-.
        apply (f_equal (@length N)) in E. rewrite app_length in E. cbn [length] in E. lia.
      + apply NoDup_flat_map_intro.
        * apply rangeN_NoDup.
        * intros i _. unfold STi. destruct (nthN (rows_of B) i); [apply ST_NoDup|constructor].
        * intros i1 i2 j Hi1 Hi2 Hj1 Hj2.
          destruct (HSTi i1 j Hi1 Hj1) as (c1 & Hr1 & Hj1'). destruct (HSTi i2 j Hi2 Hj2) as (c2 & Hr2 & Hj2').
          apply ST_In in Hj1' as (k' & c' & y1 & Hrow & E1). apply ST_In in Hj2' as (k'' & c'' & y2 & Hrow' & E2).
          rewrite Hrow in Hrow'. injection Hrow' as <- <-. rewrite E1 in E2.
          destruct (app_eq_len _ _ _ _ E2 eq_refl) as [_ E3]. injection E3 as ->.
          apply rangeN_In in Hi1. eapply row_inj; eauto. lia.
    - intros j. split.
      + intros Hj. assert (Hj2 : 2 <= j) by (apply (ST_ge2 (c :: k)); [cbn [length]; lia|exact Hj]).
        apply ST_In in Hj as (k' & c' & y & Hrow & E).
        destruct (exists_last_or_nil y) as [->|(y' & c1 & ->)].
        * left. cbn [app] in E. injection E as -> ->. eapply row_inj; eauto.
        * right. rewrite <- app_assoc in E. cbn [app] in E.
          pose proof (up_closed y' k' c' c1 (c :: k) (row_RowIn j k' c' Hrow Hj2) E ltac:(cbn [length]; lia)) as HR1.
          destruct (RowIn_row _ _ HR1) as (i & Hi & _ & _).
          apply in_flat_map. exists i. split; [apply rangeN_In; apply (Hch i _ c1 Hi); reflexivity|].
          unfold STi. rewrite Hi. apply ST_In. exists k', c', y'. auto.
      + intros [<-|Hin].
        * apply ST_In. exists k, c, []. auto.
        * apply in_flat_map in Hin as (i & Hi & Hj). destruct (HSTi i j Hi Hj) as (ci & _ & Hj').
          eapply ST_trans; [exact Hj'|]. exists [ci]. reflexivity.
  Qed.
End Subtree.
