(* C14 for StringDictionaryHASHRPF::locate(uchar *str, uint strLen) on an ARBITRARY caller buffer:
   the buffer holds the pattern followed by ANY non-empty sequence of bytes [tail] (the 'type-ahead' use:
   locate(word, 3) on a longer word; HashDictDefs.hashrpf_locate_gen fixes tail = [0]).
   RePair::extractStringAndCompareRP borrows str[strLen] = the first byte of the tail for its sentinel and
   (since cb054a9) gives that byte back; before, it wrote 0 there.
     1. [hashrpf_locate_buf] = the body of [hashrpf_locate_gen] with buf := hk_key hq ++ tail.
     2. the buffer is intact for ANY tail, and the answer does not depend on the tail
        (the first byte of the tail is overwritten by the sentinel during every comparison, the rest is never read).
     3. regression: the zero write-back (the source between be64401 and cb054a9) is refuted by a concrete buffer;
        with tail = [0] it is indistinguishable from the current source (why it went unnoticed).
   No definition of HashDictDefs.v is changed; the generalised comparison lemmas are obtained from the existing
   ones (rp_compare_restores) by monotonicity of the model in the buffer ("a run that never reads out of bounds
   does the same on a longer buffer") and in the fuel. *)
From LibCSD Require Import Base Spec SpecProofs PFCLayout LexLemmas RePairDefs RePairProofs RPDACDefs RPDACProofs
  HashDefs HashProofs HashDictDefs HashDictProofs.
Require Import Lia ZifyBool ZifyNat ZifyN.
Ltac Zify.zify_post_hook ::= Z.to_euclidean_division_equations.
Local Open Scope N_scope.

(* ---------------------------------------------------------------------------------------- *)
(* 1. the general form of locate                                                             *)

(* unsigned long StringDictionaryHASHRPF::locate(uchar *str, uint strLen) on the C buffer  hk_key hq ++ tail
   (strLen = |hk_key hq|; the body is that of HashDictDefs.hashrpf_locate_gen) *)
Definition hashrpf_locate_buf (guard old : bool) (d : hrpf) (hq : hkey) (tail : list N) : option N * list N :=
  let buf := hk_key hq ++ tail in
  let strLen := u32 (lenN (hk_key hq)) in
  if guard && existsb (N.eqb (hf_maxchar d)) (firstn (N.to_nat strLen) buf) then (Some 0, buf)
  else hd_locate (hrf_probe old d strLen) (hr_bits (hf_repr d)) buf (hk_h1 hq) (hk_h2 hq).
Definition hashrpf_locate_tail := hashrpf_locate_buf true false.     (* the current source *)

Lemma hashrpf_locate_buf_nul g o d hq : hashrpf_locate_buf g o d hq [0] = hashrpf_locate_gen g o d hq.
Proof. reflexivity. Qed.

Lemma hashrpf_locate_tail_nul d hq : hashrpf_locate_tail d hq [0] = hashrpf_locate d hq.
Proof. reflexivity. Qed.

(* the same text, parametrised by the comparison function (to state the regression without copying the probe) *)
Definition hrf_probe_with (cmpf : N -> list N -> N -> option (Z * list N)) (d : hrpf) (strLen : N) (buf : list N) (cell : N)
  : hd_pres * list N :=
  match nthN (hr_bits (hf_repr d)) cell with
  | None => (HOob, buf)
  | Some false => (HStop, buf)
  | Some true =>
      match hr_getValuePos (hf_repr d) cell with
      | None => (HOob, buf)
      | Some off =>
          match cmpf off buf strLen with
          | None => (HOob, buf)
          | Some (z, buf') =>
              if (z =? 0)%Z then (HFound (dh_rank1 (hr_bits (hf_repr d)) cell), buf') else (HNext, buf')
          end
      end
  end.

Definition hashrpf_locate_with (cmpf : N -> list N -> N -> option (Z * list N)) (guard : bool) (d : hrpf) (hq : hkey)
           (tail : list N) : option N * list N :=
  let buf := hk_key hq ++ tail in
  let strLen := u32 (lenN (hk_key hq)) in
  if guard && existsb (N.eqb (hf_maxchar d)) (firstn (N.to_nat strLen) buf) then (Some 0, buf)
  else hd_locate (hrf_probe_with cmpf d strLen) (hr_bits (hf_repr d)) buf (hk_h1 hq) (hk_h2 hq).

Lemma hrf_probe_with_eq old d : hrf_probe_with (rp_compare old d) d = hrf_probe old d.
Proof. reflexivity. Qed.

Lemma hashrpf_locate_with_eq g old d hq tail :
  hashrpf_locate_with (rp_compare old d) g d hq tail = hashrpf_locate_buf g old d hq tail.
Proof. reflexivity. Qed.

(* int RePair::extractStringAndCompareRP as it was between be64401 and cb054a9: the loop is left by `break`
   in every case and the function ends with  str[strLen] = 0;  (not the borrowed byte) *)
Definition rp_compare_zero (d : hrpf) (id : N) (buf : list N) (strLen : N) : option (Z * list N) :=
  match nthN buf strLen with
  | None => None
  | Some _ =>
      let qb := dh_setN buf strLen (hf_maxchar d) in
      match rpf_cmp_loop (hf_rules d) (hf_t d) (hf_cls d) qb (length (hf_rules d)) (length qb) (u32 id) 0 0 strLen 0%Z with
      | None => None
      | Some (cmp, _) => Some (cmp, dh_setN qb strLen 0)
      end
  end.
Definition hashrpf_locate_zero (d : hrpf) (hq : hkey) (tail : list N) : option N * list N :=
  hashrpf_locate_with (rp_compare_zero d) true d hq tail.

(* ---------------------------------------------------------------------------------------- *)
(* 2. monotonicity of the comparison in the buffer and in the fuel                            *)

Lemma nthN_ext {A} (l r : list A) i x : nthN l i = Some x -> nthN (l ++ r) i = Some x.
Proof. intros H. rewrite nthN_app_l by (eapply nthN_Some_lt; exact H). exact H. Qed.

Lemma cmp_char_ext qb rest c pos r : cmp_char qb c pos = Some r -> cmp_char (qb ++ rest) c pos = Some r.
Proof.
  unfold cmp_char. destruct (nthN qb pos) as [b|] eqn:E; [|discriminate]. rewrite (nthN_ext _ rest _ _ E). intros H; exact H.
Qed.

Lemma cmp_sym_ext rules t qb rest : forall fuel s pos r,
  cmp_sym rules t qb fuel s pos = Some r -> cmp_sym rules t (qb ++ rest) fuel s pos = Some r.
Proof.
  induction fuel as [|f IH]; intros s pos r H; cbn [cmp_sym] in *.
  - destruct (t <=? s); [discriminate|apply cmp_char_ext; exact H].
  - destruct (t <=? s); [|apply cmp_char_ext; exact H].
    destruct (rule_at rules (u32 (s - t))) as [[lsym rsym]|]; [|discriminate].
    destruct (cmp_sym rules t qb f lsym pos) as [[c p1]|] eqn:E1; [|discriminate].
    rewrite (IH _ _ _ E1). destruct (c =? 0)%Z; [apply IH; exact H|exact H].
Qed.

Lemma rpf_cmp_loop_ext rules t cls qb rest gfuel : forall fuel fuel' id l pos strLen cmp r,
  rpf_cmp_loop rules t cls qb gfuel fuel id l pos strLen cmp = Some r -> (fuel <= fuel')%nat ->
  rpf_cmp_loop rules t cls (qb ++ rest) gfuel fuel' id l pos strLen cmp = Some r.
Proof.
  induction fuel as [|f IH]; intros fuel' id l pos strLen cmp r H Hle.
  - cbn [rpf_cmp_loop] in H. destruct fuel'; cbn [rpf_cmp_loop]; (destruct (pos <=? strLen); [discriminate|exact H]).
  - destruct fuel' as [|f']; [lia|]. cbn [rpf_cmp_loop] in *.
    destruct (pos <=? strLen); [|exact H].
    destruct (nthN cls (u32 (id + l))) as [v|]; [|discriminate]. cbv zeta in *.
    destruct (cmp_sym rules t qb gfuel (u32 v) pos) as [[c p1]|] eqn:E; [|discriminate].
    rewrite (cmp_sym_ext _ _ _ rest _ _ _ _ E).
    destruct (c =? 0)%Z; [|exact H]. apply (IH f'); [exact H|lia].
Qed.

Lemma setN_mid {A} (l : list A) a b rest : dh_setN (l ++ a :: rest) (lenN l) b = l ++ b :: rest.
Proof.
  unfold dh_setN, lenN. rewrite Nat2N.id. induction l as [|x l IH]; cbn [app length dh_set]; [reflexivity|].
  rewrite IH. reflexivity.
Qed.

Lemma nthN_mid {A} (l : list A) a rest : nthN (l ++ a :: rest) (lenN l) = Some a.
Proof. rewrite nthN_after. reflexivity. Qed.

Lemma firstn_lenN_app {A} (q r : list A) : firstn (N.to_nat (lenN q)) (q ++ r) = q.
Proof.
  unfold lenN. rewrite Nat2N.id, firstn_app, firstn_all, Nat.sub_diag. cbn [firstn]. apply app_nil_r.
Qed.

(* a comparison that succeeds on  q ++ [a]  gives the same value on  q ++ b :: rest  and leaves that buffer as it was *)
Lemma rp_compare_ext d o q a z buf' : rp_compare false d o (q ++ [a]) (lenN q) = Some (z, buf') ->
  forall b rest, rp_compare false d o (q ++ b :: rest) (lenN q) = Some (z, q ++ b :: rest).
Proof.
  unfold rp_compare. rewrite nthN_snoc_last, setN_snoc. cbv zeta. intros H b rest. rewrite nthN_mid, setN_mid.
  destruct (rpf_cmp_loop (hf_rules d) (hf_t d) (hf_cls d) (q ++ [hf_maxchar d]) (length (hf_rules d))
              (length (q ++ [hf_maxchar d])) (u32 o) 0 0 (lenN q) 0%Z) as [[cmp early]|] eqn:E; [|discriminate].
  cbn [andb] in H. inversion H; subst z buf'. clear H.
  replace (q ++ hf_maxchar d :: rest) with ((q ++ [hf_maxchar d]) ++ rest) by (rewrite <- app_assoc; reflexivity).
  rewrite (rpf_cmp_loop_ext _ _ _ _ rest _ _ (length ((q ++ [hf_maxchar d]) ++ rest)) _ _ _ _ _ _ E)
    by (rewrite (app_length (q ++ [hf_maxchar d]) rest); lia).
  cbn [andb]. rewrite <- app_assoc. cbn [app]. rewrite setN_mid. reflexivity.
Qed.

(* the zero write-back: same comparison value, but the borrowed byte is replaced by 0 *)
Lemma rp_compare_zero_ext d o q a z buf' : rp_compare false d o (q ++ [a]) (lenN q) = Some (z, buf') ->
  forall b rest, rp_compare_zero d o (q ++ b :: rest) (lenN q) = Some (z, q ++ 0 :: rest).
Proof.
  unfold rp_compare, rp_compare_zero. rewrite nthN_snoc_last, setN_snoc. cbv zeta. intros H b rest. rewrite nthN_mid, setN_mid.
  destruct (rpf_cmp_loop (hf_rules d) (hf_t d) (hf_cls d) (q ++ [hf_maxchar d]) (length (hf_rules d))
              (length (q ++ [hf_maxchar d])) (u32 o) 0 0 (lenN q) 0%Z) as [[cmp early]|] eqn:E; [|discriminate].
  cbn [andb] in H. inversion H; subst z buf'. clear H.
  replace (q ++ hf_maxchar d :: rest) with ((q ++ [hf_maxchar d]) ++ rest) by (rewrite <- app_assoc; reflexivity).
  rewrite (rpf_cmp_loop_ext _ _ _ _ rest _ _ (length ((q ++ [hf_maxchar d]) ++ rest)) _ _ _ _ _ _ E)
    by (rewrite (app_length (q ++ [hf_maxchar d]) rest); lia).
  rewrite <- app_assoc. cbn [app]. rewrite setN_mid. reflexivity.
Qed.

(* ---------------------------------------------------------------------------------------- *)
(* 3. well-formed objects: comparison, probe, locate on  q ++ b :: rest                       *)

Section Tail.
  Variables (d : hrpf) (ks : list hkey) (t : dh_table) (ot : dh_otable) (segs : list (list N)).
  Hypothesis Hwf : hashrpf_wf d ks t ot segs.

  Let mc := hf_maxchar d.
  Let bits := hr_bits (hf_repr d).

  (* extractStringAndCompareRP on the string of an occupied cell, for EVERY buffer that starts with q and has at
     least one more byte: the value is that for  q ++ [0]  (0 iff equal), and the buffer is given back unchanged *)
  Theorem rp_compare_restores_tail c k q : nthN t c = Some (Some k) -> ~ In mc q -> lenN q + 1 < 2 ^ 32 ->
    exists o z, hr_getValuePos (hf_repr d) c = Some o /\
      rp_compare false d o (q ++ [0]) (lenN q) = Some (z, q ++ [0]) /\
      (forall b rest, rp_compare false d o (q ++ b :: rest) (lenN q) = Some (z, q ++ b :: rest)) /\
      (z = 0%Z <-> k = q).
  Proof.
    intros Hc Hq Hql. destruct (rp_compare_restores d ks t ot segs Hwf c k q Hc Hq Hql) as (o & z & Eo & Ez & Hz).
    exists o, z. split; [exact Eo|]. split; [exact Ez|]. split; [|exact Hz].
    exact (rp_compare_ext d o q 0 z _ Ez).
  Qed.

  Lemma hrf_probe_tail q b0 rest c : ~ In mc q -> lenN q + 1 < 2 ^ 32 ->
    hrf_probe false d (lenN q) (q ++ b0 :: rest) c = (probe_res t q c, q ++ b0 :: rest).
  Proof.
    intros Hq Hql. unfold hrf_probe, probe_res. fold bits.
    destruct (nthN t c) as [[k|]|] eqn:Ec.
    - destruct (hrf_cell d ks t ot segs Hwf c k Ec) as (_ & Hb & Hr & _). fold bits in Hb, Hr. rewrite Hb.
      destruct (rp_compare_restores_tail c k q Ec Hq Hql) as (o & z & Eo & _ & Ez & Hz).
      rewrite Eo, Ez. rewrite Hr.
      destruct (Z.eqb_spec z 0) as [E|E].
      + apply Hz in E. subst k. rewrite key_eqb_refl. reflexivity.
      + rewrite key_eqb_neq by (intros E'; apply E, Hz, E'). reflexivity.
    - unfold bits. rewrite (fw_bits_t _ _ _ _ _ Hwf), bits_of_nthN, Ec. reflexivity.
    - unfold bits. rewrite (fw_bits_t _ _ _ _ _ Hwf), bits_of_nthN, Ec. reflexivity.
  Qed.

  (* the probe of the zero write-back: same outcome; the byte after the pattern is 0 once a string was compared *)
  Lemma hrf_probe_zero_tail q b0 rest c : ~ In mc q -> lenN q + 1 < 2 ^ 32 ->
    fst (hrf_probe_with (rp_compare_zero d) d (lenN q) (q ++ b0 :: rest) c) = probe_res t q c /\
    (snd (hrf_probe_with (rp_compare_zero d) d (lenN q) (q ++ b0 :: rest) c) = q ++ b0 :: rest \/
     snd (hrf_probe_with (rp_compare_zero d) d (lenN q) (q ++ b0 :: rest) c) = q ++ 0 :: rest).
  Proof.
    intros Hq Hql. unfold hrf_probe_with, probe_res. fold bits.
    destruct (nthN t c) as [[k|]|] eqn:Ec.
    - destruct (hrf_cell d ks t ot segs Hwf c k Ec) as (_ & Hb & Hr & _). fold bits in Hb, Hr. rewrite Hb.
      destruct (rp_compare_restores d ks t ot segs Hwf c k q Ec Hq Hql) as (o & z & Eo & Ez & Hz).
      rewrite Eo, (rp_compare_zero_ext d o q 0 z _ Ez b0 rest). rewrite Hr.
      destruct (Z.eqb_spec z 0) as [E|E].
      + apply Hz in E. subst k. rewrite key_eqb_refl. split; [reflexivity|right; reflexivity].
      + rewrite key_eqb_neq by (intros E'; apply E, Hz, E'). split; [reflexivity|right; reflexivity].
    - unfold bits. rewrite (fw_bits_t _ _ _ _ _ Hwf), bits_of_nthN, Ec. split; [reflexivity|left; reflexivity].
    - unfold bits. rewrite (fw_bits_t _ _ _ _ _ Hwf), bits_of_nthN, Ec. split; [reflexivity|left; reflexivity].
  Qed.

  (* locate on  q ++ b0 :: rest : the answer of the abstract table, and the buffer is what the caller passed *)
  Lemma hashrpf_locate_tail_dh hq b0 rest : lenN (hk_key hq) + 1 < 2 ^ 32 ->
    snd (hashrpf_locate_tail d hq (b0 :: rest)) = hk_key hq ++ b0 :: rest /\
    (~ In mc (hk_key hq) -> fst (hashrpf_locate_tail d hq (b0 :: rest)) = dh_locate_mul t hq) /\
    (In mc (hk_key hq) -> fst (hashrpf_locate_tail d hq (b0 :: rest)) = Some 0).
  Proof.
    intros Hql. unfold hashrpf_locate_tail, hashrpf_locate_buf. cbn [andb]. fold mc bits.
    rewrite (u32_small (lenN (hk_key hq))) by lia. rewrite firstn_lenN_app.
    destruct (existsb (N.eqb mc) (hk_key hq)) eqn:Eg.
    - apply existsb_eqb_In in Eg. cbn [fst snd]. split; [reflexivity|]. split; [intros H; contradiction|reflexivity].
    - assert (Hq : ~ In mc (hk_key hq)) by (intros H; apply existsb_eqb_In in H; congruence).
      destruct (hd_locate_sim (hrf_probe false d (lenN (hk_key hq))) t (hk_key hq) (fun b => b = hk_key hq ++ b0 :: rest))
        with (bits := bits) (b := hk_key hq ++ b0 :: rest) (h1 := hk_h1 hq) (h2 := hk_h2 hq) as [E1 E2].
      + intros b c ->. rewrite (hrf_probe_tail (hk_key hq) b0 rest c Hq Hql). split; reflexivity.
      + unfold bits. rewrite (fw_bits_t _ _ _ _ _ Hwf). apply bits_of_length.
      + reflexivity.
      + split; [exact E2|]. split; [|intros H; contradiction]. intros _. rewrite E1. destruct hq; reflexivity.
  Qed.

  (* the zero write-back: the same answer; the buffer is the caller's or the caller's with a 0 after the pattern *)
  Lemma hashrpf_locate_zero_dh hq b0 rest : lenN (hk_key hq) + 1 < 2 ^ 32 ->
    (snd (hashrpf_locate_zero d hq (b0 :: rest)) = hk_key hq ++ b0 :: rest \/
     snd (hashrpf_locate_zero d hq (b0 :: rest)) = hk_key hq ++ 0 :: rest) /\
    (~ In mc (hk_key hq) -> fst (hashrpf_locate_zero d hq (b0 :: rest)) = dh_locate_mul t hq) /\
    (In mc (hk_key hq) -> fst (hashrpf_locate_zero d hq (b0 :: rest)) = Some 0).
  Proof.
    intros Hql. unfold hashrpf_locate_zero, hashrpf_locate_with. cbn [andb]. fold mc bits.
    rewrite (u32_small (lenN (hk_key hq))) by lia. rewrite firstn_lenN_app.
    destruct (existsb (N.eqb mc) (hk_key hq)) eqn:Eg.
    - apply existsb_eqb_In in Eg. cbn [fst snd]. split; [left; reflexivity|]. split; [intros H; contradiction|reflexivity].
    - assert (Hq : ~ In mc (hk_key hq)) by (intros H; apply existsb_eqb_In in H; congruence).
      destruct (hd_locate_sim (hrf_probe_with (rp_compare_zero d) d (lenN (hk_key hq))) t (hk_key hq)
                  (fun b => b = hk_key hq ++ b0 :: rest \/ b = hk_key hq ++ 0 :: rest))
        with (bits := bits) (b := hk_key hq ++ b0 :: rest) (h1 := hk_h1 hq) (h2 := hk_h2 hq) as [E1 E2].
      + intros b c [-> | ->].
        * apply (hrf_probe_zero_tail (hk_key hq) b0 rest c Hq Hql).
        * destruct (hrf_probe_zero_tail (hk_key hq) 0 rest c Hq Hql) as [F1 F2]. split; [exact F1|]. tauto.
      + unfold bits. rewrite (fw_bits_t _ _ _ _ _ Hwf). apply bits_of_length.
      + left. reflexivity.
      + split; [exact E2|]. split; [|intros H; contradiction]. intros _. rewrite E1. destruct hq; reflexivity.
  Qed.
End Tail.

(* ---------------------------------------------------------------------------------------- *)
(* 4. exported theorems (hypotheses: those of HashDictProofs.hashrpf_pattern_intact + the buffer has the byte
      str[strLen], i.e. tail <> [])                                                           *)

Lemma hashrpf_tail_wf d ks opt d' : hashrpf_chk d ks = true -> 1 <= opt <= 3 -> hashrpf_load d opt = Some d' ->
  exists t ot segs, hashrpf_wf d' ks t ot segs.
Proof.
  intros Hc Hopt El. destruct (hashrpf_chk_sound d ks Hc) as (t & ot & segs & Hwf0).
  destruct (hashrpf_load_wf d ks t ot segs opt Hwf0 Hopt) as (d'' & El' & Hwf). assert (d'' = d') by congruence. subst d''.
  exists t, ot, segs. exact Hwf.
Qed.

(* strong forms: nothing is assumed about the values in the tail *)
Theorem hashrpf_buffer_intact_any_tail_strong d ks opt d' hq tail :
  hashrpf_chk d ks = true -> 1 <= opt <= 3 -> hashrpf_load d opt = Some d' ->
  lenN (hk_key hq) + 1 < 2 ^ 32 -> tail <> [] ->
  snd (hashrpf_locate_tail d' hq tail) = hk_key hq ++ tail.
Proof.
  intros Hc Hopt El Hql Hne. destruct (hashrpf_tail_wf d ks opt d' Hc Hopt El) as (t & ot & segs & Hwf).
  destruct tail as [|b0 rest]; [congruence|].
  apply (hashrpf_locate_tail_dh d' ks t ot segs Hwf hq b0 rest Hql).
Qed.

Theorem hashrpf_answer_ignores_tail_strong d ks opt d' hq tail :
  hashrpf_chk d ks = true -> 1 <= opt <= 3 -> hashrpf_load d opt = Some d' ->
  lenN (hk_key hq) + 1 < 2 ^ 32 -> tail <> [] ->
  fst (hashrpf_locate_tail d' hq tail) = fst (hashrpf_locate d' hq).
Proof.
  intros Hc Hopt El Hql Hne. destruct (hashrpf_tail_wf d ks opt d' Hc Hopt El) as (t & ot & segs & Hwf).
  destruct tail as [|b0 rest]; [congruence|].
  destruct (hashrpf_locate_tail_dh d' ks t ot segs Hwf hq b0 rest Hql) as (_ & H2 & H3).
  destruct (hashrpf_locate_dh d' ks t ot segs Hwf hq Hql) as (_ & G2 & G3).
  destruct (in_dec N.eq_dec (hf_maxchar d') (hk_key hq)) as [Hi|Hi].
  - rewrite (H3 Hi), (G3 Hi). reflexivity.
  - rewrite (H2 Hi), (G2 Hi). reflexivity.
Qed.

(* the forms asked for by property C14 (the tail is a sequence of bytes) *)
Theorem hashrpf_buffer_intact_any_tail d ks opt d' hq tail :
  hashrpf_chk d ks = true -> 1 <= opt <= 3 -> hashrpf_load d opt = Some d' ->
  lenN (hk_key hq) + 1 < 2 ^ 32 -> tail <> [] -> Forall (fun b => b < 256) tail ->
  snd (hashrpf_locate_tail d' hq tail) = hk_key hq ++ tail.
Proof. intros Hc Hopt El Hql Hne _. exact (hashrpf_buffer_intact_any_tail_strong d ks opt d' hq tail Hc Hopt El Hql Hne). Qed.

Theorem hashrpf_answer_ignores_tail d ks opt d' hq tail :
  hashrpf_chk d ks = true -> 1 <= opt <= 3 -> hashrpf_load d opt = Some d' ->
  lenN (hk_key hq) + 1 < 2 ^ 32 -> tail <> [] -> Forall (fun b => b < 256) tail ->
  fst (hashrpf_locate_tail d' hq tail) = fst (hashrpf_locate d' hq).
Proof. intros Hc Hopt El Hql Hne _. exact (hashrpf_answer_ignores_tail_strong d ks opt d' hq tail Hc Hopt El Hql Hne). Qed.

(* both at once, together with the NUL-terminated call *)
Corollary hashrpf_locate_tail_eq d ks opt d' hq tail :
  hashrpf_chk d ks = true -> 1 <= opt <= 3 -> hashrpf_load d opt = Some d' ->
  lenN (hk_key hq) + 1 < 2 ^ 32 -> tail <> [] ->
  hashrpf_locate_tail d' hq tail = (fst (hashrpf_locate d' hq), hk_key hq ++ tail).
Proof.
  intros Hc Hopt El Hql Hne.
  pose proof (hashrpf_answer_ignores_tail_strong d ks opt d' hq tail Hc Hopt El Hql Hne) as H1.
  pose proof (hashrpf_buffer_intact_any_tail_strong d ks opt d' hq tail Hc Hopt El Hql Hne) as H2.
  destruct (hashrpf_locate_tail d' hq tail) as [r b]. cbn [fst snd] in *. subst r b. reflexivity.
Qed.

(* the comparison itself, exported form *)
Theorem rp_compare_restores_any_tail d ks t ot segs c k q : hashrpf_wf d ks t ot segs ->
  nthN t c = Some (Some k) -> ~ In (hf_maxchar d) q -> lenN q + 1 < 2 ^ 32 ->
  exists o z, hr_getValuePos (hf_repr d) c = Some o /\
    rp_compare false d o (q ++ [0]) (lenN q) = Some (z, q ++ [0]) /\
    (forall b rest, rp_compare false d o (q ++ b :: rest) (lenN q) = Some (z, q ++ b :: rest)) /\
    (z = 0%Z <-> k = q).
Proof. intros Hwf. exact (rp_compare_restores_tail d ks t ot segs Hwf c k q). Qed.

(* ---------------------------------------------------------------------------------------- *)
(* 5. the zero write-back (between be64401 and cb054a9)                                       *)

(* what it does in general: the answers are right, and the byte after the pattern is the caller's or 0 *)
Theorem hashrpf_zero_writeback_char d ks opt d' hq b0 rest :
  hashrpf_chk d ks = true -> 1 <= opt <= 3 -> hashrpf_load d opt = Some d' -> lenN (hk_key hq) + 1 < 2 ^ 32 ->
  fst (hashrpf_locate_zero d' hq (b0 :: rest)) = fst (hashrpf_locate d' hq) /\
  (snd (hashrpf_locate_zero d' hq (b0 :: rest)) = hk_key hq ++ b0 :: rest \/
   snd (hashrpf_locate_zero d' hq (b0 :: rest)) = hk_key hq ++ 0 :: rest).
Proof.
  intros Hc Hopt El Hql. destruct (hashrpf_tail_wf d ks opt d' Hc Hopt El) as (t & ot & segs & Hwf).
  destruct (hashrpf_locate_zero_dh d' ks t ot segs Hwf hq b0 rest Hql) as (H1 & H2 & H3).
  destruct (hashrpf_locate_dh d' ks t ot segs Hwf hq Hql) as (_ & G2 & G3).
  split; [|exact H1].
  destruct (in_dec N.eq_dec (hf_maxchar d') (hk_key hq)) as [Hi|Hi].
  - rewrite (H3 Hi), (G3 Hi). reflexivity.
  - rewrite (H2 Hi), (G2 Hi). reflexivity.
Qed.

(* why it went unnoticed: on a NUL-terminated pattern it is indistinguishable from the current source *)
Theorem hashrpf_zero_writeback_nul d ks opt d' hq :
  hashrpf_chk d ks = true -> 1 <= opt <= 3 -> hashrpf_load d opt = Some d' -> lenN (hk_key hq) + 1 < 2 ^ 32 ->
  hashrpf_locate_zero d' hq [0] = hashrpf_locate d' hq.
Proof.
  intros Hc Hopt El Hql.
  destruct (hashrpf_zero_writeback_char d ks opt d' hq 0 [] Hc Hopt El Hql) as (H1 & H2).
  pose proof (hashrpf_pattern_intact d ks opt d' hq Hc Hopt El Hql) as H3.
  destruct (hashrpf_locate_zero d' hq [0]) as [r b]. destruct (hashrpf_locate d' hq) as [r' b']. cbn [fst snd] in *.
  subst r' b'. destruct H2 as [-> | ->]; reflexivity.
Qed.

(* the regression: S = {ab, c, x} as the real code builds it (HashDictProofs.ex_rpf), the caller's buffer is "abc\0"
   and the call is locate(buf, 2): the answer is right (ID 3) but the buffer comes back as "ab\0\0" *)
Theorem hashrpf_zero_writeback_refuted :
  exists d ks hq tail, hashrpf_chk d ks = true /\ lenN (hk_key hq) + 1 < 2 ^ 32 /\ tail <> [] /\
    Forall (fun b => b < 256) tail /\
    snd (hashrpf_locate_zero d hq tail) <> hk_key hq ++ tail /\
    snd (hashrpf_locate_tail d hq tail) = hk_key hq ++ tail /\
    fst (hashrpf_locate_zero d hq tail) = fst (hashrpf_locate_tail d hq tail).
Proof.
  exists ex_rpf, ex_rpf_keys, (mkHKey [97; 98] 2 1), [99; 0].
  split; [vm_compute; reflexivity|]. split; [vm_compute; reflexivity|]. split; [discriminate|].
  split; [repeat constructor|]. split; [vm_compute; discriminate|]. split; vm_compute; reflexivity.
Qed.

Example ex_zero_writeback :
  hashrpf_locate_zero ex_rpf (mkHKey [97; 98] 2 1) [99; 0] = (Some 3, [97; 98; 0; 0]) /\
  hashrpf_locate_tail ex_rpf (mkHKey [97; 98] 2 1) [99; 0] = (Some 3, [97; 98; 99; 0]) /\
  hashrpf_locate ex_rpf (mkHKey [97; 98] 2 1) = (Some 3, [97; 98; 0]).
Proof. vm_compute. repeat split. Qed.
