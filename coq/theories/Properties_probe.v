(* C01 / C02 / C12 — the probe arithmetic of the CURRENT source is evaluated in 64-bit nodes, so the
   unbounded-N probe positions of the hashing models are what the code computes.
   Compiled after regenerating gen/Probe_gen.v (tools/translate_probe.py, clang typed AST). *)
From Coq Require Import List NArith String.
From LibCSD Require Import ProbeWidths.
From LibCSD.gen Require Import Probe_gen.
Import ListNotations.
Local Open Scope string_scope.
Local Open Scope N_scope.

(* every arithmetic node on the left of `% tsize`, in every function of the hash classes and hash
   dictionaries, has a result type of at least 64 bits *)
Theorem C12_probe_nodes_64bit : sites_ok probe_sites = true.
Proof. vm_compute. reflexivity. Qed.

(* the functions the hashing models speak about are among the translated sites *)
Theorem C01_probe_sites_cover_insert :
  forallb (has_site probe_sites) ["Hash::insert#0"; "HashDAC::insert#0"] = true.
Proof. vm_compute. reflexivity. Qed.

Theorem C02_probe_sites_cover_search :
  forallb (has_site probe_sites)
    ["Hashdh::search#0"; "HashBdh::search#0"; "HashBBdh::search#0"; "HashDAC::search#0";
     "StringDictionaryHASHRPDAC::locate#0"; "StringDictionaryHASHRPF::locate#0"] = true.
Proof. vm_compute. reflexivity. Qed.

(* hence (ProbeWidths.probe_exact / step_exact) the machine evaluation equals the mathematical one *)
Theorem C12_probe_is_mathematical : forall nm ops op w, In (nm, ops) probe_sites -> In (op, w) ops ->
  forall hval i h2 tsize, 0 < tsize -> tsize < 2 ^ 32 -> hval < tsize -> h2 < tsize -> i < tsize ->
    probe_eval w w hval i h2 tsize = (hval + i * h2) mod tsize.
Proof.
  intros nm ops op w H1 H2 hval i h2 tsize. intros.
  pose proof (sites_ok_spec probe_sites C12_probe_nodes_64bit nm ops op w H1 H2).
  apply probe_exact; assumption.
Qed.
Print Assumptions C12_probe_is_mathematical.

Theorem C12_probe_32bit_product_would_differ :
  exists hval i h2 tsize, 0 < tsize /\ tsize < 2 ^ 32 /\ hval < tsize /\ h2 < tsize /\ i < tsize /\
    probe_eval 32 64 hval i h2 tsize <> (hval + i * h2) mod tsize.
Proof. exact probe_mul32_refuted. Qed.

Theorem C12_incremental_equals_closed_form : forall k hval h2 tsize, 0 < tsize -> hval < tsize ->
  step_iter k hval h2 tsize = (hval + N.of_nat k * h2) mod tsize.
Proof. exact step_iter_closed. Qed.
Print Assumptions C12_incremental_equals_closed_form.

