(* C03 / C18 -- byte-level comparison of Hu-Tucker encoded headers (HTFC / HHTFC / RPHTFC locateBucket).
   Stand-alone: cd /verif/coq && coqc -Q theories LibCSD <this file>.
   Import order matters: Spec before CodesProofs ([is_prefix] exists in both; the short name is not used here). *)
From LibCSD Require Import Base Spec SpecProofs CodesDefs CodesProofs HTCompareProofs Properties_codes.
Local Open Scope N_scope.

(* ---- C18: memcmp = MSB-first bit comparison; encoded bytes; first differing bit ------------- *)

Theorem C18_ht_memcmp_msb_bits : forall n a b,
  Forall (fun x => x < 256) a -> Forall (fun x => x < 256) b ->
  (n <= length a)%nat -> (n <= length b)%nat ->
  memcmp_bytes a b n =
  Some (bits_cmp (firstn (8 * n) (bits_of_bytes a)) (firstn (8 * n) (bits_of_bytes b))).
Proof. exact memcmp_msb_bits. Qed.
Print Assumptions C18_ht_memcmp_msb_bits.

Theorem C18_ht_memcmp_msb_bits_opt : forall n a b,
  Forall (fun x => x < 256) a -> Forall (fun x => x < 256) b ->
  memcmp_bytes a b n =
  if ((n <=? length a) && (n <=? length b))%nat
  then Some (bits_cmp (firstn (8 * n) (bits_of_bytes a)) (firstn (8 * n) (bits_of_bytes b)))
  else None.
Proof. exact memcmp_msb_bits_opt. Qed.
Print Assumptions C18_ht_memcmp_msb_bits_opt.

Theorem C18_ht_memcmp_none : forall n a b,
  memcmp_bytes a b n = None <-> (length a < n \/ length b < n)%nat.
Proof. exact memcmp_bytes_None. Qed.
Print Assumptions C18_ht_memcmp_none.

Theorem C18_ht_compare_bits_of : forall (n : nat) x y, x < 2 ^ N.of_nat n -> y < 2 ^ N.of_nat n ->
  (x ?= y) = bits_cmp (bits_of n x) (bits_of n y).
Proof. exact compare_bits_of. Qed.
Print Assumptions C18_ht_compare_bits_of.

Theorem C18_ht_pack_string_bytes : forall cws s bytes off,
  pack_string cws s = Some (bytes, off) -> Forall (fun x => x < 256) bytes.
Proof. exact pack_string_bytes. Qed.
Print Assumptions C18_ht_pack_string_bytes.

(* where "NUL (table index 0) is the least symbol" is used *)
Theorem C18_ht_nul_code_least : forall cws b c0 cb,
  prefix_free (table_codes cws) -> alphabetic (table_codes cws) -> b <> 0 ->
  nthN cws 0 = Some c0 -> nthN cws b = Some cb ->
  exists m x y, cw_bits c0 = m ++ false :: x /\ cw_bits cb = m ++ true :: y.
Proof. exact nul_code_least. Qed.
Print Assumptions C18_ht_nul_code_least.

(* the first differing bit of two different terminated strings lies inside BOTH encodings *)
Theorem C18_ht_enc_first_diff : forall cws,
  prefix_free (table_codes cws) -> alphabetic (table_codes cws) ->
  forall h q es et, Forall (fun b => b <> 0) h -> Forall (fun b => b <> 0) q -> h <> q ->
  encode_bits cws (h ++ [0]) = Some es -> encode_bits cws (q ++ [0]) = Some et ->
  exists m x y,
    (lex_compare h q = Lt /\ es = m ++ false :: x /\ et = m ++ true :: y) \/
    (lex_compare h q = Gt /\ es = m ++ true :: x /\ et = m ++ false :: y).
Proof. exact enc_first_diff. Qed.
Print Assumptions C18_ht_enc_first_diff.

(* ---- C03: the memcmp of locateBucket is the string order ------------------------------------ *)

Theorem C03_ht_header_memcmp_cmp : forall cws h q bh oh bq oq rest,
  check_prefix_free cws = true -> check_alphabetic cws = true -> check_lengths cws = true ->
  Forall (fun b => b <> 0) h -> Forall (fun b => b <> 0) q ->
  pack_string cws (h ++ [0]) = Some (bh, oh) -> pack_string cws (q ++ [0]) = Some (bq, oq) ->
  Forall (fun x => x < 256) rest ->
  (length bq <= length (bh ++ rest))%nat ->
  memcmp_bytes (bh ++ rest) bq (length bq) = Some (lex_compare h q).
Proof. exact ht_header_memcmp_cmp. Qed.
Print Assumptions C03_ht_header_memcmp_cmp.

Theorem C03_ht_header_memcmp_spec : forall cws h q bh oh bq oq rest,
  check_prefix_free cws = true -> check_alphabetic cws = true -> check_lengths cws = true ->
  Forall (fun b => b <> 0) h -> Forall (fun b => b <> 0) q ->
  pack_string cws (h ++ [0]) = Some (bh, oh) -> pack_string cws (q ++ [0]) = Some (bq, oq) ->
  Forall (fun x => x < 256) rest ->
  (length bq <= length (bh ++ rest))%nat ->
  exists c, memcmp_bytes (bh ++ rest) bq (length bq) = Some c /\
            (c = Eq <-> h = q) /\ (c = Lt <-> lex_lt h q) /\ (c = Gt <-> lex_lt q h).
Proof. exact ht_header_memcmp_spec. Qed.
Print Assumptions C03_ht_header_memcmp_spec.

Theorem C03_ht_header_memcmp_overread : forall text bq, (length text < length bq)%nat ->
  memcmp_bytes text bq (length bq) = None.
Proof. exact ht_header_memcmp_overread. Qed.
Print Assumptions C03_ht_header_memcmp_overread.

Theorem C03_ht_enc_total : forall cws s, 0 < lenN cws -> Forall (fun x => x < lenN cws) s ->
  exists b o, pack_string cws (s ++ [0]) = Some (b, o).
Proof. exact ht_enc_total. Qed.
Print Assumptions C03_ht_enc_total.

Theorem C03_ht_locate_bucket_order : forall cws q bq oq (ts : list (str * list N)),
  check_prefix_free cws = true -> check_alphabetic cws = true -> check_lengths cws = true ->
  Forall (fun b => b <> 0) q -> pack_string cws (q ++ [0]) = Some (bq, oq) ->
  Forall (ht_bucket_ok cws bq) ts ->
  sorted_lt (map fst ts) ->
  exists na e ng,
    map (ht_probe cws bq) ts = repeat (Some Lt) na ++ e ++ repeat (Some Gt) ng /\
    (e = [] \/ e = [Some Eq]) /\ (e = [Some Eq] <-> In q (map fst ts)).
Proof. exact ht_locate_bucket_order. Qed.
Print Assumptions C03_ht_locate_bucket_order.

Theorem C03_ht_probe_monotone : forall cws q bq oq t1 t2,
  check_prefix_free cws = true -> check_alphabetic cws = true -> check_lengths cws = true ->
  Forall (fun b => b <> 0) q -> pack_string cws (q ++ [0]) = Some (bq, oq) ->
  ht_bucket_ok cws bq t1 -> ht_bucket_ok cws bq t2 -> lex_lt (fst t1) (fst t2) ->
  exists c1 c2, ht_probe cws bq t1 = Some c1 /\ ht_probe cws bq t2 = Some c2 /\
                (c2 <> Gt -> c1 = Lt) /\ (c1 <> Lt -> c2 = Gt).
Proof. exact ht_probe_monotone. Qed.
Print Assumptions C03_ht_probe_monotone.

(* ---- Examples -------------------------------------------------------------------------------- *)

(* a small alphabetic prefix-free table: NUL = 0, then 10, 110, 111 *)
Definition ht_small : list cw := [(0, 1); (2, 2); (6, 3); (7, 3)].

Example C18_ht_small_checks :
  check_prefix_free ht_small = true /\ check_alphabetic ht_small = true /\
  check_lengths ht_small = true /\ check_complete ht_small = true.
Proof. vm_compute. auto. Qed.

(* the encodings: "12\0" = 10 110 0 + 2 padding bits = B0;  "123\0" = 10 110 111 | 0 + 7 padding = B7 00;
   "1231\0" = B7 80 *)
Example C18_ht_small_encodings :
  pack_string ht_small [1; 2; 0] = Some ([176], 6) /\
  pack_string ht_small [1; 2; 3; 0] = Some ([183; 0], 1) /\
  pack_string ht_small [1; 2; 3; 1; 0] = Some ([183; 128], 3).
Proof. vm_compute. auto. Qed.

(* all the delicate cases on the small table, the header followed by arbitrary bucket bytes (FF FF):
   header a proper prefix of the query, query a proper prefix of the header, equal strings with the
   query's padding bits facing non-padding bits only AFTER the compared bytes, header shorter in
   bytes than the query *)
Example C03_ht_small_cases :
  memcmp_bytes ([176] ++ [255; 255]) [183; 0] 2 = Some Lt /\       (* h = 12   < q = 123  *)
  memcmp_bytes ([183; 0] ++ [255; 255]) [176] 1 = Some Gt /\       (* h = 123  > q = 12   *)
  memcmp_bytes ([183; 0] ++ [255; 255]) [183; 0] 2 = Some Eq /\    (* h = q = 123, 7 padding bits *)
  memcmp_bytes ([183; 0] ++ [255; 255]) [183; 128] 2 = Some Lt /\  (* h = 123  < q = 1231 *)
  memcmp_bytes ([183; 128] ++ [255]) [183; 0] 2 = Some Gt /\       (* h = 1231 > q = 123  *)
  lex_compare [1; 2] [1; 2; 3] = Lt /\ lex_compare [1; 2; 3] [1; 2] = Gt /\
  lex_compare [1; 2; 3] [1; 2; 3; 1] = Lt.
Proof. vm_compute. repeat split. Qed.

(* the hypotheses of C03_ht_header_memcmp_spec are satisfiable (and the conclusion non-trivial) *)
Example C03_ht_small_spec_instance :
  exists c, memcmp_bytes ([176] ++ [255; 255]) [183; 0] (length [183; 0]) = Some c /\
            (c = Eq <-> [1; 2] = [1; 2; 3]) /\ (c = Lt <-> lex_lt [1; 2] [1; 2; 3]) /\
            (c = Gt <-> lex_lt [1; 2; 3] [1; 2]).
Proof.
  apply (C03_ht_header_memcmp_spec ht_small [1; 2] [1; 2; 3] [176] 6 [183; 0] 1 [255; 255]);
    try (vm_compute; reflexivity).
  - repeat constructor; discriminate.
  - repeat constructor; discriminate.
  - repeat constructor.
  - cbn. lia.
Qed.

(* sharpness (the seeded mutant "memcmp length strLen -> strLen-1"): comparing one byte less makes two
   different strings compare equal *)
Example C03_ht_small_one_byte_less :
  memcmp_bytes ([183; 0] ++ [255]) [183; 128] 1 = Some Eq /\ [1; 2; 3] <> [1; 2; 3; 1].
Proof. split; [reflexivity|discriminate]. Qed.

(* the excluded case: the text holds only the header "12\0" (1 byte) but the encoded query "123\0" has
   2 bytes: the memcmp reads past the text (known finding ht-locatebucket-memcmp-overread) *)
Example C03_ht_small_over_read : memcmp_bytes [176] [183; 0] 2 = None.
Proof. reflexivity. Qed.

(* four buckets with sorted headers 1 < 12 < 123 < 2 probed with q = 123 *)
Definition ht_small_buckets : list (str * list N) :=
  [([1], [255; 255; 255]); ([1; 2], [0; 255]); ([1; 2; 3], [170]); ([2], [1; 2; 3])].

Example C03_ht_small_bucket_order :
  Forall (ht_bucket_ok ht_small [183; 0]) ht_small_buckets /\ sorted_lt (map fst ht_small_buckets) /\
  map (ht_probe ht_small [183; 0]) ht_small_buckets = [Some Lt; Some Lt; Some Eq; Some Gt].
Proof.
  split; [|split].
  - repeat constructor; try discriminate; try (cbn; lia);
      (eexists; split; [vm_compute; reflexivity|cbn; lia]).
  - apply sorted_lt_b_sound. vm_compute. reflexivity.
  - vm_compute. reflexivity.
Qed.

(* the REAL Hu-Tucker table of Properties_codes (counts of "alabama\0alaska\0...delaware\0"):
   header "alabama" (+ following bytes) against the queries "alabama", "alab", "alabamas", "alaska" *)
Definition s_alabama : str := [97; 108; 97; 98; 97; 109; 97].
Definition s_alab : str := [97; 108; 97; 98].
Definition s_alabamas : str := [97; 108; 97; 98; 97; 109; 97; 115].
Definition s_alaska : str := [97; 108; 97; 115; 107; 97].

Definition probe_real (h q : str) (rest : list N) : option comparison :=
  match ht_enc real_ht h, ht_enc real_ht q with
  | Some bh, Some bq => memcmp_bytes (bh ++ rest) bq (length bq)
  | _, _ => None
  end.

Example C03_ht_real_cases :
  probe_real s_alabama s_alabama [255; 255; 255] = Some Eq /\
  probe_real s_alabama s_alab [255; 255; 255] = Some Gt /\
  probe_real s_alabama s_alabamas [255; 255; 255] = Some Lt /\
  probe_real s_alabama s_alabamas [0; 0; 0] = Some Lt /\
  probe_real s_alabama s_alaska [255; 255; 255] = Some Lt /\
  probe_real s_alaska s_alabamas [1; 2] = Some Gt /\
  probe_real s_alab s_alabamas [] = None.      (* fewer text bytes than the encoded query: over-read *)
Proof. vm_compute. repeat split. Qed.
