(* Theorems about the iterator and block-routing models of IterDefs.v. *)
From LibCSD Require Import Base Spec SpecProofs IterDefs.
From Coq Require Import Lia ZifyBool ZifyNat ZifyN.
Ltac Zify.zify_post_hook ::= Z.to_euclidean_division_equations.
Local Open Scope N_scope.

(* ================================================================================ *)
(* Generic iterator vocabulary                                                       *)
(* ================================================================================ *)

(* [iter_denotes it st L]: draining [it] from [st] with the client loop
   `while (hasNext && k < fuel) next` never fails (no out-of-bounds read), yields exactly the
   first [fuel] elements of L, and afterwards hasNext is true iff elements remain.  Taking
   fuel >= length L: the stream is exactly L and hasNext is false exactly after the last one. *)
Definition iter_denotes {St A} (it : iter St A) (st : St) (L : list A) : Prop :=
  forall fuel, exists st', drain it fuel st = Some (firstn fuel L, st') /\
                           it_has_next it st' = (fuel <? length L)%nat.

Lemma denotes_full {St A} (it : iter St A) st L : iter_denotes it st L ->
  forall fuel, (length L <= fuel)%nat ->
  exists st', drain it fuel st = Some (L, st') /\ it_has_next it st' = false.
Proof.
  intros H fuel Hf. destruct (H fuel) as (st' & Hd & Hn). exists st'.
  rewrite firstn_all2 in Hd by lia. split; [exact Hd|]. rewrite Hn. apply Nat.ltb_ge. lia.
Qed.

Lemma denotes_more {St A} (it : iter St A) st L : iter_denotes it st L ->
  forall fuel, (fuel < length L)%nat ->
  exists st', drain it fuel st = Some (firstn fuel L, st') /\ it_has_next it st' = true.
Proof.
  intros H fuel Hf. destruct (H fuel) as (st' & Hd & Hn). exists st'. split; [exact Hd|].
  rewrite Hn. apply Nat.ltb_lt. lia.
Qed.

Lemma denotes_run {St A} (it : iter St A) st L : iter_denotes it st L ->
  forall fuel, exists st', run_iter it fuel st = Some (firstn fuel L, (fuel <? length L)%nat, st').
Proof.
  intros H fuel. destruct (H fuel) as (st' & Hd & Hn). exists st'. unfold run_iter. rewrite Hd, Hn. reflexivity.
Qed.

(* ---- size_t helpers ------------------------------------------------------------- *)
Lemma w64_small x : x < two64 -> w64 x = x.
Proof. intros H. unfold w64. apply N.mod_small. exact H. Qed.

Lemma sub64_ge a b : b <= a -> a < two64 -> sub64 a b = a - b.
Proof. intros H1 H2. unfold sub64, two64 in *. lia. Qed.

Lemma sub64_zero_one : sub64 0 1 = two64 - 1.
Proof. reflexivity. Qed.

Lemma seqN_length a c : length (seqN a c) = c.
Proof. revert a; induction c as [|c IH]; intros a; simpl; [reflexivity|]. rewrite IH. reflexivity. Qed.

Lemma seqN_In a c x : In x (seqN a c) <-> a <= x < a + N.of_nat c.
Proof.
  revert a; induction c as [|c IH]; intros a; simpl.
  - split; [intros []|lia].
  - rewrite IH. lia.
Qed.

Lemma seqN_ascending a c : ascending_from a (seqN a c).
Proof. revert a; induction c as [|c IH]; intros a; simpl; constructor; [lia|apply IH]. Qed.

(* ================================================================================ *)
(* IteratorDictIDContiguous                                                          *)
(* ================================================================================ *)

Lemma contig_denotes_from l0 r0 r : r < two64 -> forall c p, p + N.of_nat c = r ->
  iter_denotes contig_iter (mk_cstate l0 r0 p r) (seqN (p + 1) c).
Proof.
  intros Hr. induction c as [|c IH]; intros p Hp fuel.
  - exists (mk_cstate l0 r0 p r). destruct fuel; cbn [drain contig_iter it_has_next it_next contig_has_next c_processed c_scanneable seqN firstn length].
    + split; [reflexivity|]. apply N.ltb_ge. lia.
    + replace (p <? r) with false by (symmetry; apply N.ltb_ge; lia). split; [reflexivity|]. apply N.ltb_ge. lia.
  - destruct fuel as [|fuel].
    + exists (mk_cstate l0 r0 p r). cbn [drain firstn]. split; [reflexivity|].
      cbn [contig_iter it_has_next contig_has_next c_processed c_scanneable]. rewrite seqN_length.
      transitivity true; [apply N.ltb_lt; lia|reflexivity].
    + cbn [drain contig_iter it_has_next it_next contig_has_next contig_next c_processed c_scanneable c_left c_right].
      replace (p <? r) with true by (symmetry; apply N.ltb_lt; lia).
      rewrite w64_small by lia.
      destruct (IH (p + 1) ltac:(lia) fuel) as (st' & Hd & Hn).
      cbn [contig_iter] in Hd. rewrite Hd. exists st'. split; [reflexivity|].
      rewrite Hn. cbn [seqN length]. reflexivity.
Qed.

Definition contig_list (l r : N) : list N :=
  if (1 <=? l) && (l <=? r) then seqN l (N.to_nat (r + 1 - l)) else [].

Lemma denotes_nil {St A} (it : iter St A) st : it_has_next it st = false -> iter_denotes it st [].
Proof.
  intros H fuel. exists st. destruct fuel; cbn [drain]; [|rewrite H]; rewrite ?firstn_nil; split; auto.
Qed.

(* to_list (Contiguous l r) = [l; l+1; ...; r] for 1 <= l <= r; empty when l = 0 (in particular
   the (NORESULT, NORESULT) = (0,0) convention, where processed = 0 - 1 wraps to 2^64-1) and
   when r < l. *)
Theorem contig_iter_spec l r : l < two64 -> r < two64 ->
  iter_denotes contig_iter (contig_init l r) (contig_list l r).
Proof.
  intros Hl Hr. unfold contig_list, contig_init.
  destruct (N.leb_spec 1 l) as [H1|H1]; [destruct (N.leb_spec l r) as [H2|H2]|]; cbn [andb].
  - rewrite sub64_ge by lia.
    replace l with (l - 1 + 1) at 3 by lia.
    apply contig_denotes_from; [exact Hr|lia].
  - apply denotes_nil. cbn [contig_iter it_has_next contig_has_next c_processed c_scanneable].
    rewrite sub64_ge by lia. apply N.ltb_ge. lia.
  - apply denotes_nil. cbn [contig_iter it_has_next contig_has_next c_processed c_scanneable].
    assert (l = 0) by lia. subst l. rewrite sub64_zero_one. apply N.ltb_ge. unfold two64 in *. lia.
Qed.

Corollary contig_iter_noresult : iter_denotes contig_iter (contig_init 0 0) [].
Proof. apply (contig_iter_spec 0 0); reflexivity. Qed.

Lemma contig_list_In l r x : In x (contig_list l r) <-> 1 <= l /\ l <= x <= r.
Proof.
  unfold contig_list. destruct (N.leb_spec 1 l); [destruct (N.leb_spec l r)|]; cbn [andb].
  - rewrite seqN_In. lia.
  - split; [intros []|lia].
  - split; [intros []|lia].
Qed.

Lemma contig_list_NoDup l r : NoDup (contig_list l r).
Proof.
  unfold contig_list. destruct ((1 <=? l) && (l <=? r)); [|constructor].
  eapply ascending_NoDup. apply seqN_ascending.
Qed.

(* without consulting hasNext the counter simply wraps: next after 2^64-1 is 0 *)
Lemma contig_next_wraps l0 r0 s : exists st', contig_next (mk_cstate l0 r0 (two64 - 1) s) = Some (0, st').
Proof. eexists. reflexivity. Qed.

(* ================================================================================ *)
(* Array iterators: shared invariant                                                 *)
(* ================================================================================ *)

Lemma nthN_mid {A} (pre : list A) x post : nthN (pre ++ x :: post) (lenN pre) = Some x.
Proof. rewrite nthN_app_r by lia. rewrite N.sub_diag. reflexivity. Qed.

Lemma nthN_mid1 {A} (pre : list A) x y post : nthN (pre ++ x :: y :: post) (lenN pre + 1) = Some y.
Proof.
  rewrite nthN_app_r by lia. replace (lenN pre + 1 - lenN pre) with 1 by lia. reflexivity.
Qed.

Lemma lenN_snoc {A} (l : list A) x : lenN (l ++ [x]) = lenN l + 1.
Proof. rewrite lenN_app. reflexivity. Qed.

(* [arr_run it st L bound]: iter_denotes plus the ghost facts: the array is unchanged, every
   index read while draining is < bound *)
Definition arr_run (it : iter astate N) (st : astate) (L : list N) (bound : N) : Prop :=
  forall fuel, exists st',
    drain it fuel st = Some (firstn fuel L, st') /\
    it_has_next it st' = (fuel <? length L)%nat /\
    exists lg, a_log st' = lg ++ a_log st /\ Forall (fun i => i < bound) lg.

Lemma arr_run_denotes it st L b : arr_run it st L b -> iter_denotes it st L.
Proof. intros H fuel. destruct (H fuel) as (st' & H1 & H2 & _). eauto. Qed.

(* ---- IteratorDictIDNoContiguous --------------------------------------------------- *)
Lemma nocontig_run junk : forall rest pre lg k,
  k = lenN pre + lenN rest -> lenN (pre ++ rest ++ junk) < two64 ->
  arr_run nocontig_iter (mk_astate (pre ++ rest ++ junk) (lenN pre) k lg) rest k.
Proof.
  induction rest as [|x r IH]; intros pre lg k Hk Hlen fuel.
  - exists (mk_astate (pre ++ [] ++ junk) (lenN pre) k lg). rewrite firstn_nil.
    assert (Hn : arr_has_next (mk_astate (pre ++ [] ++ junk) (lenN pre) k lg) = false).
    { unfold arr_has_next; cbn [a_processed a_scanneable]. apply N.ltb_ge. rewrite lenN_nil in Hk. lia. }
    split; [|split].
    + destruct fuel; cbn [drain nocontig_iter it_has_next]; [reflexivity|]. rewrite Hn. reflexivity.
    + cbn [nocontig_iter it_has_next]. rewrite Hn. symmetry. apply Nat.ltb_ge. simpl. lia.
    + exists []. split; [reflexivity|constructor].
  - rewrite lenN_cons in Hk. destruct fuel as [|fuel].
    + eexists. cbn [drain firstn]. split; [reflexivity|]. split.
      * cbn [nocontig_iter it_has_next]. unfold arr_has_next; cbn [a_processed a_scanneable length].
        transitivity true; [apply N.ltb_lt; lia|reflexivity].
      * exists []. split; [reflexivity|constructor].
    + cbn [drain nocontig_iter it_has_next it_next]. unfold arr_has_next at 1; cbn [a_processed a_scanneable].
      replace (lenN pre <? k) with true by (symmetry; apply N.ltb_lt; lia).
      unfold nocontig_next; cbn [a_ids a_processed a_scanneable a_log].
      cbn [app]. rewrite nthN_mid.
      rewrite w64_small by (rewrite !lenN_app, lenN_cons in Hlen; lia).
      assert (E : pre ++ x :: r ++ junk = (pre ++ [x]) ++ r ++ junk) by (rewrite <- app_assoc; reflexivity).
      rewrite E. rewrite <- lenN_snoc with (x := x).
      destruct (IH (pre ++ [x]) (lenN pre :: lg) k) with (fuel := fuel) as (st' & Hd & Hn & lg' & Hlg & Hb).
      { rewrite lenN_snoc. lia. }
      { rewrite <- E. exact Hlen. }
      cbn [nocontig_iter] in Hd. rewrite lenN_snoc in *. rewrite Hd. exists st'. split; [reflexivity|]. split.
      * rewrite Hn. reflexivity.
      * exists (lg' ++ [lenN pre]). split.
        -- rewrite Hlg. cbn [a_log]. rewrite <- app_assoc. reflexivity.
        -- apply Forall_app. split; [exact Hb|]. constructor; [lia|constructor].
Qed.

(* NoContiguous(ids, k) streams ids[0..k) in order, reading only indices < k *)
Theorem nocontig_iter_spec ids junk : lenN (ids ++ junk) < two64 ->
  arr_run nocontig_iter (arr_init (ids ++ junk) (lenN ids)) ids (lenN ids).
Proof.
  intros H. unfold arr_init.
  pose proof (nocontig_run junk ids [] [] (lenN ids)) as R. cbn [app] in R. rewrite lenN_nil in R.
  apply R; [lia|exact H].
Qed.

(* ---- IteratorDictIDDuplicates ------------------------------------------------------ *)
Lemma dedup_cons_eq x r : dedup (x :: x :: r) = dedup (x :: r).
Proof. cbn [dedup]. rewrite N.eqb_refl. reflexivity. Qed.

Lemma dedup_cons_ne x y r : x <> y -> dedup (x :: y :: r) = x :: dedup (y :: r).
Proof. intros H. change (dedup (x :: y :: r)) with (if x =? y then dedup (y :: r) else x :: dedup (y :: r)).
  destruct (N.eqb_spec x y); [contradiction|reflexivity]. Qed.

Lemma dedup_nonempty x r : exists y t, dedup (x :: r) = y :: t.
Proof.
  revert x; induction r as [|z r IH]; intros x; [exists x, []; reflexivity|].
  destruct (N.eqb_spec x z) as [->|Hne].
  - rewrite dedup_cons_eq. apply IH.
  - rewrite dedup_cons_ne by assumption. eauto.
Qed.

(* the do-while of next(): starting on an element x at index lenN pre, it stops on the first
   index whose element differs from x (possibly the sentinel), having read only indices
   <= that index; the last index read is the one it stops on *)
Lemma dup_skip_spec junk x : 1 <= x -> forall r pre lg fuel,
  (length r < fuel)%nat -> Forall (fun i => 1 <= i) r ->
  lenN (pre ++ x :: r ++ 0 :: junk) < two64 ->
  exists pre' rest' lg',
    dup_skip fuel (pre ++ x :: r ++ 0 :: junk) (lenN pre) lg = Some (lenN pre', lenN pre' :: lg' ++ lg) /\
    pre ++ x :: r ++ 0 :: junk = pre' ++ rest' ++ 0 :: junk /\
    lenN pre' + lenN rest' = lenN pre + 1 + lenN r /\
    lenN pre + 1 <= lenN pre' /\
    dedup (x :: r) = x :: dedup rest' /\
    Forall (fun i => 1 <= i) rest' /\
    Forall (fun i => i < lenN pre') lg'.
Proof.
  intros Hx. induction r as [|y r IH]; intros pre lg fuel Hf Hr Hlen.
  - destruct fuel as [|fuel]; [simpl in Hf; lia|].
    cbn [dup_skip app].
    rewrite !lenN_app, !lenN_cons in Hlen.
    rewrite w64_small by lia. rewrite sub64_ge by lia.
    replace (lenN pre + 1 - 1) with (lenN pre) by lia.
    rewrite nthN_mid, nthN_mid1.
    destruct (N.eqb_spec x 0) as [E|_]; [lia|].
    exists (pre ++ [x]), [], [lenN pre]. rewrite lenN_snoc. split; [reflexivity|].
    split; [rewrite <- app_assoc; reflexivity|]. split; [rewrite lenN_nil; lia|]. split; [lia|].
    split; [reflexivity|]. split; [constructor|]. constructor; [lia|constructor].
  - destruct fuel as [|fuel]; [simpl in Hf; lia|].
    inversion Hr as [|? ? Hy Hr']; subst.
    cbn [dup_skip app].
    pose proof Hlen as Hlen'. rewrite !lenN_app, !lenN_cons in Hlen'.
    rewrite w64_small by lia. rewrite sub64_ge by lia.
    replace (lenN pre + 1 - 1) with (lenN pre) by lia.
    rewrite nthN_mid, nthN_mid1.
    destruct (N.eqb_spec x y) as [<-|Hne].
    + assert (E : pre ++ x :: x :: r ++ 0 :: junk = (pre ++ [x]) ++ x :: r ++ 0 :: junk)
        by (rewrite <- app_assoc; reflexivity).
      rewrite <- (lenN_snoc pre x).
      change (x :: (x :: r) ++ 0 :: junk) with (x :: x :: r ++ 0 :: junk). rewrite E.
      destruct (IH (pre ++ [x]) (lenN (pre ++ [x]) :: lenN pre :: lg) fuel) as (pre' & rest' & lg' & H1 & H2 & H3 & H3' & H4 & H5 & H6).
      { simpl in Hf. lia. }
      { exact Hr'. }
      { rewrite <- E. exact Hlen. }
      exists pre', rest', (lg' ++ [lenN (pre ++ [x]); lenN pre]).
      split; [rewrite H1; rewrite <- app_assoc; reflexivity|].
      split; [exact H2|]. rewrite lenN_snoc in *. split; [rewrite lenN_cons; lia|]. split; [lia|].
      split; [rewrite dedup_cons_eq; exact H4|]. split; [exact H5|].
      apply Forall_app. split; [exact H6|].
      constructor; [lia|]. constructor; [lia|constructor].
    + exists (pre ++ [x]), (y :: r), [lenN pre]. rewrite lenN_snoc. split; [reflexivity|].
      split; [rewrite <- app_assoc; reflexivity|]. split; [rewrite lenN_cons; lia|]. split; [lia|].
      split; [apply dedup_cons_ne; assumption|]. split; [assumption|].
      constructor; [lia|constructor].
Qed.
