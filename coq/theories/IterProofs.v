(* Theorems about the iterator and block-routing models of IterDefs.v. *)
From LibCSD Require Import Base Spec SpecProofs IterDefs.
From Coq Require Import Lia ZifyBool ZifyNat ZifyN.
Ltac Zify.zify_post_hook ::= Z.to_euclidean_division_equations.
Local Open Scope N_scope.

(* ================================================================================ *)
(* Generic iterator vocabulary                                                       *)
(* ================================================================================ *)

(* [iter_denotes it st L]: draining [it] from [st] with the client loop
   `while (hasNext && k < fuel) next` never fails (no out-of-bounds read), yields exactly the
   first [fuel] elements of L, and afterwards hasNext is true iff elements remain.  Taking
   fuel >= length L: the stream is exactly L and hasNext is false exactly after the last one. *)
Definition iter_denotes {St A} (it : itmachine St A) (st : St) (L : list A) : Prop :=
  forall fuel, exists st', drain_iter it fuel st = Some (firstn fuel L, st') /\
                           it_has_next it st' = (fuel <? length L)%nat.

Lemma denotes_full {St A} (it : itmachine St A) st L : iter_denotes it st L ->
  forall fuel, (length L <= fuel)%nat ->
  exists st', drain_iter it fuel st = Some (L, st') /\ it_has_next it st' = false.
Proof.
  intros H fuel Hf. destruct (H fuel) as (st' & Hd & Hn). exists st'.
  rewrite firstn_all2 in Hd by lia. split; [exact Hd|]. rewrite Hn. apply Nat.ltb_ge. lia.
Qed.

Lemma denotes_more {St A} (it : itmachine St A) st L : iter_denotes it st L ->
  forall fuel, (fuel < length L)%nat ->
  exists st', drain_iter it fuel st = Some (firstn fuel L, st') /\ it_has_next it st' = true.
Proof.
  intros H fuel Hf. destruct (H fuel) as (st' & Hd & Hn). exists st'. split; [exact Hd|].
  rewrite Hn. apply Nat.ltb_lt. lia.
Qed.

Lemma denotes_run {St A} (it : itmachine St A) st L : iter_denotes it st L ->
  forall fuel, exists st', run_iter it fuel st = Some (firstn fuel L, (fuel <? length L)%nat, st').
Proof.
  intros H fuel. destruct (H fuel) as (st' & Hd & Hn). exists st'. unfold run_iter. rewrite Hd, Hn. reflexivity.
Qed.

(* ---- size_t helpers ------------------------------------------------------------- *)
Lemma wrap64_small x : x < sz64 -> wrap64 x = x.
Proof. intros H. unfold wrap64. apply N.mod_small. exact H. Qed.

Lemma sub_sz_ge a b : b <= a -> a < sz64 -> sub_sz a b = a - b.
Proof. intros H1 H2. unfold sub_sz, sz64 in *. lia. Qed.

Lemma sub_sz_zero_one : sub_sz 0 1 = sz64 - 1.
Proof. reflexivity. Qed.

Lemma seqN_length a c : length (seq_from a c) = c.
Proof. revert a; induction c as [|c IH]; intros a; simpl; [reflexivity|]. rewrite IH. reflexivity. Qed.

Lemma seqN_In a c x : In x (seq_from a c) <-> a <= x < a + N.of_nat c.
Proof.
  revert a; induction c as [|c IH]; intros a; simpl.
  - split; [intros []|lia].
  - rewrite IH. lia.
Qed.

Lemma seqN_ascending a c : ascending_from a (seq_from a c).
Proof. revert a; induction c as [|c IH]; intros a; simpl; constructor; [lia|apply IH]. Qed.

(* ================================================================================ *)
(* IteratorDictIDContiguous                                                          *)
(* ================================================================================ *)

Lemma drain_0 {St A} (it : itmachine St A) st : drain_iter it 0 st = Some ([], st).
Proof. reflexivity. Qed.
Lemma drain_S {St A} (it : itmachine St A) f st : drain_iter it (S f) st =
  if it_has_next it st then
    match it_next it st with
    | None => None
    | Some (x, st1) => match drain_iter it f st1 with None => None | Some (l, st2) => Some (x :: l, st2) end
    end
  else Some ([], st).
Proof. reflexivity. Qed.

Lemma contig_hn l0 r0 p r : it_has_next contig_iter (mk_cstate l0 r0 p r) = (p <? r).
Proof. reflexivity. Qed.
Lemma contig_nx l0 r0 p r : it_next contig_iter (mk_cstate l0 r0 p r) =
  Some (wrap64 (p + 1), mk_cstate l0 r0 (wrap64 (p + 1)) r).
Proof. reflexivity. Qed.

Lemma contig_denotes_from l0 r0 r : r < sz64 -> forall c p, p + N.of_nat c = r ->
  iter_denotes contig_iter (mk_cstate l0 r0 p r) (seq_from (p + 1) c).
Proof.
  intros Hr. induction c as [|c IH]; intros p Hp fuel.
  - exists (mk_cstate l0 r0 p r). rewrite contig_hn. cbn [seq_from]. rewrite firstn_nil.
    assert (E : (p <? r) = false) by (apply N.ltb_ge; lia).
    destruct fuel; [rewrite drain_0|rewrite drain_S, contig_hn, E]; (split; [reflexivity|]); rewrite ?E; reflexivity.
  - destruct fuel as [|fuel].
    + exists (mk_cstate l0 r0 p r). rewrite drain_0, contig_hn. split; [reflexivity|].
      rewrite seqN_length. transitivity true; [apply N.ltb_lt; lia|reflexivity].
    + rewrite drain_S, contig_hn, contig_nx.
      replace (p <? r) with true by (symmetry; apply N.ltb_lt; lia).
      rewrite wrap64_small by lia.
      destruct (IH (p + 1) ltac:(lia) fuel) as (st' & Hd & Hn).
      rewrite Hd. exists st'. split; [reflexivity|].
      rewrite Hn. cbn [seq_from length]. reflexivity.
Qed.

Definition contig_list (l r : N) : list N :=
  if (1 <=? l) && (l <=? r) then seq_from l (N.to_nat (r + 1 - l)) else [].

Lemma denotes_nil {St A} (it : itmachine St A) st : it_has_next it st = false -> iter_denotes it st [].
Proof.
  intros H fuel. exists st. destruct fuel; cbn [drain_iter]; [|rewrite H]; rewrite ?firstn_nil; split; auto.
Qed.

(* to_list (Contiguous l r) = [l; l+1; ...; r] for 1 <= l <= r; empty when l = 0 (in particular
   the (NORESULT, NORESULT) = (0,0) convention, where processed = 0 - 1 wraps to 2^64-1) and
   when r < l. *)
Theorem contig_iter_spec l r : l < sz64 -> r < sz64 ->
  iter_denotes contig_iter (contig_init l r) (contig_list l r).
Proof.
  intros Hl Hr. unfold contig_list, contig_init.
  destruct (N.leb_spec 1 l) as [H1|H1]; [destruct (N.leb_spec l r) as [H2|H2]|]; cbn [andb].
  - rewrite sub_sz_ge by lia.
    replace l with (l - 1 + 1) at 3 by lia.
    apply contig_denotes_from; [exact Hr|lia].
  - apply denotes_nil. rewrite contig_hn.
    rewrite sub_sz_ge by lia. apply N.ltb_ge. lia.
  - apply denotes_nil. rewrite contig_hn.
    assert (l = 0) by lia. subst l. rewrite sub_sz_zero_one. apply N.ltb_ge. unfold sz64 in *. lia.
Qed.

Corollary contig_iter_noresult : iter_denotes contig_iter (contig_init 0 0) [].
Proof. apply (contig_iter_spec 0 0); reflexivity. Qed.

Lemma contig_list_In l r x : In x (contig_list l r) <-> 1 <= l /\ l <= x <= r.
Proof.
  unfold contig_list. destruct (N.leb_spec 1 l); [destruct (N.leb_spec l r)|]; cbn [andb].
  - rewrite seqN_In. lia.
  - split; [intros []|lia].
  - split; [intros []|lia].
Qed.

Lemma contig_list_NoDup l r : NoDup (contig_list l r).
Proof.
  unfold contig_list. destruct ((1 <=? l) && (l <=? r)); [|constructor].
  eapply ascending_NoDup. apply seqN_ascending.
Qed.

(* without consulting hasNext the counter simply wraps: next after 2^64-1 is 0 *)
Lemma contig_next_wraps l0 r0 s : exists st', contig_next (mk_cstate l0 r0 (sz64 - 1) s) = Some (0, st').
Proof. eexists. reflexivity. Qed.

(* ================================================================================ *)
(* Array iterators: shared invariant                                                 *)
(* ================================================================================ *)

Lemma nthN_mid {A} (pre : list A) x post : nthN (pre ++ x :: post) (lenN pre) = Some x.
Proof. rewrite nthN_app_r by lia. rewrite N.sub_diag. reflexivity. Qed.

Lemma nthN_mid1 {A} (pre : list A) x y post : nthN (pre ++ x :: y :: post) (lenN pre + 1) = Some y.
Proof.
  rewrite nthN_app_r by lia. replace (lenN pre + 1 - lenN pre) with 1 by lia. reflexivity.
Qed.

Lemma lenN_snoc {A} (l : list A) x : lenN (l ++ [x]) = lenN l + 1.
Proof. rewrite lenN_app. reflexivity. Qed.

(* [arr_run it st L bound]: iter_denotes plus the ghost facts: the array is unchanged, every
   index read while draining is < bound *)
Definition arr_run (it : itmachine astate N) (st : astate) (L : list N) (bound : N) : Prop :=
  forall fuel, exists st',
    drain_iter it fuel st = Some (firstn fuel L, st') /\
    it_has_next it st' = (fuel <? length L)%nat /\
    exists lg, a_log st' = lg ++ a_log st /\ Forall (fun i => i < bound) lg.

Lemma arr_run_denotes it st L b : arr_run it st L b -> iter_denotes it st L.
Proof. intros H fuel. destruct (H fuel) as (st' & H1 & H2 & _). eauto. Qed.

(* ---- IteratorDictIDNoContiguous --------------------------------------------------- *)
Lemma nocontig_hn a p k lg : it_has_next nocontig_iter (mk_astate a p k lg) = (p <? k).
Proof. reflexivity. Qed.
Lemma nocontig_nx a p k lg : it_next nocontig_iter (mk_astate a p k lg) =
  match nthN a p with None => None | Some x => Some (x, mk_astate a (wrap64 (p + 1)) k (p :: lg)) end.
Proof. reflexivity. Qed.

Lemma nocontig_run junk : forall rest pre lg k,
  k = lenN pre + lenN rest -> lenN (pre ++ rest ++ junk) < sz64 ->
  arr_run nocontig_iter (mk_astate (pre ++ rest ++ junk) (lenN pre) k lg) rest k.
Proof.
  induction rest as [|x r IH]; intros pre lg k Hk Hlen fuel.
  - exists (mk_astate (pre ++ [] ++ junk) (lenN pre) k lg). rewrite firstn_nil, nocontig_hn.
    assert (E : (lenN pre <? k) = false) by (apply N.ltb_ge; rewrite lenN_nil in Hk; lia).
    split; [|split].
    + destruct fuel; [rewrite drain_0|rewrite drain_S, nocontig_hn, E]; reflexivity.
    + rewrite E. reflexivity.
    + exists []. split; [reflexivity|constructor].
  - rewrite lenN_cons in Hk. destruct fuel as [|fuel].
    + eexists. rewrite drain_0. split; [reflexivity|]. split.
      * rewrite nocontig_hn. transitivity true; [apply N.ltb_lt; lia|reflexivity].
      * exists []. split; [reflexivity|constructor].
    + rewrite drain_S, nocontig_hn, nocontig_nx.
      replace (lenN pre <? k) with true by (symmetry; apply N.ltb_lt; lia).
      cbn [app]. rewrite nthN_mid.
      rewrite wrap64_small by (rewrite !lenN_app, lenN_cons in Hlen; lia).
      assert (E : pre ++ x :: r ++ junk = (pre ++ [x]) ++ r ++ junk) by (rewrite <- app_assoc; reflexivity).
      rewrite E. rewrite <- lenN_snoc with (x := x).
      destruct (IH (pre ++ [x]) (lenN pre :: lg) k) with (fuel := fuel) as (st' & Hd & Hn & lg' & Hlg & Hb).
      { rewrite lenN_snoc. lia. }
      { rewrite <- E. exact Hlen. }
      rewrite Hd. exists st'. split; [reflexivity|]. split.
      * rewrite Hn. reflexivity.
      * exists (lg' ++ [lenN pre]). split.
        -- rewrite Hlg. cbn [a_log]. rewrite <- app_assoc. reflexivity.
        -- apply Forall_app. split; [exact Hb|]. constructor; [lia|constructor].
Qed.

(* NoContiguous(ids, k) streams ids[0..k) in order, reading only indices < k *)
Theorem nocontig_iter_spec ids junk : lenN (ids ++ junk) < sz64 ->
  arr_run nocontig_iter (arr_init (ids ++ junk) (lenN ids)) ids (lenN ids).
Proof.
  intros H. unfold arr_init.
  pose proof (nocontig_run junk ids [] [] (lenN ids)) as R. cbn [app] in R. rewrite lenN_nil in R.
  apply R; [lia|exact H].
Qed.

(* ---- IteratorDictIDDuplicates ------------------------------------------------------ *)
Lemma dedup_cons_eq x r : dedup_adj (x :: x :: r) = dedup_adj (x :: r).
Proof. cbn [dedup_adj]. rewrite N.eqb_refl. reflexivity. Qed.

Lemma dedup_cons_ne x y r : x <> y -> dedup_adj (x :: y :: r) = x :: dedup_adj (y :: r).
Proof. intros H. change (dedup_adj (x :: y :: r)) with (if x =? y then dedup_adj (y :: r) else x :: dedup_adj (y :: r)).
  destruct (N.eqb_spec x y); [contradiction|reflexivity]. Qed.

Lemma dedup_nonempty x r : exists y t, dedup_adj (x :: r) = y :: t.
Proof.
  revert x; induction r as [|z r IH]; intros x; [exists x, []; reflexivity|].
  destruct (N.eqb_spec x z) as [->|Hne].
  - rewrite dedup_cons_eq. apply IH.
  - rewrite dedup_cons_ne by assumption. eauto.
Qed.

(* the do-while of next(): starting on an element x at index lenN pre, it stops on the first
   index whose element differs from x (possibly the sentinel), having read only indices
   <= that index; the last index read is the one it stops on *)
Lemma dup_skip_spec junk x : 1 <= x -> forall r pre lg fuel,
  (length r < fuel)%nat -> Forall (fun i => 1 <= i) r ->
  lenN (pre ++ x :: r ++ 0 :: junk) < sz64 ->
  exists pre' rest' lg',
    dup_skip fuel (pre ++ x :: r ++ 0 :: junk) (lenN pre) lg = Some (lenN pre', lenN pre' :: lg' ++ lg) /\
    pre ++ x :: r ++ 0 :: junk = pre' ++ rest' ++ 0 :: junk /\
    lenN pre' + lenN rest' = lenN pre + 1 + lenN r /\
    lenN pre + 1 <= lenN pre' /\
    dedup_adj (x :: r) = x :: dedup_adj rest' /\
    Forall (fun i => 1 <= i) rest' /\
    Forall (fun i => i < lenN pre') lg'.
Proof.
  intros Hx. induction r as [|y r IH]; intros pre lg fuel Hf Hr Hlen.
  - destruct fuel as [|fuel]; [simpl in Hf; lia|].
    cbn [dup_skip app].
    rewrite !lenN_app, !lenN_cons in Hlen.
    rewrite wrap64_small by lia. rewrite sub_sz_ge by lia.
    replace (lenN pre + 1 - 1) with (lenN pre) by lia.
    rewrite nthN_mid, nthN_mid1.
    destruct (N.eqb_spec x 0) as [E|_]; [lia|].
    exists (pre ++ [x]), [], [lenN pre]. rewrite lenN_snoc. split; [reflexivity|].
    split; [rewrite <- app_assoc; reflexivity|]. split; [rewrite lenN_nil; lia|]. split; [lia|].
    split; [reflexivity|]. split; [constructor|]. constructor; [lia|constructor].
  - destruct fuel as [|fuel]; [simpl in Hf; lia|].
    inversion Hr as [|? ? Hy Hr']; subst.
    cbn [dup_skip app].
    pose proof Hlen as Hlen'. rewrite !lenN_app, !lenN_cons in Hlen'.
    rewrite wrap64_small by lia. rewrite sub_sz_ge by lia.
    replace (lenN pre + 1 - 1) with (lenN pre) by lia.
    rewrite nthN_mid, nthN_mid1.
    destruct (N.eqb_spec x y) as [<-|Hne].
    + assert (E : pre ++ x :: x :: r ++ 0 :: junk = (pre ++ [x]) ++ x :: r ++ 0 :: junk)
        by (rewrite <- app_assoc; reflexivity).
      rewrite <- (lenN_snoc pre x).
      change (x :: (x :: r) ++ 0 :: junk) with (x :: x :: r ++ 0 :: junk). rewrite E.
      destruct (IH (pre ++ [x]) (lenN (pre ++ [x]) :: lenN pre :: lg) fuel) as (pre' & rest' & lg' & H1 & H2 & H3 & H3' & H4 & H5 & H6).
      { simpl in Hf. lia. }
      { exact Hr'. }
      { rewrite <- E. exact Hlen. }
      exists pre', rest', (lg' ++ [lenN (pre ++ [x]); lenN pre]).
      split; [rewrite H1; rewrite <- app_assoc; reflexivity|].
      split; [exact H2|]. rewrite lenN_snoc in *. split; [rewrite lenN_cons; lia|]. split; [lia|].
      split; [rewrite dedup_cons_eq; exact H4|]. split; [exact H5|].
      apply Forall_app. split; [exact H6|].
      constructor; [lia|]. constructor; [lia|constructor].
    + exists (pre ++ [x]), (y :: r), [lenN pre]. rewrite lenN_snoc. split; [reflexivity|].
      split; [rewrite <- app_assoc; reflexivity|]. split; [rewrite lenN_cons; lia|]. split; [lia|].
      split; [apply dedup_cons_ne; assumption|]. split; [assumption|].
      constructor; [lia|constructor].
Qed.

Lemma dup_hn a p k lg : it_has_next dup_iter (mk_astate a p k lg) = (p <? k).
Proof. reflexivity. Qed.
Lemma dup_nx a p k lg : it_next dup_iter (mk_astate a p k lg) =
  match nthN a p with
  | None => None
  | Some nx => match dup_skip (S (length a)) a p (p :: lg) with
               | None => None
               | Some (p', log') => Some (nx, mk_astate a p' k log')
               end
  end.
Proof. reflexivity. Qed.

(* iter_denotes plus the ghost facts about reads: every index read is <= k, and once the stream
   is exhausted (and was not empty) the newest read is index k, the sentinel *)
Definition dup_run (st : astate) (L : list N) (k : N) : Prop :=
  forall fuel, exists st',
    drain_iter dup_iter fuel st = Some (firstn fuel L, st') /\
    it_has_next dup_iter st' = (fuel <? length L)%nat /\
    exists lg, a_log st' = lg ++ a_log st /\ Forall (fun i => i <= k) lg /\
               (L = [] -> lg = []) /\
               (L <> [] -> (length L <= fuel)%nat -> exists t, lg = k :: t).

Lemma dedup_nil_inv l : dedup_adj l = [] -> l = [].
Proof. destruct l as [|x r]; [reflexivity|]. destruct (dedup_nonempty x r) as (y & t & E). rewrite E. discriminate. Qed.

Lemma dup_run_from junk : forall n rest pre lg k, (length rest <= n)%nat ->
  k = lenN pre + lenN rest -> Forall (fun i => 1 <= i) rest ->
  lenN (pre ++ rest ++ 0 :: junk) < sz64 ->
  dup_run (mk_astate (pre ++ rest ++ 0 :: junk) (lenN pre) k lg) (dedup_adj rest) k.
Proof.
  induction n as [|n IH]; intros rest pre lg k Hn Hk Hpos Hlen fuel.
  - destruct rest; [|simpl in Hn; lia]. rewrite lenN_nil in Hk.
    exists (mk_astate (pre ++ [] ++ 0 :: junk) (lenN pre) k lg). cbn [dedup_adj]. rewrite firstn_nil, dup_hn.
    assert (E : (lenN pre <? k) = false) by (apply N.ltb_ge; lia).
    split; [|split].
    + destruct fuel; [rewrite drain_0|rewrite drain_S, dup_hn, E]; reflexivity.
    + rewrite E. reflexivity.
    + exists []. repeat split; auto. congruence.
  - destruct rest as [|x r].
    { apply (IH [] pre lg k); auto. simpl; lia. }
    rewrite lenN_cons in Hk. inversion Hpos as [|? ? Hx Hr]; subst.
    destruct (dedup_nonempty x r) as (y0 & t0 & Ened).
    destruct fuel as [|fuel].
    + eexists. rewrite drain_0. split; [reflexivity|]. split.
      * rewrite dup_hn. rewrite Ened. transitivity true; [apply N.ltb_lt; lia|reflexivity].
      * exists []. split; [reflexivity|]. split; [constructor|]. split; [reflexivity|].
        intros _ Hl. rewrite Ened in Hl. simpl in Hl. lia.
    + rewrite drain_S, dup_hn, dup_nx.
      replace (lenN pre <? lenN pre + (1 + lenN r)) with true by (symmetry; apply N.ltb_lt; lia).
      cbn [app]. rewrite nthN_mid.
      destruct (dup_skip_spec junk x Hx r pre (lenN pre :: lg) (S (length (pre ++ x :: r ++ 0 :: junk))))
        as (pre' & rest' & lg' & H1 & H2 & H3 & H3' & H4 & H5 & H6); [|exact Hr|exact Hlen|].
      { rewrite app_length. simpl. rewrite app_length. lia. }
      rewrite H1. rewrite H2.
      destruct (IH rest' pre' (lenN pre' :: lg' ++ lenN pre :: lg) (lenN pre + (1 + lenN r))) with (fuel := fuel)
        as (st' & Hd & Hnx & lg2 & Hlg & Hb & Hnil & Hlast).
      { unfold lenN in H3, H3'. simpl in Hn. lia. }
      { lia. }
      { exact H5. }
      { rewrite <- H2. exact Hlen. }
      rewrite Hd. exists st'. rewrite H4. split; [reflexivity|]. split; [rewrite Hnx; reflexivity|].
      exists (lg2 ++ lenN pre' :: lg' ++ [lenN pre]). split.
      { rewrite Hlg. cbn [a_log]. rewrite <- !app_assoc. cbn [app]. rewrite <- app_assoc. reflexivity. }
      split.
      { apply Forall_app. split; [exact Hb|]. constructor; [lia|].
        apply Forall_app. split; [|constructor; [lia|constructor]].
        eapply Forall_impl; [|exact H6]. cbn beta. intros. lia. }
      split; [discriminate|].
      intros _ Hl. cbn [length] in Hl.
      destruct (dedup_adj rest') eqn:Edr.
      * rewrite (Hnil eq_refl). apply dedup_nil_inv in Edr. subst rest'. rewrite lenN_nil in H3.
        replace (lenN pre') with (lenN pre + (1 + lenN r)) by lia. cbn [app]. eauto.
      * destruct Hlast as (t & ->); [discriminate|simpl in *; lia|]. cbn [app]. eauto.
Qed.

(* dedup_adj of a non-decreasing list: strictly ascending, same elements *)
Inductive nondecreasing : list N -> Prop :=
| nd_nil : nondecreasing []
| nd_one x : nondecreasing [x]
| nd_cons x y r : x <= y -> nondecreasing (y :: r) -> nondecreasing (x :: y :: r).

Fixpoint nondecreasing_b (l : list N) : bool :=
  match l with
  | [] => true
  | x :: r => match r with [] => true | y :: _ => (x <=? y) && nondecreasing_b r end
  end.
Lemma nondecreasing_b_sound l : nondecreasing_b l = true -> nondecreasing l.
Proof.
  induction l as [|x r IH]; [constructor|]. cbn [nondecreasing_b]. destruct r as [|y r']; [constructor|].
  intros H. apply andb_true_iff in H as [H1 H2]. apply N.leb_le in H1. constructor; auto.
Qed.

Lemma dedup_In l x : In x (dedup_adj l) <-> In x l.
Proof.
  induction l as [|a r IH]; [reflexivity|]. destruct r as [|b r']; [reflexivity|].
  destruct (N.eqb_spec a b) as [->|Hne].
  - rewrite dedup_cons_eq, IH. simpl. tauto.
  - rewrite dedup_cons_ne by assumption. simpl in *. rewrite IH. tauto.
Qed.

Lemma dedup_head_ge l a y t : nondecreasing (a :: l) -> dedup_adj (a :: l) = y :: t -> a = y.
Proof.
  revert a y t; induction l as [|b r IH]; intros a y t Hs E.
  - simpl in E. congruence.
  - destruct (N.eqb_spec a b) as [->|Hne].
    + rewrite dedup_cons_eq in E. inversion Hs; subst. eauto.
    + rewrite dedup_cons_ne in E by assumption. congruence.
Qed.

Lemma dedup_ascending l : nondecreasing l -> forall lo, (forall x, In x l -> lo <= x) -> ascending_from lo (dedup_adj l).
Proof.
  induction l as [|a r IH]; intros Hs lo Hlo; [constructor|].
  destruct r as [|b r']; [cbn [dedup_adj]; constructor; [apply Hlo; left; reflexivity|constructor]|].
  inversion Hs as [| |? ? ? Hab Hs']; subst.
  destruct (N.eqb_spec a b) as [->|Hne].
  - rewrite dedup_cons_eq. apply IH; [exact Hs'|]. intros x Hx. apply Hlo. right; exact Hx.
  - rewrite dedup_cons_ne by assumption. constructor; [apply Hlo; left; reflexivity|].
    apply IH; [exact Hs'|]. intros x Hx.
    assert (b <= x).
    { clear -Hs' Hx. revert b Hs' Hx. induction r' as [|c r'' IH']; intros b Hs' [->|Hx]; try lia; [destruct Hx|].
      inversion Hs'; subst. destruct Hx as [->|Hx]; [lia|]. specialize (IH' c ltac:(assumption) (or_intror Hx)). lia. }
    lia.
Qed.

(* ---- exported statements --------------------------------------------------------- *)
(* the array handed over by locateSubstr: k ids (all >= 1, as dictionary IDs are) followed by
   the 0 sentinel; [junk] is whatever follows in memory ([] for the exact allocation) *)
Theorem dup_iter_run ids junk : Forall (fun i => 1 <= i) ids -> lenN (ids ++ 0 :: junk) < sz64 ->
  dup_run (arr_init (ids ++ 0 :: junk) (lenN ids)) (dedup_adj ids) (lenN ids).
Proof.
  intros Hpos Hlen. unfold arr_init.
  pose proof (dup_run_from junk (length ids) ids [] [] (lenN ids)) as R. cbn [app] in R. rewrite lenN_nil in R.
  apply R; auto.
Qed.

Theorem dup_iter_spec ids junk : Forall (fun i => 1 <= i) ids -> lenN (ids ++ 0 :: junk) < sz64 ->
  iter_denotes dup_iter (arr_init (ids ++ 0 :: junk) (lenN ids)) (dedup_adj ids).
Proof.
  intros H1 H2 fuel. destruct (dup_iter_run ids junk H1 H2 fuel) as (st' & Ha & Hb & _). eauto.
Qed.

(* for the sorted array locateSubstr produces: each ID exactly once, ascending *)
Theorem dup_iter_sorted ids : nondecreasing ids ->
  ascending_from 0 (dedup_adj ids) /\ NoDup (dedup_adj ids) /\ (forall x, In x (dedup_adj ids) <-> In x ids).
Proof.
  intros Hs. assert (A : ascending_from 0 (dedup_adj ids)) by (apply dedup_ascending; [exact Hs|intros; lia]).
  split; [exact A|]. split; [eapply ascending_NoDup; exact A|]. intros x. apply dedup_In.
Qed.

(* memory safety on the exact allocation of k+1 cells: no read fails, every index read is <= k,
   and after the last element the newest read is index k (the sentinel is read, nothing beyond) *)
Theorem dup_iter_no_oob ids : Forall (fun i => 1 <= i) ids -> lenN ids + 1 < sz64 ->
  forall fuel, exists out st',
    drain_iter dup_iter fuel (arr_init (dup_array ids) (lenN ids)) = Some (out, st') /\
    Forall (fun i => i <= lenN ids) (a_log st') /\
    (ids <> [] -> (length (dedup_adj ids) <= fuel)%nat -> max_read (a_log st') = Some (lenN ids) /\ hd_error (a_log st') = Some (lenN ids)).
Proof.
  intros Hpos Hlen fuel. unfold dup_array.
  destruct (dup_iter_run ids [] Hpos) with (fuel := fuel) as (st' & Hd & _ & lg & Hlg & Hb & _ & Hlast).
  { rewrite lenN_app, lenN_cons, lenN_nil. lia. }
  exists (firstn fuel (dedup_adj ids)), st'. split; [exact Hd|].
  cbn [arr_init a_log] in Hlg. rewrite app_nil_r in Hlg. subst lg. split; [exact Hb|].
  intros Hne Hf. destruct Hlast as (t & Et); [|exact Hf|].
  { intros E. apply dedup_nil_inv in E. contradiction. }
  rewrite Et in *. split; [|reflexivity]. cbn [max_read]. inversion Hb as [|? ? _ Ht]; subst.
  f_equal. clear -Ht. revert Ht. generalize (lenN ids) as m. intros m. induction t as [|a t IH]; intros Ht; [reflexivity|].
  inversion Ht; subst. cbn [fold_left]. replace (N.max m a) with m by lia. apply IH; assumption.
Qed.

(* the precondition "ids are >= 1" is needed: with a 0 id the loop runs through the sentinel *)
Theorem dup_iter_zero_id_oob : drain_iter dup_iter 1 (arr_init (dup_array [0]) 1) = None.
Proof. vm_compute. reflexivity. Qed.

(* the sentinel cell is needed: without it the first next() already reads index k *)
Theorem dup_iter_needs_sentinel : drain_iter dup_iter 1 (arr_init [5] 1) = None.
Proof. vm_compute. reflexivity. Qed.

(* NoContiguous hands every id out once if the array has no repeats (the stream IS the array) *)
Corollary nocontig_iter_denotes ids junk : lenN (ids ++ junk) < sz64 ->
  iter_denotes nocontig_iter (arr_init (ids ++ junk) (lenN ids)) ids.
Proof. intros H. eapply arr_run_denotes. apply nocontig_iter_spec. exact H. Qed.

(* ================================================================================ *)
(* binary_search_before_index                                                        *)
(* ================================================================================ *)
Section BsbiProofs.
  Context {A : Type}.
  Variable cmp : A -> A -> comparison.
  Hypothesis cmp_eq : forall a b, cmp a b = Eq -> a = b.
  Hypothesis cmp_antisym : forall a b, cmp b a = CompOpp (cmp a b).

  (* strictly ascending w.r.t. cmp *)
  Fixpoint ssorted (v : list A) : Prop :=
    match v with [] => True | x :: r => Forall (fun y => cmp x y = Lt) r /\ ssorted r end.

  Lemma lb_split v t : exists l1 l2, v = l1 ++ l2 /\ Forall (fun x => cmp x t = Lt) l1 /\
    (l2 = [] \/ exists y r, l2 = y :: r /\ cmp y t <> Lt) /\ lower_bound cmp v t = lenN l1.
  Proof.
    induction v as [|x v IH].
    - exists [], []. repeat split; auto.
    - cbn [lower_bound]. destruct (cmp x t) eqn:E.
      + exists [], (x :: v). repeat split; auto. right. exists x, v. split; [reflexivity|congruence].
      + destruct IH as (l1 & l2 & -> & H1 & H2 & H3). exists (x :: l1), l2.
        split; [reflexivity|]. split; [constructor; assumption|]. split; [exact H2|]. rewrite H3, lenN_cons. reflexivity.
      + exists [], (x :: v). repeat split; auto. right. exists x, v. split; [reflexivity|congruence].
  Qed.

  Lemma count_le_app_lt l1 l2 t : Forall (fun x => cmp x t <> Gt) l1 ->
    count_le cmp (l1 ++ l2) t = lenN l1 + count_le cmp l2 t.
  Proof. clear cmp_eq cmp_antisym.
    induction 1 as [|x l1 Hx _ IH]; [reflexivity|]. cbn [app count_le]. rewrite lenN_cons, IH.
    destruct (cmp x t); try congruence; lia.
  Qed.

  Lemma count_le_le_len v t : count_le cmp v t <= lenN v.
  Proof. clear cmp_eq cmp_antisym. induction v as [|x v IH]; cbn [count_le]; [reflexivity|]. rewrite lenN_cons. destruct (cmp x t); lia. Qed.

  Lemma count_le_after y r t : Forall (fun z => cmp y z = Lt) r -> cmp y t = Eq -> count_le cmp r t = 0.
  Proof.
    intros Hf E. apply cmp_eq in E. subst t. destruct r as [|z r]; [reflexivity|].
    inversion Hf as [|? ? Hz _]; subst. cbn [count_le]. rewrite cmp_antisym, Hz. reflexivity.
  Qed.

  (* the function returns the index of the last element <= target (0 if there is none) *)
  Theorem bsbi_last_le v t : v <> [] -> ssorted v -> lenN v < sz64 ->
    bsbi cmp v t = Some (last_le cmp v t).
  Proof.
    intros Hne Hs Hlen. unfold bsbi, last_le.
    destruct (lb_split v t) as (l1 & l2 & -> & H1 & H2 & H3). rewrite H3.
    assert (H1' : Forall (fun x => cmp x t <> Gt) l1) by (eapply Forall_impl; [|exact H1]; cbn beta; intros; congruence).
    rewrite count_le_app_lt by exact H1'.
    destruct H2 as [->|(y & r & -> & Hy)].
    - rewrite app_nil_r in *. rewrite N.eqb_refl. cbn [count_le]. f_equal.
      assert (lenN l1 <> 0) by (destruct l1; [congruence|rewrite lenN_cons; lia]).
      rewrite sub_sz_ge by lia. lia.
    - rewrite lenN_app, lenN_cons.
      destruct (N.eqb_spec (lenN l1) (lenN l1 + (1 + lenN r))) as [E|_]; [lia|].
      assert (Hsr : Forall (fun z => cmp y z = Lt) r).
      { clear -Hs. induction l1 as [|a l1 IH]; [exact (proj1 Hs)|]. apply IH. exact (proj2 Hs). }
      destruct (N.ltb_spec 0 (lenN l1)) as [Hpos|Hz].
      + destruct (exists_last (l := l1)) as (l1' & a & ->); [intros E0; rewrite E0 in Hpos; unfold lenN in Hpos; simpl in Hpos; lia|].
        rewrite lenN_snoc. replace (lenN l1' + 1 - 1) with (lenN l1') by lia.
        rewrite <- app_assoc. cbn [app]. rewrite nthN_mid.
        replace (l1' ++ a :: y :: r) with ((l1' ++ [a]) ++ y :: r) by (rewrite <- app_assoc; reflexivity).
        rewrite <- (lenN_snoc l1' a), nthN_mid.
        assert (Ha : cmp a t = Lt).
        { rewrite Forall_forall in H1. apply H1. apply in_or_app. right. left. reflexivity. }
        unfold le_b, lt_b. rewrite Ha. cbn [andb]. rewrite (cmp_antisym y t).
        cbn [count_le]. destruct (cmp y t) eqn:Ey; [|congruence|]; cbn [CompOpp]; f_equal.
        * rewrite (count_le_after y r t Hsr Ey). rewrite lenN_snoc. lia.
        * rewrite lenN_snoc. lia.
      + assert (l1 = []) by (destruct l1; [reflexivity|rewrite lenN_cons in Hz; lia]). subst l1.
        cbn [app count_le lenN length N.of_nat]. f_equal.
        destruct (cmp y t) eqn:Ey; [|congruence|]; [|reflexivity].
        rewrite (count_le_after y r t Hsr Ey). reflexivity.
  Qed.

  Lemma last_le_lt_len v t : v <> [] -> last_le cmp v t < lenN v.
  Proof. clear cmp_eq cmp_antisym.
    intros Hne. unfold last_le. pose proof (count_le_le_len v t).
    assert (lenN v <> 0) by (destruct v; [congruence|rewrite lenN_cons; lia]). lia.
  Qed.
End BsbiProofs.

(* ================================================================================ *)
(* Block routing                                                                     *)
(* ================================================================================ *)

(* ---- the two orders used: std::string_view (= Spec.lex_compare) and unsigned long ---- *)
Lemma lex_ssorted S : sorted_lt S -> ssorted lex_compare S.
Proof.
  induction S as [|s r IH]; intros H; [exact I|]. split; [apply sorted_head_lt; exact H|].
  apply IH. eapply sorted_tail; eauto.
Qed.

Lemma Ncompare_antisym a b : N.compare b a = CompOpp (N.compare a b).
Proof. apply N.compare_antisym. Qed.
Lemma Ncompare_eq a b : N.compare a b = Eq -> a = b.
Proof. apply N.compare_eq. Qed.

Lemma sorted_app_inv X Y : sorted_lt (X ++ Y) ->
  sorted_lt X /\ sorted_lt Y /\ (forall x y, In x X -> In y Y -> lex_lt x y).
Proof.
  induction X as [|x X IH]; intros H.
  - split; [constructor|]. split; [exact H|]. intros x y [].
  - cbn [app] in H. pose proof (sorted_head_lt _ _ H) as Hf. rewrite Forall_forall in Hf.
    destruct (IH (sorted_tail _ _ H)) as (H1 & H2 & H3). split; [|split; [exact H2|]].
    + destruct X as [|t X']; [constructor|]. constructor; [|exact H1]. apply Hf. left; reflexivity.
    + intros x' y [<-|Hx] Hy; [apply Hf; apply in_or_app; right; exact Hy|apply H3; assumption].
Qed.

Ltac ln0 := repeat match goal with
  | |- context [lenN (@nil ?T)] => change (lenN (@nil T)) with 0
  | H : context [lenN (@nil ?T)] |- _ => change (lenN (@nil T)) with 0 in H
  end.

(* ---- spec_locate over a concatenation ------------------------------------------ *)
Lemma index_from_shift q Y : forall i k, 1 <= i ->
  index_from q Y (i + k) = if index_from q Y i =? 0 then 0 else index_from q Y i + k.
Proof.
  induction Y as [|s r IH]; intros i k Hi; cbn [index_from]; [reflexivity|].
  destruct (str_eqb s q).
  - destruct (N.eqb_spec i 0); [lia|reflexivity].
  - replace (i + k + 1) with (i + 1 + k) by lia. apply IH. lia.
Qed.

Lemma index_from_app q X Y : forall i, 1 <= i ->
  index_from q (X ++ Y) i = if index_from q X i =? 0 then index_from q Y (i + lenN X) else index_from q X i.
Proof.
  induction X as [|s r IH]; intros i Hi; cbn [app index_from].
  - ln0. rewrite N.add_0_r. reflexivity.
  - destruct (str_eqb s q).
    + destruct (N.eqb_spec i 0); [lia|reflexivity].
    + rewrite IH by lia. rewrite lenN_cons. replace (i + 1 + lenN r) with (i + (1 + lenN r)) by lia. reflexivity.
Qed.

Lemma spec_locate_mid q X C Y : ~ In q X -> ~ In q Y ->
  spec_locate (X ++ C ++ Y) q = if spec_locate C q =? 0 then 0 else lenN X + spec_locate C q.
Proof.
  intros HX HY. unfold spec_locate.
  rewrite index_from_app by lia.
  rewrite (proj2 (index_from_absent q X 1 ltac:(lia)) HX). cbn [N.eqb].
  rewrite index_from_app by lia. rewrite (index_from_shift q C 1 (lenN X)) by lia.
  destruct (N.eqb_spec (index_from q C 1) 0) as [E|E].
  - cbn [N.eqb]. apply index_from_absent; [lia|exact HY].
  - destruct (N.eqb_spec (index_from q C 1 + lenN X) 0); lia.
Qed.

(* ---- blocks: first strings and starting indexes --------------------------------- *)
Lemma block_firsts_app B1 B2 : block_firsts (B1 ++ B2) = block_firsts B1 ++ block_firsts B2.
Proof. unfold block_firsts. apply flat_map_app. Qed.

Lemma block_firsts_len B : Forall (fun b => b <> []) B -> lenN (block_firsts B) = lenN B.
Proof.
  induction 1 as [|b B Hb _ IH]; [reflexivity|]. destruct b as [|s b]; [congruence|].
  cbn [block_firsts flat_map app] in *. rewrite !lenN_cons. unfold block_firsts in IH. rewrite IH. reflexivity.
Qed.

Lemma block_firsts_In B x : In x (block_firsts B) -> In x (concat B).
Proof.
  induction B as [|b B IH]; [intros []|]. cbn [block_firsts flat_map concat]. intros H.
  apply in_app_or in H. apply in_or_app. destruct H as [H|H]; [left|right; apply IH; exact H].
  destruct b; [destruct H|]. destruct H as [<-|[]]. left; reflexivity.
Qed.

Lemma lenN_concat_app {X} (B1 B2 : list (list X)) : lenN (concat (B1 ++ B2)) = lenN (concat B1) + lenN (concat B2).
Proof. rewrite concat_app, lenN_app. reflexivity. Qed.

Lemma starts_from_app {X} (B1 B2 : list (list X)) base :
  starts_from base (B1 ++ B2) = starts_from base B1 ++ starts_from (base + lenN (concat B1)) B2.
Proof.
  revert base; induction B1 as [|b B1 IH]; intros base; cbn [app starts_from concat].
  - ln0. rewrite N.add_0_r. reflexivity.
  - rewrite IH, lenN_app. f_equal. f_equal. f_equal. lia.
Qed.

Lemma starts_from_len {X} (B : list (list X)) base : lenN (starts_from base B) = lenN B.
Proof. revert base; induction B as [|b B IH]; intros base; cbn [starts_from]; [reflexivity|]. rewrite !lenN_cons, IH. reflexivity. Qed.

Lemma starts_from_ge {X} (B : list (list X)) base x : In x (starts_from base B) -> base <= x.
Proof.
  revert base; induction B as [|b B IH]; intros base; cbn [starts_from]; [intros []|].
  intros [<-|H]; [lia|]. apply IH in H. lia.
Qed.

Lemma starts_from_lt_total {X} (B : list (list X)) base x : Forall (fun b => b <> []) B ->
  In x (starts_from base B) -> x < base + lenN (concat B).
Proof.
  intros Hne. revert base; induction Hne as [|b B Hb _ IH]; intros base; cbn [starts_from concat]; [intros []|].
  rewrite lenN_app. assert (lenN b <> 0) by (destruct b; [congruence|rewrite lenN_cons; lia]).
  intros [<-|H']; [lia|]. apply IH in H'. lia.
Qed.

Lemma starts_ssorted {X} (B : list (list X)) base : Forall (fun b => b <> []) B ->
  ssorted N.compare (starts_from base B).
Proof.
  intros Hne. revert base; induction Hne as [|b B Hb _ IH]; intros base; cbn [starts_from ssorted]; [exact I|].
  split; [|apply IH]. apply Forall_forall. intros x Hx. apply starts_from_ge in Hx.
  assert (lenN b <> 0) by (destruct b; [congruence|rewrite lenN_cons; lia]).
  apply N.compare_lt_iff. lia.
Qed.

(* which entry of the starting indexes an offset t selects *)
Lemma starts_route {X} (pre : list (list X)) b post base t :
  Forall (fun b => b <> []) (pre ++ b :: post) ->
  base + lenN (concat pre) <= t < base + lenN (concat pre) + lenN b ->
  last_le N.compare (starts_from base (pre ++ b :: post)) t = lenN pre.
Proof.
  unfold last_le. intros Hne Ht.
  enough (count_le N.compare (starts_from base (pre ++ b :: post)) t = lenN pre + 1) by lia.
  revert base Hne Ht; induction pre as [|a pre IH]; intros base Hne Ht; cbn [app starts_from count_le concat] in *.
  - ln0. destruct (N.compare_spec base t); try lia.
    + destruct post as [|c post]; cbn [starts_from count_le]; [reflexivity|].
      destruct (N.compare_spec (base + lenN b) t); lia.
    + destruct post as [|c post]; cbn [starts_from count_le]; [reflexivity|].
      destruct (N.compare_spec (base + lenN b) t); lia.
  - rewrite lenN_app in Ht. rewrite lenN_cons.
    inversion Hne; subst.
    destruct (N.compare_spec base t); try lia; rewrite IH; auto; lia.
Qed.

Lemma count_le_all v t : Forall (fun x => x <= t) v -> count_le N.compare v t = lenN v.
Proof.
  induction 1 as [|x v Hx _ IH]; [reflexivity|]. cbn [count_le]. rewrite lenN_cons, IH.
  destruct (N.compare_spec x t); lia.
Qed.

Lemma block_at {X} (B : list (list X)) t : t < lenN (concat B) ->
  exists pre b post, B = pre ++ b :: post /\ lenN (concat pre) <= t < lenN (concat pre) + lenN b.
Proof.
  induction B as [|a B IH] in t |- *; cbn [concat]; [ln0; lia|].
  rewrite lenN_app. intros Ht. destruct (N.ltb_spec t (lenN a)) as [Hlt|Hge].
  - exists [], a, B. split; [reflexivity|]. cbn [concat]. ln0. lia.
  - destruct (IH (t - lenN a) ltac:(lia)) as (pre & b & post & -> & H).
    exists (a :: pre), b, post. split; [reflexivity|]. cbn [concat]. rewrite lenN_app. lia.
Qed.

(* which sample a member q of block b selects: exactly b's position *)
Lemma samples_route pre b post q :
  Forall (fun b => b <> []) (pre ++ b :: post) -> sorted_lt (concat (pre ++ b :: post)) -> In q b ->
  last_le lex_compare (block_firsts (pre ++ b :: post)) q = lenN pre.
Proof.
  intros Hne Hs Hq. unfold last_le.
  enough (count_le lex_compare (block_firsts (pre ++ b :: post)) q = lenN pre + 1) by lia.
  rewrite concat_app in Hs. cbn [concat] in Hs.
  destruct (sorted_app_inv _ _ Hs) as (_ & Hs2 & Hlt1).
  destruct (sorted_app_inv _ _ Hs2) as (Hsb & _ & Hlt2).
  rewrite block_firsts_app. rewrite count_le_app_lt.
  - rewrite block_firsts_len by (apply Forall_app in Hne; tauto). f_equal.
    destruct b as [|f b']; [destruct Hq|]. cbn [block_firsts flat_map app].
    assert (Hfq : lex_compare f q <> Gt).
    { destruct Hq as [->|Hq]; [rewrite lex_compare_refl; discriminate|].
      pose proof (sorted_head_lt _ _ Hsb) as Hf. rewrite Forall_forall in Hf. rewrite (Hf q Hq). discriminate. }
    cbn [count_le]. replace (match lex_compare f q with Gt => 0 | _ => 1 + count_le lex_compare (flat_map (fun b => match b with [] => [] | s :: _ => [s] end) post) q end)
      with (1 + count_le lex_compare (block_firsts post) q) by (unfold block_firsts; destruct (lex_compare f q); congruence).
    destruct post as [|c post]; [reflexivity|].
    apply Forall_app in Hne as [_ Hne]. inversion Hne as [|? ? _ Hne']; subst. inversion Hne' as [|? ? Hc _]; subst.
    destruct c as [|g c']; [congruence|]. cbn [block_firsts flat_map app count_le].
    assert (lex_lt q g) by (apply Hlt2; [exact Hq|cbn [concat]; left; reflexivity]).
    rewrite lex_compare_antisym. unfold lex_lt in H. rewrite H. reflexivity.
  - apply Forall_forall. intros x Hx. apply block_firsts_In in Hx.
    assert (lex_lt x q) by (apply Hlt1; [exact Hx|apply in_or_app; left; exact Hq]).
    unfold lex_lt in H. rewrite H. discriminate.
Qed.

Lemma firsts_ssorted B : Forall (fun b => b <> []) B -> sorted_lt (concat B) ->
  ssorted lex_compare (block_firsts B).
Proof.
  induction 1 as [|b B Hb _ IH]; intros Hs; [exact I|].
  destruct b as [|f b']; [congruence|]. cbn [concat] in Hs.
  destruct (sorted_app_inv _ _ Hs) as (_ & Hs2 & Hlt).
  cbn [block_firsts flat_map app ssorted]. split; [|apply IH; exact Hs2].
  apply Forall_forall. intros x Hx. apply block_firsts_In in Hx. apply Hlt; [left; reflexivity|exact Hx].
Qed.

Lemma lenN_blocks_le {X} (B : list (list X)) : Forall (fun b => b <> []) B -> lenN B <= lenN (concat B).
Proof.
  induction 1 as [|b B Hb _ IH]; [reflexivity|]. cbn [concat]. rewrite lenN_app, lenN_cons.
  assert (lenN b <> 0) by (destruct b; [congruence|rewrite lenN_cons; lia]). lia.
Qed.

Lemma split_at {X} (l : list X) j : j < lenN l -> exists pre x post, l = pre ++ x :: post /\ lenN pre = j.
Proof.
  revert j; induction l as [|a l IH]; intros j Hj; [unfold lenN in Hj; simpl in Hj; lia|].
  destruct (N.eq_dec j 0) as [->|Hnz].
  - exists [], a, l. split; reflexivity.
  - rewrite lenN_cons in Hj. destruct (IH (j - 1) ltac:(lia)) as (pre & x & post & -> & Hl).
    exists (a :: pre), x, post. split; [reflexivity|]. rewrite lenN_cons. lia.
Qed.

Section BlocksProofs.
  Context {P : Type}.
  Variable ploc : P -> str -> N.
  Variable pext : P -> N -> option str.
  Variable blk : P -> list str.    (* the sorted range of the input the part was built from *)
  Variable cont : P -> list str.   (* the same strings in the part's own ID order *)

  (* "the part answers its own specification": a dictionary over its block whose local IDs are the
     positions in [cont p] (= [blk p] for an order-preserving part, a permutation for a hash part) *)
  Definition part_ok (p : P) : Prop :=
    blk p <> [] /\ (forall q, In q (cont p) <-> In q (blk p)) /\ lenN (cont p) = lenN (blk p) /\
    (forall q, ploc p q = spec_locate (cont p) q) /\ (forall i, pext p i = spec_extract (cont p) i).

  Definition bdict_of (parts : list P) : bdict :=
    mk_bdict (lenN (concat (map blk parts))) (block_firsts (map blk parts)) (starts_from 0 (map blk parts)) parts.
  Definition ids_view (parts : list P) : list str := concat (map cont parts).

  Variable parts : list P.
  Hypothesis parts_ok : Forall part_ok parts.
  Hypothesis parts_ne : parts <> [].
  Hypothesis S_sorted : sorted_lt (concat (map blk parts)).
  Hypothesis S_small : lenN (concat (map blk parts)) < sz64.

  Lemma blocks_nonempty l : Forall part_ok l -> Forall (fun b => b <> []) (map blk l).
  Proof using Type. clear. induction 1 as [|p l Hp _ IH]; cbn [map]; constructor; [exact (proj1 Hp)|exact IH]. Qed.

  Lemma cont_len l : Forall part_ok l -> lenN (concat (map cont l)) = lenN (concat (map blk l)).
  Proof using Type.
    clear. induction 1 as [|p l Hp _ IH]; cbn [map concat]; [reflexivity|]. rewrite !lenN_app, IH.
    destruct Hp as (_ & _ & -> & _). reflexivity.
  Qed.

  Lemma in_cont_blk l q : Forall part_ok l -> In q (concat (map cont l)) ->
    exists l1 p l2, l = l1 ++ p :: l2 /\ In q (blk p).
  Proof using Type.
    clear. intros Hok Hin. apply in_concat in Hin as (c & Hc & Hq). apply in_map_iff in Hc as (p & <- & Hp).
    apply in_split in Hp as (l1 & l2 & ->). exists l1, p, l2. split; [reflexivity|].
    apply Forall_app in Hok as [_ Hok]. inversion Hok as [|? ? Hp _]; subst. apply Hp. exact Hq.
  Qed.

  (* the block chosen for q: the last block whose first string is <= q (block 0 if there is none);
     it is the only block that can contain q *)
  Theorem bsbi_samples_spec q :
    let j := last_le lex_compare (block_firsts (map blk parts)) q in
    bsbi lex_compare (bd_samples (bdict_of parts)) q = Some j /\ j < lenN parts /\
    (forall pre p post, parts = pre ++ p :: post -> In q (blk p) -> lenN pre = j).
  Proof.
    cbn zeta. pose proof (blocks_nonempty parts parts_ok) as Hne.
    assert (Hlen : lenN (block_firsts (map blk parts)) = lenN parts).
    { rewrite block_firsts_len by exact Hne. unfold lenN. rewrite map_length. reflexivity. }
    split; [|split].
    - cbn [bdict_of bd_samples]. apply bsbi_last_le.
      + apply lex_compare_eq.
      + apply lex_compare_antisym.
      + intros E. rewrite E in Hlen. destruct parts; [congruence|]. unfold lenN in Hlen. simpl in Hlen. lia.
      + apply firsts_ssorted; assumption.
      + rewrite Hlen. pose proof (lenN_blocks_le _ Hne) as H. unfold lenN in H at 1. rewrite map_length in H. fold (lenN parts) in H. lia.
    - rewrite <- Hlen. apply last_le_lt_len. intros E. rewrite E in Hlen.
      destruct parts; [congruence|]. unfold lenN in Hlen. simpl in Hlen. lia.
    - intros pre p post E Hq.
      assert (EB : map blk parts = map blk pre ++ blk p :: map blk post) by (rewrite E, map_app; reflexivity).
      rewrite EB. rewrite samples_route.
      + unfold lenN. rewrite map_length. reflexivity.
      + rewrite <- EB. exact Hne.
      + rewrite <- EB. exact S_sorted.
      + exact Hq.
  Qed.

  (* locate of the block dictionary = locate of the global specification (ID = local ID + start) *)
  Theorem blocks_locate_spec q :
    blocks_locate ploc (bdict_of parts) q = Some (spec_locate (ids_view parts) q).
  Proof.
    destruct (bsbi_samples_spec q) as (Hb & Hj & Huniq). cbn zeta in *.
    remember (last_le lex_compare (block_firsts (map blk parts)) q) as j eqn:Ej. clear Ej.
    unfold blocks_locate. rewrite Hb.
    destruct (split_at parts _ Hj) as (pre & p & post & E & Hpre).
    cbn [bdict_of bd_parts bd_starts]. rewrite <- Hpre. rewrite E at 1. rewrite nthN_mid.
    pose proof parts_ok as Hok. rewrite E in Hok. apply Forall_app in Hok as [Hok1 Hok2].
    inversion Hok2 as [|? ? Hp Hok3]; subst.
    destruct Hp as (Hbne & Hmem & Hl & Hloc & Hext).
    rewrite Hloc.
    (* q can only be in block p *)
    assert (Hnpre : ~ In q (concat (map cont pre))).
    { intros Hin. destruct (in_cont_blk pre q Hok1 Hin) as (l1 & p' & l2 & -> & Hq').
      specialize (Huniq l1 p' (l2 ++ p :: post)). rewrite <- app_assoc in Huniq. specialize (Huniq eq_refl Hq').
      rewrite lenN_app, lenN_cons in Huniq. lia. }
    assert (Hnpost : ~ In q (concat (map cont post))).
    { intros Hin. destruct (in_cont_blk post q Hok3 Hin) as (l1 & p' & l2 & -> & Hq').
      specialize (Huniq (pre ++ p :: l1) p' l2). rewrite <- app_assoc in Huniq. specialize (Huniq eq_refl Hq').
      rewrite lenN_app, lenN_cons in Huniq. lia. }
    unfold ids_view. rewrite (map_app cont), concat_app. cbn [map concat].
    rewrite spec_locate_mid by assumption.
    destruct (N.ltb_spec 0 (spec_locate (cont p) q)) as [Hpos|Hz].
    - destruct (N.eqb_spec (spec_locate (cont p) q) 0); [lia|].
      rewrite (map_app blk). cbn [map]. rewrite starts_from_app. cbn [starts_from].
      replace (lenN pre) with (lenN (starts_from 0 (map blk pre))) by (rewrite starts_from_len; unfold lenN; rewrite map_length; reflexivity).
      rewrite nthN_mid. f_equal. rewrite (cont_len pre Hok1). rewrite N.add_0_l.
      rewrite wrap64_small; [lia|].
      destruct (spec_locate_range (cont p) q) as [|Hr]; [lia|].
      rewrite map_app, concat_app, lenN_app in S_small. cbn [map concat] in S_small. rewrite lenN_app in S_small. lia.
    - destruct (N.eqb_spec (spec_locate (cont p) q) 0); [reflexivity|lia].
  Qed.

  Lemma starts_nth pre p post :
    nthN (starts_from 0 (map blk (pre ++ p :: post))) (lenN pre) = Some (lenN (concat (map blk pre))).
  Proof using Type.
    clear. rewrite (map_app blk). cbn [map]. rewrite starts_from_app. cbn [starts_from].
    replace (lenN pre) with (lenN (starts_from 0 (map blk pre)))
      by (rewrite starts_from_len; unfold lenN; rewrite map_length; reflexivity).
    rewrite nthN_mid, N.add_0_l. reflexivity.
  Qed.

  Lemma part_at l t : t < lenN (concat (map blk l)) ->
    exists pre p post, l = pre ++ p :: post /\
      lenN (concat (map blk pre)) <= t < lenN (concat (map blk pre)) + lenN (blk p).
  Proof using Type.
    clear. induction l as [|a l IH] in t |- *; cbn [map concat]; [ln0; lia|].
    rewrite lenN_app. intros Ht. destruct (N.ltb_spec t (lenN (blk a))) as [Hlt|Hge].
    - exists [], a, l. split; [reflexivity|]. cbn [map concat]. ln0. lia.
    - destruct (IH (t - lenN (blk a)) ltac:(lia)) as (pre & b & post & -> & H).
      exists (a :: pre), b, post. split; [reflexivity|]. cbn [map concat]. rewrite lenN_app. lia.
  Qed.

  Lemma starts_facts :
    starts_from 0 (map blk parts) <> [] /\ ssorted N.compare (starts_from 0 (map blk parts)) /\
    lenN (starts_from 0 (map blk parts)) = lenN parts /\ lenN parts <= lenN (concat (map blk parts)).
  Proof.
    pose proof (blocks_nonempty parts parts_ok) as Hne.
    assert (L : lenN (starts_from 0 (map blk parts)) = lenN parts)
      by (rewrite starts_from_len; unfold lenN; rewrite map_length; reflexivity).
    split; [|split; [apply starts_ssorted; exact Hne|split; [exact L|]]].
    - intros E. rewrite E in L. destruct parts; [congruence|]. unfold lenN in L. simpl in L. lia.
    - pose proof (lenN_blocks_le _ Hne) as H. unfold lenN in H at 1. rewrite map_length in H. exact H.
  Qed.

  (* extract of the block dictionary = extract of the global specification, for EVERY id:
     id = 0 (where id - 1 wraps to 2^64-1 and the last part is asked for 0 - start), 1..n, and > n *)
  Theorem blocks_extract_spec id : id < sz64 ->
    blocks_extract pext (bdict_of parts) id = Some (spec_extract (ids_view parts) id).
  Proof.
    intros Hid. unfold blocks_extract. cbn [bdict_of bd_qty bd_starts bd_parts].
    pose proof (cont_len parts parts_ok) as Hn. fold (ids_view parts) in Hn.
    destruct starts_facts as (Sne & Ssort & Slen & Sle).
    pose proof (blocks_nonempty parts parts_ok) as Hne.
    destruct (N.ltb_spec (lenN (concat (map blk parts))) id) as [Hgt|Hle].
    { rewrite spec_extract_out_of_range by (right; lia). reflexivity. }
    rewrite (bsbi_last_le N.compare Ncompare_eq Ncompare_antisym) by (auto; lia).
    destruct (N.eq_dec id 0) as [->|Hnz].
    - (* id = 0 *)
      rewrite sub_sz_zero_one. unfold last_le. rewrite count_le_all.
      2:{ apply Forall_forall. intros x Hx. apply (starts_from_lt_total _ 0 x Hne) in Hx. unfold sz64 in *. lia. }
      rewrite Slen.
      destruct (exists_last parts_ne) as (pre & p & E).
      pose proof parts_ok as Hok. rewrite E in Hok. apply Forall_app in Hok as [Hok1 Hok2].
      inversion Hok2 as [|? ? Hp _]; subst. destruct Hp as (Hbne & Hmem & Hl & Hloc & Hext).
      rewrite lenN_snoc. replace (lenN pre + 1 - 1) with (lenN pre) by lia.
      rewrite starts_nth, nthN_mid, Hext.
      rewrite (map_app blk), concat_app, lenN_app in S_small. cbn [map concat] in S_small. rewrite app_nil_r in S_small.
      rewrite spec_extract_out_of_range; [reflexivity|].
      unfold sub_sz, sz64 in *. destruct (N.eq_dec (lenN (concat (map blk pre))) 0) as [->|Hs]; [left; reflexivity|right; lia].
    - (* 1 <= id <= n *)
      rewrite sub_sz_ge by lia.
      destruct (part_at parts (id - 1) ltac:(lia)) as (pre & p & post & E & Hrange).
      pose proof parts_ok as Hok. rewrite E in Hok. apply Forall_app in Hok as [Hok1 Hok2].
      inversion Hok2 as [|? ? Hp Hok3]; subst. destruct Hp as (Hbne & Hmem & Hl & Hloc & Hext).
      assert (Hroute : last_le N.compare (starts_from 0 (map blk (pre ++ p :: post))) (id - 1) = lenN pre).
      { rewrite (map_app blk) in Hne |- *. cbn [map] in Hne |- *. rewrite starts_route by (auto; lia).
        unfold lenN. rewrite map_length. reflexivity. }
      rewrite Hroute.
      rewrite starts_nth, nthN_mid, Hext. f_equal.
      rewrite sub_sz_ge by lia.
      unfold ids_view. rewrite (map_app cont), concat_app. cbn [map concat].
      unfold spec_extract.
      destruct (N.eqb_spec (id - lenN (concat (map blk pre))) 0); [lia|]. destruct (N.eqb_spec id 0); [lia|].
      rewrite nthN_app_r by (rewrite (cont_len pre Hok1); lia).
      rewrite nthN_app_l by (rewrite (cont_len pre Hok1), Hl; lia).
      rewrite (cont_len pre Hok1). f_equal. lia.
  Qed.

  (* ---- the delegating string iterator (extractTable) ------------------------------ *)
  Lemma skipn_nthN {X} (l : list X) i x : nthN l i = Some x ->
    skipn (N.to_nat i) l = x :: skipn (N.to_nat (i + 1)) l.
  Proof using Type.
    clear. unfold nthN. replace (N.to_nat (i + 1)) with (S (N.to_nat i)) by lia.
    generalize (N.to_nat i) as k. intros k. revert l. induction k as [|k IH]; intros [|a l] H; simpl in *; try discriminate.
    - congruence.
    - apply IH. exact H.
  Qed.

  Lemma span_at pre p post : parts = pre ++ p :: post ->
    part_span (bdict_of parts) (lenN pre) = Some (lenN (blk p)).
  Proof.
    intros E. destruct starts_facts as (_ & _ & Slen & Sle).
    assert (Hpl : lenN parts < sz64) by lia. clear Sle.
    unfold part_span, to_index. cbn [bdict_of bd_starts bd_qty]. rewrite Slen.
    pose proof S_small as Hsm. rewrite E in Slen, Hsm, Hpl |- *.
    rewrite starts_nth.
    rewrite (map_app blk), concat_app, lenN_app in Hsm. cbn [map concat] in Hsm. rewrite lenN_app in Hsm.
    rewrite lenN_app, lenN_cons in Hpl |- *. rewrite sub_sz_ge by lia.
    destruct post as [|p2 post'].
    - replace (lenN pre <? lenN pre + (1 + lenN []) - 1) with false by (symmetry; apply N.ltb_ge; ln0; lia).
      rewrite (map_app blk), concat_app, lenN_app. cbn [map concat]. rewrite app_nil_r.
      f_equal. rewrite sub_sz_ge by (unfold sz64 in *; lia). lia.
    - replace (lenN pre <? lenN pre + (1 + lenN (p2 :: post')) - 1) with true by (symmetry; apply N.ltb_lt; rewrite lenN_cons; lia).
      replace (pre ++ p :: p2 :: post') with ((pre ++ [p]) ++ p2 :: post') by (rewrite <- app_assoc; reflexivity).
      rewrite <- (lenN_snoc pre p), starts_nth.
      rewrite (map_app blk), concat_app, lenN_app. cbn [map concat]. rewrite app_nil_r.
      f_equal. rewrite sub_sz_ge by (unfold sz64 in *; lia). lia.
  Qed.

  Hypothesis S_small1 : lenN (concat (map blk parts)) + 1 < sz64.

  Lemma table_run_part pre p post L : parts = pre ++ p :: post ->
    iter_denotes (table_iter pext (bdict_of parts)) (mk_tstate 1 (lenN pre + 1)) L ->
    forall m c, c + N.of_nat m = lenN (cont p) -> 1 <= c ->
    iter_denotes (table_iter pext (bdict_of parts)) (mk_tstate c (lenN pre))
                 (map Some (skipn (N.to_nat (c - 1)) (cont p)) ++ L).
  Proof.
    intros E HL.
    pose proof parts_ok as Hok. rewrite E in Hok. apply Forall_app in Hok as [_ Hok2].
    inversion Hok2 as [|? ? Hp _]; subst x l. destruct Hp as (Hbne & Hmem & Hl & Hloc & Hext).
    destruct starts_facts as (_ & _ & _ & Sle).
    assert (Hpl : lenN pre + 1 <= lenN parts) by (rewrite E, lenN_app, lenN_cons; lia).
    assert (Hcl : lenN (cont p) <= lenN (concat (map blk parts))).
    { rewrite Hl, E, (map_app blk), concat_app, lenN_app. cbn [map concat]. rewrite lenN_app. lia. }
    assert (Hhn : forall c, 1 <= c <= lenN (cont p) ->
              it_has_next (table_iter pext (bdict_of parts)) (mk_tstate c (lenN pre)) = true).
    { intros c Hc. cbn [table_iter it_has_next]. unfold table_has_next. cbn [t_part t_current bdict_of bd_parts].
      replace (lenN pre <? lenN parts) with true by (symmetry; apply N.ltb_lt; lia).
      change (mk_bdict _ _ _ parts) with (bdict_of parts).
      rewrite (span_at pre p post E). apply N.leb_le. lia. }
    assert (Hnx : forall c x, 1 <= c <= lenN (cont p) -> nthN (cont p) (c - 1) = Some x ->
              it_next (table_iter pext (bdict_of parts)) (mk_tstate c (lenN pre)) =
              Some (Some x, if lenN (cont p) <? c + 1 then mk_tstate 1 (lenN pre + 1) else mk_tstate (c + 1) (lenN pre))).
    { intros c x Hc Hx. cbn [table_iter it_next]. unfold table_next. cbn [t_part t_current].
      rewrite (span_at pre p post E). cbn [bdict_of bd_parts]. rewrite E at 1. rewrite nthN_mid.
      rewrite Hext. unfold spec_extract. destruct (N.eqb_spec c 0); [lia|]. rewrite Hx.
      rewrite !wrap64_small by (unfold sz64 in *; lia). rewrite <- Hl.
      destruct (lenN (cont p) <? c + 1); reflexivity. }
    induction m as [|m IH]; intros c Hc H1.
    - (* the last element of this part *)
      rewrite N.add_0_r in Hc. subst c.
      destruct (nthN_lt_Some (cont p) (lenN (cont p) - 1) ltac:(lia)) as (x & Hx).
      rewrite (skipn_nthN _ _ _ Hx). replace (lenN (cont p) - 1 + 1) with (lenN (cont p)) by lia.
      rewrite skipn_all2 by (unfold lenN; lia). cbn [map app].
      intros fuel. destruct fuel as [|fuel].
      + eexists. rewrite drain_0. split; [reflexivity|]. rewrite Hhn by lia. reflexivity.
      + rewrite drain_S, Hhn by lia. rewrite (Hnx _ x) by (auto; lia).
        replace (lenN (cont p) <? lenN (cont p) + 1) with true by (symmetry; apply N.ltb_lt; lia).
        destruct (HL fuel) as (st' & Hd & Hn). rewrite Hd. exists st'. split; [reflexivity|]. rewrite Hn. reflexivity.
    - destruct (nthN_lt_Some (cont p) (c - 1) ltac:(lia)) as (x & Hx).
      rewrite (skipn_nthN _ _ _ Hx). replace (c - 1 + 1) with (c + 1 - 1) by lia. cbn [map app].
      intros fuel. destruct fuel as [|fuel].
      + eexists. rewrite drain_0. split; [reflexivity|]. rewrite Hhn by lia. reflexivity.
      + rewrite drain_S, Hhn by lia. rewrite (Hnx _ x) by (auto; lia).
        replace (lenN (cont p) <? c + 1) with false by (symmetry; apply N.ltb_ge; lia).
        destruct (IH (c + 1) ltac:(lia) ltac:(lia) fuel) as (st' & Hd & Hn). rewrite Hd. exists st'.
        split; [reflexivity|]. rewrite Hn. reflexivity.
  Qed.

  Lemma table_run_from : forall post pre, parts = pre ++ post ->
    iter_denotes (table_iter pext (bdict_of parts)) (mk_tstate 1 (lenN pre)) (map Some (concat (map cont post))).
  Proof.
    induction post as [|p post IH]; intros pre E.
    - apply denotes_nil. cbn [table_iter it_has_next]. unfold table_has_next. cbn [t_part bdict_of bd_parts].
      rewrite app_nil_r in E. rewrite <- E. rewrite N.ltb_irrefl. reflexivity.
    - cbn [map concat]. rewrite map_app.
      pose proof parts_ok as Hok. rewrite E in Hok. apply Forall_app in Hok as [_ Hok2].
      inversion Hok2 as [|? ? Hp _]; subst x l. destruct Hp as (Hbne & _ & Hl & _).
      assert (lenN (cont p) <> 0) by (rewrite Hl; destruct (blk p); [congruence|rewrite lenN_cons; lia]).
      apply (table_run_part pre p post _ E) with (m := N.to_nat (lenN (cont p) - 1)) (c := 1); [|lia|lia].
      rewrite <- (lenN_snoc pre p). apply IH. rewrite <- app_assoc. exact E.
  Qed.

  (* extractTable streams exactly extract(1), extract(2), ..., extract(n): every string once, none NULL,
     hasNext false exactly after the n-th *)
  Theorem blocks_table_spec :
    iter_denotes (table_iter pext (bdict_of parts)) table_init (map Some (ids_view parts)).
  Proof. apply (table_run_from parts []). reflexivity. Qed.
End BlocksProofs.

(* ================================================================================ *)
(* The constructor's partition loop                                                  *)
(* ================================================================================ *)
Lemma part_go_nonempty cut : forall rest acc cur, Forall (fun b => b <> []) (part_go cut rest acc cur).
Proof.
  induction rest as [|s rest IH]; intros acc cur; cbn [part_go]; [constructor|].
  destruct (nil_b rest || (cut <? acc + lenN s + 1)); [|apply IH].
  constructor; [destruct cur; discriminate|apply IH].
Qed.

Lemma part_go_concat cut : forall rest acc cur, rest <> [] \/ cur = [] ->
  concat (part_go cut rest acc cur) = cur ++ rest.
Proof.
  induction rest as [|s rest IH]; intros acc cur H; cbn [part_go].
  - destruct H as [H| ->]; [congruence|reflexivity].
  - destruct rest as [|t rest'].
    + cbn [nil_b orb part_go concat]. rewrite app_nil_r. reflexivity.
    + cbn [nil_b orb]. destruct (cut <? acc + lenN s + 1).
      * cbn [concat]. rewrite IH by (right; reflexivity). rewrite <- app_assoc. reflexivity.
      * rewrite IH by (left; discriminate). rewrite <- app_assoc. reflexivity.
Qed.

Lemma part_go_head cut : forall rest acc c cs, rest <> [] ->
  exists b Bt, part_go cut rest acc (c :: cs) = (c :: b) :: Bt.
Proof.
  induction rest as [|s rest IH]; intros acc c cs H; [congruence|]. cbn [part_go].
  destruct rest as [|t rest'].
  - cbn [nil_b orb app]. eauto.
  - cbn [nil_b orb]. destruct (cut <? acc + lenN s + 1); [cbn [app]; eauto|].
    cbn [app]. apply IH. discriminate.
Qed.

Lemma build_go_spec cut : forall rest acc qty sn cur samples starts blocks,
  (sn = true /\ cur = []) \/ (sn = false /\ cur <> []) -> lenN cur <= qty ->
  let Bt := part_go cut rest acc cur in
  build_go cut rest acc qty sn cur samples starts blocks =
  mk_bbuild (samples ++ (if sn then block_firsts Bt else tl (block_firsts Bt)))
            (starts ++ (if sn then starts_from qty Bt else tl (starts_from (qty - lenN cur) Bt)))
            (blocks ++ Bt) (qty + lenN rest).
Proof.
  induction rest as [|s rest IH]; intros acc qty sn cur samples starts blocks Hinv Hq; cbn zeta.
  - cbn [build_go part_go block_firsts flat_map starts_from tl]. ln0.
    destruct sn; rewrite !app_nil_r, N.add_0_r; reflexivity.
  - cbn [build_go part_go]. rewrite lenN_cons.
    destruct rest as [|t rest'].
    + (* last string: flush *)
      cbn [nil_b orb]. rewrite IH by (try (left; split; reflexivity); ln0; lia). cbn zeta.
      cbn [part_go block_firsts flat_map starts_from app tl]. ln0. rewrite !app_nil_r, N.add_0_r.
      destruct Hinv as [[-> ->]|[-> Hc]].
      * cbn [app]. f_equal; rewrite ?app_nil_r, <- ?app_assoc; cbn [app]; try reflexivity; try lia.
      * destruct cur as [|c cs]; [congruence|]. cbn [app tl]. f_equal; rewrite ?app_nil_r, <- ?app_assoc; cbn [app]; try reflexivity; try lia.
    + cbn [nil_b orb]. destruct (cut <? acc + lenN s + 1) eqn:Ecut.
      * (* flush *)
        rewrite IH by (try (left; split; reflexivity); ln0; lia). cbn zeta.
        set (Bt' := part_go cut (t :: rest') 0 []).
        rewrite <- !app_assoc. cbn [app].
        destruct Hinv as [[-> ->]|[-> Hc]].
        -- cbn [app block_firsts flat_map starts_from]. fold (block_firsts Bt').
           change (lenN [s]) with 1. f_equal; rewrite ?app_nil_r, <- ?app_assoc; cbn [app]; try reflexivity; try lia.
        -- destruct cur as [|c cs]; [congruence|]. cbn [app block_firsts flat_map starts_from tl]. fold (block_firsts Bt').
           replace (qty - lenN (c :: cs) + lenN (c :: cs ++ [s])) with (qty + 1) by (rewrite !lenN_cons, lenN_snoc in *; lia). f_equal; rewrite ?app_nil_r, <- ?app_assoc; cbn [app]; try reflexivity; try lia.
      * (* keep accumulating *)
        rewrite IH; [|right; split; [reflexivity|destruct cur; discriminate]|rewrite lenN_snoc; lia]. cbn zeta.
        set (Bt := part_go cut (t :: rest') (acc + lenN s + 1) (cur ++ [s])).
        destruct Hinv as [[-> ->]|[-> Hc]].
        -- cbn [app] in *. destruct (part_go_head cut (t :: rest') (acc + lenN s + 1) s [] ltac:(discriminate)) as (b & Bt' & E).
           subst Bt. rewrite E. cbn [block_firsts flat_map app tl starts_from]. change (lenN [s]) with 1.
           rewrite <- !app_assoc. cbn [app]. replace (qty + 1 - 1) with qty by lia. f_equal; rewrite ?app_nil_r, <- ?app_assoc; cbn [app]; try reflexivity; try lia.
        -- rewrite lenN_snoc. replace (qty + 1 - (lenN cur + 1)) with (qty - lenN cur) by lia. f_equal; rewrite ?app_nil_r, <- ?app_assoc; cbn [app]; try reflexivity; try lia.
Qed.

(* what the constructor leaves in the object: samples = first strings of the blocks, starting
   indexes = running totals, blocks = consecutive non-empty ranges of S *)
Theorem blocks_build_spec cut S :
  let B := blocks_partition cut S in
  blocks_build cut S = mk_bbuild (block_firsts B) (starts_from 0 B) B (lenN S) /\
  concat B = S /\ Forall (fun b => b <> []) B.
Proof.
  cbn zeta. unfold blocks_build, blocks_partition. split; [|split].
  - rewrite build_go_spec by (try (left; split; reflexivity); ln0; lia). reflexivity.
  - rewrite part_go_concat by (right; reflexivity). reflexivity.
  - apply part_go_nonempty.
Qed.

(* ---- the instance the oracle runs: parts answer by the specification ------------------ *)
Lemma range_extract_spec B id : range_extract B id = spec_extract B id.
Proof.
  unfold range_extract, spec_extract. destruct (N.eqb_spec id 0); [reflexivity|]. cbn [orb].
  destruct (N.ltb_spec (lenN B) id); [|reflexivity].
  symmetry. unfold nthN. apply nth_error_None. unfold lenN in *. lia.
Qed.

Lemma spec_parts_ok B : Forall (fun b => b <> []) B ->
  Forall (part_ok spec_locate range_extract (fun b => b) (fun b => b)) B.
Proof.
  intros H. eapply Forall_impl; [|exact H]. cbn beta. intros b Hb. unfold part_ok.
  split; [exact Hb|]. split; [tauto|]. split; [reflexivity|]. split; [reflexivity|]. intros i. apply range_extract_spec.
Qed.

Lemma spec_bdict_eq cut S : spec_bdict cut S = bdict_of (fun b => b) (blocks_partition cut S).
Proof.
  destruct (blocks_build_spec cut S) as (E & Hc & _). cbn zeta in *. unfold spec_bdict, bdict_of. rewrite E. cbn [bb_qty bb_samples bb_starts bb_blocks].
  rewrite map_id, Hc. reflexivity.
Qed.

Theorem model_blocks_spec cut S : S <> [] -> sorted_lt S -> lenN S + 1 < sz64 ->
  (forall q, model_blocks_locate cut S q = Some (spec_locate S q)) /\
  (forall id, id < sz64 -> model_blocks_extract cut S id = Some (spec_extract S id)) /\
  iter_denotes (table_iter range_extract (spec_bdict cut S)) table_init (map Some S).
Proof.
  intros Hne Hs Hlen. destruct (blocks_build_spec cut S) as (_ & Hc & Hb). cbn zeta in *.
  set (B := blocks_partition cut S) in *.
  assert (HBne : B <> []) by (intros E; rewrite E in Hc; cbn in Hc; congruence).
  pose proof (spec_parts_ok B Hb) as Hok.
  assert (Hs' : sorted_lt (concat (map (fun b : list str => b) B))) by (rewrite map_id, Hc; exact Hs).
  assert (Hl1 : lenN (concat (map (fun b : list str => b) B)) < sz64) by (rewrite map_id, Hc; lia).
  assert (Hl2 : lenN (concat (map (fun b : list str => b) B)) + 1 < sz64) by (rewrite map_id, Hc; exact Hlen).
  assert (Hv : ids_view (fun b : list str => b) B = S) by (unfold ids_view; rewrite map_id; exact Hc).
  unfold model_blocks_locate, model_blocks_extract. rewrite spec_bdict_eq. fold B.
  split; [|split].
  - intros q. rewrite (blocks_locate_spec spec_locate range_extract (fun b => b) (fun b => b) B Hok HBne Hs' Hl1 q), Hv. reflexivity.
  - intros id Hid. rewrite (blocks_extract_spec spec_locate range_extract (fun b => b) (fun b => b) B Hok HBne Hs' Hl1 id Hid), Hv. reflexivity.
  - rewrite <- Hv. apply (blocks_table_spec spec_locate range_extract (fun b => b) (fun b => b) B Hok HBne Hs' Hl1 Hl2).
Qed.

(* an object built from an EMPTY input has no parts: v.size() - 1 wraps and locate indexes
   parts[2^64-1] (outside every property's quantifier: valid sets are non-empty) *)
Theorem blocks_locate_empty_oob q : model_blocks_locate 5 [] q = None.
Proof.
  (* no evaluation of nthN at 2^64-1: N.to_nat of that index is never computed *)
  unfold model_blocks_locate, blocks_locate.
  change (bd_samples (spec_bdict 5 [])) with (@nil str).
  change (bd_parts (spec_bdict 5 [])) with (@nil (list str)).
  change (bsbi lex_compare [] q) with (Some (sub_sz 0 1)).
  unfold nthN. destruct (N.to_nat (sub_sz 0 1)); reflexivity.
Qed.
