(* HHTFC (StringDictionaryHHTFC, the LOADED object: Hu-Tucker coded headers, Huffman coded internal strings): exported
   theorems.  Only `exact`, Print Assumptions and Examples. *)
From LibCSD Require Import Base Spec SpecProofs PFCDefs PFCLayout PFCExtractProofs CodesDefs HTFCDefs HTFCProofs
  HHTFCDefs HHTFCProofs.
Local Open Scope N_scope.

(* the boolean checker run by the harness on every real (dumped) object is sound: a certified object has the flat stream
   structure [hhtfc_ok] = [hh_ok (hh_ht d) (hh_hu d) bucketsize S] (headers laid out as coderHT->encodeString produces
   them, decodeHeader over tableHT and coderHU->decodeString over tableHU walk S) *)
Theorem C01_hhtfc_check_sound : forall S d, hhtfc_check S d = true -> hhtfc_ok d S.
Proof. exact hhtfc_check_sound. Qed.
Print Assumptions C01_hhtfc_check_sound.

(* the second checker runs ONLY the bit machine (processChunk + lookup in tableHU) along the internal strings and compares the
   symbols the Huffman table hands out with the front-coded items computed from S (in-bucket lcp < 128); decodeString is not
   run: its correctness is C01_hhtfc_decode_string_item *)
Theorem C01_hhtfc_check2_sound : forall S d, hhtfc_check2 S d = true -> hhtfc_ok d S.
Proof. exact hhtfc_check2_sound. Qed.
Print Assumptions C01_hhtfc_check2_sound.

(* extract / locate of every certified object = the specification (every id: 0, > n, 2^64-1 ...; members and non-members) *)
Theorem C01_hhtfc_extract_spec : forall S d, valid_set S -> hhtfc_check S d = true ->
  forall id, hhtfc_extract d id = Some (spec_extract S id).
Proof. exact hhtfc_extract_spec. Qed.
Print Assumptions C01_hhtfc_extract_spec.

Theorem C02_hhtfc_locate_spec : forall S d, valid_set S -> hhtfc_check S d = true ->
  forall q, nul_free q -> Forall (fun c => c < 256) q -> hhtfc_locate d q = Some (spec_locate S q).
Proof. exact hhtfc_locate_spec. Qed.
Print Assumptions C02_hhtfc_locate_spec.

Theorem C01_hhtfc_extract_spec2 : forall S d, valid_set S -> hhtfc_check2 S d = true ->
  forall id, hhtfc_extract d id = Some (spec_extract S id).
Proof. exact hhtfc_extract_spec2. Qed.
Print Assumptions C01_hhtfc_extract_spec2.

Theorem C02_hhtfc_locate_spec2 : forall S d, valid_set S -> hhtfc_check2 S d = true ->
  forall q, nul_free q -> Forall (fun c => c < 256) q -> hhtfc_locate d q = Some (spec_locate S q).
Proof. exact hhtfc_locate_spec2. Qed.
Print Assumptions C02_hhtfc_locate_spec2.

Theorem C04_hhtfc_locate_prefix_spec2 : forall S d, valid_set S -> hhtfc_check2 S d = true ->
  forall p, nul_free p -> Forall (fun c => c < 256) p ->
  hhtfc_locate_prefix d p = Some (range_of (spec_prefix_ids S p)).
Proof. exact hhtfc_locate_prefix_spec2. Qed.
Print Assumptions C04_hhtfc_locate_prefix_spec2.

(* round trips and memory safety *)
Theorem C01_hhtfc_roundtrip : forall S d, valid_set S -> hhtfc_check S d = true ->
  (forall id, 1 <= id <= lenN S -> exists s, hhtfc_extract d id = Some (Some s) /\ hhtfc_locate d s = Some id) /\
  (forall s, In s S -> exists id, hhtfc_locate d s = Some id /\ hhtfc_extract d id = Some (Some s)).
Proof. exact hhtfc_roundtrip. Qed.
Print Assumptions C01_hhtfc_roundtrip.

Theorem C07_hhtfc_no_oob : forall S d, valid_set S -> hhtfc_check S d = true ->
  (forall id, hhtfc_extract d id <> None) /\
  (forall q, nul_free q -> Forall (fun c => c < 256) q -> hhtfc_locate d q <> None).
Proof. exact hhtfc_no_oob. Qed.
Print Assumptions C07_hhtfc_no_oob.

(* prefix search (locateBoundaryBuckets' masked memcmp on the Hu-Tucker encoded headers, searchPrefix and
   searchDistinctPrefix over the Huffman coded internal strings); the empty pattern included *)
Theorem C04_hhtfc_locate_prefix_spec : forall S d, valid_set S -> hhtfc_check S d = true ->
  forall p, nul_free p -> Forall (fun c => c < 256) p ->
  hhtfc_locate_prefix d p = Some (range_of (spec_prefix_ids S p)).
Proof. exact hhtfc_locate_prefix_spec. Qed.
Print Assumptions C04_hhtfc_locate_prefix_spec.

Theorem C04_hhtfc_locate_prefix_ids : forall S d, valid_set S -> hhtfc_check S d = true ->
  forall p, nul_free p -> Forall (fun c => c < 256) p ->
  exists r, hhtfc_locate_prefix d p = Some r /\ contig_ids (fst r) (snd r) = spec_prefix_ids S p.
Proof. exact hhtfc_locate_prefix_ids. Qed.
Print Assumptions C04_hhtfc_locate_prefix_ids.

(* StatCoder::decodeString over the HUFFMAN table on one front-coded item VByte(l) ++ suf ++ NUL with l < 128, whatever
   way the entries of tableHU cut the symbol stream: HTFCProofs.decode_string_item is stated for an arbitrary table *)
Theorem C01_hhtfc_decode_string_item : forall (d : hhtfc) cap prev l suf bs a A bs' Afull A',
  cap < 2 ^ 32 -> nul_free prev -> l <= lenN prev -> l < 128 -> nul_free suf -> suf <> [] ->
  holds_adv a prev A ->
  reads (hh_hu d) bs A (lenN (((l + 128) :: suf) ++ [0])) bs' Afull -> Afull = (((l + 128) :: suf) ++ [0]) ++ A' ->
  lenN prev + 1 + lenN Afull < cap ->
  exists a', decode_string (hh_hu d) cap bs a = Some (bs', a', l) /\ holds_adv a' (firstN l prev ++ suf) A'.
Proof. exact (fun d => decode_string_item (hh_hu d)). Qed.
Print Assumptions C01_hhtfc_decode_string_item.

(* the defect the faithful model reproduces: in-bucket shared prefix 128 (VByte 00 81) with a 3-bit Huffman code for 0 *)
Theorem C01_hhtfc_lcp128_refuted :
  valid_set_b hhx_t16_S = true /\
  spec_extract hhx_t16_S 2 = Some (repeat 97 128 ++ [98]) /\ hhtfc_extract hhx_t16_d 2 = None /\
  hhtfc_check hhx_t16_S hhx_t16_d = false /\ hhtfc_layout_chk hhx_t16_S hhx_t16_d = true.
Proof. exact hhtfc_lcp128_refuted. Qed.
Print Assumptions C01_hhtfc_lcp128_refuted.

(* ---- Examples: the hypotheses are satisfiable on the object the REAL constructor + save + load produced for
   S = {alabama, alaska, arizona, arkansas, california, colorado, connecticut, delaware}, bucketsize 3 *)
Example hhx_checked :
  hhtfc_check hhx_usa_S hhx_usa_d = true /\ valid_set_b hhx_usa_S = true /\ hhtfc_layout_chk hhx_usa_S hhx_usa_d = true.
Proof. exact hhx_usa_checked. Qed.

Example hhx_check_sound : hhtfc_ok hhx_usa_d hhx_usa_S.
Proof. exact (C01_hhtfc_check_sound hhx_usa_S hhx_usa_d (proj1 hhx_usa_checked)). Qed.

Example hhx_extract : forall id, hhtfc_extract hhx_usa_d id = Some (spec_extract hhx_usa_S id).
Proof. exact (C01_hhtfc_extract_spec hhx_usa_S hhx_usa_d hhx_usa_valid (proj1 hhx_usa_checked)). Qed.

Example hhx_locate : hhtfc_locate hhx_usa_d [97; 114; 107; 97; 110; 115; 97; 115] = Some 4 /\
                     hhtfc_locate hhx_usa_d [97; 114; 107] = Some 0.
Proof.
  assert (N1 : nul_free [97; 114; 107; 97; 110; 115; 97; 115]) by (repeat constructor; discriminate).
  assert (B1 : Forall (fun c => c < 256) [97; 114; 107; 97; 110; 115; 97; 115]) by (repeat constructor).
  assert (N2 : nul_free [97; 114; 107]) by (repeat constructor; discriminate).
  assert (B2 : Forall (fun c => c < 256) [97; 114; 107]) by (repeat constructor).
  split.
  - rewrite (C02_hhtfc_locate_spec hhx_usa_S hhx_usa_d hhx_usa_valid (proj1 hhx_usa_checked) _ N1 B1). reflexivity.
  - rewrite (C02_hhtfc_locate_spec hhx_usa_S hhx_usa_d hhx_usa_valid (proj1 hhx_usa_checked) _ N2 B2). reflexivity.
Qed.

Example hhx_roundtrip : exists s, hhtfc_extract hhx_usa_d 5 = Some (Some s) /\ hhtfc_locate hhx_usa_d s = Some 5.
Proof.
  apply (proj1 (C01_hhtfc_roundtrip hhx_usa_S hhx_usa_d hhx_usa_valid (proj1 hhx_usa_checked))).
  vm_compute. split; discriminate.
Qed.

Example hhx_no_oob : forall id, hhtfc_extract hhx_usa_d id <> None.
Proof. exact (proj1 (C07_hhtfc_no_oob hhx_usa_S hhx_usa_d hhx_usa_valid (proj1 hhx_usa_checked))). Qed.

Example hhx_prefix : hhtfc_locate_prefix hhx_usa_d [97] = Some (1, 4) /\ hhtfc_locate_prefix hhx_usa_d [98] = Some (0, 0) /\
                     hhtfc_locate_prefix hhx_usa_d [] = Some (1, 8).
Proof.
  assert (N1 : nul_free [97]) by (repeat constructor; discriminate).
  assert (B1 : Forall (fun c => c < 256) [97]) by (repeat constructor).
  assert (N2 : nul_free [98]) by (repeat constructor; discriminate).
  assert (B2 : Forall (fun c => c < 256) [98]) by (repeat constructor).
  split; [|split].
  - rewrite (C04_hhtfc_locate_prefix_spec hhx_usa_S hhx_usa_d hhx_usa_valid (proj1 hhx_usa_checked) _ N1 B1). reflexivity.
  - rewrite (C04_hhtfc_locate_prefix_spec hhx_usa_S hhx_usa_d hhx_usa_valid (proj1 hhx_usa_checked) _ N2 B2). reflexivity.
  - rewrite (C04_hhtfc_locate_prefix_spec hhx_usa_S hhx_usa_d hhx_usa_valid (proj1 hhx_usa_checked) [] (Forall_nil _) (Forall_nil _)).
    reflexivity.
Qed.

Example hhx_prefix_ids : exists r, hhtfc_locate_prefix hhx_usa_d [99; 111] = Some r /\ contig_ids (fst r) (snd r) = [6; 7].
Proof.
  assert (N1 : nul_free [99; 111]) by (repeat constructor; discriminate).
  assert (B1 : Forall (fun c => c < 256) [99; 111]) by (repeat constructor).
  exact (C04_hhtfc_locate_prefix_ids hhx_usa_S hhx_usa_d hhx_usa_valid (proj1 hhx_usa_checked) _ N1 B1).
Qed.

(* the model computes: answers by vm_compute on the dumped object *)
Example hhx_compute :
  hhtfc_extract hhx_usa_d 7 = Some (Some [99; 111; 110; 110; 101; 99; 116; 105; 99; 117; 116]) /\
  hhtfc_locate hhx_usa_d [99; 111; 108; 111; 114; 97; 100; 111] = Some 6 /\
  hhtfc_locate_prefix hhx_usa_d [97; 114] = Some (3, 4) /\ hhtfc_extract hhx_usa_d 9 = Some None.
Proof. vm_compute. auto. Qed.

(* C01_hhtfc_decode_string_item: its hypotheses hold on the object - the second string of bucket 1 (alaska after
   alabama, lcp 3), Huffman coded, read from the state decodeHeader(1) + resetScan(1) leave *)
Example hhx_item : exists a',
  decode_string (hh_hu hhx_usa_d) (str_cap (hh_ht hhx_usa_d)) (fst hhx_st1) (snd hhx_st1) = Some (fst hhx_walk, a', 3) /\
  holds_adv a' (firstN 3 [97; 108; 97; 98; 97; 109; 97] ++ [115; 107; 97]) (skipN 5 (snd hhx_walk)).
Proof.
  destruct hhx_item_hyps as (H1 & H2 & H3 & H4).
  apply (C01_hhtfc_decode_string_item hhx_usa_d (str_cap (hh_ht hhx_usa_d)) [97; 108; 97; 98; 97; 109; 97] 3 [115; 107; 97]
           (fst hhx_st1) (snd hhx_st1) [] (fst hhx_walk) (snd hhx_walk) (skipN 5 (snd hhx_walk))); try assumption.
  all: try (repeat constructor; discriminate).
  all: try (vm_compute; reflexivity).
  all: try (vm_compute; discriminate).
Qed.

(* the executable specification of the CONSTRUCTOR's layout (HHTFCDefs.hhtfc_layout: headers encoded with the Hu-Tucker
   table, internal strings with the Huffman table, the three trailing bytes) reproduces textStrings / blStrings of the
   dumped objects, also of the one the checker rejects *)
Example hhx_layout_reproduced : hhtfc_layout_chk hhx_usa_S hhx_usa_d = true /\ hhtfc_layout_chk hhx_t16_S hhx_t16_d = true.
Proof. split; [exact (proj2 (proj2 hhx_usa_checked))|exact (proj2 (proj2 (proj2 (proj2 hhtfc_lcp128_refuted))))]. Qed.

(* the second checker certifies the same object (and rejects the lcp-128 witness) *)
Example hhx_checked_2 : hhtfc_check2 hhx_usa_S hhx_usa_d = true /\ hhtfc_check2 hhx_t16_S hhx_t16_d = false.
Proof. exact hhx_checked2. Qed.

Example hhx_check2_sound : hhtfc_ok hhx_usa_d hhx_usa_S.
Proof. exact (C01_hhtfc_check2_sound hhx_usa_S hhx_usa_d (proj1 hhx_checked2)). Qed.

Example hhx_extract2 : forall id, hhtfc_extract hhx_usa_d id = Some (spec_extract hhx_usa_S id).
Proof. exact (C01_hhtfc_extract_spec2 hhx_usa_S hhx_usa_d hhx_usa_valid (proj1 hhx_checked2)). Qed.

Example hhx_locate2 : hhtfc_locate hhx_usa_d [100; 101; 108; 97; 119; 97; 114; 101] = Some 8.
Proof.
  assert (N1 : nul_free [100; 101; 108; 97; 119; 97; 114; 101]) by (repeat constructor; discriminate).
  assert (B1 : Forall (fun c => c < 256) [100; 101; 108; 97; 119; 97; 114; 101]) by (repeat constructor).
  rewrite (C02_hhtfc_locate_spec2 hhx_usa_S hhx_usa_d hhx_usa_valid (proj1 hhx_checked2) _ N1 B1). reflexivity.
Qed.

Example hhx_prefix2 : hhtfc_locate_prefix hhx_usa_d [99] = Some (5, 7).
Proof.
  assert (N1 : nul_free [99]) by (repeat constructor; discriminate).
  assert (B1 : Forall (fun c => c < 256) [99]) by (repeat constructor).
  rewrite (C04_hhtfc_locate_prefix_spec2 hhx_usa_S hhx_usa_d hhx_usa_valid (proj1 hhx_checked2) _ N1 B1). reflexivity.
Qed.
