(* Exported theorems of the hashhf component (StringDictionaryHASHHF, the LOADED object in the three hash
   representations of Hash::load).  ONLY `Theorem ... exact ...` + `Print Assumptions` + Examples on a dictionary
   the REAL code built (constructor + save + load, dumped by hhf_build: S = {alabama, alaska, arizona, arkansas,
   california}, overhead 10; hash values = the repo's bitwisehash / step_value of the encoded strings). *)
From LibCSD Require Import Base Spec PFCLayout HashDefs HashDictDefs HashDictProofs HashHFDefs HashHFProofs.
From Coq Require Import Permutation Sorted.
Local Open Scope N_scope.

(* the verified checker: a certified object is well formed (the table is the double-hashing table of the dumped hash
   values, every occupied cell's offset points at encodeString(key) and decodes - by the model's own decoder - to that key) *)
Theorem C01_hashhf_check_sound ks d : hashhf_check ks d = true -> exists t ot, hashhf_wf0 d ks t ot.
Proof. exact (hashhf_check_sound ks d). Qed.
Print Assumptions C01_hashhf_check_sound.

(* every certified object IS the abstract dictionary over an ID-ordered view T of the key set, whichever option it is loaded with *)
Theorem C01_hashhf_spec ks d : hashhf_check ks d = true ->
  exists T, Permutation T (map hk_key ks) /\ NoDup T /\ lenN T = lenN ks /\
    forall opt, 1 <= opt <= 3 ->
    exists d', hashhf_load d opt = Some d' /\
      (forall id, hashhf_extract d' id = Some (spec_extract T id)) /\
      (forall hk, In hk ks -> hashhf_locate d' hk = Some (spec_locate T (hk_key hk))) /\
      (forall hq, hhf_query_ok d' hq -> ~ In (hk_key hq) (map hk_key ks) -> hashhf_locate d' hq = Some 0).
Proof. exact (hashhf_spec ks d). Qed.
Print Assumptions C01_hashhf_spec.

(* IDs are a bijection [1,n] <-> S; extract of an ID is the key of its cell; non-members 0; IDs outside [1,n] NULL *)
Theorem C01_hashhf_locate_spec ks d opt d' : hashhf_check ks d = true -> 1 <= opt <= 3 -> hashhf_load d opt = Some d' ->
  (forall hk, In hk ks ->
     exists id, hashhf_locate d' hk = Some id /\ 1 <= id <= lenN ks /\ hashhf_extract d' id = Some (Some (hk_key hk))) /\
  (forall hq, hh_key_ok (hk_key hq) -> hk_h1 hq < lenN (hr_bits (hh_repr d')) ->
     ~ In (hk_key hq) (map hk_key ks) -> hashhf_locate d' hq = Some 0) /\
  (forall id, 1 <= id <= lenN ks ->
     exists hk, In hk ks /\ hashhf_extract d' id = Some (Some (hk_key hk)) /\ hashhf_locate d' hk = Some id) /\
  (forall hk hk' id, In hk ks -> In hk' ks -> hashhf_locate d' hk = Some id -> hashhf_locate d' hk' = Some id ->
     hk_key hk = hk_key hk') /\
  (forall id, ~ (1 <= id <= lenN ks) -> hashhf_extract d' id = Some None).
Proof. exact (hashhf_locate_spec ks d opt d'). Qed.
Print Assumptions C01_hashhf_locate_spec.

Theorem C01_hashhf_roundtrip ks d opt d' : hashhf_check ks d = true -> 1 <= opt <= 3 -> hashhf_load d opt = Some d' ->
  (forall hk, In hk ks -> exists id, hashhf_locate d' hk = Some id /\ hashhf_extract d' id = Some (Some (hk_key hk))) /\
  (forall id, 1 <= id <= lenN ks ->
     exists hk, In hk ks /\ hashhf_extract d' id = Some (Some (hk_key hk)) /\ hashhf_locate d' hk = Some id).
Proof. exact (hashhf_roundtrip ks d opt d'). Qed.
Print Assumptions C01_hashhf_roundtrip.

Theorem C02_hashhf_absent ks d opt d' hq : hashhf_check ks d = true -> 1 <= opt <= 3 -> hashhf_load d opt = Some d' ->
  nul_free (hk_key hq) -> Forall (fun b => b < 256) (hk_key hq) -> lenN (hk_key hq) + 1 < 2 ^ 32 ->
  hk_h1 hq < lenN (hr_bits (hh_repr d')) -> ~ In (hk_key hq) (map hk_key ks) -> hashhf_locate d' hq = Some 0.
Proof. exact (hashhf_absent ks d opt d' hq). Qed.
Print Assumptions C02_hashhf_absent.

Theorem C07_hashhf_no_oob ks d opt d' : hashhf_check ks d = true -> 1 <= opt <= 3 -> hashhf_load d opt = Some d' ->
  (forall id, hashhf_extract d' id <> None) /\
  (forall hq, nul_free (hk_key hq) -> Forall (fun b => b < 256) (hk_key hq) -> lenN (hk_key hq) + 1 < 2 ^ 32 ->
              hk_h1 hq < lenN (hr_bits (hh_repr d')) -> hashhf_locate d' hq <> None).
Proof. exact (hashhf_no_oob ks d opt d'). Qed.
Print Assumptions C07_hashhf_no_oob.

Theorem C12_hashhf_load_options_agree ks d : hashhf_check ks d = true ->
  exists d1 d2 d3, hashhf_load d 1 = Some d1 /\ hashhf_load d 2 = Some d2 /\ hashhf_load d 3 = Some d3 /\
    (forall id, hashhf_extract d1 id = hashhf_extract d2 id /\ hashhf_extract d2 id = hashhf_extract d3 id) /\
    (forall hk, In hk ks -> hashhf_locate d1 hk = hashhf_locate d2 hk /\ hashhf_locate d2 hk = hashhf_locate d3 hk).
Proof. exact (hashhf_load_options_agree ks d). Qed.
Print Assumptions C12_hashhf_load_options_agree.

(* one call of Hash::scmp on the stored encoding of a key: 0 iff the keys are equal, and no byte outside textStrings is read *)
Theorem C07_hashhf_scmp_cell cws text o k q enck encq :
  hh_code_ok cws -> Forall (fun v => v < 256) text -> nul_free k -> nul_free q ->
  hh_encode cws (k ++ [0]) = Some enck -> hh_encode cws (q ++ [0]) = Some encq ->
  o <= lenN text -> (exists rest, PFCDefs.skipN o text = enck ++ rest) ->
  hh_scmp text o encq = Some (hbytes_eqb k q).
Proof. exact (hh_scmp_cell cws text o k q enck encq). Qed.
Print Assumptions C07_hashhf_scmp_cell.

(* ---- Examples: the hypotheses are satisfiable on an object the real code produced ---- *)
Definition hx_usa_ks : list hkey := [mkHKey [97; 108; 97; 98; 97; 109; 97] 4 1; mkHKey [97; 108; 97; 115; 107; 97] 0 2; mkHKey [97; 114; 105; 122; 111; 110; 97] 4 1; mkHKey [97; 114; 107; 97; 110; 115; 97; 115] 0 1; mkHKey [99; 97; 108; 105; 102; 111; 114; 110; 105; 97] 1 1].
Definition hx_usa_d : hashhf :=
  mk_hashhf 5 11 10
    [255; 111; 248; 231; 255; 64; 255; 126; 188; 189; 60; 255; 208; 255; 126; 127; 243; 227; 254; 61; 225; 255; 110; 188; 93; 59; 249; 235; 255; 64; 255; 111; 242; 127; 143; 254; 128; 0; 0; 0]
    [(61, 6); (0, 9); (1, 9); (2, 9); (3, 9); (4, 9); (5, 9); (6, 9); (7, 9); (8, 9); (9, 9); (10, 9); (11, 9); (12, 9); (13, 9); (14, 9); (15, 9); (16, 9); (17, 9); (18, 9); (19, 9); (20, 9); (21, 9); (22, 9); (23, 9); (24, 9); (25, 9); (26, 9); (27, 9); (28, 9); (29, 9); (30, 9); (31, 9); (32, 9); (33, 9); (17, 8); (18, 8); (19, 8); (20, 8); (21, 8); (22, 8); (23, 8); (24, 8); (25, 8); (26, 8); (27, 8); (28, 8); (29, 8); (30, 8); (31, 8); (32, 8); (33, 8); (34, 8); (35, 8); (36, 8); (37, 8); (38, 8); (39, 8); (40, 8); (41, 8); (42, 8); (43, 8); (44, 8); (45, 8); (46, 8); (47, 8); (48, 8); (49, 8); (50, 8); (51, 8); (52, 8); (53, 8); (54, 8); (55, 8); (56, 8); (57, 8); (58, 8); (59, 8); (60, 8); (61, 8); (62, 8); (63, 8); (64, 8); (65, 8); (66, 8); (67, 8); (68, 8); (69, 8); (70, 8); (71, 8); (72, 8); (73, 8); (74, 8); (75, 8); (76, 8); (77, 8); (78, 8); (31, 5); (228, 8); (225, 8); (82, 8); (83, 8); (226, 8); (85, 8); (86, 8); (117, 7); (88, 8); (115, 7); (118, 7); (227, 8); (121, 7); (116, 7); (94, 8); (95, 8); (119, 7); (120, 7); (98, 8); (99, 8); (100, 8); (101, 8); (102, 8); (103, 8); (229, 8); (105, 8); (106, 8); (107, 8); (108, 8); (109, 8); (110, 8); (111, 8); (112, 8); (113, 8); (114, 8); (115, 8); (116, 8); (117, 8); (118, 8); (119, 8); (120, 8); (121, 8); (122, 8); (123, 8); (124, 8); (125, 8); (126, 8); (127, 8); (128, 8); (129, 8); (130, 8); (131, 8); (132, 8); (133, 8); (134, 8); (135, 8); (136, 8); (137, 8); (138, 8); (139, 8); (140, 8); (141, 8); (142, 8); (143, 8); (144, 8); (145, 8); (146, 8); (147, 8); (148, 8); (149, 8); (150, 8); (151, 8); (152, 8); (153, 8); (154, 8); (155, 8); (156, 8); (157, 8); (158, 8); (159, 8); (160, 8); (161, 8); (162, 8); (163, 8); (164, 8); (165, 8); (166, 8); (167, 8); (168, 8); (169, 8); (170, 8); (171, 8); (172, 8); (173, 8); (174, 8); (175, 8); (176, 8); (177, 8); (178, 8); (179, 8); (180, 8); (181, 8); (182, 8); (183, 8); (184, 8); (185, 8); (186, 8); (187, 8); (188, 8); (189, 8); (190, 8); (191, 8); (192, 8); (193, 8); (194, 8); (195, 8); (196, 8); (197, 8); (198, 8); (199, 8); (200, 8); (201, 8); (202, 8); (203, 8); (204, 8); (205, 8); (206, 8); (207, 8); (208, 8); (209, 8); (210, 8); (211, 8); (212, 8); (213, 8); (214, 8); (215, 8); (216, 8); (217, 8); (218, 8); (219, 8); (220, 8); (221, 8); (222, 8); (104, 8); (97, 8); (96, 8); (93, 8); (92, 8); (91, 8); (90, 8); (89, 8); (87, 8); (84, 8); (81, 8); (80, 8); (223, 8); (79, 8); (224, 8)]
    16 [0; 44; 99; 97; 46; 102; 111; 43; 107; 97; 45; 111; 110; 46; 105; 122; 43; 105; 97; 45; 108; 105; 45; 114; 110; 45; 110; 115; 16; 0; 44; 97; 109; 44; 97; 98; 43; 97; 108; 43; 97; 114; 43; 97; 115; 32; 97; 0]
    [(57855, 1); (58089, 4); (59391, 7); (59879, 10); (60363, 13); (60415, 16); (60887, 19); (61415, 22); (62435, 25); (62479, 28); (63367, 28); (65311, 30); (65319, 33); (65391, 36); (65406, 39); (65422, 42); (65423, 42); (65440, 45); (65441, 45)]
    [62479; 63367; 65440; 65441]
    []
    (RDh (mkFT [true; true; true; true; true] [0; 6; 13; 20; 30])).


Example hx_usa_checked : hashhf_check hx_usa_ks hx_usa_d = true.
Proof. vm_compute. reflexivity. Qed.

Example hx_check_sound : exists t ot, hashhf_wf0 hx_usa_d hx_usa_ks t ot.
Proof. exact (C01_hashhf_check_sound _ _ hx_usa_checked). Qed.

(* the ID order of this object: alaska, arizona, arkansas, california, alabama (cells 0..4) *)
Example hx_compute :
  map (hashhf_extract hx_usa_d) [0; 1; 2; 3; 4; 5; 6] =
    [Some None; Some (Some [97; 108; 97; 115; 107; 97]); Some (Some [97; 114; 105; 122; 111; 110; 97]);
     Some (Some [97; 114; 107; 97; 110; 115; 97; 115]); Some (Some [99; 97; 108; 105; 102; 111; 114; 110; 105; 97]);
     Some (Some [97; 108; 97; 98; 97; 109; 97]); Some None] /\
  map (hashhf_locate hx_usa_d) hx_usa_ks = [Some 5; Some 1; Some 2; Some 3; Some 4] /\
  hashhf_locate hx_usa_d (mkHKey [97; 108; 97] 3 2) = Some 0 /\
  (forall opt, In opt [2; 3] -> exists d', hashhf_load hx_usa_d opt = Some d' /\
     map (hashhf_locate d') hx_usa_ks = [Some 5; Some 1; Some 2; Some 3; Some 4] /\
     map (hashhf_extract d') [1; 5] = [Some (Some [97; 108; 97; 115; 107; 97]); Some (Some [97; 108; 97; 98; 97; 109; 97])]).
Proof.
  split; [vm_compute; reflexivity|]. split; [vm_compute; reflexivity|]. split; [vm_compute; reflexivity|].
  intros opt [<-|[<-|[]]]; eexists; (split; [vm_compute; reflexivity|]); split; vm_compute; reflexivity.
Qed.

Example hx_spec : exists T, Permutation T (map hk_key hx_usa_ks) /\ NoDup T /\ lenN T = 5 /\
  forall opt, 1 <= opt <= 3 -> exists d', hashhf_load hx_usa_d opt = Some d' /\
    (forall id, hashhf_extract d' id = Some (spec_extract T id)) /\
    (forall hk, In hk hx_usa_ks -> hashhf_locate d' hk = Some (spec_locate T (hk_key hk))) /\
    (forall hq, hhf_query_ok d' hq -> ~ In (hk_key hq) (map hk_key hx_usa_ks) -> hashhf_locate d' hq = Some 0).
Proof. exact (C01_hashhf_spec _ _ hx_usa_checked). Qed.

Example hx_loaded2 : exists d', hashhf_load hx_usa_d 2 = Some d'.
Proof. eexists. vm_compute. reflexivity. Qed.

Example hx_locate_spec : forall d', hashhf_load hx_usa_d 2 = Some d' ->
  forall hk, In hk hx_usa_ks ->
    exists id, hashhf_locate d' hk = Some id /\ 1 <= id <= 5 /\ hashhf_extract d' id = Some (Some (hk_key hk)).
Proof.
  intros d' El. destruct (C01_hashhf_locate_spec hx_usa_ks hx_usa_d 2 d' hx_usa_checked ltac:(lia) El) as (H & _). exact H.
Qed.

Example hx_roundtrip : forall d', hashhf_load hx_usa_d 3 = Some d' ->
  forall id, 1 <= id <= 5 ->
    exists hk, In hk hx_usa_ks /\ hashhf_extract d' id = Some (Some (hk_key hk)) /\ hashhf_locate d' hk = Some id.
Proof.
  intros d' El. destruct (C01_hashhf_roundtrip hx_usa_ks hx_usa_d 3 d' hx_usa_checked ltac:(lia) El) as (_ & H). exact H.
Qed.

(* "ala" (a proper prefix of two members) with the hash values the real code computes for its encoding: 3, 2 *)
Example hx_absent : forall d', hashhf_load hx_usa_d 1 = Some d' -> hashhf_locate d' (mkHKey [97; 108; 97] 3 2) = Some 0.
Proof.
  intros d' El. apply (C02_hashhf_absent hx_usa_ks hx_usa_d 1 d' _ hx_usa_checked ltac:(lia) El); cbn [hk_key hk_h1].
  - repeat constructor; discriminate.
  - repeat constructor.
  - vm_compute. reflexivity.
  - vm_compute in El. inversion El; subst. vm_compute. reflexivity.
  - vm_compute. intros H. repeat (destruct H as [H|H]; [discriminate|]). exact H.
Qed.

Example hx_no_oob : forall d', hashhf_load hx_usa_d 3 = Some d' -> forall id, hashhf_extract d' id <> None.
Proof. intros d' El. exact (proj1 (C07_hashhf_no_oob hx_usa_ks hx_usa_d 3 d' hx_usa_checked ltac:(lia) El)). Qed.

Example hx_options : exists d1 d2 d3, hashhf_load hx_usa_d 1 = Some d1 /\ hashhf_load hx_usa_d 2 = Some d2 /\ hashhf_load hx_usa_d 3 = Some d3 /\
    (forall id, hashhf_extract d1 id = hashhf_extract d2 id /\ hashhf_extract d2 id = hashhf_extract d3 id) /\
    (forall hk, In hk hx_usa_ks -> hashhf_locate d1 hk = hashhf_locate d2 hk /\ hashhf_locate d2 hk = hashhf_locate d3 hk).
Proof. exact (C12_hashhf_load_options_agree _ _ hx_usa_checked). Qed.

(* scmp of the encoding of "alaska" against the stored encoding of "alabama" (offset 30): differs inside the stored bytes *)
Example hx_scmp : hh_scmp (hh_text hx_usa_d) 30 [255; 111; 248; 231; 255; 64] = Some false /\
                  hh_encode (hh_cw hx_usa_d) ([97; 108; 97; 115; 107; 97] ++ [0]) = Some [255; 111; 248; 231; 255; 64].
Proof. split; vm_compute; reflexivity. Qed.

(* ---- a GENUINE DEFECT, as a theorem about the faithful model: extractTable scans every string with
   `remain = maxlength` (the plain-text bound) where extract uses `maxcomplength + 4`; processChunk then zero-pads the
   last 16-bit chunk instead of loading the bytes that follow the string's encoding and indexes an entry of the chunk
   table that was never populated.  Witness: the object the real code builds for S = {"aaab", "aaba"} (overhead 0):
   certified, extract(1), extract(2) answer, extractTable does not (real code: SEGV in DecodingTable::getSubstring). *)
Definition hx_tab_ks : list hkey := [mkHKey [97; 97; 97; 98] 2 1; mkHKey [97; 97; 98; 97] 1 1].
Definition hx_tab_d : hashhf :=
  mk_hashhf 2 5 4
    [255; 255; 159; 253; 255; 255; 254; 125; 0; 0; 0]
    [(125, 7); (0, 9); (1, 9); (2, 9); (3, 9); (4, 9); (5, 9); (6, 9); (7, 9); (8, 9); (9, 9); (5, 8); (6, 8); (7, 8); (8, 8); (9, 8); (10, 8); (11, 8); (12, 8); (13, 8); (14, 8); (15, 8); (16, 8); (17, 8); (18, 8); (19, 8); (20, 8); (21, 8); (22, 8); (23, 8); (24, 8); (25, 8); (26, 8); (27, 8); (28, 8); (29, 8); (30, 8); (31, 8); (32, 8); (33, 8); (34, 8); (35, 8); (36, 8); (37, 8); (38, 8); (39, 8); (40, 8); (41, 8); (42, 8); (43, 8); (44, 8); (45, 8); (46, 8); (47, 8); (48, 8); (49, 8); (50, 8); (51, 8); (52, 8); (53, 8); (54, 8); (55, 8); (56, 8); (57, 8); (58, 8); (59, 8); (60, 8); (61, 8); (62, 8); (63, 8); (64, 8); (65, 8); (66, 8); (67, 8); (68, 8); (69, 8); (70, 8); (71, 8); (72, 8); (73, 8); (74, 8); (75, 8); (76, 8); (77, 8); (78, 8); (79, 8); (80, 8); (81, 8); (82, 8); (83, 8); (84, 8); (85, 8); (86, 8); (87, 8); (88, 8); (89, 8); (90, 8); (63, 6); (124, 7); (93, 8); (94, 8); (95, 8); (96, 8); (97, 8); (98, 8); (99, 8); (100, 8); (101, 8); (102, 8); (103, 8); (104, 8); (105, 8); (106, 8); (107, 8); (108, 8); (109, 8); (110, 8); (111, 8); (112, 8); (113, 8); (114, 8); (115, 8); (116, 8); (117, 8); (118, 8); (119, 8); (120, 8); (121, 8); (122, 8); (123, 8); (124, 8); (125, 8); (126, 8); (127, 8); (128, 8); (129, 8); (130, 8); (131, 8); (132, 8); (133, 8); (134, 8); (135, 8); (136, 8); (137, 8); (138, 8); (139, 8); (140, 8); (141, 8); (142, 8); (143, 8); (144, 8); (145, 8); (146, 8); (147, 8); (148, 8); (149, 8); (150, 8); (151, 8); (152, 8); (153, 8); (154, 8); (155, 8); (156, 8); (157, 8); (158, 8); (159, 8); (160, 8); (161, 8); (162, 8); (163, 8); (164, 8); (165, 8); (166, 8); (167, 8); (168, 8); (169, 8); (170, 8); (171, 8); (172, 8); (173, 8); (174, 8); (175, 8); (176, 8); (177, 8); (178, 8); (179, 8); (180, 8); (181, 8); (182, 8); (183, 8); (184, 8); (185, 8); (186, 8); (187, 8); (188, 8); (189, 8); (190, 8); (191, 8); (192, 8); (193, 8); (194, 8); (195, 8); (196, 8); (197, 8); (198, 8); (199, 8); (200, 8); (201, 8); (202, 8); (203, 8); (204, 8); (205, 8); (206, 8); (207, 8); (208, 8); (209, 8); (210, 8); (211, 8); (212, 8); (213, 8); (214, 8); (215, 8); (216, 8); (217, 8); (218, 8); (219, 8); (220, 8); (221, 8); (222, 8); (223, 8); (224, 8); (225, 8); (226, 8); (227, 8); (228, 8); (229, 8); (230, 8); (231, 8); (232, 8); (233, 8); (234, 8); (235, 8); (236, 8); (237, 8); (238, 8); (239, 8); (240, 8); (241, 8); (242, 8); (243, 8); (244, 8); (245, 8); (92, 8); (246, 8); (91, 8); (247, 8)]
    16 [0; 44; 98; 97; 16; 0; 44; 97; 98; 43; 97; 97]
    [(63999, 1); (64000, 4); (64511, 4); (65511, 6); (65535, 9)]
    [64000; 64511]
    []
    (RDh (mkFT [false; true; true] [0; 0; 4])).


Theorem C13_hashhf_table_refuted : exists ks d,
  hashhf_check ks d = true /\
  hashhf_extract d 1 = Some (Some [97; 97; 98; 97]) /\ hashhf_extract d 2 = Some (Some [97; 97; 97; 98]) /\
  hashhf_table d = None.
Proof. exists hx_tab_ks, hx_tab_d. repeat split; vm_compute; reflexivity. Qed.
Print Assumptions C13_hashhf_table_refuted.

(* on the first example object the table is what extract enumerates *)
Example hx_table : hashhf_table hx_usa_d = Some (map (fun id => match hashhf_extract hx_usa_d id with Some r => r | None => None end) [1; 2; 3; 4; 5]).
Proof. vm_compute. reflexivity. Qed.
