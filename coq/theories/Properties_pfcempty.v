(* C04 — prefix search on EVERY pattern (the empty one included): PFC byte-exact model and RPFC model.
   Only `exact`, Print Assumptions and Examples. *)
From LibCSD Require Import Base VByteDefs Spec SpecProofs PFCDefs PFCLayout PFCBuildProofs PFCExtractProofs
  LexLemmas PFCLocateProofs PFCTheorems PFCPrefixProofs PFCPrefixEmpty RPFCDefs RPFCProofs RPFCPrefixEmpty.
Local Open Scope N_scope.

(* ---------- PFC: the statements of Properties_pfcprefix.v without [p <> []] ---------- *)
Theorem C04_pfc_locate_prefix_every_pattern : forall d b S p, layout_ok d b S -> 2 <= b -> pfc_input S ->
  nul_free p -> lenN p < 2 ^ 32 ->
  pfc_locate_prefix d p = Some (range_of (spec_prefix_ids S p)).
Proof. exact pfc_locate_prefix_all. Qed.
Print Assumptions C04_pfc_locate_prefix_every_pattern.

Theorem C04_pfc_locate_prefix_ids_every_pattern : forall d b S p, layout_ok d b S -> 2 <= b -> pfc_input S ->
  nul_free p -> lenN p < 2 ^ 32 ->
  exists r, pfc_locate_prefix d p = Some r /\ contig_ids (fst r) (snd r) = spec_prefix_ids S p.
Proof. exact pfc_locate_prefix_ids_all. Qed.
Print Assumptions C04_pfc_locate_prefix_ids_every_pattern.

Theorem C04_pfc_extract_prefix_every_pattern : forall d b S p, layout_ok d b S -> 2 <= b -> pfc_input S ->
  nul_free p -> lenN p < 2 ^ 32 ->
  pfc_extract_prefix d p = Some (match spec_prefix_strs S p with [] => None | l => Some l end).
Proof. exact pfc_extract_prefix_all. Qed.
Print Assumptions C04_pfc_extract_prefix_every_pattern.

Theorem C04_pfc_locate_prefix_built_every_pattern : forall S b0 p, pfc_input S -> nul_free p -> lenN p < 2 ^ 32 ->
  pfc_locate_prefix (pfc_build b0 S) p = Some (range_of (spec_prefix_ids S p)).
Proof. exact pfc_locate_prefix_all_built. Qed.
Print Assumptions C04_pfc_locate_prefix_built_every_pattern.

Theorem C04_pfc_locate_prefix_ids_built_every_pattern : forall S b0 p, pfc_input S -> nul_free p -> lenN p < 2 ^ 32 ->
  exists r, pfc_locate_prefix (pfc_build b0 S) p = Some r /\ contig_ids (fst r) (snd r) = spec_prefix_ids S p.
Proof. exact pfc_locate_prefix_ids_all_built. Qed.
Print Assumptions C04_pfc_locate_prefix_ids_built_every_pattern.

Theorem C04_pfc_extract_prefix_built_every_pattern : forall S b0 p, pfc_input S -> nul_free p -> lenN p < 2 ^ 32 ->
  pfc_extract_prefix (pfc_build b0 S) p = Some (match spec_prefix_strs S p with [] => None | l => Some l end).
Proof. exact pfc_extract_prefix_all_built. Qed.
Print Assumptions C04_pfc_extract_prefix_built_every_pattern.

(* ---------- PFC: the empty pattern ---------- *)
Theorem C04_pfc_locate_prefix_empty : forall d b S, layout_ok d b S -> 2 <= b -> pfc_input S ->
  pfc_locate_prefix d [] = Some (range_of (spec_prefix_ids S [])).
Proof. exact pfc_locate_prefix_empty. Qed.
Print Assumptions C04_pfc_locate_prefix_empty.

Theorem C04_pfc_extract_prefix_empty : forall d b S, layout_ok d b S -> 2 <= b -> pfc_input S ->
  pfc_extract_prefix d [] = Some (match spec_prefix_strs S [] with [] => None | l => Some l end).
Proof. exact pfc_extract_prefix_empty. Qed.
Print Assumptions C04_pfc_extract_prefix_empty.

(* the specification's answer for the empty pattern: all IDs 1..n, limits (1, n), all strings *)
Theorem C04_pfc_spec_empty_pattern : forall S,
  spec_prefix_ids S [] = nrange 1 (length S) /\ spec_prefix_strs S [] = S /\
  (S <> [] -> range_of (spec_prefix_ids S []) = (1, lenN S)).
Proof. intros S. split; [apply spec_prefix_ids_nil|]. split; [apply spec_prefix_strs_nil|apply range_of_prefix_ids_nil]. Qed.
Print Assumptions C04_pfc_spec_empty_pattern.

Theorem C04_pfc_locate_prefix_empty_range : forall d b S, layout_ok d b S -> 2 <= b -> pfc_input S ->
  pfc_locate_prefix d [] = Some (1, lenN S).
Proof. exact pfc_locate_prefix_empty_range. Qed.
Print Assumptions C04_pfc_locate_prefix_empty_range.

Theorem C04_pfc_extract_prefix_empty_all : forall d b S, layout_ok d b S -> 2 <= b -> pfc_input S ->
  pfc_extract_prefix d [] = Some (Some S).
Proof. exact pfc_extract_prefix_empty_all. Qed.
Print Assumptions C04_pfc_extract_prefix_empty_all.

Theorem C04_pfc_locate_prefix_empty_built : forall S b0, pfc_input S ->
  pfc_locate_prefix (pfc_build b0 S) [] = Some (1, lenN S).
Proof. exact pfc_locate_prefix_empty_built. Qed.
Print Assumptions C04_pfc_locate_prefix_empty_built.

Theorem C04_pfc_extract_prefix_empty_built : forall S b0, pfc_input S ->
  pfc_extract_prefix (pfc_build b0 S) [] = Some (Some S).
Proof. exact pfc_extract_prefix_empty_built. Qed.
Print Assumptions C04_pfc_extract_prefix_empty_built.

(* C12: the bucket size never changes a prefix answer, for every pattern *)
Theorem C12_pfc_param_indep_prefix_every_pattern : forall S b0 b1 p, pfc_input S -> nul_free p -> lenN p < 2 ^ 32 ->
  pfc_locate_prefix (pfc_build b0 S) p = pfc_locate_prefix (pfc_build b1 S) p /\
  pfc_extract_prefix (pfc_build b0 S) p = pfc_extract_prefix (pfc_build b1 S) p.
Proof. intros S b0 b1 p. exact (pfc_param_indep_prefix_all S p b0 b1). Qed.
Print Assumptions C12_pfc_param_indep_prefix_every_pattern.

(* ---------- RPFC (its theorems never had [p <> []]; the empty case made explicit) ---------- *)
Theorem C04_rpfc_locate_prefix_every_pattern : forall d b S p,
  rpfc_layout_ok d b S -> 2 <= b -> rpfc_input S -> nul_free p ->
  rpfc_locate_prefix d p = Some (range_of (spec_prefix_ids S p)).
Proof. exact rpfc_locate_prefix_all. Qed.
Print Assumptions C04_rpfc_locate_prefix_every_pattern.

Theorem C04_rpfc_extract_prefix_every_pattern : forall d b S p,
  rpfc_layout_ok d b S -> 2 <= b -> rpfc_input S -> nul_free p ->
  rpfc_extract_prefix d p = Some (match spec_prefix_strs S p with [] => None | l => Some l end).
Proof. exact rpfc_extract_prefix_all. Qed.
Print Assumptions C04_rpfc_extract_prefix_every_pattern.

Theorem C04_rpfc_locate_prefix_empty_range : forall d b S,
  rpfc_layout_ok d b S -> 2 <= b -> rpfc_input S -> rpfc_locate_prefix d [] = Some (1, lenN S).
Proof. exact rpfc_locate_prefix_empty_range. Qed.
Print Assumptions C04_rpfc_locate_prefix_empty_range.

Theorem C04_rpfc_extract_prefix_empty_all : forall d b S,
  rpfc_layout_ok d b S -> 2 <= b -> rpfc_input S -> rpfc_extract_prefix d [] = Some (Some S).
Proof. exact rpfc_extract_prefix_empty_all. Qed.
Print Assumptions C04_rpfc_extract_prefix_empty_all.

Theorem C04_rpfc_chk_prefix_empty : forall d S, rpfc_layout_chk d S = true -> rpfc_inputb S = true ->
  rpfc_locate_prefix d [] = Some (1, lenN S) /\ rpfc_extract_prefix d [] = Some (Some S).
Proof. exact rpfc_chk_prefix_empty. Qed.
Print Assumptions C04_rpfc_chk_prefix_empty.

(* ---------- hypotheses satisfiable, and what the model computes on the empty pattern ---------- *)
(* "a" "ab" "b", bucket size 2 *)
Example C04_pfc_empty_ex_input : pfc_input [[97]; [97;98]; [98]] /\ nul_free [] /\ lenN (@nil N) < 2 ^ 32.
Proof. split; [exact pe_ex_input|]. split; [exact nul_free_nil|reflexivity]. Qed.

Example C04_pfc_empty_ex_compute :
  pfc_locate_prefix (pfc_build 2 [[97]; [97;98]; [98]]) [] = Some (1, 3) /\
  pfc_extract_prefix (pfc_build 2 [[97]; [97;98]; [98]]) [] = Some (Some [[97]; [97;98]; [98]]) /\
  contig_ids 1 3 = [1; 2; 3] /\ spec_prefix_ids [[97]; [97;98]; [98]] [] = [1; 2; 3].
Proof. vm_compute. repeat split; reflexivity. Qed.

Example C04_pfc_empty_ex_theorem :
  pfc_locate_prefix (pfc_build 2 [[97]; [97;98]; [98]]) [] = Some (range_of (spec_prefix_ids [[97]; [97;98]; [98]] [])) /\
  pfc_extract_prefix (pfc_build 2 [[97]; [97;98]; [98]]) [] =
    Some (match spec_prefix_strs [[97]; [97;98]; [98]] [] with [] => None | l => Some l end).
Proof.
  destruct C04_pfc_empty_ex_input as (HS & Hnp & Hl). split.
  - exact (C04_pfc_locate_prefix_built_every_pattern _ 2 [] HS Hnp Hl).
  - exact (C04_pfc_extract_prefix_built_every_pattern _ 2 [] HS Hnp Hl).
Qed.

(* RPFC: the object dumped from the real constructor for ab abab ababab ababc abc c, b = 3 *)
Example C04_rpfc_empty_ex :
  rpfc_layout_ok rex_d 3 rex_S /\ 2 <= 3 /\ rpfc_input rex_S /\
  rpfc_locate_prefix rex_d [] = Some (1, 6) /\ rpfc_extract_prefix rex_d [] = Some (Some rex_S).
Proof.
  destruct rex_hyps as (HL & Hb & Hin).
  split; [exact HL|]. split; [exact Hb|]. split; [exact Hin|]. split.
  - exact (C04_rpfc_locate_prefix_empty_range rex_d 3 rex_S HL Hb Hin).
  - exact (C04_rpfc_extract_prefix_empty_all rex_d 3 rex_S HL Hb Hin).
Qed.
