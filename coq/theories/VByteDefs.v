(* Executable model of utils/VByte.cpp (VByte::encode / VByte::decode) and of the
   identical inline copies encodeVB2/decodeVB2 in utils/Utils.h.  The model
   mirrors the C statements: 7-bit groups, least significant first, bit 7 set in
   the LAST byte.  C integer widths are written out: [c] is a 32-bit unsigned,
   the decoder ORs [(r[i] & 127) << shift] into a 32-bit accumulator. *)
From LibCSD Require Import Base.
Local Open Scope N_scope.

Definition W32 : N := 2 ^ 32.

(* while (c > 127) { r[i++] = c & 127; c >>= 7; }  r[i++] = c | 0x80; *)
Fixpoint vb_encode_fuel (fuel : nat) (c : N) : list N :=
  match fuel with
  | O => [N.lor c 128]
  | S f => if 127 <? c then N.land c 127 :: vb_encode_fuel f (N.shiftr c 7)
           else [N.lor c 128]
  end.

(* a uint needs at most 5 groups; the fuel is generous (any c < 2^70) *)
Definition vb_encode (c : N) : list N := vb_encode_fuel 9 c.

(* *c = 0; while (!(r[i] & 0x80)) { *c |= (r[i] & 127) << shift; i++; shift += 7; }
   *c |= (r[i] & 127) << shift; i++; return i;
   Result: Some (value, bytes consumed); None = read past the end of [r]. *)
Fixpoint vb_decode_from (r : list N) (shift acc i : N) : option (N * N) :=
  match r with
  | [] => None
  | b :: r' =>
      let acc' := N.lor acc ((N.shiftl (N.land b 127) shift) mod W32) in
      if N.testbit b 7 then Some (acc', i + 1)
      else vb_decode_from r' (shift + 7) acc' (i + 1)
  end.

Definition vb_decode (r : list N) : option (N * N) := vb_decode_from r 0 0 0.
