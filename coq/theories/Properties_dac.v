(* C17, DAC part -- DAC_VLS (utils/DAC_VLS.cpp): "the DAC variable-length sequences return for
   every index exactly the symbol sequence stored, including sequences of length 1 and of the
   maximum length and the last sequence.  All three survive save/load unchanged."
   Quantifier: all lists of non-empty symbol sequences and symbol widths.
   Only statements; every proof is [exact] of a lemma of DACProofs. *)
From LibCSD Require Import Base Bytes DACDefs DACProofs.
Local Open Scope N_scope.

(* Input class: [dac_wf seqs logr maxseq] (executable checker): seqs non-empty, every sequence
   non-empty and of length <= maxseq, every symbol < 2^logr, logr <= 32, the flat int array
   (symbols + one negative separator per sequence, as RPDAC/HASHRPDAC lay it out) shorter than
   2^32 entries, maxseq + 1 < 2^32.  The constructor is called with l_Length = ic - 1
   ([dac_llen]) as the dictionaries do since 4305f33. *)

(* Layout: the constructor performs no out-of-bounds access and produces EXACTLY the level-wise
   arrangement: level j = the j-th symbols of all sequences longer than j, in order; the
   continuation bit of a symbol says whether its sequence continues; closing sentinel bit;
   levelsIndex = prefix sums of the level sizes; rankLevels[j] = ones before level j. *)
Theorem C17_dac_build_layout : forall seqs logr maxseq, dac_wf seqs logr maxseq = true ->
  dac_build (dac_flatten seqs) (dac_llen seqs) logr maxseq = Some (the_dac seqs logr (N.to_nat maxseq)).
Proof. exact dac_build_layout. Qed.
Print Assumptions C17_dac_build_layout.

Theorem C17_dac_level_layout : forall seqs logr nL,
  d_syms (the_dac seqs logr nL) = concat (map (fun j => map (fun s => nth j s 0) (filter (longer j) seqs)) (seq 0 nL)) /\
  d_bits (the_dac seqs logr nL) =
    concat (map (fun j => map (longer (S j)) (filter (longer j) seqs)) (seq 0 (nL - 1))) ++ [true].
Proof. exact dac_level_layout. Qed.
Print Assumptions C17_dac_level_layout.

(* 1. access(i) returns exactly sequence i (and its length), for every index, whatever the
      lengths (1, maximal, last sequence included -- no side condition on them) *)
Theorem C17_dac_access_spec : forall seqs logr maxseq d i,
  dac_wf seqs logr maxseq = true ->
  dac_build (dac_flatten seqs) (dac_llen seqs) logr maxseq = Some d ->
  1 <= i <= lenN seqs ->
  dac_access d i = Some (nth (N.to_nat (i - 1)) seqs []) /\
  dac_access_len d i = Some (lenN (nth (N.to_nat (i - 1)) seqs [])).
Proof. exact dac_access_spec. Qed.
Print Assumptions C17_dac_access_spec.

(* 2. listLength = number of sequences, nLevels = max_seq_length *)
Theorem C17_dac_listLength : forall seqs logr maxseq d,
  dac_wf seqs logr maxseq = true ->
  dac_build (dac_flatten seqs) (dac_llen seqs) logr maxseq = Some d ->
  d_listLength d = lenN seqs /\ d_nLevels d = maxseq.
Proof. exact dac_listLength. Qed.
Print Assumptions C17_dac_listLength.

(* 3. chaining access_next from (level 0, position i) as HashDAC::scmp and the RePair
      comparison routines do yields exactly the symbols of sequence i, then the end mark *)
Theorem C17_dac_access_next_chain : forall seqs logr maxseq d i fuel,
  dac_wf seqs logr maxseq = true ->
  dac_build (dac_flatten seqs) (dac_llen seqs) logr maxseq = Some d ->
  1 <= i <= lenN seqs -> (N.to_nat maxseq <= fuel)%nat ->
  dac_chain d fuel 0 i = Some (nth (N.to_nat (i - 1)) seqs []) /\
  dac_chain_bounded d fuel 0 i = Some (nth (N.to_nat (i - 1)) seqs []).
Proof. exact dac_access_next_chain. Qed.
Print Assumptions C17_dac_access_next_chain.

Theorem C17_dac_access_next_step : forall seqs logr maxseq P s R j,
  dac_wf seqs logr maxseq = true -> seqs = P ++ s :: R -> (j < length s)%nat ->
  let d := the_dac seqs logr (N.to_nat maxseq) in
  let pos k := LI seqs k + N.of_nat (cnt k P) + 1 in
  dac_access_next d (N.of_nat j) (pos j) = Some (nth j s 0, if (S j <? length s)%nat then pos (S j) else dac_END).
Proof. exact dac_access_next_step. Qed.
Print Assumptions C17_dac_access_next_step.

(* 4. no out-of-bounds read or write in the constructor, access and the access_next chain *)
Theorem C17_dac_no_oob : forall seqs logr maxseq i,
  dac_wf seqs logr maxseq = true -> 1 <= i <= lenN seqs ->
  exists d, dac_build (dac_flatten seqs) (dac_llen seqs) logr maxseq = Some d /\
            1 <= i <= d_listLength d /\
            dac_access d i <> None /\ dac_chain d (N.to_nat maxseq) 0 i <> None.
Proof. exact dac_no_oob. Qed.
Print Assumptions C17_dac_no_oob.

(* 5. save/load: the loader consumes exactly the image and returns the same object *)
Theorem C17_dac_load_save : forall d rest, dac_obj_wf d = true -> dac_load (dac_save d ++ rest) = Some (d, rest).
Proof. exact dac_load_save. Qed.
Print Assumptions C17_dac_load_save.

Theorem C17_dac_rg_load_save : forall bits rest, lenN bits < 2 ^ 64 ->
  dac_rg_load (dac_rg_save bits ++ rest) = Some (bits, rest).
Proof. exact dac_rg_load_save. Qed.
Print Assumptions C17_dac_rg_load_save.

(* ... in particular every object the constructor builds, while the level array has fewer
   than 2^32 bits (uint tamCode) *)
Theorem C17_dac_build_load_save : forall seqs logr maxseq d rest,
  dac_wf seqs logr maxseq = true ->
  logr * LI seqs (N.to_nat maxseq) < dac_U32 ->
  dac_build (dac_flatten seqs) (dac_llen seqs) logr maxseq = Some d ->
  dac_load (dac_save d ++ rest) = Some (d, rest).
Proof. exact dac_build_load_save. Qed.
Print Assumptions C17_dac_build_load_save.

(* 6. regression: the two defects fixed in /repo, about the OLD definitions *)
Theorem C17_dac_access_nlevels1_old_refuted :
  exists d, dac_of_seqs [[1];[2];[3]] 2 = Some d /\ d_nLevels d = 1 /\
            fst (dac_access_old d 1) = 2 /\ dac_access d 1 = Some [1] /\ dac_access_len d 1 = Some 1.
Proof. exact dac_access_nlevels1_old_refuted. Qed.
Print Assumptions C17_dac_access_nlevels1_old_refuted.

Theorem C17_dac_llen_minus2_refuted :
  let seqs := [[5];[5;5];[3]] in
  exists d, dac_build (dac_flatten seqs) (dac_llen_old seqs) 3 (dac_maxlen seqs) = Some d /\
            d_listLength d = 2 /\ d_listLength d <> lenN seqs /\ dac_access d 3 <> Some [3] /\
            exists d', dac_build (dac_flatten seqs) (dac_llen seqs) 3 (dac_maxlen seqs) = Some d' /\
                       d_listLength d' = 3 /\ dac_access d' 3 = Some [3].
Proof. exact dac_llen_minus2_refuted. Qed.
Print Assumptions C17_dac_llen_minus2_refuted.

(* ---- the hypotheses are satisfiable on non-trivial inputs ---------------------------- *)
Definition C17_dac_ex : list (list N) := [[1;2;3];[4];[5;6];[7;1;2];[3]].
(* lengths 1, 2, maximal; last sequence of length 1; maxseq = the maximal length *)
Example C17_dac_wf_ex : dac_wf C17_dac_ex 3 (dac_maxlen C17_dac_ex) = true /\ dac_maxlen C17_dac_ex = 3.
Proof. vm_compute. split; reflexivity. Qed.
(* max_seq_length larger than the longest sequence is allowed as well *)
Example C17_dac_wf_ex2 : dac_wf C17_dac_ex 8 5 = true.
Proof. vm_compute. reflexivity. Qed.
Example C17_dac_build_ex : exists d, dac_of_seqs C17_dac_ex 3 = Some d /\
  map (dac_access d) [1;2;3;4;5] = map Some C17_dac_ex /\
  map (dac_chain d 3 0) [1;2;3;4;5] = map Some C17_dac_ex /\
  d_syms d = [1;4;5;7;3; 2;6;1; 3;2] /\ d_bits d = [true;false;true;true;false; true;false;true; true] /\
  d_levelsIndex d = [0;5;8;10] /\ d_rankLevels d = [0;3;5] /\ d_listLength d = 5.
Proof. eexists. split; [vm_compute; reflexivity|]. vm_compute. repeat split; reflexivity. Qed.
Example C17_dac_access_next_step_ex :
  C17_dac_ex = [[1;2;3];[4]] ++ [5;6] :: [[7;1;2];[3]] /\ (1 < length [5;6])%nat.
Proof. split; [reflexivity|]. apply le_n. Qed.
Example C17_dac_obj_wf_ex : exists d, dac_of_seqs C17_dac_ex 3 = Some d /\ dac_obj_wf d = true /\
  3 * LI C17_dac_ex 3 < dac_U32 /\ dac_load (dac_save d ++ [90;90;90]) = Some (d, [90;90;90]).
Proof. eexists. split; [vm_compute; reflexivity|]. vm_compute. repeat split; reflexivity. Qed.
Example C17_dac_rg_ex : lenN [true;false;true] < 2 ^ 64.
Proof. vm_compute. reflexivity. Qed.

(* ---- DAC_BVLS (utils/DAC_BVLS.cpp), the byte-oriented sibling used by HASHUFFDAC ---------
   Input class [bdac_wf seqs nL]: seqs non-empty, every sequence non-empty, of length <= nL,
   of bytes; the object is built from the arrangement StringDictionaryHASHUFFDAC computes
   ([bdac_layout]: level starts, ones per level, level-wise bytes, bitmap over ALL levels). *)
Theorem C17_bdac_of_seqs_spec : forall seqs nL, bdac_wf seqs nL = true -> bdac_of_seqs seqs nL = Some (the_bdac seqs nL).
Proof. exact bdac_of_seqs_spec. Qed.
Print Assumptions C17_bdac_of_seqs_spec.

Theorem C17_bdac_access_spec : forall seqs nL d i,
  bdac_wf seqs nL = true -> bdac_of_seqs seqs nL = Some d -> 1 <= i <= lenN seqs ->
  bdac_access d i = Some (nth (N.to_nat (i - 1)) seqs []).
Proof. exact bdac_access_spec. Qed.
Print Assumptions C17_bdac_access_spec.

Theorem C17_bdac_access_next_chain : forall seqs nL d i fuel,
  bdac_wf seqs nL = true -> bdac_of_seqs seqs nL = Some d -> 1 <= i <= lenN seqs -> (nL <= fuel)%nat ->
  bdac_chain d fuel 0 i = Some (nth (N.to_nat (i - 1)) seqs []) /\
  bdac_chain_bounded d fuel 0 i = Some (nth (N.to_nat (i - 1)) seqs []).
Proof. exact bdac_access_next_chain. Qed.
Print Assumptions C17_bdac_access_next_chain.

Theorem C17_bdac_load_save : forall d rest, bdac_obj_wf d = true -> bdac_load (bdac_save d ++ rest) = Some (d, rest).
Proof. exact bdac_load_save. Qed.
Print Assumptions C17_bdac_load_save.

Theorem C17_bdac_build_load_save : forall seqs nL d rest,
  bdac_wf seqs nL = true -> bdac_of_seqs seqs nL = Some d -> bdac_load (bdac_save d ++ rest) = Some (d, rest).
Proof. exact bdac_build_load_save. Qed.
Print Assumptions C17_bdac_build_load_save.

Example C17_bdac_wf_ex : bdac_wf C17_dac_ex 3 = true.
Proof. vm_compute. reflexivity. Qed.
Example C17_bdac_build_ex : exists d, bdac_of_seqs C17_dac_ex 3 = Some d /\ bdac_obj_wf d = true /\
  map (bdac_access d) [1;2;3;4;5] = map Some C17_dac_ex /\
  map (bdac_chain d 3 0) [1;2;3;4;5] = map Some C17_dac_ex /\
  b_bits d = [true;false;true;true;false; true;false;true; false;false] /\
  bdac_load (bdac_save d ++ [90]) = Some (d, [90]).
Proof. eexists. split; [vm_compute; reflexivity|]. vm_compute. repeat split; reflexivity. Qed.
