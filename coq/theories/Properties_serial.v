(* Properties_serial.v -- per-class obligations of C06 (field-by-field mirror of save and load, dispatch), C08 (the type
   tag is written from a stable source) and C16 (type check at the top of each loader, default branch of the
   dispatcher) about gen/Schema_gen.v, which wip/serial/translate_schema.py REGENERATES FROM /repo's CURRENT SOURCE on
   every run (tools: wip/serial/check_schema.py).  This file is hand-written and static; every theorem is closed by
   computation on the regenerated data, so a change of the source that breaks a mirror / guard / dispatch case makes the
   corresponding theorem fail to compile.

   Tolerated differences between a saver and its loader (each one explicit below, documented in wip/serial/NOTES.md):
     T1  tag word: the NAME of the first 4-byte scalar of a tagged class is not compared (`norm_tag`): the saver writes the
         member `type` (or a constant), the loader reads into a local before the object exists.  Tie: C06_tag_guard, C16.
     T2  recomputed members: BitSequenceRG::load recomputes `integers`, `s`, `b` from stored scalars; the count tables
         resolve such members through the loader's own assignments (generated `derived_K`), so the saver's count
         `integers` means the loader's formula (class invariant, part of `fits`).
     T3  Hash::load is a switch on the load option `r` (not stored in the image); the three concrete loaders each mirror
         the single inherited Hash::save (C06_mirror_Hashdh/HashBdh/HashBBdh + C06_mirror_Hash_dispatch).
     T4  StringDictionaryXBW::load delegates the tail of the image to XBW::XBW(istream&): the loader's `Nested XBW` is
         inlined, and the saver's names (len) are renamed to the constructor's (nodesCount)  (adapter_XBW_save).
     T5  StringDictionaryHASHRPDACBlocks: the loader uses locals (_maxlength, parts_sz ...) and ONE stored count for three
         loops whose savers iterate over three vectors: equal only under the class invariant
         |cut_samples| = |starting_indexes| = |parts| (adapter_Blocks_load, adapter_Blocks_save).  Not well-formed without it => schema_fallback.

   Normalisations done by the TRANSLATOR before the data reaches this file (notes/serial2.md), so that behaviour-preserving
   refactorings of the source regenerate the very same Schema_gen.v: helpers of the same class / file that receive the
   stream are inlined (their statements are items of the caller; what is not understood in them is still Opaque);
   stream-free helpers in count expressions are expanded symbolically (text AND cexp, so no obligation below depends on a
   helper's name); a load-side local that only carries a read value into one member is named as that member; the local
   that receives the tag word of a tagged class is always named "type" (T1 does not depend on it either way). *)
From Coq Require Import List NArith String Bool Lia.
From LibCSD Require Import Base Bytes SerialDefs SerialProofs.
From LibCSD.gen Require Import Schema_gen.
Import ListNotations.
Local Open Scope string_scope.
Local Open Scope N_scope.
Local Open Scope list_scope.

(* ---------- translator sanity: nothing was skipped ---------- *)
Theorem serial_translator_clean : translator_problems = [].
Proof. vm_compute. reflexivity. Qed.

(* the set of classes with a save/load pair is the one this file was written for (a new class must be added here) *)
Theorem serial_all_classes : all_classes =
  ["StringDictionaryPFC"; "StringDictionaryRPFC"; "StringDictionaryHTFC"; "StringDictionaryHHTFC";
   "StringDictionaryRPHTFC"; "StringDictionaryRPDAC"; "StringDictionaryHASHHF"; "StringDictionaryHASHUFFDAC";
   "StringDictionaryHASHRPF"; "StringDictionaryHASHRPDAC"; "StringDictionaryHASHRPDACBlocks";
   "StringDictionaryFMINDEX"; "StringDictionaryXBW"; "LogSequence"; "DAC_VLS"; "DAC_BVLS"; "RePair"; "RePairNoSeq";
   "Hash"; "Hashdh"; "HashBdh"; "HashBBdh"; "HashDAC"; "DecodingTable"; "DecodingTree"; "SSA"; "XBW";
   "BitSequenceRG"; "BitString"; "THuffx"].
Proof. vm_compute. reflexivity. Qed.

(* Hashdh/HashBdh/HashBBdh have no save of their own: their save schema is Hash::save's *)
Theorem serial_inherited_save :
  inherited_save = [("Hashdh", "Hash::save"); ("HashBdh", "Hash::save"); ("HashBBdh", "Hash::save")].
Proof. vm_compute. reflexivity. Qed.

(* classes with an Opaque item (a statement touching the stream that the translator did not understand) *)
Definition schema_opaque : list string := [].
Theorem serial_opaque_exact :
  map fst (filter (fun p => has_opaque wf_fuel (fst (snd p))) (save_table ++ load_table)) = schema_opaque.
Proof. vm_compute. reflexivity. Qed.

(* ---------- context: class table and polymorphic bases ---------- *)
(* classes covered by the byte-level correspondence only (no schema-level round-trip theorem):
     SSA, StringDictionaryFMINDEX : SSA nests a libcds `Sequence` (wavelet tree), whose classes are not translated;
     StringDictionaryHASHRPDACBlocks : loop counts are vector sizes tied to the stored count by a class invariant (T5). *)
Definition schema_fallback : list string :=
  ["StringDictionaryHASHRPDACBlocks"; "StringDictionaryFMINDEX"; "SSA"].
(* XBW has a loader only (constructor from istream); its image is written by StringDictionaryXBW::save (T4) *)
Definition load_only : list string := ["XBW"].

Definition ctx_gen : ctx :=
  mkCtx (filter (fun p => negb (mem (fst p) schema_fallback) && negb (mem (fst p) load_only)) save_table)
        [("StringDictionary", dispatch_gen); ("BitSequence", dispatch_BitSequence); ("Sequence", dispatch_Sequence)].

Theorem C06_wf_ctx : wf_ctx ctx_gen = true.
Proof. vm_compute. reflexivity. Qed.

(* the fallback list is exact: these and only these classes have a saver that is not well-formed *)
Theorem C06_fallback_exact :
  map fst (filter (fun p => negb (mem (fst p) load_only) && negb (wf_schema ctx_gen (snd (snd p)) (fst (snd p)))) save_table)
  = schema_fallback.
Proof. vm_compute. reflexivity. Qed.

Definition roundtrip_statement (tbl : cnt_table) (sch : schema) : Prop :=
  forall fuel vs out rest,
    write ctx_gen fuel tbl sch vs = Some out ->
    read ctx_gen fuel tbl sch (out ++ rest) = Some (vs, rest).

Lemma roundtrip_of_wf tbl sch : wf_schema ctx_gen tbl sch = true -> roundtrip_statement tbl sch.
Proof. intros H fuel vs out rest Hw. exact (read_write ctx_gen fuel tbl sch vs out rest C06_wf_ctx H Hw). Qed.

(* several images can follow one another in one stream *)
Theorem C06_self_delimiting tbl1 sch1 tbl2 sch2 fuel vs1 vs2 out1 out2 rest :
  wf_schema ctx_gen tbl1 sch1 = true -> wf_schema ctx_gen tbl2 sch2 = true ->
  write ctx_gen fuel tbl1 sch1 vs1 = Some out1 -> write ctx_gen fuel tbl2 sch2 vs2 = Some out2 ->
  read ctx_gen fuel tbl1 sch1 (out1 ++ out2 ++ rest) = Some (vs1, out2 ++ rest) /\
  read ctx_gen fuel tbl2 sch2 (out2 ++ rest) = Some (vs2, rest).
Proof. intros H1 H2 W1 W2. exact (self_delimiting ctx_gen fuel tbl1 sch1 tbl2 sch2 vs1 vs2 out1 out2 rest C06_wf_ctx H1 H2 W1 W2). Qed.

(* ---------- C08 helpers ---------- *)
Definition all_consts : list (string * N) := tag_consts ++ macro_consts.

Definition C08_stable_prop (K : string) : Prop :=
  (exists c, assoc K tag_source = Some (TagConst c)) \/
  (exists a, assoc K tag_assign = Some a /\ load_preserves_type all_consts (assoc K loader_guard) a = true).

Lemma tag_stable_prop K : tag_stable all_consts loader_guard tag_source tag_assign K = true -> C08_stable_prop K.
Proof.
  unfold tag_stable, C08_stable_prop. destruct (assoc K tag_source) as [s|]; [|discriminate].
  intros H. apply orb_true_iff in H. destruct H as [H|H].
  - left. destruct s; try discriminate. eauto.
  - right. destruct (assoc K tag_assign) as [a|]; [|discriminate]. eauto.
Qed.

(* ---- C06_mirror_K : the loader reads, field by field, what the saver writes ---- *)
Theorem C06_mirror_StringDictionaryPFC : schema_eq (norm_tag load_schema_StringDictionaryPFC) (norm_tag save_schema_StringDictionaryPFC) = true.
Proof. vm_compute. reflexivity. Qed.
Theorem C06_mirror_cnt_StringDictionaryPFC : load_cnt_StringDictionaryPFC = save_cnt_StringDictionaryPFC.
Proof. vm_compute. reflexivity. Qed.
Theorem C06_mirror_StringDictionaryRPFC : schema_eq (norm_tag load_schema_StringDictionaryRPFC) (norm_tag save_schema_StringDictionaryRPFC) = true.
Proof. vm_compute. reflexivity. Qed.
Theorem C06_mirror_cnt_StringDictionaryRPFC : load_cnt_StringDictionaryRPFC = save_cnt_StringDictionaryRPFC.
Proof. vm_compute. reflexivity. Qed.
Theorem C06_mirror_StringDictionaryHTFC : schema_eq (norm_tag load_schema_StringDictionaryHTFC) (norm_tag save_schema_StringDictionaryHTFC) = true.
Proof. vm_compute. reflexivity. Qed.
Theorem C06_mirror_cnt_StringDictionaryHTFC : load_cnt_StringDictionaryHTFC = save_cnt_StringDictionaryHTFC.
Proof. vm_compute. reflexivity. Qed.
Theorem C06_mirror_StringDictionaryHHTFC : schema_eq (norm_tag load_schema_StringDictionaryHHTFC) (norm_tag save_schema_StringDictionaryHHTFC) = true.
Proof. vm_compute. reflexivity. Qed.
Theorem C06_mirror_cnt_StringDictionaryHHTFC : load_cnt_StringDictionaryHHTFC = save_cnt_StringDictionaryHHTFC.
Proof. vm_compute. reflexivity. Qed.
Theorem C06_mirror_StringDictionaryRPHTFC : schema_eq (norm_tag load_schema_StringDictionaryRPHTFC) (norm_tag save_schema_StringDictionaryRPHTFC) = true.
Proof. vm_compute. reflexivity. Qed.
Theorem C06_mirror_cnt_StringDictionaryRPHTFC : load_cnt_StringDictionaryRPHTFC = save_cnt_StringDictionaryRPHTFC.
Proof. vm_compute. reflexivity. Qed.
Theorem C06_mirror_StringDictionaryRPDAC : schema_eq (norm_tag load_schema_StringDictionaryRPDAC) (norm_tag save_schema_StringDictionaryRPDAC) = true.
Proof. vm_compute. reflexivity. Qed.
Theorem C06_mirror_cnt_StringDictionaryRPDAC : load_cnt_StringDictionaryRPDAC = save_cnt_StringDictionaryRPDAC.
Proof. vm_compute. reflexivity. Qed.
Theorem C06_mirror_StringDictionaryHASHHF : schema_eq (norm_tag load_schema_StringDictionaryHASHHF) (norm_tag save_schema_StringDictionaryHASHHF) = true.
Proof. vm_compute. reflexivity. Qed.
Theorem C06_mirror_cnt_StringDictionaryHASHHF : load_cnt_StringDictionaryHASHHF = save_cnt_StringDictionaryHASHHF.
Proof. vm_compute. reflexivity. Qed.
Theorem C06_mirror_StringDictionaryHASHUFFDAC : schema_eq (norm_tag load_schema_StringDictionaryHASHUFFDAC) (norm_tag save_schema_StringDictionaryHASHUFFDAC) = true.
Proof. vm_compute. reflexivity. Qed.
Theorem C06_mirror_cnt_StringDictionaryHASHUFFDAC : load_cnt_StringDictionaryHASHUFFDAC = save_cnt_StringDictionaryHASHUFFDAC.
Proof. vm_compute. reflexivity. Qed.
Theorem C06_mirror_StringDictionaryHASHRPF : schema_eq (norm_tag load_schema_StringDictionaryHASHRPF) (norm_tag save_schema_StringDictionaryHASHRPF) = true.
Proof. vm_compute. reflexivity. Qed.
Theorem C06_mirror_cnt_StringDictionaryHASHRPF : load_cnt_StringDictionaryHASHRPF = save_cnt_StringDictionaryHASHRPF.
Proof. vm_compute. reflexivity. Qed.
Theorem C06_mirror_StringDictionaryHASHRPDAC : schema_eq (norm_tag load_schema_StringDictionaryHASHRPDAC) (norm_tag save_schema_StringDictionaryHASHRPDAC) = true.
Proof. vm_compute. reflexivity. Qed.
Theorem C06_mirror_cnt_StringDictionaryHASHRPDAC : load_cnt_StringDictionaryHASHRPDAC = save_cnt_StringDictionaryHASHRPDAC.
Proof. vm_compute. reflexivity. Qed.
Theorem C06_mirror_StringDictionaryFMINDEX : schema_eq (norm_tag load_schema_StringDictionaryFMINDEX) (norm_tag save_schema_StringDictionaryFMINDEX) = true.
Proof. vm_compute. reflexivity. Qed.
Theorem C06_mirror_cnt_StringDictionaryFMINDEX : load_cnt_StringDictionaryFMINDEX = save_cnt_StringDictionaryFMINDEX.
Proof. vm_compute. reflexivity. Qed.
Theorem C06_mirror_LogSequence : schema_eq load_schema_LogSequence save_schema_LogSequence = true.
Proof. vm_compute. reflexivity. Qed.
Theorem C06_mirror_cnt_LogSequence : load_cnt_LogSequence = save_cnt_LogSequence.
Proof. vm_compute. reflexivity. Qed.
Theorem C06_mirror_DAC_VLS : schema_eq load_schema_DAC_VLS save_schema_DAC_VLS = true.
Proof. vm_compute. reflexivity. Qed.
Theorem C06_mirror_cnt_DAC_VLS : load_cnt_DAC_VLS = save_cnt_DAC_VLS.
Proof. vm_compute. reflexivity. Qed.
Theorem C06_mirror_DAC_BVLS : schema_eq load_schema_DAC_BVLS save_schema_DAC_BVLS = true.
Proof. vm_compute. reflexivity. Qed.
Theorem C06_mirror_cnt_DAC_BVLS : load_cnt_DAC_BVLS = save_cnt_DAC_BVLS.
Proof. vm_compute. reflexivity. Qed.
Theorem C06_mirror_RePair : schema_eq load_schema_RePair save_schema_RePair = true.
Proof. vm_compute. reflexivity. Qed.
Theorem C06_mirror_cnt_RePair : load_cnt_RePair = save_cnt_RePair.
Proof. vm_compute. reflexivity. Qed.
Theorem C06_mirror_RePairNoSeq : schema_eq load_schema_RePairNoSeq save_schema_RePairNoSeq = true.
Proof. vm_compute. reflexivity. Qed.
Theorem C06_mirror_cnt_RePairNoSeq : load_cnt_RePairNoSeq = save_cnt_RePairNoSeq.
Proof. vm_compute. reflexivity. Qed.
Theorem C06_mirror_Hashdh : schema_eq load_schema_Hashdh save_schema_Hashdh = true.
Proof. vm_compute. reflexivity. Qed.
Theorem C06_mirror_cnt_Hashdh : load_cnt_Hashdh = save_cnt_Hashdh.
Proof. vm_compute. reflexivity. Qed.
Theorem C06_mirror_HashBdh : schema_eq load_schema_HashBdh save_schema_HashBdh = true.
Proof. vm_compute. reflexivity. Qed.
Theorem C06_mirror_cnt_HashBdh : load_cnt_HashBdh = save_cnt_HashBdh.
Proof. vm_compute. reflexivity. Qed.
Theorem C06_mirror_HashBBdh : schema_eq load_schema_HashBBdh save_schema_HashBBdh = true.
Proof. vm_compute. reflexivity. Qed.
Theorem C06_mirror_cnt_HashBBdh : load_cnt_HashBBdh = save_cnt_HashBBdh.
Proof. vm_compute. reflexivity. Qed.
Theorem C06_mirror_HashDAC : schema_eq load_schema_HashDAC save_schema_HashDAC = true.
Proof. vm_compute. reflexivity. Qed.
Theorem C06_mirror_cnt_HashDAC : load_cnt_HashDAC = save_cnt_HashDAC.
Proof. vm_compute. reflexivity. Qed.
Theorem C06_mirror_DecodingTable : schema_eq load_schema_DecodingTable save_schema_DecodingTable = true.
Proof. vm_compute. reflexivity. Qed.
Theorem C06_mirror_cnt_DecodingTable : load_cnt_DecodingTable = save_cnt_DecodingTable.
Proof. vm_compute. reflexivity. Qed.
Theorem C06_mirror_DecodingTree : schema_eq load_schema_DecodingTree save_schema_DecodingTree = true.
Proof. vm_compute. reflexivity. Qed.
Theorem C06_mirror_cnt_DecodingTree : load_cnt_DecodingTree = save_cnt_DecodingTree.
Proof. vm_compute. reflexivity. Qed.
Theorem C06_mirror_SSA : schema_eq load_schema_SSA save_schema_SSA = true.
Proof. vm_compute. reflexivity. Qed.
Theorem C06_mirror_cnt_SSA : load_cnt_SSA = save_cnt_SSA.
Proof. vm_compute. reflexivity. Qed.
Theorem C06_mirror_BitString : schema_eq load_schema_BitString save_schema_BitString = true.
Proof. vm_compute. reflexivity. Qed.
Theorem C06_mirror_cnt_BitString : load_cnt_BitString = save_cnt_BitString.
Proof. vm_compute. reflexivity. Qed.
Theorem C06_mirror_THuffx : schema_eq load_schema_THuffx save_schema_THuffx = true.
Proof. vm_compute. reflexivity. Qed.
Theorem C06_mirror_cnt_THuffx : load_cnt_THuffx = save_cnt_THuffx.
Proof. vm_compute. reflexivity. Qed.

(* ---- C06_wf_K : every count of the saver is determined by scalars stored earlier in the same image ---- *)
Theorem C06_wf_StringDictionaryPFC : wf_schema ctx_gen save_cnt_StringDictionaryPFC save_schema_StringDictionaryPFC = true.
Proof. vm_compute. reflexivity. Qed.
Theorem C06_wf_StringDictionaryRPFC : wf_schema ctx_gen save_cnt_StringDictionaryRPFC save_schema_StringDictionaryRPFC = true.
Proof. vm_compute. reflexivity. Qed.
Theorem C06_wf_StringDictionaryHTFC : wf_schema ctx_gen save_cnt_StringDictionaryHTFC save_schema_StringDictionaryHTFC = true.
Proof. vm_compute. reflexivity. Qed.
Theorem C06_wf_StringDictionaryHHTFC : wf_schema ctx_gen save_cnt_StringDictionaryHHTFC save_schema_StringDictionaryHHTFC = true.
Proof. vm_compute. reflexivity. Qed.
Theorem C06_wf_StringDictionaryRPHTFC : wf_schema ctx_gen save_cnt_StringDictionaryRPHTFC save_schema_StringDictionaryRPHTFC = true.
Proof. vm_compute. reflexivity. Qed.
Theorem C06_wf_StringDictionaryRPDAC : wf_schema ctx_gen save_cnt_StringDictionaryRPDAC save_schema_StringDictionaryRPDAC = true.
Proof. vm_compute. reflexivity. Qed.
Theorem C06_wf_StringDictionaryHASHHF : wf_schema ctx_gen save_cnt_StringDictionaryHASHHF save_schema_StringDictionaryHASHHF = true.
Proof. vm_compute. reflexivity. Qed.
Theorem C06_wf_StringDictionaryHASHUFFDAC : wf_schema ctx_gen save_cnt_StringDictionaryHASHUFFDAC save_schema_StringDictionaryHASHUFFDAC = true.
Proof. vm_compute. reflexivity. Qed.
Theorem C06_wf_StringDictionaryHASHRPF : wf_schema ctx_gen save_cnt_StringDictionaryHASHRPF save_schema_StringDictionaryHASHRPF = true.
Proof. vm_compute. reflexivity. Qed.
Theorem C06_wf_StringDictionaryHASHRPDAC : wf_schema ctx_gen save_cnt_StringDictionaryHASHRPDAC save_schema_StringDictionaryHASHRPDAC = true.
Proof. vm_compute. reflexivity. Qed.
Theorem C06_wf_StringDictionaryXBW : wf_schema ctx_gen save_cnt_StringDictionaryXBW save_schema_StringDictionaryXBW = true.
Proof. vm_compute. reflexivity. Qed.
Theorem C06_wf_LogSequence : wf_schema ctx_gen save_cnt_LogSequence save_schema_LogSequence = true.
Proof. vm_compute. reflexivity. Qed.
Theorem C06_wf_DAC_VLS : wf_schema ctx_gen save_cnt_DAC_VLS save_schema_DAC_VLS = true.
Proof. vm_compute. reflexivity. Qed.
Theorem C06_wf_DAC_BVLS : wf_schema ctx_gen save_cnt_DAC_BVLS save_schema_DAC_BVLS = true.
Proof. vm_compute. reflexivity. Qed.
Theorem C06_wf_RePair : wf_schema ctx_gen save_cnt_RePair save_schema_RePair = true.
Proof. vm_compute. reflexivity. Qed.
Theorem C06_wf_RePairNoSeq : wf_schema ctx_gen save_cnt_RePairNoSeq save_schema_RePairNoSeq = true.
Proof. vm_compute. reflexivity. Qed.
Theorem C06_wf_Hashdh : wf_schema ctx_gen save_cnt_Hashdh save_schema_Hashdh = true.
Proof. vm_compute. reflexivity. Qed.
Theorem C06_wf_HashBdh : wf_schema ctx_gen save_cnt_HashBdh save_schema_HashBdh = true.
Proof. vm_compute. reflexivity. Qed.
Theorem C06_wf_HashBBdh : wf_schema ctx_gen save_cnt_HashBBdh save_schema_HashBBdh = true.
Proof. vm_compute. reflexivity. Qed.
Theorem C06_wf_HashDAC : wf_schema ctx_gen save_cnt_HashDAC save_schema_HashDAC = true.
Proof. vm_compute. reflexivity. Qed.
Theorem C06_wf_DecodingTable : wf_schema ctx_gen save_cnt_DecodingTable save_schema_DecodingTable = true.
Proof. vm_compute. reflexivity. Qed.
Theorem C06_wf_DecodingTree : wf_schema ctx_gen save_cnt_DecodingTree save_schema_DecodingTree = true.
Proof. vm_compute. reflexivity. Qed.
Theorem C06_wf_BitString : wf_schema ctx_gen save_cnt_BitString save_schema_BitString = true.
Proof. vm_compute. reflexivity. Qed.
Theorem C06_wf_THuffx : wf_schema ctx_gen save_cnt_THuffx save_schema_THuffx = true.
Proof. vm_compute. reflexivity. Qed.
Theorem C06_wf_Hash : wf_schema ctx_gen save_cnt_Hash save_schema_Hash = true.
Proof. vm_compute. reflexivity. Qed.
Theorem C06_wf_BitSequenceRG : wf_schema ctx_gen save_cnt_BitSequenceRG save_schema_BitSequenceRG = true.
Proof. vm_compute. reflexivity. Qed.

(* ---- C06_roundtrip_K ---- *)
Theorem C06_roundtrip_StringDictionaryPFC : roundtrip_statement save_cnt_StringDictionaryPFC save_schema_StringDictionaryPFC.
Proof. apply roundtrip_of_wf. exact C06_wf_StringDictionaryPFC. Qed.
Theorem C06_roundtrip_StringDictionaryRPFC : roundtrip_statement save_cnt_StringDictionaryRPFC save_schema_StringDictionaryRPFC.
Proof. apply roundtrip_of_wf. exact C06_wf_StringDictionaryRPFC. Qed.
Theorem C06_roundtrip_StringDictionaryHTFC : roundtrip_statement save_cnt_StringDictionaryHTFC save_schema_StringDictionaryHTFC.
Proof. apply roundtrip_of_wf. exact C06_wf_StringDictionaryHTFC. Qed.
Theorem C06_roundtrip_StringDictionaryHHTFC : roundtrip_statement save_cnt_StringDictionaryHHTFC save_schema_StringDictionaryHHTFC.
Proof. apply roundtrip_of_wf. exact C06_wf_StringDictionaryHHTFC. Qed.
Theorem C06_roundtrip_StringDictionaryRPHTFC : roundtrip_statement save_cnt_StringDictionaryRPHTFC save_schema_StringDictionaryRPHTFC.
Proof. apply roundtrip_of_wf. exact C06_wf_StringDictionaryRPHTFC. Qed.
Theorem C06_roundtrip_StringDictionaryRPDAC : roundtrip_statement save_cnt_StringDictionaryRPDAC save_schema_StringDictionaryRPDAC.
Proof. apply roundtrip_of_wf. exact C06_wf_StringDictionaryRPDAC. Qed.
Theorem C06_roundtrip_StringDictionaryHASHHF : roundtrip_statement save_cnt_StringDictionaryHASHHF save_schema_StringDictionaryHASHHF.
Proof. apply roundtrip_of_wf. exact C06_wf_StringDictionaryHASHHF. Qed.
Theorem C06_roundtrip_StringDictionaryHASHUFFDAC : roundtrip_statement save_cnt_StringDictionaryHASHUFFDAC save_schema_StringDictionaryHASHUFFDAC.
Proof. apply roundtrip_of_wf. exact C06_wf_StringDictionaryHASHUFFDAC. Qed.
Theorem C06_roundtrip_StringDictionaryHASHRPF : roundtrip_statement save_cnt_StringDictionaryHASHRPF save_schema_StringDictionaryHASHRPF.
Proof. apply roundtrip_of_wf. exact C06_wf_StringDictionaryHASHRPF. Qed.
Theorem C06_roundtrip_StringDictionaryHASHRPDAC : roundtrip_statement save_cnt_StringDictionaryHASHRPDAC save_schema_StringDictionaryHASHRPDAC.
Proof. apply roundtrip_of_wf. exact C06_wf_StringDictionaryHASHRPDAC. Qed.
Theorem C06_roundtrip_StringDictionaryXBW : roundtrip_statement save_cnt_StringDictionaryXBW save_schema_StringDictionaryXBW.
Proof. apply roundtrip_of_wf. exact C06_wf_StringDictionaryXBW. Qed.
Theorem C06_roundtrip_LogSequence : roundtrip_statement save_cnt_LogSequence save_schema_LogSequence.
Proof. apply roundtrip_of_wf. exact C06_wf_LogSequence. Qed.
Theorem C06_roundtrip_DAC_VLS : roundtrip_statement save_cnt_DAC_VLS save_schema_DAC_VLS.
Proof. apply roundtrip_of_wf. exact C06_wf_DAC_VLS. Qed.
Theorem C06_roundtrip_DAC_BVLS : roundtrip_statement save_cnt_DAC_BVLS save_schema_DAC_BVLS.
Proof. apply roundtrip_of_wf. exact C06_wf_DAC_BVLS. Qed.
Theorem C06_roundtrip_RePair : roundtrip_statement save_cnt_RePair save_schema_RePair.
Proof. apply roundtrip_of_wf. exact C06_wf_RePair. Qed.
Theorem C06_roundtrip_RePairNoSeq : roundtrip_statement save_cnt_RePairNoSeq save_schema_RePairNoSeq.
Proof. apply roundtrip_of_wf. exact C06_wf_RePairNoSeq. Qed.
Theorem C06_roundtrip_Hashdh : roundtrip_statement save_cnt_Hashdh save_schema_Hashdh.
Proof. apply roundtrip_of_wf. exact C06_wf_Hashdh. Qed.
Theorem C06_roundtrip_HashBdh : roundtrip_statement save_cnt_HashBdh save_schema_HashBdh.
Proof. apply roundtrip_of_wf. exact C06_wf_HashBdh. Qed.
Theorem C06_roundtrip_HashBBdh : roundtrip_statement save_cnt_HashBBdh save_schema_HashBBdh.
Proof. apply roundtrip_of_wf. exact C06_wf_HashBBdh. Qed.
Theorem C06_roundtrip_HashDAC : roundtrip_statement save_cnt_HashDAC save_schema_HashDAC.
Proof. apply roundtrip_of_wf. exact C06_wf_HashDAC. Qed.
Theorem C06_roundtrip_DecodingTable : roundtrip_statement save_cnt_DecodingTable save_schema_DecodingTable.
Proof. apply roundtrip_of_wf. exact C06_wf_DecodingTable. Qed.
Theorem C06_roundtrip_DecodingTree : roundtrip_statement save_cnt_DecodingTree save_schema_DecodingTree.
Proof. apply roundtrip_of_wf. exact C06_wf_DecodingTree. Qed.
Theorem C06_roundtrip_BitString : roundtrip_statement save_cnt_BitString save_schema_BitString.
Proof. apply roundtrip_of_wf. exact C06_wf_BitString. Qed.
Theorem C06_roundtrip_THuffx : roundtrip_statement save_cnt_THuffx save_schema_THuffx.
Proof. apply roundtrip_of_wf. exact C06_wf_THuffx. Qed.
Theorem C06_roundtrip_Hash : roundtrip_statement save_cnt_Hash save_schema_Hash.
Proof. apply roundtrip_of_wf. exact C06_wf_Hash. Qed.
Theorem C06_roundtrip_BitSequenceRG : roundtrip_statement save_cnt_BitSequenceRG save_schema_BitSequenceRG.
Proof. apply roundtrip_of_wf. exact C06_wf_BitSequenceRG. Qed.

(* ---- C08_tag_stable_K ---- *)
Theorem C08_tag_stable_StringDictionaryPFC : C08_stable_prop "StringDictionaryPFC".
Proof. apply tag_stable_prop. vm_compute. reflexivity. Qed.
Theorem C08_tag_stable_StringDictionaryRPFC : C08_stable_prop "StringDictionaryRPFC".
Proof. apply tag_stable_prop. vm_compute. reflexivity. Qed.
Theorem C08_tag_stable_StringDictionaryHTFC : C08_stable_prop "StringDictionaryHTFC".
Proof. apply tag_stable_prop. vm_compute. reflexivity. Qed.
Theorem C08_tag_stable_StringDictionaryHHTFC : C08_stable_prop "StringDictionaryHHTFC".
Proof. apply tag_stable_prop. vm_compute. reflexivity. Qed.
Theorem C08_tag_stable_StringDictionaryRPHTFC : C08_stable_prop "StringDictionaryRPHTFC".
Proof. apply tag_stable_prop. vm_compute. reflexivity. Qed.
Theorem C08_tag_stable_StringDictionaryRPDAC : C08_stable_prop "StringDictionaryRPDAC".
Proof. apply tag_stable_prop. vm_compute. reflexivity. Qed.
Theorem C08_tag_stable_StringDictionaryHASHUFFDAC : C08_stable_prop "StringDictionaryHASHUFFDAC".
Proof. apply tag_stable_prop. vm_compute. reflexivity. Qed.
Theorem C08_tag_stable_StringDictionaryHASHRPDACBlocks : C08_stable_prop "StringDictionaryHASHRPDACBlocks".
Proof. apply tag_stable_prop. vm_compute. reflexivity. Qed.
Theorem C08_tag_stable_StringDictionaryFMINDEX : C08_stable_prop "StringDictionaryFMINDEX".
Proof. apply tag_stable_prop. vm_compute. reflexivity. Qed.
Theorem C08_tag_stable_StringDictionaryXBW : C08_stable_prop "StringDictionaryXBW".
Proof. apply tag_stable_prop. vm_compute. reflexivity. Qed.
Theorem C08_tag_stable_StringDictionaryHASHHF : C08_stable_prop "StringDictionaryHASHHF".
Proof. apply tag_stable_prop. vm_compute. reflexivity. Qed.
Theorem C08_tag_stable_StringDictionaryHASHRPF : C08_stable_prop "StringDictionaryHASHRPF".
Proof. apply tag_stable_prop. vm_compute. reflexivity. Qed.
Theorem C08_tag_stable_StringDictionaryHASHRPDAC : C08_stable_prop "StringDictionaryHASHRPDAC".
Proof. apply tag_stable_prop. vm_compute. reflexivity. Qed.
Theorem C08_tag_stable_BitSequenceRG : C08_stable_prop "BitSequenceRG".
Proof. apply tag_stable_prop. vm_compute. reflexivity. Qed.

(* ---- T3: Hash::load dispatches on the load option to the three concrete loaders (each mirrors Hash::save above) ---- *)
Theorem C06_mirror_Hash_dispatch : load_schema_Hash =
  [Cond "(r==HASHUFF)" [Nested "Hashdh"]
     [Cond "(r==HASHBHUFF)" [Nested "HashBdh"]
        [Cond "(r==HASHBBHUFF)" [Nested "HashBBdh"] []]]].
Proof. vm_compute. reflexivity. Qed.
Theorem C06_mirror_Hash_variants :
  forallb (fun s => schema_eq s save_schema_Hash) [load_schema_Hashdh; load_schema_HashBdh; load_schema_HashBBdh] = true.
Proof. vm_compute. reflexivity. Qed.

(* ---- T1 for the libcds class with a header word ---- *)
Theorem C06_mirror_BitSequenceRG : schema_eq (norm_tag load_schema_BitSequenceRG) (norm_tag save_schema_BitSequenceRG) = true.
Proof. vm_compute. reflexivity. Qed.
Theorem C06_mirror_cnt_BitSequenceRG : load_cnt_BitSequenceRG = save_cnt_BitSequenceRG.
Proof. vm_compute. reflexivity. Qed.

(* ---- T4: XBW ---- *)
Definition adapter_XBW_save : list (string * string) :=
  [("len", "nodesCount"); ("((len/W)+1)", "((nodesCount/W)+1)"); ("((len/W)+2)", "((nodesCount/W)+2)")].
Theorem C06_mirror_StringDictionaryXBW :
  schema_eq (norm_tag (inline_nested "XBW" load_schema_XBW load_schema_StringDictionaryXBW))
            (norm_tag (rename adapter_XBW_save save_schema_StringDictionaryXBW)) = true.
Proof. vm_compute. reflexivity. Qed.

(* ---- T5: HASHRPDACBlocks ---- *)
Definition adapter_Blocks_load : list (string * string) :=
  [("_maxlength", "maxlength"); ("_cut_size", "cut_size"); ("_strings_qty", "strings_qty");
   ("parts_sz", "parts.size()"); ("cut_sample_sz", "cut_samples[].size()");
   ("_starting_indexes[]", "starting_indexes[]"); ("StringDictionaryHASHRPDAC", "StringDictionary")].
Definition adapter_Blocks_save : list (string * string) :=    (* class invariant: the three vectors have equal length *)
  [("cut_samples.size()", "parts.size()"); ("starting_indexes.size()", "parts.size()")].
Theorem C06_mirror_StringDictionaryHASHRPDACBlocks :
  schema_eq (norm_tag (rename adapter_Blocks_load load_schema_StringDictionaryHASHRPDACBlocks))
            (norm_tag (rename adapter_Blocks_save save_schema_StringDictionaryHASHRPDACBlocks)) = true.
Proof. vm_compute. reflexivity. Qed.
(* without the adapters the mirror does NOT hold (so the adapters are necessary, and the invariant is load-bearing) *)
Theorem C06_mirror_Blocks_needs_adapter :
  schema_eq (norm_tag load_schema_StringDictionaryHASHRPDACBlocks) (norm_tag save_schema_StringDictionaryHASHRPDACBlocks) = false.
Proof. vm_compute. reflexivity. Qed.

(* under the invariant (save side renamed through adapter_Blocks_save) the saver IS well-formed, hence round-trips *)
Theorem C06_wf_Blocks_adapted :
  wf_schema ctx_gen (rename_cnt adapter_Blocks_save save_cnt_StringDictionaryHASHRPDACBlocks)
            (rename adapter_Blocks_save save_schema_StringDictionaryHASHRPDACBlocks) = true.
Proof. vm_compute. reflexivity. Qed.
Theorem C06_roundtrip_Blocks_adapted :
  roundtrip_statement (rename_cnt adapter_Blocks_save save_cnt_StringDictionaryHASHRPDACBlocks)
                      (rename adapter_Blocks_save save_schema_StringDictionaryHASHRPDACBlocks).
Proof. apply roundtrip_of_wf. exact C06_wf_Blocks_adapted. Qed.

(* ---------- the round trip is not vacuous: concrete images ---------- *)
(* a PFC-shaped object: tag 211, 2 elements, maxlength 3, 1 bucket of size 2, 3 text bytes, LogSequence(2 bits x 2) *)
Example C06_example_PFC :
  let vs := [VS 211; VS 2; VS 3; VS 1; VS 2; VS 3; VA [97; 0; 98];
             VN "LogSequence" [VS 2; VS 2; VA [12; 0; 0; 0; 0; 0; 0; 0]]] in
  exists out, write ctx_gen 4 save_cnt_StringDictionaryPFC save_schema_StringDictionaryPFC vs = Some out /\
              lenN out = 52 /\
              read ctx_gen 4 save_cnt_StringDictionaryPFC save_schema_StringDictionaryPFC (out ++ [7; 7]) = Some (vs, [7; 7]).
Proof. cbv zeta. eexists. split; [vm_compute; reflexivity|]. split; vm_compute; reflexivity. Qed.

(* a HashDAC-shaped object with a polymorphic BitSequence field holding a BitSequenceRG (header word 3, n = 31,
   factor 1: integers = 1, n/s+1 = 1) -- the reader picks the class from the header word *)
Example C06_example_HashDAC :
  let vs := [VS 40; VS 7; VN "BitSequenceRG" [VS 3; VS 31; VS 1; VA [1; 2; 3; 4]; VA [0; 0; 0; 0]]] in
  exists out, write ctx_gen 4 save_cnt_HashDAC save_schema_HashDAC vs = Some out /\
              read ctx_gen 4 save_cnt_HashDAC save_schema_HashDAC (out ++ [9]) = Some (vs, [9]).
Proof. cbv zeta. eexists. split; [vm_compute; reflexivity|]. vm_compute; reflexivity. Qed.

(* RePair with the Cond on the stored `encoding`: 124 (HASHRPDAC) selects the DAC_VLS branch, 12 the LogSequence one *)
Example C06_example_RePair_cond :
  let vs := [VS 99; VS 3; VS 0; VN "LogSequence" [VS 1; VS 0; VA []]; VS 12; VC [VN "LogSequence" [VS 8; VS 1; VA [5;0;0;0;0;0;0;0]]]] in
  exists out, write ctx_gen 4 save_cnt_RePair save_schema_RePair vs = Some out /\
              read ctx_gen 4 save_cnt_RePair save_schema_RePair (out ++ [1]) = Some (vs, [1]).
Proof. cbv zeta. eexists. split; [vm_compute; reflexivity|]. vm_compute; reflexivity. Qed.

(* ---------- dispatch (C06) ---------- *)
Theorem C06_dispatch_routes :
  forallb (fun p => guard_of loader_guard (snd p) =? fst p) dispatch_gen = true.
Proof. vm_compute. reflexivity. Qed.

Theorem C06_dispatch_nodup : nodupN (map fst dispatch_gen) = true.
Proof. vm_compute. reflexivity. Qed.

Theorem C06_dispatch_regular :
  dispatch_gen_irregular = [] /\ dispatch_gen_tagbytes = Some 4 /\
  map snd dispatch_gen_names = map snd dispatch_gen /\
  map (fun p => assoc (fst p) tag_consts) dispatch_gen_names = map (fun p => Some (fst p)) dispatch_gen.
Proof. vm_compute. repeat split. Qed.

(* every dictionary class with a loader is reachable through the dispatcher
   (HASHRPDACBlocks was missing until the fix "the generic loader has no case for HASHRPDACBlocks images") *)
Definition dispatch_missing : list string := [].
Theorem C06_dispatch_complete :
  filter (fun c => negb (mem c (map snd dispatch_gen))) dict_classes = dispatch_missing.
Proof. vm_compute. reflexivity. Qed.

(* every loader reads a 4-byte word first -- the word the dispatcher peeked at *)
Theorem C06_tag_word_first :
  forallb (fun c => match assoc c load_table with Some (Scalar 4 _ :: _, _) => true | _ => false end) dict_classes = true.
Proof. vm_compute. reflexivity. Qed.
Theorem C06_tag_word_first_save :
  forallb (fun c => match assoc c save_table with Some (Scalar 4 _ :: _, _) => true | _ => false end) dict_classes = true.
Proof. vm_compute. reflexivity. Qed.

(* where the saver writes a constant, it is the constant the loader's guard checks *)
Theorem C06_tag_guard :
  forallb (fun p => match snd p with
                    | TagConst c => match assoc c all_consts, assoc (fst p) loader_guard with
                                    | Some v, Some g => v =? g | _, _ => false end
                    | TagMember => true
                    | TagOther _ => false
                    end) tag_source = true.
Proof. vm_compute. reflexivity. Qed.

(* the libcds bitmap dispatcher routes BitSequenceRG's header word to BitSequenceRG::load, whose guard is that word *)
Theorem C06_bitseq_dispatch_routes :
  forallb (fun p => if mem (snd p) all_classes then guard_of loader_guard (snd p) =? fst p else true) dispatch_BitSequence = true
  /\ assocN 3 dispatch_BitSequence = Some "BitSequenceRG" /\ nodupN (map fst dispatch_BitSequence) = true
  /\ dispatch_BitSequence_default = None /\ dispatch_BitSequence_irregular = [].
Proof. vm_compute. repeat split. Qed.

(* ---------- C16 ---------- *)
Definition generic_load_result_gen (t : N) : option string := generic_load_result dispatch_gen dispatch_gen_default t.

Theorem C16_default_branch : dispatch_gen_default = None.
Proof. vm_compute. reflexivity. Qed.

Theorem C16_unknown_tag : forall t, ~ In t (map fst dispatch_gen) -> generic_load_result_gen t = None.
Proof. intros t H. apply dispatch_unknown; [exact C16_default_branch|exact H]. Qed.

(* the whole dispatcher on an image whose first word is an unknown tag (all 2^32 of them, by membership) *)
Theorem C16_unknown_image : forall fuel t rest, t < 2 ^ 32 -> ~ In t (map fst dispatch_gen) ->
  generic_load ctx_gen fuel dispatch_gen dispatch_gen_default loader_guard (le_bytes 4 t ++ rest) = None.
Proof. intros fuel t rest Ht Hn. exact (generic_load_unknown ctx_gen fuel dispatch_gen dispatch_gen_default loader_guard t rest C16_default_branch Ht Hn). Qed.

(* every dictionary loader (and BitSequenceRG) has the guard right after the tag read; dictionary loaders return NULL *)
Theorem C16_all_guarded :
  forallb (fun c => match assoc c loader_guard, assoc c loader_guard_action with
                    | Some _, Some a => String.eqb a "return_null" | _, _ => false end) dict_classes = true.
Proof. vm_compute. reflexivity. Qed.

(* loader K' on an image that starts with another tag returns None *)
Theorem C16_foreign_image : forall K' g, assoc K' loader_guard = Some g ->
  forall fuel tbl sch t rest, t < 2 ^ 32 -> t <> g ->
  loader ctx_gen fuel g tbl sch (le_bytes 4 t ++ rest) = None.
Proof. intros. apply loader_foreign; assumption. Qed.

(* instance: any two dictionary classes have different guards, so each loader refuses every other kind's image *)
Theorem C16_guards_distinct : nodupN (map snd (filter (fun p => mem (fst p) dict_classes) loader_guard)) = true.
Proof. vm_compute. reflexivity. Qed.

(* ---------- C08 ---------- *)
(* classes whose loader overwrites `type` with something other than the class's tag while the saver writes `type` *)
(* (empty since the fix "HASHHF/HASHRPF/HASHRPDAC loaders overwrite the dictionary type with the load option") *)
Definition C08_tag_unstable : list string := [].
Theorem C08_tag_unstable_exact :
  filter (fun c => negb (tag_stable all_consts loader_guard tag_source tag_assign c)) (map fst tag_source) = C08_tag_unstable.
Proof. vm_compute. reflexivity. Qed.
Theorem C08_tag_unstable_assign :
  map (fun c => assoc c tag_assign) ["StringDictionaryHASHHF"; "StringDictionaryHASHRPF"; "StringDictionaryHASHRPDAC"] =
  [Some (AssignConst "HASHHF"); Some (AssignConst "HASHRPF"); Some (AssignConst "HASHRPDAC")].
Proof. vm_compute. reflexivity. Qed.
Theorem C08_tag_source_covers : map fst tag_source = dict_classes ++ ["BitSequenceRG"].
Proof. vm_compute. reflexivity. Qed.

(* save bodies contain no state change (delete-expression, write to a member) except the known finding F5 *)
Theorem C08_save_pure : save_side_effects = [("DecodingTree", "delete partree")].
Proof. vm_compute. reflexivity. Qed.

(* extra arguments of nested savers (RePair::save(out, encoding)) that are not constants *)
Theorem C08_nested_args_nonconst :
  filter (fun p => negb (snd (snd p))) save_nested_args = [("StringDictionaryHASHRPDAC", ("RePair", "type", false))].
Proof. vm_compute. reflexivity. Qed.

Print Assumptions C06_roundtrip_StringDictionaryPFC.
Print Assumptions C16_unknown_image.
Print Assumptions C16_foreign_image.
Print Assumptions C08_tag_unstable_exact.
