From LibCSD Require Import Base Bytes LogSeqDefs.
Local Open Scope N_scope.

Ltac Zify.zify_post_hook ::= Z.to_euclidean_division_equations.

(* ---- testbit specifications of the 64-bit primitives -------------------- *)

Lemma shl64_spec x s k : s < 64 ->
  N.testbit (shl64 x s) k = (k <? 64) && (s <=? k) && N.testbit x (k - s).
Proof.
  intros Hs. unfold shl64, W64. rewrite (N.mod_small s 64) by assumption.
  destruct (N.ltb_spec k 64) as [Hk|Hk]; cbn [andb].
  - rewrite N.mod_pow2_bits_low by assumption.
    destruct (N.leb_spec s k) as [Hsk|Hsk]; cbn [andb].
    + apply N.shiftl_spec_high'. assumption.
    + apply N.shiftl_spec_low. assumption.
  - apply N.mod_pow2_bits_high. assumption.
Qed.

Lemma shr64_spec x s k : s < 64 -> N.testbit (shr64 x s) k = N.testbit x (k + s).
Proof.
  intros Hs. unfold shr64. rewrite (N.mod_small s 64) by assumption.
  apply N.shiftr_spec'.
Qed.

Lemma not64_spec x k :
  N.testbit (not64 x) k = if k <? 64 then negb (N.testbit x k) else N.testbit x k.
Proof.
  unfold not64. destruct (N.ltb_spec k 64).
  - apply N.lnot_spec_low; assumption.
  - apply N.lnot_spec_high; assumption.
Qed.

Lemma ones64_spec k : N.testbit ones64 k = (k <? 64).
Proof.
  unfold ones64. destruct (N.ltb_spec k 64).
  - apply N.ones_spec_low; assumption.
  - apply N.ones_spec_high; assumption.
Qed.

Lemma shl64_lt x s : shl64 x s < W64.
Proof. unfold shl64. apply N.mod_lt. unfold W64. apply N.pow_nonzero; lia. Qed.

Definition word (d : N) : Prop := d < W64.

Lemma word_bit_high d k : word d -> 64 <= k -> N.testbit d k = false.
Proof. intros H Hk. apply (testbit_lt_pow2_false d k 64); assumption. Qed.

Lemma word_of_bits d : (forall k, 64 <= k -> N.testbit d k = false) -> word d.
Proof. intros H. apply lt_pow2_of_bits. exact H. Qed.

(* ---- list update -------------------------------------------------------- *)

Lemma upd_length {A} (l : list A) i x : length (upd l i x) = length l.
Proof. revert i; induction l as [|h t IH]; intros [|i]; simpl; auto. Qed.

Lemma nth_error_upd_same {A} (l : list A) i x : (i < length l)%nat -> nth_error (upd l i x) i = Some x.
Proof. revert i; induction l as [|h t IH]; intros [|i] H; simpl in *; try lia; auto. apply IH; lia. Qed.

Lemma nth_error_upd_other {A} (l : list A) i j x : i <> j -> nth_error (upd l i x) j = nth_error l j.
Proof.
  revert i j; induction l as [|h t IH]; intros [|i] [|j] H; simpl; auto; try congruence.
Qed.

Lemma nthN_updN_same {A} (l : list A) i x : i < lenN l -> nthN (updN l i x) i = Some x.
Proof. unfold nthN, updN, lenN. intros H. apply nth_error_upd_same. lia. Qed.

Lemma nthN_updN_other {A} (l : list A) i j x : i <> j -> nthN (updN l i x) j = nthN l j.
Proof. unfold nthN, updN. intros H. apply nth_error_upd_other. lia. Qed.

Lemma lenN_updN {A} (l : list A) i x : lenN (updN l i x) = lenN l.
Proof. unfold lenN, updN. rewrite upd_length. reflexivity. Qed.

(* ---- the array seen as one long bit string ------------------------------- *)

Definition wordbit (data : list N) (k : N) : bool :=
  match nthN data (k / 64) with
  | Some d => N.testbit d (k mod 64)
  | None => false
  end.

Definition words (data : list N) : Prop := Forall word data.

Lemma words_nth data i d : words data -> nthN data i = Some d -> word d.
Proof.
  unfold words, nthN. intros H E. rewrite Forall_forall in H. apply H.
  eapply nth_error_In; eauto.
Qed.

Lemma words_upd data i x : words data -> word x -> words (updN data i x).
Proof.
  unfold words, updN. generalize (N.to_nat i) as n. intros n H Hx. revert n.
  induction H as [|h t Hh Ht IH]; intros [|n]; simpl; constructor; auto.
Qed.

(* a field [idx] of width [w] lies inside the array *)
Definition in_range (data : list N) (w idx : N) : Prop := idx * w + w <= 64 * lenN data.

(* ---- get_field reads exactly the bits [idx*w, idx*w + w) ------------------ *)

Theorem get_field_bits data w idx :
  words data -> 1 <= w <= 64 -> in_range data w idx ->
  exists v, get_field data w idx = Some v /\
    forall t, N.testbit v t = (t <? w) && wordbit data (idx * w + t).
Proof.
  intros Hw Hrange Hin. unfold in_range in Hin. unfold get_field.
  set (bp := idx * w) in *.
  assert (Hi : bp / 64 < lenN data) by lia.
  destruct (nthN_lt_Some data (bp / 64) Hi) as [d Hd]. rewrite Hd.
  pose proof (words_nth _ _ _ Hw Hd) as Hdw.
  destruct (N.leb_spec (bp mod 64 + w) 64) as [Hfit|Hstr].
  - eexists; split; [reflexivity|]. intros t.
    rewrite shr64_spec by lia. rewrite shl64_spec by lia.
    destruct (N.ltb_spec t w) as [Htw|Htw]; cbn [andb].
    + destruct (N.ltb_spec (t + (64 - w)) 64); [|lia].
      destruct (N.leb_spec (64 - bp mod 64 - w) (t + (64 - w))); [|lia].
      cbn [andb]. unfold wordbit.
      replace ((bp + t) / 64) with (bp / 64) by lia.
      rewrite Hd. f_equal. lia.
    + destruct (N.ltb_spec (t + (64 - w)) 64); [lia|]. reflexivity.
  - assert (Hi1 : bp / 64 + 1 < lenN data) by lia.
    destruct (nthN_lt_Some data (bp / 64 + 1) Hi1) as [d1 Hd1]. rewrite Hd1.
    pose proof (words_nth _ _ _ Hw Hd1) as Hd1w.
    eexists; split; [reflexivity|]. intros t.
    rewrite N.lor_spec, !shr64_spec by lia. rewrite shl64_spec by lia.
    destruct (N.ltb_spec t w) as [Htw|Htw]; cbn [andb].
    + destruct (N.ltb_spec (t + bp mod 64) 64) as [Hlo|Hhi].
      * (* bit comes from the low word *)
        destruct (N.leb_spec (128 - bp mod 64 - w) (t + (64 - w))); [lia|].
        rewrite andb_false_r. cbn [andb]. rewrite orb_false_r.
        unfold wordbit. replace ((bp + t) / 64) with (bp / 64) by lia.
        rewrite Hd. f_equal. lia.
      * (* bit comes from the high word *)
        rewrite (word_bit_high d) by (auto; lia). cbn [orb].
        destruct (N.ltb_spec (t + (64 - w)) 64); [|lia].
        destruct (N.leb_spec (128 - bp mod 64 - w) (t + (64 - w))); [|lia].
        cbn [andb]. unfold wordbit.
        replace ((bp + t) / 64) with (bp / 64 + 1) by lia.
        rewrite Hd1. f_equal. lia.
    + rewrite (word_bit_high d) by (auto; lia). cbn [orb].
      destruct (N.ltb_spec (t + (64 - w)) 64); [lia|]. reflexivity.
Qed.

(* ---- field_mask --------------------------------------------------------- *)

Ltac bool_cases :=
  repeat match goal with
  | |- context [N.ltb ?a ?b] => destruct (N.ltb_spec a b)
  | |- context [N.leb ?a ?b] => destruct (N.leb_spec a b)
  end; cbn [andb orb negb]; try reflexivity; try lia.

Lemma field_mask_fixed_spec w k : 1 <= w <= 64 ->
  N.testbit (field_mask true w) k = (k <? w).
Proof.
  intros Hw. unfold field_mask. cbn [andb].
  destruct (N.leb_spec 64 w) as [Hge|Hne].
  - assert (w = 64) by lia. subst. apply ones64_spec.
  - rewrite not64_spec, shl64_spec by lia. rewrite ones64_spec. bool_cases.
Qed.

Lemma field_mask_pinned_spec w k : 1 <= w < 64 ->
  N.testbit (field_mask false w) k = (k <? w).
Proof.
  intros Hw. unfold field_mask. cbn [andb].
  rewrite not64_spec, shl64_spec by lia. rewrite ones64_spec. bool_cases.
Qed.

(* ---- set_field replaces exactly the bits [idx*w, idx*w + w) ---------------- *)

Section SetField.
Variable fixed : bool.
Variable w : N.
Hypothesis Hw : 1 <= w <= 64.
Hypothesis Hmask : forall k, N.testbit (field_mask fixed w) k = (k <? w).

Theorem set_field_bits data idx v :
  words data -> in_range data w idx -> v < 2 ^ w ->
  exists data', set_field_gen fixed data w idx v = Some data' /\
    words data' /\ lenN data' = lenN data /\
    forall k, wordbit data' k =
      if (idx * w <=? k) && (k <? idx * w + w) then N.testbit v (k - idx * w)
      else wordbit data k.
Proof.
  intros Hwords Hin Hv. unfold in_range in Hin. unfold set_field_gen.
  set (bp := idx * w) in *.
  assert (Hi : bp / 64 < lenN data) by lia.
  destruct (nthN_lt_Some data (bp / 64) Hi) as [d Hd]. rewrite Hd.
  pose proof (words_nth _ _ _ Hwords Hd) as Hdw.
  assert (Hvhigh : forall k, w <= k -> N.testbit v k = false)
    by (intros k Hk; apply (testbit_lt_pow2_false v k w); assumption).
  set (d' := N.lor (N.land d (not64 (shl64 (field_mask fixed w) (bp mod 64)))) (shl64 v (bp mod 64))).
  assert (Hd'bits : forall k, N.testbit d' k =
      if (bp mod 64 <=? k) && (k <? bp mod 64 + w) && (k <? 64) then N.testbit v (k - bp mod 64)
      else N.testbit d k).
  { intros k. unfold d'. rewrite N.lor_spec, N.land_spec, not64_spec, !shl64_spec by lia.
    rewrite Hmask.
    destruct (N.ltb_spec k 64) as [Hk|Hk]; cbn [andb].
    - destruct (N.leb_spec (bp mod 64) k) as [Hjk|Hjk]; cbn [andb].
      + destruct (N.ltb_spec (k - bp mod 64) w); destruct (N.ltb_spec k (bp mod 64 + w)); try lia; cbn [negb andb].
        * rewrite andb_false_r. reflexivity.
        * rewrite andb_true_r. rewrite Hvhigh by lia. apply orb_false_r.
      + cbn [negb]. rewrite andb_true_r. apply orb_false_r.
    - rewrite !andb_false_r. cbn [andb orb]. rewrite (word_bit_high d) by (auto; lia). reflexivity. }
  assert (Hd'w : word d').
  { apply word_of_bits. intros k Hk. rewrite Hd'bits.
    destruct (N.ltb_spec k 64); [lia|]. rewrite andb_false_r. apply word_bit_high; auto. }
  destruct (N.ltb_spec 64 (bp mod 64 + w)) as [Hstr|Hfit].
  - (* straddling *)
    assert (Hi1 : bp / 64 + 1 < lenN data) by lia.
    destruct (nthN_lt_Some data (bp / 64 + 1) Hi1) as [d1 Hd1]. rewrite Hd1.
    pose proof (words_nth _ _ _ Hwords Hd1) as Hd1w.
    set (d1' := N.lor (N.land d1 (shl64 ones64 (w + bp mod 64 - 64))) (shr64 v (64 - bp mod 64))).
    assert (Hd1'bits : forall k, N.testbit d1' k =
        if k <? w + bp mod 64 - 64 then N.testbit v (k + (64 - bp mod 64)) else N.testbit d1 k).
    { intros k. unfold d1'. rewrite N.lor_spec, N.land_spec, shl64_spec, shr64_spec by lia.
      rewrite ones64_spec.
      destruct (N.ltb_spec k (w + bp mod 64 - 64)) as [Hk|Hk].
      - destruct (N.leb_spec (w + bp mod 64 - 64) k); [lia|].
        rewrite !andb_false_r. reflexivity.
      - rewrite (Hvhigh (k + (64 - bp mod 64))) by lia. rewrite orb_false_r.
        destruct (N.ltb_spec k 64) as [Hk64|Hk64]; cbn [andb].
        + destruct (N.leb_spec (w + bp mod 64 - 64) k); [|lia]. cbn [andb].
          destruct (N.ltb_spec (k - (w + bp mod 64 - 64)) 64); [|lia]. apply andb_true_r.
        + rewrite andb_false_r. symmetry. apply word_bit_high; auto. }
    assert (Hd1'w : word d1').
    { apply word_of_bits. intros k Hk. rewrite Hd1'bits.
      destruct (N.ltb_spec k (w + bp mod 64 - 64)); [lia|]. apply word_bit_high; auto. }
    eexists; split; [reflexivity|]. split; [|split].
    + apply words_upd; [apply words_upd|]; assumption.
    + rewrite !lenN_updN. reflexivity.
    + intros k. unfold wordbit.
      destruct (N.eq_dec (k / 64) (bp / 64 + 1)) as [E1|E1].
      * rewrite E1. rewrite nthN_updN_same by (rewrite lenN_updN; assumption).
        rewrite Hd1'bits. rewrite Hd1.
        destruct (N.leb_spec bp k); [|lia]. cbn [andb].
        destruct (N.ltb_spec (k mod 64) (w + bp mod 64 - 64)); destruct (N.ltb_spec k (bp + w)); try lia.
        -- f_equal. lia.
        -- reflexivity.
      * rewrite nthN_updN_other by congruence.
        destruct (N.eq_dec (k / 64) (bp / 64)) as [E0|E0].
        -- rewrite E0. rewrite nthN_updN_same by assumption. rewrite Hd'bits, Hd.
           destruct (N.ltb_spec (k mod 64) 64); [|lia].
           destruct (N.leb_spec (bp mod 64) (k mod 64)); destruct (N.leb_spec bp k); try lia; cbn [andb].
           ++ destruct (N.ltb_spec (k mod 64) (bp mod 64 + w)); destruct (N.ltb_spec k (bp + w)); try lia; cbn [andb].
              f_equal. lia.
           ++ reflexivity.
        -- rewrite nthN_updN_other by congruence.
           destruct (N.leb_spec bp k); destruct (N.ltb_spec k (bp + w)); try lia; reflexivity.
  - (* the field lives in one word *)
    eexists; split; [reflexivity|]. split; [|split].
    + apply words_upd; assumption.
    + rewrite lenN_updN. reflexivity.
    + intros k. unfold wordbit.
      destruct (N.eq_dec (k / 64) (bp / 64)) as [E0|E0].
      * rewrite E0. rewrite nthN_updN_same by assumption. rewrite Hd'bits, Hd.
        destruct (N.ltb_spec (k mod 64) 64); [|lia].
        destruct (N.leb_spec (bp mod 64) (k mod 64)); destruct (N.leb_spec bp k); try lia; cbn [andb].
        -- destruct (N.ltb_spec (k mod 64) (bp mod 64 + w)); destruct (N.ltb_spec k (bp + w)); try lia; cbn [andb].
           ++ f_equal. lia.
           ++ reflexivity.
        -- reflexivity.
      * rewrite nthN_updN_other by congruence.
        destruct (N.leb_spec bp k); destruct (N.ltb_spec k (bp + w)); try lia; reflexivity.
Qed.

End SetField.

(* ---- the laws the property talks about ----------------------------------- *)

Lemma testbit_inj_low a b : (forall t, N.testbit a t = N.testbit b t) -> a = b.
Proof. apply N.bits_inj. Qed.

Theorem logseq_get_set data w idx v :
  words data -> 1 <= w <= 64 -> in_range data w idx -> v < 2 ^ w ->
  exists data', set_field data w idx v = Some data' /\ get_field data' w idx = Some v.
Proof.
  intros Hwords Hw Hin Hv.
  destruct (set_field_bits true w Hw (fun k => field_mask_fixed_spec w k Hw) data idx v Hwords Hin Hv)
    as (data' & Hset & Hwords' & Hlen & Hbits).
  exists data'. split; [exact Hset|].
  assert (Hin' : in_range data' w idx) by (unfold in_range in *; rewrite Hlen; exact Hin).
  destruct (get_field_bits data' w idx Hwords' Hw Hin') as (v' & Hget & Hv'). rewrite Hget. f_equal.
  apply N.bits_inj. intro t. rewrite Hv', Hbits.
  destruct (N.ltb_spec t w) as [Ht|Ht]; cbn [andb].
  - destruct (N.leb_spec (idx * w) (idx * w + t)); [|lia].
    destruct (N.ltb_spec (idx * w + t) (idx * w + w)); [|lia]. cbn [andb]. f_equal. lia.
  - symmetry. apply (testbit_lt_pow2_false v t w); assumption.
Qed.

Theorem logseq_set_frame data w idx idx' v :
  words data -> 1 <= w <= 64 -> in_range data w idx -> in_range data w idx' -> v < 2 ^ w ->
  idx' <> idx ->
  exists data', set_field data w idx v = Some data' /\ get_field data' w idx' = get_field data w idx'.
Proof.
  intros Hwords Hw Hin Hin' Hv Hne.
  destruct (set_field_bits true w Hw (fun k => field_mask_fixed_spec w k Hw) data idx v Hwords Hin Hv)
    as (data' & Hset & Hwords' & Hlen & Hbits).
  exists data'. split; [exact Hset|].
  assert (Hin2 : in_range data' w idx') by (unfold in_range in *; rewrite Hlen; exact Hin').
  destruct (get_field_bits data' w idx' Hwords' Hw Hin2) as (v1 & Hget1 & Hv1).
  destruct (get_field_bits data w idx' Hwords Hw Hin') as (v0 & Hget0 & Hv0).
  rewrite Hget1, Hget0. f_equal. apply N.bits_inj. intro t. rewrite Hv1, Hv0, Hbits.
  destruct (N.ltb_spec t w) as [Ht|Ht]; cbn [andb]; [|reflexivity].
  assert (Hdisj : idx' * w + t < idx * w \/ idx * w + w <= idx' * w + t) by nia.
  destruct (N.leb_spec (idx * w) (idx' * w + t)); destruct (N.ltb_spec (idx' * w + t) (idx * w + w));
    cbn [andb]; try reflexivity; lia.
Qed.

(* only words i and i+1 can change (model-level frame on the word array) *)
Theorem logseq_word_frame fixed data w idx v data' k :
  set_field_gen fixed data w idx v = Some data' ->
  k <> idx * w / 64 -> k <> idx * w / 64 + 1 -> nthN data' k = nthN data k.
Proof.
  unfold set_field_gen. intros H H0 H1.
  destruct (nthN data (idx * w / 64)) as [d|]; [|discriminate].
  destruct (64 <? idx * w mod 64 + w).
  - destruct (nthN data (idx * w / 64 + 1)) as [d1|]; [|discriminate].
    inversion H; subst. rewrite !nthN_updN_other by congruence. reflexivity.
  - inversion H; subst. rewrite nthN_updN_other by congruence. reflexivity.
Qed.

(* the pinned code is correct for widths 1..63 *)
Theorem logseq_get_set_pinned data w idx v :
  words data -> 1 <= w < 64 -> in_range data w idx -> v < 2 ^ w ->
  exists data', set_field_pinned data w idx v = Some data' /\ get_field data' w idx = Some v.
Proof.
  intros Hwords Hw Hin Hv.
  assert (Hw' : 1 <= w <= 64) by lia.
  destruct (set_field_bits false w Hw' (fun k => field_mask_pinned_spec w k Hw) data idx v Hwords Hin Hv)
    as (data' & Hset & Hwords' & Hlen & Hbits).
  exists data'. split; [exact Hset|].
  assert (Hin' : in_range data' w idx) by (unfold in_range in *; rewrite Hlen; exact Hin).
  destruct (get_field_bits data' w idx Hwords' Hw' Hin') as (v' & Hget & Hv'). rewrite Hget. f_equal.
  apply N.bits_inj. intro t. rewrite Hv', Hbits.
  destruct (N.ltb_spec t w) as [Ht|Ht]; cbn [andb].
  - destruct (N.leb_spec (idx * w) (idx * w + t)); [|lia].
    destruct (N.ltb_spec (idx * w + t) (idx * w + w)); [|lia]. cbn [andb]. f_equal. lia.
  - symmetry. apply (testbit_lt_pow2_false v t w); assumption.
Qed.

(* ... and wrong for width 64 when a non-zero field is overwritten: the mask is 0,
   so the store ORs.  Witness confirmed on the pinned implementation. *)
Theorem logseq_set64_overwrite_pinned_refuted :
  exists data v data', words data /\ v < 2 ^ 64 /\ in_range data 64 0 /\
    set_field_pinned data 64 0 v = Some data' /\ get_field data' 64 0 <> Some v.
Proof.
  exists [0xFFFF0000FFFF0000], 0x1234, [0xFFFF0000FFFF1234].
  split; [repeat constructor|]. split; [reflexivity|]. split; [vm_compute; discriminate|].
  split; [vm_compute; reflexivity|]. vm_compute. discriminate.
Qed.

(* ---- whole-object level: LogSequence(vector, numbits) then getField --------- *)

Lemma words_repeat0 n : words (repeat 0 n).
Proof. unfold words. apply Forall_forall. intros x Hx. apply repeat_spec in Hx. subst. unfold word, W64. apply pow2_pos. Qed.

Lemma lenN_repeat {A} (x : A) n : lenN (repeat x n) = N.of_nat n.
Proof. unfold lenN. rewrite repeat_length. reflexivity. Qed.

Lemma maxVal_spec w : 1 <= w <= 64 -> maxVal w = 2 ^ w - 1.
Proof.
  intros Hw. unfold maxVal.
  destruct (N.eqb_spec w 32) as [->|H32]; [reflexivity|].
  destruct (N.eqb_spec w 64) as [->|H64]; [reflexivity|].
  apply N.bits_inj. intro k.
  change (not64 (shl64 ones64 w)) with (field_mask false w).
  rewrite field_mask_pinned_spec by lia.
  rewrite <- N.pred_sub, <- N.ones_equiv.
  destruct (N.ltb_spec k w).
  - symmetry. apply N.ones_spec_low. assumption.
  - symmetry. apply N.ones_spec_high. assumption.
Qed.

Record ls_wf (s : logseq) : Prop := {
  wf_bits : 1 <= ls_bits s <= 64;
  wf_words : words (ls_data s);
  wf_len : lenN (ls_data s) = numElementsFor (ls_bits s) (ls_n s)
}.

Lemma ls_new_wf w n : 1 <= w <= 64 -> ls_wf (ls_new w n).
Proof.
  intros Hw. constructor; cbn [ls_new ls_bits ls_n ls_data].
  - exact Hw.
  - apply words_repeat0.
  - rewrite lenN_repeat. lia.
Qed.

Lemma ls_in_range s pos : ls_wf s -> pos < ls_n s -> in_range (ls_data s) (ls_bits s) pos.
Proof.
  intros [Hb Hw Hl] Hp. unfold in_range. rewrite Hl. unfold numElementsFor.
  assert (pos * ls_bits s + ls_bits s <= ls_bits s * ls_n s) by nia.
  lia.
Qed.

(* setting one position: the stored value is read back, all other positions keep
   their value, well-formedness is preserved *)
Theorem ls_set_spec s pos v :
  ls_wf s -> pos < ls_n s -> v < 2 ^ ls_bits s ->
  exists s', ls_set s pos v = Some s' /\ ls_wf s' /\ ls_n s' = ls_n s /\ ls_bits s' = ls_bits s /\
    ls_get s' pos = Some v /\
    forall pos', pos' < ls_n s -> pos' <> pos -> ls_get s' pos' = ls_get s pos'.
Proof.
  intros Hwf Hp Hv. pose proof (ls_in_range s pos Hwf Hp) as Hin.
  destruct Hwf as [Hb Hw Hl].
  destruct (set_field_bits true (ls_bits s) Hb (fun k => field_mask_fixed_spec _ k Hb) (ls_data s) pos v Hw Hin Hv)
    as (data' & Hset & Hwords' & Hlen & Hbits).
  unfold ls_set. destruct (N.ltb_spec (ls_n s) pos); [lia|].
  rewrite maxVal_spec by assumption.
  destruct (N.ltb_spec (2 ^ ls_bits s - 1) v); [lia|].
  unfold set_field. rewrite Hset.
  eexists; split; [reflexivity|].
  assert (Hwf' : ls_wf {| ls_bits := ls_bits s; ls_n := ls_n s; ls_data := data' |}).
  { constructor; cbn [ls_bits ls_n ls_data]; auto. rewrite Hlen. exact Hl. }
  split; [exact Hwf'|]. split; [reflexivity|]. split; [reflexivity|]. split.
  - unfold ls_get; cbn [ls_bits ls_n ls_data]. destruct (N.ltb_spec (ls_n s) pos); [lia|].
    destruct (logseq_get_set (ls_data s) (ls_bits s) pos v Hw Hb Hin Hv) as (d2 & Hs2 & Hg2).
    unfold set_field in Hs2. rewrite Hset in Hs2. inversion Hs2; subst. exact Hg2.
  - intros pos' Hp' Hne. unfold ls_get; cbn [ls_bits ls_n ls_data].
    destruct (N.ltb_spec (ls_n s) pos'); [lia|].
    assert (Hin' : in_range (ls_data s) (ls_bits s) pos')
      by (apply ls_in_range; [constructor; auto|assumption]).
    destruct (logseq_set_frame (ls_data s) (ls_bits s) pos pos' v Hw Hb Hin Hin' Hv Hne) as (d2 & Hs2 & Hg2).
    unfold set_field in Hs2. rewrite Hset in Hs2. inversion Hs2; subst. exact Hg2.
Qed.

Lemma ls_fill_spec : forall vs s i,
  ls_wf s -> i + lenN vs <= ls_n s -> Forall (fun v => v < 2 ^ ls_bits s) vs ->
  exists s', ls_fill s i vs = Some s' /\ ls_wf s' /\ ls_n s' = ls_n s /\ ls_bits s' = ls_bits s /\
    (forall k, k < lenN vs -> ls_get s' (i + k) = nthN vs k) /\
    (forall p, p < i -> ls_get s' p = ls_get s p).
Proof.
  induction vs as [|v vs IH]; intros s i Hwf Hlen Hvs; cbn [ls_fill].
  - exists s. split; [reflexivity|]. split; [assumption|]. split; [reflexivity|]. split; [reflexivity|]. split.
    + intros k Hk. rewrite lenN_nil in Hk. lia.
    + intros; reflexivity.
  - rewrite lenN_cons in Hlen. inversion Hvs as [|? ? Hv Hvs']; subst.
    destruct (ls_set_spec s i v Hwf ltac:(lia) Hv) as (s1 & Hs1 & Hwf1 & Hn1 & Hb1 & Hget1 & Hframe1).
    rewrite Hs1.
    destruct (IH s1 (i + 1) Hwf1 ltac:(rewrite Hn1; lia) ltac:(rewrite Hb1; exact Hvs'))
      as (s' & Hs' & Hwf' & Hn' & Hb' & Hget' & Hframe').
    exists s'. split; [exact Hs'|]. split; [exact Hwf'|]. split; [congruence|]. split; [congruence|]. split.
    + intros k Hk. rewrite lenN_cons in Hk.
      destruct (N.eq_dec k 0) as [->|Hk0].
      * rewrite N.add_0_r. rewrite Hframe' by lia. exact Hget1.
      * replace (i + k) with (i + 1 + (k - 1)) by lia. rewrite Hget' by lia.
        unfold nthN. replace (N.to_nat k) with (S (N.to_nat (k - 1))) by lia. reflexivity.
    + intros p Hp. rewrite Hframe' by lia. apply Hframe1; lia.
Qed.

(* LogSequence(vector, numbits): every position reads back the value of the vector *)
Theorem ls_of_list_get vs w :
  1 <= w <= 64 -> Forall (fun v => v < 2 ^ w) vs ->
  exists s, ls_of_list vs w = Some s /\ ls_wf s /\ ls_n s = lenN vs /\
    forall k, k < lenN vs -> ls_get s k = nthN vs k.
Proof.
  intros Hw Hvs. unfold ls_of_list.
  destruct (ls_fill_spec vs (ls_new w (lenN vs)) 0 (ls_new_wf w (lenN vs) Hw)) as (s & Hs & Hwf & Hn & Hb & Hget & _).
  - cbn [ls_new ls_n]. lia.
  - exact Hvs.
  - exists s. split; [exact Hs|]. split; [exact Hwf|]. split; [exact Hn|].
    intros k Hk. specialize (Hget k Hk). rewrite N.add_0_l in Hget. exact Hget.
Qed.

(* ---- save / load ----------------------------------------------------------- *)

Lemma ls_padded_bytes_words w n : ls_padded_bytes w n = 8 * numElementsFor w n.
Proof.
  unfold ls_padded_bytes, numBytesFor, numElementsFor.
  destruct (N.eqb_spec (((w * n + 7) / 8) mod 8) 0); lia.
Qed.

Lemma words_of_bytes_flat data rest : words data ->
  words_of_bytes (length data) (flat_map (le_bytes 8) data ++ rest) = data.
Proof.
  induction 1 as [|d t Hd Ht IH]; [reflexivity|].
  cbn [length flat_map words_of_bytes]. rewrite <- app_assoc.
  rewrite firstn_app_exact by apply le_bytes_length.
  rewrite skipn_app_exact by apply le_bytes_length.
  rewrite le_value_le_bytes by (exact Hd). rewrite IH. reflexivity.
Qed.

Lemma flat_le_bytes_length data : length (flat_map (le_bytes 8) data) = (8 * length data)%nat.
Proof. induction data; cbn [flat_map]; [reflexivity|]. rewrite app_length, le_bytes_length, IHdata. cbn [length]. lia. Qed.

Theorem logseq_load_save s rest :
  ls_wf s -> ls_bits s < 256 -> ls_n s < 2 ^ 64 ->
  ls_load (ls_save s ++ rest) = Some (s, rest).
Proof.
  intros [Hb Hw Hl] Hb8 Hn. unfold ls_save.
  rewrite ls_padded_bytes_words.
  assert (Hlen : length (ls_data s) = N.to_nat (numElementsFor (ls_bits s) (ls_n s)))
    by (unfold lenN in Hl; lia).
  assert (Hall : firstn (N.to_nat (8 * numElementsFor (ls_bits s) (ls_n s))) (flat_map (le_bytes 8) (ls_data s))
                 = flat_map (le_bytes 8) (ls_data s)).
  { apply firstn_all2. rewrite flat_le_bytes_length. lia. }
  rewrite Hall.
  change (le_bytes 1 (ls_bits s)) with [ls_bits s mod 256]. cbn [app]. unfold ls_load.
  rewrite N.mod_small by assumption.
  rewrite <- app_assoc.
  destruct (Nat.ltb_spec (length (le_bytes 8 (ls_n s) ++ flat_map (le_bytes 8) (ls_data s) ++ rest)) 8) as [Hlt|_].
  { rewrite app_length, le_bytes_length in Hlt. lia. }
  rewrite firstn_app_exact by apply le_bytes_length.
  rewrite skipn_app_exact by apply le_bytes_length.
  rewrite le_value_le_bytes by (change (256 ^ N.of_nat 8) with (2 ^ 64); exact Hn).
  rewrite ls_padded_bytes_words.
  destruct (Nat.ltb_spec (length (flat_map (le_bytes 8) (ls_data s) ++ rest)) (N.to_nat (8 * numElementsFor (ls_bits s) (ls_n s)))) as [Hlt|_].
  { rewrite app_length, flat_le_bytes_length in Hlt. lia. }
  assert (Hfl : length (flat_map (le_bytes 8) (ls_data s)) = N.to_nat (8 * numElementsFor (ls_bits s) (ls_n s)))
    by (rewrite flat_le_bytes_length; lia).
  rewrite firstn_app_exact by exact Hfl.
  rewrite skipn_app_exact by exact Hfl.
  replace (N.to_nat (8 * numElementsFor (ls_bits s) (ls_n s) / 8)) with (length (ls_data s)).
  - rewrite <- (app_nil_r (flat_map (le_bytes 8) (ls_data s))).
    rewrite words_of_bytes_flat by exact Hw. destruct s; reflexivity.
  - rewrite Hlen. f_equal. rewrite N.mul_comm, N.div_mul by lia. reflexivity.
Qed.
