(* Dictionary-level theorems for HASHHF (model: HashHFDefs.v), composed from
   CodesProofs / HTCompareProofs / HTFCProofs (bit packing of encodeString, memcmp on the bytes that exist),
   HashProofs (double hashing, IDs, the three stored representations) and HashDictProofs (the shared probe loop,
   `answers_by`).  Every occupied cell's decoding is CHECKED (hashhf_check runs the model's own decoder over the
   dumped text); what is PROVED is that locate - encode, probe, scmp on the encoded bytes - finds exactly the cell of
   a member and nothing for a non-member, without reading outside textStrings, in all three hash representations. *)
From LibCSD Require Import Base Spec SpecProofs PFCLayout PFCDefs LexLemmas CodesDefs CodesProofs HTCompareProofs
  RePairDefs RePairProofs HTFCDefs HTFCProofs HashDefs HashProofs HashDictDefs HashDictProofs HashHFDefs.
From Coq Require Import Permutation Sorted.
Require Import Lia ZifyBool ZifyNat ZifyN.
Ltac Zify.zify_post_hook ::= Z.to_euclidean_division_equations.
Local Open Scope N_scope.

(* ---------------------------------------------------------------------------------------- *)
(* 1. Hash::scmp = memcmp on the bytes that exist                                             *)

Lemma hh_scmp_avail text : forall w pos, pos <= lenN text ->
  hh_scmp text pos w =
  match memcmp_avail (skipN pos text) w with Some Eq => Some true | Some _ => Some false | None => None end.
Proof.
  induction w as [|x r IH]; intros pos Hp; cbn [hh_scmp].
  - rewrite memcmp_avail_nil. reflexivity.
  - rewrite rdN_nthN. unfold nthN, skipN.
    destruct (nth_error text (N.to_nat pos)) as [y|] eqn:E.
    + rewrite (skipn_nth_error_cons _ _ _ E). cbn [memcmp_avail].
      assert (Hlt : pos + 1 <= lenN text).
      { assert (N.to_nat pos < length text)%nat by (apply nth_error_Some; congruence). unfold lenN. lia. }
      destruct (N.eqb_spec x y) as [->|Hne].
      * rewrite N.compare_refl. rewrite (IH (pos + 1) Hlt). unfold skipN.
        replace (N.to_nat (pos + 1)) with (S (N.to_nat pos)) by lia. reflexivity.
      * destruct (N.compare_spec y x) as [->|L|G]; [congruence|reflexivity|reflexivity].
    + apply nth_error_None in E. rewrite skipn_all2 by lia. reflexivity.
Qed.

Lemma memcmp_avail_refl : forall a, memcmp_avail a a = Some Eq.
Proof. induction a as [|x a IH]; cbn [memcmp_avail]; [reflexivity|]. rewrite N.compare_refl. exact IH. Qed.

(* ---------------------------------------------------------------------------------------- *)
(* 2. first difference of two NUL-terminated symbol strings under a prefix-free code           *)

Lemma not_prefix_split : forall a b : list bool, ~ is_prefix a b -> ~ is_prefix b a ->
  exists m bx x y, a = m ++ bx :: x /\ b = m ++ negb bx :: y.
Proof.
  induction a as [|h a IH]; intros b Hab Hba.
  - exfalso. apply Hab. exists b. reflexivity.
  - destruct b as [|h' b].
    + exfalso. apply Hba. exists (h :: a). reflexivity.
    + destruct (Bool.bool_dec h h') as [->|Hne].
      * destruct (IH b) as (m & bx & x & y & -> & ->).
        { intros P. apply Hab. apply is_prefix_cons. auto. }
        { intros P. apply Hba. apply is_prefix_cons. auto. }
        exists (h' :: m), bx, x, y. auto.
      * exists [], h, a, b. split; [reflexivity|]. cbn [app]. f_equal. destruct h, h'; try reflexivity; congruence.
Qed.

Lemma pf_codes_split cws a b ca cb :
  prefix_free (table_codes cws) -> a <> b -> nthN cws a = Some ca -> nthN cws b = Some cb ->
  exists m bx x y, cw_bits ca = m ++ bx :: x /\ cw_bits cb = m ++ negb bx :: y.
Proof.
  intros PF Hab Ha Hb. apply nthN_table_codes in Ha. apply nthN_table_codes in Hb.
  apply not_prefix_split; intros P.
  - pose proof (PF _ _ _ _ Ha Hb P). lia.
  - pose proof (PF _ _ _ _ Hb Ha P). lia.
Qed.

(* the encodings of two different NUL-free strings, each followed by its NUL, differ at a bit position that lies
   inside BOTH encodings (never in padding or in what follows) *)
Lemma enc_first_diff_pf cws : prefix_free (table_codes cws) ->
  forall h q es et, nul_free h -> nul_free q -> h <> q ->
  encode_bits cws (h ++ [0]) = Some es -> encode_bits cws (q ++ [0]) = Some et ->
  exists m bx x y, es = m ++ bx :: x /\ et = m ++ negb bx :: y.
Proof.
  intros PF. induction h as [|a h IH]; intros q es et Fh Fq Hne Hs Ht.
  - destruct q as [|b q]; [congruence|]. inversion Fq as [|? ? Hb _]; subst.
    cbn [app] in Hs, Ht.
    apply encode_bits_cons_inv in Hs. destruct Hs as [c0 [e0 [H0 [_ ->]]]].
    apply encode_bits_cons_inv in Ht. destruct Ht as [cb [eb [Hcb [_ ->]]]].
    destruct (pf_codes_split cws 0 b c0 cb PF ltac:(congruence) H0 Hcb) as (m & bx & x & y & -> & ->).
    exists m, bx, (x ++ e0), (y ++ eb). rewrite <- !app_assoc. cbn [app]. auto.
  - inversion Fh as [|? ? Ha Fh']; subst.
    destruct q as [|b q].
    + cbn [app] in Hs, Ht.
      apply encode_bits_cons_inv in Hs. destruct Hs as [ca [ea [Hca [_ ->]]]].
      apply encode_bits_cons_inv in Ht. destruct Ht as [c0 [e0 [H0 [_ ->]]]].
      destruct (pf_codes_split cws a 0 ca c0 PF Ha Hca H0) as (m & bx & x & y & -> & ->).
      exists m, bx, (x ++ ea), (y ++ e0). rewrite <- !app_assoc. cbn [app]. auto.
    + inversion Fq as [|? ? Hb Fq']; subst.
      rewrite <- !app_comm_cons in Hs, Ht.
      apply encode_bits_cons_inv in Hs. destruct Hs as [ca [ea [Hca [Hea ->]]]].
      apply encode_bits_cons_inv in Ht. destruct Ht as [cb [eb [Hcb [Heb ->]]]].
      destruct (N.eq_dec a b) as [->|Hab].
      * rewrite Hca in Hcb. injection Hcb as <-.
        destruct (IH q ea eb Fh' Fq' ltac:(congruence) Hea Heb) as (m & bx & x & y & -> & ->).
        exists (cw_bits ca ++ m), bx, x, y. rewrite <- !app_assoc. auto.
      * destruct (pf_codes_split cws a b ca cb PF Hab Hca Hcb) as (m & bx & x & y & -> & ->).
        exists m, bx, (x ++ ea), (y ++ eb). rewrite <- !app_assoc. cbn [app]. auto.
Qed.

(* ---------------------------------------------------------------------------------------- *)
(* 3. encodeString, and scmp of an encoded pattern against a stored encoding                   *)

Definition hh_code_ok (cws : list cw) : Prop :=
  lenN cws = 256 /\ check_prefix_free cws = true /\ check_lengths cws = true.

Lemma hh_code_chk_sound cws : hh_code_chk cws = true -> hh_code_ok cws.
Proof. unfold hh_code_chk, hh_code_ok. rewrite !andb_true_iff, N.eqb_eq. tauto. Qed.

Lemma hh_encode_pack cws s bytes : hh_encode cws s = Some bytes -> exists off, pack_string cws s = Some (bytes, off).
Proof.
  unfold hh_encode, pack_string. destruct (pack_symbols cws s ([], 0, 0)) as [st|]; [|discriminate].
  destruct (lenN (fst (fst st)) <? 4 * lenN s + 1); [|discriminate]. intros H. injection H as <-. eauto.
Qed.

Lemma encode_bits_len32 cws : lengths_ok cws -> forall s enc,
  encode_bits cws s = Some enc -> N.of_nat (length enc) <= 32 * lenN s.
Proof.
  intros F. induction s as [|x s IH]; intros enc E.
  - cbn in E. inversion E; subst. cbn. lia.
  - rewrite encode_bits_cons in E. destruct (nthN cws x) as [c|] eqn:Hc; [|discriminate].
    cbn [option_map] in E. destruct (encode_bits cws s) as [e|]; [|discriminate]. inversion E; subst.
    specialize (IH _ eq_refl). rewrite app_length, cw_bits_length, lenN_cons.
    unfold lengths_ok in F. rewrite Forall_forall in F.
    assert (1 <= snd c <= 32 /\ fst c < 2 ^ snd c) by (apply F; eapply nth_error_In; exact Hc). lia.
Qed.

(* encodeString never leaves its allocation and never meets a symbol without a codeword *)
Lemma hh_encode_total cws s : hh_code_ok cws -> Forall (fun x => x < 256) s -> exists bytes, hh_encode cws s = Some bytes.
Proof.
  intros (Hlen & CP & CL) Fs.
  assert (Fs' : Forall (fun x => x < lenN cws) s) by (rewrite Hlen; exact Fs).
  destruct (pack_symbols_total cws s ([], 0, 0) Fs') as [st' E].
  destruct (pack_bits_bytes cws s _ st' [] (check_lengths_sound _ CL) pinv_init E) as [enc [Ee [_ Hl]]].
  pose proof (encode_bits_len32 _ (check_lengths_sound _ CL) _ _ Ee) as H32.
  exists (final_bytes st'). unfold hh_encode. rewrite E.
  destruct (N.ltb_spec (lenN (fst (fst st'))) (4 * lenN s + 1)) as [_|Hbad]; [reflexivity|].
  exfalso. cbn [length Nat.add] in Hl. lia.
Qed.

(* scmp(offset of a stored key k, encoding of q, its length): 0 iff k = q, and every byte it reads exists *)
Lemma hh_scmp_cell cws text o k q enck encq :
  hh_code_ok cws -> Forall (fun v => v < 256) text -> nul_free k -> nul_free q ->
  hh_encode cws (k ++ [0]) = Some enck -> hh_encode cws (q ++ [0]) = Some encq ->
  o <= lenN text -> (exists rest, skipN o text = enck ++ rest) ->
  hh_scmp text o encq = Some (hbytes_eqb k q).
Proof.
  intros (Hlen & CP & CL) Ft Fk Fq Ek Eq Ho (rest & Hrest).
  pose proof (check_prefix_free_sound _ CP) as PF. pose proof (check_lengths_sound _ CL) as LO.
  rewrite hh_scmp_avail by exact Ho. rewrite Hrest.
  destruct (hh_encode_pack _ _ _ Ek) as (ok & Pk). destruct (hh_encode_pack _ _ _ Eq) as (oq & Pq).
  destruct (list_eq_dec N.eq_dec k q) as [E|NE].
  - subst q. rewrite Ek in Eq. injection Eq as <-. rewrite key_eqb_refl.
    rewrite memcmp_avail_app_l by lia. rewrite memcmp_avail_refl. reflexivity.
  - rewrite (key_eqb_neq _ _ NE).
    destruct (pack_string_bits cws _ enck ok LO Pk) as [ek [Eek [Bk _]]].
    destruct (pack_string_bits cws _ encq oq LO Pq) as [eq [Eeq [Bq _]]].
    destruct (enc_first_diff_pf cws PF k q ek eq Fk Fq NE Eek Eeq) as (m & bx & x & y & -> & ->).
    assert (Fr : Forall (fun v => v < 256) (enck ++ rest)).
    { rewrite <- Hrest. unfold skipN. rewrite <- (firstn_skipn (N.to_nat o) text) in Ft. apply Forall_app in Ft. tauto. }
    rewrite (memcmp_avail_bits_decided (enck ++ rest) encq m bx
               (x ++ repeat false (N.to_nat ((8 - ok) mod 8)) ++ bits_of_bytes rest) (y ++ repeat false (N.to_nat ((8 - oq) mod 8)))).
    + destruct bx; reflexivity.
    + exact Fr.
    + exact (pack_string_bytes _ _ _ _ Pq).
    + rewrite bits_of_bytes_app, Bk, <- !app_assoc. reflexivity.
    + rewrite Bq, <- !app_assoc. reflexivity.
Qed.

(* ---------------------------------------------------------------------------------------- *)
(* 4. the iterative probe of HashBdh / HashBBdh simulates HashDefs.dh_search                   *)

Section IterSim.
  Variable probe : N -> hd_pres.
  Variable t : dh_table.
  Variable q : hbytes.
  Hypothesis probe_sim : forall c, probe c = probe_res t q c.

  Lemma hh_iter_loop_sim fuel : forall m h2 hval,
    hh_iter_loop probe fuel m h2 hval = sres_ans t (dh_search_loop fuel t q m h2 hval).
  Proof.
    induction fuel as [|f IH]; intros m h2 hval; cbn [hh_iter_loop dh_search_loop]; [reflexivity|].
    rewrite probe_sim. unfold probe_res.
    destruct (nthN t (dh_step m h2 hval)) as [[k|]|]; cbn [sres_ans]; try reflexivity.
    destruct (hbytes_eqb k q); cbn [sres_ans]; [reflexivity|]. apply IH.
  Qed.

  Lemma hh_search_iter_sim bits h1 h2 : length bits = length t ->
    hh_search_iter probe bits h1 h2 = dh_locate t (mkHKey q h1 h2).
  Proof.
    intros Hl. unfold hh_search_iter, dh_locate, dh_search. cbn [hk_h1 hk_h2 hk_key].
    rewrite probe_sim. unfold probe_res.
    destruct (nthN t h1) as [[k|]|]; try reflexivity.
    destruct (hbytes_eqb k q); [reflexivity|].
    replace (lenN bits) with (lenN t) by (unfold lenN; rewrite Hl; reflexivity). rewrite Hl.
    rewrite hh_iter_loop_sim. reflexivity.
  Qed.
End IterSim.

(* ---------------------------------------------------------------------------------------- *)
(* 5. the decoder does not look at the hash representation                                    *)

Definition hh_set_repr (d : hashhf) (r : hrepr) : hashhf :=
  mk_hashhf (hh_elements d) (hh_maxlength d) (hh_maxcomplength d) (hh_text d) (hh_cw d) (hh_k d)
            (hh_stream d) (hh_tab d) (hh_endings d) (hh_trees d) r.

Lemma hh_process_chunk_repr d r cap b a : hh_process_chunk (hh_set_repr d r) cap b a = hh_process_chunk d cap b a.
Proof. destruct d; reflexivity. Qed.

Lemma hh_xloop_repr d r cap : forall fuel b a, hh_xloop fuel (hh_set_repr d r) cap b a = hh_xloop fuel d cap b a.
Proof.
  induction fuel as [|f IH]; intros b a; cbn [hh_xloop]; [reflexivity|].
  rewrite hh_process_chunk_repr. destruct (hh_process_chunk d cap b a) as [[[b' a'] [|]]|]; auto.
Qed.

Lemma hh_extract_at_repr d r off : hh_extract_at (hh_set_repr d r) off = hh_extract_at d off.
Proof.
  unfold hh_extract_at. change (hh_cap (hh_set_repr d r)) with (hh_cap d).
  change (hh_maxcomplength (hh_set_repr d r)) with (hh_maxcomplength d). rewrite hh_xloop_repr. reflexivity.
Qed.

(* ---------------------------------------------------------------------------------------- *)
(* 6. well-formed objects                                                                     *)

(* the offset o points at the bytes encodeString(k, |k| + 1) produces *)
Definition hh_cell_ok (cws : list cw) (text : list N) (k : str) (o : N) : Prop :=
  exists enc, hh_encode cws (k ++ [0]) = Some enc /\ o <= lenN text /\ exists rest, skipN o text = enc ++ rest.

Definition hh_key_ok (k : str) : Prop := nul_free k /\ Forall (fun b => b < 256) k /\ lenN k + 1 < 2 ^ 32.

Record hashhf_wf (d : hashhf) (ks : list hkey) (t : dh_table) (ot : dh_otable) : Prop := {
  hw_ok : dh_build_ok (lenN (hr_bits (hh_repr d))) ks = true;
  hw_build : exists cs, dh_build (lenN (hr_bits (hh_repr d))) ks = Some (t, cs);
  hw_bits_t : hr_bits (hh_repr d) = dh_bits_of t;
  hw_bits_ot : dh_bits_of ot = dh_bits_of t;
  hw_repr : repr_ok (hh_repr d) ot;
  hw_code : hh_code_ok (hh_cw d);
  hw_text : Forall (fun v => v < 256) (hh_text d);
  hw_cells : Forall2 (hh_cell_ok (hh_cw d) (hh_text d)) (dh_tdict t) (hd_occ ot);
  hw_ext : forall j k off, nth_error (dh_tdict t) j = Some k -> nth_error (hd_occ ot) j = Some off ->
           hh_fin (hh_extract_at d off) = Some (Some k);
  hw_keys : Forall hh_key_ok (map hk_key ks);
  hw_n1 : 1 <= lenN ks;
  hw_el : hh_elements d = lenN ks
}.

Lemma Forall2_nth_error {A B} (P : A -> B -> Prop) : forall l1 l2 j a b,
  Forall2 P l1 l2 -> nth_error l1 j = Some a -> nth_error l2 j = Some b -> P a b.
Proof.
  intros l1 l2 j a b F. revert j. induction F as [|x y l1 l2 Hxy F IH]; intros [|j] Ha Hb; cbn [nth_error] in *; try discriminate.
  - inversion Ha; inversion Hb; subst. exact Hxy.
  - eapply IH; eassumption.
Qed.

Lemma Forall2_length' {A B} (P : A -> B -> Prop) l1 l2 : Forall2 P l1 l2 -> length l1 = length l2.
Proof. induction 1; cbn [length]; congruence. Qed.

Section HashHF.
  Variables (d : hashhf) (ks : list hkey) (t : dh_table) (ot : dh_otable).
  Hypothesis Hwf : hashhf_wf d ks t ot.

  Let T : list str := dh_tdict t.
  Let bits := hr_bits (hh_repr d).

  Lemma hhf_lenT : lenN T = lenN ks.
  Proof. destruct (hw_build _ _ _ _ Hwf) as (cs & Hb). apply (tf_len _ _ _ _ Hb). Qed.

  Lemma hhf_len_occ : lenN (hd_occ ot) = lenN ks.
  Proof.
    rewrite <- hhf_lenT. unfold lenN, T. rewrite (Forall2_length' _ _ _ (hw_cells _ _ _ _ Hwf)). reflexivity.
  Qed.

  Lemma hhf_T_keys k : In k T -> In k (map hk_key ks).
  Proof. destruct (hw_build _ _ _ _ Hwf) as (cs & Hb). apply (tf_in _ _ _ _ Hb). Qed.

  Lemma hhf_T_ok k : In k T -> hh_key_ok k.
  Proof.
    intros Hin. pose proof (hw_keys _ _ _ _ Hwf) as H. rewrite Forall_forall in H. apply H. apply hhf_T_keys. exact Hin.
  Qed.

  (* an occupied cell: its key, the offset stored for it, the encoded key at that offset *)
  Lemma hhf_cell c k : nthN t c = Some (Some k) ->
    In k T /\ nthN bits c = Some true /\ dh_rank1 bits c = dh_id_of_cell t c /\
    exists o, hr_getValuePos (hh_repr d) c = Some o /\ hh_cell_ok (hh_cw d) (hh_text d) k o.
  Proof.
    intros Hc. destruct (id_of_cell_spec t c k Hc) as [[H1 H2] H3]. fold T in H2, H3.
    split; [eapply nthN_In; exact H3|].
    unfold bits. rewrite (hw_bits_t _ _ _ _ Hwf). split; [rewrite bits_of_nthN, Hc; reflexivity|]. split; [reflexivity|].
    assert (Hoc : exists o', nthN ot c = Some (Some o')).
    { pose proof (bits_of_nthN ot c) as B. rewrite (hw_bits_ot _ _ _ _ Hwf), bits_of_nthN, Hc in B. cbn in B.
      destruct (nthN ot c) as [[o'|]|]; cbn in B; try discriminate. eauto. }
    destruct Hoc as (o' & Ho').
    destruct (rank_occ ot (N.to_nat c) o' Ho') as [_ R]. rewrite (hw_bits_ot _ _ _ _ Hwf) in R.
    change (dh_count1 (firstn (S (N.to_nat c)) (dh_bits_of t))) with (dh_id_of_cell t c) in R.
    rewrite <- hd_occ_occ in R.
    exists o'. split.
    - destruct (hw_repr _ _ _ _ Hwf) as (_ & Hp & _). apply Hp. exact Ho'.
    - exact (Forall2_nth_error _ _ _ _ _ _ (hw_cells _ _ _ _ Hwf) H3 R).
  Qed.

  Lemma hhf_probe_sim q encq : nul_free q -> hh_encode (hh_cw d) (q ++ [0]) = Some encq ->
    forall c, hh_probe d encq c = probe_res t q c.
  Proof.
    intros Hq Eq c. unfold hh_probe, probe_res. fold bits.
    destruct (nthN t c) as [[k|]|] eqn:Ec.
    - destruct (hhf_cell c k Ec) as (Hin & Hb & Hr & o & Eo & (enck & Ek & Hol & Hrest)). rewrite Hb, Eo.
      destruct (hhf_T_ok k Hin) as (Hk & _).
      rewrite (hh_scmp_cell (hh_cw d) (hh_text d) o k q enck encq (hw_code _ _ _ _ Hwf) (hw_text _ _ _ _ Hwf) Hk Hq Ek Eq Hol Hrest).
      rewrite Hr. destruct (hbytes_eqb k q); reflexivity.
    - unfold bits. rewrite (hw_bits_t _ _ _ _ Hwf), bits_of_nthN, Ec. reflexivity.
    - unfold bits. rewrite (hw_bits_t _ _ _ _ Hwf), bits_of_nthN, Ec. reflexivity.
  Qed.

  Lemma firstN_pattern (q : str) : lenN q + 1 < 2 ^ 32 -> firstN (wu32 (lenN q + 1)) (q ++ [0]) = q ++ [0].
  Proof.
    intros H. unfold wu32. rewrite N.mod_small by exact H. unfold firstN. apply firstn_all2.
    rewrite app_length. cbn [length]. unfold lenN. lia.
  Qed.

  (* locate: the answer of the abstract table (multiplicative probe for Hashdh, iterative for the other two) *)
  Lemma hashhf_locate_dh hq : hh_key_ok (hk_key hq) ->
    hashhf_locate d hq = match hh_repr d with RDh _ => dh_locate_mul t hq | _ => dh_locate t hq end.
  Proof.
    intros (Hq & Hb & Hl). unfold hashhf_locate. rewrite firstN_pattern by exact Hl.
    destruct (hh_encode_total (hh_cw d) (hk_key hq ++ [0]) (hw_code _ _ _ _ Hwf)) as (enc & Ee).
    { apply Forall_app. split; [exact Hb|]. constructor; [lia|constructor]. }
    rewrite Ee. pose proof (hhf_probe_sim (hk_key hq) enc Hq Ee) as Hp.
    assert (Hlen : length (hr_bits (hh_repr d)) = length t) by (rewrite (hw_bits_t _ _ _ _ Hwf); apply bits_of_length).
    destruct (hh_repr d) as [f|b0 c0|b0 o0] eqn:Er.
    - destruct (hd_locate_sim (fun (_ : unit) c => (hh_probe d enc c, tt)) t (hk_key hq) (fun _ => True))
        with (bits := hr_bits (RDh f)) (b := tt) (h1 := hk_h1 hq) (h2 := hk_h2 hq) as [E1 _].
      + intros b c _. cbn [fst snd]. split; [apply Hp|exact I].
      + exact Hlen.
      + exact I.
      + rewrite E1. destruct hq; reflexivity.
    - rewrite (hh_search_iter_sim (hh_probe d enc) t (hk_key hq) Hp _ _ _ Hlen). destruct hq; reflexivity.
    - rewrite (hh_search_iter_sim (hh_probe d enc) t (hk_key hq) Hp _ _ _ Hlen). destruct hq; reflexivity.
  Qed.

  Lemma hhf_locate_it_mul hk : In hk ks -> dh_locate t hk = dh_locate_mul t hk.
  Proof.
    intros Hin. pose proof (hw_ok _ _ _ _ Hwf) as Hok. destruct (hw_build _ _ _ _ Hwf) as (cs & Hb).
    destruct (dh_build_ok_sound _ _ Hok) as (Hm & _ & Hhk & _).
    rewrite Forall_forall in Hhk. specialize (Hhk hk Hin). apply hk_ok_spec in Hhk as (H1 & H2 & _).
    pose proof (tf_lent _ _ _ _ Hb) as Hlt.
    unfold dh_locate, dh_locate_mul. rewrite search_mul_eq by (rewrite Hlt; assumption). reflexivity.
  Qed.

  Theorem hashhf_locate_member hk : In hk ks -> hashhf_locate d hk = Some (spec_locate T (hk_key hk)).
  Proof.
    intros Hin. pose proof (hw_ok _ _ _ _ Hwf) as Hok. destruct (hw_build _ _ _ _ Hwf) as (cs & Hb).
    assert (HinT : In (hk_key hk) T) by (apply (tf_in _ _ _ _ Hb); apply in_map; exact Hin).
    rewrite (hashhf_locate_dh hk (hhf_T_ok _ HinT)).
    pose proof (tf_member_spec _ _ _ _ Hok Hb hk Hin) as Hm. fold T in Hm.
    destruct (hh_repr d); [exact Hm|rewrite hhf_locate_it_mul by exact Hin; exact Hm|rewrite hhf_locate_it_mul by exact Hin; exact Hm].
  Qed.

  Theorem hashhf_locate_absent hq : hh_key_ok (hk_key hq) -> hk_h1 hq < lenN bits ->
    ~ In (hk_key hq) (map hk_key ks) -> hashhf_locate d hq = Some 0.
  Proof.
    intros Hq Hh Hni. destruct (hw_build _ _ _ _ Hwf) as (cs & Hb).
    rewrite (hashhf_locate_dh hq Hq).
    destruct (dh_search_absent _ _ _ _ hq Hb Hni Hh) as [H1 H2].
    unfold dh_locate, dh_locate_mul. rewrite H1, H2. destruct (hh_repr d); reflexivity.
  Qed.

  Theorem hashhf_extract_T id : hashhf_extract d id = Some (spec_extract T id).
  Proof.
    unfold hashhf_extract, hashhf_extract_raw. rewrite (hw_el _ _ _ _ Hwf). pose proof hhf_lenT as HlT.
    destruct (N.ltb_spec 0 id) as [H0|H0]; cbn [andb].
    2:{ cbn [hh_fin]. f_equal. symmetry. apply spec_extract_out_of_range. left. lia. }
    destruct (N.leb_spec id (lenN ks)) as [H1|H1].
    2:{ cbn [hh_fin]. f_equal. symmetry. apply spec_extract_out_of_range. right. lia. }
    destruct (nthN_lt_Some T (id - 1)) as [k Hk]; [lia|].
    destruct (nthN_lt_Some (hd_occ ot) (id - 1)) as [off Hoff]; [rewrite hhf_len_occ; lia|].
    destruct (hw_repr _ _ _ _ Hwf) as (_ & _ & Hv). rewrite Hv by (rewrite hhf_len_occ; lia). rewrite Hoff.
    rewrite (hw_ext _ _ _ _ Hwf (N.to_nat (id - 1)) k off Hk Hoff).
    unfold spec_extract. destruct (N.eqb_spec id 0); [lia|]. rewrite Hk. reflexivity.
  Qed.

  Lemma hhf_T_perm : Permutation T (map hk_key ks).
  Proof. destruct (hw_build _ _ _ _ Hwf) as (cs & Hb). apply (tf_perm _ _ _ _ Hb). Qed.

  Lemma hhf_T_nodup : NoDup T.
  Proof. destruct (hw_build _ _ _ _ Hwf) as (cs & Hb). apply (tf_nodup _ _ _ _ (hw_ok _ _ _ _ Hwf) Hb). Qed.
End HashHF.

(* ---------------------------------------------------------------------------------------- *)
(* 7. the checker is sound; the loaded representations are well formed as well                *)

Definition hashhf_wf0 (d : hashhf) (ks : list hkey) (t : dh_table) (ot : dh_otable) : Prop :=
  hashhf_wf d ks t ot /\ hh_repr d = RDh (dh_finish ot) /\ StronglySorted N.lt (hd_occ ot).

Lemma hh_sorted_ltb_sound : forall l, hh_sorted_ltb l = true -> StronglySorted N.lt l.
Proof.
  induction l as [|x r IH]; intros H; [constructor|].
  destruct r as [|y r']; [constructor; constructor|].
  cbn [hh_sorted_ltb] in H. apply andb_true_iff in H. destruct H as [Hxy Hr]. apply N.ltb_lt in Hxy.
  specialize (IH Hr). constructor; [exact IH|].
  inversion IH as [|? ? _ Hall]; subst. constructor; [exact Hxy|].
  eapply Forall_impl; [|exact Hall]. cbn. intros z Hz. lia.
Qed.

Lemma hh_cells_chk_sound cws text : forall td offs, hh_cells_chk cws text td offs = true ->
  Forall2 (hh_cell_ok cws text) td offs.
Proof.
  induction td as [|k td IH]; intros [|o offs] H; cbn [hh_cells_chk] in H; try discriminate; constructor.
  - apply andb_true_iff in H. destruct H as [H _].
    unfold hh_cell_ok. destruct (hh_encode cws (k ++ [0])) as [enc|]; [|discriminate].
    apply andb_true_iff in H. destruct H as [H1 H2]. apply N.leb_le in H1. apply hprefix_eqb_sound in H2.
    exists enc. split; [reflexivity|]. split; [exact H1|exact H2].
  - apply andb_true_iff in H. destruct H as [_ H]. apply IH. exact H.
Qed.

Lemma hh_extract_chk_sound d : forall td id, hh_extract_chk d td id = true ->
  forall j k, nth_error td j = Some k -> hashhf_extract d (id + N.of_nat j) = Some (Some k).
Proof.
  induction td as [|k0 td IH]; intros id H j k Hj; [destruct j; discriminate|].
  cbn [hh_extract_chk] in H. apply andb_true_iff in H. destruct H as [H1 H2].
  destruct j as [|j]; cbn [nth_error] in Hj.
  - inversion Hj; subst. replace (id + N.of_nat 0) with id by lia.
    destruct (hashhf_extract d id) as [[s|]|]; try discriminate. apply list_eqb_eq in H1. subst. reflexivity.
  - replace (id + N.of_nat (S j)) with (id + 1 + N.of_nat j) by lia. apply (IH _ H2 _ _ Hj).
Qed.

Lemma hh_str_ok_sound s : hh_str_ok s = true -> hh_key_ok s.
Proof.
  unfold hh_str_ok, hh_key_ok. rewrite andb_true_iff, N.ltb_lt. intros [H1 H2]. rewrite forallb_forall in H1.
  split; [|split; [|exact H2]]; apply Forall_forall; intros b Hb; specialize (H1 b Hb); apply andb_true_iff in H1; destruct H1 as [Ha Hc].
  - intros E. subst b. cbn in Ha. discriminate.
  - apply N.ltb_lt. exact Hc.
Qed.

Theorem hashhf_check_sound ks d : hashhf_check ks d = true -> exists t ot, hashhf_wf0 d ks t ot.
Proof.
  unfold hashhf_check. intros H. destruct (hh_repr d) as [f| |] eqn:Er; try discriminate.
  apply andb_true_iff in H. destruct H as [H0 H].
  destruct (dh_build (lenN (ft_bits f)) ks) as [[t cs]|] eqn:Eb; [|discriminate].
  set (ot := hd_ot (ft_bits f) (ft_hash f)) in *.
  split_andb.
  repeat match goal with H : (_ <=? _) = true |- _ => apply N.leb_le in H end.
  repeat match goal with H : (_ =? _) = true |- _ => apply N.eqb_eq in H end.
  repeat match goal with H : list_eqb _ _ = true |- _ => apply list_eqb_eq in H end.
  assert (Ef : dh_finish ot = f).
  { destruct f as [b h]. unfold dh_finish in *. cbn [ft_bits ft_hash] in *.
    repeat match goal with H : bools_eqb _ _ = true |- _ => apply bools_eqb_eq in H end. congruence. }
  repeat match goal with H : bools_eqb _ _ = true |- _ => apply bools_eqb_eq in H end.
  match goal with H : hh_sorted_ltb _ = true |- _ => apply hh_sorted_ltb_sound in H; rename H into Hsorted end.
  match goal with H : hh_cells_chk _ _ _ _ = true |- _ => apply hh_cells_chk_sound in H; rename H into Hcells end.
  match goal with H : hh_code_chk _ = true |- _ => apply hh_code_chk_sound in H; rename H into Hcode end.
  match goal with H : hh_extract_chk _ _ _ = true |- _ => pose proof (hh_extract_chk_sound _ _ _ H) as Hext end.
  assert (Hlo : lenN (hd_occ ot) = lenN ks).
  { unfold lenN. rewrite <- (Forall2_length' _ _ _ Hcells). pose proof (tf_len _ _ _ _ Eb) as E. unfold lenN in E. exact E. }
  destruct (hr_load_ok ot 1 Hsorted ltac:(lia) ltac:(lia)) as (r & Er1 & Hr). unfold hr_load in Er1. cbn in Er1. inversion Er1; subst r.
  exists t, ot. split; [|rewrite Ef; auto].
  rewrite <- Ef in Er.
  constructor; rewrite ?Er; cbn [hr_bits]; try assumption; try (rewrite Ef; assumption).
  - rewrite Ef. eauto.
  - unfold dh_finish. cbn [ft_bits]. rewrite <- Ef in *. unfold dh_finish in *. cbn [ft_bits] in *. congruence.
  - apply Forall_forall. intros v Hv.
    match goal with H : forallb (fun b => b <? 256) _ = true |- _ => rewrite forallb_forall in H; specialize (H v Hv) end.
    apply N.ltb_lt. assumption.
  - (* the checked extractions, rephrased on the offsets *)
    intros j k off Hj Hoff.
    specialize (Hext j k Hj). unfold hashhf_extract, hashhf_extract_raw in Hext.
    assert (Hjl : (j < length (dh_tdict t))%nat) by (apply nth_error_Some; congruence).
    pose proof (tf_len _ _ _ _ Eb) as HlT. unfold lenN in HlT.
    match goal with H : hh_elements d = _ |- _ => rewrite H in Hext end.
    destruct (N.ltb_spec 0 (1 + N.of_nat j)); [|lia].
    assert (Hjn : 1 + N.of_nat j <= lenN ks).
    { clear - Hjl HlT. unfold lenN, hbytes, str in *. lia. }
    destruct (N.leb_spec (1 + N.of_nat j) (lenN ks)); [|lia].
    cbn [andb] in Hext. rewrite Er in Hext.
    destruct Hr as (_ & _ & Hv). rewrite Hv in Hext by (rewrite Hlo; lia).
    replace (1 + N.of_nat j - 1) with (N.of_nat j) in Hext by lia.
    unfold nthN in Hext. rewrite Nat2N.id, Hoff in Hext. exact Hext.
  - apply Forall_forall. intros k Hk.
    match goal with H : forallb hh_str_ok _ = true |- _ => rewrite forallb_forall in H; specialize (H k Hk) end.
    apply hh_str_ok_sound. assumption.
Qed.

Lemma hashhf_load_set d f opt r : hh_repr d = RDh f -> hr_load f (hh_elements d) opt = Some r ->
  hashhf_load d opt = Some (hh_set_repr d r).
Proof. intros Er El. unfold hashhf_load. rewrite Er, El. reflexivity. Qed.

Theorem hashhf_load_wf d ks t ot opt : hashhf_wf0 d ks t ot -> 1 <= opt <= 3 ->
  exists d', hashhf_load d opt = Some d' /\ hashhf_wf d' ks t ot.
Proof.
  intros (Hwf & Er & Hs) Hopt.
  pose proof (hhf_len_occ d ks t ot Hwf) as Hlo.
  destruct (hr_load_ok ot opt Hs ltac:(rewrite Hlo; apply (hw_n1 _ _ _ _ Hwf)) Hopt) as (r & El & Hr).
  rewrite Hlo, <- (hw_el _ _ _ _ Hwf) in El.
  exists (hh_set_repr d r). split; [apply (hashhf_load_set d _ opt r Er El)|].
  assert (Hb : hr_bits r = hr_bits (hh_repr d)).
  { destruct Hr as (-> & _). rewrite (hw_bits_ot _ _ _ _ Hwf). symmetry. apply (hw_bits_t _ _ _ _ Hwf). }
  destruct Hwf. constructor; cbn [hh_set_repr hh_repr hh_cw hh_text hh_elements]; try assumption.
  - rewrite Hb. assumption.
  - rewrite Hb. assumption.
  - rewrite Hb. assumption.
  - intros j k off Hj Hoff. rewrite hh_extract_at_repr. eauto.
Qed.

(* ---------------------------------------------------------------------------------------- *)
(* 8. exported theorems, for the three load options at once (same IDs for all three)           *)

Definition hhf_query_ok (d : hashhf) (hq : hkey) : Prop :=
  hh_key_ok (hk_key hq) /\ hk_h1 hq < lenN (hr_bits (hh_repr d)).

(* the table of IDs as extract enumerates it: what `answers_by` calls the table *)
Definition hhf_ext_table (d : hashhf) (n : N) : option (list (option str)) :=
  hd_table_loop (hashhf_extract d) (N.to_nat n) 1 n.

Theorem hashhf_spec ks d : hashhf_check ks d = true ->
  exists T, Permutation T (map hk_key ks) /\ NoDup T /\ lenN T = lenN ks /\
    forall opt, 1 <= opt <= 3 ->
    exists d', hashhf_load d opt = Some d' /\
      (forall id, hashhf_extract d' id = Some (spec_extract T id)) /\
      (forall hk, In hk ks -> hashhf_locate d' hk = Some (spec_locate T (hk_key hk))) /\
      (forall hq, hhf_query_ok d' hq -> ~ In (hk_key hq) (map hk_key ks) -> hashhf_locate d' hq = Some 0).
Proof.
  intros Hc. destruct (hashhf_check_sound ks d Hc) as (t & ot & Hwf0). exists (dh_tdict t).
  destruct Hwf0 as (Hwf & Hrest).
  split; [apply (hhf_T_perm d ks t ot Hwf)|]. split; [apply (hhf_T_nodup d ks t ot Hwf)|].
  split; [apply (hhf_lenT d ks t ot Hwf)|].
  intros opt Hopt.
  destruct (hashhf_load_wf d ks t ot opt (conj Hwf Hrest) Hopt) as (d' & El & Hwf'). exists d'. split; [exact El|].
  split; [apply (hashhf_extract_T d' ks t ot Hwf')|].
  split; [intros hk Hin; apply (hashhf_locate_member d' ks t ot Hwf' hk Hin)|].
  intros hq (H1 & H2) Hni. apply (hashhf_locate_absent d' ks t ot Hwf' hq H1 H2 Hni).
Qed.

(* the same in the vocabulary of HashDictProofs.answers_by (table := the IDs in order) *)
Lemma hashhf_answers ks d : hashhf_check ks d = true ->
  exists T, forall opt, 1 <= opt <= 3 -> exists d', hashhf_load d opt = Some d' /\
    answers_by T ks (hhf_query_ok d') (hashhf_locate d') (hashhf_extract d') (Some (map Some T)).
Proof.
  intros Hc. destruct (hashhf_spec ks d Hc) as (T & Hp & Hnd & _ & H). exists T. intros opt Hopt.
  destruct (H opt Hopt) as (d' & El & He & Hm & Ha). exists d'. split; [exact El|].
  split; [exact Hp|]. split; [exact Hnd|]. split; [exact Hm|]. split; [exact Ha|]. split; [exact He|reflexivity].
Qed.

(* C01 / C02 in the words of the properties: IDs are a bijection [1,n] <-> S, both round trips, absent patterns 0,
   IDs outside [1,n] NULL *)
Theorem hashhf_locate_spec ks d opt d' : hashhf_check ks d = true -> 1 <= opt <= 3 -> hashhf_load d opt = Some d' ->
  (forall hk, In hk ks ->
     exists id, hashhf_locate d' hk = Some id /\ 1 <= id <= lenN ks /\ hashhf_extract d' id = Some (Some (hk_key hk))) /\
  (forall hq, hh_key_ok (hk_key hq) -> hk_h1 hq < lenN (hr_bits (hh_repr d')) ->
     ~ In (hk_key hq) (map hk_key ks) -> hashhf_locate d' hq = Some 0) /\
  (forall id, 1 <= id <= lenN ks ->
     exists hk, In hk ks /\ hashhf_extract d' id = Some (Some (hk_key hk)) /\ hashhf_locate d' hk = Some id) /\
  (forall hk hk' id, In hk ks -> In hk' ks -> hashhf_locate d' hk = Some id -> hashhf_locate d' hk' = Some id ->
     hk_key hk = hk_key hk') /\
  (forall id, ~ (1 <= id <= lenN ks) -> hashhf_extract d' id = Some None).
Proof.
  intros Hc Hopt El. destruct (hashhf_answers ks d Hc) as (T & H). destruct (H opt Hopt) as (d'' & El' & HT).
  assert (d'' = d') by congruence. subst d''.
  split; [intros hk; apply (ab_member _ _ _ _ _ _ HT)|].
  split; [intros hq H1 H2; apply (ab_absent _ _ _ _ _ _ HT); split; assumption|].
  split; [intros id; apply (ab_id _ _ _ _ _ _ HT)|].
  split; [intros hk hk' id; apply (ab_injective _ _ _ _ _ _ HT)|intros id; apply (ab_bad_id _ _ _ _ _ _ HT)].
Qed.

(* both round trips *)
Theorem hashhf_roundtrip ks d opt d' : hashhf_check ks d = true -> 1 <= opt <= 3 -> hashhf_load d opt = Some d' ->
  (forall hk, In hk ks -> exists id, hashhf_locate d' hk = Some id /\ hashhf_extract d' id = Some (Some (hk_key hk))) /\
  (forall id, 1 <= id <= lenN ks ->
     exists hk, In hk ks /\ hashhf_extract d' id = Some (Some (hk_key hk)) /\ hashhf_locate d' hk = Some id).
Proof.
  intros Hc Hopt El. destruct (hashhf_locate_spec ks d opt d' Hc Hopt El) as (H1 & _ & H3 & _). split.
  - intros hk Hin. destruct (H1 hk Hin) as (id & Hl & _ & He). eauto.
  - exact H3.
Qed.

(* absent patterns *)
Theorem hashhf_absent ks d opt d' hq : hashhf_check ks d = true -> 1 <= opt <= 3 -> hashhf_load d opt = Some d' ->
  nul_free (hk_key hq) -> Forall (fun b => b < 256) (hk_key hq) -> lenN (hk_key hq) + 1 < 2 ^ 32 ->
  hk_h1 hq < lenN (hr_bits (hh_repr d')) -> ~ In (hk_key hq) (map hk_key ks) -> hashhf_locate d' hq = Some 0.
Proof.
  intros Hc Hopt El H1 H2 H3 H4 H5. destruct (hashhf_locate_spec ks d opt d' Hc Hopt El) as (_ & Ha & _).
  apply Ha; [repeat split; assumption|assumption|assumption].
Qed.

(* the three load options answer alike *)
Theorem hashhf_load_options_agree ks d : hashhf_check ks d = true ->
  exists d1 d2 d3, hashhf_load d 1 = Some d1 /\ hashhf_load d 2 = Some d2 /\ hashhf_load d 3 = Some d3 /\
    (forall id, hashhf_extract d1 id = hashhf_extract d2 id /\ hashhf_extract d2 id = hashhf_extract d3 id) /\
    (forall hk, In hk ks -> hashhf_locate d1 hk = hashhf_locate d2 hk /\ hashhf_locate d2 hk = hashhf_locate d3 hk).
Proof.
  intros Hc. destruct (hashhf_spec ks d Hc) as (T & _ & _ & _ & H).
  destruct (H 1 ltac:(lia)) as (d1 & E1 & X1 & L1 & _). destruct (H 2 ltac:(lia)) as (d2 & E2 & X2 & L2 & _).
  destruct (H 3 ltac:(lia)) as (d3 & E3 & X3 & L3 & _).
  exists d1, d2, d3. repeat split; try assumption.
  - rewrite X1, X2. reflexivity.
  - rewrite X2, X3. reflexivity.
  - rewrite (L1 _ H0), (L2 _ H0). reflexivity.
  - rewrite (L2 _ H0), (L3 _ H0). reflexivity.
Qed.

(* C07: no read outside textStrings / stream / codewords / the table arrays / the initialised part of the scratch
   buffer, no write outside the scratch buffer, no fuel exhaustion: the model never answers None *)
Theorem hashhf_no_oob ks d opt d' : hashhf_check ks d = true -> 1 <= opt <= 3 -> hashhf_load d opt = Some d' ->
  (forall id, hashhf_extract d' id <> None) /\
  (forall hq, nul_free (hk_key hq) -> Forall (fun b => b < 256) (hk_key hq) -> lenN (hk_key hq) + 1 < 2 ^ 32 ->
              hk_h1 hq < lenN (hr_bits (hh_repr d')) -> hashhf_locate d' hq <> None).
Proof.
  intros Hc Hopt El. destruct (hashhf_check_sound ks d Hc) as (t & ot & Hwf0).
  destruct (hashhf_load_wf d ks t ot opt Hwf0 Hopt) as (d'' & El' & Hwf). assert (d'' = d') by congruence. subst d''.
  split.
  - intros id. rewrite (hashhf_extract_T d' ks t ot Hwf). discriminate.
  - intros hq H1 H2 H3 H4.
    destruct (in_dec (list_eq_dec N.eq_dec) (hk_key hq) (map hk_key ks)) as [Hin|Hni].
    + (* a member string, whatever hash values come with it: the table search itself never leaves the table *)
      rewrite (hashhf_locate_dh d' ks t ot Hwf hq) by (repeat split; assumption).
      destruct (hw_build _ _ _ _ Hwf) as (cs & Hb). pose proof (tf_lent _ _ _ _ Hb) as Hlt.
      assert (Hh : hk_h1 hq < lenN t).
      { rewrite (hw_bits_t _ _ _ _ Hwf), bits_of_lenN in H4. exact H4. }
      pose proof (dh_search_no_oob t hq Hh) as N1. pose proof (dh_search_mul_no_oob t hq Hh) as N2.
      unfold dh_locate, dh_locate_mul.
      destruct (hh_repr d'); [destruct (dh_search_mul t hq)|destruct (dh_search t hq)|destruct (dh_search t hq)]; congruence.
    + rewrite (hashhf_locate_absent d' ks t ot Hwf hq) by (repeat split; assumption). discriminate.
Qed.
