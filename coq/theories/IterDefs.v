(* Executable models (definitions only) of
     - the ID iterators  /repo/iterators/IteratorDictID{,Contiguous,Duplicates,NoContiguous}.h
     - the block routing of /repo/StringDictionaryHASHRPDACBlocks.cpp
       (constructor blocks_partition loop, binary_search_before_index, locate, extract)
       and the delegating string iterator /repo/iterators/IteratorDictStringHRPDACBlocks.h
   Every array / vector read goes through Base.nthN (None = out of bounds); size_t
   arithmetic is written modulo 2^64.  Proofs are in IterProofs.v. *)
From LibCSD Require Import Base Spec.
Local Open Scope N_scope.

(* ---- size_t arithmetic ------------------------------------------------------- *)
Definition sz64 : N := 18446744073709551616.
Definition wrap64 (x : N) : N := x mod sz64.
(* a - b on size_t (operands already < 2^64) *)
Definition sub_sz (a b : N) : N := (a + sz64 - b) mod sz64.

(* ---- iterators as state machines -------------------------------------------- *)
(* [it_next] returns None when the C++ would read outside the array it was given. *)
Record itmachine (St A : Type) : Type := mk_itmachine {
  it_has_next : St -> bool;
  it_next : St -> option (A * St)
}.
Arguments mk_itmachine {St A}.
Arguments it_has_next {St A}.
Arguments it_next {St A}.

(* the canonical client loop  while (it->hasNext() && k < fuel) out.push_back(it->next());
   returns the elements and the final state (whose has_next tells whether more remain) *)
Fixpoint drain_iter {St A} (it : itmachine St A) (fuel : nat) (st : St) : option (list A * St) :=
  match fuel with
  | O => Some ([], st)
  | S f =>
      if it_has_next it st then
        match it_next it st with
        | None => None
        | Some (x, st1) =>
            match drain_iter it f st1 with
            | None => None
            | Some (l, st2) => Some (x :: l, st2)
            end
        end
      else Some ([], st)
  end.

(* ---- IteratorDictIDContiguous ------------------------------------------------- *)
Record cstate : Type := mk_cstate {
  c_left : N; c_right : N;          (* leftLimit, rightLimit *)
  c_processed : N; c_scanneable : N (* IteratorDictID::processed, scanneable *)
}.

(* IteratorDictIDContiguous(left, right): scanneable = right; processed = left - 1 (size_t) *)
Definition contig_init (l r : N) : cstate :=
  mk_cstate l r (sub_sz l 1) r.
(* hasNext: processed < scanneable *)
Definition contig_has_next (st : cstate) : bool := c_processed st <? c_scanneable st.
(* next: return ++processed *)
Definition contig_next (st : cstate) : option (N * cstate) :=
  let p := wrap64 (c_processed st + 1) in
  Some (p, mk_cstate (c_left st) (c_right st) p (c_scanneable st)).
Definition contig_iter : itmachine cstate N := mk_itmachine contig_has_next contig_next.

(* ---- array iterators: NoContiguous and Duplicates ----------------------------- *)
(* a_log is a ghost field: the indices of [ids] read so far, newest first *)
Record astate : Type := mk_astate {
  a_ids : list N; a_processed : N; a_scanneable : N; a_log : list N
}.
Definition arr_init (ids : list N) (scanneable : N) : astate := mk_astate ids 0 scanneable [].
Definition arr_has_next (st : astate) : bool := a_processed st <? a_scanneable st.

(* IteratorDictIDNoContiguous::next: return ids[processed++] *)
Definition nocontig_next (st : astate) : option (N * astate) :=
  let p := a_processed st in
  match nthN (a_ids st) p with
  | None => None
  | Some x => Some (x, mk_astate (a_ids st) (wrap64 (p + 1)) (a_scanneable st) (p :: a_log st))
  end.
Definition nocontig_iter : itmachine astate N := mk_itmachine arr_has_next nocontig_next.

(* do { processed++; } while (ids[processed - 1] == ids[processed]);
   fuel: one more than the array length suffices (processed grows by one per round and
   a read at index >= length is already None) *)
Fixpoint dup_skip (fuel : nat) (ids : list N) (p : N) (log : list N) : option (N * list N) :=
  match fuel with
  | O => None
  | S f =>
      let p1 := wrap64 (p + 1) in
      let i0 := sub_sz p1 1 in
      match nthN ids i0, nthN ids p1 with
      | Some a, Some b =>
          if a =? b then dup_skip f ids p1 (p1 :: i0 :: log) else Some (p1, p1 :: i0 :: log)
      | _, _ => None
      end
  end.

(* IteratorDictIDDuplicates::next *)
Definition dup_next (st : astate) : option (N * astate) :=
  let p := a_processed st in
  match nthN (a_ids st) p with
  | None => None
  | Some nx =>
      match dup_skip (S (length (a_ids st))) (a_ids st) p (p :: a_log st) with
      | None => None
      | Some (p', log') => Some (nx, mk_astate (a_ids st) p' (a_scanneable st) log')
      end
  end.
Definition dup_iter : itmachine astate N := mk_itmachine arr_has_next dup_next.

(* what StringDictionaryFMINDEX::locateSubstr hands over: occs[0..k) sorted, occs[k] = 0 *)
Definition dup_array (ids : list N) : list N := ids ++ [0].

(* adjacent-duplicate removal: the denotation of the Duplicates iterator *)
Fixpoint dedup_adj (l : list N) : list N :=
  match l with
  | [] => []
  | x :: r => match r with
              | [] => [x]
              | y :: _ => if x =? y then dedup_adj r else x :: dedup_adj r
              end
  end.

Fixpoint seq_from (start : N) (count : nat) : list N :=
  match count with O => [] | S c => start :: seq_from (start + 1) c end.

(* greatest index read (harness output) *)
Definition max_read (log : list N) : option N :=
  match log with [] => None | x :: r => Some (fold_left N.max r x) end.

(* drain_iter helpers used by the oracle: elements + whether has_next is still true *)
Definition run_iter {St A} (it : itmachine St A) (fuel : nat) (st : St) : option (list A * bool * St) :=
  match drain_iter it fuel st with
  | None => None
  | Some (l, st') => Some (l, it_has_next it st', st')
  end.

(* ---- binary_search_before_index ------------------------------------------------ *)
Section Bsbi.
  Context {A : Type}.
  Variable cmp : A -> A -> comparison.

  (* RESULT of std::lower_bound(v.begin(), v.end(), target) on a vector partitioned
     w.r.t. "< target": index of the first element that is not less than target *)
  Fixpoint lower_bound (v : list A) (target : A) : N :=
    match v with
    | [] => 0
    | x :: r => match cmp x target with Lt => 1 + lower_bound r target | _ => 0 end
    end.

  Definition le_b (a b : A) : bool := match cmp a b with Gt => false | _ => true end.
  Definition lt_b (a b : A) : bool := match cmp a b with Lt => true | _ => false end.

  Definition bsbi (v : list A) (target : A) : option N :=
    let pos := lower_bound v target in
    if pos =? lenN v then Some (sub_sz (lenN v) 1)          (* return v.size() - 1 *)
    else if 0 <? pos then
      match nthN v (pos - 1), nthN v pos with
      | Some a, Some b => if le_b a target && lt_b target b then Some (pos - 1) else Some pos
      | _, _ => None
      end
    else Some pos.

  (* specification: number of leading elements <= target, minus one, floored at 0 *)
  Fixpoint count_le (v : list A) (target : A) : N :=
    match v with
    | [] => 0
    | x :: r => match cmp x target with Gt => 0 | _ => 1 + count_le r target end
    end.
  Definition last_le (v : list A) (target : A) : N := count_le v target - 1.
End Bsbi.

(* ---- constructor: blocks_partition of the input into blocks ---------------------------- *)
Definition nil_b {A} (l : list A) : bool := match l with [] => true | _ => false end.

Record bbuild : Type := mk_bbuild {
  bb_samples : list str;        (* cut_samples *)
  bb_starts : list N;           (* starting_indexes *)
  bb_blocks : list (list str);  (* the string range handed to part i *)
  bb_qty : N                    (* strings_qty *)
}.

(* while (it->hasNext()) { s = it->next(); if (sample_next) {samples.push(s); starts.push(qty); sample_next=false;}
     acc_size += len+1; qty++; if (!it->hasNext() || acc_size > cut_size) { flush; acc_size = 0; sample_next = true; } } *)
Fixpoint build_go (cut : N) (rest : list str) (acc_size qty : N) (sample_next : bool)
         (cur : list str) (samples : list str) (starts : list N) (blocks : list (list str)) : bbuild :=
  match rest with
  | [] => mk_bbuild samples starts blocks qty
  | s :: rest' =>
      let samples1 := if sample_next then samples ++ [s] else samples in
      let starts1 := if sample_next then starts ++ [qty] else starts in
      let acc1 := acc_size + lenN s + 1 in
      let qty1 := qty + 1 in
      let cur1 := cur ++ [s] in
      if nil_b rest' || (cut <? acc1)
      then build_go cut rest' 0 qty1 true [] samples1 starts1 (blocks ++ [cur1])
      else build_go cut rest' acc1 qty1 false cur1 samples1 starts1 blocks
  end.
Definition blocks_build (cut : N) (S : list str) : bbuild := build_go cut S 0 0 true [] [] [] [].

(* the same blocks_partition as a plain list function (proved equal to bb_blocks) *)
Fixpoint part_go (cut : N) (rest : list str) (acc_size : N) (cur : list str) : list (list str) :=
  match rest with
  | [] => []
  | s :: rest' =>
      let acc1 := acc_size + lenN s + 1 in
      if nil_b rest' || (cut <? acc1)
      then (cur ++ [s]) :: part_go cut rest' 0 []
      else part_go cut rest' acc1 (cur ++ [s])
  end.
Definition blocks_partition (cut : N) (S : list str) : list (list str) := part_go cut S 0 [].

Definition block_firsts (B : list (list str)) : list str :=
  flat_map (fun b => match b with [] => [] | s :: _ => [s] end) B.
Fixpoint starts_from {X} (base : N) (B : list (list X)) : list N :=
  match B with [] => [] | b :: r => base :: starts_from (base + lenN b) r end.

(* ---- the block dictionary over abstract parts ----------------------------------- *)
Section Blocks.
  Context {P : Type}.
  Variable ploc : P -> str -> N.            (* parts[j]->locate *)
  Variable pext : P -> N -> option str.     (* parts[j]->extract (None = NULL) *)

  Record bdict : Type := mk_bdict {
    bd_qty : N; bd_samples : list str; bd_starts : list N; bd_parts : list P
  }.

  (* locate: outer None = a vector is indexed out of bounds *)
  Definition blocks_locate (d : bdict) (q : str) : option N :=
    match bsbi lex_compare (bd_samples d) q with
    | None => None
    | Some j =>
        match nthN (bd_parts d) j with
        | None => None
        | Some p =>
            let r := ploc p q in
            if 0 <? r then
              match nthN (bd_starts d) j with
              | None => None
              | Some s => Some (wrap64 (r + s))
              end
            else Some 0
        end
    end.

  (* extract: Some None = NULL returned *)
  Definition blocks_extract (d : bdict) (id : N) : option (option str) :=
    if bd_qty d <? id then Some None
    else
      match bsbi N.compare (bd_starts d) (sub_sz id 1) with
      | None => None
      | Some j =>
          match nthN (bd_starts d) j, nthN (bd_parts d) j with
          | Some s, Some p => Some (pext p (sub_sz id s))
          | _, _ => None
          end
      end.

  (* IteratorDictStringHRPDACBlocks *)
  Record tstate : Type := mk_tstate { t_current : N; t_part : N }.
  Definition table_init : tstate := mk_tstate 1 0.
  Definition to_index (d : bdict) (partIdx : N) : option N :=
    if partIdx <? sub_sz (lenN (bd_starts d)) 1 then nthN (bd_starts d) (partIdx + 1) else Some (bd_qty d).
  (* to_index() - starting_indexes[partIdx]; None = out-of-bounds read *)
  Definition part_span (d : bdict) (partIdx : N) : option N :=
    match to_index d partIdx, nthN (bd_starts d) partIdx with
    | Some t, Some s => Some (sub_sz t s)
    | _, _ => None
    end.
  Definition table_has_next (d : bdict) (st : tstate) : bool :=
    if t_part st <? lenN (bd_parts d) then
      match part_span d (t_part st) with
      | Some sp => t_current st <=? sp
      | None => false      (* unreachable under the invariant; see table_next for the checked read *)
      end
    else false.
  Definition table_next (d : bdict) (st : tstate) : option (option str * tstate) :=
    match nthN (bd_parts d) (t_part st), part_span d (t_part st) with
    | Some p, Some sp =>
        let result := pext p (t_current st) in
        let cur1 := wrap64 (t_current st + 1) in
        if sp <? cur1 then Some (result, mk_tstate 1 (wrap64 (t_part st + 1)))
        else Some (result, mk_tstate cur1 (t_part st))
    | _, _ => None
    end.
  Definition table_iter (d : bdict) : itmachine tstate (option str) :=
    mk_itmachine (table_has_next d) (table_next d).
End Blocks.

(* the instance run by the oracle: each part is its block, answering by the specification.
   [range_extract] is spec_extract with the range test done first (proved equal; spec_extract
   on an id near 2^64 would make the extracted code build a unary number of that size) *)
Definition range_extract (B : list str) (id : N) : option str :=
  if (id =? 0) || (lenN B <? id) then None else nthN B (id - 1).
Definition spec_bdict (cut : N) (S : list str) : @bdict (list str) :=
  let b := blocks_build cut S in
  mk_bdict (bb_qty b) (bb_samples b) (bb_starts b) (bb_blocks b).
Definition model_blocks_locate (cut : N) (S : list str) (q : str) : option N :=
  blocks_locate spec_locate (spec_bdict cut S) q.
Definition model_blocks_extract (cut : N) (S : list str) (id : N) : option (option str) :=
  blocks_extract range_extract (spec_bdict cut S) id.
Definition model_blocks_table (cut : N) (S : list str) (fuel : nat) :=
  run_iter (table_iter range_extract (spec_bdict cut S)) fuel table_init.
(* direct probes of binary_search_before_index on arbitrary vectors *)
Definition model_bsbi_samples (v : list str) (q : str) : option N := bsbi lex_compare v q.
Definition model_bsbi_index (v : list N) (t : N) : option N := bsbi N.compare v t.
