(* The prefix search of the RPFC model (StringDictionaryRPFC) on EVERY pattern, the empty one included.

   The theorems of RPFCProofs.v (rpfc_locate_prefix_spec, rpfc_locate_prefix_ids,
   rpfc_extract_prefix_spec) never had the hypothesis [p <> []]: they are stated for any
   NUL-free pattern, and the empty list is NUL-free.  This file only makes the empty case
   explicit (closed forms (1, n) / the whole set) and gives the `_all` names used for C04. *)
From LibCSD Require Import Base VByteDefs VByteProofs Spec SpecProofs PFCDefs PFCLayout LexLemmas
  PFCBuildProofs PFCExtractProofs PFCLocateProofs PFCTheorems PFCPrefixProofs PFCPrefixEmpty
  RePairDefs RePairProofs RPDACDefs RPDACProofs RPFCDefs RPFCProofs.
From Coq Require Import Lia ZifyBool ZifyNat ZifyN.
Ltac Zify.zify_post_hook ::= Z.to_euclidean_division_equations.
Local Open Scope N_scope.

Lemma rpfc_input_ne S : rpfc_input S -> S <> [].
Proof. intros ((H & _) & _). exact H. Qed.

(* every pattern (the existing theorems, under the C04 names) *)
Theorem rpfc_locate_prefix_all d b S p :
  rpfc_layout_ok d b S -> 2 <= b -> rpfc_input S -> nul_free p ->
  rpfc_locate_prefix d p = Some (range_of (spec_prefix_ids S p)).
Proof. exact (rpfc_locate_prefix_spec d b S p). Qed.

Theorem rpfc_locate_prefix_ids_all d b S p :
  rpfc_layout_ok d b S -> 2 <= b -> rpfc_input S -> nul_free p ->
  exists r, rpfc_locate_prefix d p = Some r /\ contig_ids (fst r) (snd r) = spec_prefix_ids S p.
Proof. exact (rpfc_locate_prefix_ids d b S p). Qed.

Theorem rpfc_extract_prefix_all d b S p :
  rpfc_layout_ok d b S -> 2 <= b -> rpfc_input S -> nul_free p ->
  rpfc_extract_prefix d p = Some (match spec_prefix_strs S p with [] => None | l => Some l end).
Proof. exact (rpfc_extract_prefix_spec d b S p). Qed.

(* the empty pattern *)
Theorem rpfc_locate_prefix_empty d b S :
  rpfc_layout_ok d b S -> 2 <= b -> rpfc_input S ->
  rpfc_locate_prefix d [] = Some (range_of (spec_prefix_ids S [])).
Proof. intros HL Hb Hin. apply (rpfc_locate_prefix_spec d b S []); auto. apply nul_free_nil. Qed.

Corollary rpfc_locate_prefix_empty_range d b S :
  rpfc_layout_ok d b S -> 2 <= b -> rpfc_input S ->
  rpfc_locate_prefix d [] = Some (1, lenN S).
Proof.
  intros HL Hb Hin. rewrite (rpfc_locate_prefix_empty d b S HL Hb Hin).
  rewrite range_of_prefix_ids_nil; [reflexivity|]. apply rpfc_input_ne. exact Hin.
Qed.

Theorem rpfc_extract_prefix_empty d b S :
  rpfc_layout_ok d b S -> 2 <= b -> rpfc_input S ->
  rpfc_extract_prefix d [] = Some (match spec_prefix_strs S [] with [] => None | l => Some l end).
Proof. intros HL Hb Hin. apply (rpfc_extract_prefix_spec d b S []); auto. apply nul_free_nil. Qed.

Corollary rpfc_extract_prefix_empty_all d b S :
  rpfc_layout_ok d b S -> 2 <= b -> rpfc_input S ->
  rpfc_extract_prefix d [] = Some (Some S).
Proof.
  intros HL Hb Hin. rewrite (rpfc_extract_prefix_empty d b S HL Hb Hin), spec_prefix_strs_nil.
  pose proof (rpfc_input_ne S Hin). destruct S; [congruence|reflexivity].
Qed.

(* for an object certified by the boolean checkers the harness runs on every real object *)
Theorem rpfc_chk_prefix_empty d S : rpfc_layout_chk d S = true -> rpfc_inputb S = true ->
  rpfc_locate_prefix d [] = Some (1, lenN S) /\ rpfc_extract_prefix d [] = Some (Some S).
Proof.
  intros H1 H2. destruct (rpfc_chk_theorems d S H1 H2) as (_ & _ & HP & HE & _).
  pose proof (rpfc_input_ne S (rpfc_inputb_sound S H2)) as Hne.
  rewrite (HP [] nul_free_nil), (HE [] nul_free_nil), spec_prefix_strs_nil.
  rewrite range_of_prefix_ids_nil by exact Hne.
  split; [reflexivity|]. destruct S; [congruence|reflexivity].
Qed.

(* the object dumped from the real constructor for ab abab ababab ababc abc c, b = 3 *)
Example rpe_ex_compute :
  rpfc_locate_prefix rex_d [] = Some (1, 6) /\ rpfc_extract_prefix rex_d [] = Some (Some rex_S).
Proof. vm_compute. split; reflexivity. Qed.

Example rpe_ex_theorems :
  rpfc_locate_prefix rex_d [] = Some (1, lenN rex_S) /\ rpfc_extract_prefix rex_d [] = Some (Some rex_S).
Proof.
  destruct rex_hyps as (HL & Hb & Hin). split.
  - exact (rpfc_locate_prefix_empty_range rex_d 3 rex_S HL Hb Hin).
  - exact (rpfc_extract_prefix_empty_all rex_d 3 rex_S HL Hb Hin).
Qed.
