(* C12 — tuning parameters change space/time only, never answers.  The PFC part; the hashing
   part (table size, probe sequence, three table representations) is in Properties_hash.v. *)
From LibCSD Require Import Base Spec SpecProofs VByteDefs PFCDefs PFCLayout PFCBuildProofs PFCExtractProofs PFCLocateProofs PFCTheorems.
Local Open Scope N_scope.

Theorem C12_pfc_param_indep_locate : forall S q b0 b1, pfc_input S -> nul_free q ->
  pfc_locate (pfc_build b0 S) q = pfc_locate (pfc_build b1 S) q.
Proof. exact pfc_param_indep_locate. Qed.
Print Assumptions C12_pfc_param_indep_locate.

Theorem C12_pfc_param_indep_extract : forall S id b0 b1, pfc_input S ->
  pfc_extract (pfc_build b0 S) id = pfc_extract (pfc_build b1 S) id.
Proof. exact pfc_param_indep_extract. Qed.
Print Assumptions C12_pfc_param_indep_extract.

Theorem C12_pfc_param_indep_table : forall S b0 b1, pfc_input S ->
  pfc_extract_table (pfc_build b0 S) = pfc_extract_table (pfc_build b1 S).
Proof. exact pfc_param_indep_table. Qed.
Print Assumptions C12_pfc_param_indep_table.

(* a bucket size below 2 is replaced by 2: the very same dictionary value *)
Theorem C12_pfc_bucket_clamp : forall S b0, b0 < 2 -> pfc_build b0 S = pfc_build 2 S.
Proof. exact pfc_bucket_clamp. Qed.
Print Assumptions C12_pfc_bucket_clamp.

Example C12_example : pfc_build 0 thm_ex_S = pfc_build 2 thm_ex_S /\
  pfc_locate (pfc_build 2 thm_ex_S) [98; 97] = pfc_locate (pfc_build 7 thm_ex_S) [98; 97].
Proof. split; vm_compute; reflexivity. Qed.
