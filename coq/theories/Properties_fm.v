(* FM-index dictionary (C05; FMINDEX parts of C01/C02/C03/C04): exported theorems.
   All hypotheses are a validity statement on the input (valid_set / valid_query) plus ONE boolean checker
   fm_check run on the arrays dumped from the real object. *)
From LibCSD Require Import Base Spec SpecProofs IterDefs IterProofs FMDefs FMProofs.
From Coq Require Import Permutation Sorted.
Local Open Scope N_scope.

(* Theorem 1: LF maps the row of suffix s (BWT symbol b >= 1) to the row of b :: s *)
Theorem C05_fm_lf_spec T P : is_bwt_table T P -> forall r b s, nth_error P r = Some (b, s) -> 1 <= b ->
  nth_error (map snd P) (Nat.add (occN P b) (rankx P b r)) = Some (b :: s).
Proof. exact (lf_row T P). Qed.
Print Assumptions C05_fm_lf_spec.

(* Theorem 2a: rows lo w .. hi w - 1 of the sorted suffix table are exactly the rows that start with w *)
Theorem C05_fm_row_range T P : is_bwt_table T P -> forall w r s, nth_error (map snd P) r = Some s ->
  (is_prefix w s = true <-> (lo P w <= r < hi P w)%nat).
Proof. exact (row_range T P). Qed.
Print Assumptions C05_fm_row_range.

(* Theorem 2b: one backward-search step *)
Theorem C05_fm_backward_step T P : is_bwt_table T P -> forall c w, 1 <= c ->
  lo P (c :: w) = Nat.add (occN P c) (rankx P c (lo P w)) /\ hi P (c :: w) = Nat.add (occN P c) (rankx P c (hi P w)).
Proof. intros H c w Hc. split; [apply (lo_step T P H c w Hc)|apply (hi_step T P H c w Hc)]. Qed.
Print Assumptions C05_fm_backward_step.

(* checker soundness *)
Theorem C05_fm_check_bwt_sound T sa bwt : check_bwt T sa bwt = true ->
  is_bwt_table T (table_of T sa) /\ bwt = map fst (table_of T sa) /\ length sa = S (length T) /\ Forall (fun i => i <= lenN T) sa.
Proof. exact (check_bwt_sound T sa bwt). Qed.
Print Assumptions C05_fm_check_bwt_sound.

(* Theorem 3 (C01/C02/C03, locate half) *)
Theorem C01_fm_locate_spec S sa d q : valid_set S -> fm_check S sa d = true -> valid_query q ->
  fm_locate d q = Some (spec_locate S q).
Proof. intros HS Hc. exact (fm_locate_spec S HS sa d Hc q). Qed.
Print Assumptions C01_fm_locate_spec.

(* Theorem 3b (C01/C02/C03, extract half): for EVERY id *)
Theorem C01_fm_extract_spec S sa d id : valid_set S -> fm_check S sa d = true ->
  fm_extract d id = Some (spec_extract S id).
Proof. intros HS Hc. exact (fm_extract_spec S HS sa d Hc id). Qed.
Print Assumptions C01_fm_extract_spec.

(* C01 round trip for the FM-index model *)
Theorem C01_fm_round_trip S sa d s : valid_set S -> fm_check S sa d = true -> In s S ->
  exists i, fm_locate d s = Some i /\ fm_extract d i = Some (Some s).
Proof.
  intros HS Hc Hin. exists (spec_locate S s). split.
  - apply (fm_locate_spec S HS sa d Hc). destruct HS as (_ & Hv & _). rewrite Forall_forall in Hv. destruct (Hv s Hin) as [_ Hb].
    revert Hb. apply Forall_impl. unfold valid_byte. intros a Ha. split; [apply Ha|]. destruct Ha as [_ Ha].
    apply N.le_lt_trans with 254; [exact Ha|reflexivity].
  - rewrite (fm_extract_spec S HS sa d Hc). f_equal. apply spec_extract_locate. exact Hin.
Qed.
Print Assumptions C01_fm_round_trip.

(* Theorem 4 (C04) *)
Theorem C04_fm_locatePrefix_spec S sa d p : valid_set S -> fm_check S sa d = true -> p <> [] -> valid_query p ->
  fm_locatePrefix d p = Some (range_of (spec_prefix_ids S p)).
Proof. intros HS Hc. exact (fm_locatePrefix_spec S HS sa d Hc p). Qed.
Print Assumptions C04_fm_locatePrefix_spec.

(* Theorem 5 (C05): for EVERY sampling step >= 1 and every sampled bitmap that passes the checker *)
Theorem C05_fm_locateSubstr_spec S sa d p cap : valid_set S -> fm_check S sa d = true -> fm_samplesuff d <> 0 ->
  p <> [] -> valid_query p -> (length S <= cap)%nat ->
  fm_locateSubstr d p cap = Some (Some (spec_substr_ids S p, false)).
Proof. intros HS Hc Hs. exact (fm_locateSubstr_spec S HS sa d Hc Hs p cap). Qed.
Print Assumptions C05_fm_locateSubstr_spec.

(* the occurrence array SSA::locate returns: exactly the IDs of the members containing p (with repeats) *)
Theorem C05_fm_ssa_locate_spec S sa d p : valid_set S -> fm_check S sa d = true -> fm_samplesuff d <> 0 ->
  p <> [] -> valid_query p ->
  exists l, ssa_locate d p = Some l /\ length l = occs (table_of (dict_text S) sa) p /\
    (forall k, In k l <-> exists S1 s S2, S = S1 ++ s :: S2 /\ k = lenN S1 + 1 /\ is_infix p s = true).
Proof. intros HS Hc Hs. exact (ssa_locate_spec S HS sa d Hc Hs p). Qed.
Print Assumptions C05_fm_ssa_locate_spec.

(* ---- the hypotheses are satisfiable: arrays dumped from the real StringDictionaryFMINDEX built over
        {"aaaa","ab","ba"} with BitSequenceRG(4) and BWT sampling 2 ---- *)
Definition ex_S : list str := [[97; 97; 97; 97]; [97; 98]; [98; 97]].
Definition ex_sa : list N := [13; 12; 11; 0; 5; 8; 10; 4; 3; 2; 1; 6; 7; 9].
Definition ex_d : fmidx := mk_fmidx [0; 1; 97; 0; 97; 98; 98; 97; 97; 97; 1; 1; 97; 1]
  ([0; 2] ++ repeat 6 96 ++ [12; 14])
  (map (fun c => existsb (N.eqb c) [0; 1; 97; 98]) (map N.of_nat (seq 0 256)))
  2 [false; true; false; true; false; true; true; true; false; true; false; true; false; false]
  [4; 1; 3; 3; 1; 1; 2; 1] 3 5.
Example ex_valid : valid_set_b ex_S = true. Proof. vm_compute. reflexivity. Qed.
Example ex_check : fm_check ex_S ex_sa ex_d = true. Proof. vm_compute. reflexivity. Qed.
Example ex_text : dict_text ex_S = [1; 97; 97; 97; 97; 1; 97; 98; 1; 98; 97; 1; 0] /\ dict_text_cxx ex_S = dict_text ex_S.
Proof. split; vm_compute; reflexivity. Qed.
(* "aaa" occurs twice in "aaaa": one ID; "a" occurs in all three members *)
Example ex_substr_aaa : fm_locateSubstr ex_d [97; 97; 97] 6 = Some (Some ([1], false)). Proof. vm_compute. reflexivity. Qed.
Example ex_substr_a : fm_locateSubstr ex_d [97] 6 = Some (Some ([1; 2; 3], false)). Proof. vm_compute. reflexivity. Qed.
Example ex_substr_b : fm_locateSubstr ex_d [98] 6 = Some (Some ([2; 3], false)). Proof. vm_compute. reflexivity. Qed.
Example ex_substr_absent : fm_locateSubstr ex_d [98; 98] 6 = Some (Some ([], false)). Proof. vm_compute. reflexivity. Qed.
Example ex_substr_outside : fm_locateSubstr ex_d [200] 6 = Some (Some ([], false)). Proof. vm_compute. reflexivity. Qed.
Example ex_locate : fm_locate ex_d [97; 98] = Some 2 /\ fm_locate ex_d [97] = Some 0. Proof. split; vm_compute; reflexivity. Qed.
Example ex_prefix : fm_locatePrefix ex_d [97] = Some (1, 2). Proof. vm_compute. reflexivity. Qed.
Example ex_extract : fm_extract ex_d 1 = Some (Some [97; 97; 97; 97]) /\ fm_extract ex_d 3 = Some (Some [98; 97]) /\ fm_extract ex_d 4 = Some None.
Proof. repeat split; vm_compute; reflexivity. Qed.
(* LF on a concrete row: row 7 is suffix "aaaa\1ab..." at position 1 ... *)
Example ex_table : is_bwt_table (dict_text ex_S) (table_of (dict_text ex_S) ex_sa).
Proof. apply (check_bwt_sound _ _ (fm_bwt ex_d)). vm_compute. reflexivity. Qed.
