(* Executable model of StringDictionaryRPDAC (StringDictionaryRPDAC.cpp, the "...DAC" query
   functions of RePair/RePair.cpp and iterators/IteratorDictStringRPDAC.h).
   Definitions only; proofs are in RPDACProofs.v.

   The dictionary is (terminals, rule list, per-string symbol sequences):
     * rule i = (G[2i], G[2i+1]) of the packed table rp->G (RePairDefs.rp_pack / RePairProofs.rp_pack_spec
       tie the list to the LogSequence; symbol s < terminals is the byte s, symbol terminals+i is rule i);
     * [d_seqs] abstracts rp->Cdac (a DAC_VLS): entry id-1 is the symbol list Cdac->access(id) returns,
       which is also what the access_next protocol  `while (id != (uint)-1) next = access_next(l++, &id)`
       enumerates (one symbol per call, at least one call).  The strings are stored WITHOUT terminator.
   A query string is the C buffer  q ++ [0]  (exactly strLen+1 bytes); every read goes through [nthN]
   so reading past the NUL (or past any array) shows up as [None]. *)
From LibCSD Require Import Base Spec RePairDefs.
Local Open Scope N_scope.

Definition u64 (x : N) : N := x mod 2 ^ 64.

Record rpdac := {
  d_t : N;                 (* rp->terminals *)
  d_rules : list rule;     (* rp->G *)
  d_seqs : list (list N);  (* rp->Cdac *)
  d_elements : N;          (* elements  (size_t) *)
  d_maxlength : N          (* maxlength (uint)   *)
}.

(* G->getField(2 * rule), G->getField(2 * rule + 1) with `uint rule`: the product is a 32-bit
   unsigned one, so the pair actually read is number (2*rule mod 2^32)/2 *)
Definition rule_at (rules : list rule) (r : N) : option rule := nthN rules (u32 (2 * r) / 2).

(* ---------------------------------------------------------------------------------------- *)
(* comparison while expanding                                                                *)

(*   if ((uchar)sym != str[pos]) return (int)((uchar)sym - str[pos]);  pos++;      (pos is *pos there) *)
Definition cmp_char (qb : list N) (c pos : N) : option (Z * N) :=
  match nthN qb pos with
  | None => None
  | Some b => if (c mod 256) =? b then Some (0%Z, u32 (pos + 1))
              else Some ((Z.of_N (c mod 256) - Z.of_N b)%Z, pos)
  end.

(* int RePair::expandRuleAndCompareString(uint rule, uchar *str, uint *pos), together with the test
   `if (sym >= terminals) cmp = expandRuleAndCompareString(sym - terminals, ...) else <compare byte>`
   that each of its three call sites performs: [cmp_sym] is that test applied to the symbol [s].
   Result (cmp, *pos).  [None] = a read out of bounds, or recursion deeper than [fuel]
   (the C++ recursion has no bound of its own). *)
Fixpoint cmp_sym (rules : list rule) (t : N) (qb : list N) (fuel : nat) (s pos : N) : option (Z * N) :=
  if t <=? s then
    match fuel with
    | O => None
    | S f =>
        match rule_at rules (u32 (s - t)) with
        | None => None
        | Some (lsym, rsym) =>
            match cmp_sym rules t qb f lsym pos with
            | None => None
            | Some (cmp, pos1) =>
                if (cmp =? 0)%Z then cmp_sym rules t qb f rsym pos1   (* its result is returned as is *)
                else Some (cmp, pos1)
            end
        end
    end
  else cmp_char qb s pos.

(* outcome of the symbol loop of extract{String,Prefix}AndCompareDAC: an early `return z`, or the
   loop ran to the end of the sequence with these values of cmp and pos *)
Inductive cres := Ret (z : Z) | Fin (cmp : Z) (pos : N).

Fixpoint cmp_loop (rules : list rule) (t : N) (qb : list N) (fuel : nat) (seq : list N) (pos : N) (cmp : Z)
  : option cres :=
  match seq with
  | [] => Some (Fin cmp pos)
  | next :: more =>
      match cmp_sym rules t qb fuel next pos with
      | None => None
      | Some (c, pos1) => if (c =? 0)%Z then cmp_loop rules t qb fuel more pos1 c else Some (Ret c)
      end
  end.

(* Cdac->access(id, ..) / first access_next(0, &id): cell id-1 of the first level (uint arithmetic) *)
Definition seq_of (d : rpdac) (id : N) : option (list N) := nthN (d_seqs d) (u32 (id + (2 ^ 32 - 1))).

(* int RePair::extractStringAndCompareDAC(uint id, uchar *str, uint strLen)
     uint l = 0, pos = 0, next; int cmp = 0;
     while (id != (uint)-1) { next = Cdac->access_next(l, &id); <cmp_sym or return>; l++; }
     if (pos == strLen) return cmp; else return -str[pos];                                       *)
Definition finish (qb : list N) (strLen : N) (r : option cres) : option Z :=
  match r with
  | None => None
  | Some (Ret z) => Some z
  | Some (Fin cmp pos) =>
      if pos =? strLen then Some cmp
      else match nthN qb pos with None => None | Some b => Some (- Z.of_N b)%Z end
  end.

Definition run_loop (d : rpdac) (id : N) (loop : list N -> option cres) : option cres :=
  let idw := u32 id in
  if idw =? 2 ^ 32 - 1 then Some (Fin 0 0)      (* the while condition is false at once *)
  else match seq_of d idw with
       | None => None
       | Some [] => None                         (* a DAC sequence has at least one symbol *)
       | Some seq => loop seq
       end.

Definition compare_dac (d : rpdac) (id : N) (q : str) : option Z :=
  let qb := q ++ [0] in
  finish qb (u32 (lenN q))
    (run_loop d id (fun seq => cmp_loop (d_rules d) (d_t d) qb (length (d_rules d)) seq 0 0%Z)).

(* int RePair::expandRuleAndComparePrefixDAC(uint rule, uchar *str, uint *pos): as above plus
     if (str[*pos] == '\0') return cmp;      between the left and the right half *)
Fixpoint pcmp_sym (rules : list rule) (t : N) (qb : list N) (fuel : nat) (s pos : N) : option (Z * N) :=
  if t <=? s then
    match fuel with
    | O => None
    | S f =>
        match rule_at rules (u32 (s - t)) with
        | None => None
        | Some (lsym, rsym) =>
            match pcmp_sym rules t qb f lsym pos with
            | None => None
            | Some (cmp, pos1) =>
                if (cmp =? 0)%Z then
                  match nthN qb pos1 with
                  | None => None
                  | Some b => if b =? 0 then Some (cmp, pos1) else pcmp_sym rules t qb f rsym pos1
                  end
                else Some (cmp, pos1)
            end
        end
    end
  else cmp_char qb s pos.

(* int RePair::extractPrefixAndCompareDAC(uint id, uchar *prefix, uint prefixLen): the loop body is
     <pcmp_sym or return>;  if (prefix[pos] == '\0') return 0;  l++;                              *)
Fixpoint pcmp_loop (rules : list rule) (t : N) (qb : list N) (fuel : nat) (seq : list N) (pos : N) (cmp : Z)
  : option cres :=
  match seq with
  | [] => Some (Fin cmp pos)
  | next :: more =>
      match pcmp_sym rules t qb fuel next pos with
      | None => None
      | Some (c, pos1) =>
          if (c =? 0)%Z then
            match nthN qb pos1 with
            | None => None
            | Some b => if b =? 0 then Some (Ret 0%Z) else pcmp_loop rules t qb fuel more pos1 c
            end
          else Some (Ret c)
      end
  end.

Definition prefix_compare_dac (d : rpdac) (id : N) (p : str) : option Z :=
  let qb := p ++ [0] in
  finish qb (u32 (lenN p))
    (run_loop d id (fun seq => pcmp_loop (d_rules d) (d_t d) qb (length (d_rules d)) seq 0 0%Z)).

(* ---------------------------------------------------------------------------------------- *)
(* locate                                                                                    *)

(* the loop shared (textually) by locate and locatePrefix:
     size_t left = 1, right = elements, center = 0;  int cmp [= 0];
     while (left <= right) {
       center = (left + right) / 2;  cmp = compare(center);
       if (cmp > 0) right = center - 1; else if (cmp < 0) left = center + 1; else <return center | break>;
     }
   Result (left, right, center, cmp, hit); [hit] = left through the third branch.
   The interval at least halves in every round: [fuel] is logarithmic. *)
Fixpoint bsearch (cmpf : N -> option Z) (fuel : nat) (lft rgt center : N) (cmp : Z)
  : option (N * N * N * Z * bool) :=
  if lft <=? rgt then
    match fuel with
    | O => None
    | S f =>
        let center := u64 (lft + rgt) / 2 in
        match cmpf center with
        | None => None
        | Some cmp =>
            if (0 <? cmp)%Z then bsearch cmpf f lft (u64 (center + (2 ^ 64 - 1))) center cmp
            else if (cmp <? 0)%Z then bsearch cmpf f (u64 (center + 1)) rgt center cmp
            else Some (lft, rgt, center, cmp, true)
        end
    end
  else Some (lft, rgt, center, cmp, false).

Definition bs_fuel (n : N) : nat := S (N.to_nat (N.size n)).

(* unsigned long StringDictionaryRPDAC::locate(uchar *str, uint strLen) *)
Definition rpdac_locate (d : rpdac) (q : str) : option N :=
  match bsearch (fun c => compare_dac d c q) (bs_fuel (d_elements d)) 1 (d_elements d) 0 0%Z with
  | None => None
  | Some (_, _, center, _, hit) => Some (if hit then center else 0)
  end.

(* ---------------------------------------------------------------------------------------- *)
(* extract                                                                                   *)

(* uint RePair::expandRule(uint rule, uchar *str) and IteratorDictStringRPDAC::expandRule(uint rule)
   (same text), with the callers' test `if (sym >= terminals) expandRule(sym - terminals) else
   s[len++] = (uchar)sym` folded in as for [cmp_sym] *)
Fixpoint xsym (rules : list rule) (t : N) (fuel : nat) (s : N) : option (list N) :=
  if t <=? s then
    match fuel with
    | O => None
    | S f =>
        match rule_at rules (u32 (s - t)) with
        | None => None
        | Some (lsym, rsym) =>
            match xsym rules t f lsym with
            | None => None
            | Some x => match xsym rules t f rsym with
                        | None => None
                        | Some y => Some (x ++ y)
                        end
            end
        end
    end
  else Some [s mod 256].

Fixpoint xseq (rules : list rule) (t : N) (fuel : nat) (seq : list N) : option (list N) :=
  match seq with
  | [] => Some []
  | s :: r =>
      match xsym rules t fuel s with
      | None => None
      | Some x => match xseq rules t fuel r with
                  | None => None
                  | Some y => Some (x ++ y)
                  end
      end
  end.

(* uchar *StringDictionaryRPDAC::extract(size_t id, uint *strLen):
     if ((id > 0) && (id <= elements)) { len = rp->Cdac->access(id, &rules); s = new uchar[maxlength + 1];
        <expand every symbol>;  s[*strLen] = 0;  return s; } else { *strLen = 0; return NULL; }
   [None] = memory error (bad access, or the expansion does not fit the buffer), [Some None] = NULL *)
Definition rpdac_extract (d : rpdac) (id : N) : option (option str) :=
  if (0 <? id) && (id <=? d_elements d) then
    match seq_of d (u32 id) with
    | None => None
    | Some seq =>
        match xseq (d_rules d) (d_t d) (length (d_rules d)) seq with
        | None => None
        | Some s => if lenN s <=? d_maxlength d then Some (Some s) else None
        end
    end
  else Some None.

(* ---------------------------------------------------------------------------------------- *)
(* locatePrefix                                                                              *)

(*  uint ll = left, lr = center - 1, lc;
    while (ll <= lr) { lc = (ll + lr) / 2; cmp = compare(lc); if (cmp == 0) lr = lc - 1; else ll = lc + 1; }   *)
Fixpoint bs_left (cmpf : N -> option Z) (fuel : nat) (ll lr : N) : option N :=
  if ll <=? lr then
    match fuel with
    | O => None
    | S f =>
        let lc := u32 (ll + lr) / 2 in
        match cmpf lc with
        | None => None
        | Some cmp =>
            if (cmp =? 0)%Z then bs_left cmpf f ll (u32 (lc + (2 ^ 32 - 1)))
            else bs_left cmpf f (u32 (lc + 1)) lr
        end
    end
  else Some lr.

(*  uint rl = center, rr = right + 1, rc;
    while (rl < (rr - 1)) { rc = (rl + rr) / 2; cmp = compare(rc); if (cmp == 0) rl = rc; else rr = rc; }        *)
Fixpoint bs_right (cmpf : N -> option Z) (fuel : nat) (rl rr : N) : option N :=
  if rl <? u32 (rr + (2 ^ 32 - 1)) then
    match fuel with
    | O => None
    | S f =>
        let rc := u32 (rl + rr) / 2 in
        match cmpf rc with
        | None => None
        | Some cmp =>
            if (cmp =? 0)%Z then bs_right cmpf f rc rr
            else bs_right cmpf f rl rc
        end
    end
  else Some rl.

(* IteratorDictID *StringDictionaryRPDAC::locatePrefix(uchar *str, uint strLen): the (left, right)
   limits handed to IteratorDictIDContiguous; NORESULT = 0.  [cmpf c] is
   rp->extractPrefixAndCompareDAC(c, str, strLen), [n] is elements. *)
Definition locate_prefix_gen (cmpf : N -> option Z) (n : N) : option (N * N) :=
  let fuel := bs_fuel n in
  match bsearch cmpf fuel 1 n 0 0%Z with
  | None => None
  | Some (lft, rgt, center, cmp, _) =>
      if negb (cmp =? 0)%Z then Some (0, 0)
      else
        match (if 1 <? center then
                 match bs_left cmpf fuel (u32 lft) (u32 (u64 (center + (2 ^ 64 - 1)))) with
                 | None => None
                 | Some lr => Some (if 0 <? lr then u32 (lr + 1) else 1)
                 end
               else Some center) with
        | None => None
        | Some lft' =>
            match (if center <? n then bs_right cmpf fuel (u32 center) (u32 (u64 (rgt + 1)))
                   else Some center) with
            | None => None
            | Some rgt' => Some (lft', rgt')
            end
        end
  end.

Definition rpdac_locate_prefix (d : rpdac) (p : str) : option (N * N) :=
  locate_prefix_gen (fun c => prefix_compare_dac d c p) (d_elements d).

(* ---------------------------------------------------------------------------------------- *)
(* IteratorDictStringRPDAC                                                                   *)

(* state: processed (size_t); scanneable is fixed.
   next(): processed++; len = C->access(processed, &rules); <expand into strCurr[2*maxlength]>;
           strCurr[lenCurr] = 0; copy lenCurr+1 bytes. *)
Definition it_next (d : rpdac) (processed : N) : option (str * N) :=
  let processed' := u64 (processed + 1) in
  match seq_of d (u32 processed') with
  | None => None
  | Some seq =>
      match xseq (d_rules d) (d_t d) (length (d_rules d)) seq with
      | None => None
      | Some s => if lenN s <? 2 * d_maxlength d then Some (s, processed') else None
      end
  end.

(* while (it->hasNext()) it->next();   hasNext: processed < scanneable *)
Fixpoint it_drain (d : rpdac) (fuel : nat) (processed scanneable : N) : option (list str) :=
  if processed <? scanneable then
    match fuel with
    | O => None
    | S f =>
        match it_next d processed with
        | None => None
        | Some (s, processed') => option_map (cons s) (it_drain d f processed' scanneable)
        end
    end
  else Some [].

(* extractTable(): new IteratorDictStringRPDAC(G, terminals, Cdac, 0, elements, maxlength) *)
Definition rpdac_extract_table (d : rpdac) : option (list str) :=
  it_drain d (N.to_nat (d_elements d)) 0 (d_elements d).

(* extractPrefix(): it = locatePrefix(..); offset = it->getLeftLimit() - 1 (size_t: 0 - 1 = SIZE_MAX for an
   absent prefix, and SIZE_MAX < 0 is false, so the iterator is empty); scanneable = it->getRightLimit() *)
Definition rpdac_extract_prefix (d : rpdac) (p : str) : option (list str) :=
  match rpdac_locate_prefix d p with
  | None => None
  | Some (l, r) => it_drain d (N.to_nat (r + 1 - l)) (u64 (l + (2 ^ 64 - 1))) r
  end.

(* ---------------------------------------------------------------------------------------- *)
(* verified checker: the dumped grammar and sequences represent the string set S             *)

Fixpoint expands_to (rules : list rule) (t : N) (seqs : list (list N)) (S : list str) : bool :=
  match seqs, S with
  | [], [] => true
  | sq :: seqs', s :: S' =>
      match expand_seq rules t sq with
      | Some x => list_eqb x s && expands_to rules t seqs' S'
      | None => false
      end
  | _, _ => false
  end.

Definition rpdac_checkb (d : rpdac) (S : list str) : bool :=
  (1 <=? d_t d) && (d_t d <=? 256) && rules_ok (d_t d) (d_rules d) &&
  (d_t d + lenN (d_rules d) <? 2 ^ 31) &&
  expands_to (d_rules d) (d_t d) (d_seqs d) S &&
  (d_elements d =? lenN S) && (d_maxlength d =? spec_maxlen S + 1).

(* boolean version of the input-set condition of the theorems (RPDACProofs.rpdac_input) *)
Definition rpdac_inputb (S : list str) : bool :=
  negb (match S with [] => true | _ => false end) &&
  forallb (fun s => forallb (fun b => negb (b =? 0)) s) S &&
  forallb (fun s => negb (match s with [] => true | _ => false end)) S &&
  sorted_lt_b S && (lenN S <? 2 ^ 31).

(* ---------------------------------------------------------------------------------------- *)
(* the prefix comparison as it is in the current tree: `if (prefixLen == 0) return 0;` precedes the
   compare-while-expanding loop (commit ad3c59e: every string begins with the empty prefix) *)
Definition prefix_compare_dac_api (d : rpdac) (id : N) (p : str) : option Z :=
  match p with [] => Some 0%Z | _ => prefix_compare_dac d id p end.

Definition rpdac_locate_prefix_api (d : rpdac) (p : str) : option (N * N) :=
  locate_prefix_gen (fun c => prefix_compare_dac_api d c p) (d_elements d).

Definition rpdac_extract_prefix_api (d : rpdac) (p : str) : option (list str) :=
  match rpdac_locate_prefix_api d p with
  | Some (l, r) => it_drain d (N.to_nat (r + 1 - l)) (u64 (l + (2 ^ 64 - 1))) r
  | None => None
  end.
