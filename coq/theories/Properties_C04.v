(* C04 — prefix search is exact.  Part 1: the specification's prefix stream is exactly the
   matching members, each once, ascending, and one contiguous range for a sorted set.
   (The theorems about the concrete PFC prefix search are in Properties_pfcprefix.v when present.) *)
From LibCSD Require Import Base Spec SpecProofs.
Local Open Scope N_scope.

Theorem C04_spec_prefix_ids_exact : forall S p id, In id (spec_prefix_ids S p) <->
  exists s, spec_extract S id = Some s /\ is_prefix p s = true.
Proof. exact spec_prefix_ids_spec. Qed.
Print Assumptions C04_spec_prefix_ids_exact.

Theorem C04_spec_prefix_ids_once : forall S p, NoDup (spec_prefix_ids S p).
Proof. intros S p. exact (spec_ids_NoDup (is_prefix p) S). Qed.
Print Assumptions C04_spec_prefix_ids_once.

Theorem C04_spec_prefix_ids_contiguous : forall S p, sorted_lt S -> contiguous (spec_prefix_ids S p).
Proof. exact spec_prefix_ids_contiguous. Qed.
Print Assumptions C04_spec_prefix_ids_contiguous.

Theorem C04_is_prefix_characterisation : forall p s, is_prefix p s = true <-> exists r, s = p ++ r.
Proof. exact is_prefix_app. Qed.
Print Assumptions C04_is_prefix_characterisation.

Example C04_example : let S := [[97]; [97; 98]; [97; 98; 99]; [98]; [98; 98]] in
  spec_prefix_ids S [97; 98] = [2; 3] /\ range_of (spec_prefix_ids S [97; 98]) = (2, 3) /\
  spec_prefix_ids S [99] = [] /\ range_of (spec_prefix_ids S [99]) = (0, 0).
Proof. cbv zeta. repeat split; reflexivity. Qed.
