(* Executable model of the LOADED StringDictionaryHTFC object (Hu-Tucker coded Front-Coding) and of the code
   it runs to answer queries, statement by statement:
     utils/Coder/DecodingTable.cpp   processChunk, getSubstring (regular entries and decoding subtrees)
     utils/Coder/StatCoder.cpp       decodeString (the advanced / extracted protocol), encodeString (= CodesDefs.pack_string)
     StringDictionaryHTFC.cpp        getHeader, decodeHeader, resetScan, locateBucket, locate, extract,
                                     locateBoundaryBuckets, searchPrefix, searchDistinctPrefix, locatePrefix
   Definitions only; proofs are in HTFCProofs.v.

   The dictionary value is exactly what StringDictionaryHTFC::load leaves in memory: elements, maxlength,
   maxcomplength, buckets, bucketsize, textStrings[0 .. bytesStrings), blStrings (as a list), codewords[256],
   and the DecodingTable: k, stream[0 .. bytesStream), table[2^k] (sparse: the non-zero entries), the
   `endings` bitmap (the set bits), the decoding subtrees (TreeNode arrays).  ventry[] is the table load()
   fills for i < 255 (ventry[255] stays uninitialised: reading it is [None]).
   The constructor (Hu-Tucker tree, DecodingTableBuilder) is NOT modelled: a real object is certified by the
   verified checker [htfc_check] below.

   Memory: every read of textStrings / stream / blStrings / codewords / subtrees goes through [nthN]
   ([None] = the access leaves the array).  The scratch buffer ChunkScan::str (new uchar[cap]) is the list of
   its initialised prefix: a write at an index <= its length extends/overwrites it, a write beyond (a gap of
   uninitialised bytes) or at an index >= cap is [None]; a read beyond the initialised prefix is [None].
   C integer widths: c_chunk is a uint (32-bit shifts), c_valid a ushort, strLen/advanced/extracted/b_remain uints. *)
From LibCSD Require Import Base VByteDefs Spec PFCDefs CodesDefs.
Local Open Scope N_scope.

Record htfc := {
  h_elements : N; h_maxlength : N; h_maxcomplength : N; h_buckets : N; h_bsize : N;
  h_text : list N;                 (* textStrings[0 .. bytesStrings) *)
  h_bl : list N;                   (* blStrings *)
  h_cw : list cw;                  (* codewords[256] = (codeword, bits) *)
  h_k : N;                         (* table->k *)
  h_stream : list N;               (* table->stream[0 .. bytesStream) *)
  h_tab : list (N * N);            (* non-zero entries (index, position) of table->table[2^k] *)
  h_endings : list N;              (* set bits of table->endings *)
  h_trees : list (list (Z * Z * Z))  (* table->subtrees[i]->tree[j] = (symbol, children[0], children[1]) *)
}.

(* [Base.nthN] behind a bounds test: the same function (HTFCProofs.rdN_nthN), but an index far outside
   the array (a wrapped-around uint) is never converted to a unary number when the model is executed *)
Definition rdN {A} (l : list A) (i : N) : option A := if i <? lenN l then nthN l i else None.

Definition wu16 (x : N) : N := x mod 2 ^ 16.
Definition wu32 (x : N) : N := x mod 2 ^ 32.
Definition wsub16 (a b : N) : N := (a + 2 ^ 16 - b mod 2 ^ 16) mod 2 ^ 16.   (* ushort a -= b *)
Definition wsub32 (a b : N) : N := (a + 2 ^ 32 - b mod 2 ^ 32) mod 2 ^ 32.   (* uint a - b *)
Definition zu16 (z : Z) : N := Z.to_N (z mod 2 ^ 16).
Definition zu32 (z : Z) : N := Z.to_N (z mod 2 ^ 32).

(* inline ushort mask(uint k) { return (65535u >> (16u - k)); } *)
Definition hmask (k : N) : N := N.shiftr 65535 (16 - k).

(* ---------------------------------------------------------------------- *)
(* the scratch buffer                                                      *)
(* ---------------------------------------------------------------------- *)
Fixpoint set_nth (l : list N) (i : nat) (v : N) : list N :=
  match l, i with
  | [], _ => []
  | _ :: r, O => v :: r
  | x :: r, S j => x :: set_nth r j v
  end.

Definition buf_write (buf : list N) (cap i v : N) : option (list N) :=
  if i <? cap then
    if i <? lenN buf then Some (set_nth buf (N.to_nat i) v)
    else if i =? lenN buf then Some (buf ++ [v])
    else None
  else None.

Fixpoint buf_write_list (buf : list N) (cap i : N) (l : list N) : option (list N) :=
  match l with
  | [] => Some buf
  | v :: r => match buf_write buf cap i v with
              | None => None
              | Some buf' => buf_write_list buf' cap (i + 1) r
              end
  end.

(* for (j = 0; j < n; j++) str[dst + j] = str[src + j];   element by element (the ranges may overlap).
   Every iteration writes below cap at an increasing index: more than cap iterations cannot succeed. *)
Fixpoint buf_copy_f (fuel : nat) (n : N) (buf : list N) (cap src dst : N) : option (list N) :=
  if n =? 0 then Some buf
  else match fuel with
       | O => None
       | S f => match rdN buf src with
                | None => None
                | Some v => match buf_write buf cap dst v with
                            | None => None
                            | Some buf' => buf_copy_f f (n - 1) buf' cap (src + 1) (dst + 1)
                            end
                end
       end.
Definition buf_copy (n : N) (buf : list N) (cap src dst : N) : option (list N) :=
  buf_copy_f (S (N.to_nat cap)) n buf cap src dst.

(* strlen(str + from) inside the initialised part *)
Definition buf_strlen (buf : list N) (from : N) : option N :=
  if from <=? lenN buf then option_map lenN (take0 (skipN from buf)) else None.

(* ---------------------------------------------------------------------- *)
(* ChunkScan                                                               *)
(* ---------------------------------------------------------------------- *)
(* the bit machine ... *)
Record bst := { c_chunk : N; c_valid : N; b_ptr : N; b_remain : N }.
(* ... and the string assembly: str (initialised prefix), strLen, advanced, extracted *)
Record ast := { a_buf : list N; a_len : N; a_adv : N; a_ext : N }.

(* c_chunk = (c_chunk << 8) | *b_ptr; c_valid += 8; b_ptr++; b_remain--; *)
Definition load_byte (text : list N) (b : bst) : option bst :=
  match rdN text (b_ptr b) with
  | None => None
  | Some byte =>
      Some {| c_chunk := wu32 (N.lor (N.shiftl (c_chunk b) 8) byte); c_valid := wu16 (c_valid b + 8);
              b_ptr := b_ptr b + 1; b_remain := wsub32 (b_remain b) 1 |}
  end.

(* while (c_valid < k) { if (b_remain == 0) { c_chunk <<= (k - c_valid); c_valid = k; } else <load_byte> } *)
Fixpoint fill_chunk (fuel : nat) (text : list N) (k : N) (b : bst) : option bst :=
  if c_valid b <? k then
    match fuel with
    | O => None
    | S f =>
        if b_remain b =? 0 then
          fill_chunk f text k {| c_chunk := wu32 (N.shiftl (c_chunk b) (k - c_valid b)); c_valid := k;
                                 b_ptr := b_ptr b; b_remain := 0 |}
        else match load_byte text b with
             | None => None
             | Some b' => fill_chunk f text k b'
             end
    end
  else Some b.

Fixpoint assoc0 (l : list (N * N)) (i : N) : N :=
  match l with
  | [] => 0
  | (j, v) :: r => if j =? i then v else assoc0 r i
  end.

Fixpoint memN (l : list N) (i : N) : bool :=
  match l with [] => false | j :: r => (j =? i) || memN r i end.

(* load(): for (i = 0; i < 255; i++) { ventry[i].length = (i & 240) >> 4; ventry[i].bits = (i & 15) + 1; } *)
Definition ventry (code : N) : option (N * N) :=
  if code <? 256 then Some (N.shiftr (N.land code 240) 4, N.land code 15 + 1) else None.

(* what one getSubstring call found in the table *)
Inductive centry :=
| CReg (pos : N) (syms : list N) (ending : bool)   (* pos = position of the first symbol in the stream *)
| CTree (sym : Z).

(* while (node.symbol == -1) { if (c_valid == 0) <load_byte>; c_valid--; bit = (c_chunk >> c_valid) & 1;
                               node = tree->tree[node.children[bit]]; } *)
Fixpoint tree_descend (fuel : nat) (text : list N) (tree : list (Z * Z * Z)) (node : Z * Z * Z) (b : bst)
  : option (Z * bst) :=
  let '(sym, c0, c1) := node in
  if (sym =? -1)%Z then
    match fuel with
    | O => None
    | S f =>
        match (if c_valid b =? 0 then load_byte text b else Some b) with
        | None => None
        | Some b1 =>
            let v := wsub16 (c_valid b1) 1 in
            let child := if N.testbit (c_chunk b1) v then c1 else c0 in
            if (child <? 0)%Z then None
            else match rdN tree (Z.to_N child) with
                 | None => None
                 | Some node' =>
                     tree_descend f text tree node'
                                  {| c_chunk := c_chunk b1; c_valid := v; b_ptr := b_ptr b1; b_remain := b_remain b1 |}
                 end
        end
    end
  else Some (sym, b).

Fixpoint take_syms (n : nat) (l : list N) : option (list N) :=
  match n with
  | O => Some []
  | S m => match l with [] => None | x :: r => option_map (cons x) (take_syms m r) end
  end.

(* getSubstring, bit-machine part: index, table[index], ventry[stream[position]], the symbols / the subtree walk *)
Definition chunk_lookup (d : htfc) (b : bst) : option (centry * bst) :=
  let k := h_k d in
  if c_valid b <? k then None
  else
    let index := N.land (N.shiftr (c_chunk b) (c_valid b - k)) (hmask k) in
    let position := assoc0 (h_tab d) index in
    match rdN (h_stream d) position with
    | None => None
    | Some code =>
        match ventry code with
        | None => None
        | Some (len, bits) =>
            if negb (len =? 0) then
              match take_syms (N.to_nat len) (skipN (position + 1) (h_stream d)) with
              | None => None
              | Some syms =>
                  Some (CReg (position + 1) syms (memN (h_endings d) index),
                        {| c_chunk := c_chunk b; c_valid := wsub16 (c_valid b) bits; b_ptr := b_ptr b;
                           b_remain := b_remain b |})
              end
            else
              if position + 1 <=? lenN (h_stream d) then
                match vb_decode (skipN (position + 1) (h_stream d)) with
                | None => None
                | Some (idTree, _) =>
                    match rdN (h_trees d) idTree with
                    | None => None
                    | Some tree =>
                        match rdN tree 0 with
                        | None => None
                        | Some root =>
                            match tree_descend (S (length tree)) (h_text d) tree root
                                    {| c_chunk := c_chunk b; c_valid := wsub16 (c_valid b) k; b_ptr := b_ptr b;
                                       b_remain := b_remain b |} with
                            | None => None
                            | Some (sym, b') => Some (CTree sym, b')
                            end
                        end
                    end
                end
              else None
        end
    end.

(* getSubstring, assembly part *)
Definition asm_step (d : htfc) (cap : N) (e : centry) (a : ast) : option (ast * bool) :=
  match e with
  | CReg pos syms ending =>
      let len := lenN syms in
      match buf_write_list (a_buf a) cap (a_len a) syms with
      | None => None
      | Some buf' =>
          let ext' := wu32 (a_ext a + len) in
          if ext' <=? 2 then
            Some ({| a_buf := buf'; a_len := wu32 (a_len a + len); a_adv := wu32 (a_adv a + len); a_ext := ext' |}, false)
          else if ending then
            (* uint substrLen = strlen(&stream[position]) + 1; *)
            match buf_strlen (h_stream d) pos with
            | None => None
            | Some sl =>
                let substrLen := wu32 (sl + 1) in
                Some ({| a_buf := buf'; a_len := wu32 (a_len a + substrLen); a_adv := wsub32 len substrLen;
                         a_ext := ext' |}, true)
            end
          else Some ({| a_buf := buf'; a_len := wu32 (a_len a + len); a_adv := a_adv a; a_ext := ext' |}, false)
      end
  | CTree sym =>
      match buf_write (a_buf a) cap (a_len a) (Z.to_N (sym mod 256)) with
      | None => None
      | Some buf' =>
          Some ({| a_buf := buf'; a_len := wu32 (a_len a + 1); a_adv := a_adv a; a_ext := wu32 (a_ext a + 1) |},
                (sym =? 0)%Z)
      end
  end.

(* processChunk + the bit-machine part of getSubstring *)
Definition bstep (d : htfc) (b : bst) : option (centry * bst) :=
  match fill_chunk (S (S (N.to_nat (h_k d / 8)))) (h_text d) (h_k d) b with
  | None => None
  | Some b1 => chunk_lookup d b1
  end.

(* bool DecodingTable::processChunk(ChunkScan* c) *)
Definition process_chunk (d : htfc) (cap : N) (b : bst) (a : ast) : option (bst * ast * bool) :=
  match bstep d b with
  | None => None
  | Some (e, b2) =>
      match asm_step d cap e a with
      | None => None
      | Some (a', fin) => Some (b2, a', fin)
      end
  end.

(* ---------------------------------------------------------------------- *)
(* StatCoder::decodeString                                                 *)
(* ---------------------------------------------------------------------- *)
(* while ((c->strLen - prevLen) < 2) end = table->processChunk(c);   every call appends at least one byte *)
Fixpoint ds_first (fuel : nat) (d : htfc) (cap prevLen : N) (b : bst) (a : ast) (fin : bool)
  : option (bst * ast * bool) :=
  if wsub32 (a_len a) prevLen <? 2 then
    match fuel with
    | O => None
    | S f => match process_chunk d cap b a with
             | None => None
             | Some (b', a', fin') => ds_first f d cap prevLen b' a' fin'
             end
    end
  else Some (b, a, fin).

(* while (!end) end = table->processChunk(c); *)
Fixpoint ds_rest (fuel : nat) (d : htfc) (cap : N) (b : bst) (a : ast) (fin : bool) : option (bst * ast) :=
  if fin then Some (b, a)
  else match fuel with
       | O => None
       | S f => match process_chunk d cap b a with
                | None => None
                | Some (b', a', fin') => ds_rest f d cap b' a' fin'
                end
       end.

(* the part after the `advanced` test: (state, shared) *)
Definition ds_main (d : htfc) (cap prevLen : N) (b : bst) (a : ast) : option (bst * ast * N) :=
  match ds_first 3 d cap prevLen b a false with
  | None => None
  | Some (b1, a1, fin) =>
      let extracted := wsub32 (a_len a1) prevLen in
      if prevLen <=? lenN (a_buf a1) then
        match vb_decode (skipN prevLen (a_buf a1)) with
        | None => None
        | Some (shared, read) =>
            (* for (i = read; i < extracted; i++) { str[strLen] = str[prevLen + i]; strLen++; } *)
            match buf_copy (extracted - read) (a_buf a1) cap (prevLen + read) shared with
            | None => None
            | Some buf2 =>
                let len2 := wu32 (shared + (extracted - read)) in
                (* if (end && advanced > 0) for (i < advanced) str[strLen + i] = str[prevLen + extracted + i]; *)
                match (if fin && (0 <? a_adv a1)
                       then buf_copy (a_adv a1) buf2 cap (prevLen + extracted) len2
                       else Some buf2) with
                | None => None
                | Some buf3 =>
                    match ds_rest (S (N.to_nat cap)) d cap b1
                            {| a_buf := buf3; a_len := len2; a_adv := a_adv a1; a_ext := a_ext a1 |} fin with
                    | None => None
                    | Some (b2, a2) => Some (b2, a2, shared)
                    end
                end
            end
        end
      else None
  end.

(* uint StatCoder::decodeString(ChunkScan* c) *)
Definition decode_string (d : htfc) (cap : N) (b : bst) (a : ast) : option (bst * ast * N) :=
  let prevLen := a_len a in
  if negb (a_adv a =? 0) then
    (* c->str[prevLen + c->advanced] = 0; nextLen = strlen(c->str + prevLen); *)
    match buf_write (a_buf a) cap (prevLen + a_adv a) 0 with
    | None => None
    | Some buf1 =>
        match buf_strlen buf1 prevLen with
        | None => None
        | Some nextLen =>
            if (nextLen <? a_adv a) && (0 <? nextLen) then
              match vb_decode (skipN prevLen buf1) with
              | None => None
              | Some (shared, used) =>
                  let read := prevLen + used in
                  let extracted := prevLen + nextLen in
                  (* for (i = read; i <= extracted; i++) { str[strLen] = str[i]; strLen++; } *)
                  match buf_copy (extracted + 1 - read) buf1 cap read shared with
                  | None => None
                  | Some buf2 =>
                      let len2 := wu32 (shared + (extracted + 1 - read)) in
                      let nextLen1 := nextLen + 1 in
                      if negb (nextLen1 =? a_adv a) then
                        let xadv := a_adv a - nextLen1 in
                        match buf_copy xadv buf2 cap (extracted + 1) len2 with
                        | None => None
                        | Some buf3 =>
                            Some (b, {| a_buf := buf3; a_len := len2; a_adv := xadv; a_ext := 0 |}, shared)
                        end
                      else Some (b, {| a_buf := buf2; a_len := len2; a_adv := 0; a_ext := 0 |}, shared)
                  end
              end
            else
              ds_main d cap prevLen b
                      {| a_buf := buf1; a_len := wu32 (prevLen + a_adv a); a_adv := a_adv a; a_ext := a_adv a |}
        end
    end
  else ds_main d cap prevLen b {| a_buf := a_buf a; a_len := a_len a; a_adv := a_adv a; a_ext := 0 |}.

(* ---------------------------------------------------------------------- *)
(* decodeHeader, resetScan                                                 *)
(* ---------------------------------------------------------------------- *)
(* while (true) { if (table->processChunk(&chunk)) break; plen = strLen; pvalid = c_valid; pptr = b_ptr; } *)
Fixpoint dh_loop (fuel : nat) (d : htfc) (cap : N) (b : bst) (a : ast) (plen pvalid pptr : N)
  : option (bst * ast * N * N * N) :=
  match fuel with
  | O => None
  | S f =>
      match process_chunk d cap b a with
      | None => None
      | Some (b', a', true) => Some (b', a', plen, pvalid, pptr)
      | Some (b', a', false) => dh_loop f d cap b' a' (a_len a') (c_valid b') (b_ptr b')
      end
  end.

(* for (i = 1; i <= strLen - plen; i++) bits += codewords[str[strLen - i]].bits; *)
Fixpoint sum_bits (cws : list cw) (l : list N) : option N :=
  match l with
  | [] => Some 0
  | c :: r => match rdN cws c, sum_bits cws r with
              | Some w, Some s => Some (snd w + s)
              | _, _ => None
              end
  end.

Definition str_cap (d : htfc) : N := 4 * h_maxlength d + h_k d.     (* new uchar[4 * maxlength + table->getK()] *)

(* ChunkScan StringDictionaryHTFC::decodeHeader(size_t idbucket) *)
Definition decode_header (d : htfc) (idbucket : N) : option (bst * ast) :=
  match rdN (h_bl d) idbucket with
  | None => None
  | Some ptr =>
      let cap := str_cap d in
      match dh_loop (S (N.to_nat cap)) d cap
              {| c_chunk := 0; c_valid := 0; b_ptr := ptr; b_remain := wu32 (h_maxcomplength d) |}
              {| a_buf := []; a_len := 0; a_adv := 0; a_ext := 1 |} 0 0 ptr with
      | None => None
      | Some (b, a, plen, pvalid, pptr) =>
          if (plen <=? a_len a) && (a_len a <=? lenN (a_buf a)) then
            match sum_bits (h_cw d) (firstN (a_len a - plen) (skipN plen (a_buf a))) with
            | None => None
            | Some bits =>
                (* chunk.c_valid = 8 * (chunk.b_ptr - pptr) - bits + pvalid;   (assigned to a ushort) *)
                let cv := zu16 (8 * (Z.of_N (b_ptr b) - Z.of_N pptr) - Z.of_N (wu32 bits) + Z.of_N pvalid) in
                if cv / 8 <=? b_ptr b then
                  Some ({| c_chunk := c_chunk b; c_valid := cv; b_ptr := b_ptr b - cv / 8; b_remain := b_remain b |}, a)
                else None
            end
          else None
      end
  end.

(* void StringDictionaryHTFC::resetScan(ChunkScan *c, size_t idbucket) *)
Definition reset_scan (d : htfc) (idbucket : N) (st : bst * ast) : option (bst * ast) :=
  let '(b, a) := st in
  match rdN (h_bl d) (idbucket + 1) with
  | None => None
  | Some nxt =>
      Some ({| c_chunk := 0; c_valid := 0; b_ptr := b_ptr b;
               b_remain := zu32 (Z.of_N nxt - Z.of_N (b_ptr b)) |},
            {| a_buf := a_buf a; a_len := a_len a; a_adv := 0; a_ext := a_ext a |})
  end.

(* the string a ChunkScan hands out: (c.str, c.strLen - 1); [None] when str[0 .. strLen) is not initialised *)
Definition cs_str (a : ast) : option str :=
  if (1 <=? a_len a) && (a_len a <=? lenN (a_buf a)) then Some (firstN (a_len a - 1) (a_buf a)) else None.

(* ---------------------------------------------------------------------- *)
(* extract                                                                 *)
(* ---------------------------------------------------------------------- *)
Definition dstep (d : htfc) (st : bst * ast) : option (bst * ast) :=
  match decode_string d (str_cap d) (fst st) (snd st) with
  | None => None
  | Some (b', a', _) => Some (b', a')
  end.

(* uchar *extract(size_t id, uint *strLen): outer None = memory error, Some None = NULL with *strLen = 0;
   Some (Some (bytes up to the first NUL of the returned buffer, *strLen)) *)
Definition htfc_extract_raw (d : htfc) (id : N) : option (option (str * N)) :=
  if (0 <? id) && (id <=? h_elements d) then
    let idbucket := W32m (1 + (id - 1) / h_bsize d) in
    let pos := W32m ((id - 1) mod h_bsize d) in
    match decode_header d idbucket with
    | None => None
    | Some st0 =>
        match (if 0 <? pos
               then N.iter pos (fun o => opt_bind o (dstep d)) (reset_scan d idbucket st0)
               else Some st0) with
        | None => None
        | Some (_, a) =>
            match take0 (a_buf a) with
            | None => None
            | Some s => Some (Some (s, wsub32 (a_len a) 1))
            end
        end
    end
  else Some None.

(* the answer as the specification sees it: the string, provided the reported length is its length *)
Definition htfc_extract (d : htfc) (id : N) : option (option str) :=
  match htfc_extract_raw d id with
  | None => None
  | Some None => Some None
  | Some (Some (s, l)) => if l =? lenN s then Some (Some s) else None
  end.

(* ---------------------------------------------------------------------- *)
(* locateBucket / locate                                                   *)
(* ---------------------------------------------------------------------- *)
(* uchar *StatCoder::encodeString(str, strLen, &encLen, &offset): new uchar[4 * strLen + 1]; the byte being
   filled (index = number of completed bytes; encodeSymbol clears it after every completed byte) must lie
   inside that allocation *)
Definition encode_string (d : htfc) (s : list N) : option (list N * N) :=
  match pack_symbols (h_cw d) s ([], 0, 0) with
  | None => None
  | Some st => if lenN (fst (fst st)) <? 4 * lenN s + 1 then Some (final_bytes st, snd st) else None
  end.

(* memcmp(a, b, |b|) on the bytes of [a] that exist: the sign of the first differing byte; [None] when [a]
   ends before a difference is found (the outcome would depend on memory outside textStrings).  The
   over-read itself (the C call names |b| bytes) is the known finding ht-locatebucket-memcmp-overread. *)
Fixpoint memcmp_avail (a b : list N) : option comparison :=
  match b with
  | [] => Some Eq
  | y :: b' => match a with
               | [] => None
               | x :: a' => match x ?= y with Eq => memcmp_avail a' b' | c => Some c end
               end
  end.

(* getHeader(idbucket) followed by memcmp(header, str, strLen) *)
Definition hdr_memcmp (d : htfc) (idbucket : N) (enc : list N) : option comparison :=
  match rdN (h_bl d) idbucket with
  | None => None
  | Some off => if off <=? lenN (h_text d) then memcmp_avail (skipN off (h_text d)) enc else None
  end.

Fixpoint hlocate_bucket_loop (fuel : nat) (d : htfc) (enc : list N) (lft rgt center : N) (cmp : comparison)
  : option (bool * N) :=
  match fuel with
  | O => None
  | S f =>
      if lft <=? rgt then
        let center := (lft + rgt) / 2 in
        match hdr_memcmp d center enc with
        | None => None
        | Some Gt => hlocate_bucket_loop f d enc lft (center - 1) center Gt
        | Some Lt => hlocate_bucket_loop f d enc (center + 1) rgt center Lt
        | Some Eq => Some (true, center)
        end
      else Some (false, match cmp with Lt => center | _ => center - 1 end)
  end.

Definition hlocate_bucket (d : htfc) (enc : list N) : option (bool * N) :=
  hlocate_bucket_loop (S (S (N.to_nat (h_buckets d)))) d enc 1 (h_buckets d) 0 Eq.

Definition hscanneable (d : htfc) (idbucket : N) : N :=
  if (idbucket =? h_buckets d) && negb (h_elements d mod h_bsize d =? 0)
  then h_elements d mod h_bsize d else h_bsize d.

(* longestCommonPrefix(c.str + shared, str + shared, c.strLen - shared - (1 - extra), &shared) on the scratch
   buffer itself and on the caller's pattern [q ++ [0]] *)
Definition hcmp_from (a : ast) (q : str) (shared extra : N) : option (Z * N) :=
  if (shared + (1 - extra) <=? a_len a) && (a_len a <=? lenN (a_buf a)) && (shared <=? lenN q) then
    lcp_cmp (skipN shared (a_buf a)) (skipN shared (q ++ [0])) (a_len a - shared - (1 - extra)) shared
  else None.

Fixpoint hscan_loop (fuel : nat) (d : htfc) (q : str) (idbucket scanneable i : N)
         (b : bst) (a : ast) (sharedCurr : N) : option N :=
  match fuel with
  | O => None
  | S f =>
      if i <? scanneable then
        match decode_string d (str_cap d) b a with
        | None => None
        | Some (b', a', sharedPrev) =>
            if sharedPrev <? sharedCurr then Some 0
            else
              match hcmp_from a' q sharedCurr 1 with
              | None => None
              | Some (cmp', sharedCurr') =>
                  if (cmp' =? 0)%Z then Some ((idbucket - 1) * h_bsize d + i + 1)
                  else if (0 <? cmp')%Z then Some 0
                  else hscan_loop f d q idbucket scanneable (i + 1) b' a' sharedCurr'
              end
        end
      else Some 0
  end.

Definition htfc_locate (d : htfc) (q : str) : option N :=
  match encode_string d (q ++ [0]) with
  | None => None
  | Some (enc, _) =>
      match hlocate_bucket d enc with
      | None => None
      | Some (true, idbucket) => Some ((idbucket - 1) * h_bsize d + 1)
      | Some (false, idbucket) =>
          if idbucket =? 0 then Some 0
          else
            match opt_bind (decode_header d idbucket) (reset_scan d idbucket) with
            | None => None
            | Some (b, a) =>
                let scanneable := hscanneable d idbucket in
                if 1 <? scanneable then
                  match decode_string d (str_cap d) b a with
                  | None => None
                  | Some (b1, a1, _) =>
                      match hcmp_from a1 q 0 1 with
                      | None => None
                      | Some (cmp, sharedCurr) =>
                          if (cmp =? 0)%Z then Some ((idbucket - 1) * h_bsize d + 2)
                          else hscan_loop (N.to_nat scanneable) d q idbucket scanneable 2 b1 a1 sharedCurr
                      end
                  end
                else Some 0
            end
      end
  end.

(* ---------------------------------------------------------------------- *)
(* prefix search                                                           *)
(* ---------------------------------------------------------------------- *)
(* memcpy(header, getHeader(center), strLen); if (offset != 0) header[strLen-1] &= cmask; memcmp(header, str, strLen)
   on the bytes that exist (the memcpy over-read is the known finding ht-prefix-memcpy-overread);
   cmask = (uchar)(~(mask(8) >> offset)) *)
Definition cmask (offset : N) : N := 255 - N.shiftr 255 offset.

Fixpoint mask_last (l : list N) (n : nat) (m : N) : list N :=   (* l[n] &= m when it exists *)
  match l, n with
  | [], _ => []
  | x :: r, O => N.land x m :: r
  | x :: r, S j => x :: mask_last r j m
  end.

Definition hdr_memcmp_masked (d : htfc) (idbucket : N) (enc : list N) (offset : N) : option comparison :=
  match rdN (h_bl d) idbucket with
  | None => None
  | Some off =>
      if off <=? lenN (h_text d) then
        let header := firstn (length enc) (skipN off (h_text d)) in
        let header' := if negb (offset =? 0) && negb (lenN enc =? 0)
                       then mask_last header (length enc - 1) (cmask offset) else header in
        memcmp_avail header' enc
      else None
  end.

Fixpoint hlbb_main (fuel : nat) (d : htfc) (enc : list N) (o : N) (lft rgt center : N) (cmp : comparison)
  : option (N * N * N * comparison) :=
  match fuel with
  | O => None
  | S f =>
      if lft <=? rgt then
        let center := (lft + rgt) / 2 in
        match hdr_memcmp_masked d center enc o with
        | None => None
        | Some Gt => hlbb_main f d enc o lft (center - 1) center Gt
        | Some Lt => hlbb_main f d enc o (center + 1) rgt center Lt
        | Some Eq => Some (lft, rgt, center, Eq)
        end
      else Some (lft, rgt, center, cmp)
  end.

Fixpoint hlbb_left (fuel : nat) (d : htfc) (enc : list N) (o : N) (ll lr : N) : option N :=
  match fuel with
  | O => None
  | S f =>
      if ll <=? lr then
        let lc := (ll + lr) / 2 in
        match hdr_memcmp_masked d lc enc o with
        | None => None
        | Some Eq => hlbb_left f d enc o ll (lc - 1)
        | Some _ => hlbb_left f d enc o (lc + 1) lr
        end
      else Some lr
  end.

Fixpoint hlbb_right (fuel : nat) (d : htfc) (enc : list N) (o : N) (rl rr : N) : option N :=
  match fuel with
  | O => None
  | S f =>
      if rl <? rr - 1 then
        let rc := (rl + rr) / 2 in
        match hdr_memcmp_masked d rc enc o with
        | None => None
        | Some Eq => hlbb_right f d enc o rc rr
        | Some _ => hlbb_right f d enc o rl rc
        end
      else Some rl
  end.

Definition hlocate_boundary_buckets (d : htfc) (enc : list N) (o : N) : option (N * N) :=
  let fuel := S (S (N.to_nat (h_buckets d))) in
  match hlbb_main fuel d enc o 1 (h_buckets d) 0 Eq with
  | None => None
  | Some (lft, rgt, center, cmp) =>
      match cmp with
      | Lt => Some (center, center)
      | Gt => Some (center - 1, center - 1)
      | Eq =>
          let left' :=
            if 1 <? center then
              match hlbb_left fuel d enc o (W32m lft) (center - 1) with
              | None => None
              | Some lr => Some (if 0 <? lr then lr else 1)
              end
            else Some lft in
          let right' :=
            if center <? h_buckets d then hlbb_right fuel d enc o center (W32m (rgt + 1))
            else Some rgt in
          match left', right' with
          | Some lb, Some rb => Some (lb, rb)
          | _, _ => None
          end
      end
  end.

(* searchPrefix(&c, scanneable, str, strLen): (id, state); id = 0 is NORESULT *)
Fixpoint hsearch_prefix (fuel : nat) (d : htfc) (p : str) (scanneable : N)
         (b : bst) (a : ast) (sharedCurr i : N) : option (N * bst * ast) :=
  match fuel with
  | O => None
  | S f =>
      match hcmp_from a p sharedCurr 0 with
      | None => None
      | Some (cmp, sharedCurr') =>
          if sharedCurr' =? lenN p then Some (i, b, a)
          else if (0 <? cmp)%Z || (i =? scanneable) then Some (0, b, a)
          else
            match decode_string d (str_cap d) b a with
            | None => None
            | Some (b', a', sharedPrev) =>
                if sharedPrev <? sharedCurr' then Some (0, b', a')
                else hsearch_prefix f d p scanneable b' a' sharedCurr' (i + 1)
            end
      end
  end.

(* searchDistinctPrefix: for (id = 1; id < scanneable; id++) if (coder->decodeString(c) < strLen) break; *)
Fixpoint hsearch_distinct (fuel : nat) (d : htfc) (plen : N) (scanneable : N)
         (b : bst) (a : ast) (id : N) : option N :=
  match fuel with
  | O => None
  | S f =>
      if id <? scanneable then
        match decode_string d (str_cap d) b a with
        | None => None
        | Some (b', a', shared) =>
            if shared <? plen then Some id
            else hsearch_distinct f d plen scanneable b' a' (id + 1)
        end
      else Some id
  end.

(* locatePrefix: the (left, right) limits handed to IteratorDictIDContiguous *)
Definition htfc_locate_prefix (d : htfc) (p : str) : option (N * N) :=
  match encode_string d p with
  | None => None
  | Some (enc, o) =>
      match hlocate_boundary_buckets d enc o with
      | None => None
      | Some (leftBucket, rightBucket) =>
          if 0 <? leftBucket then
            match opt_bind (decode_header d leftBucket) (reset_scan d leftBucket) with
            | None => None
            | Some (b, a) =>
                let scanneable := hscanneable d leftBucket in
                let fuel := S (S (N.to_nat scanneable)) in
                match hsearch_prefix fuel d p scanneable b a 0 1 with
                | None => None
                | Some (leftID, b', a') =>
                    if leftBucket =? rightBucket then
                      if leftID =? 0 then Some (0, 0)
                      else
                        match hsearch_distinct fuel d (lenN p) (W32m (scanneable + 2 ^ 32 - leftID + 1)) b' a' 1 with
                        | None => None
                        | Some k =>
                            Some (leftID + (leftBucket - 1) * h_bsize d,
                                  leftID + k - 1 + (rightBucket - 1) * h_bsize d)
                        end
                    else
                      let leftID' := if leftID =? 0 then leftBucket * h_bsize d + 1
                                     else leftID + (leftBucket - 1) * h_bsize d in
                      match opt_bind (decode_header d rightBucket) (reset_scan d rightBucket) with
                      | None => None
                      | Some (bR, aR) =>
                          let scanR := hscanneable d rightBucket in
                          match hsearch_distinct (S (S (N.to_nat scanR))) d (lenN p) scanR bR aR 1 with
                          | None => None
                          | Some k => Some (leftID', k + (rightBucket - 1) * h_bsize d)
                          end
                      end
                end
            end
          else Some (0, 0)
      end
  end.

(* ---------------------------------------------------------------------- *)
(* verified checker: the loaded object represents the string list S        *)
(* ---------------------------------------------------------------------- *)
Fixpoint hlist_eqb (a b : list N) : bool :=
  match a, b with
  | [], [] => true
  | x :: a', y :: b' => (x =? y) && hlist_eqb a' b'
  | _, _ => false
  end.

Fixpoint hprefix_eqb (a t : list N) : bool :=     (* a is a prefix of t *)
  match a with
  | [] => true
  | x :: a' => match t with [] => false | y :: t' => (x =? y) && hprefix_eqb a' t' end
  end.

(* the ChunkScan holds exactly the C string s: strLen = |s| + 1 and str[0 .. strLen) = s ++ [0] *)
Definition ast_is (a : ast) (s : str) : bool :=
  (a_len a =? lenN s + 1) && (a_len a <? 2 ^ 32) && hprefix_eqb (s ++ [0]) (a_buf a).

(* one pass over the flat list of strings; string number i (0-based) is the header of bucket i/b + 1 iff
   i mod b = 0.  Headers: blStrings[k] points at the bytes encodeString(h, |h|+1) produces (what locateBucket
   compares with memcmp), decodeHeader(k) hands out h, resetScan(k) succeeds.  Internal strings:
   decodeString, called in the state the previous string left, hands out the string and returns its
   shared-prefix length.  Returns the ChunkScan state after every string. *)
Fixpoint htrace_from (d : htfc) (b : N) (i : N) (prev : str) (pst : bst * ast) (ss : list str)
  : option (list (bst * ast)) :=
  match ss with
  | [] => Some []
  | s :: r =>
      if i mod b =? 0 then
        let k := i / b + 1 in
        match rdN (h_bl d) k, pack_string (h_cw d) (s ++ [0]), decode_header d k with
        | Some off, Some (enc, _), Some st0 =>
            match reset_scan d k st0 with
            | Some st1 =>
                if (off <=? lenN (h_text d)) && hprefix_eqb enc (skipN off (h_text d)) && ast_is (snd st0) s
                then option_map (cons st1) (htrace_from d b (i + 1) s st1 r)
                else None
            | None => None
            end
        | _, _, _ => None
        end
      else
        match decode_string d (str_cap d) (fst pst) (snd pst) with
        | Some (b', a', shared) =>
            if (shared =? lcp prev s) && ast_is a' s
            then option_map (cons (b', a')) (htrace_from d b (i + 1) s (b', a') r)
            else None
        | None => None
        end
  end.

Definition st0_dummy : bst * ast :=
  ({| c_chunk := 0; c_valid := 0; b_ptr := 0; b_remain := 0 |}, {| a_buf := []; a_len := 0; a_adv := 0; a_ext := 0 |}).

Definition code_chk (cws : list cw) : bool :=
  (lenN cws =? 256) && check_prefix_free cws && check_alphabetic cws && check_lengths cws &&
  forallb (fun c => snd c <? 32) cws.

Definition htfc_check (S : list str) (d : htfc) : bool :=
  let b := h_bsize d in
  (2 <=? b) && (b <? 2 ^ 32) && (h_elements d =? lenN S) && (lenN S <? 2 ^ 32) &&
  (h_buckets d =? (lenN S + b - 1) / b) && (h_k d =? 16) &&
  code_chk (h_cw d) && forallb (fun x => x <? 256) (h_text d) &&
  match htrace_from d b 0 [] st0_dummy S with Some _ => true | None => false end.

(* ---------------------------------------------------------------------- *)
(* second checker: the decodeString protocol is NOT run, only the chunk chain *)
(* ---------------------------------------------------------------------- *)
(* [htfc_check] above certifies an object by running the model's own decodeString over every bucket.  The
   checker below runs only the bit machine (processChunk + table lookup) along every bucket and compares the
   SYMBOLS the table hands out with the front-coded items VByte(lcp) ++ suffix ++ NUL computed from S;
   HTFCProofs.htfc_check2_sound proves that the advanced/extracted protocol of StatCoder::decodeString then
   reassembles exactly the strings of S (for in-bucket lcp < 128: one VByte byte, never 0). *)
Fixpoint has0 (l : list N) : bool := match l with [] => false | x :: r => (x =? 0) || has0 r end.
Fixpoint idx0 (l : list N) : N := match l with [] => 0 | x :: r => if x =? 0 then 0 else 1 + idx0 r end.

(* read table entries from bit state [bs] until [need] symbols are there ([A] = symbols already handed out
   in advance); every entry must be a regular one whose `endings` bit and strlen agree with its symbols *)
Fixpoint item_walk (fuel : nat) (d : htfc) (bs : bst) (A : list N) (need : N) : option (bst * list N) :=
  if need <=? lenN A then Some (bs, A)
  else match fuel with
       | O => None
       | S f =>
           match bstep d bs with
           | Some (CReg pos syms ending, bs') =>
               if negb (lenN syms =? 0) && Bool.eqb ending (has0 syms) &&
                  (if ending then match buf_strlen (h_stream d) pos with
                                  | Some sl => sl =? idx0 syms
                                  | None => false
                                  end
                   else true)
               then item_walk f d bs' (A ++ syms) need
               else None
           | _ => None
           end
       end.

(* flat pass as [htrace_from]; the state carried along is (bit state, symbols handed out in advance) *)
Fixpoint hchain_from (d : htfc) (b : N) (i : N) (prev : str) (bs : bst) (A : list N) (ss : list str) : bool :=
  match ss with
  | [] => true
  | s :: r =>
      (lenN s <? h_maxlength d) && forallb (fun c => negb (c =? 0)) s &&
      if i mod b =? 0 then
        let k := i / b + 1 in
        match rdN (h_bl d) k, pack_string (h_cw d) (s ++ [0]), decode_header d k with
        | Some off, Some (enc, _), Some st0 =>
            match reset_scan d k st0 with
            | Some st1 =>
                (off <=? lenN (h_text d)) && hprefix_eqb enc (skipN off (h_text d)) && ast_is (snd st0) s &&
                hchain_from d b (i + 1) s (fst st1) [] r
            | None => false
            end
        | _, _, _ => false
        end
      else
        let l := lcp prev s in
        let item := (l + 128) :: skipN l s ++ [0] in
        (l <? 128) && (l <? lenN s) &&
        match item_walk (S (length item)) d bs A (lenN item) with
        | Some (bs', Afull) =>
            hprefix_eqb item Afull && (lenN prev + 1 + lenN Afull <? str_cap d) &&
            hchain_from d b (i + 1) s bs' (skipN (lenN item) Afull) r
        | None => false
        end
  end.

Definition htfc_check2 (S : list str) (d : htfc) : bool :=
  let b := h_bsize d in
  (2 <=? b) && (b <? 2 ^ 32) && (h_elements d =? lenN S) && (lenN S <? 2 ^ 32) &&
  (h_buckets d =? (lenN S + b - 1) / b) && (h_k d =? 16) && (h_maxlength d <? 2 ^ 29) &&
  code_chk (h_cw d) && forallb (fun x => x <? 256) (h_text d) &&
  hchain_from d b 0 [] (fst st0_dummy) [] S.

(* ---------------------------------------------------------------------- *)
(* the layout the constructor defines (executable specification, no theorem depends on it) *)
(* ---------------------------------------------------------------------- *)
(* textStrings / blStrings as StringDictionaryHTFC(it, bucketsize) writes them, computed from S, the bucket size
   and the code table: every bucket = encodeSymbol over header ++ NUL from offset 0, padded to the byte
   (`if (offset > 0) bytes++`), then ONE continuous bit stream over the internal strings VByte(lcp) ++ suffix ++ NUL,
   padded to the byte at the end of a full bucket; the final `bytesStrings++` adds a 0 byte unless the last bucket
   is not full, has internal strings and ends inside a byte.  [htfc_layout_chk] compares this with the dumped
   object (printed as ok3= by the harness: a tie of the CONSTRUCTOR to this specification). *)
Fixpoint bucket_items (prev : str) (ss : list str) : list N :=
  match ss with
  | [] => []
  | s :: r => vb_encode (lcp prev s) ++ skipN (lcp prev s) s ++ [0] ++ bucket_items s r
  end.

(* (bytes of the bucket, the final `bytesStrings++` still has to add a 0 byte) *)
Definition bucket_bytes (cws : list cw) (b : nat) (ss : list str) : option (list N * bool) :=
  match ss with
  | [] => None
  | h :: r =>
      match pack_string cws (h ++ [0]) with
      | None => None
      | Some (hb, _) =>
          match r with
          | [] => Some (hb, true)
          | _ =>
              match pack_symbols cws (bucket_items h r) ([], 0, 0) with
              | None => None
              | Some st =>
                  Some (hb ++ final_bytes st, (Nat.eqb (length ss) b) || (snd st =? 0))
              end
          end
      end
  end.

Fixpoint layout_buckets (cws : list cw) (b : nat) (off : N) (bs : list (list str)) : option (list N * list N * bool) :=
  match bs with
  | [] => Some ([], [], true)
  | ss :: r =>
      match bucket_bytes cws b ss with
      | None => None
      | Some (bytes, extra) =>
          match layout_buckets cws b (off + lenN bytes) r with
          | None => None
          | Some (text, offs, extra') =>
              Some (bytes ++ text, off :: offs, match r with [] => extra | _ => extra' end)
          end
      end
  end.

Fixpoint hchunks (fuel : nat) (b : nat) (S : list str) : list (list str) :=
  match fuel with
  | O => []
  | Datatypes.S f => match S with [] => [] | _ => firstn b S :: hchunks f b (skipn b S) end
  end.

Definition htfc_layout (cws : list cw) (b : N) (S : list str) : option (list N * list N) :=
  match layout_buckets cws (N.to_nat b) 0 (hchunks (length S) (N.to_nat b) S) with
  | None => None
  | Some (text, offs, extra) =>
      let text' := if extra then text ++ [0] else text in
      Some (text', 0 :: offs ++ [lenN text'])
  end.

Definition htfc_layout_chk (S : list str) (d : htfc) : bool :=
  match htfc_layout (h_cw d) (h_bsize d) S with
  | Some (text, bl) => hlist_eqb text (h_text d) && hlist_eqb bl (h_bl d)
  | None => false
  end.
