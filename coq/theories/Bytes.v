(* Little-endian byte encodings of fixed-width scalars (what saveValue<T> /
   loadValue<T> do on this platform) and their round-trip lemmas. *)
From LibCSD Require Import Base.
Local Open Scope N_scope.

Fixpoint le_bytes (k : nat) (x : N) : list N :=
  match k with O => [] | S k' => (x mod 256) :: le_bytes k' (x / 256) end.

Fixpoint le_value (bs : list N) : N :=
  match bs with [] => 0 | b :: r => b + 256 * le_value r end.

Lemma le_bytes_length k x : length (le_bytes k x) = k.
Proof. revert x; induction k; intros; simpl; auto. Qed.

Lemma le_bytes_byte k x : Forall (fun b => b < 256) (le_bytes k x).
Proof.
  revert x; induction k as [|k IH]; intros x; simpl; constructor.
  - apply N.mod_lt. lia.
  - apply IH.
Qed.

Lemma le_value_le_bytes k x : x < 256 ^ N.of_nat k -> le_value (le_bytes k x) = x.
Proof.
  revert x; induction k as [|k IH]; intros x Hx.
  - simpl in *. lia.
  - cbn [le_bytes le_value]. rewrite IH.
    + pose proof (N.div_mod x 256). lia.
    + replace (N.of_nat (S k)) with (1 + N.of_nat k) in Hx by lia.
      rewrite N.pow_add_r in Hx. apply N.div_lt_upper_bound; [lia|]. exact Hx.
Qed.

Lemma le_bytes_le_value bs : Forall (fun b => b < 256) bs -> le_bytes (length bs) (le_value bs) = bs.
Proof.
  induction 1 as [|b r Hb Hr IH]; [reflexivity|].
  cbn [length le_bytes le_value].
  replace ((b + 256 * le_value r) mod 256) with b.
  - replace ((b + 256 * le_value r) / 256) with (le_value r); [rewrite IH; reflexivity|].
    apply (N.div_unique _ _ _ b); lia.
  - apply (N.mod_unique _ _ (le_value r)); lia.
Qed.

Lemma le_value_bound bs : Forall (fun b => b < 256) bs -> le_value bs < 256 ^ N.of_nat (length bs).
Proof.
  induction 1 as [|b r Hb Hr IH]; [simpl; lia|].
  cbn [length le_value]. replace (N.of_nat (S (length r))) with (1 + N.of_nat (length r)) by lia.
  rewrite N.pow_add_r. change (256 ^ 1) with 256. nia.
Qed.

Lemma firstn_app_exact {A} (l r : list A) n : length l = n -> firstn n (l ++ r) = l.
Proof. intros <-. rewrite firstn_app, Nat.sub_diag, firstn_all. simpl. apply app_nil_r. Qed.

Lemma skipn_app_exact {A} (l r : list A) n : length l = n -> skipn n (l ++ r) = r.
Proof. intros <-. rewrite skipn_app, Nat.sub_diag, skipn_all. reflexivity. Qed.
