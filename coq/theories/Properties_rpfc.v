(* RPFC (StringDictionaryRPFC): exported theorems.  Only `exact`, Print Assumptions and Examples. *)
From LibCSD Require Import Base Spec SpecProofs PFCDefs PFCLayout PFCExtractProofs RPFCDefs RPFCProofs.
Local Open Scope N_scope.

(* the boolean checkers run by the harness on every real object are sound *)
Theorem C01_rpfc_layout_chk_sound : forall d S,
  rpfc_layout_chk d S = true -> rpfc_layout_ok d (r_bsize d) S /\ 1 <= r_bsize d.
Proof. exact rpfc_layout_chk_sound. Qed.
Print Assumptions C01_rpfc_layout_chk_sound.

Theorem C01_rpfc_inputb_sound : forall S, rpfc_inputb S = true -> rpfc_input S.
Proof. exact rpfc_inputb_sound. Qed.
Print Assumptions C01_rpfc_inputb_sound.

(* 1. getHeader / decodeString walk the bucket: positions E, strings snth S i, shared-prefix lengths *)
Theorem C01_rpfc_decode_string_spec : forall d b S,
  rpfc_layout_ok d b S -> 2 <= b -> rpfc_input S ->
  exists E : N -> bpos,
    (forall k, 1 <= k -> k <= r_buckets d ->
       (k - 1) * b < lenN S /\ rpfc_get_header d k = Some (E ((k - 1) * b), snth S ((k - 1) * b))) /\
    (forall i, i + 1 < lenN S -> (i + 1) mod b <> 0 ->
       decode_string d (E i) (snth S i) = Some (E (i + 1), snth S (i + 1), lcp (snth S i) (snth S (i + 1)))).
Proof. exact rpfc_decode_string_spec. Qed.
Print Assumptions C01_rpfc_decode_string_spec.

(* 2. extract / locate *)
Theorem C01_rpfc_extract_spec : forall d b S id,
  rpfc_layout_ok d b S -> 2 <= b -> rpfc_input S -> rpfc_extract d id = Some (spec_extract S id).
Proof. exact rpfc_extract_spec. Qed.
Print Assumptions C01_rpfc_extract_spec.

Theorem C01_rpfc_locate_spec : forall d b S q,
  rpfc_layout_ok d b S -> 2 <= b -> rpfc_input S -> nul_free q -> rpfc_locate d q = Some (spec_locate S q).
Proof. exact rpfc_locate_spec. Qed.
Print Assumptions C01_rpfc_locate_spec.

(* 3. prefix search, iterator *)
Theorem C04_rpfc_locate_prefix_spec : forall d b S p,
  rpfc_layout_ok d b S -> 2 <= b -> rpfc_input S -> nul_free p ->
  rpfc_locate_prefix d p = Some (range_of (spec_prefix_ids S p)).
Proof. exact rpfc_locate_prefix_spec. Qed.
Print Assumptions C04_rpfc_locate_prefix_spec.

Theorem C04_rpfc_locate_prefix_ids : forall d b S p,
  rpfc_layout_ok d b S -> 2 <= b -> rpfc_input S -> nul_free p ->
  exists r, rpfc_locate_prefix d p = Some r /\ contig_ids (fst r) (snd r) = spec_prefix_ids S p.
Proof. exact rpfc_locate_prefix_ids. Qed.
Print Assumptions C04_rpfc_locate_prefix_ids.

Theorem C04_rpfc_extract_prefix_spec : forall d b S p,
  rpfc_layout_ok d b S -> 2 <= b -> rpfc_input S -> nul_free p ->
  rpfc_extract_prefix d p = Some (match spec_prefix_strs S p with [] => None | l => Some l end).
Proof. exact rpfc_extract_prefix_spec. Qed.
Print Assumptions C04_rpfc_extract_prefix_spec.

Theorem C13_rpfc_table_spec : forall d b S,
  rpfc_layout_ok d b S -> 2 <= b -> rpfc_input S -> rpfc_extract_table d = Some (spec_table S).
Proof. exact rpfc_table_spec. Qed.
Print Assumptions C13_rpfc_table_spec.

(* all of them for an object certified by the checkers *)
Theorem C03_rpfc_chk_theorems : forall d S, rpfc_layout_chk d S = true -> rpfc_inputb S = true ->
  (forall id, rpfc_extract d id = Some (spec_extract S id)) /\
  (forall q, nul_free q -> rpfc_locate d q = Some (spec_locate S q)) /\
  (forall p, nul_free p -> rpfc_locate_prefix d p = Some (range_of (spec_prefix_ids S p))) /\
  (forall p, nul_free p -> rpfc_extract_prefix d p = Some (match spec_prefix_strs S p with [] => None | l => Some l end)) /\
  rpfc_extract_table d = Some (spec_table S).
Proof. exact rpfc_chk_theorems. Qed.
Print Assumptions C03_rpfc_chk_theorems.

(* the length hypothesis of rpfc_input is necessary: the object the real constructor builds for
   { a^16512 b, a^16512 c } passes the layout checker, yet extract(2) is a memory error *)
Theorem C01_rpfc_vbyte3_refuted :
  rpfc_layout_chk vb3_d vb3_S = true /\ valid_set_b vb3_S = true /\
  rpfc_extract vb3_d 2 = None /\ spec_extract vb3_S 2 = Some (vb3_pre ++ [99]).
Proof. exact rpfc_vbyte3_refuted. Qed.
Print Assumptions C01_rpfc_vbyte3_refuted.

(* hypotheses satisfiable: the object dumped from the real constructor for ab abab ababab ababc abc c, b = 3 *)
Example RPFC_ex_hyps : rpfc_layout_ok rex_d 3 rex_S /\ 2 <= 3 /\ rpfc_input rex_S.
Proof. exact rex_hyps. Qed.

Example RPFC_ex_decode : exists E : N -> bpos,
  decode_string rex_d (E 0) (snth rex_S 0) = Some (E 1, snth rex_S 1, lcp (snth rex_S 0) (snth rex_S 1)).
Proof.
  destruct rex_hyps as (HL & Hb & Hin).
  destruct (rpfc_decode_string_spec rex_d 3 rex_S HL Hb Hin) as (E & _ & Hs).
  exists E. apply (Hs 0); [vm_compute; reflexivity|vm_compute; discriminate].
Qed.

Example RPFC_ex_extract : forall id, rpfc_extract rex_d id = Some (spec_extract rex_S id).
Proof. destruct rex_hyps as (HL & Hb & Hin). intros id. exact (rpfc_extract_spec rex_d 3 rex_S id HL Hb Hin). Qed.

Example RPFC_ex_locate : forall q, nul_free q -> rpfc_locate rex_d q = Some (spec_locate rex_S q).
Proof. destruct rex_hyps as (HL & Hb & Hin). intros q Hq. exact (rpfc_locate_spec rex_d 3 rex_S q HL Hb Hin Hq). Qed.

Example RPFC_ex_prefix : forall p, nul_free p ->
  rpfc_locate_prefix rex_d p = Some (range_of (spec_prefix_ids rex_S p)) /\
  rpfc_extract_prefix rex_d p = Some (match spec_prefix_strs rex_S p with [] => None | l => Some l end).
Proof.
  destruct rex_hyps as (HL & Hb & Hin). intros p Hp. split.
  - exact (rpfc_locate_prefix_spec rex_d 3 rex_S p HL Hb Hin Hp).
  - exact (rpfc_extract_prefix_spec rex_d 3 rex_S p HL Hb Hin Hp).
Qed.

Example RPFC_ex_table : rpfc_extract_table rex_d = Some rex_S.
Proof. destruct rex_hyps as (HL & Hb & Hin). exact (rpfc_table_spec rex_d 3 rex_S HL Hb Hin). Qed.

Example RPFC_ex_compute :
  map (rpfc_extract rex_d) [0; 1; 2; 3; 4; 5; 6; 7] = map (fun i => Some (spec_extract rex_S i)) [0; 1; 2; 3; 4; 5; 6; 7] /\
  map (rpfc_locate_prefix rex_d) [[97]; [97;98;97]; [97;98;99]; [99]; [98]; [100]] =
    [Some (1, 5); Some (2, 4); Some (5, 5); Some (6, 6); Some (0, 0); Some (0, 0)] /\
  rpfc_extract_table rex_d = Some rex_S.
Proof. vm_compute. repeat split; reflexivity. Qed.
