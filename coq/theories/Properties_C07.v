(* C07 — memory safety on valid input.  What Coq carries: (a) capacity accounting of the PFC
   constructor (Properties_pfcsave.v: C07_cap_... theorems), (b) every read of the Tier-A models goes through
   checked accessors and the out-of-bounds / fuel-exhaustion outcome is unreachable (below),
   (c) scratch buffers sized from maxlength hold every decoded string plus its NUL. *)
From LibCSD Require Import Base Spec SpecProofs VByteDefs PFCDefs PFCLayout PFCBuildProofs PFCExtractProofs PFCLocateProofs PFCTheorems PFCPrefixProofs.
Local Open Scope N_scope.

(* reads: locate, extract, prefix search, table scan never leave the text / offset array, never read the
   pattern past its NUL, and terminate within their fuel - for every query *)
Theorem C07_pfc_locate_in_bounds : forall d b S q, layout_ok d b S -> 2 <= b -> pfc_input S -> nul_free q ->
  pfc_locate d q <> None.
Proof. exact pfc_locate_safe. Qed.
Print Assumptions C07_pfc_locate_in_bounds.

Theorem C07_pfc_extract_in_bounds : forall d b S, layout_ok d b S -> 2 <= b -> pfc_input S ->
  forall id, pfc_extract d id <> None.
Proof. exact pfc_extract_safe. Qed.
Print Assumptions C07_pfc_extract_in_bounds.

Theorem C07_pfc_prefix_in_bounds : forall d b S p, layout_ok d b S -> 2 <= b -> pfc_input S ->
  p <> [] -> nul_free p -> lenN p < 2 ^ 32 -> pfc_locate_prefix d p <> None.
Proof. exact pfc_locate_prefix_safe. Qed.
Print Assumptions C07_pfc_prefix_in_bounds.

Theorem C07_pfc_table_in_bounds : forall d b S, layout_ok d b S -> 2 <= b -> pfc_input S ->
  pfc_extract_table d = Some S.
Proof. exact pfc_extract_table_spec. Qed.
Print Assumptions C07_pfc_table_in_bounds.

(* scratch buffers: getHeader / the iterators allocate maxlength bytes; every member plus its NUL fits *)
Theorem C07_pfc_scratch_fits : forall b0 S s, In s S -> lenN s + 1 <= p_maxlength (pfc_build b0 S).
Proof. intros b0 S s H. pose proof (pfc_build_maxlength_bound b0 S s H). lia. Qed.
Print Assumptions C07_pfc_scratch_fits.
