(* DAC_VLS: proofs about the model DACDefs (layout of the constructor, access, access_next,
   save/load, regression refutations). *)
From LibCSD Require Import Base Bytes DACDefs.
Require Import Lia ZifyBool ZifyNat ZifyN.
Ltac Zify.zify_post_hook ::= Z.to_euclidean_division_equations.
Local Open Scope N_scope.

(* ------------------------------------------------------------------------- *)
(* 0. checked reads and writes                                                *)
(* ------------------------------------------------------------------------- *)

Lemma dac_nth_eq {A} (l : list A) i : dac_nth l i = nthN l i.
Proof.
  unfold dac_nth. destruct (N.ltb_spec i (lenN l)) as [H|H]; [reflexivity|].
  unfold nthN, lenN in *. symmetry. apply nth_error_None. lia.
Qed.

Lemma dac_nth_mid {A} (a b : list A) x i : i = lenN a -> dac_nth (a ++ x :: b) i = Some x.
Proof.
  intros ->. rewrite dac_nth_eq. unfold nthN, lenN. rewrite Nat2N.id.
  rewrite nth_error_app2 by lia. rewrite Nat.sub_diag. reflexivity.
Qed.

Lemma dac_upd_nat_mid {A} (a b : list A) x v : dac_upd_nat (a ++ x :: b) (length a) v = Some (a ++ v :: b).
Proof. induction a as [|y a IH]; cbn [app length dac_upd_nat]; [reflexivity|]. rewrite IH. reflexivity. Qed.

Lemma dac_upd_mid {A} (a b : list A) x v i : i = lenN a -> dac_upd (a ++ x :: b) i v = Some (a ++ v :: b).
Proof.
  intros ->. unfold dac_upd.
  destruct (N.ltb_spec (lenN a) (lenN (a ++ x :: b))) as [H|H].
  - unfold lenN. rewrite Nat2N.id. apply dac_upd_nat_mid.
  - rewrite lenN_app, lenN_cons in H. lia.
Qed.

Lemma dac_sub32_small a b : b <= a -> a < dac_U32 -> dac_sub32 a b = a - b.
Proof. unfold dac_sub32, dac_U32. intros. rewrite (N.mod_small b) by lia. lia. Qed.

Lemma dac_add32_small a b : a + b < dac_U32 -> dac_add32 a b = a + b.
Proof. unfold dac_add32. intros. apply N.mod_small. assumption. Qed.

Lemma dac_bind_some {A B} (o : option A) (f : A -> option B) x : o = Some x -> dac_bind o f = f x.
Proof. intros ->. reflexivity. Qed.

(* ------------------------------------------------------------------------- *)
(* 1. segmented arrays: cat F n = F 0 ++ F 1 ++ ... ++ F (n-1)                 *)
(* ------------------------------------------------------------------------- *)

Definition catr {A} (F : nat -> list A) (a n : nat) : list A := concat (map F (seq a n)).
Definition cat {A} (F : nat -> list A) (n : nat) : list A := catr F 0 n.

Fixpoint sumfrom (sz : nat -> nat) (a n : nat) : nat :=
  match n with O => O | S n' => (sz a + sumfrom sz (S a) n')%nat end.

Lemma sumfrom_ext sz sz' a n : (forall k, (a <= k < a + n)%nat -> sz k = sz' k) -> sumfrom sz a n = sumfrom sz' a n.
Proof.
  revert a; induction n as [|n IH]; intros a H; cbn [sumfrom]; [reflexivity|].
  rewrite (H a) by lia. rewrite (IH (S a)); [reflexivity|]. intros; apply H; lia.
Qed.

Lemma sumfrom_app sz a n m : sumfrom sz a (n + m) = (sumfrom sz a n + sumfrom sz (a + n) m)%nat.
Proof.
  revert a; induction n as [|n IH]; intros a; cbn [sumfrom Nat.add].
  - rewrite Nat.add_0_r. reflexivity.
  - rewrite IH. replace (S a + n)%nat with (a + S n)%nat by lia. lia.
Qed.

Lemma sumfrom_S sz n : sumfrom sz 0 (S n) = (sumfrom sz 0 n + sz n)%nat.
Proof. replace (S n) with (n + 1)%nat by lia. rewrite sumfrom_app. cbn [sumfrom Nat.add]. lia. Qed.

Lemma sumfrom_mono sz j n : (j <= n)%nat -> (sumfrom sz 0 j <= sumfrom sz 0 n)%nat.
Proof. intros H. replace n with (j + (n - j))%nat by lia. rewrite sumfrom_app. lia. Qed.

Lemma catr_length {A} (F : nat -> list A) a n : length (catr F a n) = sumfrom (fun k => length (F k)) a n.
Proof.
  unfold catr. revert a; induction n as [|n IH]; intros a; cbn [seq map concat sumfrom]; [reflexivity|].
  rewrite app_length, IH. reflexivity.
Qed.

Lemma cat_length {A} (F : nat -> list A) n : length (cat F n) = sumfrom (fun k => length (F k)) 0 n.
Proof. apply catr_length. Qed.

Lemma catr_ext {A} (F G : nat -> list A) a n : (forall k, (a <= k < a + n)%nat -> F k = G k) -> catr F a n = catr G a n.
Proof.
  intros H. unfold catr. f_equal. apply map_ext_in. intros k Hk. apply in_seq in Hk. apply H. lia.
Qed.

Lemma cat_ext {A} (F G : nat -> list A) n : (forall k, (k < n)%nat -> F k = G k) -> cat F n = cat G n.
Proof. intros H. apply catr_ext. intros; apply H; lia. Qed.

Lemma cat_split {A} (F : nat -> list A) j n : (j < n)%nat -> cat F n = cat F j ++ F j ++ catr F (S j) (n - S j).
Proof.
  intros H. unfold cat, catr.
  replace n with (j + S (n - S j))%nat at 1 by lia.
  rewrite seq_app, map_app, concat_app. cbn [Nat.add seq map concat]. reflexivity.
Qed.

Lemma cat_S {A} (F : nat -> list A) n : cat F (S n) = cat F n ++ F n.
Proof. rewrite (cat_split F n (S n)) by lia. rewrite Nat.sub_diag. unfold catr. cbn. rewrite app_nil_r. reflexivity. Qed.

(* read / write the element at offset |a| of segment j *)
Lemma cat_nth {A} (F : nat -> list A) j n tl a x b i :
  (j < n)%nat -> F j = a ++ x :: b -> i = lenN (cat F j) + lenN a ->
  dac_nth (cat F n ++ tl) i = Some x.
Proof.
  intros Hj HF ->. rewrite (cat_split F j n Hj), HF.
  replace ((cat F j ++ (a ++ x :: b) ++ catr F (S j) (n - S j)) ++ tl)
    with ((cat F j ++ a) ++ x :: (b ++ catr F (S j) (n - S j) ++ tl)).
  - apply dac_nth_mid. rewrite lenN_app. reflexivity.
  - repeat rewrite <- app_assoc. reflexivity.
Qed.

Lemma cat_upd {A} (F G : nat -> list A) j n tl a x b v i :
  (j < n)%nat -> F j = a ++ x :: b -> G j = a ++ v :: b -> (forall k, k <> j -> G k = F k) ->
  i = lenN (cat F j) + lenN a ->
  dac_upd (cat F n ++ tl) i v = Some (cat G n ++ tl).
Proof.
  intros Hj HF HG Hext ->. rewrite (cat_split F j n Hj), (cat_split G j n Hj), HF, HG.
  rewrite (cat_ext G F j) by (intros; apply Hext; lia).
  rewrite (catr_ext G F (S j)) by (intros; apply Hext; lia).
  replace ((cat F j ++ (a ++ x :: b) ++ catr F (S j) (n - S j)) ++ tl)
    with ((cat F j ++ a) ++ x :: (b ++ catr F (S j) (n - S j) ++ tl))
    by (repeat rewrite <- app_assoc; reflexivity).
  replace ((cat F j ++ (a ++ v :: b) ++ catr F (S j) (n - S j)) ++ tl)
    with ((cat F j ++ a) ++ v :: (b ++ catr F (S j) (n - S j) ++ tl))
    by (repeat rewrite <- app_assoc; reflexivity).
  apply dac_upd_mid. rewrite lenN_app. reflexivity.
Qed.

(* prefix of the flat array that ends inside segment j *)
Lemma cat_firstn {A} (F : nat -> list A) j n tl t :
  (j < n)%nat -> (t <= length (F j))%nat ->
  firstn (length (cat F j) + t) (cat F n ++ tl) = cat F j ++ firstn t (F j).
Proof.
  intros Hj Ht. rewrite (cat_split F j n Hj). rewrite <- app_assoc.
  rewrite firstn_app_2. f_equal. rewrite <- app_assoc. rewrite firstn_app.
  replace (t - length (F j))%nat with O by lia. cbn [firstn]. apply app_nil_r.
Qed.

Lemma cat_firstn_whole {A} (F : nat -> list A) n tl : firstn (length (cat F n)) (cat F n ++ tl) = cat F n.
Proof. rewrite <- (Nat.add_0_r (length (cat F n))). rewrite firstn_app_2. cbn. apply app_nil_r. Qed.

Lemma cat_repeat {A} (x : A) sz n : cat (fun k => repeat x (sz k)) n = repeat x (sumfrom sz 0 n).
Proof.
  induction n as [|n IH]; [reflexivity|].
  rewrite cat_S, IH, sumfrom_S. symmetry. apply repeat_app.
Qed.

(* the same for one-element segments: map F (seq 0 n) *)
Lemma seq_split j n : (j < n)%nat -> seq 0 n = seq 0 j ++ j :: seq (S j) (n - S j).
Proof. intros H. replace n with (j + S (n - S j))%nat at 1 by lia. rewrite seq_app. reflexivity. Qed.

Lemma mapseq_nth {A} (F : nat -> A) j n i : (j < n)%nat -> i = N.of_nat j -> dac_nth (map F (seq 0 n)) i = Some (F j).
Proof.
  intros Hj ->. rewrite (seq_split j n Hj), map_app. cbn [map].
  apply dac_nth_mid. unfold lenN. rewrite map_length, seq_length. reflexivity.
Qed.

Lemma mapseq_upd {A} (F G : nat -> A) j n i v :
  (j < n)%nat -> i = N.of_nat j -> G j = v -> (forall k, k <> j -> G k = F k) ->
  dac_upd (map F (seq 0 n)) i v = Some (map G (seq 0 n)).
Proof.
  intros Hj -> HG Hext. rewrite (seq_split j n Hj), !map_app. cbn [map]. rewrite HG.
  rewrite (map_ext_in G F (seq 0 j)) by (intros k Hk; apply in_seq in Hk; apply Hext; lia).
  rewrite (map_ext_in G F (seq (S j) _)) by (intros k Hk; apply in_seq in Hk; apply Hext; lia).
  apply dac_upd_mid. unfold lenN. rewrite map_length, seq_length. reflexivity.
Qed.

(* ------------------------------------------------------------------------- *)
(* 2. the traversal of the constructor on a well-formed flat list             *)
(* ------------------------------------------------------------------------- *)
Lemma lenN_map {A B} (f : A -> B) l : lenN (map f l) = lenN l.
Proof. unfold lenN. rewrite map_length. reflexivity. Qed.

Section ScanSpec.
  Context {St : Type}.
  Variable onsym : N -> Z -> St -> option St.
  Variable onseq : St -> St.

  Fixpoint fold_sym (j : N) (s : list N) (st : St) : option St :=
    match s with
    | [] => Some st
    | x :: r => st' <- onsym j (Z.of_N x) st ;; fold_sym (j + 1) r st'
    end.
  Fixpoint fold_seqs (seqs : list (list N)) (st : St) : option St :=
    match seqs with
    | [] => Some st
    | s :: r => st' <- fold_sym 0 s st ;; fold_seqs r (onseq st')
    end.

  Lemma scan_inner_seq list s : forall pre sep post k j i st,
    list = pre ++ map Z.of_N s ++ sep :: post -> (sep < 0)%Z -> i = lenN pre -> (length s <= k)%nat ->
    dac_scan_inner onsym list k j i st = (st' <- fold_sym j s st ;; Some (i + lenN s, st')).
  Proof.
    induction s as [|x s IH]; intros pre sep post k j i st Hl Hsep Hi Hk.
    - cbn [fold_sym dac_bind map app] in *. rewrite lenN_nil, N.add_0_r.
      destruct k as [|k]; [reflexivity|]. cbn [dac_scan_inner].
      rewrite Hl. rewrite (dac_nth_mid pre post sep i Hi). cbn [dac_bind].
      destruct (Z.leb_spec 0 sep); [lia|reflexivity].
    - destruct k as [|k]; [cbn in Hk; lia|]. cbn [dac_scan_inner fold_sym map app] in *.
      rewrite Hl at 1. rewrite (dac_nth_mid pre _ (Z.of_N x) i Hi). cbn [dac_bind].
      destruct (Z.leb_spec 0 (Z.of_N x)); [|lia].
      destruct (onsym j (Z.of_N x) st) as [st'|]; cbn [dac_bind]; [|reflexivity].
      rewrite (IH (pre ++ [Z.of_N x]) sep post k (j + 1) (i + 1) st').
      + destruct (fold_sym (j + 1) s st'); cbn [dac_bind]; [|reflexivity].
        rewrite lenN_cons. do 2 f_equal. lia.
      + rewrite Hl, <- app_assoc. reflexivity.
      + assumption.
      + rewrite lenN_app, lenN_cons, lenN_nil. lia.
      + cbn in Hk. lia.
  Qed.

  Lemma scan_outer_seqs nL : forall R list pre k i st fuel llen,
    list = pre ++ dac_flatten_from k R ->
    Forall (fun s => (1 <= length s <= nL)%nat) R ->
    i = lenN pre -> llen = lenN list - 1 -> llen <= N.of_nat fuel + i ->
    dac_scan_outer onsym onseq list llen (N.of_nat nL) fuel i st = fold_seqs R st.
  Proof.
    induction R as [|s R IH]; intros list pre k i st fuel llen Hl HR Hi Hll Hfuel.
    - cbn [dac_flatten_from fold_seqs] in *. rewrite app_nil_r in Hl. subst list.
      assert (E : (i <? llen) = false) by (apply N.ltb_ge; lia).
      destruct fuel; cbn [dac_scan_outer]; rewrite E; reflexivity.
    - inversion HR as [|? ? Hs HR']; subst.
      cbn [dac_flatten_from fold_seqs] in *.
      set (list := pre ++ map Z.of_N s ++ (- Z.of_N (k + 1))%Z :: dac_flatten_from (k + 1) R) in *.
      assert (Hlen : lenN list = lenN pre + lenN s + 1 + lenN (dac_flatten_from (k + 1) R)).
      { unfold list. rewrite lenN_app, lenN_app, lenN_cons. rewrite lenN_map. lia. }
      assert (Hs1 : 1 <= lenN s) by (unfold lenN; lia).
      assert (E : (lenN pre <? lenN list - 1) = true) by (apply N.ltb_lt; lia).
      destruct fuel as [|f]; [lia|]. cbn [dac_scan_outer]. rewrite E. rewrite Nat2N.id.
      rewrite (scan_inner_seq list s pre (- Z.of_N (k + 1))%Z (dac_flatten_from (k + 1) R) nL 0 (lenN pre) st eq_refl);
        [|lia|reflexivity|lia].
      destruct (fold_sym 0 s st) as [st'|]; cbn [dac_bind]; [|reflexivity].
      apply (IH list (pre ++ map Z.of_N s ++ [(- Z.of_N (k + 1))%Z]) (k + 1)).
      + unfold list. repeat rewrite <- app_assoc. reflexivity.
      + assumption.
      + rewrite lenN_app, lenN_app, lenN_cons, lenN_nil. rewrite lenN_map. lia.
      + reflexivity.
      + lia.
  Qed.

  (* a loop invariant indexed by the level: M j is the state before symbol j *)
  Lemma fold_sym_inv (M : nat -> St) s :
    (forall j, (j < length s)%nat -> onsym (N.of_nat j) (Z.of_N (nth j s 0)) (M j) = Some (M (S j))) ->
    fold_sym 0 s (M O) = Some (M (length s)).
  Proof.
    intros H.
    assert (G : forall s2 s1, s = s1 ++ s2 -> fold_sym (N.of_nat (length s1)) s2 (M (length s1)) = Some (M (length s))).
    { induction s2 as [|x s2 IH]; intros s1 E.
      - rewrite app_nil_r in E. subst. reflexivity.
      - cbn [fold_sym].
        assert (Hx : nth (length s1) s 0 = x) by (rewrite E, app_nth2, Nat.sub_diag by lia; reflexivity).
        rewrite <- Hx. rewrite H by (rewrite E, app_length; cbn; lia). cbn [dac_bind].
        specialize (IH (s1 ++ [x])). rewrite app_length in IH. cbn [length] in IH.
        replace (N.of_nat (length s1) + 1) with (N.of_nat (length s1 + 1)) by lia.
        rewrite Nat.add_1_r in *. apply IH. rewrite E, <- app_assoc. reflexivity. }
    apply (G s []). reflexivity.
  Qed.
End ScanSpec.

(* ------------------------------------------------------------------------- *)
(* 3. the level-wise layout                                                    *)
(* ------------------------------------------------------------------------- *)
Definition longer (j : nat) (s : list N) : bool := (j <? length s)%nat.
Definition cnt (j : nat) (seqs : list (list N)) : nat := length (filter (longer j) seqs).
(* level j holds, in order, the j-th symbols of all sequences longer than j *)
Definition level (seqs : list (list N)) (j : nat) : list N := map (fun s => nth j s 0) (filter (longer j) seqs).
(* ... and the continuation bit of each says whether its sequence continues *)
Definition contbits (seqs : list (list N)) (j : nat) : list bool := map (longer (S j)) (filter (longer j) seqs).

Lemma cnt_app j P R : cnt j (P ++ R) = (cnt j P + cnt j R)%nat.
Proof. unfold cnt. rewrite filter_app, app_length. reflexivity. Qed.
Lemma cnt_cons j s R : cnt j (s :: R) = ((if longer j s then 1 else 0) + cnt j R)%nat.
Proof. unfold cnt. cbn [filter]. destruct (longer j s); reflexivity. Qed.
Lemma cnt_nil j : cnt j [] = O.
Proof. reflexivity. Qed.
Lemma cnt_snoc j P s : cnt j (P ++ [s]) = (cnt j P + (if longer j s then 1 else 0))%nat.
Proof. rewrite cnt_app, cnt_cons, cnt_nil. destruct (longer j s); lia. Qed.
Lemma level_length P j : length (level P j) = cnt j P.
Proof. unfold level, cnt. apply map_length. Qed.
Lemma contbits_length P j : length (contbits P j) = cnt j P.
Proof. unfold contbits, cnt. apply map_length. Qed.
Lemma level_app P R j : level (P ++ R) j = level P j ++ level R j.
Proof. unfold level. rewrite filter_app, map_app. reflexivity. Qed.
Lemma contbits_app P R j : contbits (P ++ R) j = contbits P j ++ contbits R j.
Proof. unfold contbits. rewrite filter_app, map_app. reflexivity. Qed.
Lemma level_cons s R j : level (s :: R) j = (if longer j s then [nth j s 0] else []) ++ level R j.
Proof. unfold level. cbn [filter]. destruct (longer j s); reflexivity. Qed.
Lemma contbits_cons s R j : contbits (s :: R) j = (if longer j s then [longer (S j) s] else []) ++ contbits R j.
Proof. unfold contbits. cbn [filter]. destruct (longer j s); reflexivity. Qed.
Lemma level_nil j : level [] j = [].
Proof. reflexivity. Qed.
Lemma contbits_nil j : contbits [] j = [].
Proof. reflexivity. Qed.

Definition wf_seqs (nL : nat) (seqs : list (list N)) : Prop := Forall (fun s => (1 <= length s <= nL)%nat) seqs.

(* pass 1: levelSizeAux[j] = number of sequences longer than j, listLength = number of sequences *)
Lemma count_pass nL : forall R P ll, wf_seqs nL R ->
  fold_seqs dac_count_sym dac_count_seq R (map (fun k => N.of_nat (cnt k P)) (seq 0 nL), ll)
  = Some (map (fun k => N.of_nat (cnt k (P ++ R))) (seq 0 nL), ll + lenN R).
Proof.
  induction R as [|s R IH]; intros P ll HR.
  - cbn [fold_seqs]. rewrite app_nil_r, lenN_nil, N.add_0_r. reflexivity.
  - inversion HR as [|? ? Hs HR']; subst. cbn [fold_seqs].
    set (M := fun j : nat => (map (fun k => N.of_nat (cnt k P) + (if (k <? j)%nat then 1 else 0)) (seq 0 nL), ll)).
    replace (map (fun k => N.of_nat (cnt k P)) (seq 0 nL), ll) with (M O)
      by (unfold M; f_equal; apply map_ext; intros; cbn; lia).
    rewrite (fold_sym_inv dac_count_sym M s).
    + cbn [dac_bind]. unfold M, dac_count_seq.
      replace (map (fun k => N.of_nat (cnt k P) + (if (k <? length s)%nat then 1 else 0)) (seq 0 nL))
        with (map (fun k => N.of_nat (cnt k (P ++ [s]))) (seq 0 nL)).
      * rewrite IH by assumption. rewrite <- app_assoc. cbn [app]. rewrite lenN_cons. do 2 f_equal. lia.
      * apply map_ext. intros k. rewrite cnt_snoc. unfold longer. destruct (k <? length s)%nat; lia.
    + intros j Hj. unfold M, dac_count_sym.
      rewrite (mapseq_nth _ j nL) by (reflexivity || lia). cbn [dac_bind].
      erewrite (mapseq_upd _ (fun k => N.of_nat (cnt k P) + (if (k <? S j)%nat then 1 else 0)) j nL);
        [reflexivity|lia|reflexivity| |].
      * rewrite Nat.ltb_irrefl. replace (j <? S j)%nat with true by (symmetry; apply Nat.ltb_lt; lia). lia.
      * intros k Hk. destruct (Nat.ltb_spec k (S j)), (Nat.ltb_spec k j); lia.
Qed.

Lemma longer_true j s : (j < length s)%nat -> longer j s = true.
Proof. intros. apply Nat.ltb_lt. assumption. Qed.
Lemma longer_false j s : (length s <= j)%nat -> longer j s = false.
Proof. intros. apply Nat.ltb_ge. assumption. Qed.

Lemma cat_nth0 {A} (F : nat -> list A) j n a x b i :
  (j < n)%nat -> F j = a ++ x :: b -> i = lenN (cat F j) + lenN a -> dac_nth (cat F n) i = Some x.
Proof. intros. rewrite <- (app_nil_r (cat F n)). eapply cat_nth; eassumption. Qed.

Lemma cat_upd0 {A} (F G : nat -> list A) j n a x b v i :
  (j < n)%nat -> F j = a ++ x :: b -> G j = a ++ v :: b -> (forall k, k <> j -> G k = F k) ->
  i = lenN (cat F j) + lenN a -> dac_upd (cat F n) i v = Some (cat G n).
Proof.
  intros. rewrite <- (app_nil_r (cat F n)), <- (app_nil_r (cat G n)). eapply cat_upd; eassumption.
Qed.

(* pass 2 *)
Section Fill.
  Variable nL : nat.
  Variable seqs : list (list N).
  Definition sz (k : nat) : nat := cnt k seqs.
  Definition LI (k : nat) : N := N.of_nat (sumfrom sz 0 k).
  Lemma LI_S k : LI (S k) = LI k + N.of_nat (sz k).
  Proof. unfold LI. rewrite sumfrom_S. lia. Qed.
  Lemma LI_mono j k : (j <= k)%nat -> LI j <= LI k.
  Proof. intros H. unfold LI. pose proof (sumfrom_mono sz j k H). lia. Qed.

  Lemma cat_offset {A} (F : nat -> list A) j : (forall k, length (F k) = sz k) -> lenN (cat F j) = LI j.
  Proof.
    intros H. unfold lenN, LI. rewrite cat_length. f_equal. apply sumfrom_ext. intros; apply H.
  Qed.

  (* arrays while the prefix P has been distributed and R is still to come *)
  Definition FS (P R : list (list N)) (k : nat) : list N := level P k ++ repeat 0 (cnt k R).
  Definition FB (P R : list (list N)) (k : nat) : list bool := contbits P k ++ repeat false (cnt k R).
  Definition ST (P R : list (list N)) : list N * list N * list bool :=
    (cat (FS P R) nL, map (fun k => LI k + N.of_nat (cnt k P)) (seq 0 nL), cat (FB P R) (nL - 1) ++ [false]).

  Lemma FS_length P R k : seqs = P ++ R -> length (FS P R k) = sz k.
  Proof. intros H. unfold FS, sz. rewrite H, app_length, level_length, repeat_length, cnt_app. reflexivity. Qed.
  Lemma FB_length P R k : seqs = P ++ R -> length (FB P R k) = sz k.
  Proof. intros H. unfold FB, sz. rewrite H, app_length, contbits_length, repeat_length, cnt_app. reflexivity. Qed.

  Hypothesis Hbound : LI nL + 1 < dac_U32.

  Section OneSeq.
    Variables (P : list (list N)) (s : list N) (R' : list (list N)).
    Hypothesis Hsplit : seqs = P ++ s :: R'.
    Hypothesis Hlen : (length s <= nL)%nat.

    Lemma Hsplit' : seqs = (P ++ [s]) ++ R'.
    Proof. rewrite Hsplit, <- app_assoc. reflexivity. Qed.

    Definition FSm (j k : nat) : list N := if (k <? j)%nat then FS (P ++ [s]) R' k else FS P (s :: R') k.
    Definition FBm (j k : nat) : list bool := if (S k <? j)%nat then FB (P ++ [s]) R' k else FB P (s :: R') k.
    Definition CB (j k : nat) : N := LI k + N.of_nat (cnt k P) + (if (k <? j)%nat then 1 else 0).
    Definition Mid (j : nat) : list N * list N * list bool :=
      (cat (FSm j) nL, map (CB j) (seq 0 nL), cat (FBm j) (nL - 1) ++ [false]).

    Lemma FSm_length j k : length (FSm j k) = sz k.
    Proof. unfold FSm. destruct (k <? j)%nat; apply FS_length; [apply Hsplit'|apply Hsplit]. Qed.
    Lemma FBm_length j k : length (FBm j k) = sz k.
    Proof. unfold FBm. destruct (S k <? j)%nat; apply FB_length; [apply Hsplit'|apply Hsplit]. Qed.

    Lemma cntP_le k : (cnt k P + (if longer k s then 1 else 0) <= sz k)%nat.
    Proof. unfold sz. rewrite Hsplit, cnt_app, cnt_cons. lia. Qed.

    Lemma fill_step j : (j < length s)%nat -> nth j s 0 < dac_U32 ->
      dac_fill_sym (N.of_nat j) (Z.of_N (nth j s 0)) (Mid j) = Some (Mid (S j)).
    Proof.
      intros Hj Hx. unfold Mid, dac_fill_sym.
      rewrite (mapseq_nth (CB j) j nL) by (reflexivity || lia). cbn [dac_bind].
      assert (Hc : CB j j = LI j + N.of_nat (cnt j P)) by (unfold CB; rewrite Nat.ltb_irrefl; lia).
      rewrite (cat_upd0 (FSm j) (FSm (S j)) j nL (level P j) 0 (repeat 0 (cnt j R'))).
      2: lia.
      2: { unfold FSm. rewrite Nat.ltb_irrefl. unfold FS. rewrite cnt_cons, (longer_true j s Hj). reflexivity. }
      2: { unfold FSm. replace (j <? S j)%nat with true by (symmetry; apply Nat.ltb_lt; lia).
           unfold FS. rewrite level_app, level_cons, (longer_true j s Hj), level_nil, app_nil_r, <- app_assoc.
           cbn [app]. rewrite N2Z.id, N.mod_small by assumption. reflexivity. }
      2: { intros k Hk. unfold FSm. destruct (Nat.ltb_spec k (S j)), (Nat.ltb_spec k j); try reflexivity; lia. }
      2: { rewrite (cat_offset (FSm j) j (FSm_length j)). unfold lenN. rewrite level_length. exact Hc. }
      cbn [dac_bind].
      assert (Hupd : dac_upd (map (CB j) (seq 0 nL)) (N.of_nat j) (CB j j + 1) = Some (map (CB (S j)) (seq 0 nL))).
      { apply (mapseq_upd (CB j) (CB (S j)) j nL); [lia|reflexivity| |].
        - unfold CB. rewrite Nat.ltb_irrefl. replace (j <? S j)%nat with true by (symmetry; apply Nat.ltb_lt; lia). lia.
        - intros k Hk. unfold CB. destruct (Nat.ltb_spec k (S j)), (Nat.ltb_spec k j); try reflexivity; lia. }
      rewrite Hupd.
      cbn [dac_bind].
      destruct j as [|j0].
      - cbn [N.of_nat N.ltb N.compare]. reflexivity.
      - replace (0 <? N.of_nat (S j0)) with true by (symmetry; apply N.ltb_lt; lia).
        replace (N.of_nat (S j0) - 1) with (N.of_nat j0) by lia.
        rewrite (mapseq_nth (CB (S (S j0))) j0 nL) by (reflexivity || lia). cbn [dac_bind].
        assert (Hj0 : (j0 < length s)%nat) by lia.
        pose proof (cntP_le j0) as Hle. rewrite (longer_true j0 s Hj0) in Hle.
        pose proof (LI_S j0) as HS. pose proof (LI_mono (S j0) nL ltac:(lia)) as Hm.
        assert (Hc1 : CB (S (S j0)) j0 = LI j0 + N.of_nat (cnt j0 P) + 1).
        { unfold CB. replace (j0 <? S (S j0))%nat with true by (symmetry; apply Nat.ltb_lt; lia). reflexivity. }
        rewrite Hc1. rewrite dac_sub32_small by lia.
        rewrite (cat_upd (FBm (S j0)) (FBm (S (S j0))) j0 (nL - 1) [false] (contbits P j0) false (repeat false (cnt j0 R')) true).
        + reflexivity.
        + lia.
        + unfold FBm. rewrite Nat.ltb_irrefl. unfold FB. rewrite cnt_cons, (longer_true j0 s Hj0). reflexivity.
        + unfold FBm. replace (S j0 <? S (S j0))%nat with true by (symmetry; apply Nat.ltb_lt; lia).
          unfold FB. rewrite contbits_app, contbits_cons, (longer_true j0 s Hj0), contbits_nil, app_nil_r, <- app_assoc.
          cbn [app]. rewrite (longer_true (S j0) s Hj). reflexivity.
        + intros k Hk. unfold FBm. destruct (Nat.ltb_spec (S k) (S (S j0))), (Nat.ltb_spec (S k) (S j0)); try reflexivity; lia.
        + rewrite (cat_offset (FBm (S j0)) j0 (FBm_length (S j0))). unfold lenN. rewrite contbits_length. lia.
    Qed.

    Lemma Mid_start : Mid O = ST P (s :: R').
    Proof.
      unfold Mid, ST.
      replace (map (CB 0) (seq 0 nL)) with (map (fun k => LI k + N.of_nat (cnt k P)) (seq 0 nL))
        by (apply map_ext; intros k; unfold CB; cbn; lia).
      reflexivity.
    Qed.

    Lemma Mid_end : Mid (length s) = ST (P ++ [s]) R'.
    Proof.
      unfold Mid, ST. f_equal; [f_equal|f_equal].
      - apply cat_ext. intros k Hk. unfold FSm. destruct (Nat.ltb_spec k (length s)); [reflexivity|].
        unfold FS. rewrite level_app, level_cons, cnt_cons, (longer_false k s) by lia.
        rewrite level_nil, app_nil_r. reflexivity.
      - apply map_ext. intros k. unfold CB. rewrite cnt_snoc. unfold longer. destruct (k <? length s)%nat; lia.
      - apply cat_ext. intros k Hk. unfold FBm. destruct (Nat.ltb_spec (S k) (length s)); [reflexivity|].
        unfold FB. rewrite contbits_app, contbits_cons, cnt_cons, contbits_nil, app_nil_r.
        destruct (Nat.ltb_spec k (length s)) as [Hk'|Hk'].
        + rewrite (longer_true k s Hk'), (longer_false (S k) s) by lia. rewrite <- app_assoc. reflexivity.
        + rewrite (longer_false k s) by lia. rewrite app_nil_r. reflexivity.
    Qed.

    Lemma fill_seq : Forall (fun x => x < dac_U32) s ->
      fold_sym dac_fill_sym 0 s (ST P (s :: R')) = Some (ST (P ++ [s]) R').
    Proof.
      intros Hs. rewrite <- Mid_start, <- Mid_end. apply fold_sym_inv.
      intros j Hj. apply fill_step; [assumption|].
      rewrite Forall_forall in Hs. apply Hs. apply nth_In. assumption.
    Qed.
  End OneSeq.

  Lemma fill_pass : forall R P, seqs = P ++ R -> wf_seqs nL R -> Forall (Forall (fun x => x < dac_U32)) R ->
    fold_seqs dac_fill_sym (fun st => st) R (ST P R) = Some (ST seqs []).
  Proof.
    induction R as [|s R IH]; intros P Hsp HR Hsym.
    - rewrite app_nil_r in Hsp. subst P. reflexivity.
    - inversion HR as [|? ? Hs HR']; inversion Hsym as [|? ? Hx Hsym']; subst s R. cbn [fold_seqs].
      rewrite (fill_seq P _ _ Hsp) by (lia || assumption). cbn [dac_bind].
      apply IH; [rewrite Hsp, <- app_assoc; reflexivity|assumption|assumption].
  Qed.
End Fill.

(* ------------------------------------------------------------------------- *)
(* 4. the constructor builds exactly the level-wise layout                     *)
(* ------------------------------------------------------------------------- *)
Lemma prefix_sums_gen (sz : nat -> nat) : forall n a acc,
  dac_prefix_sums acc (map (fun k => N.of_nat (sz k)) (seq a n))
  = map (fun k => acc + N.of_nat (sumfrom sz a k)) (seq 0 (S n)).
Proof.
  induction n as [|n IH]; intros a acc.
  - cbn. rewrite N.add_0_r. reflexivity.
  - change (seq a (S n)) with (a :: seq (S a) n). cbn [map dac_prefix_sums]. rewrite IH.
    replace (seq 0 (S (S n))) with (0%nat :: map S (seq 0 (S n))) by (rewrite seq_shift; reflexivity).
    cbn [map]. rewrite map_map. f_equal.
    + cbn [sumfrom]. lia.
    + apply map_ext. intros k. cbn [sumfrom]. lia.
Qed.

Lemma repeat_mapseq {A} (x : A) n : repeat x n = map (fun _ => x) (seq 0 n).
Proof.
  induction n as [|n IH]; [reflexivity|]. cbn [repeat seq map]. rewrite IH, <- seq_shift, map_map. reflexivity.
Qed.

Lemma firstn_seq n : firstn n (seq 0 (S n)) = seq 0 n.
Proof. rewrite seq_S. rewrite firstn_app_exact by apply seq_length. reflexivity. Qed.

Lemma cnt0 nL seqs : wf_seqs nL seqs -> cnt 0 seqs = length seqs.
Proof.
  induction 1 as [|s r Hs Hr IH]; [reflexivity|]. rewrite cnt_cons, IH, (longer_true 0 s) by lia. reflexivity.
Qed.

Lemma seq_head n : (1 <= n)%nat -> seq 0 n = 0%nat :: seq 1 (n - 1).
Proof. destruct n; [lia|]. cbn. rewrite Nat.sub_0_r. reflexivity. Qed.

Lemma repeat_snoc {A} (x : A) n : repeat x (n + 1) = repeat x n ++ [x].
Proof. rewrite repeat_app. reflexivity. Qed.

(* the object the constructor is proved to produce *)
Definition the_dac (seqs : list (list N)) (logr : N) (nL : nat) : dac :=
  {| d_tamCode := dac_tam logr 0 (map (fun k => N.of_nat (cnt k seqs)) (seq 0 nL));
     d_base_bits := logr mod 65536;
     d_listLength := lenN seqs;
     d_nLevels := N.of_nat nL;
     d_levelsIndex := map (LI seqs) (seq 0 (S nL));
     d_syms := cat (level seqs) nL;
     d_bits := cat (contbits seqs) (nL - 1) ++ [true];
     d_rankLevels := map (fun j => dac_count (cat (contbits seqs) j)) (seq 0 nL) |}.

Section Build.
  Variable nL : nat.
  Variable seqs : list (list N).
  Hypothesis Hne : seqs <> [].
  Hypothesis Hwf : wf_seqs nL seqs.
  Hypothesis Hsym : Forall (Forall (fun x => x < dac_U32)) seqs.
  Hypothesis HnL : N.of_nat nL < dac_U32.
  Hypothesis Hbound : LI seqs nL + 1 < dac_U32.

  Lemma nL_pos : (1 <= nL)%nat.
  Proof. destruct seqs as [|s r]; [congruence|]. inversion Hwf; subst. lia. Qed.

  Lemma LI_pos j : (1 <= j)%nat -> 1 <= LI seqs j.
  Proof.
    intros Hj. pose proof (LI_mono seqs 1 j Hj) as H. rewrite (LI_S seqs 0) in H. unfold sz in H at 1.
    rewrite (cnt0 nL seqs Hwf) in H. unfold LI at 1 in H. cbn [sumfrom] in H.
    destruct seqs; [congruence|]. cbn [length] in H. lia.
  Qed.

  Lemma contbits_offset j : lenN (cat (contbits seqs) j) = LI seqs j.
  Proof. apply cat_offset. intros k. apply contbits_length. Qed.
  Lemma level_offset j : lenN (cat (level seqs) j) = LI seqs j.
  Proof. apply cat_offset. intros k. apply level_length. Qed.

  Lemma build_count :
    dac_scan dac_count_sym dac_count_seq (dac_flatten seqs) (dac_llen seqs) (N.of_nat nL)
      (repeat 0 (N.to_nat (N.of_nat nL)), 0)
    = Some (map (fun k => N.of_nat (cnt k seqs)) (seq 0 nL), lenN seqs).
  Proof.
    unfold dac_scan.
    rewrite (scan_outer_seqs dac_count_sym dac_count_seq nL seqs (dac_flatten seqs) [] 0 0 _ _ (dac_llen seqs));
      [|reflexivity|exact Hwf|reflexivity|reflexivity|lia].
    rewrite Nat2N.id, repeat_mapseq.
    change (map (fun _ : nat => 0) (seq 0 nL)) with (map (fun k => N.of_nat (cnt k [])) (seq 0 nL)).
    rewrite (count_pass nL seqs [] 0 Hwf). reflexivity.
  Qed.

  Lemma ST_start :
    (repeat 0 (N.to_nat (LI seqs nL)), firstn (N.to_nat (N.of_nat nL)) (map (LI seqs) (seq 0 (S nL))),
     repeat false (N.to_nat (LI seqs (nL - 1) + 1)))
    = ST nL seqs [] seqs.
  Proof.
    unfold ST. f_equal; [f_equal|].
    - unfold LI. rewrite Nat2N.id. rewrite <- cat_repeat. apply cat_ext. intros k _. reflexivity.
    - rewrite Nat2N.id, firstn_map, firstn_seq. apply map_ext. intros k. rewrite cnt_nil. lia.
    - unfold LI. replace (N.to_nat (N.of_nat (sumfrom (sz seqs) 0 (nL - 1)) + 1)) with (sumfrom (sz seqs) 0 (nL - 1) + 1)%nat by lia.
      rewrite repeat_snoc. f_equal. rewrite <- cat_repeat. apply cat_ext. intros k _. reflexivity.
  Qed.

  Lemma build_fill :
    dac_scan dac_fill_sym (fun st => st) (dac_flatten seqs) (dac_llen seqs) (N.of_nat nL) (ST nL seqs [] seqs)
    = Some (cat (level seqs) nL, map (fun k => LI seqs k + N.of_nat (cnt k seqs)) (seq 0 nL),
            cat (contbits seqs) (nL - 1) ++ [false]).
  Proof.
    unfold dac_scan.
    rewrite (scan_outer_seqs dac_fill_sym (fun st => st) nL seqs (dac_flatten seqs) [] 0 0 _ _ (dac_llen seqs));
      [|reflexivity|exact Hwf|reflexivity|reflexivity|lia].
    rewrite (fill_pass nL seqs Hbound seqs [] eq_refl Hwf Hsym). unfold ST. do 2 f_equal; [f_equal|f_equal].
    - apply cat_ext. intros k _. unfold FS. rewrite cnt_nil. apply app_nil_r.
    - apply cat_ext. intros k _. unfold FB. rewrite cnt_nil. apply app_nil_r.
  Qed.

  Definition RL (j : nat) : N := dac_count (cat (contbits seqs) j).

  Lemma bits_firstn j last : (j <= nL - 1)%nat ->
    firstn (N.to_nat (LI seqs j)) (cat (contbits seqs) (nL - 1) ++ [last]) = cat (contbits seqs) j.
  Proof.
    intros Hj. rewrite <- contbits_offset. unfold lenN. rewrite Nat2N.id.
    destruct (Nat.eq_dec j (nL - 1)) as [->|Hne'].
    - apply cat_firstn_whole.
    - rewrite <- (Nat.add_0_r (length _)). rewrite cat_firstn by lia. cbn [firstn]. apply app_nil_r.
  Qed.

  Lemma bits_len last : lenN (cat (contbits seqs) (nL - 1) ++ [last]) = LI seqs (nL - 1) + 1.
  Proof. rewrite lenN_app, contbits_offset. reflexivity. Qed.

  Lemma rank_levels_spec last : forall k j, (1 <= j)%nat -> (j + k <= nL)%nat ->
    dac_rank_levels (cat (contbits seqs) (nL - 1) ++ [last]) (map (LI seqs) (seq 0 (S nL))) k (N.of_nat j)
    = Some (map RL (seq j k)).
  Proof.
    induction k as [|k IH]; intros j Hj Hjk; [reflexivity|].
    cbn [dac_rank_levels seq map].
    rewrite (mapseq_nth (LI seqs) j (S nL)) by (reflexivity || lia). cbn [dac_bind].
    pose proof (LI_pos j Hj) as Hp. pose proof (LI_mono seqs j (nL - 1) ltac:(lia)) as Hm.
    pose proof (LI_mono seqs (nL - 1) nL ltac:(lia)) as Hm'.
    rewrite dac_sub32_small by lia.
    unfold dac_rank1. rewrite bits_len.
    replace (LI seqs j - 1 <? LI seqs (nL - 1) + 1) with true by (symmetry; apply N.ltb_lt; lia).
    replace (S (N.to_nat (LI seqs j - 1))) with (N.to_nat (LI seqs j)) by lia.
    rewrite bits_firstn by lia. cbn [dac_bind].
    replace (N.of_nat j + 1) with (N.of_nat (S j)) by lia.
    rewrite IH by lia. reflexivity.
  Qed.

  Theorem dac_build_spec logr :
    dac_build (dac_flatten seqs) (dac_llen seqs) logr (N.of_nat nL) = Some (the_dac seqs logr nL).
  Proof.
    pose proof nL_pos as Hn1.
    unfold dac_build. rewrite build_count. cbn [dac_bind].
    change (fun k : nat => N.of_nat (cnt k seqs)) with (fun k : nat => N.of_nat (sz seqs k)).
    rewrite (prefix_sums_gen (sz seqs) nL 0 0).
    replace (map (fun k => 0 + N.of_nat (sumfrom (sz seqs) 0 k)) (seq 0 (S nL))) with (map (LI seqs) (seq 0 (S nL)))
      by (apply map_ext; intros k; unfold LI; lia).
    rewrite (mapseq_nth (LI seqs) nL (S nL)) by (reflexivity || lia). cbn [dac_bind].
    rewrite dac_sub32_small by lia.
    rewrite (mapseq_nth (LI seqs) (nL - 1) (S nL)) by lia. cbn [dac_bind].
    rewrite ST_start, build_fill. cbn [dac_bind].
    replace (LI seqs (nL - 1) + 1 - 1) with (LI seqs (nL - 1)) by lia.
    rewrite (dac_upd_mid (cat (contbits seqs) (nL - 1)) [] false true) by (symmetry; apply contbits_offset).
    cbn [dac_bind].
    replace (N.of_nat nL =? 0) with false by (symmetry; apply N.eqb_neq; lia).
    replace (N.to_nat (N.of_nat nL) - 1)%nat with (nL - 1)%nat by lia.
    pose proof (rank_levels_spec true (nL - 1) 1 ltac:(lia) ltac:(lia)) as Hr. change (N.of_nat 1) with 1 in Hr.
    rewrite Hr. cbn [dac_bind].
    unfold the_dac. do 2 f_equal.
    rewrite (seq_head nL Hn1). reflexivity.
  Qed.
End Build.

(* ------------------------------------------------------------------------- *)
(* 5. access / access_next on the layout                                       *)
(* ------------------------------------------------------------------------- *)
Lemma dac_count_app a b : dac_count (a ++ b) = dac_count a + dac_count b.
Proof. induction a as [|x a IH]; cbn [app dac_count]; [reflexivity|]. rewrite IH. lia. Qed.

Lemma dac_count_le l : dac_count l <= lenN l.
Proof. induction l as [|x l IH]; [cbn; lia|]. rewrite lenN_cons. cbn [dac_count]. destruct x; lia. Qed.

Lemma longer_S j s : longer (S j) s = true -> longer j s = true.
Proof. unfold longer. intros H. apply Nat.ltb_lt in H. apply Nat.ltb_lt. lia. Qed.

(* rank over the continuation bits of a level = position in the next level *)
Lemma count_contbits P j : dac_count (contbits P j) = N.of_nat (cnt (S j) P).
Proof.
  induction P as [|s P IH]; [reflexivity|].
  rewrite contbits_cons, cnt_cons, dac_count_app, IH.
  destruct (longer (S j) s) eqn:E.
  - rewrite (longer_S j s E). cbn [dac_count]. lia.
  - destruct (longer j s); cbn [dac_count]; lia.
Qed.

Lemma firstn_mid {A} (a b : list A) x : firstn (S (length a)) (a ++ x :: b) = a ++ [x].
Proof.
  replace (S (length a)) with (length a + 1)%nat by lia. rewrite firstn_app_2. reflexivity.
Qed.

Lemma firstn_S_nth {A} (l : list A) j d : (j < length l)%nat -> firstn j l ++ [nth j l d] = firstn (S j) l.
Proof.
  revert j; induction l as [|x l IH]; intros j H; [cbn in H; lia|].
  destruct j as [|j]; [reflexivity|]. cbn [firstn nth app]. f_equal. apply IH. cbn in H. lia.
Qed.

Lemma dac_access_loop_eq d fuel j ini acc :
  dac_access_loop d fuel j ini acc =
  if j <? dac_sub32 (d_nLevels d) 1 then
    b <- dac_nth (d_bits d) ini ;;
    if b : bool then
      match fuel with
      | O => None
      | S f =>
          r <- dac_rank1 (d_bits d) ini ;;
          rl <- dac_nth (d_rankLevels d) j ;;
          let rankini := dac_sub32 r rl in
          let j' := dac_add32 j 1 in
          li <- dac_nth (d_levelsIndex d) j' ;;
          let ini' := dac_sub32 (dac_add32 li rankini) 1 in
          v <- dac_nth (d_syms d) ini' ;;
          if j' <? d_nLevels d then
            if j' =? dac_sub32 (d_nLevels d) 1 then Some (acc ++ [v])
            else dac_access_loop d f j' ini' (acc ++ [v])
          else None
      end
    else Some acc
  else Some acc.
Proof. destruct fuel; reflexivity. Qed.

Lemma skipn_nth_cons {A} (l : list A) j d : (j < length l)%nat -> skipn j l = nth j l d :: skipn (S j) l.
Proof.
  revert j; induction l as [|x l IH]; intros j H; [cbn in H; lia|].
  destruct j as [|j]; [reflexivity|]. cbn [skipn nth]. apply IH. cbn in H. lia.
Qed.

Lemma dac_chain_END d fuel l : dac_chain d fuel l dac_END = Some [].
Proof. destruct fuel; reflexivity. Qed.
Lemma dac_chain_bounded_END d k l : dac_chain_bounded d k l dac_END = Some [].
Proof. destruct k; reflexivity. Qed.

Section Access.
  Variable nL : nat.
  Variable seqs : list (list N).
  Variable logr : N.
  Hypothesis Hwf : wf_seqs nL seqs.
  Hypothesis HnL : N.of_nat nL < dac_U32.
  Hypothesis Hbound : LI seqs nL + 1 < dac_U32.
  Let d := the_dac seqs logr nL.

  Section At.
    Variables (P : list (list N)) (s : list N) (R : list (list N)).
    Hypothesis Hsplit : seqs = P ++ s :: R.

    Lemma s_len : (1 <= length s <= nL)%nat.
    Proof.
      unfold wf_seqs in Hwf. rewrite Hsplit in Hwf. apply Forall_app in Hwf. destruct Hwf as [_ H].
      inversion H; subst. assumption.
    Qed.

    Lemma cntP_le' k : (cnt k P + (if longer k s then 1 else 0) <= sz seqs k)%nat.
    Proof. unfold sz. rewrite Hsplit, cnt_app, cnt_cons. lia. Qed.

    Lemma cnt0P : cnt 0 P = length P.
    Proof.
      unfold wf_seqs in Hwf. rewrite Hsplit in Hwf. apply Forall_app in Hwf. destruct Hwf as [H _].
      apply (cnt0 nL P H).
    Qed.

    Lemma sym_at j : (j < length s)%nat ->
      dac_nth (d_syms d) (LI seqs j + N.of_nat (cnt j P)) = Some (nth j s 0).
    Proof.
      intros Hj. pose proof s_len. unfold d, the_dac. cbn [d_syms].
      apply (cat_nth0 (level seqs) j nL (level P j) (nth j s 0) (level R j)); [lia| |].
      - rewrite Hsplit, level_app, level_cons, (longer_true j s Hj). reflexivity.
      - rewrite (cat_offset seqs (level seqs) j (level_length seqs)). unfold lenN. rewrite level_length. reflexivity.
    Qed.

    Lemma bit_at j : (j < length s)%nat -> (j < nL - 1)%nat ->
      dac_nth (d_bits d) (LI seqs j + N.of_nat (cnt j P)) = Some (longer (S j) s).
    Proof.
      intros Hj Hj'. unfold d, the_dac. cbn [d_bits].
      apply (cat_nth (contbits seqs) j (nL - 1) [true] (contbits P j) (longer (S j) s) (contbits R j)); [lia| |].
      - rewrite Hsplit, contbits_app, contbits_cons, (longer_true j s Hj). reflexivity.
      - rewrite (cat_offset seqs (contbits seqs) j (contbits_length seqs)). unfold lenN. rewrite contbits_length. reflexivity.
    Qed.

    Lemma rank_at j : (j < length s)%nat -> (j < nL - 1)%nat ->
      exists r, dac_rank1 (d_bits d) (LI seqs j + N.of_nat (cnt j P)) = Some r /\
                r = RL seqs j + N.of_nat (cnt (S j) P) + (if longer (S j) s then 1 else 0) /\
                r <= LI seqs (nL - 1) + 1.
    Proof.
      intros Hj Hj'. unfold d, the_dac. cbn [d_bits]. unfold dac_rank1.
      assert (Hlen : lenN (cat (contbits seqs) (nL - 1) ++ [true]) = LI seqs (nL - 1) + 1).
      { rewrite lenN_app. rewrite (cat_offset seqs (contbits seqs) _ (contbits_length seqs)). reflexivity. }
      rewrite Hlen.
      pose proof (cntP_le' j) as Hle. rewrite (longer_true j s Hj) in Hle.
      pose proof (LI_S seqs j) as HS. pose proof (LI_mono seqs (S j) (nL - 1) ltac:(lia)) as Hm.
      replace (LI seqs j + N.of_nat (cnt j P) <? LI seqs (nL - 1) + 1) with true by (symmetry; apply N.ltb_lt; lia).
      eexists. split; [reflexivity|]. split.
      - replace (S (N.to_nat (LI seqs j + N.of_nat (cnt j P)))) with (length (cat (contbits seqs) j) + S (cnt j P))%nat.
        2: { pose proof (cat_offset seqs (contbits seqs) j (contbits_length seqs)) as Ho. unfold lenN in Ho. lia. }
        rewrite cat_firstn by (rewrite ?contbits_length; unfold sz in Hle; lia).
        rewrite Hsplit at 2. rewrite contbits_app, contbits_cons, (longer_true j s Hj). cbn [app].
        rewrite <- (contbits_length P j), firstn_mid.
        rewrite !dac_count_app, count_contbits. unfold RL. cbn [dac_count]. lia.
      - rewrite <- Hlen. etransitivity; [apply dac_count_le|].
        unfold lenN. rewrite firstn_length. lia.
    Qed.

    Lemma RL_le j : (j <= nL - 1)%nat -> RL seqs j <= LI seqs j.
    Proof.
      intros. unfold RL. rewrite <- (cat_offset seqs (contbits seqs) j (contbits_length seqs)). apply dac_count_le.
    Qed.

    Lemma access_loop_spec : forall fuel j, (j < length s)%nat -> (nL <= fuel + j + 1)%nat ->
      dac_access_loop d fuel (N.of_nat j) (LI seqs j + N.of_nat (cnt j P)) (firstn (S j) s) = Some s.
    Proof.
      pose proof s_len as Hs.
      assert (HnLs : dac_sub32 (d_nLevels d) 1 = N.of_nat (nL - 1)).
      { unfold d, the_dac. cbn [d_nLevels]. rewrite dac_sub32_small by lia. lia. }
      induction fuel as [|f IH]; intros j Hj Hfuel; rewrite dac_access_loop_eq; rewrite HnLs.
      - (* no fuel: j is already the last level *)
        destruct (N.ltb_spec (N.of_nat j) (N.of_nat (nL - 1))); [lia|].
        rewrite firstn_all2 by lia. reflexivity.
      - destruct (N.ltb_spec (N.of_nat j) (N.of_nat (nL - 1))) as [Hlt|Hge].
        2: { rewrite firstn_all2 by lia. reflexivity. }
        assert (Hj' : (j < nL - 1)%nat) by lia.
        rewrite (bit_at j Hj Hj'). cbn [dac_bind].
        destruct (longer (S j) s) eqn:E.
        2: { apply Nat.ltb_ge in E. rewrite firstn_all2 by lia. reflexivity. }
        apply Nat.ltb_lt in E.
        destruct (rank_at j Hj Hj') as (r & Hr & Hrv & Hrb). rewrite Hr. cbn [dac_bind].
        rewrite (longer_true (S j) s E) in Hrv.
        unfold d at 1, the_dac at 1. cbn [d_rankLevels].
        rewrite (mapseq_nth (fun j => dac_count (cat (contbits seqs) j)) j nL) by (reflexivity || lia).
        cbn [dac_bind]. fold (RL seqs j).
        pose proof (RL_le j ltac:(lia)) as HRL.
        pose proof (cntP_le' (S j)) as Hle. rewrite (longer_true (S j) s E) in Hle.
        pose proof (LI_S seqs (S j)) as HS. pose proof (LI_mono seqs (S (S j)) nL ltac:(lia)) as Hm.
        pose proof (LI_mono seqs (nL - 1) nL ltac:(lia)) as Hm2.
        rewrite (dac_sub32_small r (RL seqs j)) by lia.
        replace (r - RL seqs j) with (N.of_nat (cnt (S j) P) + 1) by lia.
        rewrite (dac_add32_small (N.of_nat j) 1) by lia.
        replace (N.of_nat j + 1) with (N.of_nat (S j)) by lia.
        unfold d at 1, the_dac at 1. cbn [d_levelsIndex].
        rewrite (mapseq_nth (LI seqs) (S j) (S nL)) by (reflexivity || lia). cbn [dac_bind].
        rewrite dac_add32_small by lia. rewrite dac_sub32_small by lia.
        replace (LI seqs (S j) + (N.of_nat (cnt (S j) P) + 1) - 1) with (LI seqs (S j) + N.of_nat (cnt (S j) P)) by lia.
        rewrite (sym_at (S j) E). cbn [dac_bind].
        unfold d at 1, the_dac at 1. cbn [d_nLevels].
        replace (N.of_nat (S j) <? N.of_nat nL) with true by (symmetry; apply N.ltb_lt; lia).
        rewrite (firstn_S_nth s (S j) 0 E).
        destruct (N.eqb_spec (N.of_nat (S j)) (N.of_nat (nL - 1))) as [Heq|Hneq].
        + rewrite firstn_all2 by lia. reflexivity.
        + apply IH; lia.
    Qed.

    Theorem access_at : dac_access d (lenN P + 1) = Some s.
    Proof.
      pose proof s_len as Hs. unfold dac_access.
      pose proof (cntP_le' 0) as Hle. rewrite (longer_true 0 s) in Hle by lia. rewrite cnt0P in Hle.
      pose proof (LI_S seqs 0) as HS. pose proof (LI_mono seqs 1 nL ltac:(lia)) as Hm.
      assert (H0 : LI seqs 0 = 0) by reflexivity.
      rewrite dac_sub32_small by (unfold lenN; lia).
      replace (lenN P + 1 - 1) with (LI seqs 0 + N.of_nat (cnt 0 P)) by (rewrite cnt0P; unfold lenN; lia).
      rewrite (sym_at 0) by lia. cbn [dac_bind].
      change (d_nLevels d) with (N.of_nat nL).
      replace (0 <? N.of_nat nL) with true by (symmetry; apply N.ltb_lt; lia).
      rewrite Nat2N.id.
      replace [nth 0 s 0] with (firstn 1 s) by (destruct s; [cbn in Hs; lia|reflexivity]).
      apply (access_loop_spec nL 0); lia.
    Qed.

    Lemma access_next_at j : (j < length s)%nat ->
      dac_access_next d (N.of_nat j) (LI seqs j + N.of_nat (cnt j P) + 1)
      = Some (nth j s 0, if longer (S j) s then LI seqs (S j) + N.of_nat (cnt (S j) P) + 1 else dac_END).
    Proof.
      intros Hj. pose proof s_len as Hs. unfold dac_access_next.
      pose proof (cntP_le' j) as Hle0. rewrite (longer_true j s Hj) in Hle0.
      pose proof (LI_S seqs j) as HS0. pose proof (LI_mono seqs (S j) nL ltac:(lia)) as Hm0.
      rewrite dac_sub32_small by lia.
      replace (LI seqs j + N.of_nat (cnt j P) + 1 - 1) with (LI seqs j + N.of_nat (cnt j P)) by lia.
      rewrite (sym_at j Hj). cbn [dac_bind].
      change (d_nLevels d) with (N.of_nat nL). rewrite dac_sub32_small by lia.
      destruct (N.eqb_spec (N.of_nat j) (N.of_nat nL - 1)) as [Heq|Hneq].
      - rewrite (longer_false (S j) s) by lia. reflexivity.
      - assert (Hj' : (j < nL - 1)%nat) by lia.
        rewrite (bit_at j Hj Hj'). cbn [dac_bind].
        destruct (longer (S j) s) eqn:E; [|reflexivity].
        apply Nat.ltb_lt in E.
        destruct (rank_at j Hj Hj') as (r & Hr & Hrv & Hrb). rewrite Hr. cbn [dac_bind].
        rewrite (longer_true (S j) s E) in Hrv.
        change (d_rankLevels d) with (map (fun j => dac_count (cat (contbits seqs) j)) (seq 0 nL)).
        rewrite (mapseq_nth (fun j => dac_count (cat (contbits seqs) j)) j nL) by (reflexivity || lia).
        cbn [dac_bind]. fold (RL seqs j).
        change (d_levelsIndex d) with (map (LI seqs) (seq 0 (S nL))).
        replace (N.of_nat j + 1) with (N.of_nat (S j)) by lia.
        rewrite (mapseq_nth (LI seqs) (S j) (S nL)) by (reflexivity || lia). cbn [dac_bind].
        pose proof (RL_le j ltac:(lia)) as HRL.
        pose proof (cntP_le' (S j)) as Hle. rewrite (longer_true (S j) s E) in Hle.
        pose proof (LI_S seqs (S j)) as HS. pose proof (LI_mono seqs (S (S j)) nL ltac:(lia)) as Hm.
        pose proof (LI_mono seqs (nL - 1) nL ltac:(lia)) as Hm2.
        rewrite (dac_sub32_small r (RL seqs j)) by lia.
        rewrite dac_add32_small by lia. do 2 f_equal. lia.
    Qed.

    Lemma pos_not_END j : (j < length s)%nat -> (LI seqs j + N.of_nat (cnt j P) + 1 =? dac_END) = false.
    Proof.
      intros Hj. pose proof s_len as Hs.
      pose proof (cntP_le' j) as Hle0. rewrite (longer_true j s Hj) in Hle0.
      pose proof (LI_S seqs j) as HS0. pose proof (LI_mono seqs (S j) nL ltac:(lia)) as Hm0.
      apply N.eqb_neq. unfold dac_END. lia.
    Qed.

    Lemma chain_at : forall fuel j, (j < length s)%nat -> (length s <= fuel + j)%nat ->
      dac_chain d fuel (N.of_nat j) (LI seqs j + N.of_nat (cnt j P) + 1) = Some (skipn j s).
    Proof.
      induction fuel as [|f IH]; intros j Hj Hf; [lia|].
      cbn [dac_chain]. rewrite (pos_not_END j Hj), (access_next_at j Hj). cbn [dac_bind].
      replace (N.of_nat j + 1) with (N.of_nat (S j)) by lia.
      rewrite (skipn_nth_cons s j 0 Hj).
      destruct (longer (S j) s) eqn:E.
      - apply Nat.ltb_lt in E. rewrite IH by lia. reflexivity.
      - apply Nat.ltb_ge in E. rewrite dac_chain_END. cbn [dac_bind]. rewrite (skipn_all2 s) by lia. reflexivity.
    Qed.

    Lemma chain_bounded_at : forall k j, (j < length s)%nat -> (length s <= k + j)%nat ->
      dac_chain_bounded d k (N.of_nat j) (LI seqs j + N.of_nat (cnt j P) + 1) = Some (skipn j s).
    Proof.
      induction k as [|k IH]; intros j Hj Hf; [lia|].
      cbn [dac_chain_bounded]. rewrite (pos_not_END j Hj), (access_next_at j Hj). cbn [dac_bind].
      replace (N.of_nat j + 1) with (N.of_nat (S j)) by lia.
      rewrite (skipn_nth_cons s j 0 Hj).
      destruct (longer (S j) s) eqn:E.
      - apply Nat.ltb_lt in E. rewrite IH by lia. reflexivity.
      - apply Nat.ltb_ge in E. rewrite dac_chain_bounded_END. cbn [dac_bind]. rewrite (skipn_all2 s) by lia. reflexivity.
    Qed.

    Lemma start_pos : lenN P + 1 = LI seqs 0 + N.of_nat (cnt 0 P) + 1.
    Proof. rewrite cnt0P. unfold lenN. change (LI seqs 0) with 0. lia. Qed.

    Theorem chain_from_start fuel : (nL <= fuel)%nat -> dac_chain d fuel 0 (lenN P + 1) = Some s.
    Proof.
      intros Hf. pose proof s_len as Hs. rewrite start_pos. apply (chain_at fuel 0); lia.
    Qed.

    Theorem chain_bounded_from_start k : (nL <= k)%nat -> dac_chain_bounded d k 0 (lenN P + 1) = Some s.
    Proof.
      intros Hf. pose proof s_len as Hs. rewrite start_pos. apply (chain_bounded_at k 0); lia.
    Qed.
  End At.
End Access.

(* ------------------------------------------------------------------------- *)
(* 6. the input checker and the exported statements                            *)
(* ------------------------------------------------------------------------- *)
Fixpoint total_len (seqs : list (list N)) : nat :=
  match seqs with [] => O | s :: r => (length s + total_len r)%nat end.

Lemma sumfrom_add f g a n : sumfrom (fun k => (f k + g k)%nat) a n = (sumfrom f a n + sumfrom g a n)%nat.
Proof. revert a; induction n as [|n IH]; intros a; cbn [sumfrom]; [reflexivity|]. rewrite IH. lia. Qed.

Lemma sumfrom_zero a n : sumfrom (fun _ => O) a n = O.
Proof. revert a; induction n as [|n IH]; intros a; cbn [sumfrom]; [reflexivity|]. apply IH. Qed.

Lemma sum_longer s n : sumfrom (fun k => if longer k s then 1%nat else O) 0 n = Nat.min n (length s).
Proof.
  induction n as [|n IH]; [reflexivity|]. rewrite sumfrom_S, IH. unfold longer.
  destruct (Nat.ltb_spec n (length s)); lia.
Qed.

Lemma sum_cnt_le seqs n : (sumfrom (fun k => cnt k seqs) 0 n <= total_len seqs)%nat.
Proof.
  induction seqs as [|s r IH].
  - rewrite (sumfrom_ext _ (fun _ => O)) by (intros; apply cnt_nil). rewrite sumfrom_zero. cbn. lia.
  - rewrite (sumfrom_ext _ (fun k => ((if longer k s then 1 else 0) + cnt k r)%nat)) by (intros; apply cnt_cons).
    rewrite sumfrom_add, sum_longer. cbn [total_len]. lia.
Qed.

Lemma flatten_length k seqs : length (dac_flatten_from k seqs) = (total_len seqs + length seqs)%nat.
Proof.
  revert k; induction seqs as [|s r IH]; intros k; [reflexivity|].
  cbn [dac_flatten_from total_len length]. rewrite app_length, map_length. cbn [length]. rewrite IH. lia.
Qed.

Lemma dac_wf_sound seqs logr maxseq : dac_wf seqs logr maxseq = true ->
  seqs <> [] /\ wf_seqs (N.to_nat maxseq) seqs /\ Forall (Forall (fun x => x < dac_U32)) seqs /\
  N.of_nat (N.to_nat maxseq) < dac_U32 /\ LI seqs (N.to_nat maxseq) + 1 < dac_U32.
Proof.
  unfold dac_wf. rewrite !andb_true_iff. intros [[[[Hne Hall] Hlen] Hlogr] Hmax].
  apply N.ltb_lt in Hlen, Hmax. apply N.leb_le in Hlogr.
  assert (Hne' : seqs <> []).
  { intros ->. cbn in Hne. discriminate. }
  rewrite forallb_forall in Hall.
  assert (Hpow : 2 ^ logr <= dac_U32).
  { change dac_U32 with (2 ^ 32). apply N.pow_le_mono_r; lia. }
  repeat split.
  - exact Hne'.
  - apply Forall_forall. intros s Hs. specialize (Hall s Hs). unfold dac_wf_seq in Hall.
    rewrite !andb_true_iff in Hall. destruct Hall as [[H0 H1] _].
    apply negb_true_iff, N.eqb_neq in H0. apply N.leb_le in H1. unfold lenN in *. lia.
  - apply Forall_forall. intros s Hs. specialize (Hall s Hs). unfold dac_wf_seq in Hall.
    rewrite !andb_true_iff in Hall. destruct Hall as [_ H2]. rewrite forallb_forall in H2.
    apply Forall_forall. intros x Hx. specialize (H2 x Hx). apply N.ltb_lt in H2. lia.
  - rewrite N2Nat.id. lia.
  - unfold dac_flatten, lenN in Hlen. rewrite flatten_length in Hlen.
    pose proof (sum_cnt_le seqs (N.to_nat maxseq)) as Hs. unfold LI, sz.
    destruct seqs as [|s0 r]; [congruence|]. cbn [length] in Hlen. lia.
Qed.

(* layout: the constructor produces exactly the level-wise arrangement [the_dac] *)
Theorem dac_build_layout seqs logr maxseq : dac_wf seqs logr maxseq = true ->
  dac_build (dac_flatten seqs) (dac_llen seqs) logr maxseq = Some (the_dac seqs logr (N.to_nat maxseq)).
Proof.
  intros H. destruct (dac_wf_sound _ _ _ H) as (Hne & Hwf & Hsym & HnL & Hb).
  rewrite <- (N2Nat.id maxseq) at 1. apply dac_build_spec; assumption.
Qed.

(* the level lemma in the form of the design: level j holds, in order, the j-th symbols of the
   sequences longer than j; its continuation bits say which of them continue *)
Theorem dac_level_layout seqs logr nL :
  d_syms (the_dac seqs logr nL) = concat (map (fun j => map (fun s => nth j s 0) (filter (longer j) seqs)) (seq 0 nL)) /\
  d_bits (the_dac seqs logr nL) =
    concat (map (fun j => map (longer (S j)) (filter (longer j) seqs)) (seq 0 (nL - 1))) ++ [true].
Proof. split; reflexivity. Qed.

Lemma seqs_split_at (seqs : list (list N)) i : 1 <= i <= lenN seqs ->
  exists P R, seqs = P ++ nth (N.to_nat (i - 1)) seqs [] :: R /\ i = lenN P + 1.
Proof.
  intros Hi. unfold lenN in Hi.
  destruct (nth_split seqs [] (n := N.to_nat (i - 1))) as (P & R & E & L); [lia|].
  exists P, R. split; [exact E|]. unfold lenN. lia.
Qed.

Theorem dac_access_spec seqs logr maxseq d i :
  dac_wf seqs logr maxseq = true ->
  dac_build (dac_flatten seqs) (dac_llen seqs) logr maxseq = Some d ->
  1 <= i <= lenN seqs ->
  dac_access d i = Some (nth (N.to_nat (i - 1)) seqs []) /\
  dac_access_len d i = Some (lenN (nth (N.to_nat (i - 1)) seqs [])).
Proof.
  intros H Hb Hi. rewrite (dac_build_layout _ _ _ H) in Hb. injection Hb as <-.
  destruct (dac_wf_sound _ _ _ H) as (Hne & Hwf & Hsym & HnL & Hbd).
  destruct (seqs_split_at seqs i Hi) as (P & R & E & ->).
  assert (A := access_at (N.to_nat maxseq) seqs logr Hwf HnL Hbd P _ R E).
  split; [exact A|]. unfold dac_access_len. rewrite A. reflexivity.
Qed.

Theorem dac_listLength seqs logr maxseq d :
  dac_wf seqs logr maxseq = true ->
  dac_build (dac_flatten seqs) (dac_llen seqs) logr maxseq = Some d ->
  d_listLength d = lenN seqs /\ d_nLevels d = maxseq.
Proof.
  intros H Hb. rewrite (dac_build_layout _ _ _ H) in Hb. injection Hb as <-.
  cbn [the_dac d_listLength d_nLevels]. rewrite N2Nat.id. split; reflexivity.
Qed.

(* access_next chained the way HashDAC::scmp / RePair::extractStringAndCompareDAC do it
   (l = 0; while (id != -1) { access_next(l, &id); l++ }) yields exactly the symbols of
   sequence i and then the end mark; so does the driver's bounded walk *)
Theorem dac_access_next_chain seqs logr maxseq d i fuel :
  dac_wf seqs logr maxseq = true ->
  dac_build (dac_flatten seqs) (dac_llen seqs) logr maxseq = Some d ->
  1 <= i <= lenN seqs -> (N.to_nat maxseq <= fuel)%nat ->
  dac_chain d fuel 0 i = Some (nth (N.to_nat (i - 1)) seqs []) /\
  dac_chain_bounded d fuel 0 i = Some (nth (N.to_nat (i - 1)) seqs []).
Proof.
  intros H Hb Hi Hf. rewrite (dac_build_layout _ _ _ H) in Hb. injection Hb as <-.
  destruct (dac_wf_sound _ _ _ H) as (Hne & Hwf & Hsym & HnL & Hbd).
  destruct (seqs_split_at seqs i Hi) as (P & R & E & ->).
  split.
  - apply (chain_from_start (N.to_nat maxseq) seqs logr Hwf HnL Hbd P _ R E fuel Hf).
  - apply (chain_bounded_from_start (N.to_nat maxseq) seqs logr Hwf HnL Hbd P _ R E fuel Hf).
Qed.

(* one step: symbol and successor position (the cursor protocol itself) *)
Theorem dac_access_next_step seqs logr maxseq P s R j :
  dac_wf seqs logr maxseq = true -> seqs = P ++ s :: R -> (j < length s)%nat ->
  let d := the_dac seqs logr (N.to_nat maxseq) in
  let pos k := LI seqs k + N.of_nat (cnt k P) + 1 in
  dac_access_next d (N.of_nat j) (pos j) = Some (nth j s 0, if (S j <? length s)%nat then pos (S j) else dac_END).
Proof.
  intros H E Hj. destruct (dac_wf_sound _ _ _ H) as (Hne & Hwf & Hsym & HnL & Hbd).
  apply (access_next_at (N.to_nat maxseq) seqs logr Hwf HnL Hbd P s R E j Hj).
Qed.

(* bounds safety: the constructor, access and the access_next chain perform no out-of-bounds
   read or write ([None] is the model's rendering of one) for any stored index *)
Theorem dac_no_oob seqs logr maxseq i :
  dac_wf seqs logr maxseq = true -> 1 <= i <= lenN seqs ->
  exists d, dac_build (dac_flatten seqs) (dac_llen seqs) logr maxseq = Some d /\
            1 <= i <= d_listLength d /\
            dac_access d i <> None /\ dac_chain d (N.to_nat maxseq) 0 i <> None.
Proof.
  intros H Hi. eexists. split; [apply (dac_build_layout _ _ _ H)|].
  destruct (dac_access_spec seqs logr maxseq _ i H (dac_build_layout _ _ _ H) Hi) as [A _].
  destruct (dac_access_next_chain seqs logr maxseq _ i (N.to_nat maxseq) H (dac_build_layout _ _ _ H) Hi (le_n _)) as [C _].
  split; [exact Hi|]. split; congruence.
Qed.

(* ------------------------------------------------------------------------- *)
(* 7. save / load                                                              *)
(* ------------------------------------------------------------------------- *)
Lemma dac_take_app a rest k : lenN a = k -> dac_take k (a ++ rest) = Some (a, rest).
Proof.
  intros <-. unfold dac_take. rewrite lenN_app.
  destruct (N.ltb_spec (lenN a + lenN rest) (lenN a)); [lia|].
  unfold lenN. rewrite Nat2N.id. rewrite firstn_app_exact, skipn_app_exact by reflexivity. reflexivity.
Qed.

Lemma dac_rd_le k x rest : x < 256 ^ N.of_nat k -> dac_rd (N.of_nat k) (le_bytes k x ++ rest) = Some (x, rest).
Proof.
  intros H. unfold dac_rd. rewrite dac_take_app by (unfold lenN; rewrite le_bytes_length; reflexivity).
  cbn [dac_bind]. rewrite le_value_le_bytes by assumption. reflexivity.
Qed.

Lemma dac_u32s_length l : lenN (dac_u32s l) = 4 * lenN l.
Proof.
  induction l as [|x l IH]; [reflexivity|]. unfold dac_u32s in *. cbn [flat_map].
  rewrite lenN_app, IH, lenN_cons. unfold lenN at 1. rewrite le_bytes_length. lia.
Qed.

Lemma dac_u32s_of_bytes_u32s l : Forall (fun x => x < dac_U32) l -> dac_u32s_of_bytes (length l) (dac_u32s l) = l.
Proof.
  induction 1 as [|x l Hx Hl IH]; [reflexivity|]. unfold dac_u32s in *. cbn [flat_map length dac_u32s_of_bytes].
  rewrite firstn_app_exact, skipn_app_exact by apply le_bytes_length.
  rewrite le_value_le_bytes by exact Hx. rewrite IH. reflexivity.
Qed.

Lemma dac_rd_u32s_app l rest k : Forall (fun x => x < dac_U32) l -> k = lenN l ->
  dac_rd_u32s k (dac_u32s l ++ rest) = Some (l, rest).
Proof.
  intros H ->. unfold dac_rd_u32s. rewrite dac_take_app by apply dac_u32s_length. cbn [dac_bind].
  unfold lenN. rewrite Nat2N.id, dac_u32s_of_bytes_u32s by assumption. reflexivity.
Qed.

Lemma dac_rd_u32s_skip l rest k : k = lenN l -> exists a, dac_rd_u32s k (dac_u32s l ++ rest) = Some (a, rest).
Proof.
  intros ->. unfold dac_rd_u32s. rewrite dac_take_app by apply dac_u32s_length. cbn [dac_bind]. eexists. reflexivity.
Qed.

(* bit lists *)
Lemma testbit_bits_val l : forall k, N.testbit (dac_bits_val l) (N.of_nat k) = nth k l false.
Proof.
  induction l as [|b l IH]; intros k.
  - cbn [dac_bits_val]. rewrite N.bits_0. destruct k; reflexivity.
  - cbn [dac_bits_val]. destruct k as [|k].
    + cbn [N.of_nat nth]. destruct b.
      * replace (1 + 2 * dac_bits_val l) with (2 * dac_bits_val l + 1) by lia. apply N.testbit_odd_0.
      * rewrite N.add_0_l. apply N.testbit_even_0.
    + rewrite Nat2N.inj_succ. cbn [nth]. destruct b.
      * replace (1 + 2 * dac_bits_val l) with (2 * dac_bits_val l + 1) by lia. rewrite N.testbit_odd_succ by lia. apply IH.
      * rewrite N.add_0_l. rewrite N.testbit_even_succ by lia. apply IH.
Qed.

Lemma field_bits_length w x : length (dac_field_bits w x) = N.to_nat w.
Proof. unfold dac_field_bits. rewrite map_length, seq_length. reflexivity. Qed.

Lemma bits_val_field w x : x < 2 ^ w -> dac_bits_val (dac_field_bits w x) = x.
Proof.
  intros H. apply N.bits_inj. intros k. rewrite <- (N2Nat.id k). rewrite testbit_bits_val.
  unfold dac_field_bits.
  destruct (Nat.ltb_spec (N.to_nat k) (N.to_nat w)) as [Hk|Hk].
  - rewrite (nth_indep _ false (N.testbit x (N.of_nat 0))) by (rewrite map_length, seq_length; exact Hk).
    rewrite (map_nth (fun k => N.testbit x (N.of_nat k))). rewrite seq_nth by exact Hk. reflexivity.
  - rewrite nth_overflow by (rewrite map_length, seq_length; exact Hk).
    symmetry. apply (testbit_lt_pow2_false x _ w H). lia.
Qed.

Lemma map_nth_seq {A} (l : list A) d n :
  map (fun k => nth k l d) (seq 0 n) = firstn n l ++ repeat d (n - length l).
Proof.
  revert n; induction l as [|x l IH]; intros n.
  - cbn [length firstn]. rewrite Nat.sub_0_r, firstn_nil. cbn [app].
    rewrite repeat_mapseq. apply map_ext. intros k. destruct k; reflexivity.
  - destruct n as [|n]; [reflexivity|].
    cbn [seq map nth firstn length Nat.sub app]. f_equal.
    rewrite <- seq_shift, map_map. cbn [nth]. apply IH.
Qed.

Lemma field_bits_val w l : (length l <= N.to_nat w)%nat ->
  dac_field_bits w (dac_bits_val l) = l ++ repeat false (N.to_nat w - length l).
Proof.
  intros H. unfold dac_field_bits.
  rewrite (map_ext _ (fun k => nth k l false)) by (intros; apply testbit_bits_val).
  rewrite map_nth_seq. rewrite firstn_all2 by exact H. reflexivity.
Qed.

Lemma bytes_of_bits_length n l : length (dac_bytes_of_bits n l) = n.
Proof. revert l; induction n as [|n IH]; intros l; cbn [dac_bytes_of_bits length]; [reflexivity|]. rewrite IH. reflexivity. Qed.

Lemma bits_of_bytes_of_bits n : forall l, (length l <= 8 * n)%nat ->
  dac_bits_of_bytes (dac_bytes_of_bits n l) = l ++ repeat false (8 * n - length l).
Proof.
  induction n as [|n IH]; intros l H.
  - destruct l; [reflexivity|cbn in H; lia].
  - cbn [dac_bytes_of_bits]. unfold dac_bits_of_bytes in *. cbn [flat_map].
    change (N.to_nat 8) with 8%nat in *.
    destruct (Nat.le_gt_cases 8 (length l)) as [Hl|Hl].
    + rewrite field_bits_val by (rewrite firstn_length; change (N.to_nat 8) with 8%nat; lia).
      rewrite firstn_length. change (N.to_nat 8) with 8%nat. replace (8 - Nat.min 8 (length l))%nat with O by lia.
      cbn [repeat]. rewrite app_nil_r. rewrite IH by (rewrite skipn_length; lia).
      rewrite skipn_length. rewrite app_assoc, firstn_skipn. f_equal. f_equal. lia.
    + rewrite firstn_all2 by lia. rewrite skipn_all2 by lia.
      rewrite field_bits_val by (change (N.to_nat 8) with 8%nat; lia).
      rewrite IH by (cbn; lia). cbn [app length]. change (N.to_nat 8) with 8%nat.
      rewrite <- app_assoc, <- repeat_app. f_equal. f_equal. lia.
Qed.

Lemma firstn_bits_roundtrip n l : (length l <= 8 * n)%nat ->
  firstn (length l) (dac_bits_of_bytes (dac_bytes_of_bits n l)) = l.
Proof. intros H. rewrite bits_of_bytes_of_bits by exact H. apply firstn_app_exact. reflexivity. Qed.

Lemma fields_of_bits_flat w syms rest : Forall (fun x => x < 2 ^ w) syms ->
  dac_fields_of_bits (N.to_nat w) (length syms) (flat_map (dac_field_bits w) syms ++ rest) = syms.
Proof.
  induction 1 as [|x l Hx Hl IH]; [reflexivity|].
  cbn [flat_map length dac_fields_of_bits]. rewrite <- app_assoc.
  rewrite firstn_app_exact, skipn_app_exact by apply field_bits_length.
  rewrite bits_val_field by exact Hx. rewrite IH. reflexivity.
Qed.

Lemma flat_field_bits_length w syms : length (flat_map (dac_field_bits w) syms) = (N.to_nat w * length syms)%nat.
Proof.
  induction syms as [|x l IH]; [cbn; lia|]. cbn [flat_map length]. rewrite app_length, field_bits_length, IH. lia.
Qed.

Theorem dac_rg_load_save bits rest : lenN bits < 2 ^ 64 ->
  dac_rg_load (dac_rg_save bits ++ rest) = Some (bits, rest).
Proof.
  intros Hn. unfold dac_rg_save, dac_rg_load. repeat rewrite <- app_assoc.
  rewrite (dac_rd_le 4 3) by (vm_compute; reflexivity). cbn [dac_bind]. cbn [N.eqb Pos.eqb negb].
  rewrite (dac_rd_le 8 (lenN bits)) by (change (256 ^ N.of_nat 8) with (2 ^ 64); exact Hn). cbn [dac_bind].
  rewrite (dac_rd_le 8 dac_rg_factor) by (vm_compute; reflexivity). cbn [dac_bind].
  change (dac_rg_factor =? 0) with false. cbv iota.
  set (n := lenN bits) in *.
  assert (Hint : (n + 1) / 32 + (if (n + 1) mod 32 =? 0 then 0 else 1) = n / 32 + 1).
  { destruct (N.eqb_spec ((n + 1) mod 32) 0); lia. }
  rewrite Hint.
  rewrite dac_take_app by (unfold lenN; rewrite bytes_of_bits_length; lia). cbn [dac_bind].
  destruct (dac_rd_u32s_skip (dac_rg_Rs bits) rest (n / (32 * dac_rg_factor) + 1)) as [a Ha].
  { unfold dac_rg_Rs, lenN. rewrite map_length, seq_length. unfold n, lenN, dac_rg_factor.
    change (32 * 4) with 128. change 128 with (N.of_nat 128). rewrite <- Nat2N.inj_div. lia. }
  rewrite Ha. cbn [dac_bind].
  unfold n, lenN. rewrite Nat2N.id.
  rewrite firstn_bits_roundtrip; [reflexivity|].
  clear. pose proof (N.div_mod (N.of_nat (length bits)) 32 ltac:(lia)) as E.
  pose proof (N.mod_lt (N.of_nat (length bits)) 32 ltac:(lia)) as L. lia.
Qed.

Lemma forallb_Forall {A} (f : A -> bool) (P : A -> Prop) l :
  (forall x, f x = true -> P x) -> forallb f l = true -> Forall P l.
Proof.
  intros H Hl. rewrite forallb_forall in Hl. apply Forall_forall. intros x Hx. apply H, Hl, Hx.
Qed.

Theorem dac_load_save d rest : dac_obj_wf d = true -> dac_load (dac_save d ++ rest) = Some (d, rest).
Proof.
  unfold dac_obj_wf. rewrite !andb_true_iff.
  intros [[[[[[[[[[[Htam Hll] Hnl] Hbb] Hlil] Hli] Hrll] Hrl] Htc] Hsy] Htot] Hbits].
  apply N.ltb_lt in Htam, Hll, Hnl, Hbb, Hbits. apply N.eqb_eq in Hlil, Hrll, Htc.
  apply (forallb_Forall _ (fun x => x < dac_U32)) in Hli; [|intros x Hx; apply N.ltb_lt; exact Hx].
  apply (forallb_Forall _ (fun x => x < dac_U32)) in Hrl; [|intros x Hx; apply N.ltb_lt; exact Hx].
  apply (forallb_Forall _ (fun x => x < 2 ^ d_base_bits d)) in Hsy; [|intros x Hx; apply N.ltb_lt; exact Hx].
  destruct (dac_nth (d_levelsIndex d) (d_nLevels d)) as [t|] eqn:Et; [|discriminate]. apply N.eqb_eq in Htot.
  unfold dac_save, dac_load. repeat rewrite <- app_assoc.
  assert (H32 : 256 ^ N.of_nat 4 = dac_U32) by reflexivity.
  rewrite (dac_rd_le 4 (d_tamCode d)) by (rewrite H32; exact Htam). cbn [dac_bind].
  rewrite (dac_rd_le 4 (d_listLength d)) by (rewrite H32; exact Hll). cbn [dac_bind].
  rewrite (dac_rd_le 4 (d_nLevels d)) by (rewrite H32; lia). cbn [dac_bind].
  rewrite (dac_rd_le 2 (d_base_bits d)) by (change (256 ^ N.of_nat 2) with 65536; exact Hbb). cbn [dac_bind].
  rewrite dac_add32_small by exact Hnl.
  rewrite (dac_rd_u32s_app (d_levelsIndex d)) by (assumption || (symmetry; assumption)). cbn [dac_bind].
  rewrite dac_take_app by (unfold lenN; rewrite bytes_of_bits_length; lia). cbn [dac_bind].
  rewrite (dac_rd_u32s_app (d_rankLevels d)) by (assumption || (symmetry; assumption)). cbn [dac_bind].
  rewrite dac_rg_load_save by exact Hbits. cbn [dac_bind].
  rewrite Et. cbn [dac_bind].
  assert (Hsyms : dac_fields_of_bits (N.to_nat (d_base_bits d)) (N.to_nat t)
            (dac_bits_of_bytes (dac_bytes_of_bits (4 * N.to_nat (d_tamCode d / 32 + 1))
               (flat_map (dac_field_bits (d_base_bits d)) (d_syms d)))) = d_syms d).
  { rewrite bits_of_bytes_of_bits.
    - rewrite Htot. unfold lenN. rewrite Nat2N.id. apply fields_of_bits_flat. exact Hsy.
    - rewrite flat_field_bits_length. unfold lenN in Htc. lia. }
  rewrite Hsyms. destruct d; reflexivity.
Qed.

(* the constructor's objects are determined by their image (so they survive save/load unchanged)
   as long as the level array stays below 2^32 bits -- [uint tamCode] wraps beyond that *)
Lemma dac_tam_spec w (sz : nat -> nat) : forall n a acc,
  acc + w * N.of_nat (sumfrom sz a n) < dac_U32 ->
  dac_tam w acc (map (fun k => N.of_nat (sz k)) (seq a n)) = acc + w * N.of_nat (sumfrom sz a n).
Proof.
  induction n as [|n IH]; intros a acc H; cbn [seq map dac_tam sumfrom] in *; [lia|].
  rewrite N.mod_small by nia. rewrite IH by nia. nia.
Qed.

Lemma dac_wf_syms seqs logr maxseq : dac_wf seqs logr maxseq = true ->
  Forall (Forall (fun x => x < 2 ^ logr)) seqs /\ logr <= 32 /\ maxseq + 1 < dac_U32 /\
  lenN (dac_flatten seqs) < dac_U32.
Proof.
  unfold dac_wf. rewrite !andb_true_iff. intros [[[[Hne Hall] Hlen] Hlogr] Hmax].
  apply N.ltb_lt in Hlen, Hmax. apply N.leb_le in Hlogr. repeat split; try assumption.
  rewrite forallb_forall in Hall.
  apply Forall_forall. intros s Hs. specialize (Hall s Hs). unfold dac_wf_seq in Hall.
  rewrite !andb_true_iff in Hall. destruct Hall as [_ H2].
  apply (forallb_Forall _ (fun x => x < 2 ^ logr)) in H2; [exact H2|]. intros x Hx. apply N.ltb_lt. exact Hx.
Qed.

Lemma level_syms_bound seqs w nL : Forall (Forall (fun x => x < 2 ^ w)) seqs ->
  Forall (fun x => x < 2 ^ w) (cat (level seqs) nL).
Proof.
  intros H. apply Forall_forall. intros x Hx. unfold cat, catr in Hx.
  apply in_concat in Hx. destruct Hx as (l & Hl & Hx). apply in_map_iff in Hl. destruct Hl as (j & <- & _).
  unfold level in Hx. apply in_map_iff in Hx. destruct Hx as (s & <- & Hs). apply filter_In in Hs.
  destruct Hs as [Hs Hlong]. apply Nat.ltb_lt in Hlong.
  rewrite Forall_forall in H. specialize (H s Hs). rewrite Forall_forall in H. apply H. apply nth_In. exact Hlong.
Qed.

Lemma forallb_of_Forall {A} (f : A -> bool) (P : A -> Prop) l :
  (forall x, P x -> f x = true) -> Forall P l -> forallb f l = true.
Proof. intros H Hl. apply forallb_forall. rewrite Forall_forall in Hl. intros x Hx. apply H, Hl, Hx. Qed.

Theorem dac_build_obj_wf seqs logr maxseq :
  dac_wf seqs logr maxseq = true ->
  logr * LI seqs (N.to_nat maxseq) < dac_U32 ->
  dac_obj_wf (the_dac seqs logr (N.to_nat maxseq)) = true.
Proof.
  intros H Hbits. destruct (dac_wf_sound _ _ _ H) as (Hne & Hwf & Hsym & HnL & Hbd).
  destruct (dac_wf_syms _ _ _ H) as (Hsy & Hlogr & Hmax & Hflat).
  set (nL := N.to_nat maxseq) in *.
  assert (Hlen : lenN seqs <= lenN (dac_flatten seqs)).
  { unfold dac_flatten, lenN. rewrite flatten_length. lia. }
  assert (Htam : d_tamCode (the_dac seqs logr nL) = logr * LI seqs nL).
  { cbn [the_dac d_tamCode]. change (fun k : nat => N.of_nat (cnt k seqs)) with (fun k : nat => N.of_nat (sz seqs k)).
    rewrite dac_tam_spec by (unfold LI in Hbits; lia). unfold LI. lia. }
  assert (Hsl : lenN (d_syms (the_dac seqs logr nL)) = LI seqs nL).
  { cbn [the_dac d_syms]. apply cat_offset. intros k. apply level_length. }
  assert (Hbb : logr mod 65536 = logr) by (apply N.mod_small; lia).
  unfold dac_obj_wf. rewrite Htam, Hsl.
  change (d_listLength (the_dac seqs logr nL)) with (lenN seqs).
  change (d_nLevels (the_dac seqs logr nL)) with (N.of_nat nL).
  change (d_base_bits (the_dac seqs logr nL)) with (logr mod 65536).
  change (d_levelsIndex (the_dac seqs logr nL)) with (map (LI seqs) (seq 0 (S nL))).
  change (d_rankLevels (the_dac seqs logr nL)) with (map (fun j => dac_count (cat (contbits seqs) j)) (seq 0 nL)).
  change (d_syms (the_dac seqs logr nL)) with (cat (level seqs) nL).
  change (d_bits (the_dac seqs logr nL)) with (cat (contbits seqs) (nL - 1) ++ [true]).
  rewrite Hbb.
  rewrite (mapseq_nth (LI seqs) nL (S nL)) by (reflexivity || lia).
  rewrite !andb_true_iff. repeat split.
  - apply N.ltb_lt. exact Hbits.
  - apply N.ltb_lt. lia.
  - apply N.ltb_lt. lia.
  - apply N.ltb_lt. lia.
  - apply N.eqb_eq. unfold lenN. rewrite map_length, seq_length. lia.
  - apply (forallb_of_Forall _ (fun x => x < dac_U32)); [intros x Hx; apply N.ltb_lt; exact Hx|].
    apply Forall_forall. intros x Hx. apply in_map_iff in Hx. destruct Hx as (k & <- & Hk). apply in_seq in Hk.
    pose proof (LI_mono seqs k nL ltac:(lia)). lia.
  - apply N.eqb_eq. unfold lenN. rewrite map_length, seq_length. reflexivity.
  - apply (forallb_of_Forall _ (fun x => x < dac_U32)); [intros x Hx; apply N.ltb_lt; exact Hx|].
    apply Forall_forall. intros x Hx. apply in_map_iff in Hx. destruct Hx as (k & <- & Hk). apply in_seq in Hk.
    pose proof (dac_count_le (cat (contbits seqs) k)) as Hc.
    rewrite (cat_offset seqs (contbits seqs) k (contbits_length seqs)) in Hc.
    pose proof (LI_mono seqs k nL ltac:(lia)). lia.
  - apply N.eqb_eq. reflexivity.
  - apply (forallb_of_Forall _ (fun x => x < 2 ^ logr)); [intros x Hx; apply N.ltb_lt; exact Hx|].
    apply level_syms_bound. exact Hsy.
  - apply N.eqb_eq. reflexivity.
  - apply N.ltb_lt. rewrite lenN_app, (cat_offset seqs (contbits seqs) _ (contbits_length seqs)).
    pose proof (LI_mono seqs (nL - 1) nL ltac:(lia)). change (lenN [true]) with 1.
    assert (dac_U32 < 2 ^ 64) by (vm_compute; reflexivity). lia.
Qed.

(* end to end: what the dictionaries build survives save/load unchanged *)
Theorem dac_build_load_save seqs logr maxseq d rest :
  dac_wf seqs logr maxseq = true ->
  logr * LI seqs (N.to_nat maxseq) < dac_U32 ->
  dac_build (dac_flatten seqs) (dac_llen seqs) logr maxseq = Some d ->
  dac_load (dac_save d ++ rest) = Some (d, rest).
Proof.
  intros H Hb Hd. rewrite (dac_build_layout _ _ _ H) in Hd. injection Hd as <-.
  apply dac_load_save. apply dac_build_obj_wf; assumption.
Qed.

(* ------------------------------------------------------------------------- *)
(* 8. regression refutations of the two defects fixed in /repo                 *)
(* ------------------------------------------------------------------------- *)
(* 6bccc1f: the access loop did not test the level bound; with nLevels = 1 the closing
   sentinel bit was followed: access(1) on [[1];[2];[3]] returned length 2 (and stored
   sequence[1] of a one-element array), the checked new loop returns [1] *)
Example dac_access_nlevels1_old_refuted :
  exists d, dac_of_seqs [[1];[2];[3]] 2 = Some d /\ d_nLevels d = 1 /\
            fst (dac_access_old d 1) = 2 /\ dac_access d 1 = Some [1] /\ dac_access_len d 1 = Some 1.
Proof. eexists. split; [vm_compute; reflexivity|]. vm_compute. repeat split; reflexivity. Qed.

(* 4305f33: l_Length = ic - 2 never starts the last sequence when it has one symbol:
   listLength is 2 of 3 and sequence 3 is not retrievable; with ic - 1 it is *)
Example dac_llen_minus2_refuted :
  let seqs := [[5];[5;5];[3]] in
  exists d, dac_build (dac_flatten seqs) (dac_llen_old seqs) 3 (dac_maxlen seqs) = Some d /\
            d_listLength d = 2 /\ d_listLength d <> lenN seqs /\ dac_access d 3 <> Some [3] /\
            exists d', dac_build (dac_flatten seqs) (dac_llen seqs) 3 (dac_maxlen seqs) = Some d' /\
                       d_listLength d' = 3 /\ dac_access d' 3 = Some [3].
Proof.
  cbv zeta. eexists. split; [vm_compute; reflexivity|].
  split; [reflexivity|]. split; [vm_compute; discriminate|]. split; [vm_compute; discriminate|].
  eexists. split; [vm_compute; reflexivity|]. split; vm_compute; reflexivity.
Qed.

Theorem dac_nLevels seqs logr maxseq d :
  dac_wf seqs logr maxseq = true ->
  dac_build (dac_flatten seqs) (dac_llen seqs) logr maxseq = Some d -> d_nLevels d = maxseq.
Proof. intros H Hb. apply (dac_listLength seqs logr maxseq d H Hb). Qed.

(* ========================================================================= *)
(* 9. DAC_BVLS                                                                 *)
(* ========================================================================= *)
Definition the_bdac (seqs : list (list N)) (nL : nat) : bdac :=
  {| b_tamCode := LI seqs nL; b_nLevels := N.of_nat nL;
     b_levelsIndex := map (LI seqs) (seq 0 (S nL));
     b_levels := cat (level seqs) nL;
     b_bits := cat (contbits seqs) nL;
     b_rankLevels := map (RL seqs) (seq 0 nL) |}.

Lemma RL_S seqs j : RL seqs (S j) = RL seqs j + dac_count (contbits seqs j).
Proof. unfold RL. rewrite cat_S, dac_count_app. reflexivity. Qed.

Lemma RL_le_LI seqs j : RL seqs j <= LI seqs j.
Proof. unfold RL. rewrite <- (cat_offset seqs (contbits seqs) j (contbits_length seqs)). apply dac_count_le. Qed.

Lemma bdac_layout_spec seqs nL :
  bdac_layout seqs nL =
  (map (LI seqs) (seq 0 nL), map (fun j => dac_count (contbits seqs j)) (seq 0 nL),
   cat (level seqs) nL, cat (contbits seqs) nL).
Proof.
  unfold bdac_layout.
  change (bdac_lvl seqs) with (level seqs). change (bdac_cont seqs) with (contbits seqs).
  replace (map (fun j => lenN (level seqs j)) (seq 0 nL)) with (map (fun k => N.of_nat (sz seqs k)) (seq 0 nL))
    by (apply map_ext; intros k; unfold lenN, sz; rewrite level_length; reflexivity).
  rewrite (prefix_sums_gen (sz seqs) nL 0 0). rewrite firstn_map, firstn_seq.
  replace (map (fun k : nat => 0 + N.of_nat (sumfrom (sz seqs) 0 k)) (seq 0 nL)) with (map (LI seqs) (seq 0 nL))
    by (apply map_ext; intros k; unfold LI; lia).
  reflexivity.
Qed.

Lemma bdac_copy_spec {F : nat -> N} n : forall k i, (i + k <= n)%nat ->
  bdac_copy (map F (seq 0 n)) k (N.of_nat i) = Some (map F (seq i k)).
Proof.
  induction k as [|k IH]; intros i H; [reflexivity|].
  cbn [bdac_copy seq map]. rewrite (mapseq_nth F i n) by (reflexivity || lia). cbn [dac_bind].
  replace (N.of_nat i + 1) with (N.of_nat (S i)) by lia. rewrite IH by lia. reflexivity.
Qed.

Section BMake.
  Variable nL : nat.
  Variable seqs : list (list N).
  Hypothesis HnL1 : (1 <= nL)%nat.
  Hypothesis Hbound : LI seqs nL + 1 < dac_U32.

  Lemma bdac_ranks_spec : forall k i, (1 <= i)%nat -> (i + k <= nL)%nat ->
    bdac_ranks (map (fun j => dac_count (contbits seqs j)) (seq 0 nL)) k (N.of_nat i) (RL seqs (i - 1))
    = Some (map (RL seqs) (seq i k)).
  Proof.
    induction k as [|k IH]; intros i Hi Hik; [reflexivity|].
    cbn [bdac_ranks seq map].
    replace (N.of_nat i - 1) with (N.of_nat (i - 1)) by lia.
    rewrite (mapseq_nth _ (i - 1) nL) by (reflexivity || lia). cbn [dac_bind].
    pose proof (RL_S seqs (i - 1)) as HS. replace (S (i - 1)) with i in HS by lia.
    pose proof (RL_le_LI seqs i) as Hle. pose proof (LI_mono seqs i nL ltac:(lia)) as Hm.
    rewrite dac_add32_small by lia.
    replace (dac_count (contbits seqs (i - 1)) + RL seqs (i - 1)) with (RL seqs i) by lia.
    replace (N.of_nat i + 1) with (N.of_nat (S i)) by lia.
    specialize (IH (S i) ltac:(lia) ltac:(lia)). replace (S i - 1)%nat with i in IH by lia.
    rewrite IH. reflexivity.
  Qed.

  Theorem bdac_make_spec extra1 extra2 :
    bdac_make (LI seqs nL) (N.of_nat nL) (map (LI seqs) (seq 0 nL) ++ extra1)
      (map (fun j => dac_count (contbits seqs j)) (seq 0 nL) ++ extra2) (cat (level seqs) nL) (cat (contbits seqs) nL)
    = Some (the_bdac seqs nL).
  Proof.
    unfold bdac_make. rewrite Nat2N.id.
    assert (Hc : bdac_copy (map (LI seqs) (seq 0 nL) ++ extra1) nL 0 = Some (map (LI seqs) (seq 0 nL))).
    { assert (G : forall k i, (i + k <= nL)%nat ->
        bdac_copy (map (LI seqs) (seq 0 nL) ++ extra1) k (N.of_nat i) = Some (map (LI seqs) (seq i k))).
      { induction k as [|k IH]; intros i H; [reflexivity|]. cbn [bdac_copy seq map].
        rewrite dac_nth_eq, nthN_app_l by (unfold lenN; rewrite map_length, seq_length; lia).
        rewrite <- dac_nth_eq. rewrite (mapseq_nth (LI seqs) i nL) by (reflexivity || lia). cbn [dac_bind].
        replace (N.of_nat i + 1) with (N.of_nat (S i)) by lia. rewrite IH by lia. reflexivity. }
      apply (G nL O). lia. }
    rewrite Hc. cbn [dac_bind].
    replace (N.of_nat nL =? 0) with false by (symmetry; apply N.eqb_neq; lia).
    assert (Hr : bdac_ranks (map (fun j => dac_count (contbits seqs j)) (seq 0 nL) ++ extra2) (nL - 1) 1 0
                 = Some (map (RL seqs) (seq 1 (nL - 1)))).
    { assert (G : forall k i, (1 <= i)%nat -> (i + k <= nL)%nat ->
        bdac_ranks (map (fun j => dac_count (contbits seqs j)) (seq 0 nL) ++ extra2) k (N.of_nat i) (RL seqs (i - 1))
        = bdac_ranks (map (fun j => dac_count (contbits seqs j)) (seq 0 nL)) k (N.of_nat i) (RL seqs (i - 1))).
      { induction k as [|k IH]; intros i Hi Hik; [reflexivity|]. cbn [bdac_ranks].
        rewrite (dac_nth_eq (_ ++ _)), nthN_app_l by (unfold lenN; rewrite map_length, seq_length; lia).
        rewrite <- dac_nth_eq.
        replace (N.of_nat i - 1) with (N.of_nat (i - 1)) by lia.
        rewrite (mapseq_nth _ (i - 1) nL) by (reflexivity || lia). cbn [dac_bind].
        pose proof (RL_S seqs (i - 1)) as HS. replace (S (i - 1)) with i in HS by lia.
        pose proof (RL_le_LI seqs i) as Hle. pose proof (LI_mono seqs i nL ltac:(lia)) as Hm.
        rewrite dac_add32_small by lia.
        replace (dac_count (contbits seqs (i - 1)) + RL seqs (i - 1)) with (RL seqs i) by lia.
        replace (N.of_nat i + 1) with (N.of_nat (S i)) by lia.
        specialize (IH (S i) ltac:(lia) ltac:(lia)). replace (S i - 1)%nat with i in IH by lia.
        rewrite IH. reflexivity. }
      specialize (G (nL - 1)%nat 1%nat (le_n _) ltac:(lia)). change (N.of_nat 1) with 1 in G.
      change (RL seqs (1 - 1)) with 0 in G. rewrite G.
      pose proof (bdac_ranks_spec (nL - 1) 1 (le_n _) ltac:(lia)) as Hs. change (N.of_nat 1) with 1 in Hs.
      change (RL seqs (1 - 1)) with 0 in Hs. exact Hs. }
    rewrite Hr. cbn [dac_bind]. unfold the_bdac. do 2 f_equal.
    - rewrite seq_S, map_app. reflexivity.
    - rewrite (seq_head nL HnL1). reflexivity.
  Qed.
End BMake.

Lemma bdac_access_loop_eq d fuel j ini acc :
  bdac_access_loop d fuel j ini acc =
  (b <- dac_nth (b_bits d) ini ;;
   if b : bool then
     match fuel with
     | O => None
     | S f =>
         r <- dac_rank1 (b_bits d) ini ;;
         rl <- dac_nth (b_rankLevels d) j ;;
         let rankini := dac_sub32 r rl in
         let j' := dac_add32 j 1 in
         li <- dac_nth (b_levelsIndex d) j' ;;
         let ini' := dac_sub32 (dac_add32 li rankini) 1 in
         v <- dac_nth (b_levels d) ini' ;;
         if j' <? b_nLevels d then
           if j' =? dac_sub32 (b_nLevels d) 1 then Some (acc ++ [v])
           else bdac_access_loop d f j' ini' (acc ++ [v])
         else None
     end
   else Some acc).
Proof. destruct fuel; reflexivity. Qed.

Lemma bdac_chain_END d fuel l : bdac_chain d fuel l dac_END = Some [].
Proof. destruct fuel; reflexivity. Qed.
Lemma bdac_chain_bounded_END d k l : bdac_chain_bounded d k l dac_END = Some [].
Proof. destruct k; reflexivity. Qed.

Section BAccess.
  Variable nL : nat.
  Variable seqs : list (list N).
  Hypothesis Hwf : wf_seqs nL seqs.
  Hypothesis HnL : N.of_nat nL < dac_U32.
  Hypothesis Hbound : LI seqs nL + 1 < dac_U32.
  Variables (P : list (list N)) (s : list N) (R : list (list N)).
  Hypothesis Hsplit : seqs = P ++ s :: R.
  Let d := the_bdac seqs nL.

  Lemma bs_len : (1 <= length s <= nL)%nat.
  Proof.
    clear HnL Hbound. unfold wf_seqs in Hwf. rewrite Hsplit in Hwf. apply Forall_app in Hwf. destruct Hwf as [_ H].
    inversion H; subst. assumption.
  Qed.

  Lemma bcntP_le k : (cnt k P + (if longer k s then 1 else 0) <= sz seqs k)%nat.
  Proof. clear HnL Hbound Hwf. unfold sz. rewrite Hsplit, cnt_app, cnt_cons. lia. Qed.

  Lemma bcnt0P : cnt 0 P = length P.
  Proof.
    clear HnL Hbound. unfold wf_seqs in Hwf. rewrite Hsplit in Hwf. apply Forall_app in Hwf. destruct Hwf as [H _].
    apply (cnt0 nL P H).
  Qed.

  Lemma bsym_at j : (j < length s)%nat ->
    dac_nth (b_levels d) (LI seqs j + N.of_nat (cnt j P)) = Some (nth j s 0).
  Proof. intros Hj. exact (sym_at nL seqs 0 Hwf HnL Hbound P s R Hsplit j Hj). Qed.

  Lemma bbit_at j : (j < length s)%nat ->
    dac_nth (b_bits d) (LI seqs j + N.of_nat (cnt j P)) = Some (longer (S j) s).
  Proof.
    intros Hj. pose proof bs_len. unfold d, the_bdac. cbn [b_bits].
    apply (cat_nth0 (contbits seqs) j nL (contbits P j) (longer (S j) s) (contbits R j)); [lia| |].
    - rewrite Hsplit, contbits_app, contbits_cons, (longer_true j s Hj). reflexivity.
    - rewrite (cat_offset seqs (contbits seqs) j (contbits_length seqs)). unfold lenN. rewrite contbits_length. reflexivity.
  Qed.

  Lemma brank_at j : (j < length s)%nat ->
    exists r, dac_rank1 (b_bits d) (LI seqs j + N.of_nat (cnt j P)) = Some r /\
              r = RL seqs j + N.of_nat (cnt (S j) P) + (if longer (S j) s then 1 else 0) /\
              r <= LI seqs nL.
  Proof.
    intros Hj. pose proof bs_len as Hs. unfold d, the_bdac. cbn [b_bits]. unfold dac_rank1.
    assert (Hlen : lenN (cat (contbits seqs) nL) = LI seqs nL).
    { apply (cat_offset seqs (contbits seqs) _ (contbits_length seqs)). }
    rewrite Hlen.
    pose proof (bcntP_le j) as Hle. rewrite (longer_true j s Hj) in Hle.
    pose proof (LI_S seqs j) as HS. pose proof (LI_mono seqs (S j) nL ltac:(lia)) as Hm.
    replace (LI seqs j + N.of_nat (cnt j P) <? LI seqs nL) with true by (symmetry; apply N.ltb_lt; lia).
    eexists. split; [reflexivity|]. split.
    - replace (S (N.to_nat (LI seqs j + N.of_nat (cnt j P)))) with (length (cat (contbits seqs) j) + S (cnt j P))%nat.
      2: { pose proof (cat_offset seqs (contbits seqs) j (contbits_length seqs)) as Ho. unfold lenN in Ho. lia. }
      rewrite <- (app_nil_r (cat (contbits seqs) nL)).
      rewrite cat_firstn by (rewrite ?contbits_length; unfold sz in Hle; lia).
      rewrite Hsplit at 2. rewrite contbits_app, contbits_cons, (longer_true j s Hj). cbn [app].
      rewrite <- (contbits_length P j), firstn_mid.
      rewrite !dac_count_app, count_contbits. unfold RL. cbn [dac_count]. lia.
    - rewrite <- Hlen. etransitivity; [apply dac_count_le|].
      unfold lenN. rewrite firstn_length. lia.
  Qed.

  Lemma baccess_loop_spec : forall fuel j, (j < length s)%nat -> (nL <= fuel + j + 1)%nat ->
    bdac_access_loop d fuel (N.of_nat j) (LI seqs j + N.of_nat (cnt j P)) (firstn (S j) s) = Some s.
  Proof.
    pose proof bs_len as Hs.
    induction fuel as [|f IH]; intros j Hj Hfuel; rewrite bdac_access_loop_eq; rewrite (bbit_at j Hj); cbn [dac_bind].
    - rewrite (longer_false (S j) s) by lia. rewrite firstn_all2 by lia. reflexivity.
    - destruct (longer (S j) s) eqn:E.
      2: { apply Nat.ltb_ge in E. rewrite firstn_all2 by lia. reflexivity. }
      apply Nat.ltb_lt in E.
      destruct (brank_at j Hj) as (r & Hr & Hrv & Hrb). rewrite Hr. cbn [dac_bind].
      rewrite (longer_true (S j) s E) in Hrv.
      change (b_rankLevels d) with (map (RL seqs) (seq 0 nL)).
      rewrite (mapseq_nth (RL seqs) j nL) by (reflexivity || lia). cbn [dac_bind].
      pose proof (RL_le_LI seqs j) as HRL.
      pose proof (bcntP_le (S j)) as Hle. rewrite (longer_true (S j) s E) in Hle.
      pose proof (LI_S seqs (S j)) as HS. pose proof (LI_mono seqs (S (S j)) nL ltac:(lia)) as Hm.
      rewrite (dac_sub32_small r (RL seqs j)) by lia.
      replace (r - RL seqs j) with (N.of_nat (cnt (S j) P) + 1) by lia.
      rewrite (dac_add32_small (N.of_nat j) 1) by lia.
      replace (N.of_nat j + 1) with (N.of_nat (S j)) by lia.
      change (b_levelsIndex d) with (map (LI seqs) (seq 0 (S nL))).
      rewrite (mapseq_nth (LI seqs) (S j) (S nL)) by (reflexivity || lia). cbn [dac_bind].
      rewrite dac_add32_small by lia. rewrite dac_sub32_small by lia.
      replace (LI seqs (S j) + (N.of_nat (cnt (S j) P) + 1) - 1) with (LI seqs (S j) + N.of_nat (cnt (S j) P)) by lia.
      rewrite (bsym_at (S j) E). cbn [dac_bind].
      change (b_nLevels d) with (N.of_nat nL).
      replace (N.of_nat (S j) <? N.of_nat nL) with true by (symmetry; apply N.ltb_lt; lia).
      rewrite (firstn_S_nth s (S j) 0 E).
      rewrite dac_sub32_small by lia.
      destruct (N.eqb_spec (N.of_nat (S j)) (N.of_nat nL - 1)) as [Heq|Hneq].
      + rewrite firstn_all2 by lia. reflexivity.
      + apply IH; lia.
  Qed.

  Theorem baccess_at : bdac_access d (lenN P + 1) = Some s.
  Proof.
    pose proof bs_len as Hs. unfold bdac_access.
    pose proof (bcntP_le 0) as Hle. rewrite (longer_true 0 s) in Hle by lia. rewrite bcnt0P in Hle.
    pose proof (LI_S seqs 0) as HS. pose proof (LI_mono seqs 1 nL ltac:(lia)) as Hm.
    assert (H0 : LI seqs 0 = 0) by reflexivity.
    rewrite dac_sub32_small by (unfold lenN; lia).
    replace (lenN P + 1 - 1) with (LI seqs 0 + N.of_nat (cnt 0 P)) by (rewrite bcnt0P; unfold lenN; lia).
    rewrite (bsym_at 0) by lia. cbn [dac_bind].
    change (b_nLevels d) with (N.of_nat nL).
    replace (0 <? N.of_nat nL) with true by (symmetry; apply N.ltb_lt; lia).
    rewrite Nat2N.id.
    replace [nth 0 s 0] with (firstn 1 s) by (destruct s; [cbn in Hs; lia|reflexivity]).
    apply (baccess_loop_spec nL 0); lia.
  Qed.

  Lemma baccess_next_at j : (j < length s)%nat ->
    bdac_access_next d (N.of_nat j) (LI seqs j + N.of_nat (cnt j P) + 1)
    = Some (nth j s 0, if longer (S j) s then LI seqs (S j) + N.of_nat (cnt (S j) P) + 1 else dac_END).
  Proof.
    intros Hj. pose proof bs_len as Hs. unfold bdac_access_next.
    pose proof (bcntP_le j) as Hle0. rewrite (longer_true j s Hj) in Hle0.
    pose proof (LI_S seqs j) as HS0. pose proof (LI_mono seqs (S j) nL ltac:(lia)) as Hm0.
    rewrite dac_sub32_small by lia.
    replace (LI seqs j + N.of_nat (cnt j P) + 1 - 1) with (LI seqs j + N.of_nat (cnt j P)) by lia.
    rewrite (bsym_at j Hj). cbn [dac_bind].
    change (b_nLevels d) with (N.of_nat nL). rewrite dac_sub32_small by lia.
    destruct (N.eqb_spec (N.of_nat j) (N.of_nat nL - 1)) as [Heq|Hneq].
    - rewrite (longer_false (S j) s) by lia. reflexivity.
    - rewrite (bbit_at j Hj). cbn [dac_bind].
      destruct (longer (S j) s) eqn:E; [|reflexivity].
      apply Nat.ltb_lt in E.
      destruct (brank_at j Hj) as (r & Hr & Hrv & Hrb). rewrite Hr. cbn [dac_bind].
      rewrite (longer_true (S j) s E) in Hrv.
      change (b_rankLevels d) with (map (RL seqs) (seq 0 nL)).
      rewrite (mapseq_nth (RL seqs) j nL) by (reflexivity || lia). cbn [dac_bind].
      change (b_levelsIndex d) with (map (LI seqs) (seq 0 (S nL))).
      replace (N.of_nat j + 1) with (N.of_nat (S j)) by lia.
      rewrite (mapseq_nth (LI seqs) (S j) (S nL)) by (reflexivity || lia). cbn [dac_bind].
      pose proof (RL_le_LI seqs j) as HRL.
      pose proof (bcntP_le (S j)) as Hle. rewrite (longer_true (S j) s E) in Hle.
      pose proof (LI_S seqs (S j)) as HS. pose proof (LI_mono seqs (S (S j)) nL ltac:(lia)) as Hm.
      rewrite (dac_sub32_small r (RL seqs j)) by lia.
      rewrite dac_add32_small by lia. do 2 f_equal. lia.
  Qed.

  Lemma bpos_not_END j : (j < length s)%nat -> (LI seqs j + N.of_nat (cnt j P) + 1 =? dac_END) = false.
  Proof.
    intros Hj. pose proof bs_len as Hs.
    pose proof (bcntP_le j) as Hle0. rewrite (longer_true j s Hj) in Hle0.
    pose proof (LI_S seqs j) as HS0. pose proof (LI_mono seqs (S j) nL ltac:(lia)) as Hm0.
    apply N.eqb_neq. unfold dac_END. lia.
  Qed.

  Lemma bchain_at : forall fuel j, (j < length s)%nat -> (length s <= fuel + j)%nat ->
    bdac_chain d fuel (N.of_nat j) (LI seqs j + N.of_nat (cnt j P) + 1) = Some (skipn j s).
  Proof.
    induction fuel as [|f IH]; intros j Hj Hf; [lia|].
    cbn [bdac_chain]. rewrite (bpos_not_END j Hj), (baccess_next_at j Hj). cbn [dac_bind].
    replace (N.of_nat j + 1) with (N.of_nat (S j)) by lia.
    rewrite (skipn_nth_cons s j 0 Hj).
    destruct (longer (S j) s) eqn:E.
    - apply Nat.ltb_lt in E. rewrite IH by lia. reflexivity.
    - apply Nat.ltb_ge in E. rewrite bdac_chain_END. cbn [dac_bind]. rewrite (skipn_all2 s) by lia. reflexivity.
  Qed.

  Lemma bchain_bounded_at : forall k j, (j < length s)%nat -> (length s <= k + j)%nat ->
    bdac_chain_bounded d k (N.of_nat j) (LI seqs j + N.of_nat (cnt j P) + 1) = Some (skipn j s).
  Proof.
    induction k as [|k IH]; intros j Hj Hf; [lia|].
    cbn [bdac_chain_bounded]. rewrite (bpos_not_END j Hj), (baccess_next_at j Hj). cbn [dac_bind].
    replace (N.of_nat j + 1) with (N.of_nat (S j)) by lia.
    rewrite (skipn_nth_cons s j 0 Hj).
    destruct (longer (S j) s) eqn:E.
    - apply Nat.ltb_lt in E. rewrite IH by lia. reflexivity.
    - apply Nat.ltb_ge in E. rewrite bdac_chain_bounded_END. cbn [dac_bind]. rewrite (skipn_all2 s) by lia. reflexivity.
  Qed.

  Theorem bchain_from_start fuel : (nL <= fuel)%nat ->
    bdac_chain d fuel 0 (lenN P + 1) = Some s /\ bdac_chain_bounded d fuel 0 (lenN P + 1) = Some s.
  Proof.
    intros Hf. pose proof bs_len as Hs.
    replace (lenN P + 1) with (LI seqs 0 + N.of_nat (cnt 0 P) + 1)
      by (rewrite bcnt0P; unfold lenN; change (LI seqs 0) with 0; lia).
    split; [apply (bchain_at fuel 0)|apply (bchain_bounded_at fuel 0)]; lia.
  Qed.
End BAccess.

Lemma bdac_wf_sound seqs nL : bdac_wf seqs nL = true ->
  seqs <> [] /\ wf_seqs nL seqs /\ Forall (Forall (fun x => x < 256)) seqs /\
  N.of_nat nL + 1 < dac_U32 /\ LI seqs nL + 1 < dac_U32.
Proof.
  unfold bdac_wf. rewrite !andb_true_iff. intros [[[Hne Hall] Hlen] Hmax].
  apply N.ltb_lt in Hlen, Hmax.
  assert (Hne' : seqs <> []).
  { intros ->. cbn in Hne. discriminate. }
  rewrite forallb_forall in Hall.
  repeat split.
  - exact Hne'.
  - apply Forall_forall. intros s Hs. specialize (Hall s Hs).
    rewrite !andb_true_iff in Hall. destruct Hall as [[H0 H1] _].
    apply negb_true_iff, N.eqb_neq in H0. apply N.leb_le in H1. unfold lenN in *. lia.
  - apply Forall_forall. intros s Hs. specialize (Hall s Hs).
    rewrite !andb_true_iff in Hall. destruct Hall as [_ H2].
    apply (forallb_Forall _ (fun x => x < 256)) in H2; [exact H2|]. intros x Hx. apply N.ltb_lt. exact Hx.
  - exact Hmax.
  - unfold dac_flatten, lenN in Hlen. rewrite flatten_length in Hlen.
    pose proof (sum_cnt_le seqs nL) as Hs. unfold LI, sz.
    destruct seqs as [|s0 r]; [congruence|]. cbn [length] in Hlen. lia.
Qed.

Lemma wf_seqs_nL_pos nL seqs : seqs <> [] -> wf_seqs nL seqs -> (1 <= nL)%nat.
Proof. intros Hne Hwf. destruct seqs as [|s r]; [congruence|]. inversion Hwf; subst. lia. Qed.

(* the object built from the arrangement HASHUFFDAC computes *)
Theorem bdac_of_seqs_spec seqs nL : bdac_wf seqs nL = true -> bdac_of_seqs seqs nL = Some (the_bdac seqs nL).
Proof.
  intros H. destruct (bdac_wf_sound _ _ H) as (Hne & Hwf & Hsym & HnL & Hb).
  unfold bdac_of_seqs. rewrite bdac_layout_spec.
  rewrite (cat_offset seqs (level seqs) nL (level_length seqs)).
  rewrite <- (app_nil_r (map (LI seqs) (seq 0 nL))), <- (app_nil_r (map (fun j => dac_count (contbits seqs j)) (seq 0 nL))).
  apply bdac_make_spec; [apply (wf_seqs_nL_pos nL seqs Hne Hwf)|exact Hb].
Qed.

Theorem bdac_access_spec seqs nL d i :
  bdac_wf seqs nL = true -> bdac_of_seqs seqs nL = Some d -> 1 <= i <= lenN seqs ->
  bdac_access d i = Some (nth (N.to_nat (i - 1)) seqs []).
Proof.
  intros H Hd Hi. rewrite (bdac_of_seqs_spec _ _ H) in Hd. injection Hd as <-.
  destruct (bdac_wf_sound _ _ H) as (Hne & Hwf & Hsym & HnL & Hb).
  destruct (seqs_split_at seqs i Hi) as (P & R & E & ->).
  apply (baccess_at nL seqs Hwf ltac:(lia) Hb P _ R E).
Qed.

(* HashDAC::scmp's walk: id = pos + 1; level = 0; while (id != -1) { access_next(level, &id); level++ } *)
Theorem bdac_access_next_chain seqs nL d i fuel :
  bdac_wf seqs nL = true -> bdac_of_seqs seqs nL = Some d -> 1 <= i <= lenN seqs -> (nL <= fuel)%nat ->
  bdac_chain d fuel 0 i = Some (nth (N.to_nat (i - 1)) seqs []) /\
  bdac_chain_bounded d fuel 0 i = Some (nth (N.to_nat (i - 1)) seqs []).
Proof.
  intros H Hd Hi Hf. rewrite (bdac_of_seqs_spec _ _ H) in Hd. injection Hd as <-.
  destruct (bdac_wf_sound _ _ H) as (Hne & Hwf & Hsym & HnL & Hb).
  destruct (seqs_split_at seqs i Hi) as (P & R & E & ->).
  apply (bchain_from_start nL seqs Hwf ltac:(lia) Hb P _ R E fuel Hf).
Qed.

Theorem bdac_load_save d rest : bdac_obj_wf d = true -> bdac_load (bdac_save d ++ rest) = Some (d, rest).
Proof.
  unfold bdac_obj_wf. rewrite !andb_true_iff.
  intros [[[[[[[[Htam Hnl] Hlil] Hli] Hrll] Hrl] Hlvl] Hlv] Hbits].
  apply N.ltb_lt in Htam, Hnl, Hbits. apply N.eqb_eq in Hlil, Hrll, Hlvl.
  apply (forallb_Forall _ (fun x => x < dac_U32)) in Hli; [|intros x Hx; apply N.ltb_lt; exact Hx].
  apply (forallb_Forall _ (fun x => x < dac_U32)) in Hrl; [|intros x Hx; apply N.ltb_lt; exact Hx].
  unfold bdac_save, bdac_load. repeat rewrite <- app_assoc.
  assert (H32 : 256 ^ N.of_nat 4 = dac_U32) by reflexivity.
  rewrite (dac_rd_le 4 (b_tamCode d)) by (rewrite H32; exact Htam). cbn [dac_bind].
  rewrite (dac_rd_le 4 (b_nLevels d)) by (rewrite H32; lia). cbn [dac_bind].
  rewrite dac_add32_small by exact Hnl.
  rewrite (dac_rd_u32s_app (b_levelsIndex d)) by (assumption || (symmetry; assumption)). cbn [dac_bind].
  rewrite dac_take_app by exact Hlvl. cbn [dac_bind].
  rewrite (dac_rd_u32s_app (b_rankLevels d)) by (assumption || (symmetry; assumption)). cbn [dac_bind].
  rewrite dac_rg_load_save by exact Hbits. cbn [dac_bind].
  destruct d; reflexivity.
Qed.

Theorem bdac_build_obj_wf seqs nL : bdac_wf seqs nL = true -> bdac_obj_wf (the_bdac seqs nL) = true.
Proof.
  intros H. destruct (bdac_wf_sound _ _ H) as (Hne & Hwf & Hsym & HnL & Hb).
  pose proof (wf_seqs_nL_pos nL seqs Hne Hwf) as Hn1.
  unfold bdac_obj_wf.
  change (b_tamCode (the_bdac seqs nL)) with (LI seqs nL).
  change (b_nLevels (the_bdac seqs nL)) with (N.of_nat nL).
  change (b_levelsIndex (the_bdac seqs nL)) with (map (LI seqs) (seq 0 (S nL))).
  change (b_rankLevels (the_bdac seqs nL)) with (map (RL seqs) (seq 0 nL)).
  change (b_levels (the_bdac seqs nL)) with (cat (level seqs) nL).
  change (b_bits (the_bdac seqs nL)) with (cat (contbits seqs) nL).
  rewrite !andb_true_iff. repeat split.
  - apply N.ltb_lt. lia.
  - apply N.ltb_lt. lia.
  - apply N.eqb_eq. unfold lenN. rewrite map_length, seq_length. lia.
  - apply (forallb_of_Forall _ (fun x => x < dac_U32)); [intros x Hx; apply N.ltb_lt; exact Hx|].
    apply Forall_forall. intros x Hx. apply in_map_iff in Hx. destruct Hx as (k & <- & Hk). apply in_seq in Hk.
    pose proof (LI_mono seqs k nL ltac:(lia)). lia.
  - apply N.eqb_eq. unfold lenN. rewrite map_length, seq_length. reflexivity.
  - apply (forallb_of_Forall _ (fun x => x < dac_U32)); [intros x Hx; apply N.ltb_lt; exact Hx|].
    apply Forall_forall. intros x Hx. apply in_map_iff in Hx. destruct Hx as (k & <- & Hk). apply in_seq in Hk.
    pose proof (RL_le_LI seqs k). pose proof (LI_mono seqs k nL ltac:(lia)). lia.
  - apply N.eqb_eq. apply (cat_offset seqs (level seqs) nL (level_length seqs)).
  - apply (forallb_of_Forall _ (fun x => x < 2 ^ 8)); [intros x Hx; apply N.ltb_lt; exact Hx|].
    apply level_syms_bound. exact Hsym.
  - apply N.ltb_lt. rewrite (cat_offset seqs (contbits seqs) nL (contbits_length seqs)).
    assert (dac_U32 < 2 ^ 64) by (vm_compute; reflexivity). lia.
Qed.

Theorem bdac_build_load_save seqs nL d rest :
  bdac_wf seqs nL = true -> bdac_of_seqs seqs nL = Some d -> bdac_load (bdac_save d ++ rest) = Some (d, rest).
Proof.
  intros H Hd. rewrite (bdac_of_seqs_spec _ _ H) in Hd. injection Hd as <-.
  apply bdac_load_save, bdac_build_obj_wf, H.
Qed.
