(* C03 / C18 -- the BYTE-level comparison StringDictionaryHTFC::locateBucket performs on Hu-Tucker
   encoded bucket headers:

       cmp = memcmp(header, encodedQuery, encodedLen);      (StringDictionaryHTFC.cpp, locateBucket)

   where  encodedQuery = coder->encodeString(str, strLen+1, &encLen, &offset)   (locate: the query
   INCLUDING its NUL, zero padded to a byte)  and  header  points at the bucket's header, which the
   constructor wrote the same way (symbols of the header string, then the NUL symbol, "if (offset>0)
   bytes++" = zero padding to the byte) followed by the rest of the bucket / the next buckets.

   CodesProofs.v proves the BIT-level facts (alphabetic_encode_monotone, pack_string_bits).  This file
   lifts them to what memcmp sees:

     1. memcmp_bytes / memcmp_msb_bits   : memcmp on unsigned bytes = lexicographic comparison of the
                                           MSB-first bit expansions over 8n bits
     2. ht_header_memcmp_cmp / _spec     : memcmp(E h ++ rest, E q, |E q|) = lex_compare h q
     3. ht_locate_bucket_order           : along sorted headers the outcomes are Lt..Lt [Eq] Gt..Gt

   No model of its own beyond memcmp_bytes / bits_cmp (small, executable). *)
From LibCSD Require Import Base Spec SpecProofs CodesDefs CodesProofs.
From Coq Require Import Sorted Lia ZifyBool ZifyNat ZifyN.
Ltac Zify.zify_post_hook ::= Z.to_euclidean_division_equations.
Local Open Scope N_scope.

(* ------------------------------------------------------------------ 1. memcmp *)

(* memcmp(a, b, n) on unsigned bytes: sign of the first differing byte pair; [None] = one of the two
   buffers holds fewer than n bytes (the C call reads out of bounds: n bytes of BOTH must be readable). *)
Fixpoint memcmp_bytes (a b : list N) (n : nat) {struct n} : option comparison :=
  match n with
  | O => Some Eq
  | S k => match a, b with
           | x :: a', y :: b' =>
             match memcmp_bytes a' b' k with
             | Some r => Some (match x ?= y with Eq => r | c => c end)
             | None => None
             end
           | _, _ => None
           end
  end.

(* lexicographic comparison of bit strings, false < true, a proper prefix is smaller *)
Fixpoint bits_cmp (a b : list bool) : comparison :=
  match a, b with
  | [], [] => Eq
  | [], _ :: _ => Lt
  | _ :: _, [] => Gt
  | x :: a', y :: b' => if Bool.eqb x y then bits_cmp a' b' else if x then Gt else Lt
  end.

Lemma memcmp_bytes_None : forall n a b,
  memcmp_bytes a b n = None <-> (length a < n \/ length b < n)%nat.
Proof.
  induction n as [|k IH]; intros a b.
  - cbn. split; [intros HH; discriminate HH|lia].
  - destruct a as [|x a]; [cbn; split; [lia|reflexivity]|].
    destruct b as [|y b]; [cbn; split; [lia|reflexivity]|].
    cbn [memcmp_bytes length]. specialize (IH a b).
    destruct (memcmp_bytes a b k) as [r|].
    + split; [intros HH; discriminate HH|]. intros H. assert (HH : (length a < k \/ length b < k)%nat) by lia.
      apply IH in HH. discriminate.
    + split; [|reflexivity]. intros _. destruct IH as [IH _]. specialize (IH eq_refl). lia.
Qed.

Lemma memcmp_bytes_Some n a b : (n <= length a)%nat -> (n <= length b)%nat ->
  exists c, memcmp_bytes a b n = Some c.
Proof.
  intros Ha Hb. destruct (memcmp_bytes a b n) as [c|] eqn:E; [eauto|].
  apply memcmp_bytes_None in E. lia.
Qed.

Lemma bits_cmp_refl a : bits_cmp a a = Eq.
Proof. induction a as [|x a IH]; [reflexivity|]. cbn [bits_cmp]. rewrite Bool.eqb_reflx. exact IH. Qed.

Lemma bits_cmp_app : forall a b x y, length a = length b ->
  bits_cmp (a ++ x) (b ++ y) = match bits_cmp a b with Eq => bits_cmp x y | c => c end.
Proof.
  induction a as [|u a IH]; intros [|v b] x y L; try discriminate; [reflexivity|].
  cbn [app bits_cmp]. destruct (Bool.eqb u v).
  - apply IH. cbn in L. lia.
  - destruct u; reflexivity.
Qed.

(* an unsigned n-bit comparison is the lexicographic comparison of the MSB-first bits *)
Lemma compare_bits_of : forall (n : nat) x y, x < 2 ^ N.of_nat n -> y < 2 ^ N.of_nat n ->
  (x ?= y) = bits_cmp (bits_of n x) (bits_of n y).
Proof.
  induction n as [|k IH]; intros x y Hx Hy.
  - cbn in Hx, Hy. assert (x = 0) by lia. assert (y = 0) by lia. subst. reflexivity.
  - cbn [bits_of bits_cmp]. rewrite !N.testbit_eqb.
    rewrite <- (bits_of_mod k k x), <- (bits_of_mod k k y) by lia.
    assert (E2 : 2 ^ N.of_nat (S k) = 2 * 2 ^ N.of_nat k).
    { rewrite Nat2N.inj_succ, N.pow_succ_r'. reflexivity. }
    rewrite E2 in Hx, Hy.
    set (p := 2 ^ N.of_nat k) in *.
    assert (Hp : 0 < p) by apply pow2_pos.
    assert (Hxl : x mod p < p) by (apply N.mod_lt; lia).
    assert (Hyl : y mod p < p) by (apply N.mod_lt; lia).
    rewrite <- (IH (x mod p) (y mod p) Hxl Hyl).
    pose proof (N.div_mod x p ltac:(lia)) as Ex. pose proof (N.div_mod y p ltac:(lia)) as Ey.
    assert (Qx : x / p < 2) by (apply N.div_lt_upper_bound; lia).
    assert (Qy : y / p < 2) by (apply N.div_lt_upper_bound; lia).
    set (qx := x / p) in *. set (qy := y / p) in *.
    set (rx := x mod p) in *. set (ry := y mod p) in *.
    assert (Cx : qx = 0 \/ qx = 1) by lia. assert (Cy : qy = 0 \/ qy = 1) by lia.
    destruct Cx as [Cx|Cx], Cy as [Cy|Cy]; rewrite Cx, Cy in *;
      change (0 mod 2 =? 1) with false; change (1 mod 2 =? 1) with true; cbn [Bool.eqb].
    + destruct (N.compare_spec rx ry) as [H|H|H];
        [apply N.compare_eq_iff|apply N.compare_lt_iff|apply N.compare_gt_iff]; lia.
    + apply N.compare_lt_iff. lia.
    + apply N.compare_gt_iff. lia.
    + destruct (N.compare_spec rx ry) as [H|H|H];
        [apply N.compare_eq_iff|apply N.compare_lt_iff|apply N.compare_gt_iff]; lia.
Qed.

Lemma bits_of_bytes_cons x l : bits_of_bytes (x :: l) = bits_of 8 x ++ bits_of_bytes l.
Proof. reflexivity. Qed.

Lemma bits_of_bytes_length l : length (bits_of_bytes l) = (8 * length l)%nat.
Proof.
  induction l as [|b l IH]; [reflexivity|].
  rewrite bits_of_bytes_cons, app_length, bits_of_length, IH. cbn [length]. lia.
Qed.

(* memcmp over n bytes = lexicographic comparison of the first 8n bits (MSB first) *)
Theorem memcmp_msb_bits : forall n a b,
  Forall (fun x => x < 256) a -> Forall (fun x => x < 256) b ->
  (n <= length a)%nat -> (n <= length b)%nat ->
  memcmp_bytes a b n =
  Some (bits_cmp (firstn (8 * n) (bits_of_bytes a)) (firstn (8 * n) (bits_of_bytes b))).
Proof.
  induction n as [|k IH]; intros a b Fa Fb La Lb.
  - reflexivity.
  - destruct a as [|x a]; [cbn in La; lia|]. destruct b as [|y b]; [cbn in Lb; lia|].
    inversion Fa as [|? ? Hx Fa']; subst. inversion Fb as [|? ? Hy Fb']; subst.
    cbn [length] in La, Lb.
    cbn [memcmp_bytes]. rewrite (IH a b Fa' Fb') by lia.
    rewrite !bits_of_bytes_cons.
    replace (8 * S k)%nat with (length (bits_of 8 x) + 8 * k)%nat at 1 by (rewrite bits_of_length; lia).
    replace (8 * S k)%nat with (length (bits_of 8 y) + 8 * k)%nat by (rewrite bits_of_length; lia).
    rewrite !firstn_app_2.
    rewrite bits_cmp_app by (rewrite !bits_of_length; reflexivity).
    rewrite <- (compare_bits_of 8 x y) by (change (2 ^ N.of_nat 8) with 256; assumption).
    destruct (x ?= y); reflexivity.
Qed.

(* the general form: [None] exactly when a buffer is too short *)
Corollary memcmp_msb_bits_opt n a b :
  Forall (fun x => x < 256) a -> Forall (fun x => x < 256) b ->
  memcmp_bytes a b n =
  if ((n <=? length a) && (n <=? length b))%nat
  then Some (bits_cmp (firstn (8 * n) (bits_of_bytes a)) (firstn (8 * n) (bits_of_bytes b)))
  else None.
Proof.
  intros Fa Fb. destruct (Nat.leb_spec n (length a)) as [Ha|Ha]; cbn [andb].
  - destruct (Nat.leb_spec n (length b)) as [Hb|Hb].
    + apply memcmp_msb_bits; assumption.
    + apply memcmp_bytes_None. lia.
  - apply memcmp_bytes_None. lia.
Qed.

(* a bit position inside both strings where they differ decides the comparison, whatever follows *)
Lemma bits_cmp_firstn_decided : forall m n x y, (length m < n)%nat ->
  bits_cmp (firstn n (m ++ false :: x)) (firstn n (m ++ true :: y)) = Lt /\
  bits_cmp (firstn n (m ++ true :: x)) (firstn n (m ++ false :: y)) = Gt.
Proof.
  induction m as [|b m IH]; intros n x y L.
  - destruct n as [|n]; [cbn in L; lia|]. cbn. auto.
  - destruct n as [|n]; [cbn in L; lia|]. cbn [app firstn bits_cmp]. rewrite Bool.eqb_reflx.
    apply IH. cbn in L. lia.
Qed.

(* ------------------------------------------------------------------ 2. encoded bytes are bytes *)

Definition pbytes (st : pstate) : Prop :=
  let '(out, cur, _) := st in Forall (fun x => x < 256) out /\ cur < 256.

Lemma lor_lt256 a b : a < 256 -> b < 256 -> N.lor a b < 256.
Proof.
  intros Ha Hb. change 256 with (2 ^ 8) in *. apply lt_pow2_of_bits. intros k Hk.
  rewrite N.lor_spec, (testbit_lt_pow2_false a k 8 Ha Hk), (testbit_lt_pow2_false b k 8 Hb Hk).
  reflexivity.
Qed.

Lemma code_byte_lt256 c b p o : code_byte c b p o < 256.
Proof. unfold code_byte. apply N.mod_lt. lia. Qed.

Lemma pack_loop_bytes : forall fuel cwd bits p st, pbytes st -> pbytes (pack_loop fuel cwd bits p st).
Proof.
  induction fuel as [|f IH]; intros cwd bits p [[out cur] off] [Ho Hc].
  - cbn [pack_loop]. split; assumption.
  - cbn [pack_loop]. destruct (8 - off <=? bits - p).
    + apply IH. split; [|lia]. apply Forall_app. split; [exact Ho|].
      constructor; [|constructor]. apply lor_lt256; [exact Hc|apply code_byte_lt256].
    + destruct (p <? bits).
      * split; [exact Ho|]. apply lor_lt256; [exact Hc|apply code_byte_lt256].
      * split; assumption.
Qed.

Lemma pack_symbols_bytes cws : forall s st st', pbytes st -> pack_symbols cws s st = Some st' -> pbytes st'.
Proof.
  induction s as [|x s IH]; intros st st' Hb H.
  - cbn in H. injection H as <-. exact Hb.
  - cbn [pack_symbols] in H. destruct (nthN cws x) as [c|]; [|discriminate].
    eapply IH; [|exact H]. unfold pack_symbol. apply pack_loop_bytes. exact Hb.
Qed.

(* every byte StatCoder::encodeString returns is < 256 (trivially true of a uchar buffer; here a theorem
   about the model, needed because the model's bytes are unbounded N) *)
Lemma pack_string_bytes cws s bytes off : pack_string cws s = Some (bytes, off) ->
  Forall (fun x => x < 256) bytes.
Proof.
  unfold pack_string. intros H.
  destruct (pack_symbols cws s ([], 0, 0)) as [st'|] eqn:E; [|discriminate]. injection H as <- _.
  assert (Hb : pbytes st').
  { eapply pack_symbols_bytes; [|exact E]. split; [constructor|lia]. }
  destruct st' as [[out cur] o]. destruct Hb as [Ho Hc]. cbn [final_bytes].
  destruct (0 <? o); [|exact Ho]. apply Forall_app. split; [exact Ho|]. constructor; [exact Hc|constructor].
Qed.

(* ------------------------------------------------------------------ 3. first difference of two
   NUL-terminated symbol strings, at the bit level *)

(* c <lex d and c not a prefix of d: they share a prefix m after which c has 0 and d has 1 *)
Lemma bits_ltb_split : forall a b, bits_ltb a b = true -> ~ is_prefix a b ->
  exists m x y, a = m ++ false :: x /\ b = m ++ true :: y.
Proof.
  induction a as [|h a IH]; intros b L NP.
  - exfalso. apply NP. exists b. reflexivity.
  - destruct b as [|h' b]; [discriminate|]. cbn [bits_ltb] in L.
    destruct (Bool.eqb h h') eqn:E.
    + apply Bool.eqb_prop in E. subst h'.
      destruct (IH b L) as [m [x [y [-> ->]]]].
      { intros P. apply NP. apply is_prefix_cons. auto. }
      exists (h :: m), x, y. auto.
    + destruct h; [discriminate|]. destruct h'; [|discriminate].
      exists [], a, b. auto.
Qed.

(* symbols a < b of an alphabetic prefix-free table: the codewords differ at a position inside BOTH
   of them, with 0 in the codeword of a and 1 in the codeword of b *)
Lemma codes_decided cws a b ca cb :
  prefix_free (table_codes cws) -> alphabetic (table_codes cws) -> a < b ->
  nthN cws a = Some ca -> nthN cws b = Some cb ->
  exists m x y, cw_bits ca = m ++ false :: x /\ cw_bits cb = m ++ true :: y.
Proof.
  intros PF AL Hab Ha Hb.
  apply nthN_table_codes in Ha. apply nthN_table_codes in Hb.
  apply bits_ltb_split.
  - apply (AL _ _ _ _ Ha Hb). lia.
  - intros P. pose proof (PF _ _ _ _ Ha Hb P). lia.
Qed.

(* THE place where "NUL is the least symbol" is used: the codeword of the terminator is decided-smaller
   than the codeword of any string symbol (table index 0 < every b <> 0), so the shorter of two strings
   one of which is a proper prefix of the other is ordered first, inside the codewords themselves. *)
Lemma nul_code_least cws b c0 cb :
  prefix_free (table_codes cws) -> alphabetic (table_codes cws) -> b <> 0 ->
  nthN cws 0 = Some c0 -> nthN cws b = Some cb ->
  exists m x y, cw_bits c0 = m ++ false :: x /\ cw_bits cb = m ++ true :: y.
Proof. intros PF AL Hb. apply codes_decided; [assumption|assumption|lia]. Qed.

Lemma encode_bits_cons_inv cws x s enc : encode_bits cws (x :: s) = Some enc ->
  exists c e, nthN cws x = Some c /\ encode_bits cws s = Some e /\ enc = cw_bits c ++ e.
Proof.
  rewrite encode_bits_cons. destruct (nthN cws x) as [c|]; [|discriminate]. cbn [option_map].
  destruct (encode_bits cws s) as [e|]; [|discriminate]. intros H. injection H as <-. eauto.
Qed.

(* the encodings of two different NUL-free strings, each followed by its NUL, differ at a bit position
   that lies inside BOTH encodings (never in padding or in what follows), in the direction of the
   string order *)
Lemma enc_first_diff cws :
  prefix_free (table_codes cws) -> alphabetic (table_codes cws) ->
  forall h q es et, Forall (fun b => b <> 0) h -> Forall (fun b => b <> 0) q -> h <> q ->
  encode_bits cws (h ++ [0]) = Some es -> encode_bits cws (q ++ [0]) = Some et ->
  exists m x y,
    (lex_compare h q = Lt /\ es = m ++ false :: x /\ et = m ++ true :: y) \/
    (lex_compare h q = Gt /\ es = m ++ true :: x /\ et = m ++ false :: y).
Proof.
  intros PF AL. induction h as [|a h IH]; intros q es et Fh Fq Hne Hs Ht.
  - (* h = [] is a proper prefix of q: NUL against the first symbol of q *)
    destruct q as [|b q]; [congruence|]. inversion Fq as [|? ? Hb _]; subst.
    cbn [app] in Hs, Ht.
    apply encode_bits_cons_inv in Hs. destruct Hs as [c0 [e0 [H0 [_ ->]]]].
    apply encode_bits_cons_inv in Ht. destruct Ht as [cb [eb [Hcb [_ ->]]]].
    destruct (nul_code_least cws b c0 cb PF AL Hb H0 Hcb) as [m [x [y [-> ->]]]].
    exists m, (x ++ e0), (y ++ eb). left. rewrite <- !app_assoc. cbn [app]. auto.
  - inversion Fh as [|? ? Ha Fh']; subst.
    destruct q as [|b q].
    + (* q = [] is a proper prefix of h: first symbol of h against NUL *)
      cbn [app] in Hs, Ht.
      apply encode_bits_cons_inv in Hs. destruct Hs as [ca [ea [Hca [_ ->]]]].
      apply encode_bits_cons_inv in Ht. destruct Ht as [c0 [e0 [H0 [_ ->]]]].
      destruct (nul_code_least cws a c0 ca PF AL Ha H0 Hca) as [m [x [y [-> ->]]]].
      exists m, (y ++ ea), (x ++ e0). right. rewrite <- !app_assoc. cbn [app]. auto.
    + inversion Fq as [|? ? Hb Fq']; subst.
      rewrite <- !app_comm_cons in Hs, Ht.
      apply encode_bits_cons_inv in Hs. destruct Hs as [ca [ea [Hca [Hea ->]]]].
      apply encode_bits_cons_inv in Ht. destruct Ht as [cb [eb [Hcb [Heb ->]]]].
      cbn [lex_compare]. destruct (N.compare_spec a b) as [E|L|G].
      * (* same symbol: same codeword, go on *)
        subst b. rewrite Hca in Hcb. injection Hcb as <-.
        destruct (IH q ea eb Fh' Fq' ltac:(congruence) Hea Heb) as [m [x [y [[Hc [-> ->]]|[Hc [-> ->]]]]]].
        -- exists (cw_bits ca ++ m), x, y. left. rewrite <- !app_assoc. auto.
        -- exists (cw_bits ca ++ m), x, y. right. rewrite <- !app_assoc. auto.
      * destruct (codes_decided cws a b ca cb PF AL L Hca Hcb) as [m [x [y [-> ->]]]].
        exists m, (x ++ ea), (y ++ eb). left. rewrite <- !app_assoc. cbn [app]. auto.
      * destruct (codes_decided cws b a cb ca PF AL G Hcb Hca) as [m [x [y [-> ->]]]].
        exists m, (y ++ ea), (x ++ eb). right. rewrite <- !app_assoc. cbn [app]. auto.
Qed.

(* ------------------------------------------------------------------ 4. the comparison of locateBucket *)

(* encodeString(s, |s|+1): the bytes of the encoded string with its terminator *)
Definition ht_enc (cws : list cw) (s : list N) : option (list N) :=
  option_map fst (pack_string cws (s ++ [0])).

(* Main theorem.  bh = encoded header as the constructor stores it, rest = whatever follows it in
   textStrings (internal strings of the bucket, later buckets, the final byte), bq = encoded query.
   Hypotheses: the three verified checkers on the table (run on the table the real builder produced),
   NUL-free strings (valid strings have bytes >= 2), memory bytes are bytes, and the memcmp does not
   read past the text (see ht_header_memcmp_overread for the other case). *)
Theorem ht_header_memcmp_cmp cws h q bh oh bq oq rest :
  check_prefix_free cws = true -> check_alphabetic cws = true -> check_lengths cws = true ->
  Forall (fun b => b <> 0) h -> Forall (fun b => b <> 0) q ->
  pack_string cws (h ++ [0]) = Some (bh, oh) -> pack_string cws (q ++ [0]) = Some (bq, oq) ->
  Forall (fun x => x < 256) rest ->
  (length bq <= length (bh ++ rest))%nat ->
  memcmp_bytes (bh ++ rest) bq (length bq) = Some (lex_compare h q).
Proof.
  intros CP CA CL Fh Fq Ph Pq Fr Len.
  pose proof (check_prefix_free_sound _ CP) as PF.
  pose proof (check_alphabetic_sound _ CA) as AL.
  pose proof (check_lengths_sound _ CL) as LO.
  rewrite memcmp_msb_bits; [|apply Forall_app; split; [exact (pack_string_bytes _ _ _ _ Ph)|exact Fr]
                            |exact (pack_string_bytes _ _ _ _ Pq)|exact Len|lia].
  f_equal.
  destruct (list_eq_dec N.eq_dec h q) as [E|NE].
  - (* h = q: both were padded identically, the first |bq| bytes of the text ARE bq *)
    subst q. rewrite Ph in Pq. injection Pq as <- <-.
    rewrite bits_of_bytes_app, <- bits_of_bytes_length, firstn_app, Nat.sub_diag, firstn_O, app_nil_r.
    rewrite bits_cmp_refl, lex_compare_refl. reflexivity.
  - (* h <> q: the first differing bit lies inside both encodings *)
    destruct (pack_string_bits cws _ bh oh LO Ph) as [eh [Eh [Bh _]]].
    destruct (pack_string_bits cws _ bq oq LO Pq) as [eq [Eq' [Bq _]]].
    destruct (enc_first_diff cws PF AL h q eh eq Fh Fq NE Eh Eq') as [m [x [y [[Hc [-> ->]]|[Hc [-> ->]]]]]].
    + rewrite Hc, bits_of_bytes_app, Bh, Bq, <- !app_assoc. cbn [app].
      apply bits_cmp_firstn_decided.
      rewrite <- bits_of_bytes_length, Bq, !app_length. cbn [length]. lia.
    + rewrite Hc, bits_of_bytes_app, Bh, Bq, <- !app_assoc. cbn [app].
      apply bits_cmp_firstn_decided.
      rewrite <- bits_of_bytes_length, Bq, !app_length. cbn [length]. lia.
Qed.

Lemma lex_compare_gt_lt a b : lex_compare a b = Gt <-> lex_lt b a.
Proof.
  unfold lex_lt. rewrite (lex_compare_antisym a b).
  destruct (lex_compare a b); cbn; split; congruence.
Qed.

(* the form of the property: <0 / 0 / >0 of the memcmp are string order / equality *)
Theorem ht_header_memcmp_spec cws h q bh oh bq oq rest :
  check_prefix_free cws = true -> check_alphabetic cws = true -> check_lengths cws = true ->
  Forall (fun b => b <> 0) h -> Forall (fun b => b <> 0) q ->
  pack_string cws (h ++ [0]) = Some (bh, oh) -> pack_string cws (q ++ [0]) = Some (bq, oq) ->
  Forall (fun x => x < 256) rest ->
  (length bq <= length (bh ++ rest))%nat ->
  exists c, memcmp_bytes (bh ++ rest) bq (length bq) = Some c /\
            (c = Eq <-> h = q) /\ (c = Lt <-> lex_lt h q) /\ (c = Gt <-> lex_lt q h).
Proof.
  intros. exists (lex_compare h q). split; [eapply ht_header_memcmp_cmp; eassumption|].
  split; [apply lex_compare_eq_iff|]. split; [reflexivity|apply lex_compare_gt_lt].
Qed.

(* the excluded case: when fewer than |bq| bytes of text remain after the header's start, the memcmp
   of locateBucket reads past the text (known finding: a long query against the last header). *)
Lemma ht_header_memcmp_overread text bq : (length text < length bq)%nat ->
  memcmp_bytes text bq (length bq) = None.
Proof. intros H. apply memcmp_bytes_None. lia. Qed.

(* totality: symbols in range => encodeString succeeds, so the hypotheses "pack_string = Some" hold *)
Lemma ht_enc_total cws s : (0 < lenN cws) -> Forall (fun x => x < lenN cws) s ->
  exists b o, pack_string cws (s ++ [0]) = Some (b, o).
Proof.
  intros H0 F. unfold pack_string.
  destruct (pack_symbols_total cws (s ++ [0]) ([], 0, 0)) as [st' ->].
  { apply Forall_app. split; [exact F|]. constructor; [exact H0|constructor]. }
  eauto.
Qed.

(* ------------------------------------------------------------------ 5. what the binary search needs *)

Lemma map_cmp_all_gt q : forall r, Forall (lex_lt q) r ->
  map (fun h => lex_compare h q) r = repeat Gt (length r).
Proof.
  induction 1 as [|h r Hh _ IH]; [reflexivity|]. cbn [map length repeat]. rewrite IH. f_equal.
  apply lex_compare_gt_lt. exact Hh.
Qed.

(* comparing a fixed q against an increasing sequence: Lt...Lt, at most one Eq, Gt...Gt *)
Lemma sorted_cmp_shape q : forall hs, sorted_lt hs ->
  exists na e ng, map (fun h => lex_compare h q) hs = repeat Lt na ++ e ++ repeat Gt ng /\
                  (e = [] \/ e = [Eq]) /\ (e = [Eq] <-> In q hs).
Proof.
  induction hs as [|h r IH]; intros Hs.
  - exists O, [], O. cbn. split; [reflexivity|]. split; [auto|]. split; [intros HH; discriminate HH|tauto].
  - pose proof (sorted_head_lt _ _ Hs) as Hall. pose proof (sorted_tail _ _ Hs) as St.
    destruct (lex_compare h q) eqn:C.
    + apply lex_compare_eq in C. subst h. exists O, [Eq], (length r). cbn [map repeat app].
      rewrite lex_compare_refl, (map_cmp_all_gt q r Hall). split; [reflexivity|].
      split; [auto|]. split; [intros _; left; reflexivity|reflexivity].
    + destruct (IH St) as [na [e [ng [Hm [He Hin]]]]].
      exists (S na), e, ng. cbn [map repeat app]. rewrite C, Hm. split; [reflexivity|]. split; [exact He|].
      rewrite Hin. cbn [In]. split; [auto|]. intros [->|H]; [|exact H].
      rewrite lex_compare_refl in C. discriminate.
    + apply lex_compare_gt_lt in C.
      assert (Hall' : Forall (lex_lt q) r).
      { eapply Forall_impl; [|exact Hall]. intros t Ht. eapply lex_lt_trans; eassumption. }
      exists O, [], (S (length r)). cbn [map repeat app].
      rewrite (map_cmp_all_gt q r Hall'). rewrite (proj2 (lex_compare_gt_lt h q) C).
      split; [reflexivity|]. split; [auto|]. split; [intros HH; discriminate HH|].
      intros [->|Hin]; [exact (False_ind _ (lex_lt_irrefl _ C))|].
      rewrite Forall_forall in Hall'. exact (False_ind _ (lex_lt_irrefl _ (Hall' _ Hin))).
Qed.

(* pairwise form: h1 < h2 *)
Lemma cmp_monotone_pair h1 h2 q : lex_lt h1 h2 ->
  (lex_compare h2 q <> Gt -> lex_compare h1 q = Lt) /\
  (lex_compare h1 q <> Lt -> lex_compare h2 q = Gt).
Proof.
  intros H12. split.
  - intros H. destruct (lex_compare h2 q) eqn:C; [| |congruence].
    + apply lex_compare_eq in C. subst. exact H12.
    + eapply lex_lt_trans; eassumption.
  - intros H. destruct (lex_compare h1 q) eqn:C; [| congruence |].
    + apply lex_compare_eq in C. subst. apply lex_compare_gt_lt. exact H12.
    + apply lex_compare_gt_lt. apply lex_compare_gt_lt in C. eapply lex_lt_trans; eassumption.
Qed.

(* one probe of the binary search: the bucket whose header string is [fst t] and whose following
   bytes are [snd t] *)
Definition ht_probe (cws : list cw) (bq : list N) (t : str * list N) : option comparison :=
  match ht_enc cws (fst t) with
  | Some bh => memcmp_bytes (bh ++ snd t) bq (length bq)
  | None => None
  end.

(* what must hold of each bucket for the probe to be defined *)
Definition ht_bucket_ok (cws : list cw) (bq : list N) (t : str * list N) : Prop :=
  Forall (fun b => b <> 0) (fst t) /\ Forall (fun x => x < 256) (snd t) /\
  exists bh, ht_enc cws (fst t) = Some bh /\ (length bq <= length (bh ++ snd t))%nat.

Lemma ht_probe_cmp cws q bq oq t :
  check_prefix_free cws = true -> check_alphabetic cws = true -> check_lengths cws = true ->
  Forall (fun b => b <> 0) q -> pack_string cws (q ++ [0]) = Some (bq, oq) ->
  ht_bucket_ok cws bq t -> ht_probe cws bq t = Some (lex_compare (fst t) q).
Proof.
  intros CP CA CL Fq Pq [Fh [Fr [bh [Eh Len]]]]. unfold ht_probe. rewrite Eh.
  unfold ht_enc in Eh. destruct (pack_string cws (fst t ++ [0])) as [[b o]|] eqn:Ph; [|discriminate].
  cbn in Eh. injection Eh as ->.
  eapply ht_header_memcmp_cmp; eassumption.
Qed.

Lemma map_Some_repeat {A} (c : A) n : map Some (repeat c n) = repeat (Some c) n.
Proof. induction n as [|n IH]; [reflexivity|]. cbn. rewrite IH. reflexivity. Qed.

(* Corollary: along the sorted headers the memcmp outcomes against a fixed query are
   Lt ... Lt, at most one Eq (exactly when q is a header), Gt ... Gt *)
Theorem ht_locate_bucket_order cws q bq oq (ts : list (str * list N)) :
  check_prefix_free cws = true -> check_alphabetic cws = true -> check_lengths cws = true ->
  Forall (fun b => b <> 0) q -> pack_string cws (q ++ [0]) = Some (bq, oq) ->
  Forall (ht_bucket_ok cws bq) ts ->
  sorted_lt (map fst ts) ->
  exists na e ng,
    map (ht_probe cws bq) ts = repeat (Some Lt) na ++ e ++ repeat (Some Gt) ng /\
    (e = [] \/ e = [Some Eq]) /\ (e = [Some Eq] <-> In q (map fst ts)).
Proof.
  intros CP CA CL Fq Pq Fok Hs.
  assert (M : map (ht_probe cws bq) ts = map Some (map (fun h => lex_compare h q) (map fst ts))).
  { rewrite !map_map. apply map_ext_in. intros t Ht. rewrite Forall_forall in Fok.
    eapply ht_probe_cmp; eauto. }
  destruct (sorted_cmp_shape q _ Hs) as [na [e [ng [Hm [He Hin]]]]].
  exists na, (map Some e), ng. rewrite M, Hm, !map_app, !map_Some_repeat.
  split; [reflexivity|]. split.
  - destruct He as [->| ->]; cbn; auto.
  - rewrite <- Hin. destruct He as [->| ->]; cbn; split; congruence.
Qed.

(* pairwise form on two buckets with h1 < h2: never (Gt or Eq) before (Lt or Eq) *)
Theorem ht_probe_monotone cws q bq oq t1 t2 :
  check_prefix_free cws = true -> check_alphabetic cws = true -> check_lengths cws = true ->
  Forall (fun b => b <> 0) q -> pack_string cws (q ++ [0]) = Some (bq, oq) ->
  ht_bucket_ok cws bq t1 -> ht_bucket_ok cws bq t2 -> lex_lt (fst t1) (fst t2) ->
  exists c1 c2, ht_probe cws bq t1 = Some c1 /\ ht_probe cws bq t2 = Some c2 /\
                (c2 <> Gt -> c1 = Lt) /\ (c1 <> Lt -> c2 = Gt).
Proof.
  intros CP CA CL Fq Pq O1 O2 L.
  exists (lex_compare (fst t1) q), (lex_compare (fst t2) q).
  split; [eapply ht_probe_cmp; eassumption|]. split; [eapply ht_probe_cmp; eassumption|].
  apply cmp_monotone_pair. exact L.
Qed.
